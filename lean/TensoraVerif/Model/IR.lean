/-
M6 (syntax) + M7: the intermediate representation of `src/tensora/ir/ast.py`, constructor for
constructor (binary operators share one constructor with an operator tag), and the peephole
optimiser of `src/tensora/ir/_peephole.py`, rule for rule.
-/
namespace TV.IR

inductive Ty where
  | bool | int | float | tensor | mode
  | ptr (t : Ty)
  | arr (t : Ty)
  | fixedArr (t : Ty) (n : Nat)
  deriving DecidableEq, Repr, Inhabited

inductive BinOp where
  | add | sub | mul | eq | ne | gt | lt | ge | le | and | or | max | min
  deriving DecidableEq, Repr, Inhabited

/-- Floating-point carrier: what the IR needs from it. `eq` is IEEE `==` (so `0.0 == -0.0`). -/
class FloatOps (F : Type) where
  zero : F
  one : F
  add : F → F → F
  sub : F → F → F
  mul : F → F → F
  ofInt : Int → F
  lt : F → F → Bool
  eq : F → F → Bool
  finite : F → Bool

inductive Expr (F : Type) where
  | var (name : String)
  | attr (target : Expr F) (a : String)
  | idx (target : Expr F) (index : Expr F)
  | intLit (v : Int)
  | floatLit (v : F)
  | boolLit (b : Bool)
  | bin (op : BinOp) (l r : Expr F)
  | b2i (e : Expr F)
  | alloc (t : Ty) (n : Expr F)
  | realloc (old : Expr F) (t : Ty) (n : Expr F)
  deriving Repr, Inhabited

inductive Stmt (F : Type) where
  | expr (e : Expr F)
  | decl (name : String) (t : Ty)
  | assign (target : Expr F) (value : Expr F)
  | declAssign (name : String) (t : Ty) (value : Expr F)
  | block (ss : List (Stmt F)) (comment : Option String)
  | branch (c : Expr F) (t f : Stmt F)
  | loop (c : Expr F) (body : Stmt F)
  | ret (e : Expr F)
  deriving Repr, Inhabited

structure Func (F : Type) where
  name : String
  params : List (String × Ty)
  retTy : Ty
  body : Stmt F
  deriving Repr, Inhabited

structure Module (F : Type) where
  defs : List (Func F)
  deriving Repr, Inhabited

variable {F : Type} [FloatOps F]

/-- Python dataclass equality of expression trees: class-sensitive, field-wise; float fields
compare with IEEE `==`. -/
def Expr.beq : Expr F → Expr F → Bool
  | .var a, .var b => a == b
  | .attr t a, .attr t' a' => t.beq t' && a == a'
  | .idx t i, .idx t' i' => t.beq t' && i.beq i'
  | .intLit a, .intLit b => a == b
  | .floatLit a, .floatLit b => FloatOps.eq a b
  | .boolLit a, .boolLit b => a == b
  | .bin o l r, .bin o' l' r' => o == o' && l.beq l' && r.beq r'
  | .b2i e, .b2i e' => e.beq e'
  | .alloc t n, .alloc t' n' => t == t' && n.beq n'
  | .realloc o t n, .realloc o' t' n' => o.beq o' && t == t' && n.beq n'
  | _, _ => false

def Expr.isInt (e : Expr F) (k : Int) : Bool :=
  match e with
  | .intLit v => v == k
  | _ => false

def Expr.isFloatZero : Expr F → Bool
  | .floatLit v => FloatOps.eq v (FloatOps.zero : F)
  | _ => false

def Expr.isFloatOne : Expr F → Bool
  | .floatLit v => FloatOps.eq v (FloatOps.one : F)
  | _ => false

def Expr.isBool (e : Expr F) (k : Bool) : Bool :=
  match e with
  | .boolLit v => v == k
  | _ => false

/-- the rule table of `peephole_add` … `peephole_max_min`, applied to already-optimised operands -/
def peepBin (op : BinOp) (l r : Expr F) : Expr F :=
  match op with
  | .add =>
    if l.isInt 0 || l.isFloatZero then r
    else if r.isInt 0 || r.isFloatZero then l
    else .bin .add l r
  | .sub =>
    if r.isInt 0 || r.isFloatZero then l else .bin .sub l r
  | .mul =>
    if l.isInt 0 || r.isInt 0 then .intLit 0
    else if l.isFloatZero || r.isFloatZero then .floatLit FloatOps.zero
    else if l.isInt 1 || l.isFloatOne then r
    else if r.isInt 1 || r.isFloatOne then l
    else .bin .mul l r
  | .eq => if l.beq r then .boolLit true else .bin .eq l r
  | .ge => if l.beq r then .boolLit true else .bin .ge l r
  | .le => if l.beq r then .boolLit true else .bin .le l r
  | .ne => if l.beq r then .boolLit false else .bin .ne l r
  | .gt => if l.beq r then .boolLit false else .bin .gt l r
  | .lt => if l.beq r then .boolLit false else .bin .lt l r
  | .and =>
    if l.isBool false || r.isBool false then .boolLit false
    else if l.isBool true then r
    else if r.isBool true then l
    else .bin .and l r
  | .or =>
    if l.isBool true || r.isBool true then .boolLit true
    else if l.isBool false then r
    else if r.isBool false then l
    else .bin .or l r
  | .max => .bin .max l r
  | .min => .bin .min l r

/-- `peephole_expression` (and `peephole_assignable`, which it subsumes) -/
def peepE : Expr F → Expr F
  | .var n => .var n
  | .attr t a => .attr (peepE t) a
  | .idx t i => .idx (peepE t) (peepE i)
  | .intLit v => .intLit v
  | .floatLit v => .floatLit v
  | .boolLit b => .boolLit b
  | .bin op l r => peepBin op (peepE l) (peepE r)
  | .b2i e =>
    let e' := peepE e
    if e'.isBool false then .intLit 0
    else if e'.isBool true then .intLit 1
    else .b2i e'
  | .alloc t n => .alloc t (peepE n)
  | .realloc o t n => .realloc (peepE o) t (peepE n)

def Stmt.isEmptyBlock : Stmt F → Bool
  | .block [] _ => true
  | _ => false

mutual
/-- `peephole_statement` -/
def peepS : Stmt F → Stmt F
  | .expr e => .expr (peepE e)
  | .decl n t => .decl n t
  | .assign t v =>
    let t' := peepE t
    let v' := peepE v
    if t'.beq v' then .block [] none else .assign t' v'
  | .declAssign n t v => .declAssign n t (peepE v)
  | .block ss c => .block (peepL ss) c
  | .branch c t f =>
    let c' := peepE c
    let t' := peepS t
    let f' := peepS f
    if c'.isBool true then t'
    else if c'.isBool false then f'
    else if t'.isEmptyBlock && f'.isEmptyBlock then .block [] none
    else .branch c' t' f'
  | .loop c b =>
    let c' := peepE c
    let b' := peepS b
    if c'.isBool false then .block [] none
    else if b.isEmptyBlock then .block [] none
    else .loop c' b'
  | .ret e => .ret (peepE e)
/-- the statement list of `peephole_block`: optimise each, drop the ones that became empty blocks -/
def peepL : List (Stmt F) → List (Stmt F)
  | [] => []
  | s :: ss =>
    let s' := peepS s
    if s'.isEmptyBlock then peepL ss else s' :: peepL ss
end

/-! ### syntactic certificates -/

/-- does the expression mention variable `x`? -/
def Expr.mentions (x : String) : Expr F → Bool
  | .var n => n == x
  | .attr t _ => t.mentions x
  | .idx t i => t.mentions x || i.mentions x
  | .intLit _ => false
  | .floatLit _ => false
  | .boolLit _ => false
  | .bin _ l r => l.mentions x || r.mentions x
  | .b2i e => e.mentions x
  | .alloc _ n => n.mentions x
  | .realloc o _ n => o.mentions x || n.mentions x

mutual
/-- `x` is never read and never assigned except by its own initialised declaration(s) -/
def Stmt.deadVar (x : String) : Stmt F → Bool
  | .expr e => !e.mentions x
  | .decl _ _ => true
  | .assign t v => !t.mentions x && !v.mentions x
  | .declAssign _ _ v => !v.mentions x
  | .block ss _ => deadVarL x ss
  | .branch c t f => !c.mentions x && t.deadVar x && f.deadVar x
  | .loop c b => !c.mentions x && b.deadVar x
  | .ret e => !e.mentions x
def deadVarL (x : String) : List (Stmt F) → Bool
  | [] => true
  | s :: ss => s.deadVar x && deadVarL x ss
end

mutual
/-- no allocation or reallocation occurs anywhere in the statement -/
def Stmt.noAlloc : Stmt F → Bool
  | .expr e => e.noAllocE
  | .decl _ _ => true
  | .assign t v => t.noAllocE && v.noAllocE
  | .declAssign _ _ v => v.noAllocE
  | .block ss _ => noAllocL ss
  | .branch c t f => c.noAllocE && t.noAlloc && f.noAlloc
  | .loop c b => c.noAllocE && b.noAlloc
  | .ret e => e.noAllocE
def noAllocL : List (Stmt F) → Bool
  | [] => true
  | s :: ss => s.noAlloc && noAllocL ss
def Expr.noAllocE : Expr F → Bool
  | .var _ => true
  | .attr t _ => t.noAllocE
  | .idx t i => t.noAllocE && i.noAllocE
  | .intLit _ => true
  | .floatLit _ => true
  | .boolLit _ => true
  | .bin _ l r => l.noAllocE && r.noAllocE
  | .b2i e => e.noAllocE
  | .alloc _ _ => false
  | .realloc _ _ _ => false
end

def peepF (f : Func F) : Func F := { f with body := peepS f.body }
def peepM (m : Module F) : Module F := ⟨m.defs.map peepF⟩

end TV.IR
