import TensoraVerif.Model.Sexp
import TensoraVerif.Model.Machine

/-
Wire format of IR trees and machine states (driver only; nothing here is used by a theorem).
The reader accepts exactly the dataclass names of `tensora.ir.ast` / `tensora.ir.types`; an unknown
constructor or a field-count mismatch makes the reader fail, which the harness reports as a
correspondence break.
-/
namespace TV.IR

instance : FloatOps Float where
  zero := 0.0
  one := 1.0
  add := (· + ·)
  sub := (· - ·)
  mul := (· * ·)
  ofInt := Float.ofInt
  lt a b := decide (a < b)
  eq a b := a == b
  finite a := a.isFinite

namespace Wire
open TV

def floatToSexp (f : Float) : Sexp := Sexp.mk "f" [.atom (toString f.toBits.toNat)]
def floatOf : Sexp → Option Float
  | .list [.atom "f", .atom bits] => bits.toNat?.map fun n => Float.ofBits (UInt64.ofNat n)
  | _ => none

partial def tyOf : Sexp → Option Ty
  | .list [.atom "Boolean"] => some .bool
  | .list [.atom "Integer"] => some .int
  | .list [.atom "Float"] => some .float
  | .list [.atom "Tensor"] => some .tensor
  | .list [.atom "Mode"] => some .mode
  | .list [.atom "Pointer", t] => (tyOf t).map .ptr
  | .list [.atom "Array", t] => (tyOf t).map .arr
  | .list [.atom "FixedArray", t, n] => do pure (.fixedArr (← tyOf t) (← n.toNat?))
  | _ => none

def tyToSexp : Ty → Sexp
  | .bool => Sexp.mk "Boolean" []
  | .int => Sexp.mk "Integer" []
  | .float => Sexp.mk "Float" []
  | .tensor => Sexp.mk "Tensor" []
  | .mode => Sexp.mk "Mode" []
  | .ptr t => Sexp.mk "Pointer" [tyToSexp t]
  | .arr t => Sexp.mk "Array" [tyToSexp t]
  | .fixedArr t n => Sexp.mk "FixedArray" [tyToSexp t, Sexp.ofNat n]

def binOpOf : String → Option BinOp
  | "Add" => some .add | "Subtract" => some .sub | "Multiply" => some .mul
  | "Equal" => some .eq | "NotEqual" => some .ne | "GreaterThan" => some .gt | "LessThan" => some .lt
  | "GreaterThanOrEqual" => some .ge | "LessThanOrEqual" => some .le
  | "And" => some .and | "Or" => some .or | "Max" => some .max | "Min" => some .min
  | _ => none

def binOpName : BinOp → String
  | .add => "Add" | .sub => "Subtract" | .mul => "Multiply"
  | .eq => "Equal" | .ne => "NotEqual" | .gt => "GreaterThan" | .lt => "LessThan"
  | .ge => "GreaterThanOrEqual" | .le => "LessThanOrEqual"
  | .and => "And" | .or => "Or" | .max => "Max" | .min => "Min"

partial def exprOf : Sexp → Option (Expr Float)
  | .list [.atom "Variable", .str n] => some (.var n)
  | .list [.atom "AttributeAccess", t, .str a] => do pure (.attr (← exprOf t) a)
  | .list [.atom "ArrayIndex", t, i] => do pure (.idx (← exprOf t) (← exprOf i))
  | .list [.atom "IntegerLiteral", .atom v] => v.toInt?.map .intLit
  | .list [.atom "FloatLiteral", f] => (floatOf f).map .floatLit
  | .list [.atom "BooleanLiteral", b] => b.toBool?.map .boolLit
  | .list [.atom "BooleanToInteger", e] => (exprOf e).map .b2i
  | .list [.atom "ArrayAllocate", t, n] => do pure (.alloc (← tyOf t) (← exprOf n))
  | .list [.atom "ArrayReallocate", o, t, n] => do pure (.realloc (← exprOf o) (← tyOf t) (← exprOf n))
  | .list [.atom op, l, r] => do pure (.bin (← binOpOf op) (← exprOf l) (← exprOf r))
  | _ => none

partial def exprToSexp : Expr Float → Sexp
  | .var n => Sexp.mk "Variable" [.str n]
  | .attr t a => Sexp.mk "AttributeAccess" [exprToSexp t, .str a]
  | .idx t i => Sexp.mk "ArrayIndex" [exprToSexp t, exprToSexp i]
  | .intLit v => Sexp.mk "IntegerLiteral" [Sexp.ofInt v]
  | .floatLit v => Sexp.mk "FloatLiteral" [floatToSexp v]
  | .boolLit b => Sexp.mk "BooleanLiteral" [Sexp.ofBool b]
  | .bin op l r => Sexp.mk (binOpName op) [exprToSexp l, exprToSexp r]
  | .b2i e => Sexp.mk "BooleanToInteger" [exprToSexp e]
  | .alloc t n => Sexp.mk "ArrayAllocate" [tyToSexp t, exprToSexp n]
  | .realloc o t n => Sexp.mk "ArrayReallocate" [exprToSexp o, tyToSexp t, exprToSexp n]

def optStrOf : Sexp → Option (Option String)
  | .atom "nil" => some none
  | .str s => some (some s)
  | _ => none

def declOf : Sexp → Option (String × Ty)
  | .list [.atom "Declaration", .list [.atom "Variable", .str n], t] => (tyOf t).map fun t => (n, t)
  | _ => none

partial def stmtOf : Sexp → Option (Stmt Float)
  | .list [.atom "Declaration", .list [.atom "Variable", .str n], t] => (tyOf t).map (.decl n)
  | .list [.atom "Assignment", t, v] => do pure (.assign (← exprOf t) (← exprOf v))
  | .list [.atom "DeclarationAssignment", d, v] => do
    let (n, t) ← declOf d
    pure (.declAssign n t (← exprOf v))
  | .list [.atom "Block", .list (.atom "list" :: ss), c] => do
    pure (.block (← ss.mapM stmtOf) (← optStrOf c))
  | .list [.atom "Branch", c, t, f] => do pure (.branch (← exprOf c) (← stmtOf t) (← stmtOf f))
  | .list [.atom "Loop", c, b] => do pure (.loop (← exprOf c) (← stmtOf b))
  | .list [.atom "Return", e] => (exprOf e).map .ret
  | e => (exprOf e).map .expr

partial def stmtToSexp : Stmt Float → Sexp
  | .expr e => exprToSexp e
  | .decl n t => Sexp.mk "Declaration" [Sexp.mk "Variable" [.str n], tyToSexp t]
  | .assign t v => Sexp.mk "Assignment" [exprToSexp t, exprToSexp v]
  | .declAssign n t v =>
    Sexp.mk "DeclarationAssignment" [Sexp.mk "Declaration" [Sexp.mk "Variable" [.str n], tyToSexp t], exprToSexp v]
  | .block ss c =>
    Sexp.mk "Block" [.list (.atom "list" :: ss.map stmtToSexp), match c with | none => .atom "nil" | some s => .str s]
  | .branch c t f => Sexp.mk "Branch" [exprToSexp c, stmtToSexp t, stmtToSexp f]
  | .loop c b => Sexp.mk "Loop" [exprToSexp c, stmtToSexp b]
  | .ret e => Sexp.mk "Return" [exprToSexp e]

def funcOf : Sexp → Option (Func Float)
  | .list [.atom "FunctionDefinition", .list [.atom "Variable", .str n], .list (.atom "list" :: ps), rt, body] => do
    pure ⟨n, ← ps.mapM declOf, ← tyOf rt, ← stmtOf body⟩
  | _ => none

def funcToSexp (f : Func Float) : Sexp :=
  Sexp.mk "FunctionDefinition" [Sexp.mk "Variable" [.str f.name],
    .list (.atom "list" :: f.params.map fun (n, t) => Sexp.mk "Declaration" [Sexp.mk "Variable" [.str n], tyToSexp t]),
    tyToSexp f.retTy, stmtToSexp f.body]

def moduleOf : Sexp → Option (Module Float)
  | .list [.atom "Module", .list (.atom "list" :: fs)] => (fs.mapM funcOf).map Module.mk
  | _ => none

def moduleToSexp (m : Module Float) : Sexp :=
  Sexp.mk "Module" [.list (.atom "list" :: m.defs.map funcToSexp)]

/-! ### machine states -/

def valToSexp : Val Float → Sexp
  | .int i => Sexp.ofInt i
  | .flt f => floatToSexp f
  | .bool b => Sexp.ofBool b
  | .ptr b o => Sexp.mk "ptr" [Sexp.ofNat b, Sexp.ofInt o]
  | .null => .atom "null"
  | .tensor t => Sexp.mk "tensor" [Sexp.ofNat t]
  | .indices t => Sexp.mk "indices" [Sexp.ofNat t]
  | .level t l => Sexp.mk "level" [Sexp.ofNat t, Sexp.ofNat l]

def errName : Err → String
  | .oob => "oob" | .uninit => "uninit" | .writeInput => "writeInput" | .useAfterFree => "useAfterFree"
  | .intOverflow => "intOverflow" | .nonFinite => "nonFinite" | .typeError => "typeError" | .null => "null"
  | .unbound => "unbound" | .fuel => "fuel" | .badAlloc => "badAlloc" | .redeclared => "redeclared"

structure TensorIn where
  name : String
  dims : List Int
  /-- per level: none = dense; some (pos, crd) where each is none = NULL or some cells
  (a cell is `none` when uninitialised) -/
  levels : List (Option (Option (List (Option Int)) × Option (List (Option Int))))
  vals : Option (List (Option Float))
  owner : Owner

def optInt : Sexp → Option (Option Int)
  | .atom "u" => some none
  | s => s.toInt?.map some

def intsOrNull : Sexp → Option (Option (List (Option Int)))
  | .atom "null" => some none
  | .list xs => (xs.mapM optInt).map some
  | _ => none

def levelIn : Sexp → Option (Option (Option (List (Option Int)) × Option (List (Option Int))))
  | .list [.atom "dense"] => some none
  | .list [.atom "compressed", p, c] => do pure (some (← intsOrNull p, ← intsOrNull c))
  | _ => none

def optFloat : Sexp → Option (Option Float)
  | .atom "u" => some none
  | s => (floatOf s).map some

def tensorInOf : Sexp → Option TensorIn
  | .list [.atom "tensor", .str name, dims, .list levels, vals, .atom role] => do
    let vs ← match vals with
      | .atom "null" => some none
      | .list xs => (xs.mapM optFloat).map some
      | _ => none
    let owner ← match role with | "input" => some Owner.input | "output" => some Owner.output | _ => none
    pure ⟨name, ← dims.toInts?, ← levels.mapM levelIn, vs, owner⟩
  | _ => none

/-- lay out the tensors as machine blocks; returns the state and the tensor names in order -/
def buildState (ts : List TensorIn) : State Float :=
  ts.foldl (fun (σ : State Float) t =>
    let addBlk (h : List (Block Float)) (ty : ElemTy) (cells : List (Option (Val Float))) : List (Block Float) × Val Float :=
      (h ++ [⟨ty, cells, t.owner, true⟩], .ptr h.length 0)
    let (h1, _) := addBlk σ.heap .int (t.dims.map fun d => some (.int d))
    let dimsBlk := σ.heap.length
    let (h2, slots) := t.levels.foldl (fun (acc : List (Block Float) × List (Option (Val Float × Val Float))) lv =>
      match lv with
      | none => (acc.1, acc.2 ++ [none])
      | some (p, c) =>
        let (ha, pv) := match p with
          | none => (acc.1, Val.null)
          | some xs => addBlk acc.1 .int (xs.map fun (x : Option Int) => x.map Val.int)
        let (hb, cv) := match c with
          | none => (ha, Val.null)
          | some xs => addBlk ha .int (xs.map fun (x : Option Int) => x.map Val.int)
        (hb, acc.2 ++ [some (pv, cv)])) (h1, [])
    let (h3, vv) := match t.vals with
      | none => (h2, Val.null)
      | some xs => addBlk h2 .float (xs.map fun (x : Option Float) => x.map Val.flt)
    { σ with heap := h3,
             tensors := σ.tensors ++ [⟨t.levels.length, dimsBlk, slots, vv, t.owner⟩] })
    ⟨[], [], []⟩

def bindParams (σ : State Float) (params : List (String × Ty)) (names : List String) : Option (State Float) := do
  let vars ← params.mapM fun (p, ty) =>
    match names.findIdx? (· == p) with
    | some i => some (⟨p, ty, some (.tensor i)⟩ : VarRec Float)
    | none => none
  pure { σ with vars := vars }

def cellsToSexp (b : Block Float) : Sexp :=
  .list (b.cells.map fun c =>
    match c with
    | none => .atom "u"
    | some v => valToSexp v)

def ptrDump (σ : State Float) : Val Float → Sexp
  | .ptr b 0 =>
    match σ.heap[b]? with
    | some blk => Sexp.mk "blk" [Sexp.ofNat b, Sexp.ofBool blk.live, cellsToSexp blk]
    | none => .atom "dangling"
  | .null => .atom "null"
  | v => Sexp.mk "weird" [valToSexp v]

def tensorDump (σ : State Float) (name : String) (t : TensorRec Float) : Sexp :=
  Sexp.mk "tensor" [.str name,
    .list (t.slots.map fun s => match s with
      | none => Sexp.mk "dense" []
      | some (p, c) => Sexp.mk "compressed" [ptrDump σ p, ptrDump σ c]),
    ptrDump σ t.vals]

end Wire
end TV.IR
