import TensoraVerif.Model.Graph

/-
M4 (graphs): port of src/tensora/desugar/_to_iteration_graphs.py, _best_algorithm.py and
src/tensora/iteration_graph/iteration_graph.py. Python generators become lists in the same order;
`DiagonalAccessError` is modelled with the laziness that decides whether it is raised (a generator
whose predecessor in a nested loop is empty is never advanced). Sum names are omitted (they do not
reach the emitted code).
-/
namespace TV.Graph

inductive IGraph where
  | terminal (e : IdExpr)
  | iter (index : String) (output : Option Leaf) (next : IGraph)
  | sum (terms : List IGraph)
  deriving Repr, Inhabited

mutual
def IGraph.size : IGraph → Nat
  | .terminal _ => 1
  | .iter _ _ n => n.size + 1
  | .sum ts => sizeL ts + 1
def sizeL : List IGraph → Nat
  | [] => 0
  | t :: ts => t.size + sizeL ts
end

mutual
/-- `later_indexes()`: the index variables of every iteration node in the subtree -/
def IGraph.laterIndexes : IGraph → List String
  | .terminal _ => []
  | .iter i _ n => i :: n.laterIndexes
  | .sum ts => laterIndexesL ts
def laterIndexesL : List IGraph → List String
  | [] => []
  | t :: ts => t.laterIndexes ++ laterIndexesL ts
end

/-- `itertools.permutations` order -/
def perms : Nat → List Nat → List (List Nat)
  | 0, _ => [[]]
  | _, [] => [[]]
  | fuel + 1, l => l.flatMap fun x => (perms fuel (l.filter (· != x))).map (x :: ·)

/-- groups of adjacent dense levels (a compressed level is a group of its own and starts a new one) -/
def reorderableGroups : List Mode → Nat → Bool → List (List Nat) → List (List Nat)
  | [], _, _, acc => acc
  | m :: ms, i, restart, acc =>
    match m with
    | .dense =>
      if restart then reorderableGroups ms (i + 1) false (acc ++ [[i]])
      else reorderableGroups ms (i + 1) false (acc.dropLast ++ [acc.getLastD [] ++ [i]])
    | .compressed => reorderableGroups ms (i + 1) true (acc ++ [[i]])

/-- `itertools.product` of lists (last factor varies fastest) -/
def cartesian {α : Type} : List (List α) → List (List α)
  | [] => [[]]
  | xs :: rest => xs.flatMap fun x => (cartesian rest).map (x :: ·)

/-- `legal_iteration_orders(format)` -/
def legalIterationOrders (modes : List Mode) : List (List Nat) :=
  let groups := reorderableGroups modes 0 true []
  (cartesian (groups.map fun g => perms g.length g)).map List.flatten

/-- fuel-indexed merges (fuel ≥ sum of sizes) -/
def mergeWith (op : IdExpr → IdExpr → IdExpr) : Nat → IGraph → IGraph → List IGraph
  | 0, _, _ => []
  | fuel + 1, l, r =>
    match l, r with
    | .terminal a, .terminal b => [.terminal (op a b)]
    | .iter i o n, .terminal b => (mergeWith op fuel n (.terminal b)).map (.iter i o ·)
    | .terminal a, .iter j p m => (mergeWith op fuel (.terminal a) m).map (.iter j p ·)
    | .iter i o n, .iter j p m =>
      if i == j then (mergeWith op fuel n m).map (.iter i o ·)
      else
        (if !(m.laterIndexes.contains i) then (mergeWith op fuel n (.iter j p m)).map (.iter i o ·) else []) ++
        (if !(n.laterIndexes.contains j) then (mergeWith op fuel (.iter i o n) m).map (.iter j p ·) else [])
    | _, _ => []

def mergeAdd (l r : IGraph) : List IGraph := mergeWith .add (l.size + r.size + 1) l r
def mergeMultiply (l r : IGraph) : List IGraph := mergeWith .mul (l.size + r.size + 1) l r

def foldAdd : List IdExpr → Option IdExpr
  | [] => none
  | e :: es => some (es.foldl .add e)

/-- `simplify_add(SumNode(terms))` -/
def simplifyAdd : Nat → List IGraph → IGraph
  | 0, ts => .sum ts
  | fuel + 1, ts =>
    let terminals := ts.filterMap fun t => match t with | .terminal e => some e | _ => none
    -- index variables of the iteration terms in order of first occurrence (defaultdict insertion order)
    let idxs := ts.foldl (fun acc t => match t with
      | .iter i _ _ => if acc.contains i then acc else acc ++ [i]
      | _ => acc) ([] : List String)
    let iterNodes := idxs.filterMap fun i =>
      let group := ts.filter fun t => match t with | .iter j _ _ => i == j | _ => false
      match group with
      | .iter hi ho _ :: _ =>
        let nextTerms := group.flatMap fun t => match t with
          | .iter _ _ (.sum inner) => inner
          | .iter _ _ n => [n]
          | _ => []
        some (.iter hi ho (simplifyAdd fuel nextTerms))
      | _ => none
    let combined := (match foldAdd terminals with | some e => [IGraph.terminal e] | none => []) ++ iterNodes
    match combined with
    | [single] => single
    | _ => .sum combined

def containsContraction : Alg.DExpr → Bool
  | .contract _ _ => true
  | .add l r => containsContraction l || containsContraction r
  | .mul l r => containsContraction l || containsContraction r
  | _ => false

/-- per-tensor format table -/
abbrev Formats := List (String × List Mode × List Nat)

inductive GraphErr where
  | diagonal
  | missingFormat
  deriving DecidableEq, Repr, Inhabited

def hasDup (xs : List String) : Bool :=
  match xs with
  | [] => false
  | x :: rest => rest.contains x || hasDup rest

def tensorId (id : Nat) (name : String) (formats : Formats) (idx : List String) : Option TensorId :=
  match formats.find? (·.1 == name) with
  | none => none
  | some (_, modes, ordering) => some ⟨toString id ++ "_" ++ name, name, ordering.map fun i => idx.getD i "", modes⟩

/-- `to_iteration_graphs_expression` -/
def graphsOf (formats : Formats) : Alg.DExpr → Except GraphErr (List IGraph)
  | .int v => .ok [.terminal (.int v)]
  | .flt v => .ok [.terminal (.flt v)]
  | .tensor id name idx =>
    match tensorId id name formats idx with
    | none => .error .missingFormat
    | some t =>
      if hasDup t.indexes then .error .diagonal
      else .ok ((legalIterationOrders t.modes).map fun order =>
        order.foldr (fun l g => IGraph.iter (t.indexes.getD l "") none g) (.terminal (.tensor t)))
  | .add l r => do
    let ls ← graphsOf formats l
    if ls.isEmpty then pure [] else
    let rs ← graphsOf formats r
    if !(containsContraction l || containsContraction r) then
      pure (ls.flatMap fun a => rs.flatMap fun b => mergeAdd a b)
    else
      pure (ls.flatMap fun a => rs.map fun b =>
        let terms := (match a with | .sum ts => ts | g => [g]) ++ (match b with | .sum ts => ts | g => [g])
        simplifyAdd (sizeL terms + 1) terms)
  | .mul l r => do
    let ls ← graphsOf formats l
    if ls.isEmpty then pure [] else
    let rs ← graphsOf formats r
    pure (ls.flatMap fun a => rs.flatMap fun b => mergeMultiply a b)
  | .contract _ e => graphsOf formats e

def isCompressedAt (layers : List (String × Leaf)) (i : String) : Bool :=
  match layers.find? (·.1 == i) with
  | some (_, l) => l.tensor.modes.getD l.layer .dense == .compressed
  | none => false

/-- `target_has_pending_compressed` -/
def targetHasPendingCompressed (layers : List (String × Leaf)) : IGraph → Bool
  | .iter i _ n => isCompressedAt layers i || targetHasPendingCompressed layers n
  | _ => false

def layerOf (layers : List (String × Leaf)) (i : String) : Option Leaf := (layers.find? (·.1 == i)).map (·.2)

/-- `merge_assignment(target, expression, output_layers)` -/
def mergeAssignment (layers : List (String × Leaf)) : Nat → IGraph → IGraph → List IGraph
  | 0, _, _ => []
  | fuel + 1, target, expr =>
    match target, expr with
    | .terminal _, e => [e]
    | .iter i _ n, .terminal b => (mergeAssignment layers fuel n (.terminal b)).map (.iter i (layerOf layers i) ·)
    | .iter i o n, .iter j p m =>
      if i == j then (mergeAssignment layers fuel n m).map (.iter i (layerOf layers i) ·)
      else
        (if !(m.laterIndexes.contains i) then (mergeAssignment layers fuel n (.iter j p m)).map (.iter i (layerOf layers i) ·) else []) ++
        (if !(n.laterIndexes.contains j) && !(targetHasPendingCompressed layers (.iter i o n))
          then (mergeAssignment layers fuel (.iter i o n) m).map (.iter j p ·) else [])
    | .iter i o n, .sum terms =>
      (cartesian (terms.map fun t => mergeAssignment layers fuel (.iter i o n) t)).map fun merged =>
        simplifyAdd (sizeL merged + 1) merged
    | _, _ => []

/-- `to_iteration_graphs(assignment, formats)`: every candidate, in generator order -/
def toIterationGraphs (a : Alg.DAssign) (formats : Formats) : Except GraphErr (List IGraph) :=
  match tensorId 0 a.tname formats a.tidx with
  | none => .error .missingFormat
  | some out =>
    let layers : List (String × Leaf) := (List.range out.indexes.length).map fun l => (out.indexes.getD l "", ⟨out, l⟩)
    do
      let targets ← graphsOf formats (.tensor 0 a.tname a.tidx)
      if targets.isEmpty then pure [] else
      let exprs ← graphsOf formats a.rhs
      pure (targets.flatMap fun t => exprs.flatMap fun e => mergeAssignment layers (t.size + e.size + 1) t e)

inductive Outcome where
  | graph (g : IGraph)
  | diagonal
  | noKernel
  deriving Repr, Inhabited

/-- `best_algorithm` -/
def bestAlgorithm (a : Alg.DAssign) (formats : Formats) : Outcome :=
  match toIterationGraphs a formats with
  | .error _ => .diagonal
  | .ok [] => .noKernel
  | .ok (g :: _) => .graph g

/-! ### which output object reaches each node (`AppendOutput.next_output` / `BucketOutput`): the
abstract interpretation of `generate_ir` that decides whether it raises -/

inductive OutState where
  | append (nextLayer : Nat)
  | bucket
  deriving DecidableEq, Repr, Inhabited

/-- `next_output(iteration_output)`; `none` = NotImplementedError -/
def nextOutput (outModes : List Mode) (s : OutState) (layer : Option Nat) : Option OutState :=
  match s with
  | .bucket => some .bucket
  | .append n =>
    match layer with
    | some l => if l == n then some (.append (n + 1))
      else if (outModes.drop n).all (· == .dense) then some .bucket else none
    | none => if (outModes.drop n).all (· == .dense) then some .bucket else none

mutual
/-- does `generate_ir` get through the graph for a kernel that computes (`evaluate`/`compute`)?
`false` = an internal error (NotImplementedError from next_output, RuntimeError from write_assignment) -/
def lowerable (outModes : List Mode) : IGraph → OutState → Bool
  | .terminal _, s =>
    match s with
    | .append n => n == outModes.length
    | .bucket => true
  | .iter _ o n, s =>
    match nextOutput outModes s (o.map (·.layer)) with
    | some s' => lowerable outModes n s'
    | none => false
  | .sum ts, s =>
    match nextOutput outModes s none with
    | some s' => lowerableL outModes ts s'
    | none => false
def lowerableL (outModes : List Mode) : List IGraph → OutState → Bool
  | [], _ => true
  | t :: ts, s => lowerable outModes t s && lowerableL outModes ts s
end

end TV.Graph
