import TensoraVerif.Model.IterGraph

/-
Denotation of iteration graphs (used by C08 to say that the candidates of `toIterationGraphs` mean
what the desugared assignment means). A loop over an index of the target (`output = some _`) is bound
by the environment — the kernel writes one output entry per value of it; a loop over any other index
(`output = none`) is a contraction loop and sums.
-/
namespace TV.Graph

/-- the `ordering` of the format that `tensorId` uses for `name` -/
def orderingOf (formats : Formats) (name : String) : List Nat :=
  match formats.find? (·.1 == name) with
  | some f => f.2.2
  | none => []

/-- reading a tensor occurrence at level-ordered coordinates: undo the level ordering and read the
input (dimension `k` is stored at the level `l` with `ordering[l] = k`) -/
def leafOf (formats : Formats) (inputs : Alg.Inputs) (t : TensorId) (coords : List Nat) : Rat :=
  let ordering := orderingOf formats t.name
  inputs t.name ((List.range ordering.length).map fun k => coords.getD (ordering.idxOf k) 0)

/-- value of an identifiable expression: each tensor occurrence `t` is read at the coordinates its
(level-ordered) index list takes in `env` -/
def valueAt (leaf : TensorId → List Nat → Rat) (env : Alg.Env) : IdExpr → Rat
  | .int v => v
  | .flt v => v
  | .tensor t => leaf t (t.indexes.map env.get)
  | .add l r => valueAt leaf env l + valueAt leaf env r
  | .mul l r => valueAt leaf env l * valueAt leaf env r

mutual
def denoteG (leaf : TensorId → List Nat → Rat) (sizes : Alg.Sizes) : IGraph → Alg.Env → Rat
  | .terminal e, env => valueAt leaf env e
  | .iter _ (some _) n, env => denoteG leaf sizes n env
  | .iter i none n, env => Alg.sumRange (sizes i) fun v => denoteG leaf sizes n (env.set i v)
  | .sum ts, env => denoteGL leaf sizes ts env
def denoteGL (leaf : TensorId → List Nat → Rat) (sizes : Alg.Sizes) : List IGraph → Alg.Env → Rat
  | [], _ => 0
  | t :: ts, env => denoteG leaf sizes t env + denoteGL leaf sizes ts env
end

/-! ### where contractions may be placed

`graphsOf` forgets where a `contract` node sits: the candidate graphs of `contract j e` are those of
`e`, and the loop over `j` is recognised later only by not being a loop of the target. The graphs
therefore mean what the expression means only if contraction scopes are *hygienic* in the sense
below — which is how `desugar` places them. -/

/-- names bound by `contract` nodes -/
def boundOf : Alg.DExpr → List String
  | .int _ => []
  | .flt _ => []
  | .tensor _ _ _ => []
  | .add l r => boundOf l ++ boundOf r
  | .mul l r => boundOf l ++ boundOf r
  | .contract j e => j :: boundOf e

/-- index names written at tensor occurrences -/
def idxOfD : Alg.DExpr → List String
  | .int _ => []
  | .flt _ => []
  | .tensor _ _ idx => idx
  | .add l r => idxOfD l ++ idxOfD r
  | .mul l r => idxOfD l ++ idxOfD r
  | .contract _ e => idxOfD e

/-- index names that occur outside the scope of a `contract` node of that name -/
def freeOf : Alg.DExpr → List String
  | .int _ => []
  | .flt _ => []
  | .tensor _ _ idx => idx
  | .add l r => freeOf l ++ freeOf r
  | .mul l r => freeOf l ++ freeOf r
  | .contract j e => (freeOf e).filter (· != j)

/-- every root-to-terminal path of every candidate graph of the expression loops over `j`: a product
(and a sum whose operands are merged loop by loop) has the loops of both operands, a sum with a
contraction inside keeps its operands as separate terms -/
def inEveryPath (j : String) : Alg.DExpr → Bool
  | .int _ => false
  | .flt _ => false
  | .tensor _ _ idx => idx.contains j
  | .add l r =>
    if containsContraction l || containsContraction r then inEveryPath j l && inEveryPath j r
    else inEveryPath j l || inEveryPath j r
  | .mul l r => inEveryPath j l || inEveryPath j r
  | .contract _ e => inEveryPath j e

def disjointL (xs ys : List String) : Bool := xs.all fun x => !ys.contains x

/-- contraction scopes are respected by the merges: a name contracted inside one operand of a product
does not occur in the other operand; a name contracted inside one operand of a sum does not occur free
in the other; a contracted name is not contracted again inside its scope and is looped over by every
term of the scope -/
def Hygienic : Alg.DExpr → Bool
  | .int _ => true
  | .flt _ => true
  | .tensor _ _ _ => true
  | .add l r => Hygienic l && Hygienic r && disjointL (boundOf l) (freeOf r) && disjointL (boundOf r) (freeOf l)
  | .mul l r => Hygienic l && Hygienic r && disjointL (boundOf l) (idxOfD r) && disjointL (boundOf r) (idxOfD l)
  | .contract j e => Hygienic e && !(boundOf e).contains j && inEveryPath j e

/-- every index written in the right-hand side is an index of the target or a contracted name, not both -/
def closedFor (tidx : List String) (rhs : Alg.DExpr) : Bool :=
  (idxOfD rhs).all fun x => tidx.contains x != (boundOf rhs).contains x

/-- the contractions of the desugared form of a source assignment are placed hygienically -/
def hygienicSource (a : Alg.Assign) : Bool :=
  Hygienic (Alg.desugar a).rhs && closedFor a.tidx (Alg.desugar a).rhs

end TV.Graph
