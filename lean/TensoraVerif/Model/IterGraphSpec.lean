import TensoraVerif.Model.IterGraph

/-
Predicates used in the statements of C08 about the candidate iteration graphs of
`Model/IterGraph.lean`: which expressions access a diagonal, when a format table fits an expression,
when a graph binds the index variables its terminals use, and when no loop variable is re-bound.
Everything is `Bool`-valued so that it can be evaluated on concrete problems.
-/
namespace TV.Graph

/-- some tensor occurrence of the expression repeats an index -/
def hasDiagonal : Alg.DExpr → Bool
  | .int _ => false
  | .flt _ => false
  | .tensor _ _ idx => hasDup idx
  | .add l r => hasDiagonal l || hasDiagonal r
  | .mul l r => hasDiagonal l || hasDiagonal r
  | .contract _ e => hasDiagonal e

/-- a format table entry is valid: `ordering` is a permutation of the levels `0 … modes.length-1` -/
def formatValid (f : String × List Mode × List Nat) : Bool := f.2.2.isPerm (List.range f.2.1.length)

/-- every entry of the format table is valid (what `Format.__post_init__`/`parse_format` guarantee) -/
def ValidFormats (formats : Formats) : Bool := formats.all formatValid

/-- the format entry that `tensorId` uses for `name` has as many levels as the occurrence has indexes
(vacuous if there is no entry) -/
def arityOkAt (formats : Formats) (name : String) (idx : List String) : Bool :=
  match formats.find? (·.1 == name) with
  | some f => f.2.1.length == idx.length
  | none => true

/-- every tensor occurrence has as many indexes as its format has levels -/
def arityOk (formats : Formats) : Alg.DExpr → Bool
  | .int _ => true
  | .flt _ => true
  | .tensor _ name idx => arityOkAt formats name idx
  | .add l r => arityOk formats l && arityOk formats r
  | .mul l r => arityOk formats l && arityOk formats r
  | .contract _ e => arityOk formats e

/-- the same for a source expression -/
def arityOkS (formats : Formats) : Alg.SExpr → Bool
  | .int _ => true
  | .flt _ => true
  | .tensor name idx => arityOkAt formats name idx
  | .add l r => arityOkS formats l && arityOkS formats r
  | .sub l r => arityOkS formats l && arityOkS formats r
  | .mul l r => arityOkS formats l && arityOkS formats r

/-- every tensor name of the expression has an entry in the format table -/
def hasFormats (formats : Formats) : Alg.DExpr → Bool
  | .int _ => true
  | .flt _ => true
  | .tensor _ name _ => (formats.find? (·.1 == name)).isSome
  | .add l r => hasFormats formats l && hasFormats formats r
  | .mul l r => hasFormats formats l && hasFormats formats r
  | .contract _ e => hasFormats formats e

/-- every index of every tensor occurrence of a terminal expression is in `bound` -/
def IdExpr.scopedIn (bound : List String) : IdExpr → Bool
  | .int _ => true
  | .flt _ => true
  | .tensor t => t.indexes.all bound.contains
  | .add l r => l.scopedIn bound && r.scopedIn bound
  | .mul l r => l.scopedIn bound && r.scopedIn bound

mutual
/-- `bound` = index variables bound by the loops on the way from the root: every terminal only reads
tensors at index variables that an enclosing loop binds -/
def WellScoped (bound : List String) : IGraph → Bool
  | .terminal e => e.scopedIn bound
  | .iter i _ n => WellScoped (i :: bound) n
  | .sum ts => WellScopedL bound ts
def WellScopedL (bound : List String) : List IGraph → Bool
  | [] => true
  | t :: ts => WellScoped bound t && WellScopedL bound ts
end

mutual
/-- `used` = index variables bound by the enclosing loops: no loop re-binds one of them -/
def NoShadowIn (used : List String) : IGraph → Bool
  | .terminal _ => true
  | .iter i _ n => !(used.contains i) && NoShadowIn (i :: used) n
  | .sum ts => NoShadowInL used ts
def NoShadowInL (used : List String) : List IGraph → Bool
  | [] => true
  | t :: ts => NoShadowIn used t && NoShadowInL used ts
end

/-- along every root-to-terminal path the loop variables are pairwise distinct (each loop variable is
fresh) -/
def NoShadow (g : IGraph) : Bool := NoShadowIn [] g

mutual
/-- the loop variables along every root-to-terminal path (a `sum` node forks the path) -/
def IGraph.paths : IGraph → List (List String)
  | .terminal _ => [[]]
  | .iter i _ n => n.paths.map (i :: ·)
  | .sum ts => pathsL ts
def pathsL : List IGraph → List (List String)
  | [] => []
  | t :: ts => t.paths ++ pathsL ts
end

end TV.Graph
