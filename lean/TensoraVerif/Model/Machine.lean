import TensoraVerif.Model.IR

/-
M6 (semantics): a big-step abstract machine for the IR. It is the reference semantics of the
theorems about peephole optimisation (C07), frames/certificates (C04, C05, C16), and it is the
monitored interpreter that executes the kernels tensora actually emits (C01–C05).

Design (see DESIGN.md §4):
* expressions are pure (`evalE`); allocation is only meaningful as the right-hand side of an
  assignment / initialised declaration and is executed by `exec`;
* integers are checked 32-bit (`intOverflow`), floats are checked finite (`nonFinite`);
* every load is checked: live block, in bounds, initialised; every store: live block, in bounds,
  not an input-owned block;
* variables are typed by their declaration; assignment converts int→float when the destination is
  float (C implicit conversion, `sitofp` in the LLVM back end) and rejects float→int;
* one flat variable environment (the LLVM back end hoists declarations; C scoping is checked
  separately by the syntactic certificate `scopeOK`);
* loops consume fuel, nothing else does.
-/
namespace TV.IR

inductive Err where
  | oob | uninit | writeInput | useAfterFree | intOverflow | nonFinite | typeError | null
  | unbound | fuel | badAlloc | redeclared
  deriving DecidableEq, Repr, Inhabited

inductive Val (F : Type) where
  | int (i : Int)
  | flt (f : F)
  | bool (b : Bool)
  | ptr (blk : Nat) (off : Int)
  | null
  | tensor (t : Nat)
  | indices (t : Nat)
  | level (t : Nat) (l : Nat)
  deriving Repr, Inhabited, DecidableEq

inductive ElemTy where
  | int | float
  deriving DecidableEq, Repr, Inhabited

inductive Owner where
  | input | output
  deriving DecidableEq, Repr, Inhabited

structure Block (F : Type) where
  ty : ElemTy
  /-- one entry per element; `none` = allocated but never written -/
  cells : List (Option (Val F))
  owner : Owner
  live : Bool
  deriving Repr, Inhabited

def Block.len {F : Type} (b : Block F) : Nat := b.cells.length

structure TensorRec (F : Type) where
  order : Nat
  dimsBlk : Nat
  /-- per level: `none` for dense, `some (pos, crd)` slot contents for compressed -/
  slots : List (Option (Val F × Val F))
  vals : Val F
  owner : Owner
  deriving Repr, Inhabited

structure VarRec (F : Type) where
  name : String
  ty : Ty
  val : Option (Val F)
  deriving Repr, Inhabited

structure State (F : Type) where
  vars : List (VarRec F)
  heap : List (Block F)
  tensors : List (TensorRec F)
  deriving Repr, Inhabited

def inI32 (z : Int) : Bool := -2147483648 ≤ z && z < 2147483648

variable {F : Type} [FloatOps F]

def chkInt (z : Int) : Except Err (Val F) := if inI32 z then .ok (.int z) else .error .intOverflow
def chkFlt (f : F) : Except Err (Val F) := if FloatOps.finite f then .ok (.flt f) else .error .nonFinite

/-- values produced by a load or a variable read are re-checked, so that every value `evalE`
returns is a 32-bit integer or a finite float whatever the state contains -/
def chkVal : Val F → Except Err (Val F)
  | .int z => chkInt z
  | .flt f => chkFlt f
  | v => .ok v

def lookupVar (vars : List (VarRec F)) (x : String) : Option (VarRec F) :=
  vars.find? (·.name == x)

/-- a stored value is only readable at the type it was declared with, so the machine needs no
global well-typedness invariant on states -/
def hasTy : Ty → Val F → Bool
  | .int, .int _ => true
  | .float, .flt _ => true
  | .bool, .bool _ => true
  | .ptr _, .ptr _ _ => true
  | .ptr _, .null => true
  | .ptr .tensor, .tensor _ => true
  | _, _ => false

def hasElemTy : ElemTy → Val F → Bool
  | .int, .int _ => true
  | .float, .flt _ => true
  | _, _ => false

def readBlock (σ : State F) (b : Nat) (off : Int) : Except Err (Val F) :=
  match σ.heap[b]? with
  | none => .error .null
  | some blk =>
    if !blk.live then .error .useAfterFree
    else if off < 0 || off ≥ blk.len then .error .oob
    else match blk.cells[off.toNat]? with
      | some (some v) => if hasElemTy blk.ty v then chkVal v else .error .typeError
      | _ => .error .uninit

def isPtrVal : Val F → Bool
  | .ptr _ _ => true
  | .null => true
  | _ => false

inductive Num (F : Type) where
  | i (v : Int)
  | f (v : F)

def Val.toNum : Val F → Option (Num F)
  | .int i => some (.i i)
  | .flt f => some (.f f)
  | _ => none

def Num.toF : Num F → F
  | .i v => FloatOps.ofInt v
  | .f v => v

def fle (a b : F) : Bool := FloatOps.lt a b || FloatOps.eq a b

/-- arithmetic and comparison on numbers with C's usual arithmetic conversions -/
def numOp (op : BinOp) (a b : Num F) : Except Err (Val F) :=
  match a, b with
  | .i x, .i y =>
    match op with
    | .add => chkInt (x + y)
    | .sub => chkInt (x - y)
    | .mul => chkInt (x * y)
    | .eq => .ok (.bool (x == y))
    | .ne => .ok (.bool (x != y))
    | .gt => .ok (.bool (x > y))
    | .lt => .ok (.bool (x < y))
    | .ge => .ok (.bool (x ≥ y))
    | .le => .ok (.bool (x ≤ y))
    | .max => .ok (.int (if x > y then x else y))
    | .min => .ok (.int (if x < y then x else y))
    | .and | .or => .error .typeError
  | _, _ =>
    let x := a.toF
    let y := b.toF
    match op with
    | .add => chkFlt (FloatOps.add x y)
    | .sub => chkFlt (FloatOps.sub x y)
    | .mul => chkFlt (FloatOps.mul x y)
    | .eq => .ok (.bool (FloatOps.eq x y))
    | .ne => .ok (.bool (!FloatOps.eq x y))
    | .gt => .ok (.bool (FloatOps.lt y x))
    | .lt => .ok (.bool (FloatOps.lt x y))
    | .ge => .ok (.bool (fle y x))
    | .le => .ok (.bool (fle x y))
    | .max => .ok (.flt (if FloatOps.lt y x then x else y))
    | .min => .ok (.flt (if FloatOps.lt x y then x else y))
    | .and | .or => .error .typeError

def binVal (op : BinOp) (a b : Val F) : Except Err (Val F) :=
  match op, a, b with
  | .add, .ptr blk off, .int k => .ok (.ptr blk (off + k))
  | .eq, .bool x, .bool y => .ok (.bool (x == y))
  | .ne, .bool x, .bool y => .ok (.bool (x != y))
  | _, _, _ =>
    match a.toNum, b.toNum with
    | some x, some y => numOp op x y
    | _, _ => .error .typeError

/-- pure expression evaluation -/
def evalE (σ : State F) : Expr F → Except Err (Val F)
  | .var x =>
    match lookupVar σ.vars x with
    | none => .error .unbound
    | some r => match r.val with
      | none => .error .uninit
      | some v => if hasTy r.ty v then chkVal v else .error .typeError
  | .attr t a => do
    match ← evalE σ t with
    | .tensor k =>
      match σ.tensors[k]? with
      | none => .error .null
      | some tr =>
        if a == "dimensions" then .ok (.ptr tr.dimsBlk 0)
        else if a == "indices" then .ok (.indices k)
        else if a == "vals" then (if isPtrVal tr.vals then .ok tr.vals else .error .typeError)
        else .error .typeError
    | _ => .error .typeError
  | .idx t i => do
    let tv ← evalE σ t
    let iv ← evalE σ i
    match tv, iv with
    | .ptr b off, .int k => readBlock σ b (off + k)
    | .null, .int _ => .error .null
    | .indices k, .int l =>
      match σ.tensors[k]? with
      | none => .error .null
      | some tr => if 0 ≤ l ∧ l < tr.order then .ok (.level k l.toNat) else .error .oob
    | .level k l, .int j =>
      match σ.tensors[k]? with
      | none => .error .null
      | some tr =>
        match tr.slots[l]? with
        | some (some (p, c)) =>
          if j = 0 then (if isPtrVal p then .ok p else .error .typeError)
          else if j = 1 then (if isPtrVal c then .ok c else .error .typeError)
          else .error .oob
        | _ => .error .oob
    | _, _ => .error .typeError
  | .intLit v => chkInt v
  | .floatLit v => chkFlt v
  | .boolLit b => .ok (.bool b)
  | .bin .and l r => do
    match ← evalE σ l with
    | .bool false => .ok (.bool false)
    | .bool true =>
      match ← evalE σ r with
      | .bool b => .ok (.bool b)
      | _ => .error .typeError
    | _ => .error .typeError
  | .bin .or l r => do
    match ← evalE σ l with
    | .bool true => .ok (.bool true)
    | .bool false =>
      match ← evalE σ r with
      | .bool b => .ok (.bool b)
      | _ => .error .typeError
    | _ => .error .typeError
  | .bin op l r => do
    let a ← evalE σ l
    let b ← evalE σ r
    binVal op a b
  | .b2i e => do
    match ← evalE σ e with
    | .bool b => .ok (.int (if b then 1 else 0))
    | _ => .error .typeError
  | .alloc _ _ => .error .typeError
  | .realloc _ _ _ => .error .typeError

/-! ### Stores -/

inductive Loc where
  | var (x : String)
  | cell (blk : Nat) (off : Int)
  | slot (t : Nat) (l : Nat) (k : Nat)
  | vals (t : Nat)
  deriving DecidableEq, Repr

def evalLoc (σ : State F) : Expr F → Except Err Loc
  | .var x => .ok (.var x)
  | .attr t a => do
    match ← evalE σ t with
    | .tensor k => if a == "vals" then .ok (.vals k) else .error .typeError
    | _ => .error .typeError
  | .idx t i => do
    let tv ← evalE σ t
    let iv ← evalE σ i
    match tv, iv with
    | .ptr b off, .int k => .ok (.cell b (off + k))
    | .null, .int _ => .error .null
    | .level k l, .int j => if j = 0 ∨ j = 1 then .ok (.slot k l j.toNat) else .error .oob
    | _, _ => .error .typeError
  | _ => .error .typeError

/-- conversion of a value to a declared type (assignment conversion) -/
def convTo (ty : Ty) (v : Val F) : Except Err (Val F) :=
  match ty, v with
  | .int, .int i => .ok (.int i)
  | .float, .flt f => .ok (.flt f)
  | .float, .int i => .ok (.flt (FloatOps.ofInt i))
  | .bool, .bool b => .ok (.bool b)
  | .ptr _, .ptr b o => .ok (.ptr b o)
  | .ptr _, .null => .ok .null
  | .ptr .tensor, .tensor t => .ok (.tensor t)
  | _, _ => .error .typeError

def convElem (ty : ElemTy) (v : Val F) : Except Err (Val F) :=
  match ty, v with
  | .int, .int i => .ok (.int i)
  | .float, .flt f => .ok (.flt f)
  | .float, .int i => .ok (.flt (FloatOps.ofInt i))
  | _, _ => .error .typeError

/-- update the first record named `x` (the one `lookupVar` finds) -/
def setVarOpt (vars : List (VarRec F)) (x : String) (v : Option (Val F)) : List (VarRec F) :=
  match vars with
  | [] => []
  | r :: rest => if r.name == x then { r with val := v } :: rest else r :: setVarOpt rest x v

def setVar (vars : List (VarRec F)) (x : String) (v : Val F) : List (VarRec F) := setVarOpt vars x (some v)

def store (σ : State F) (loc : Loc) (v : Val F) : Except Err (State F) :=
  match loc with
  | .var x =>
    match lookupVar σ.vars x with
    | none => .error .unbound
    | some r => do
      let v' ← convTo r.ty v
      .ok { σ with vars := setVar σ.vars x v' }
  | .cell b off =>
    match σ.heap[b]? with
    | none => .error .null
    | some blk =>
      if !blk.live then .error .useAfterFree
      else if blk.owner == .input then .error .writeInput
      else if off < 0 || off ≥ blk.len then .error .oob
      else do
        let v' ← convElem blk.ty v
        .ok { σ with heap := σ.heap.set b { blk with cells := blk.cells.set off.toNat (some v') } }
  | .slot t l k =>
    match σ.tensors[t]? with
    | none => .error .null
    | some tr =>
      if tr.owner == .input then .error .writeInput
      else if !isPtrVal v then .error .typeError
      else match tr.slots[l]? with
        | some (some (p, c)) =>
          let s' := if k = 0 then (v, c) else (p, v)
          .ok { σ with tensors := σ.tensors.set t { tr with slots := tr.slots.set l (some s') } }
        | _ => .error .oob
  | .vals t =>
    match σ.tensors[t]? with
    | none => .error .null
    | some tr =>
      if tr.owner == .input then .error .writeInput
      else if !isPtrVal v then .error .typeError
      else .ok { σ with tensors := σ.tensors.set t { tr with vals := v } }

def elemOf : Ty → Except Err ElemTy
  | .int => .ok .int
  | .float => .ok .float
  | _ => .error .typeError

/-- `malloc(sizeof(T) * n)` -/
def doAlloc (σ : State F) (t : Ty) (n : Val F) : Except Err (State F × Val F) := do
  let et ← elemOf t
  match n with
  | .int k =>
    if k < 0 then .error .badAlloc
    else
      let blk : Block F := ⟨et, List.replicate k.toNat none, .output, true⟩
      .ok ({ σ with heap := σ.heap ++ [blk] }, .ptr σ.heap.length 0)
  | _ => .error .typeError

/-- `realloc(old, sizeof(T) * n)`: a fresh block with the common prefix copied; the old block dies -/
def doRealloc (σ : State F) (old : Val F) (t : Ty) (n : Val F) : Except Err (State F × Val F) := do
  let et ← elemOf t
  match old, n with
  | .ptr b off, .int k =>
    if k < 0 then .error .badAlloc
    else if off ≠ 0 then .error .typeError
    else match σ.heap[b]? with
      | none => .error .null
      | some blk =>
        if !blk.live then .error .useAfterFree
        else if blk.owner == .input then .error .writeInput
        else if blk.ty ≠ et then .error .typeError
        else
          let nb : Block F := ⟨et, blk.cells.take k.toNat ++ List.replicate (k.toNat - blk.cells.length) none, .output, true⟩
          let heap' := (σ.heap.set b { blk with live := false }) ++ [nb]
          .ok ({ σ with heap := heap' }, .ptr σ.heap.length 0)
  | .null, .int k =>
    if k < 0 then .error .badAlloc
    else
      let blk : Block F := ⟨et, List.replicate k.toNat none, .output, true⟩
      .ok ({ σ with heap := σ.heap ++ [blk] }, .ptr σ.heap.length 0)
  | _, _ => .error .typeError

/-- right-hand sides: allocation is executed here, everything else is `evalE` -/
def evalRhs (σ : State F) : Expr F → Except Err (State F × Val F)
  | .alloc t n => do
    let nv ← evalE σ n
    doAlloc σ t nv
  | .realloc o t n => do
    let ov ← evalE σ o
    let nv ← evalE σ n
    doRealloc σ ov t nv
  | e => do
    let v ← evalE σ e
    .ok (σ, v)

def declare (σ : State F) (x : String) (t : Ty) (v : Option (Val F)) : Except Err (State F) :=
  match lookupVar σ.vars x with
  | some r =>
    if r.ty = t then .ok { σ with vars := setVarOpt σ.vars x v }
    else .error .redeclared
  | none => .ok { σ with vars := σ.vars ++ [⟨x, t, v⟩] }

structure Out (F : Type) where
  st : State F
  ret : Option (Val F)
  iters : Nat
  steps : Nat
  deriving Repr, Inhabited

def Out.seq (a : Out F) (b : Out F) : Out F := ⟨b.st, b.ret, a.iters + b.iters, a.steps + b.steps⟩

mutual
/-- big-step execution; `fuel` bounds the number of nested loop iterations on any path -/
def exec (fuel : Nat) : Stmt F → State F → Except Err (Out F)
  | .expr e, σ => do
    let _ ← evalE σ e
    .ok ⟨σ, none, 0, 1⟩
  | .decl x t, σ => do
    let σ' ← declare σ x t none
    .ok ⟨σ', none, 0, 1⟩
  | .assign t v, σ => do
    let (σ1, val) ← evalRhs σ v
    let loc ← evalLoc σ1 t
    let σ2 ← store σ1 loc val
    .ok ⟨σ2, none, 0, 1⟩
  | .declAssign x t v, σ => do
    let (σ1, val) ← evalRhs σ v
    let val' ← convTo t val
    let σ2 ← declare σ1 x t (some val')
    .ok ⟨σ2, none, 0, 1⟩
  | .block ss _, σ => execL fuel ss σ
  | .branch c t f, σ => do
    match ← evalE σ c with
    | .bool true => do
      let o ← exec fuel t σ
      .ok { o with steps := o.steps + 1 }
    | .bool false => do
      let o ← exec fuel f σ
      .ok { o with steps := o.steps + 1 }
    | _ => .error .typeError
  | .loop c b, σ =>
    match fuel with
    | 0 => .error .fuel
    | fuel' + 1 => do
      match ← evalE σ c with
      | .bool false => .ok ⟨σ, none, 0, 1⟩
      | .bool true => do
        let o1 ← exec fuel' b σ
        match o1.ret with
        | some _ => .ok { o1 with iters := o1.iters + 1, steps := o1.steps + 1 }
        | none => do
          let o2 ← exec fuel' (.loop c b) o1.st
          .ok ⟨o2.st, o2.ret, o1.iters + o2.iters + 1, o1.steps + o2.steps + 1⟩
      | _ => .error .typeError
  | .ret e, σ => do
    let v ← evalE σ e
    .ok ⟨σ, some v, 0, 1⟩
  termination_by s => (fuel, sizeOf s)
  decreasing_by all_goals simp_wf; all_goals (try subst_vars); all_goals (first | omega | (simp_all; omega) | trace_state)
def execL (fuel : Nat) : List (Stmt F) → State F → Except Err (Out F)
  | [], σ => .ok ⟨σ, none, 0, 0⟩
  | s :: ss, σ => do
    let o1 ← exec fuel s σ
    match o1.ret with
    | some _ => .ok o1
    | none => do
      let o2 ← execL fuel ss o1.st
      .ok (o1.seq o2)
  termination_by ss => (fuel, sizeOf ss)
  decreasing_by all_goals simp_wf; all_goals (try subst_vars); all_goals (first | omega | (simp_all; omega) | trace_state)
end

end TV.IR
