/-
M13: ownership of kernel-allocated arrays (src/tensora/compile/_cffi_ownership.py,
`take_ownership_of_arrays`; `Tensor` objects in src/tensora/tensor.py).

What is modelled: Python names bound to tensor objects; each object created by a kernel owns the
arrays the kernel malloc'ed (pos, crd, vals of the output); CPython reference counting drops an object
exactly when its last name disappears, the WeakKeyDictionary entry of its cffi struct goes with it and
the `ffi.gc(ptr, free)` destructors of its memory holder free every array once. Objects built from
Python data (constructors, unpickling) own no kernel-allocated arrays.
-/
namespace TV.Own

inductive OutKind where
  | sparse | dense | scalar
  /-- two compressed levels with stored entries: pos, crd, pos, crd, vals -/
  | sparse2
  /-- two compressed levels, empty result: the kernel's final `realloc(crd, 0)` leaves both crd arrays
  NULL, so the struct owns pos, pos, vals -/
  | sparse2empty
  deriving DecidableEq, Repr, Inhabited

/-- number of non-NULL arrays the evaluate kernel hands back for an output of this kind -/
def OutKind.arrays : OutKind → Nat
  | .sparse => 3
  | .dense => 1
  | .scalar => 1
  | .sparse2 => 5
  | .sparse2empty => 3

inductive Op where
  | eval (x : Nat) (k : OutKind)
  | alias (y x : Nat)
  | read (x : Nat)
  | pickle (y x : Nat)
  | feed (y x : Nat) (k : OutKind)
  | del (x : Nat)
  | gc
  deriving DecidableEq, Repr, Inhabited

structure St where
  /-- name ↦ object id -/
  names : List (Nat × Nat)
  /-- live objects: id ↦ kernel-allocated arrays it owns -/
  objs : List (Nat × List Nat)
  nextObj : Nat
  nextArr : Nat
  /-- every array freed so far, in order -/
  freed : List Nat
  deriving DecidableEq, Repr, Inhabited

def St.init : St := ⟨[], [], 0, 0, []⟩

def lookup (names : List (Nat × Nat)) (x : Nat) : Option Nat := (names.find? (·.1 == x)).map (·.2)

/-- reference counting: objects that no name reaches are destroyed, their arrays freed -/
def collect (s : St) : St × List Nat :=
  let dead := s.objs.filter fun o => !(s.names.any (·.2 == o.1))
  let gone := dead.flatMap (·.2)
  ({ s with objs := s.objs.filter (fun o => s.names.any (·.2 == o.1)), freed := s.freed ++ gone }, gone)

def bind (s : St) (x o : Nat) : St := { s with names := (x, o) :: s.names.filter (·.1 != x) }

def newObj (s : St) (nArrays : Nat) : St × Nat :=
  let arrs := (List.range nArrays).map (· + s.nextArr)
  ({ s with objs := (s.nextObj, arrs) :: s.objs, nextObj := s.nextObj + 1, nextArr := s.nextArr + nArrays }, s.nextObj)

/-- one operation; returns the new state and the arrays freed during it -/
def step (s : St) : Op → St × List Nat
  | .eval x k =>
    let (s1, o) := newObj s k.arrays
    collect (bind s1 x o)
  | .alias y x =>
    match lookup s.names x with
    | some o => collect (bind s y o)
    | none => (s, [])
  | .read _ => (s, [])
  | .pickle y x =>
    match lookup s.names x with
    | some _ =>
      let (s1, o) := newObj s 0
      collect (bind s1 y o)
    | none => (s, [])
  | .feed y x k =>
    match lookup s.names x with
    | some _ =>
      let (s1, o) := newObj s k.arrays
      collect (bind s1 y o)
    | none => (s, [])
  | .del x => collect { s with names := s.names.filter (·.1 != x) }
  | .gc => collect s

def run (s : St) (ops : List Op) : St := ops.foldl (fun st op => (step st op).1) s

/-- the invariant of C13 -/
structure Inv (s : St) : Prop where
  freed_nodup : s.freed.Nodup
  live_not_freed : ∀ o ∈ s.objs, ∀ a ∈ o.2, a ∉ s.freed
  live_named : ∀ o ∈ s.objs, ∃ n ∈ s.names, n.2 = o.1
  arrays_bounded : (∀ o ∈ s.objs, ∀ a ∈ o.2, a < s.nextArr) ∧ (∀ a ∈ s.freed, a < s.nextArr)
  arrays_disjoint : (s.objs.flatMap (·.2)).Nodup
  ids_bounded : (∀ o ∈ s.objs, o.1 < s.nextObj) ∧ (s.objs.map (·.1)).Nodup

end TV.Own
