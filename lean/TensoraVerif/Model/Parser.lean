/-
M1 + M2: the assignment and format languages.

* `lex` + `parseAssignment`: the scannerless PEG of src/tensora/expression/_parser.py re-expressed as
  a lexer (same regular expressions, whitespace = spaces only) and a recursive-descent parser with
  the same ordered choices; literals keep their lexeme (conversion to int/float is CPython's).
* `PExpr.deparse` / `PAssign.deparse`: `Assignment.deparse` of src/tensora/expression/ast.py.
* `validate`: the three rejections of `Assignment.__post_init__`, in the order the code tests them.
* `parseFormat`, `Format.deparse`, `parseNamedFormat`: src/tensora/format/_parser.py, _format.py.
-/
namespace TV.Parse

/-! ### syntax trees (literals carry their lexeme) -/

inductive PExpr where
  | int (lexeme : String)
  | flt (lexeme : String)
  | tensor (name : String) (idx : List String)
  | add (l r : PExpr)
  | sub (l r : PExpr)
  | mul (l r : PExpr)
  deriving Repr, Inhabited, DecidableEq

structure PAssign where
  tname : String
  tidx : List String
  rhs : PExpr
  deriving Repr, Inhabited, DecidableEq

/-! ### lexer -/

inductive Tok where
  | name (s : String)
  | int (s : String)
  | flt (s : String)
  | lpar | rpar | comma | star | plus | minus | eq
  deriving Repr, Inhabited, DecidableEq

def isAlpha (c : Char) : Bool := ('a' ≤ c && c ≤ 'z') || ('A' ≤ c && c ≤ 'Z')
def isDigit (c : Char) : Bool := '0' ≤ c && c ≤ '9'
def isAlnum (c : Char) : Bool := isAlpha c || isDigit c

/-- first code points of the 68 runs of ten consecutive Unicode decimal digits (category Nd,
Unicode 15.0 as shipped with CPython 3.12): Python's `\d` in a `str` pattern matches exactly these -/
def ndStarts : List Nat :=
  [48, 1632, 1776, 1984, 2406, 2534, 2662, 2790, 2918, 3046, 3174, 3302, 3430, 3558, 3664, 3792, 3872,
   4160, 4240, 6112, 6160, 6470, 6608, 6784, 6800, 6992, 7088, 7232, 7248, 42528, 43216, 43264, 43472,
   43504, 43600, 44016, 65296, 66720, 68912, 69734, 69872, 69942, 70096, 70384, 70736, 70864, 71248,
   71360, 71472, 71904, 72016, 72784, 73040, 73120, 73552, 92768, 92864, 93008, 120782, 120792, 120802,
   120812, 120822, 123200, 123632, 124144, 125264, 130032]

/-- `\d` -/
def isDigitU (c : Char) : Bool := ndStarts.any fun s => s ≤ c.toNat && c.toNat < s + 10

/-- `[+-]?\d+` after an `e`/`E`: returns the consumed characters and the rest -/
def lexExponent (cs : List Char) : Option (List Char × List Char) :=
  match cs with
  | e :: rest =>
    if e == 'e' || e == 'E' then
      let (sign, rest') := match rest with
        | '+' :: r => (['+'], r)
        | '-' :: r => (['-'], r)
        | r => ([], r)
      let ds := rest'.takeWhile isDigitU
      if ds.isEmpty then none else some (e :: sign ++ ds, rest'.dropWhile isDigitU)
    else none
  | [] => none

/-- a number at the head of `cs` (which starts with a `\d` character): the float regular expression
`\d+((\.\d+([Ee][+-]?\d+)?)|((\.\d+)?[Ee][+-]?\d+))` first (parsita's `|` takes the longest
alternative, and a float match always extends the integer match), `[0-9]+` otherwise; `none` when
neither matches (a non-ASCII digit that does not start a float) -/
def lexNumber (cs : List Char) : Option (Tok × List Char) :=
  let ds := cs.takeWhile isDigitU
  let rest := cs.dropWhile isDigitU
  -- optional fraction `\.\d+`
  let frac : Option (List Char × List Char) :=
    match rest with
    | '.' :: r =>
      let fs := r.takeWhile isDigitU
      if fs.isEmpty then none else some ('.' :: fs, r.dropWhile isDigitU)
    | _ => none
  let asInt : Option (Tok × List Char) :=
    let ads := cs.takeWhile isDigit
    if ads.isEmpty then none else some (.int (String.ofList ads), cs.dropWhile isDigit)
  match frac with
  | some (f, rest1) =>
    match lexExponent rest1 with
    | some (e, rest2) => some (.flt (String.ofList (ds ++ f ++ e)), rest2)
    | none => some (.flt (String.ofList (ds ++ f)), rest1)
  | none =>
    match lexExponent rest with
    | some (e, rest2) => some (.flt (String.ofList (ds ++ e)), rest2)
    | none => asInt

/-- tokenise as far as possible; the flag is `false` when lexing stopped at a character no terminal
of the grammar can start with (the PEG fails there only if the parser actually gets that far, so
the tokens before it still matter). `fuel` ≥ length. -/
def lexAux : Nat → List Char → List Tok × Bool
  | 0, cs => ([], cs.isEmpty)
  | fuel + 1, cs =>
    match cs with
    | [] => ([], true)
    | c :: rest =>
      let cons (t : Tok) (r : List Tok × Bool) : List Tok × Bool := (t :: r.1, r.2)
      if c == ' ' then lexAux fuel rest
      else if c == '(' then cons .lpar (lexAux fuel rest)
      else if c == ')' then cons .rpar (lexAux fuel rest)
      else if c == ',' then cons .comma (lexAux fuel rest)
      else if c == '*' then cons .star (lexAux fuel rest)
      else if c == '+' then cons .plus (lexAux fuel rest)
      else if c == '-' then cons .minus (lexAux fuel rest)
      else if c == '=' then cons .eq (lexAux fuel rest)
      else if isAlpha c then
        let nm := (c :: rest).takeWhile isAlnum
        cons (.name (String.ofList nm)) (lexAux fuel ((c :: rest).dropWhile isAlnum))
      else if isDigitU c then
        match lexNumber (c :: rest) with
        | some (t, rest') => cons t (lexAux fuel rest')
        | none => ([], false)
      else ([], false)

def lex (s : String) : List Tok × Bool := lexAux (s.toList.length + 1) s.toList

/-! ### parser (ordered choice exactly as the PEG: tensor | number | parentheses) -/

/-- `repsep(name, ",") << ")"` after the opening parenthesis -/
def parseIndexes : List Tok → Option (List String × List Tok)
  | .rpar :: rest => some ([], rest)
  | .name n :: rest =>
    let rec more (acc : List String) : List Tok → Option (List String × List Tok)
      | .comma :: .name m :: r => more (acc ++ [m]) r
      | .rpar :: r => some (acc, r)
      | _ => none
    more [n] rest
  | _ => none

mutual
def parseFactor : Nat → List Tok → Option (PExpr × List Tok)
  | 0, _ => none
  | fuel + 1, ts =>
    match ts with
    | .name n :: .lpar :: rest => (parseIndexes rest).map fun (idx, r) => (.tensor n idx, r)
    | .flt s :: rest => some (.flt s, rest)
    | .int s :: rest => some (.int s, rest)
    | .lpar :: rest =>
      match parseExpr fuel rest with
      | some (e, .rpar :: r) => some (e, r)
      | _ => none
    | _ => none
/-- `rep1sep(factor, "*") > reduce(Multiply)` — left associative -/
def parseTerm : Nat → List Tok → Option (PExpr × List Tok)
  | 0, _ => none
  | fuel + 1, ts =>
    match parseFactor fuel ts with
    | none => none
    | some (f, rest) => parseTermRest fuel f rest
def parseTermRest : Nat → PExpr → List Tok → Option (PExpr × List Tok)
  | 0, _, _ => none
  | fuel + 1, acc, ts =>
    match ts with
    | .star :: rest =>
      match parseFactor fuel rest with
      | some (f, r) => parseTermRest fuel (.mul acc f) r
      -- rep1sep stops before a separator that is not followed by an element
      | none => some (acc, ts)
    | _ => some (acc, ts)
/-- `term & rep(lit("+", "-") & term)` — left associative -/
def parseExpr : Nat → List Tok → Option (PExpr × List Tok)
  | 0, _ => none
  | fuel + 1, ts =>
    match parseTerm fuel ts with
    | none => none
    | some (t, rest) => parseExprRest fuel t rest
def parseExprRest : Nat → PExpr → List Tok → Option (PExpr × List Tok)
  | 0, _, _ => none
  | fuel + 1, acc, ts =>
    match ts with
    | .plus :: rest =>
      match parseTerm fuel rest with
      | some (t, r) => parseExprRest fuel (.add acc t) r
      | none => some (acc, ts)
    | .minus :: rest =>
      match parseTerm fuel rest with
      | some (t, r) => parseExprRest fuel (.sub acc t) r
      | none => some (acc, ts)
    | _ => some (acc, ts)
end

inductive ParseErr where
  | syntax
  | mutating
  | inconsistentDimensions
  | nameConflict
  deriving Repr, Inhabited, DecidableEq

/-- tensors of an expression in order of first occurrence of their name: `variables()` -/
def tensorsOf : PExpr → List (String × List String)
  | .int _ => []
  | .flt _ => []
  | .tensor n idx => [(n, idx)]
  | .add l r => tensorsOf l ++ tensorsOf r
  | .sub l r => tensorsOf l ++ tensorsOf r
  | .mul l r => tensorsOf l ++ tensorsOf r

def namesInOrder (ts : List (String × List String)) : List String :=
  ts.foldl (fun acc t => if acc.contains t.1 then acc else acc ++ [t.1]) []

/-- `Assignment.__post_init__`: for each tensor name in first-occurrence order: target reuse, then
order consistency; finally name/index conflicts -/
def validate (a : PAssign) : Option ParseErr :=
  let ts := tensorsOf a.rhs
  let names := namesInOrder ts
  let perName : Option ParseErr := names.foldl (fun (acc : Option ParseErr) n =>
    match acc with
    | some e => some e
    | none =>
      if n == a.tname then some .mutating
      else
        let occ := ts.filter (·.1 == n)
        match occ with
        | [] => none
        | first :: rest => if rest.all (fun t => t.2.length == first.2.length) then none else some .inconsistentDimensions) none
  match perName with
  | some e => some e
  | none =>
    let indexNames := a.tidx ++ ts.flatMap (·.2)
    let varNames := a.tname :: names
    if indexNames.any varNames.contains then some .nameConflict else none

/-- `parse_assignment`: the `Assignment` constructor (and with it the three validation errors) runs as
soon as `tensor "=" expression` has matched a prefix of the input, before parsita checks that the
whole input was consumed — so a validation error wins over trailing garbage -/
def parseAssignment (s : String) : Except ParseErr PAssign :=
  let (ts, complete) := lex s
  -- each parenthesis level costs three calls (expression → term → factor) for two tokens
  let fuel := 3 * ts.length + 3
  match ts with
  | .name n :: .lpar :: rest =>
    match parseIndexes rest with
    | some (idx, .eq :: rest') =>
      match parseExpr fuel rest' with
      | some (e, remaining) =>
        let a : PAssign := ⟨n, idx, e⟩
        match validate a with
        | some err => .error err
        | none => if remaining.isEmpty && complete then .ok a else .error .syntax
      | none => .error .syntax
    | _ => .error .syntax
  | _ => .error .syntax

/-! ### deparse -/

def PExpr.isAddSub : PExpr → Bool
  | .add _ _ => true
  | .sub _ _ => true
  | _ => false

def PExpr.isMul : PExpr → Bool
  | .mul _ _ => true
  | _ => false

/-- how `deparse` spells a token: binary operators and `=` are surrounded by single spaces,
everything else is printed bare -/
def Tok.render : Tok → List Char
  | .name s => s.toList
  | .int s => s.toList
  | .flt s => s.toList
  | .lpar => ['(']
  | .rpar => [')']
  | .comma => [',']
  | .star => [' ', '*', ' ']
  | .plus => [' ', '+', ' ']
  | .minus => [' ', '-', ' ']
  | .eq => [' ', '=', ' ']

def render (ts : List Tok) : List Char := ts.flatMap Tok.render

/-- `name(i,j,…)` -/
def tensorToks (n : String) (idx : List String) : List Tok :=
  .name n :: .lpar :: (match idx with
    | [] => []
    | i :: rest => .name i :: rest.flatMap fun j => [.comma, .name j]) ++ [.rpar]

def parenToks (ts : List Tok) : List Tok := .lpar :: ts ++ [.rpar]

/-- the token sequence `Expression.deparse` prints (parentheses exactly where the code puts them:
right operand of `+`/`-` if it is a sum/difference; left operand of `*` if it is a sum/difference,
right operand of `*` if it is a sum/difference/product) -/
def PExpr.toks : PExpr → List Tok
  | .int s => [.int s]
  | .flt s => [.flt s]
  | .tensor n idx => tensorToks n idx
  | .add l r => l.toks ++ [.plus] ++ (if r.isAddSub then parenToks r.toks else r.toks)
  | .sub l r => l.toks ++ [.minus] ++ (if r.isAddSub then parenToks r.toks else r.toks)
  | .mul l r =>
    (if l.isAddSub then parenToks l.toks else l.toks) ++ [.star] ++
      (if r.isAddSub || r.isMul then parenToks r.toks else r.toks)

def PExpr.deparse (e : PExpr) : String := String.ofList (render e.toks)

def PAssign.toks (a : PAssign) : List Tok := tensorToks a.tname a.tidx ++ [.eq] ++ a.rhs.toks

def PAssign.deparse (a : PAssign) : String := String.ofList (render a.toks)

/-! ### formats -/

inductive FMode where
  | dense | compressed
  deriving Repr, Inhabited, DecidableEq

structure Format where
  modes : List FMode
  ordering : List Nat
  deriving Repr, Inhabited, DecidableEq

inductive FormatErr where
  | syntax
  | invalidOrdering
  deriving Repr, Inhabited, DecidableEq

def modeOfChar : Char → Option FMode
  | 'd' => some .dense
  | 's' => some .compressed
  | _ => none

def FMode.char : FMode → Char
  | .dense => 'd'
  | .compressed => 's'

/-- `set(ordering) == set(range(len(modes)))` -/
def validPerm (ordering : List Nat) (n : Nat) : Bool :=
  ordering.all (· < n) && (List.range n).all ordering.contains

def digitsToNat (ds : List Char) : Nat := ds.foldl (fun n c => n * 10 + (c.toNat - 48)) 0

/-- `rep(mode & integer)`: the repetitions matched and the unconsumed rest -/
def repModeInt : Nat → List Char → List (FMode × Nat) × List Char
  | 0, cs => ([], cs)
  | fuel + 1, cs =>
    match cs with
    | c :: rest =>
      match modeOfChar c with
      | none => ([], cs)
      | some m =>
        let ds := rest.takeWhile isDigit
        if ds.isEmpty then ([], cs)
        else
          let (more, r) := repModeInt fuel (rest.dropWhile isDigit)
          ((m, digitsToNat ds) :: more, r)
    | [] => ([], cs)

/-- `rep(mode)` -/
def repMode (cs : List Char) : List FMode × List Char :=
  ((cs.takeWhile fun c => (modeOfChar c).isSome).filterMap modeOfChar,
   cs.dropWhile fun c => (modeOfChar c).isSome)

/-- `FormatParsers.format` applied to a whole string: both alternatives run (parsita's `|` is the
longest alternative); the conversion of `format_with_orderings` raises `InvalidModeOrderingError`
as soon as it has matched an invalid ordering, whatever follows; no whitespace is skipped -/
def parseFormatChars (cs : List Char) : Except FormatErr Format :=
  let (ms, r1) := repMode cs
  let (mo, r2) := repModeInt (cs.length + 1) cs
  let fw : Format := ⟨mo.map (·.1), mo.map (·.2)⟩
  if !validPerm fw.ordering fw.modes.length then .error .invalidOrdering
  else if r2.length < r1.length then (if r2.isEmpty then .ok fw else .error .syntax)
  else (if r1.isEmpty then .ok ⟨ms, List.range ms.length⟩ else .error .syntax)

def parseFormat (s : String) : Except FormatErr Format := parseFormatChars s.toList

def isVarStart (c : Char) : Bool := isAlpha c || c == '_'
def isVarChar (c : Char) : Bool := isAlnum c || c == '_'

/-- `variable << ":" & format` -/
def parseNamedFormat (s : String) : Except FormatErr (String × Format) :=
  match s.toList with
  | c :: rest =>
    if isVarStart c then
      let nm := (c :: rest).takeWhile isVarChar
      match (c :: rest).dropWhile isVarChar with
      | ':' :: fmt => (parseFormatChars fmt).map fun f => (String.ofList nm, f)
      | _ => .error .syntax
    else .error .syntax
  | [] => .error .syntax

def natToString (n : Nat) : String := toString n

def Format.deparse (f : Format) : String :=
  if f.ordering = List.range f.modes.length then String.ofList (f.modes.map FMode.char)
  else String.ofList ((f.modes.zip f.ordering).flatMap fun (m, o) => m.char :: (natToString o).toList)

end TV.Parse
