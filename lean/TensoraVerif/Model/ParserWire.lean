import TensoraVerif.Model.Sexp
import TensoraVerif.Model.Parser

/-! Wire format for the parser model (driver only). -/
namespace TV.Parse.Wire
open TV

partial def exprToSexp : PExpr → Sexp
  | .int s => Sexp.mk "Integer" [.str s]
  | .flt s => Sexp.mk "Float" [.str s]
  | .tensor n idx => Sexp.mk "Tensor" [.str n, .list (idx.map .str)]
  | .add l r => Sexp.mk "Add" [exprToSexp l, exprToSexp r]
  | .sub l r => Sexp.mk "Subtract" [exprToSexp l, exprToSexp r]
  | .mul l r => Sexp.mk "Multiply" [exprToSexp l, exprToSexp r]

partial def exprOf : Sexp → Option PExpr
  | .list [.atom "Integer", .str s] => some (.int s)
  | .list [.atom "Float", .str s] => some (.flt s)
  | .list [.atom "Tensor", .str n, .list idx] => (idx.mapM Sexp.toStr?).map (.tensor n)
  | .list [.atom "Add", l, r] => do pure (.add (← exprOf l) (← exprOf r))
  | .list [.atom "Subtract", l, r] => do pure (.sub (← exprOf l) (← exprOf r))
  | .list [.atom "Multiply", l, r] => do pure (.mul (← exprOf l) (← exprOf r))
  | _ => none

def assignToSexp (a : PAssign) : Sexp :=
  Sexp.mk "Assignment" [.str a.tname, .list (a.tidx.map .str), exprToSexp a.rhs]

def assignOf : Sexp → Option PAssign
  | .list [.atom "Assignment", .str n, .list idx, e] => do pure ⟨n, ← idx.mapM Sexp.toStr?, ← exprOf e⟩
  | _ => none

def errName : ParseErr → String
  | .syntax => "ParseError"
  | .mutating => "MutatingAssignmentError"
  | .inconsistentDimensions => "InconsistentDimensionsError"
  | .nameConflict => "NameConflictError"

def fmtToSexp (f : Format) : Sexp :=
  Sexp.mk "Format" [.str (String.ofList (f.modes.map FMode.char)), Sexp.ofNats f.ordering]

def fmtOf : Sexp → Option Format
  | .list [.atom "Format", .str ms, o] => do pure ⟨← ms.toList.mapM modeOfChar, ← o.toNats?⟩
  | _ => none

def fmtErrName : FormatErr → String
  | .syntax => "ParseError"
  | .invalidOrdering => "InvalidModeOrderingError"

end TV.Parse.Wire
