import TensoraVerif.Model.IR
import TensoraVerif.Model.Machine
import TensoraVerif.Model.CPrint

/-
C07, the TYPED stable fragment of the peephole optimiser (definitions only; computable, Mathlib-free,
compiled into the native driver).

* `tyOf Γ e`: a syntactic typing of expressions relative to a variable typing `Γ`;
* `NoRetypeE Γ e` / `NoRetypeS Γ s`: like `NoFloatIdentityE/S` (`Lemmas/PeepholeExact.lean`), but a
  float-literal identity rule (`0.0 + e`, `e + 0.0`, `e - 0.0`, `1.0 * e`, `e * 1.0`) may fire when the
  kept operand is FLOAT-typed, and `0 * e`, `e * 0` may fire when both operands are INT-typed.
  The statement-level predicate also contains the (cheap) discipline that keeps the typing of
  pointers true at run time: declarations agree with `Γ`, and what is stored into a `T*` variable, a
  level slot or the `vals` field is syntactically a pointer of the right element type;
* `Func.tyEnv`, `Func.noRetype`: the typing of a function (parameters, then declarations) and the
  check of its body.

* `State.agrees Γ σ`: the computable form of the hypothesis "σ agrees with Γ" (`WT Γ σ` in
  `Lemmas/PeepTypedInv.lean`; `agrees_WT` in `Lemmas/PeepTypedCheck.lean`).

The theorems are in `Lemmas/PeepTyped*.lean` and `Props/C07Typed.lean`.
-/
namespace TV.IR

/-- the kinds of values the typing distinguishes -/
inductive NumKind where
  | int | float | bool
  /-- pointer into a block of 32-bit integers (`int32_t*`) -/
  | ptrInt
  /-- pointer into a block of floats (`double*`) -/
  | ptrFloat
  deriving DecidableEq, Repr, Inhabited

def NumKind.ofTy : Ty → Option NumKind
  | .int => some .int
  | .float => some .float
  | .bool => some .bool
  | .ptr .int => some .ptrInt
  | .ptr .float => some .ptrFloat
  | _ => none

/-- the pointer kind of an allocation of element type `t` -/
def NumKind.ptrOf : Ty → Option NumKind
  | .int => some .ptrInt
  | .float => some .ptrFloat
  | _ => none

/-- result kind of an arithmetic operator (`+ - * max min`) with C's usual arithmetic conversions -/
def arithKind : Option NumKind → Option NumKind → Option NumKind
  | some .int, some .int => some .int
  | some .int, some .float => some .float
  | some .float, some .int => some .float
  | some .float, some .float => some .float
  | _, _ => none

def addKind : Option NumKind → Option NumKind → Option NumKind
  | some .ptrInt, some .int => some .ptrInt
  | some .ptrFloat, some .int => some .ptrFloat
  | a, b => arithKind a b

variable {F : Type}

/-- `t->indices[l]`: the only expressions whose value is a level of a tensor -/
def Expr.isLevelE : Expr F → Bool
  | .idx (.attr _ a) _ => a == "indices"
  | _ => false

/-- syntactic typing; `none` = unknown. `Γ` types the variables. -/
def tyOf (Γ : String → Option Ty) : Expr F → Option NumKind
  | .var x => (Γ x).bind NumKind.ofTy
  | .attr _ a =>
    if a == "dimensions" then some .ptrInt
    else if a == "vals" then some .ptrFloat
    else none
  | .idx t _ =>
    if t.isLevelE then some .ptrInt
    else match tyOf Γ t with
      | some .ptrInt => some .int
      | some .ptrFloat => some .float
      | _ => none
  | .intLit _ => some .int
  | .floatLit _ => some .float
  | .boolLit _ => some .bool
  | .bin op l r =>
    match op with
    | .add => addKind (tyOf Γ l) (tyOf Γ r)
    | .sub | .mul | .max | .min => arithKind (tyOf Γ l) (tyOf Γ r)
    | .eq | .ne | .gt | .lt | .ge | .le | .and | .or => some .bool
  | .b2i _ => some .int
  | .alloc _ _ => none
  | .realloc _ _ _ => none

variable [FloatOps F]

/-- `e` (or its optimised form) is syntactically of kind `k` -/
def hasKindE (Γ : String → Option Ty) (k : NumKind) (e : Expr F) : Bool :=
  tyOf Γ e == some k || tyOf Γ (peepE e) == some k

/-- the rule that fires at `op l r` (operands already optimised) does not change the type of the
result: `fl`/`fr` say that the left/right operand is float-typed, `il`/`ir` that it is int-typed -/
def binOKT (fl fr il ir : Bool) (op : BinOp) (l r : Expr F) : Bool :=
  match op with
  | .add =>
    if l.isInt 0 then true
    else if l.isFloatZero then fr
    else if r.isInt 0 then true
    else if r.isFloatZero then fl
    else true
  | .sub =>
    if r.isInt 0 then true
    else if r.isFloatZero then fl
    else true
  | .mul =>
    if l.isInt 0 || r.isInt 0 then il && ir
    else if l.isFloatZero || r.isFloatZero then true
    else if l.isInt 1 then true
    else if l.isFloatOne then fr
    else if r.isInt 1 then true
    else if r.isFloatOne then fl
    else true
  | _ => true

/-- no retyping rule fires anywhere in the optimisation of `e` (decidable, syntactic) -/
def NoRetypeE (Γ : String → Option Ty) : Expr F → Bool
  | .var _ => true
  | .attr t _ => NoRetypeE Γ t
  | .idx t i => NoRetypeE Γ t && NoRetypeE Γ i
  | .intLit _ => true
  | .floatLit _ => true
  | .boolLit _ => true
  | .bin op l r => NoRetypeE Γ l && NoRetypeE Γ r &&
      binOKT (hasKindE Γ .float l) (hasKindE Γ .float r) (hasKindE Γ .int l) (hasKindE Γ .int r)
        op (peepE l) (peepE r)
  | .b2i e => NoRetypeE Γ e
  | .alloc _ n => NoRetypeE Γ n
  | .realloc o _ n => NoRetypeE Γ o && NoRetypeE Γ n

/-- the right-hand side `v` is syntactically a pointer of kind `k` (or a fresh block of that kind) -/
def rhsKindOK (Γ : String → Option Ty) (k : NumKind) : Expr F → Bool
  | .alloc t _ => NumKind.ptrOf t == some k
  | .realloc _ t _ => NumKind.ptrOf t == some k
  | v => tyOf Γ v == some k

/-- what is stored into a variable declared `T*` (`T` int or float) is a `T*` -/
def varRhsOK (Γ : String → Option Ty) (x : String) (v : Expr F) : Bool :=
  match Γ x with
  | some (.ptr .int) => rhsKindOK Γ .ptrInt v
  | some (.ptr .float) => rhsKindOK Γ .ptrFloat v
  | _ => true

/-- pointer discipline of an assignment `t = v` -/
def assignOK (Γ : String → Option Ty) (t v : Expr F) : Bool :=
  match t with
  | .var x => varRhsOK Γ x v
  | .attr _ _ => rhsKindOK Γ .ptrFloat v
  | .idx t' _ => !t'.isLevelE || rhsKindOK Γ .ptrInt v
  | _ => true

/-- a declaration of `x` at type `t` agrees with `Γ` -/
def declOK (Γ : String → Option Ty) (x : String) (t : Ty) : Bool :=
  match Γ x with
  | none => true
  | some t' => t' == t

mutual
/-- the typed stable fragment: no retyping rule fires anywhere in the optimisation of `s`, and `s`
respects the declaration / pointer discipline of `Γ` -/
def NoRetypeS (Γ : String → Option Ty) : Stmt F → Bool
  | .expr e => NoRetypeE Γ e
  | .decl x t => declOK Γ x t
  | .assign t v => NoRetypeE Γ t && NoRetypeE Γ v && assignOK Γ t v
  | .declAssign x t v => NoRetypeE Γ v && declOK Γ x t && varRhsOK Γ x v
  | .block ss _ => NoRetypeL Γ ss
  | .branch c t f => NoRetypeE Γ c && NoRetypeS Γ t && NoRetypeS Γ f
  | .loop c b => NoRetypeE Γ c && NoRetypeS Γ b
  | .ret e => NoRetypeE Γ e
def NoRetypeL (Γ : String → Option Ty) : List (Stmt F) → Bool
  | [] => true
  | s :: ss => NoRetypeS Γ s && NoRetypeL Γ ss
end

/-- first binding of `x` in an association list -/
def lookupTy (ds : List (String × Ty)) (x : String) : Option Ty :=
  match ds with
  | [] => none
  | d :: rest => if d.1 == x then some d.2 else lookupTy rest x

/-- the variable typing of a function: its parameters, then all declarations of its body -/
def Func.tyEnv (f : Func F) : String → Option Ty := lookupTy (f.params ++ f.body.decls)

/-- the body of `f` lies in the typed stable fragment (relative to `f.tyEnv`) -/
def Func.noRetype (f : Func F) : Bool := NoRetypeS f.tyEnv f.body

/-! ### the computable form of "σ agrees with Γ" -/

/-- block `b` exists and has element type `et` -/
def blkTyB (h : List (Block F)) (b : Nat) (et : ElemTy) : Bool :=
  match h[b]? with
  | some blk => blk.ty == et
  | none => false

/-- a proper pointer points into a block of element type `et` (anything else passes) -/
def ptrBlkB (h : List (Block F)) (et : ElemTy) : Val F → Bool
  | .ptr b _ => blkTyB h b et
  | _ => true

/-- a variable record carries the type `Γ` gives to its name, and a typed pointer in it points into
a block of its element type -/
def varOKB (Γ : String → Option Ty) (h : List (Block F)) (r : VarRec F) : Bool :=
  match Γ r.name with
  | none => true
  | some t => r.ty == t &&
    match r.val with
    | none => true
    | some v => (t != .ptr .int || ptrBlkB h .int v) && (t != .ptr .float || ptrBlkB h .float v)

def slotOKB (h : List (Block F)) : Option (Val F × Val F) → Bool
  | none => true
  | some (p, c) => ptrBlkB h .int p && ptrBlkB h .int c

/-- the arrays of a tensor have the element types of `taco_tensor_t` -/
def tensorOKB (h : List (Block F)) (tr : TensorRec F) : Bool :=
  blkTyB h tr.dimsBlk .int && ptrBlkB h .float tr.vals && tr.slots.all (slotOKB h)

/-- `σ` agrees with `Γ` (decidable; implies `WT Γ σ`) -/
def State.agrees (Γ : String → Option Ty) (σ : State F) : Bool :=
  σ.vars.all (varOKB Γ σ.heap) && σ.tensors.all (tensorOKB σ.heap)

end TV.IR
