import TensoraVerif.Model.Machine
import TensoraVerif.Model.CPrint

/-
M6/M8 bridge: the *block-scoped* reading of the IR (what the C back end's output means to a C
compiler) and the syntactic certificate `scopeOK` under which it coincides with the flat, hoisted
reading of `Machine.lean` (what the LLVM back end's output means).

Scopes in the printed C (`CPrint.lean`): braces are emitted for the function body (one scope shared
with the parameters), for each arm of a `.branch` (both of them) and for the body of a `.loop`;
a nested `.block` is printed inline, without braces, so it is *not* a scope.

`execC`/`execCL` mirror `exec`/`execL` clause by clause: same expression evaluator (`evalE`,
`evalLoc`, `evalRhs`), same heap and tensor behaviour, same monitors, same fuel discipline, same
`iters`/`steps` accounting. The only difference is the variable environment: a stack of scopes.

Everything here is computable and Mathlib-free (it is compiled into the native driver).
-/
namespace TV.IR

/-- A block-scoped machine state: a stack of scopes, INNERMOST FIRST; within a scope the most
recently declared variable comes first. Heap and tensors are those of `State`. -/
structure CState (F : Type) where
  scopes : List (List (VarRec F))
  heap : List (Block F)
  tensors : List (TensorRec F)
  deriving Repr, Inhabited

structure COut (F : Type) where
  st : CState F
  ret : Option (Val F)
  iters : Nat
  steps : Nat
  deriving Repr, Inhabited

def COut.seq {F : Type} (a b : COut F) : COut F := ⟨b.st, b.ret, a.iters + b.iters, a.steps + b.steps⟩

variable {F : Type} [FloatOps F]

/-- The view of a scoped state that the expression evaluator reads. The scope stack is flattened
innermost first; since `lookupVar` returns the FIRST record with the requested name, a lookup in the
view finds the record of the innermost scope that contains the name — C's name resolution
(`lookupVar_flatten_cons` in `Lemmas/ScopedBasic.lean` states exactly this). -/
def CState.flat (σ : CState F) : State F := ⟨σ.scopes.flatten, σ.heap, σ.tensors⟩

/-- take heap and tensors from a flat state (after an allocation or a non-variable store; variables
are untouched) -/
def CState.withHT (σ : CState F) (τ : State F) : CState F := { σ with heap := τ.heap, tensors := τ.tensors }

/-- `{` -/
def CState.push (σ : CState F) : CState F := { σ with scopes := [] :: σ.scopes }
/-- `}`: the innermost scope and its variables disappear -/
def CState.pop (σ : CState F) : CState F := { σ with scopes := σ.scopes.tail }

/-- assignment to a variable: update the record in the innermost scope that contains the name -/
def setVarS : List (List (VarRec F)) → String → Option (Val F) → List (List (VarRec F))
  | [], _, _ => []
  | sc :: rest, x, v =>
    if sc.any (·.name == x) then setVarOpt sc x v :: rest else sc :: setVarS rest x v

/-- `store`, scoped: a variable store resolves the name as C does (innermost scope containing it) and
converts to the declared type of *that* record; every other location is a heap/tensor location and
is handled by `store` itself -/
def storeC (σ : CState F) (loc : Loc) (v : Val F) : Except Err (CState F) :=
  match loc with
  | .var x =>
    match lookupVar σ.flat.vars x with
    | none => .error .unbound
    | some r => do
      let v' ← convTo r.ty v
      .ok { σ with scopes := setVarS σ.scopes x (some v') }
  | loc => do
    let τ ← store σ.flat loc v
    .ok (σ.withHT τ)

/-- a declaration goes to the innermost scope; a second declaration of the same name in the SAME
scope is what a C compiler rejects ("redefinition of 'x'"). (With no open scope — which never
happens in a run started from a function's parameter scope — the declaration opens one.) -/
def declareC (σ : CState F) (x : String) (t : Ty) (v : Option (Val F)) : Except Err (CState F) :=
  match σ.scopes with
  | [] => .ok { σ with scopes := [[⟨x, t, v⟩]] }
  | sc :: rest =>
    if sc.any (·.name == x) then .error .redeclared
    else .ok { σ with scopes := (⟨x, t, v⟩ :: sc) :: rest }

mutual
/-- Block-scoped big-step execution. Clause by clause `exec`, except:
* `.decl`/`.declAssign` declare in the innermost scope (`declareC`);
* in C the scope of a declared name starts at its declarator, *before* the initialiser:
  `T x = … x …;` reads the new, indeterminate `x`. This is reported as `.uninit`;
* each arm of a `.branch` and each iteration of a `.loop` body runs in a fresh innermost scope that is
  popped afterwards, also when the arm/body returned;
* `.block` does not open a scope. -/
def execC (fuel : Nat) : Stmt F → CState F → Except Err (COut F)
  | .expr e, σ => do
    let _ ← evalE σ.flat e
    .ok ⟨σ, none, 0, 1⟩
  | .decl x t, σ => do
    let σ' ← declareC σ x t none
    .ok ⟨σ', none, 0, 1⟩
  | .assign t v, σ => do
    let (τ, val) ← evalRhs σ.flat v
    let σ1 := σ.withHT τ
    let loc ← evalLoc σ1.flat t
    let σ2 ← storeC σ1 loc val
    .ok ⟨σ2, none, 0, 1⟩
  | .declAssign x t v, σ =>
    if v.mentions x then .error .uninit
    else do
      let (τ, val) ← evalRhs σ.flat v
      let val' ← convTo t val
      let σ2 ← declareC (σ.withHT τ) x t (some val')
      .ok ⟨σ2, none, 0, 1⟩
  | .block ss _, σ => execCL fuel ss σ
  | .branch c t f, σ => do
    match ← evalE σ.flat c with
    | .bool true => do
      let o ← execC fuel t σ.push
      .ok { o with st := o.st.pop, steps := o.steps + 1 }
    | .bool false => do
      let o ← execC fuel f σ.push
      .ok { o with st := o.st.pop, steps := o.steps + 1 }
    | _ => .error .typeError
  | .loop c b, σ =>
    match fuel with
    | 0 => .error .fuel
    | fuel' + 1 => do
      match ← evalE σ.flat c with
      | .bool false => .ok ⟨σ, none, 0, 1⟩
      | .bool true => do
        let o1 ← execC fuel' b σ.push
        match o1.ret with
        | some _ => .ok { o1 with st := o1.st.pop, iters := o1.iters + 1, steps := o1.steps + 1 }
        | none => do
          let o2 ← execC fuel' (.loop c b) o1.st.pop
          .ok ⟨o2.st, o2.ret, o1.iters + o2.iters + 1, o1.steps + o2.steps + 1⟩
      | _ => .error .typeError
  | .ret e, σ => do
    let v ← evalE σ.flat e
    .ok ⟨σ, some v, 0, 1⟩
  termination_by s => (fuel, sizeOf s)
  decreasing_by all_goals simp_wf; all_goals (try subst_vars); all_goals (first | omega | (simp_all; omega) | trace_state)
def execCL (fuel : Nat) : List (Stmt F) → CState F → Except Err (COut F)
  | [], σ => .ok ⟨σ, none, 0, 0⟩
  | s :: ss, σ => do
    let o1 ← execC fuel s σ
    match o1.ret with
    | some _ => .ok o1
    | none => do
      let o2 ← execCL fuel ss o1.st
      .ok (o1.seq o2)
  termination_by ss => (fuel, sizeOf ss)
  decreasing_by all_goals simp_wf; all_goals (try subst_vars); all_goals (first | omega | (simp_all; omega) | trace_state)
end

/-! ### the certificate: an abstract interpretation over scope stacks -/

/-- an abstract scope: the names declared in it (most recent first), each with a flag
`valid` = "the flat machine's single slot for this name currently holds THIS variable's value" -/
abbrev AScope := List (String × Bool)
/-- abstract scope stack, innermost first -/
abbrev AState := List AScope

/-- resolve a name as C does: the innermost scope that contains it; `none` = not in scope -/
def lookA : AState → String → Option Bool
  | [], _ => none
  | sc :: rest, x =>
    match sc.find? (·.1 == x) with
    | some p => some p.2
    | none => lookA rest x

/-- invalidate every binding whose name is in `N` -/
def invP (N : List String) (p : String × Bool) : String × Bool := if N.contains p.1 then (p.1, false) else p
def invAll (N : List String) (A : AState) : AState := A.map (·.map (invP N))

/-- every variable occurring in the expression is in scope and valid -/
def usesE (A : AState) : Expr F → Bool
  | .var n => lookA A n == some true
  | .attr t _ => usesE A t
  | .idx t i => usesE A t && usesE A i
  | .intLit _ => true
  | .floatLit _ => true
  | .boolLit _ => true
  | .bin _ l r => usesE A l && usesE A r
  | .b2i e => usesE A e
  | .alloc _ n => usesE A n
  | .realloc o _ n => usesE A o && usesE A n

/-- a declaration of `x`: rejected if `x` is already in the innermost scope; otherwise `x` becomes a
valid binding of the innermost scope and every binding of `x` in the OUTER scopes becomes invalid
(the flat machine overwrites the one slot they share). With no open scope (which never happens from
`scopeOK`'s initial state) the declaration is refused. -/
def declA (A : AState) (x : String) : Option AState :=
  match A with
  | [] => none
  | sc :: rest => if sc.any (·.1 == x) then none else some (((x, true) :: sc) :: invAll [x] rest)

/-- pointwise conjunction of the validity flags of two abstract states of the same shape -/
def andA (A B : AState) : AState :=
  List.zipWith (List.zipWith fun p q => (p.1, p.2 && q.2)) A B

mutual
/-- the abstract transfer function of a statement; `none` = certificate refused -/
def absS : Stmt F → AState → Option AState
  | .expr e, A => if usesE A e then some A else none
  | .decl x _, A => declA A x
  | .assign t v, A => if usesE A t && usesE A v then some A else none
  | .declAssign x _ v, A =>
    if v.mentions x then none
    else if usesE A v then declA A x else none
  | .block ss _, A => absL ss A
  | .branch c t f, A =>
    if usesE A c then
      match absS t ([] :: A), absS f ([] :: A) with
      | some Bt, some Bf => some (andA Bt.tail Bf.tail)
      | _, _ => none
    else none
  | .loop c b, A =>
    if usesE A c then
      match absS b ([] :: A) with
      | some B' =>
        let B1 := B'.tail
        -- the second and later iterations start from the state the first one leaves
        if usesE B1 c then
          match absS b ([] :: B1) with
          | some _ => some B1
          | none => none
        else none
      | none => none
    else none
  | .ret e, A => if usesE A e then some A else none
def absL : List (Stmt F) → AState → Option AState
  | [], A => some A
  | s :: ss, A =>
    match absS s A with
    | some B => absL ss B
    | none => none
end

/-- The scoping certificate of a function: the body, abstractly interpreted from the single scope
that holds the parameters (all valid), is accepted.

In words. The abstract state is a stack of scopes, each a list of `(name, valid)`. A USE of `x` (any
`.var x` in an expression, assignment target, condition, return value) resolves `x` to the innermost
scope containing it and demands that it exists and is `valid`. A DECLARATION of `x` demands that `x`
is not in the innermost scope, adds `(x, true)` there and sets `valid := false` on every `x` in the
outer scopes. `.declAssign x t v` additionally demands that `v` does not mention `x` (C would read
the new, indeterminate `x`), checks the uses of `v`, then declares. `.block` is sequential in the
same scope. `.branch c t f` checks `c`, runs each arm in a fresh innermost scope which is then
dropped, and takes the pointwise AND. `.loop c b` checks `c`, runs `b` in a fresh scope and drops it,
giving `S1`; `c` and `b` must pass again from `S1`; the result is `S1`. -/
def scopeOK (params : List (String × Ty)) (body : Stmt F) : Bool :=
  (absS body [params.map fun p => (p.1, true)]).isSome

end TV.IR
