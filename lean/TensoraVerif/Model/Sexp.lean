/-
S-expressions: the wire format between the Python harness and the Lean driver.
Core Lean only (no Mathlib) so that the driver links as a native executable.
-/
namespace TV

inductive Sexp where
  | atom : String → Sexp
  | str  : String → Sexp
  | list : List Sexp → Sexp
  deriving Repr, Inhabited

namespace Sexp

def hexDigit (n : Nat) : Char :=
  if n < 10 then Char.ofNat (48 + n) else Char.ofNat (87 + n)

def escapeChar (c : Char) : List Char :=
  if c == '"' || c == '\\' || c.toNat < 32 || c.toNat > 126 then
    if c.toNat < 256 then ['\\', 'x', hexDigit (c.toNat / 16), hexDigit (c.toNat % 16)]
    else ['\\', 'u'] ++ (Nat.toDigits 16 c.toNat) ++ [';']
  else [c]

def escape (s : String) : String := String.ofList (s.toList.flatMap escapeChar)

partial def toStr : Sexp → String
  | atom a => a
  | str s => "\"" ++ escape s ++ "\""
  | list xs => "(" ++ " ".intercalate (xs.map toStr) ++ ")"

instance : ToString Sexp := ⟨toStr⟩

def hexVal (c : Char) : Nat :=
  if '0' ≤ c ∧ c ≤ '9' then c.toNat - 48
  else if 'a' ≤ c ∧ c ≤ 'f' then c.toNat - 87
  else if 'A' ≤ c ∧ c ≤ 'F' then c.toNat - 55
  else 0

/-- read a string body (after the opening quote); returns string and rest -/
partial def readStr (cs : List Char) (acc : List Char) : Option (String × List Char) :=
  match cs with
  | [] => none
  | '"' :: rest => some (String.ofList acc.reverse, rest)
  | '\\' :: 'x' :: a :: b :: rest => readStr rest (Char.ofNat (hexVal a * 16 + hexVal b) :: acc)
  | '\\' :: 'u' :: rest =>
      let ds := rest.takeWhile (· != ';')
      let v := ds.foldl (fun n c => n * 16 + hexVal c) 0
      readStr (rest.dropWhile (· != ';')).tail (Char.ofNat v :: acc)
  | c :: rest => readStr rest (c :: acc)

def isDelim (c : Char) : Bool := c == ' ' || c == '(' || c == ')' || c == '"' || c == '\n' || c == '\t' || c == '\r'

mutual
partial def parseOne (cs : List Char) : Option (Sexp × List Char) :=
  match cs with
  | [] => none
  | ' ' :: rest | '\n' :: rest | '\t' :: rest | '\r' :: rest => parseOne rest
  | '(' :: rest => (parseMany rest []).map fun (xs, r) => (list xs, r)
  | ')' :: _ => none
  | '"' :: rest => (readStr rest []).map fun (s, r) => (str s, r)
  | _ =>
    let a := cs.takeWhile (fun c => !isDelim c)
    some (atom (String.ofList a), cs.dropWhile (fun c => !isDelim c))
partial def parseMany (cs : List Char) (acc : List Sexp) : Option (List Sexp × List Char) :=
  match cs with
  | [] => none
  | ' ' :: rest | '\n' :: rest | '\t' :: rest | '\r' :: rest => parseMany rest acc
  | ')' :: rest => some (acc.reverse, rest)
  | _ => match parseOne cs with
    | none => none
    | some (x, r) => parseMany r (x :: acc)
end

def parse (s : String) : Option Sexp := (parseOne s.toList).map (·.1)

/-- parse a whole line as a sequence of top-level S-expressions -/
partial def parseAll (cs : List Char) (acc : List Sexp) : Option (List Sexp) :=
  let cs := cs.dropWhile (fun c => c == ' ' || c == '\n' || c == '\t' || c == '\r')
  if cs.isEmpty then some acc.reverse else
  match parseOne cs with
  | none => none
  | some (x, r) => parseAll r (x :: acc)

def ofInt (i : Int) : Sexp := atom (toString i)
def ofNat (n : Nat) : Sexp := atom (toString n)
def ofBool (b : Bool) : Sexp := atom (if b then "true" else "false")
def ofInts (xs : List Int) : Sexp := list (xs.map ofInt)
def ofNats (xs : List Nat) : Sexp := list (xs.map ofNat)

def toInt? : Sexp → Option Int
  | atom a => a.toInt?
  | _ => none
def toNat? : Sexp → Option Nat
  | atom a => a.toNat?
  | _ => none
def toBool? : Sexp → Option Bool
  | atom "true" => some true
  | atom "false" => some false
  | _ => none
def toStr? : Sexp → Option String
  | str s => some s
  | atom a => some a
  | _ => none
def toList? : Sexp → Option (List Sexp)
  | list xs => some xs
  | _ => none
def toInts? (s : Sexp) : Option (List Int) := do
  let xs ← s.toList?
  xs.mapM toInt?
def toNats? (s : Sexp) : Option (List Nat) := do
  let xs ← s.toList?
  xs.mapM toNat?

/-- `(tag a b c)` → `some [a,b,c]` if the head atom matches -/
def tagged? (tag : String) : Sexp → Option (List Sexp)
  | list (atom t :: rest) => if t == tag then some rest else none
  | _ => none

def mk (tag : String) (args : List Sexp) : Sexp := list (atom tag :: args)

end Sexp
end TV
