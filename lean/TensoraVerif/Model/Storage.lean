/-
M5 — level-format storage: port of `Tensor.from_aos` (coordinates_to_tree +
tree_to_indices_and_values + taco_structure_to_cffi validation) and of
`Tensor.items` / `to_dok` (src/tensora/tensor.py, compile/_cffi_ownership.py).

Values are `Int` (exact ring elements; the harness only sends integral doubles).
Coordinates are `Int` so that negative / out-of-range coordinates of the
malformed stream are representable.
-/
namespace TV.Storage

inductive Mode where
  | dense | compressed
  deriving DecidableEq, Repr, Inhabited

/-- an entry in *level order*: coordinates per level, value -/
abbrev Entry := List Int × Int

/-- entries below key `k` at the first level (Python: `node[k]` of the nested dict) -/
def subEntries (es : List Entry) (k : Int) : List Entry :=
  es.filterMap fun e =>
    match e.1 with
    | c :: cs => if c = k then some (cs, e.2) else none
    | [] => none

/-- insert into a strictly increasing list, keeping it strictly increasing -/
def insertSorted (k : Int) : List Int → List Int
  | [] => [k]
  | x :: xs => if k < x then k :: x :: xs else if k = x then x :: xs else x :: insertSorted k xs

/-- `sorted(node.keys())` -/
def keys (es : List Entry) : List Int :=
  es.foldr (fun e acc => match e.1 with | c :: _ => insertSorted c acc | [] => acc) []

/-- payload sum at a leaf (`node.get(key, 0.0) + payload` over all duplicates) -/
def sumVals (es : List Entry) : Int := es.foldl (fun a e => a + e.2) 0

/-- one level in segment form: lengths of the segments appended so far, coordinates -/
structure Lv where
  seg : List Nat
  crd : List Int
  deriving Repr, DecidableEq, Inhabited

def Lv.empty : Lv := ⟨[], []⟩
def Lv.append (a b : Lv) : Lv := ⟨a.seg ++ b.seg, a.crd ++ b.crd⟩

def mergeLvs : List Lv → List Lv → List Lv
  | a :: as, b :: bs => a.append b :: mergeLvs as bs
  | _, _ => []

def emptyLvs (ms : List Mode) : List Lv := ms.map fun _ => Lv.empty

def denseKeys (d : Nat) : List Int := (List.range d).map Int.ofNat

/-- depth-first construction of the per-level arrays (port of `tree_to_indices_and_values.recurse`;
the nested dict is represented by the list of entries below the current node) -/
def enc : List Mode → List Nat → List Entry → List Lv × List Int
  | [], _, es => ([], [sumVals es])
  | m :: ms, dims, es =>
    let ks := match m with
      | .dense => denseKeys (dims.headD 0)
      | .compressed => keys es
    let here : Lv := match m with
      | .dense => Lv.empty
      | .compressed => ⟨[ks.length], ks⟩
    let sub := ks.foldl (fun acc k =>
        let ch := enc ms dims.tail (subEntries es k)
        (mergeLvs acc.1 ch.1, acc.2 ++ ch.2)) (emptyLvs ms, [])
    (here :: sub.1, sub.2)

/-- cumulative positions `[0, s0, s0+s1, …]` -/
def cumFrom (start : Nat) : List Nat → List Nat
  | [] => [start]
  | s :: ss => start :: cumFrom (start + s) ss

/-- a stored level: empty arrays for dense, `pos`/`crd` for compressed -/
structure Level where
  mode : Mode
  pos : List Int
  crd : List Int
  deriving Repr, DecidableEq, Inhabited

structure Stored where
  dims : List Nat
  ordering : List Nat
  levels : List Level
  vals : List Int
  deriving Repr, DecidableEq, Inhabited

def Stored.modes (t : Stored) : List Mode := t.levels.map (·.mode)
def Stored.levelDims (t : Stored) : List Nat := t.ordering.map fun i => t.dims.getD i 0

inductive EncErr where
  | crdOutOfRange (level : Nat)
  | badOrdering
  | badCoordinateLength
  deriving Repr, DecidableEq

def validOrdering (ordering : List Nat) (n : Nat) : Bool :=
  ordering.length == n && (List.range n).all fun i => ordering.contains i

/-- reorder a dimension-order coordinate into level order: `coordinate[i] for i in ordering` -/
def toLevelOrder (ordering : List Nat) (c : List Int) : Option (List Int) :=
  ordering.mapM fun i => c[i]?

def mkLevels : List Mode → List Lv → List Level
  | m :: ms, l :: ls =>
    (match m with
     | .dense => ⟨.dense, [], []⟩
     | .compressed => ⟨.compressed, (cumFrom 0 l.seg).map Int.ofNat, l.crd⟩) :: mkLevels ms ls
  | _, _ => []

/-- the range check of `taco_structure_to_cffi` on compressed levels -/
def crdRangeOk : List Level → List Nat → Nat → Option Nat
  | [], _, _ => none
  | l :: ls, dims, i =>
    let d := dims.headD 0
    if l.mode = .compressed ∧ ¬ l.crd.all (fun c => 0 ≤ c ∧ c < d) then some i
    else crdRangeOk ls dims.tail (i + 1)

/-- `Tensor.from_aos(coordinates, values, dimensions=dims, format=(modes, ordering))` -/
def encode (modes : List Mode) (ordering : List Nat) (dims : List Nat)
    (entries : List (List Int × Int)) : Except EncErr Stored :=
  if ¬ (validOrdering ordering modes.length ∧ dims.length = modes.length) then .error .badOrdering else
  if ¬ entries.all (fun e => (toLevelOrder ordering e.1).isSome) then .error .badCoordinateLength else
    let es : List Entry := entries.filterMap fun e => (toLevelOrder ordering e.1).map fun c => (c, e.2)
    let levelDims := ordering.map fun i => dims.getD i 0
    let r := enc modes levelDims es
    let levels := mkLevels modes r.1
    match crdRangeOk levels levelDims 0 with
    | some i => .error (.crdOutOfRange i)
    | none => .ok ⟨dims, ordering, levels, r.2⟩

/-- inverse of a permutation given as a list: position of `i` in `ordering` -/
def indexOf (ordering : List Nat) (i : Nat) : Nat := ordering.findIdx (· == i)

/-- depth-first read-back (port of `Tensor.items.recurse`); `none` = an out-of-range array read.
Returns (level-order coordinates, value) -/
def dec (vals : List Int) : List Level → List Nat → List Int → Nat → Option (List (List Int × Int))
  | [], _, pre, p => (vals[p]?).map fun v => [(pre.reverse, v)]
  | l :: ls, dims, pre, p =>
    let d := dims.headD 0
    match l.mode with
    | .dense =>
      (List.range d).foldlM (fun acc c =>
        (dec vals ls dims.tail (Int.ofNat c :: pre) (d * p + c)).map fun r => acc ++ r) []
    | .compressed =>
      match l.pos[p]?, l.pos[p + 1]? with
      | some s, some e =>
        (List.range (e - s).toNat).foldlM (fun acc j =>
          let q := s.toNat + j
          if s < 0 then none else
          match l.crd[q]? with
          | none => none
          | some c => (dec vals ls dims.tail (c :: pre) q).map fun r => acc ++ r) []
      | _, _ => none

/-- dimension-order coordinate from a level-order prefix, as the fixed code does:
`coordinate[ordering[l]] = prefix[l]` -/
def fromLevelOrder (ordering : List Nat) (pre : List Int) : List Int :=
  (List.range ordering.length).map fun i => pre.getD (indexOf ordering i) 0

/-- what the code did before the F4 fix: `prefix[ordering[i]]` -/
def fromLevelOrderAsOldCode (ordering : List Nat) (pre : List Int) : List Int :=
  (List.range ordering.length).map fun i => pre.getD (ordering.getD i 0) 0

/-- `list(t.items())` -/
def decode (t : Stored) : Option (List (List Int × Int)) :=
  (dec t.vals t.levels t.levelDims [] 0).map fun es =>
    es.map fun e => (fromLevelOrder t.ordering e.1, e.2)

/-- `to_dok()` drops explicit zeros -/
def dropZeros (es : List (List Int × Int)) : List (List Int × Int) := es.filter (·.2 ≠ 0)

/-! ### Well-formedness (the predicate in the statement of C02) -/

def monotone : List Int → Bool
  | a :: b :: rest => a ≤ b && monotone (b :: rest)
  | _ => true

def strictlyIncreasing : List Int → Bool
  | a :: b :: rest => a < b && strictlyIncreasing (b :: rest)
  | _ => true

/-- every segment `crd[pos[k] .. pos[k+1])` is strictly increasing -/
def segmentsSorted (pos : List Int) (crd : List Int) : Bool :=
  (List.range (pos.length - 1)).all fun k =>
    let s := (pos.getD k 0).toNat
    let e := (pos.getD (k + 1) 0).toNat
    strictlyIncreasing ((crd.drop s).take (e - s))

/-- walk the levels with the number of positions of the parent level; returns the number of
positions of the last level when every level is well-formed -/
def wfLevels : List Level → List Nat → Nat → Option Nat
  | [], _, n => some n
  | l :: ls, dims, n =>
    let d := dims.headD 0
    match l.mode with
    | .dense => if l.pos = [] ∧ l.crd = [] then wfLevels ls dims.tail (n * d) else none
    | .compressed =>
      if l.pos.length = n + 1 ∧ l.pos.head? = some 0 ∧ monotone l.pos
          ∧ l.pos.getLast? = some (Int.ofNat l.crd.length)
          ∧ segmentsSorted l.pos l.crd ∧ l.crd.all (fun c => 0 ≤ c ∧ c < d)
      then wfLevels ls dims.tail l.crd.length else none

/-- the checks `taco_structure_to_cffi` performs before accepting raw arrays (used by `__setstate__`,
i.e. unpickling, and by every constructor); weaker than `wfLevels`: it does not look at the order of
coordinates inside a segment -/
def validateLevels : List Level → List Nat → Nat → Option Nat
  | [], _, n => some n
  | l :: ls, dims, n =>
    let d := dims.headD 0
    match l.mode with
    | .dense => if l.pos = [] ∧ l.crd = [] then validateLevels ls dims.tail (n * d) else none
    | .compressed =>
      if l.pos.length = n + 1 ∧ l.pos.head? = some 0 ∧ monotone l.pos
          ∧ l.pos.getLast? = some (Int.ofNat l.crd.length) ∧ l.crd.all (fun c => 0 ≤ c ∧ c < d)
      then validateLevels ls dims.tail l.crd.length else none

def validate (t : Stored) : Bool :=
  validOrdering t.ordering t.levels.length && t.dims.length == t.levels.length &&
  match validateLevels t.levels t.levelDims 1 with
  | some n => t.vals.length == n
  | none => false

def wfCheck (t : Stored) : Bool :=
  validOrdering t.ordering t.levels.length && t.dims.length == t.levels.length &&
  match wfLevels t.levels t.levelDims 1 with
  | some n => t.vals.length == n
  | none => false

end TV.Storage
