import TensoraVerif.Model.Parser

/-!
The second printer of the assignment language: `deparse_to_taco`
(src/tensora/generate/_deparse_to_taco.py), which spells an assignment in the syntax of the external tool taco.

Differences from `Assignment.deparse` (`PExpr.toks` / `PAssign.deparse` of `Model/Parser.lean`):

* a tensor without indexes is the bare name `s` (not `s()`); indexes are joined with `", "`, not `","`;
* `Add` prints `left + right` without any parentheses;
* `Subtract` parenthesises its right operand iff it is an `Add`/`Subtract` (the left one never);
* `Multiply` parenthesises either operand iff it is an `Add`/`Subtract` (a `Multiply` on the right is bare);
* the target of the assignment is printed like any tensor.

Literals are printed through their lexeme, as everywhere in this model (Python prints `str(self.value)`).

`tacoRegroup e` is the tree the conventional grammar (`DerivesE`: left associative) assigns to the text printed
for `e`; `unitParens` turns tensora's scalar spelling `s()` into taco's `s` on token sequences.
-/
namespace TV.Parse

/-! ### the printer -/

/-- a tensor in taco syntax: the bare name when there are no indexes, `name(i, j, …)` otherwise (the spaces
after the commas are put in by `tacoRender`) -/
def tacoTensorToks (n : String) (idx : List String) : List Tok :=
  match idx with
  | [] => [.name n]
  | i :: rest => .name n :: .lpar :: .name i :: (rest.flatMap fun j => [.comma, .name j]) ++ [.rpar]

/-- the token sequence `deparse_to_taco_expression` prints -/
def PExpr.tacoToks : PExpr → List Tok
  | .int s => [.int s]
  | .flt s => [.flt s]
  | .tensor n idx => tacoTensorToks n idx
  | .add l r => l.tacoToks ++ [.plus] ++ r.tacoToks
  | .sub l r => l.tacoToks ++ [.minus] ++ (if r.isAddSub then parenToks r.tacoToks else r.tacoToks)
  | .mul l r =>
    (if l.isAddSub then parenToks l.tacoToks else l.tacoToks) ++ [.star] ++
      (if r.isAddSub then parenToks r.tacoToks else r.tacoToks)

/-- `deparse_to_taco`: `target = expression`, the target printed like a tensor -/
def PAssign.tacoToks (a : PAssign) : List Tok := tacoTensorToks a.tname a.tidx ++ [.eq] ++ a.rhs.tacoToks

/-- how `deparse_to_taco` spells a token: as `Tok.render`, except that the comma between two indexes is
followed by a space -/
def Tok.tacoRender : Tok → List Char
  | .comma => [',', ' ']
  | t => t.render

def tacoRender (ts : List Tok) : List Char := ts.flatMap Tok.tacoRender

def PExpr.deparseTaco (e : PExpr) : String := String.ofList (tacoRender e.tacoToks)

/-- the text `deparse_to_taco` returns -/
def PAssign.deparseTaco (a : PAssign) : String := String.ofList (tacoRender a.tacoToks)

/-- the printer before the repair of `deparse_to_taco_subtract`: the right operand of a `Subtract` was printed
bare, whatever it was -/
def PExpr.tacoToksOld : PExpr → List Tok
  | .int s => [.int s]
  | .flt s => [.flt s]
  | .tensor n idx => tacoTensorToks n idx
  | .add l r => l.tacoToksOld ++ [.plus] ++ r.tacoToksOld
  | .sub l r => l.tacoToksOld ++ [.minus] ++ r.tacoToksOld
  | .mul l r =>
    (if l.isAddSub then parenToks l.tacoToksOld else l.tacoToksOld) ++ [.star] ++
      (if r.isAddSub then parenToks r.tacoToksOld else r.tacoToksOld)

def PAssign.tacoToksOld (a : PAssign) : List Tok :=
  tacoTensorToks a.tname a.tidx ++ [.eq] ++ a.rhs.tacoToksOld

def PAssign.deparseTacoOld (a : PAssign) : String := String.ofList (tacoRender a.tacoToksOld)

/-! ### the tree the conventional grammar reads back -/

/-- `l + r` printed without parentheses around `r`: the sum spine of `r` is continued from `l` -/
def appendAdd (l : PExpr) : PExpr → PExpr
  | .add x y => .add (appendAdd l x) y
  | .sub x y => .sub (appendAdd l x) y
  | r => .add l r

/-- `l * r` printed without parentheses around a product `r`: the product spine of `r` is continued from `l` -/
def appendMul (l : PExpr) : PExpr → PExpr
  | .mul x y => .mul (appendMul l x) y
  | r => .mul l r

/-- the tree that the conventional grammar (`*` over `+`/`-`, left associative) assigns to the taco text of `e` -/
def tacoRegroup : PExpr → PExpr
  | .int s => .int s
  | .flt s => .flt s
  | .tensor n idx => .tensor n idx
  | .add l r => appendAdd (tacoRegroup l) (tacoRegroup r)
  | .sub l r => .sub (tacoRegroup l) (tacoRegroup r)
  | .mul l r => appendMul (tacoRegroup l) (tacoRegroup r)

def PAssign.tacoRegroup (a : PAssign) : PAssign := ⟨a.tname, a.tidx, TV.Parse.tacoRegroup a.rhs⟩

/-- no operator node has a right operand that `tacoRegroup` would dissolve: the right operand of `+` is not a
sum/difference, the right operand of `*` is not a product (the right operand of `-` is kept as it is) -/
def tacoLeftNested : PExpr → Bool
  | .add l r => !r.isAddSub && tacoLeftNested l && tacoLeftNested r
  | .sub l r => tacoLeftNested l && tacoLeftNested r
  | .mul l r => !r.isMul && tacoLeftNested l && tacoLeftNested r
  | _ => true

/-- every tensor has at least one index: tensora's and taco's spelling of tensors agree -/
def noScalars : PExpr → Bool
  | .tensor _ idx => !idx.isEmpty
  | .add l r => noScalars l && noScalars r
  | .sub l r => noScalars l && noScalars r
  | .mul l r => noScalars l && noScalars r
  | _ => true

/-! ### scalar spelling -/

/-- removes every `()` that immediately follows a name: `s()` becomes `s` -/
def unitParens : List Tok → List Tok
  | .name n :: .lpar :: .rpar :: rest => .name n :: unitParens rest
  | t :: rest => t :: unitParens rest
  | [] => []

end TV.Parse
