import TensoraVerif.Lemmas.DesugarSpec
import TensoraVerif.Lemmas.DesugarCorrect

/-!
C01 — the front end of the compiler reads an assignment as a sum of products (`denote`,
`Model/Algebra.lean`), and the desugaring pass (`desugar`, a port of `desugar_assignment`) preserves
that reading.

* `desugar_correct`: for every assignment outside the known-defect signature `productHoistUnsafe`
  (finding F12) the desugared tree, with `contract k e` read as `Σ_k`, has the value prescribed by
  the specification — for all inputs, all dimension sizes (including 0) and all coordinates. No
  further hypothesis is needed: duplicated target indexes (`a(i,i)`), repeated indexes inside a
  tensor (`b(k,k)`), target indexes absent from the right-hand side (broadcast), empty dimensions
  and coordinate lists shorter or longer than the target index list are all covered.
* `desugar_defect_witness`: the signature is not vacuous — on `a() = (b() + c(k)) * (d(k) + e())`
  the pass hoists `Σ_k` above the product and changes the value (8 instead of 7).
* `denote_add_comm`, `denote_mul_comm`, `denote_add_assoc`, `denote_mul_assoc`, `denote_sub_eq`,
  `denote_distrib`: the specification does not depend on how commutative/associative operators
  are ordered or parenthesised, reads `l - r` as `l + (-1) * r`, and distributes.
-/
namespace TV.Alg

/-- the desugaring pass preserves the meaning of every assignment outside the known-defect
signature -/
theorem desugar_correct (a : Assign) (inputs : Inputs) (sizes : Sizes) (coord : List Nat)
    (hsafe : productHoistUnsafe a.tidx a.rhs = false) :
    denoteDA (desugar a) inputs sizes coord = denote a inputs sizes coord := by
  show denoteD inputs sizes (desugarE a.rhs
      ((dedup (a.tidx ++ indexesOf a.rhs)).filter fun i => !a.tidx.contains i) 1).1
      (a.tidx.zip coord) = _
  rw [desugarE_correct inputs sizes a.tidx a.rhs _ 1 _ (nodup_filter (nodup_dedup _))
    (fun i hi => ?_) (fun i hi => ?_) hsafe, denote_eq_lsum]
  · refine lsum_congr _ _ _ fun t ht => ?_
    unfold termDen
    congr 1
    refine List.filter_congr fun i hi => ?_
    have := mem_indexesOf_of_term ht hi
    simp [List.contains_eq_mem, this]
  · simp only [List.mem_filter, mem_dedup, List.mem_append] at hi
    grind
  · simp only [List.mem_filter] at hi
    simpa using hi.2

/-- the instance `a() = (b() + c(k)) * (d(k) + e())` of the defect (finding F12) -/
def defectWitness : Assign :=
  ⟨"a", [], .mul (.add (.tensor "b" []) (.tensor "c" ["k"]))
    (.add (.tensor "d" ["k"]) (.tensor "e" []))⟩

/-- and the signature is not vacuous: the defect is real for the model of the pass (all tensor
entries 1, `k` ranging over 2 values: the specification gives 7, the desugared tree 8) -/
theorem desugar_defect_witness :
    ∃ (a : Assign) (inputs : Inputs) (sizes : Sizes) (coord : List Nat),
      productHoistUnsafe a.tidx a.rhs = true ∧
        denoteDA (desugar a) inputs sizes coord ≠ denote a inputs sizes coord :=
  ⟨defectWitness, fun _ _ => 1, fun _ => 2, [], by decide, by decide +kernel⟩

example : denote defectWitness (fun _ _ => 1) (fun _ => 2) [] = 7 := by decide +kernel
example : denoteDA (desugar defectWitness) (fun _ _ => 1) (fun _ => 2) [] = 8 := by decide +kernel

/-- `desugar_correct` applies to the running example `a(i) = b(i,j) * c(j) + 2.5 * d(i) - (e(i) - 1)`
(whose contraction over `j` is pushed into the first product) … -/
example : productHoistUnsafe ["i"]
    (.sub (.add (.mul (.tensor "b" ["i", "j"]) (.tensor "c" ["j"]))
      (.mul (.flt 2.5) (.tensor "d" ["i"]))) (.sub (.tensor "e" ["i"]) (.int 1))) = false := by
  decide

/-- … and to products of sums whose shared contraction index occurs in every term of one operand,
e.g. `a() = (b(k) + c(k)) * (d(k) + e())` -/
example : productHoistUnsafe []
    (.mul (.add (.tensor "b" ["k"]) (.tensor "c" ["k"]))
      (.add (.tensor "d" ["k"]) (.tensor "e" []))) = false := by decide

/-! ### invariances of the specification -/

variable (n : String) (t : List String) (inputs : Inputs) (sizes : Sizes) (coord : List Nat)

theorem denote_add_comm (l r : SExpr) :
    denote ⟨n, t, .add l r⟩ inputs sizes coord = denote ⟨n, t, .add r l⟩ inputs sizes coord := by
  simp only [denote_eq_lsum, termsOf, lsum_append]
  exact Rat.add_comm _ _

theorem denote_mul_comm (l r : SExpr) :
    denote ⟨n, t, .mul l r⟩ inputs sizes coord = denote ⟨n, t, .mul r l⟩ inputs sizes coord := by
  simp only [denote_eq_lsum, termsOf, lsum_flatMap, lsum_map]
  rw [lsum_comm]
  exact lsum_congr _ _ _ fun b _ => lsum_congr _ _ _ fun a _ => termDen_mul_comm ..

theorem denote_add_assoc (x y z : SExpr) :
    denote ⟨n, t, .add (.add x y) z⟩ inputs sizes coord
      = denote ⟨n, t, .add x (.add y z)⟩ inputs sizes coord := by
  simp only [denote_eq_lsum, termsOf, List.append_assoc]

theorem denote_mul_assoc (x y z : SExpr) :
    denote ⟨n, t, .mul (.mul x y) z⟩ inputs sizes coord
      = denote ⟨n, t, .mul x (.mul y z)⟩ inputs sizes coord := by
  simp only [denote_eq_lsum, termsOf, lsum_flatMap, lsum_map, Term.mul_assoc]

theorem denote_sub_eq (l r : SExpr) :
    denote ⟨n, t, .sub l r⟩ inputs sizes coord
      = denote ⟨n, t, .add l (.mul (.int (-1)) r)⟩ inputs sizes coord := by
  simp only [denote_eq_lsum, termsOf, List.flatMap_cons, List.flatMap_nil, List.append_nil,
    Term.neg_eq_mul]

theorem denote_distrib (x y z : SExpr) :
    denote ⟨n, t, .mul x (.add y z)⟩ inputs sizes coord
      = denote ⟨n, t, .add (.mul x y) (.mul x z)⟩ inputs sizes coord := by
  simp only [denote_eq_lsum, termsOf, lsum_flatMap, lsum_map, lsum_append, List.map_append]
  exact lsum_add _ _ _

end TV.Alg

/-- info: 'TV.Alg.desugar_correct' depends on axioms: [propext, Classical.choice, Quot.sound] -/
#guard_msgs in
#print axioms TV.Alg.desugar_correct

