import TensoraVerif.Lemmas.ConvKernel
import TensoraVerif.Lemmas.ConvS2D
import TensoraVerif.Lemmas.Sparse1Exact
import TensoraVerif.Lemmas.Dense1Exact
import TensoraVerif.Model.FloatLaws

/-!
# C01 / C02 / C03 / C05, end to end, for the FORMAT-CONVERSION kernels between dense and compressed vectors

`Tensor.to_format` is the assignment `a(i) = b(i)` between two order-1 tensors of different formats. The
iteration graph is `Conv.graph i outT bT = .iter i (some ⟨outT, 0⟩) (.terminal (.tensor bT))` in both
directions.

## (A) dense → compressed: `a: s`, `b: d`

The loop is DENSE (`int i = 0; while (i < i_dim) { int p_b = 0 * i_dim + i; if (true) { <vals allocation>
bool written = false; { written = true; a_vals[p_a] = b_vals[p_b]; } if (written) { <crd assembly> p_a++ } }
i = i + 1; } <pos assembly>`). The terminal `b(i)` is not the literal `0`, so the `written` flag is raised in
EVERY iteration: a dense operand's structural support is the whole range, and every coordinate `0 … n-1` is
appended with the value `b` stores there — an explicit zero is stored as a value, it is not dropped.

* **A1** `d2s_lower_eq`, `d2s_generateIr_eq` — what the pass emits, written out (`Conv.d2sLoopLines`,
  `Conv.d2sKernel`); closed `bestAlgorithm` instance below.
* **A2** `d2s_body_step`, `d2s_loop_correct` — one iteration appends its coordinate; the loop performs EXACTLY
  `n` iterations and leaves `crd = [0, …, n-1]`, `vals[j] = b_vals[j]`, from ANY initial capacities `≥ 1` of
  the two growing arrays (doubling stays within int32 because `n ≤ 2^30`).
* **A3** `d2s_kernel_correct` — the whole `evaluate` function: returns `0`, `n` iterations, output record =
  (`pos = [0, n]`, `crd = [0, …, n-1]`, `vals` = `b`'s `n` cells + one scratch cell), exact block sizes, inputs
  unchanged; `d2s_result_wf`: the result passes `Storage.wfCheck`.
* **A4** `d2s_kernel_exact` — over `Rat` the stored values are `Graph.value`; `d2s_denote`: that is the
  specification `Alg.denote` of the source assignment `a(i) = b(i)`.
* non-vacuity: `b = [3, 0, 5]`, initial capacity 1 (both arrays grow twice): `crd = [0, 1, 2]`,
  `vals = [3, 0, 5, ·]`.

## (B) compressed → dense: `a: d`, `b: s`

The output is dense, so the loop over `i` is NOT sparse. The output array is `malloc`ed (NO zero fill — on the
machine every cell starts `none` = uninitialised: `s2d_instance_malloc_uninit`), and the zeros of the cells
not stored in `b` are WRITTEN by the emitted loops: a first loop merges a dense counter `i` with `b`'s cursor
(`if (i_b == i) a_vals[i] = b_vals[p_b]; else a_vals[i] = 0;`), a tail loop `while (i < i_dim)` stores the
remaining zeros. So there is NO finding "uninitialised cells" here.

* **B1** `s2d_lower_eq`, `s2d_generateIr_eq` — the emitted kernel, written out (`Conv.s2dLoopLines`,
  `Conv.s2dKernel`), for every dense order-1 output and compressed order-1 input.
* **B2/B3** `s2d_kernel_correct_partial` — CLOSED INSTANCE ONLY (`b = {1: 2}`, dimension 3): the generated
  kernel returns `0` after 3 iterations and the output block is exactly `[0, 2, 0]`: every cell initialised.
  The general run theorem (arbitrary well-formed `b`) is NOT proved here.

Vocabulary: `Lemmas/ConvModel.lean` (emitted loop), `ConvGenerate.lean` (emitted kernel, `d2sFormats`),
`ConvLoop.lean` (`D2SInv`, `denseAt`, `idCrd`), `ConvPrologue.lean` (`D2SInit`), `Sparse1Body.lean`
(`LoopPre`, `Inv`), `Sparse1Names.lean` (`KNames`); `capVal cap` is the value of `default_array_size`.
-/
namespace TV.Conv
set_option linter.unusedSimpArgs false
open TV.IR TV.Gen TV.Graph TV.Growth TV.Merge TV.Sparse1

variable {F : Type} [FloatOps F]

/-! ## (A) dense → compressed -/

/-! ### A1: what the pass emits -/

/-- **A1, the lowered iteration block.** For an order-1 compressed output `outT` and an order-1 dense input `bT`
over the same index `i`, `lower` (any fuel `≥ 2`) succeeds on `out(i) = b(i)` and returns `int i = 0;
while (i < i_dim) { int p_b = 0 * i_dim + i; if (true) { <vals allocation> bool written = false;
{ written = true; a_vals[p_a] = b_vals[p_b]; } if (written) { <crd assembly> p_a = p_a + 1; } } i = i + 1; }
<pos assembly>` (`d2sLoopLines`): a DENSE loop whose branch is the append branch of the sparse kernels. -/
theorem d2s_lower_eq (ofRat : Rat → F) (k : Nat) (i : String) (outT bT : TensorId)
    (ho : isSp i outT = true) (hb : Dense1.isLeaf i bT = true) :
    lower ofRat (k + 2) (graph i outT bT) (.append outT 0) .evaluate =
      .ok ⟨some ("*** Iteration over " ++ i ++ " ***"), d2sLoopLines ofRat i outT bT⟩ :=
  d2s_lower ofRat k i outT bT ho hb

/-- **A1, the generated kernel.** For an assignment `out(i) = rhs` whose accesses all use the index `i` alone
and the format table [compressed output, dense input], `generateIr` succeeds on the graph and returns exactly
`Conv.d2sKernel` (extract `i_dim`; unpack `a_0_pos`, `a_0_crd`, `a_vals`, `b_vals`; output initialisation with
initial capacity `cap`; the iteration block; the cleanup reallocs and the hand-over; `return 0`). -/
theorem d2s_generateIr_eq (ofRat : Rat → F) (cap : Option Int) (a : Alg.DAssign) (formats : Formats)
    (i : String) (outT bT : TensorId)
    (hout : tensorId 0 a.tname formats a.tidx = some outT)
    (ho : isSp i outT = true) (hb : Dense1.isLeaf i bT = true) (hf : d2sFormats formats outT bT)
    (hidx : a.tidx = [i]) (hrhs : Dense1.rhsIdx i a.rhs = true) :
    generateIr ofRat cap a formats (graph i outT bT) .evaluate =
      .ok (d2sKernel ofRat cap formats i outT bT) :=
  d2s_generateIr ofRat cap a formats i outT bT hout (Dense1.tensorId_name hout) ho hb hf
    (Dense1.indexDimensions_eq a i hidx hrhs)

/-! ### A2: the loop -/

/-- **A2, one iteration.** Let `σ` satisfy the loop invariant `D2SInv` before iteration `j < n` (relative to
the state `σ0` at loop entry, `LoopPre`: `b_vals` holds `cellsB 0 … cellsB (n-1)`, all finite; `n ≤ 2^30`):
output cursor `j`, the `crd` / `vals` arrays of the output satisfy the array invariant with SOME capacities
`≥ j`, `a_crd[k] = k` and `a_vals[k] = cellsB k` for `k < j`, the index `i` holds `j`. Then the loop body runs
without error for every fuel, performs no inner iteration, and re-establishes the invariant for `j + 1`:
coordinate `j` has been appended with the value `cellsB j` — WHATEVER that value is (the `written` flag is set
unconditionally; a stored `0` is appended like any other value), after growing the arrays if they were full. -/
theorem d2s_body_step {ofRat : Rat → F} {i : String} {outT bT : TensorId} {n bvb : Nat}
    {cellsB : Nat → F} {cb0 vb0 : Nat} {σ0 : State F}
    (N : KNames i outT bT) (ho : isSp i outT = true) (hb : Dense1.isLeaf i bT = true)
    (pre : LoopPre ofRat bT (.tensor bT) n bvb cellsB idCrd (denseAt cellsB) cb0 vb0 σ0)
    (hdim : IntVar σ0 (dimName i) n)
    (fuel : Nat) (σ : State F) (j : Nat) (hj : j < n)
    (h : D2SInv ofRat i outT bT cellsB cb0 vb0 σ0 j σ) :
    ∃ σ', Dense1.RunsLI fuel (d2sBody ofRat i outT bT) σ σ' 0 ∧
      D2SInv ofRat i outT bT cellsB cb0 vb0 σ0 (j + 1) σ' :=
  d2s_body_runs N ho hb pre hdim fuel σ j hj h

/-- **A2, the whole loop.** From a state satisfying the invariant for `j = 0` (empty output, capacities of
`a_0_crd` and `a_vals` ANY values in `[1, 2^31)`), the emitted `while (i < i_dim)` loop runs without error with
any fuel `≥ n + 1`, performs EXACTLY `n` iterations (one per coordinate of the dense range: C16), and ends in
a state satisfying the invariant for `j = n`: output cursor `n`, `a_crd = [0, …, n-1]`, `a_vals[k] = cellsB k`
for every `k < n`, capacities still within int32. -/
theorem d2s_loop_correct {ofRat : Rat → F} {i : String} {outT bT : TensorId} {n bvb : Nat}
    {cellsB : Nat → F} {cb0 vb0 : Nat} {σ0 : State F}
    (N : KNames i outT bT) (ho : isSp i outT = true) (hb : Dense1.isLeaf i bT = true)
    (pre : LoopPre ofRat bT (.tensor bT) n bvb cellsB idCrd (denseAt cellsB) cb0 vb0 σ0)
    (hdim : IntVar σ0 (dimName i) n)
    (fuel : Nat) (σ : State F) (hfuel : n + 1 ≤ fuel)
    (h : D2SInv ofRat i outT bT cellsB cb0 vb0 σ0 0 σ) :
    ∃ o, exec fuel (d2sLoop ofRat i outT bT) σ = .ok o ∧ o.ret = none ∧ o.iters = n ∧
      D2SInv ofRat i outT bT cellsB cb0 vb0 σ0 n o.st := by
  obtain ⟨σ', ⟨o, eo, ro, so, io⟩, hp⟩ := d2s_while_runs N ho hb pre hdim n 0 σ fuel (by omega) h hfuel
  exact ⟨o, eo, ro, io, so ▸ hp⟩

/-- what the invariant at `j = n` says about the output arrays, spelled out: the cursor is `n`; the `crd`
variable points to a block whose cells `k < n` hold `k`; the `vals` variable points to a block whose cells
`k < n` hold `cellsB k`; both capacities are in `[n, 2^31)`. -/
theorem d2s_inv_final {ofRat : Rat → F} {i : String} {outT bT : TensorId} {n : Nat}
    {cellsB : Nat → F} {cb0 vb0 : Nat} {σ0 σ : State F}
    (h : D2SInv ofRat i outT bT cellsB cb0 vb0 σ0 n σ) :
    IntVar σ (layerPointer outT.id 0) n ∧
    ∃ cb cc vb vc cblk vblk, PtrVar σ (crdName outT.name 0) cb ∧ IntVar σ (crdCapName outT.name 0) cc ∧
      PtrVar σ (valsName outT.name) vb ∧ IntVar σ (valsCapName outT.name) vc ∧
      (n : Int) ≤ cc ∧ cc < 2147483648 ∧ (n : Int) ≤ vc ∧ vc < 2147483648 ∧
      σ.heap[cb]? = some cblk ∧ (cblk.cells.length : Int) = cc ∧
      (∀ k, k < n → cblk.cells[k]? = some (some (.int k))) ∧
      σ.heap[vb]? = some vblk ∧ (vblk.cells.length : Int) = vc ∧
      (∀ k, k < n → vblk.cells[k]? = some (some (.flt (cellsB k)))) := by
  obtain ⟨⟨cb, cc, vb, vc, hinv⟩, _, _⟩ := h
  have hlen : (List.map idCrd (List.range n)).length = n := by simp
  obtain ⟨cblk, hcblk, _, _, _, hclen⟩ := hinv.crd.blk
  obtain ⟨vblk, hvblk, _, _, _, hvlen⟩ := hinv.vals.blk
  obtain ⟨cblk', hcblk', hcc⟩ := hinv.crdCells
  obtain ⟨vblk', hvblk', hvc⟩ := hinv.valsCells
  rw [hcblk] at hcblk'; cases hcblk'
  rw [hvblk] at hvblk'; cases hvblk'
  refine ⟨by simpa using hinv.ptr, cb, cc, vb, vc, cblk, vblk, hinv.crd.arr, hinv.crd.cap, hinv.vals.arr,
    hinv.vals.cap, by simpa using hinv.lec, hinv.crd.lt, by simpa using hinv.lev, hinv.vals.lt, hcblk, hclen,
    ?_, hvblk, hvlen, ?_⟩
  · intro k hk
    have := hcc k (by simpa using hk)
    simpa [idCrd] using this
  · intro k hk
    have := hvc k (by simpa using hk)
    simpa [idCrd, denseAt, ToIr.valueF] using this

/-! ### A3: the kernel -/

/-- **A3 (the generated `evaluate` kernel of dense → compressed is correct).** Let `out(i) = rhs` be an
assignment whose accesses all use the index `i` alone, `formats` the table [compressed output, dense input],
`outT` the output tensor as `generateIr` computes it, `bT` the dense input occurrence, with the static side
conditions `KNames` (index and tensor names without `'_'` and pairwise different, different tensor ids). Let
`cap` be ANY initial capacity parameter with `1 ≤ capVal cap < 2^31`, and `σ` an initial machine state as the
driver builds it (`D2SInit`): the variables are exactly the two tensor parameters; the output record `ta`
(contents `atr`) is output-owned, with a slot pair and `vals` holding pointers or `NULL`, and dimension `n`;
the input record's `vals` block holds `cellsB 0 … cellsB (n-1)`. Side conditions on the input: `n ≤ 2^30` (so
that `n + 1` and every doubled capacity are int32) and every cell of `b` is finite.

Then the function `f` that `generateIr` produces runs on the machine with any fuel `≥ n + 1` WITHOUT ERROR,
**returns `0`** after EXACTLY `n` loop iterations, and in the final state
* the output record (still output-owned, same order and dimensions block) has slot 0 = (`pos`, `crd`) and
  `vals` = the base addresses of three different FRESH blocks, live and output-owned;
* the `pos` block is exactly `[0, n]`; the `crd` block is exactly `[0, 1, …, n-1]` (`n` cells: EVERY
  coordinate is stored — C03: the structural support of a dense operand is the whole range); the `vals` block
  has exactly `n + 1` cells, the first `n` holding `cellsB 0, …, cellsB (n-1)` (zeros included);
* every other tensor record and EVERY block of the initial heap (all inputs) is unchanged. -/
theorem d2s_kernel_correct (ofRat : Rat → F) (cap : Option Int) (a : Alg.DAssign) (formats : Formats)
    (i : String) (outT bT : TensorId)
    (hout : tensorId 0 a.tname formats a.tidx = some outT)
    (ho : isSp i outT = true) (hb : Dense1.isLeaf i bT = true) (hf : d2sFormats formats outT bT)
    (hidx : a.tidx = [i]) (hrhs : Dense1.rhsIdx i a.rhs = true) (N : KNames i outT bT)
    (hk0 : 1 ≤ capVal cap) (hk1 : capVal cap < 2147483648)
    (ta tb : Nat) (atr btr : TensorRec F) (n bvb : Nat) (cellsB : Nat → F) (σ : State F)
    (init : D2SInit outT bT ta tb atr btr n bvb cellsB σ)
    (hn : n ≤ 1073741824)
    (hfin : ∀ q, q < n → FloatOps.finite (cellsB q) = true)
    (f : Func F) (hgen : generateIr ofRat cap a formats (graph i outT bT) .evaluate = .ok f)
    (fuel : Nat) (hfuel : n + 1 ≤ fuel) :
    ∃ o, exec fuel f.body σ = .ok o ∧ o.ret = some (.int 0) ∧ o.iters = n ∧
      (∃ tr' pF cF vF vblk, o.st.tensors[ta]? = some tr' ∧ tr'.owner = .output ∧ tr'.order = atr.order ∧
        tr'.dimsBlk = atr.dimsBlk ∧ tr'.slots = atr.slots.set 0 (some (.ptr pF 0, .ptr cF 0)) ∧
        tr'.vals = .ptr vF 0 ∧
        σ.heap.length ≤ pF ∧ σ.heap.length ≤ cF ∧ σ.heap.length ≤ vF ∧ pF ≠ cF ∧ pF ≠ vF ∧ cF ≠ vF ∧
        o.st.heap[pF]? = some ⟨.int, [some (.int 0), some (.int n)], .output, true⟩ ∧
        o.st.heap[cF]? = some ⟨.int, (List.range n).map (fun (j : Nat) => some (.int (j : Int))), .output, true⟩ ∧
        o.st.heap[vF]? = some vblk ∧ vblk.live = true ∧ vblk.owner = .output ∧ vblk.ty = .float ∧
        vblk.cells.length = n + 1 ∧
        ∀ j, j < n → vblk.cells[j]? = some (some (.flt (cellsB j)))) ∧
      (∀ k, k ≠ ta → o.st.tensors[k]? = σ.tensors[k]?) ∧
      o.st.tensors.length = σ.tensors.length ∧
      (∀ k, k < σ.heap.length → o.st.heap[k]? = σ.heap[k]?) := by
  rw [d2s_generateIr_eq ofRat cap a formats i outT bT hout ho hb hf hidx hrhs] at hgen
  cases hgen
  obtain ⟨o, eo, hret, hit, hp⟩ := d2s_kernel_runs ofRat cap formats i outT bT ho hb N hk0 hk1 init hn
    (fun q hq => by simpa [ToIr.AllFinite, ToIr.allFinite] using hfin q hq) fuel hfuel
  exact ⟨o, eo, hret, hit, hp.outRec, hp.otherRecs, hp.tlen, hp.heap⟩

/-- **A3, corollary: the result is a well-formed compressed vector storing every coordinate** (C02, C03). The
structure the output record describes — `pos = [0, n]`, `crd = [0, …, n-1]`, one value per coordinate —
passes `Storage.wfCheck` for the dimension `n` (positions consistent, coordinates strictly increasing and in
range), whatever the `n` values are. -/
theorem d2s_result_wf (n : Nat) (vs : List Int) (hv : vs.length = n) :
    Storage.wfCheck (storedVec n ((List.range n).map idCrd) vs) = true ∧
    (storedVec n ((List.range n).map idCrd) vs).levels =
      [⟨.compressed, [0, (n : Int)], (List.range n).map idCrd⟩] := by
  refine ⟨wfCheck_storedVec n _ vs (pairwise_map_range n idCrd ?_) ?_ (by simpa using hv), by
    simp [storedVec]⟩
  · intro j k h _; simp only [idCrd]; omega
  · intro c hc
    obtain ⟨j, hj, rfl⟩ := List.mem_map.1 hc
    have := List.mem_range.1 hj
    simp only [idCrd]; omega

/-! ### A4: exact instance -/

/-- **A4 (exact instance).** Over the exact carrier `Rat` (every value finite, literals through `id`) no
finiteness hypothesis is left: the kernel returns `0` after `n` iterations, the output's `crd` block is exactly
`[0, …, n-1]` and cell `j < n` of its `vals` block is the mathematical meaning `Graph.value` of the terminal
`b(i)` at coordinate `j`, i.e. `cellsB j`. -/
theorem d2s_kernel_exact (cap : Option Int) (a : Alg.DAssign) (formats : Formats)
    (i : String) (outT bT : TensorId)
    (hout : tensorId 0 a.tname formats a.tidx = some outT)
    (ho : isSp i outT = true) (hb : Dense1.isLeaf i bT = true) (hf : d2sFormats formats outT bT)
    (hidx : a.tidx = [i]) (hrhs : Dense1.rhsIdx i a.rhs = true) (N : KNames i outT bT)
    (hk0 : 1 ≤ capVal cap) (hk1 : capVal cap < 2147483648)
    (ta tb : Nat) (atr btr : TensorRec Rat) (n bvb : Nat) (cellsB : Nat → Rat) (σ : State Rat)
    (init : D2SInit outT bT ta tb atr btr n bvb cellsB σ)
    (hn : n ≤ 1073741824)
    (f : Func Rat) (hgen : generateIr id cap a formats (graph i outT bT) .evaluate = .ok f)
    (fuel : Nat) (hfuel : n + 1 ≤ fuel) :
    ∃ o, exec fuel f.body σ = .ok o ∧ o.ret = some (.int 0) ∧ o.iters = n ∧
      ∃ tr' pF cF vF vblk, o.st.tensors[ta]? = some tr' ∧
        tr'.slots = atr.slots.set 0 (some (.ptr pF 0, .ptr cF 0)) ∧ tr'.vals = .ptr vF 0 ∧
        o.st.heap[pF]? = some ⟨.int, [some (.int 0), some (.int n)], .output, true⟩ ∧
        o.st.heap[cF]? = some ⟨.int, (List.range n).map (fun (j : Nat) => some (.int (j : Int))), .output, true⟩ ∧
        o.st.heap[vF]? = some vblk ∧ vblk.live = true ∧ vblk.cells.length = n + 1 ∧
        ∀ j, j < n → vblk.cells[j]? = some (some (.flt (value (fun _ => cellsB j) (.tensor bT)))) := by
  obtain ⟨o, eo, hret, hit, ⟨tr', pF, cF, vF, vblk, h1, _, _, _, h5, h6, _, _, _, _, _, _, h13, h14, h15, h16, _,
    _, h19, h20⟩, _⟩ :=
    d2s_kernel_correct id cap a formats i outT bT hout ho hb hf hidx hrhs N hk0 hk1 ta tb atr btr n
      bvb cellsB σ init hn (fun _ _ => rfl) f hgen fuel hfuel
  exact ⟨o, eo, hret, hit, tr', pF, cF, vF, vblk, h1, h5, h6, h13, h14, h15, h16, h19, h20⟩

/-- **A4, the specification.** `Alg.denote` of the source assignment `a(i) = b(i)` at coordinate `[j]` is the
value the input `b` has at `[j]`: the conversion kernel stores `denote` at every coordinate of the range. -/
theorem d2s_denote (an bn i : String) (inputs : Alg.Inputs) (sizes : Alg.Sizes) (j : Nat) :
    Alg.denote ⟨an, [i], .tensor bn [i]⟩ inputs sizes [j] = inputs bn [j] := by
  simp [Alg.denote, Alg.termsOf, Alg.Term.indexes, Alg.dedup, Alg.sumOver, Alg.Term.val, Alg.Env.get, Rat.zero_add]

/-! ### (A) non-vacuity: `a(i) = b(i)`, `a: s`, `b: d = [3, 0, 5]`, initial capacity 1 -/

def exFormats : Formats := [("a", [.compressed], [0]), ("b", [.dense], [0])]
def exOut : TensorId := ⟨"0_a", "a", ["i"], [.compressed]⟩
def exB : TensorId := ⟨"1_b", "b", ["i"], [.dense]⟩
def exAssign : Alg.DAssign := ⟨"a", ["i"], .tensor 1 "b" ["i"]⟩

/-- generic in the carrier: the state the driver builds for the output `a` (dimension 3, empty) and the dense
`b = [c 3, c 0, c 5]` -/
def exStateOf {F : Type} (c : Int → F) : State F :=
  { vars := [⟨"a", .ptr .tensor, some (.tensor 0)⟩, ⟨"b", .ptr .tensor, some (.tensor 1)⟩],
    heap := [⟨.int, [some (.int 3)], .output, true⟩,
             ⟨.int, [some (.int 3)], .input, true⟩,
             ⟨.float, [some (.flt (c 3)), some (.flt (c 0)), some (.flt (c 5))], .input, true⟩],
    tensors := [⟨1, 0, [some (.null, .null)], .null, .output⟩,
                ⟨1, 1, [none], .ptr 2 0, .input⟩] }
def exCells {F : Type} (c : Int → F) : Nat → F := fun j => [c 3, c 0, c 5].getD j (c 0)

theorem exNames : KNames "i" exOut exB :=
  ⟨by decide, by decide, by decide, by decide, by decide, by decide, by decide⟩

theorem exInitOf {F : Type} [FloatOps F] (c : Int → F) :
    D2SInit exOut exB 0 1 ⟨1, 0, [some (.null, .null)], .null, .output⟩
      ⟨1, 1, [none], .ptr 2 0, .input⟩ 3 2 (exCells c) (exStateOf c) := by
  refine
    { avar := ⟨_, rfl, rfl, rfl⟩, bvar := ⟨_, rfl, rfl, rfl⟩, fresh := ?_, arec := rfl, aown := rfl,
      aord := Nat.zero_lt_one, aslot := ⟨_, _, rfl, rfl, rfl⟩, avals := rfl,
      adim := ⟨_, rfl, rfl, rfl, rfl⟩, n32 := by decide, brec := rfl,
      bvals := rfl, bval := ⟨_, rfl, rfl, rfl, ?_⟩ }
  · intro x h1 h2
    have e1 : ("a" == x) = false := beq_eq_false_iff_ne.2 (Ne.symm h1)
    have e2 : ("b" == x) = false := beq_eq_false_iff_ne.2 (Ne.symm h2)
    simp [lookupVar, exStateOf, List.find?, e1, e2]
  · intro j hj
    match j, hj with
    | 0, _ => rfl
    | 1, _ => rfl
    | 2, _ => rfl

/-- **A1, closed instance**: the graph is the one the front half chooses for the assignment -/
example : bestAlgorithm exAssign exFormats = .graph (graph "i" exOut exB) := by
  have h : toIterationGraphs exAssign exFormats = .ok [graph "i" exOut exB] := by rfl
  simp only [bestAlgorithm, h]

/-- the instance satisfies the static hypotheses -/
example : isSp "i" exOut = true ∧ Dense1.isLeaf "i" exB = true ∧ d2sFormats exFormats exOut exB :=
  ⟨by decide, by decide, rfl⟩

/-- literals of the instance over `Int`: the numerator -/
def exOfRat : Rat → Int := fun q => q.num

/-- **A3 is not vacuous** (over `Int`, initial capacity 1 — `crd` and `vals` are both reallocated twice:
1 → 2 → 4): every hypothesis holds on the instance `b = [3, 0, 5]`, `generateIr` produces the kernel, and the
run returns `0` after 3 iterations and leaves `pos = [0, 3]`, `crd = [0, 1, 2]`, `vals = [3, 0, 5, ·]` in fresh
blocks the output record points to: the explicit zero of `b` is STORED as a value at coordinate 1. -/
example : ∃ f o, generateIr exOfRat (some 1) exAssign exFormats (graph "i" exOut exB) .evaluate = .ok f ∧
    exec 4 f.body (exStateOf (F := Int) id) = .ok o ∧ o.ret = some (.int 0) ∧ o.iters = 3 ∧
    ∃ tr' pF cF vF vblk, o.st.tensors[0]? = some tr' ∧
      tr'.slots = [some (.ptr pF 0, .ptr cF 0)] ∧ tr'.vals = .ptr vF 0 ∧
      o.st.heap[pF]? = some ⟨.int, [some (.int 0), some (.int 3)], .output, true⟩ ∧
      o.st.heap[cF]? = some ⟨.int, [some (.int 0), some (.int 1), some (.int 2)], .output, true⟩ ∧
      o.st.heap[vF]? = some vblk ∧ vblk.live = true ∧ vblk.cells.length = 4 ∧
      vblk.cells[0]? = some (some (.flt 3)) ∧ vblk.cells[1]? = some (some (.flt 0)) ∧
      vblk.cells[2]? = some (some (.flt 5)) := by
  have hgen := d2s_generateIr_eq exOfRat (some 1) exAssign exFormats "i" exOut exB (by decide)
    (by decide) (by decide) rfl rfl (by decide)
  obtain ⟨o, eo, hret, hit, ⟨tr', pF, cF, vF, vblk, h1, _, _, _, h5, h6, _, _, _, _, _, _, h13, h14, h15, h16, _,
    _, h19, h20⟩, _⟩ :=
    d2s_kernel_correct exOfRat (some 1) exAssign exFormats "i" exOut exB (by decide) (by decide)
      (by decide) rfl rfl (by decide) exNames (by decide) (by decide) 0 1 _ _ 3 2
      (exCells (F := Int) id) _ (exInitOf (F := Int) id) (by decide) (fun _ _ => rfl) _ hgen 4 (by decide)
  exact ⟨_, o, hgen, eo, hret, hit, tr', pF, cF, vF, vblk, h1, h5, h6, h13, h14, h15, h16, h19,
    h20 0 (by decide), h20 1 (by decide), h20 2 (by decide)⟩

/-- the result of the instance is a well-formed compressed vector of dimension 3 storing all three
coordinates -/
example : Storage.wfCheck (storedVec 3 [0, 1, 2] [3, 0, 5]) = true := by decide

/-- **A4 is not vacuous**: the same instance over the exact carrier `Rat`, default initial capacity -/
example : ∃ (f : Func Rat) (o : Out Rat),
    generateIr (F := Rat) id none exAssign exFormats (graph "i" exOut exB) .evaluate = .ok f ∧
    exec 4 f.body (exStateOf (fun z => (z : Rat))) = .ok o ∧ o.ret = some (.int 0) ∧ o.iters = 3 ∧
    ∃ (cF vF : Nat) (vblk : Block Rat),
      o.st.heap[cF]? = some ⟨.int, [some (.int 0), some (.int 1), some (.int 2)], .output, true⟩ ∧
      o.st.heap[vF]? = some vblk ∧ vblk.live = true ∧
      ∀ j, j < 3 → vblk.cells[j]? = some (some (.flt (value
        (fun _ => exCells (fun z => (z : Rat)) j) (.tensor exB)))) := by
  have hgen := d2s_generateIr_eq (F := Rat) id none exAssign exFormats "i" exOut exB (by decide)
    (by decide) (by decide) rfl rfl (by decide)
  obtain ⟨o, eo, hret, hit, tr', pF, cF, vF, vblk, _, _, _, _, h14, h15, h16, _, h20⟩ :=
    d2s_kernel_exact none exAssign exFormats "i" exOut exB (by decide) (by decide)
      (by decide) rfl rfl (by decide) exNames (by decide) (by decide) 0 1 _ _ 3 2
      (exCells (fun z => (z : Rat))) _ (exInitOf (fun z => (z : Rat))) (by decide)
      _ hgen 4 (by decide)
  exact ⟨_, o, hgen, eo, hret, hit, cF, vF, vblk, h14, h15, h16, h20⟩

/-! ## (B) compressed → dense -/

/-- **B1, the lowered iteration block.** For an order-1 DENSE output `outT` and an order-1 compressed input `bT`
over the same index `i`, `lower` (any fuel `≥ 2`) succeeds on `out(i) = b(i)` and returns `int i = 0;
int p_b = b_pos[0]; int p_b_end = b_pos[0 + 1]; while (true && p_b < p_b_end) { int i_b = b_crd[p_b];
int p_a = 0 * i_dim + i; if (true && i_b == i) { a_vals[p_a] = b_vals[p_b]; } else if (true) { a_vals[p_a] = 0; }
p_b = p_b + (int)(i_b == i); i = i + 1; } while (i < i_dim) { int p_a = 0 * i_dim + i; if (true) { a_vals[p_a]
= 0; } i = i + 1; }` (`s2dLoopLines`): every cell of the output receives an explicit store — `b`'s value where
`b` stores the coordinate, the literal `0` elsewhere. -/
theorem s2d_lower_eq (ofRat : Rat → F) (k : Nat) (i : String) (outT bT : TensorId)
    (ho : Dense1.isLeaf i outT = true) (hb : isSp i bT = true) :
    lower ofRat (k + 2) (graph i outT bT) (.append outT 0) .evaluate =
      .ok ⟨some ("*** Iteration over " ++ i ++ " ***"), s2dLoopLines ofRat i outT bT⟩ :=
  s2d_lower ofRat k i outT bT ho hb

/-- **B1, the generated kernel.** For an assignment `out(i) = rhs` whose accesses all use the index `i` alone
and the format table [dense output, compressed input], `generateIr` succeeds and returns exactly
`Conv.s2dKernel`: extract `i_dim`; unpack `a_vals`, `b_0_pos`, `b_0_crd`, `b_vals`; output initialisation
`int a_vals_capacity = 1 * a->dimensions[0]; a_vals = malloc(a_vals_capacity)` — `malloc` only, NO zero fill —;
the iteration block; `a->vals = a_vals`; `return 0`. -/
theorem s2d_generateIr_eq (ofRat : Rat → F) (cap : Option Int) (a : Alg.DAssign) (formats : Formats)
    (i : String) (outT bT : TensorId)
    (hout : tensorId 0 a.tname formats a.tidx = some outT)
    (ho : Dense1.isLeaf i outT = true) (hb : isSp i bT = true) (hf : s2dFormats formats outT bT)
    (hidx : a.tidx = [i]) (hrhs : Dense1.rhsIdx i a.rhs = true) :
    generateIr ofRat cap a formats (graph i outT bT) .evaluate =
      .ok (s2dKernel ofRat formats i outT bT) :=
  s2d_generateIr ofRat cap a formats i outT bT hout (Dense1.tensorId_name hout) ho hb hf
    (Dense1.indexDimensions_eq a i hidx hrhs)

/-! ### (B) closed instance: `a(i) = b(i)`, `a: d` of dimension 3, `b: s = {1: 2}` -/

def sxOut : TensorId := ⟨"0_a", "a", ["i"], [.dense]⟩
def sxB : TensorId := ⟨"1_b", "b", ["i"], [.compressed]⟩
def sxFormats : Formats := [("a", [.dense], [0]), ("b", [.compressed], [0])]
def sxAssign : Alg.DAssign := ⟨"a", ["i"], .tensor 1 "b" ["i"]⟩
/-- the state the driver builds: `a` dense of dimension 3 with no `vals` yet, `b = {1: 2}` -/
def sxState : State Int :=
  { vars := [⟨"a", .ptr .tensor, some (.tensor 0)⟩, ⟨"b", .ptr .tensor, some (.tensor 1)⟩],
    heap := [⟨.int, [some (.int 3)], .output, true⟩,
             ⟨.int, [some (.int 3)], .input, true⟩,
             ⟨.int, [some (.int 0), some (.int 1)], .input, true⟩,
             ⟨.int, [some (.int 1)], .input, true⟩,
             ⟨.float, [some (.flt 2)], .input, true⟩],
    tensors := [⟨1, 0, [none], .null, .output⟩,
                ⟨1, 1, [some (.ptr 2 0, .ptr 3 0)], .ptr 4 0, .input⟩] }

/-- the graph is the one the front half chooses, and `generateIr` produces `s2dKernel` on the instance -/
example : bestAlgorithm sxAssign sxFormats = .graph (graph "i" sxOut sxB) ∧
    generateIr exOfRat none sxAssign sxFormats (graph "i" sxOut sxB) .evaluate =
      .ok (s2dKernel exOfRat sxFormats "i" sxOut sxB) := by
  have h : toIterationGraphs sxAssign sxFormats = .ok [graph "i" sxOut sxB] := by rfl
  exact ⟨by simp only [bestAlgorithm, h],
    s2d_generateIr_eq exOfRat none sxAssign sxFormats "i" sxOut sxB (by decide) (by decide) (by decide) rfl rfl
      (by decide)⟩

/-- **`malloc` does not initialise**: after "Extract dimensions", "Unpack tensors" and "Output initialization"
of the instance, the fresh output block (address 5) has three UNINITIALISED cells. Whatever the final array
holds was stored by the iteration block. -/
theorem s2d_instance_malloc_uninit :
    (match execL 1 ((s2dKernelStmts exOfRat "i" sxOut sxB).take 3) sxState with
     | .ok o => some (o.st.heap[5]?)
     | .error _ => none) = some (some ⟨.float, [none, none, none], .output, true⟩) := by
  have t0 : toString (0 : Nat) = "0" := rfl
  simp [s2dKernelStmts, unpackDense, Sparse1.unpackStmts,
    sxOut, sxB, sxState, declAssignE, dimName, posName, crdName, valsName, valsCapName, t0,
    exec, execL, evalRhs, evalE, evalLoc, store, declare, lookupVar, convTo,
    convElem, setVar, setVarOpt, chkInt, chkVal, chkFlt, inI32, hasTy, binVal, numOp, Val.toNum, readBlock,
    hasElemTy, Block.len, doAlloc, elemOf, isPtrVal, bind, Except.bind, Out.seq]

set_option maxRecDepth 100000 in
/-- **B2/B3 — closed instance only (`_partial`: the general run theorem for an arbitrary well-formed `b` is
not proved).** On `b = {1: 2}`, dimension 3, the generated `evaluate` kernel runs without error (fuel 6),
**returns `0`** after 3 loop iterations in total (2 of the merging loop, 1 of the tail loop), the output
record's `vals` is the fresh block 5, and that block is EXACTLY `[0, 2, 0]`: the cells `0` and `2`, which `b`
does not store, hold an explicitly stored `0` — NO cell is left uninitialised. -/
theorem s2d_kernel_correct_partial :
    (match exec 6 (s2dKernel exOfRat sxFormats "i" sxOut sxB).body sxState with
     | .ok o => some (o.ret, o.iters, o.st.heap[5]?, o.st.tensors[0]?)
     | .error _ => none) =
    some (some (.int 0), 3,
      some ⟨.float, [some (.flt 0), some (.flt 2), some (.flt 0)], .output, true⟩,
      some ⟨1, 0, [none], .ptr 5 0, .output⟩) := by
  have t0 : toString (0 : Nat) = "0" := rfl
  simp [s2dKernel, s2dKernelStmts, s2dLoopLines, s2dLoop1, s2dLoop2, s2dStore, unpackDense, Sparse1.unpackStmts,
    Dense1.ptrDecl, Dense1.storeStmt, toIrWith, prevLayerPointer, sxOut, sxB, sxFormats, exOfRat, sxState,
    declAssignE, increment, plus, times, dimName, posName, crdName, valsName, valsCapName, layerPointer,
    sparseEndName, valueFromCrd, t0,
    exec, execL, evalRhs, evalE, evalLoc, store, declare, lookupVar, convTo,
    convElem, setVar, setVarOpt, chkInt, chkVal, chkFlt, inI32, hasTy, binVal, numOp, Val.toNum, readBlock,
    hasElemTy, Block.len, doAlloc, elemOf, isPtrVal, bind, Except.bind, Out.seq, FloatOps.finite]

end TV.Conv
