import TensoraVerif.Props.C01Convert
import TensoraVerif.Lemmas.S2DKernel

/-!
# C01 / C02 / C03, end to end, for the compressed → dense conversion kernel `a(i) = b(i)`, `a: d`, `b: s`

`Props/C01Convert.lean` (B1) proves what `generateIr` emits (`Conv.s2dKernel`): a loop merging a dense counter
`i` with `b`'s cursor (`a_vals[i] = b_vals[p_b]` where the coordinates match, an explicit `0` otherwise),
followed by the tail loop `while (i < i_dim) a_vals[i] = 0`. This file proves the RUN in general.

* `s2d_kernel_correct` — for every well-formed `b` (`m` stored coordinates, strictly increasing, in `[0, n)`),
  every `n < 2^31`: the kernel returns `0` after EXACTLY `n` loop iterations; the output record's `vals` is a
  fresh block of exactly `n` cells, ALL initialised: `b`'s value at the stored coordinates, the literal
  `ofRat 0` elsewhere (`Conv.s2dAt`); the inputs and every other record are untouched.
* `s2d_kernel_exact` — over `Rat` the cells are `Alg.denote` of the source assignment.
* `s2d_oob_counterexample` — the range hypothesis is NEEDED (the merging loop has no `i < i_dim` guard): with the
  stored coordinate `5` and dimension `3` the machine stops with the error `oob`.
* non-vacuity: `b = {1: 2}`, dimension 3, over `Int`.

Vocabulary: `Lemmas/S2DKernel.lean` (`S2DInit`, `S2DPost`, `s2dAt`), `Lemmas/S2DLoop.lean` (`S2DInv`,
`s2dSplit`), `Sparse1Names.lean` (`KNames`).
-/
namespace TV.Conv
set_option linter.unusedSimpArgs false
set_option linter.unusedVariables false
open TV.IR TV.Gen TV.Graph TV.Growth TV.Merge TV.Sparse1

variable {F : Type} [FloatOps F]

/-- **The generated `evaluate` kernel of compressed → dense is correct, for every well-formed input.** Let
`out(i) = rhs` be an assignment whose accesses all use the index `i` alone, `formats` the table [dense output,
compressed input], `outT` the output tensor as `generateIr` computes it, `bT` the compressed input occurrence,
with the static name conditions `KNames`. Let `σ` be an initial machine state as the driver builds it
(`S2DInit`): the variables are exactly the two tensor parameters; the output record `ta` (contents `atr`) is
output-owned with dimension `n < 2^31`; the input record's `pos` block is `[0, m]`, its `crd` block holds
`crdB 0 … crdB (m-1)`, its `vals` block `cellsB 0 … cellsB (m-1)`. Well-formedness of `b`: the coordinates are
in range (`0 ≤ crdB k < n` — needed for memory safety, see `s2d_oob_counterexample`) and strictly increasing;
the stored values and the literal `ofRat 0` are finite.

Then the function `f` that `generateIr` produces runs with any fuel `≥ n + 1` WITHOUT ERROR, **returns `0`**
after EXACTLY `n` loop iterations (merging loop + tail loop), and in the final state
* the output record is `atr` with `vals` pointing to the FRESH block `σ.heap.length`;
* that block is live, output-owned, of type float, has EXACTLY `n` cells and EVERY cell is initialised: cell
  `x` holds `s2dAt (ofRat 0) crdB cellsB m x`, i.e. (`s2dAt_stored`, `s2dAt_absent`) `cellsB k` at `x = crdB k`
  and the explicitly stored `ofRat 0` at every coordinate `b` does not store;
* every other tensor record and EVERY block of the initial heap (all inputs) is unchanged. -/
theorem s2d_kernel_correct (ofRat : Rat → F) (cap : Option Int) (a : Alg.DAssign) (formats : Formats)
    (i : String) (outT bT : TensorId)
    (hout : tensorId 0 a.tname formats a.tidx = some outT)
    (ho : Dense1.isLeaf i outT = true) (hb : isSp i bT = true) (hf : s2dFormats formats outT bT)
    (hidx : a.tidx = [i]) (hrhs : Dense1.rhsIdx i a.rhs = true) (N : KNames i outT bT)
    (ta tb : Nat) (atr btr : TensorRec F) (n m bpb bcb bvb : Nat) (crdB : Nat → Int) (cellsB : Nat → F)
    (σ : State F)
    (init : S2DInit outT bT ta tb atr btr n m bpb bcb bvb crdB cellsB σ)
    (hz : FloatOps.finite (ofRat ((0 : Int) : Rat)) = true)
    (hfin : ∀ k, k < m → FloatOps.finite (cellsB k) = true)
    (hrng : ∀ k, k < m → 0 ≤ crdB k ∧ crdB k < n)
    (hmono : ∀ k, k + 1 < m → crdB k < crdB (k + 1))
    (f : Func F) (hgen : generateIr ofRat cap a formats (graph i outT bT) .evaluate = .ok f)
    (fuel : Nat) (hfuel : n + 1 ≤ fuel) :
    ∃ o, exec fuel f.body σ = .ok o ∧ o.ret = some (.int 0) ∧ o.iters = n ∧
      o.st.tensors[ta]? = some { atr with vals := .ptr σ.heap.length 0 } ∧
      o.st.heap[σ.heap.length]? = some ⟨.float,
        (List.range n).map (fun x => some (.flt (s2dAt (ofRat ((0 : Int) : Rat)) crdB cellsB m x))),
        .output, true⟩ ∧
      (∀ k, k ≠ ta → o.st.tensors[k]? = σ.tensors[k]?) ∧
      o.st.tensors.length = σ.tensors.length ∧
      (∀ b, b < σ.heap.length → o.st.heap[b]? = σ.heap[b]?) ∧
      o.st.heap.length = σ.heap.length + 1 := by
  rw [s2d_generateIr_eq ofRat cap a formats i outT bT hout ho hb hf hidx hrhs] at hgen
  cases hgen
  have hmono' := s2d_mono_of_adjacent crdB m hmono
  obtain ⟨o, eo, hret, hit, hp⟩ := s2d_kernel_runs ofRat formats N hb
    (s2dAt (ofRat ((0 : Int) : Rat)) crdB cellsB m) init hz hfin hrng hmono'
    (fun k hk => s2dAt_stored _ crdB cellsB m (fun k hk => (hrng k hk).1) hmono' k hk)
    (fun x hx => s2dAt_absent _ crdB cellsB m x hx) fuel hfuel
  exact ⟨o, eo, hret, hit, hp.outRec, hp.blk, hp.otherRecs, hp.tlen, hp.heap, hp.heapLen⟩

/-- what the cells of the result are: `b`'s value at a stored coordinate … -/
theorem s2d_result_stored (zero : F) (crdB : Nat → Int) (cellsB : Nat → F) (n m : Nat)
    (hrng : ∀ k, k < m → 0 ≤ crdB k ∧ crdB k < n) (hmono : ∀ k, k + 1 < m → crdB k < crdB (k + 1))
    (k : Nat) (hk : k < m) :
    ((List.range n).map (fun x => some (Val.flt (s2dAt zero crdB cellsB m x))))[(crdB k).toNat]? =
      some (some (.flt (cellsB k))) := by
  have h := hrng k hk
  have hlt : (crdB k).toNat < n := by omega
  simp [hlt, s2dAt_stored zero crdB cellsB m (fun k hk => (hrng k hk).1)
    (s2d_mono_of_adjacent crdB m hmono) k hk]

/-- … and an explicitly stored zero at every coordinate of the range that `b` does not store: no cell of the
`malloc`ed block is left uninitialised. -/
theorem s2d_result_absent (zero : F) (crdB : Nat → Int) (cellsB : Nat → F) (n m x : Nat) (hx : x < n)
    (h : ∀ k, k < m → crdB k ≠ x) :
    ((List.range n).map (fun x => some (Val.flt (s2dAt zero crdB cellsB m x))))[x]? =
      some (some (.flt zero)) := by
  simp [hx, s2dAt_absent zero crdB cellsB m x h]

/-- **Exact instance = the specification.** Over the exact carrier `Rat` (every value finite, literals through
`id`) no finiteness hypothesis is left, and cell `x` of the output block is `Alg.denote` of the source
assignment `a(i) = b(i)` at `[x]`, for every environment `inputs` that gives `b` the dense meaning of the
stored compressed vector (`s2dAt 0`). -/
theorem s2d_kernel_exact (cap : Option Int) (a : Alg.DAssign) (formats : Formats)
    (i : String) (outT bT : TensorId)
    (hout : tensorId 0 a.tname formats a.tidx = some outT)
    (ho : Dense1.isLeaf i outT = true) (hb : isSp i bT = true) (hf : s2dFormats formats outT bT)
    (hidx : a.tidx = [i]) (hrhs : Dense1.rhsIdx i a.rhs = true) (N : KNames i outT bT)
    (ta tb : Nat) (atr btr : TensorRec Rat) (n m bpb bcb bvb : Nat) (crdB : Nat → Int) (cellsB : Nat → Rat)
    (σ : State Rat)
    (init : S2DInit outT bT ta tb atr btr n m bpb bcb bvb crdB cellsB σ)
    (hrng : ∀ k, k < m → 0 ≤ crdB k ∧ crdB k < n)
    (hmono : ∀ k, k + 1 < m → crdB k < crdB (k + 1))
    (inputs : Alg.Inputs) (sizes : Alg.Sizes)
    (hin : ∀ x, inputs bT.name [x] = s2dAt (id ((0 : Int) : Rat)) crdB cellsB m x)
    (f : Func Rat) (hgen : generateIr id cap a formats (graph i outT bT) .evaluate = .ok f)
    (fuel : Nat) (hfuel : n + 1 ≤ fuel) :
    ∃ o, exec fuel f.body σ = .ok o ∧ o.ret = some (.int 0) ∧ o.iters = n ∧
      o.st.tensors[ta]? = some { atr with vals := .ptr σ.heap.length 0 } ∧
      o.st.heap[σ.heap.length]? = some ⟨.float,
        (List.range n).map (fun x => some (.flt
          (Alg.denote ⟨outT.name, [i], .tensor bT.name [i]⟩ inputs sizes [x]))), .output, true⟩ := by
  obtain ⟨o, eo, hret, hit, h1, h2, _⟩ := s2d_kernel_correct id cap a formats i outT bT hout ho hb hf hidx hrhs N
    ta tb atr btr n m bpb bcb bvb crdB cellsB σ init rfl (fun _ _ => rfl) hrng hmono f hgen fuel hfuel
  refine ⟨o, eo, hret, hit, h1, ?_⟩
  rw [h2]
  congr 2
  apply List.map_congr_left
  intro x _
  rw [d2s_denote, hin]

/-! ### non-vacuity: `a(i) = b(i)`, `a: d` of dimension 3, `b: s = {1: 2}` (the instance of `C01Convert`) -/

theorem sxNames : KNames "i" sxOut sxB :=
  ⟨by decide, by decide, by decide, by decide, by decide, by decide, by decide⟩

theorem sxInit : S2DInit sxOut sxB 0 1 ⟨1, 0, [none], .null, .output⟩
    ⟨1, 1, [some (.ptr 2 0, .ptr 3 0)], .ptr 4 0, .input⟩ 3 1 2 3 4 (fun _ => 1) (fun _ => (2 : Int))
    sxState := by
  refine
    { avar := ⟨_, rfl, rfl, rfl⟩, bvar := ⟨_, rfl, rfl, rfl⟩, fresh := ?_, arec := rfl, aown := rfl,
      avals := rfl, adim := ⟨_, rfl, rfl, rfl, rfl⟩, n32 := by decide, m32 := by decide, brec := rfl,
      bord := Nat.zero_lt_one, bslot := rfl, bvals := rfl, bpos := ⟨_, rfl, rfl, rfl, rfl, rfl⟩,
      bcrd := ⟨_, rfl, rfl, rfl, ?_⟩, bval := ⟨_, rfl, rfl, rfl, ?_⟩ }
  · intro x h1 h2
    have e1 : ("a" == x) = false := beq_eq_false_iff_ne.2 (Ne.symm h1)
    have e2 : ("b" == x) = false := beq_eq_false_iff_ne.2 (Ne.symm h2)
    simp [lookupVar, sxState, List.find?, e1, e2]
  · intro j hj
    match j, hj with
    | 0, _ => rfl
  · intro j hj
    match j, hj with
    | 0, _ => rfl

/-- **`s2d_kernel_correct` is not vacuous** (over `Int`): every hypothesis holds on the instance `b = {1: 2}`,
dimension 3; `generateIr` produces the kernel; the run returns `0` after 3 iterations and the fresh output block
(address 5) is exactly `[0, 2, 0]`. -/
example : ∃ f o, generateIr exOfRat none sxAssign sxFormats (graph "i" sxOut sxB) .evaluate = .ok f ∧
    exec 4 f.body sxState = .ok o ∧ o.ret = some (.int 0) ∧ o.iters = 3 ∧
    o.st.tensors[0]? = some ⟨1, 0, [none], .ptr 5 0, .output⟩ ∧
    o.st.heap[5]? = some ⟨.float, [some (.flt 0), some (.flt 2), some (.flt 0)], .output, true⟩ := by
  have hgen := s2d_generateIr_eq exOfRat none sxAssign sxFormats "i" sxOut sxB (by decide) (by decide)
    (by decide) rfl rfl (by decide)
  obtain ⟨o, eo, hret, hit, h1, h2, _⟩ := s2d_kernel_correct exOfRat none sxAssign sxFormats "i" sxOut sxB
    (by decide) (by decide) (by decide) rfl rfl (by decide) sxNames 0 1 _ _ 3 1 2 3 4 _ _ _ sxInit rfl
    (fun _ _ => rfl) (fun k hk => by constructor <;> simp) (fun k hk => by omega) _ hgen 4 (by decide)
  have hl : sxState.heap.length = 5 := rfl
  rw [hl] at h2
  exact ⟨_, o, hgen, eo, hret, hit, h1, by rw [h2]; rfl⟩

/-! ### the range hypothesis is needed -/

/-- the same call with the stored coordinate `5` (dimension still 3): `b` is NOT well-formed -/
def sxBadState : State Int :=
  { sxState with
    heap := [⟨.int, [some (.int 3)], .output, true⟩,
             ⟨.int, [some (.int 3)], .input, true⟩,
             ⟨.int, [some (.int 0), some (.int 1)], .input, true⟩,
             ⟨.int, [some (.int 5)], .input, true⟩,
             ⟨.float, [some (.flt 2)], .input, true⟩] }

set_option maxRecDepth 100000 in
/-- **Counterexample to the statement without `crdB k < n`.** The merging loop has no `i < i_dim` guard: it
runs until the cursor of `b` is exhausted, i.e. until `i` passes the last stored coordinate. With the stored
coordinate `5` and dimension `3` the fourth iteration stores to `a_vals[3]`, outside the 3-cell block: the
machine STOPS WITH THE ERROR `oob` (in C: a heap buffer overflow), whatever the fuel `≥ 6`. -/
theorem s2d_oob_counterexample :
    exec 8 (s2dKernel exOfRat sxFormats "i" sxOut sxB).body sxBadState = .error .oob := by
  have t0 : toString (0 : Nat) = "0" := rfl
  simp [s2dKernel, s2dKernelStmts, s2dLoopLines, s2dLoop1, s2dLoop2, s2dStore, unpackDense, Sparse1.unpackStmts,
    Dense1.ptrDecl, Dense1.storeStmt, toIrWith, prevLayerPointer, sxOut, sxB, sxFormats, exOfRat, sxState,
    sxBadState,
    declAssignE, increment, plus, times, dimName, posName, crdName, valsName, valsCapName, layerPointer,
    sparseEndName, valueFromCrd, t0,
    exec, execL, evalRhs, evalE, evalLoc, store, declare, lookupVar, convTo,
    convElem, setVar, setVarOpt, chkInt, chkVal, chkFlt, inI32, hasTy, binVal, numOp, Val.toNum, readBlock,
    hasElemTy, Block.len, doAlloc, elemOf, isPtrVal, bind, Except.bind, Out.seq, FloatOps.finite]

end TV.Conv
