import TensoraVerif.Lemmas.CsrKernel
import TensoraVerif.Lemmas.CsrMeaning
import TensoraVerif.Lemmas.Sparse2NamesNodup
import TensoraVerif.Lemmas.Dense1Exact
import TensoraVerif.Model.FloatLaws

/-!
# C01 / C02 / C05, end to end, for the CSR matrix copy / scale kernel `a(i,j) = c * B(i,j)`, `a: ds`, `B: ds`

Assignments `a(i,j) = e` where `a` is an order-2 tensor stored with DENSE rows and COMPRESSED columns (`ds`,
identity ordering: CSR) and `e` mentions exactly one tensor occurrence `B(i,j)`, also CSR, in such a way that the
loop over `j` is sparse (`a(i,j) = B(i,j)`, `a(i,j) = 2 * B(i,j)`, `a(i,j) = B(i,j) * 2.5`, …; class
`Csr.isExpr`). The iteration graph is `Csr.graph i j outT e = .iter i (some ⟨outT,0⟩) (.iter j (some ⟨outT,1⟩)
(.terminal e))`.

The kernel combines the DENSE outer loop of the CSR matrix–vector product (`C01Spmv`: `int i = 0; while (i <
i_dim)`, dense cursors `p_a_0 = p_B_0 = 0 * i_dim + i`, the row segment read from `B_1_pos[p_B_0]`,
`B_1_pos[p_B_0 + 1]`) with the ASSEMBLY of a compressed level of `C01Sparse2` (inner merge loop appending to
`a_1_crd` / `a_vals` with the `vals` allocation check and the `crd` assembly, `a_1_pos[p_a_0 + 1] = p_a_1`
after every row). New with respect to both: the output's level 0 is dense, so there is NO outer flag, NO
`a_0_crd`, NO pos allocation check — `appendDeclarations` allocates `a_1_pos` with EXACTLY `1 * i_dim + 1`
cells (the "all dense so far" case) and the cleanup does not reallocate it; EVERY row (also an empty one) gets
its `pos` cell; the terminal raises ONE flag.

* **K1** `csr_lower_eq`, `csr_generateIr_eq` — what the pass emits on the class; closed `bestAlgorithm` instance.
* **K2** `csr_loops_correct` — the loop nest: exactly `n + nnz` iterations; `a_1_pos` = the `n + 1` positions of
  `B`, `a_1_crd` = its `nnz` columns, `a_vals` = `valueF e` of its values; any initial capacity `≥ 1`.
* **K3** `csr_kernel_correct` — the whole `evaluate` function from `Init`: exact block sizes, inputs untouched.
* **K4** `csr_kernel_exact`, `csr_exact_meaning`, `csr_denote_copy`, `csr_denote_scale`.
* non-vacuity: `B = [[1,0,2],[0,0,0],[0,3,0]]` (`pos = [0,2,2,3]`, `crd = [0,2,1]`, `vals = [1,2,3]`), initial
  capacity 1, `a(i,j) = 2 * B(i,j)`: `pos = [0,2,2,3]`, `crd = [0,2,1]`, `vals = [2,4,6]`.

Vocabulary: `Lemmas/CsrModel.lean` (class, emitted loop nest), `CsrKernelDef.lean` (emitted kernel),
`CsrState.lean` (`CData`: the stored structure of `B`, `CData.Wf`; `Ctx`, `Ctx.OK`, `St`: the kernel invariant;
the names are those of `Sparse2.allNames`), `CsrShape.lean` (`Shape`, `Init`, `Entry`, `KernelPost`);
`capVal cap` is the value of `default_array_size`.
-/
namespace TV.Csr
open TV.IR TV.Gen TV.Graph TV.Growth TV.Merge
open TV.Sparse1 (capVal)
open TV.Sparse2 (allNames VFrame)

variable {F : Type} [FloatOps F]

/-! ### K1: what the pass emits -/

/-- **K1a (the lowered loop nest).** For every graph of the class, `lower` (any fuel `≥ 3`) succeeds and returns
`int i = 0; while (i < i_dim) { int p_a_0 = 0 * i_dim + i; int p_B_0 = 0 * i_dim + i; if (true) { int p_B_1 =
B_1_pos[p_B_0]; int p_B_1_end = B_1_pos[p_B_0 + 1]; while (true && p_B_1 < p_B_1_end) { int i_B_1 =
B_1_crd[p_B_1]; int j = i_B_1; if (true && i_B_1 == j) { <vals allocation> bool written_a_1 = false;
{ written_a_1 = true; a_vals[p_a_1] = <e>; } if (written_a_1) { <crd assembly of level 1> p_a_1 = p_a_1 + 1; } }
p_B_1 = p_B_1 + (int)(i_B_1 == j); } a_1_pos[p_a_0 + 1] = p_a_1; } i = i + 1; }` (`loopLines`). -/
theorem csr_lower_eq (ofRat : Rat → F) (k : Nat) (i j : String) (outT bT : TensorId) (e : IdExpr)
    (hij : i ≠ j) (ho : isDS i j outT = true) (he : isExpr i j bT e = true) :
    lower ofRat (k + 3) (graph i j outT e) (.append outT 0) .evaluate =
      .ok ⟨some ("*** Iteration over " ++ i ++ " ***"), loopLines ofRat i j outT bT e⟩ :=
  lower_eq ofRat k i j outT bT e hij ho he

/-- **K1b (the generated kernel).** For an assignment `out(i,j) = rhs` whose accesses all use indices among `i`,
`j`, a format table of CSR matrices and the graph of the class, `generateIr` succeeds and returns exactly
`Csr.kernel` (extract `i_dim`, `j_dim`; unpack `pos`/`crd` of level 1 and `vals` of every tensor; output
initialisation: `a_1_pos` with `1 * i_dim + 1` cells, `a_1_crd` / `a_vals` with initial capacity `cap`; the loop
nest; the cleanup reallocs of `a_1_crd` and `a_vals` and the hand-over; `return 0`). -/
theorem csr_generateIr_eq (ofRat : Rat → F) (cap : Option Int) (a : Alg.DAssign) (formats : Formats)
    (i j : String) (outT bT : TensorId) (e : IdExpr)
    (hout : tensorId 0 a.tname formats a.tidx = some outT)
    (hij : i ≠ j) (ho : isDS i j outT = true) (he : isExpr i j bT e = true) (hf : dsFormats formats = true)
    (hidx : a.tidx = [i, j]) (hrhs : DenseN.rhsIdx [i, j] a.rhs = true) :
    generateIr ofRat cap a formats (graph i j outT e) .evaluate =
      .ok (kernel ofRat cap formats i j outT bT e) :=
  generateIr_eq ofRat cap a formats i j outT bT e hout (Dense1.tensorId_name hout) hij ho he hf
    (Sparse2.indexDimensions_eq a i j hij hidx hrhs)

/-! ### K2: the loop nest -/

/-- **K2 (the loop nest of the CSR copy/scale kernel is correct).** Let `K` be a call context satisfying the
static hypotheses `K.OK` — in particular `K.d.Wf`: the CSR input has `pos 0 = 0`, `pos` non-decreasing,
`pos n = nnz`, int32 columns (`CData.Wf.of_csr`: this follows from `Spmv.Csr n m nnz pos crd`); sortedness is NOT
needed — and `σ` a state at the entry of the iteration block (`Entry K S σ`: the kernel invariant `St K S σ` —
read-only part unchanged, the three output arrays `Arr` components in pairwise different blocks above the
initial heap, `a_1_crd` and `a_vals` of ANY capacities `≥ 1` —, `a_1_pos = [0, …]` with `n + 1` cells, `p_a_1 =
0`, the loop-local variables undeclared or of their types). Then the emitted loop nest runs without error with
any fuel `≥ n + nnz + 1`, performs EXACTLY `n + nnz` loop iterations — `n` of the outer loop and one per stored
entry in the inner loops —, and afterwards the invariant holds for a description `S'` in which
`a_1_pos` holds exactly the `n + 1` positions `pos 0, …, pos n` of the INPUT (capacity still `n + 1`: never
reallocated; every row, also an empty one, has its cell), `a_1_crd` holds the `nnz` column coordinates of the
input, `a_vals` holds `valueF e` of the `nnz` input values; `p_a_1 = nnz`; only loop variables were written. -/
theorem csr_loops_correct {K : Ctx F} (ok : K.OK) (fuel : Nat) (σ : State F) (S : OutSt F)
    (hfuel : K.d.n + K.d.nnz + 1 ≤ fuel) (entry : Entry K S σ) :
    ∃ o S', execL fuel (loopLines K.ofRat K.i K.j K.outT K.bT K.e) σ = .ok o ∧ o.ret = none ∧
      o.iters = K.d.n + K.d.nnz ∧ St K S' o.st ∧
      S'.cells .p1 = (List.range (K.d.n + 1)).map (fun r => (.int (K.d.pos r) : Val F)) ∧
      S'.cap .p1 = (K.d.n : Int) + 1 ∧
      S'.cells .c1 = (List.range K.d.nnz).map (fun q => (.int (K.d.crd q) : Val F)) ∧
      S'.cells .v = (List.range K.d.nnz).map
        (fun q => (.flt (ToIr.valueF K.ofRat (fun _ => K.d.vals q) K.e) : Val F)) ∧
      IntVar o.st (K.n .pA1) K.d.nnz ∧ VFrame ([K.n .i] ++ bodyW K) σ o.st := by
  obtain ⟨σ', S', ⟨o, eo, ro, so, ito⟩, st', sh', hpA1, fr⟩ := loopLines_runs ok fuel σ S hfuel entry
  subst so
  refine ⟨o, S', eo, ro, ito, st', ?_, sh'.p1c, ?_, ?_, hpA1, fr⟩
  · rw [sh'.p1]; simp [CData.outPos]
  · rw [sh'.c1, ok.wf.posn]; rfl
  · rw [sh'.v, ok.wf.posn]; rfl

/-! ### K3: the whole kernel -/

/-- **K3 (the generated `evaluate` kernel of a CSR matrix copy/scale is correct).** Let `out(i,j) = rhs` be an
assignment whose accesses use the indices `i`, `j`, `formats` a table of two CSR matrices (output first), `outT`
the output tensor as `generateIr` computes it, `e` a right-hand side of the class with its one tensor occurrence
`bT`. Let `cap` be ANY initial capacity parameter with `1 ≤ capVal cap < 2^31`. Let `d` describe a well-formed
CSR structure of `B` (`CData.Wf`: `pos` goes from `0` to `nnz` without decreasing over the `n` rows, int32
columns, `n + 1 < 2^31`, `nnz ≤ 2^30`), and `σ` an initial machine state as the driver builds it (`Init`,
`Ctx.OK`): the variables are exactly the two tensor parameters; the output record `ta` (contents `atr`) is
output-owned with a slot pair at level 1 and `vals` holding pointers or `NULL`, `dimensions = [n, m]`; slot 1 of
the input record points to blocks holding `pos` (`n + 1` cells) and `crd`, `vals` to the values; the names of
the kernel are pairwise distinct; every sub-result of `e` is finite at every stored entry.

Then the function `f` that `generateIr` produces runs on the machine with any fuel `≥ n + nnz + 1` WITHOUT
ERROR, **returns `0`** after EXACTLY `n + nnz` loop iterations, and in the final state
* the output record (still output-owned, same order and dimensions block) has slot 1 = (`pos`, `crd`) and
  `vals` = the base addresses of three different FRESH blocks, live and output-owned;
* `pos` is EXACTLY the `n + 1` positions of `B`, `crd` is EXACTLY its `nnz` column coordinates (the sizes
  `appendCleanup_exact_sizes` gives; `pos` was allocated with `i_dim + 1` cells and never reallocated: C02);
  the `vals` block has exactly `nnz + 1` cells (`padUpTo`), the first `nnz` holding
  `valueF ofRat (B ↦ vals q) e` (for `e = B`: a copy);
* every other tensor record and EVERY block of the initial heap (all inputs) is unchanged. -/
theorem csr_kernel_correct (ofRat : Rat → F) (cap : Option Int) (a : Alg.DAssign) (formats : Formats)
    (i j : String) (outT bT : TensorId) (e : IdExpr)
    (hout : tensorId 0 a.tname formats a.tidx = some outT) (hf : dsFormats formats = true)
    (hidx : a.tidx = [i, j]) (hrhs : DenseN.rhsIdx [i, j] a.rhs = true)
    (hfmt : formats.map (·.1) = [outT.name, bT.name])
    (hk0 : 1 ≤ capVal cap) (hk1 : capVal cap < 2147483648)
    (d : CData F) (ta tb : Nat) (atr btr : TensorRec F) (m : Int) (bp bc bv : Nat) (σ : State F)
    (ok : (Ctx.mk ofRat i j outT bT e d σ.heap σ.tensors ta bp bc bv).OK)
    (init : Init (Ctx.mk ofRat i j outT bT e d σ.heap σ.tensors ta bp bc bv) atr btr tb m σ)
    (f : Func F) (hgen : generateIr ofRat cap a formats (graph i j outT e) .evaluate = .ok f)
    (fuel : Nat) (hfuel : d.n + d.nnz + 1 ≤ fuel) :
    ∃ o, exec fuel f.body σ = .ok o ∧ o.ret = some (.int 0) ∧ o.iters = d.n + d.nnz ∧
      (∃ tr' p1 c1 v vblk, o.st.tensors[ta]? = some tr' ∧ tr'.owner = .output ∧
        tr'.order = atr.order ∧ tr'.dimsBlk = atr.dimsBlk ∧
        tr'.slots = atr.slots.set 1 (some (.ptr p1 0, .ptr c1 0)) ∧
        tr'.vals = .ptr v 0 ∧
        [p1, c1, v].Nodup ∧ (∀ x ∈ [p1, c1, v], σ.heap.length ≤ x) ∧
        o.st.heap[p1]? = some ⟨.int, (List.range (d.n + 1)).map (fun r => some (.int (d.pos r))), .output, true⟩ ∧
        o.st.heap[c1]? = some ⟨.int, (List.range d.nnz).map (fun q => some (.int (d.crd q))), .output, true⟩ ∧
        o.st.heap[v]? = some vblk ∧ vblk.live = true ∧ vblk.owner = .output ∧ vblk.ty = .float ∧
        vblk.cells.length = d.nnz + 1 ∧
        ∀ q, q < d.nnz → vblk.cells[q]? = some (some (.flt (ToIr.valueF ofRat (fun _ => d.vals q) e)))) ∧
      (∀ k, k ≠ ta → o.st.tensors[k]? = σ.tensors[k]?) ∧
      o.st.tensors.length = σ.tensors.length ∧
      (∀ k, k < σ.heap.length → o.st.heap[k]? = σ.heap[k]?) := by
  rw [csr_generateIr_eq ofRat cap a formats i j outT bT e hout ok.hij ok.ho ok.he hf hidx hrhs] at hgen
  cases hgen
  obtain ⟨o, eo, hret, hit, hp⟩ := kernel_runs ok cap formats hfmt hk0 hk1 init fuel hfuel
  exact ⟨o, eo, hret, hit, hp.outRec, hp.otherRecs, hp.tlen, hp.heap⟩

/-! ### K4: the exact carrier -/

/-- **K4a (exact instance).** Over the exact carrier `Rat` (every value finite, exact arithmetic, literals
through `id`) the stored values are the mathematical meaning `Graph.value` of `e` at the entries of `B`: the
kernel returns `0` after `n + nnz` iterations, the two index arrays are as in K3 and cell `q < nnz` of the `vals`
block is `value (B ↦ vals q) e`. -/
theorem csr_kernel_exact (cap : Option Int) (a : Alg.DAssign) (formats : Formats)
    (i j : String) (outT bT : TensorId) (e : IdExpr)
    (hout : tensorId 0 a.tname formats a.tidx = some outT) (hf : dsFormats formats = true)
    (hidx : a.tidx = [i, j]) (hrhs : DenseN.rhsIdx [i, j] a.rhs = true)
    (hfmt : formats.map (·.1) = [outT.name, bT.name])
    (hk0 : 1 ≤ capVal cap) (hk1 : capVal cap < 2147483648)
    (d : CData Rat) (ta tb : Nat) (atr btr : TensorRec Rat) (m : Int) (bp bc bv : Nat) (σ : State Rat)
    (ok : (Ctx.mk id i j outT bT e d σ.heap σ.tensors ta bp bc bv).OK)
    (init : Init (Ctx.mk id i j outT bT e d σ.heap σ.tensors ta bp bc bv) atr btr tb m σ)
    (f : Func Rat) (hgen : generateIr id cap a formats (graph i j outT e) .evaluate = .ok f)
    (fuel : Nat) (hfuel : d.n + d.nnz + 1 ≤ fuel) :
    ∃ o, exec fuel f.body σ = .ok o ∧ o.ret = some (.int 0) ∧ o.iters = d.n + d.nnz ∧
      ∃ tr' p1 c1 v vblk, o.st.tensors[ta]? = some tr' ∧
        tr'.slots = atr.slots.set 1 (some (.ptr p1 0, .ptr c1 0)) ∧ tr'.vals = .ptr v 0 ∧
        o.st.heap[p1]? = some ⟨.int, (List.range (d.n + 1)).map (fun r => some (.int (d.pos r))), .output, true⟩ ∧
        o.st.heap[c1]? = some ⟨.int, (List.range d.nnz).map (fun q => some (.int (d.crd q))), .output, true⟩ ∧
        o.st.heap[v]? = some vblk ∧ vblk.live = true ∧ vblk.cells.length = d.nnz + 1 ∧
        ∀ q, q < d.nnz → vblk.cells[q]? = some (some (.flt (value (fun _ => d.vals q) e))) := by
  obtain ⟨o, eo, hret, hit, ⟨tr', p1, c1, v, vblk, h1, _, _, _, h5, h6, _, _, h9, h10, h11, h12, _, _, h15, h16⟩,
    _⟩ :=
    csr_kernel_correct id cap a formats i j outT bT e hout hf hidx hrhs hfmt hk0 hk1 d ta tb atr btr m
      bp bc bv σ ok init f hgen fuel hfuel
  refine ⟨o, eo, hret, hit, tr', p1, c1, v, vblk, h1, h5, h6, h9, h10, h11, h12, h15, ?_⟩
  intro q hq
  rw [h16 q hq, ToIr.valueF_rat]

/-- **K4b (the meaning of the stored result, at every coordinate pair).** For every expression of the class and
every input, the dense reading of the output the kernel builds (`CData.outAt`: the value stored at `(x, y)` in
the structure `pos`/`crd` — the output's index arrays ARE those of the input — with the values
`value (B ↦ vals q) e`; `0` where nothing is stored) equals the meaning of `e` at the dense reading of `B`, AT
EVERY COORDINATE PAIR `(x, y)` — where `B` stores nothing, neither does the output, and `e` vanishes there
(`context_sparse_sound`, C16). -/
theorem csr_exact_meaning {i j : String} {bT : TensorId} {e : IdExpr}
    (he : isExpr i j bT e = true) (d : CData Rat) (x y : Int) :
    d.outAt e x y = value (fun _ => d.at x y) e :=
  csrAt_out d e (value_zero_of_isExpr he) x y

/-- **K4c (copy: the output is `Alg.denote` of the source assignment).** For `a(i,j) = B(i,j)`: at every
coordinate pair the dense reading of the output equals C01's specification `Alg.denote` of the SOURCE
assignment, for every valuation that reads `B` as the dense reading of the stored input. -/
theorem csr_denote_copy (an bn i j : String) (hij : i ≠ j) (bT : TensorId) (d : CData Rat)
    (inputs : Alg.Inputs) (sizes : Alg.Sizes) (hin : ∀ x y : Nat, inputs bn [x, y] = d.at x y) (x y : Nat) :
    d.outAt (.tensor bT) x y = Alg.denote ⟨an, [i, j], .tensor bn [i, j]⟩ inputs sizes [x, y] := by
  rw [Sparse2.denote_copy an bn i j hij, hin, csrAt_out d (.tensor bT) rfl]
  rfl

/-- **K4d (scale: the output is `Alg.denote` of the source assignment).** For `a(i,j) = c * B(i,j)` with an
integer literal `c` (e.g. `2 * B(i,j)`): value at `(x, y)` = `c * B[x, y]`, absent = `0`. -/
theorem csr_denote_scale (an bn i j : String) (hij : i ≠ j) (c : Int) (bT : TensorId) (d : CData Rat)
    (inputs : Alg.Inputs) (sizes : Alg.Sizes) (hin : ∀ x y : Nat, inputs bn [x, y] = d.at x y) (x y : Nat) :
    d.outAt (.mul (.int c) (.tensor bT)) x y =
      Alg.denote ⟨an, [i, j], .mul (.int c) (.tensor bn [i, j])⟩ inputs sizes [x, y] := by
  rw [Sparse2.denote_scale an bn i j hij, hin, csrAt_out d (.mul (.int c) (.tensor bT)) (by simp [value])]
  rfl

/-! ### the name-distinctness condition is satisfiable in general -/

/-- the tensors of `a(i,j) = e(B(i,j))`, both CSR, as the pipeline builds them -/
def pOut (an i j : String) : TensorId := ⟨"0_" ++ an, an, [i, j], [.dense, .compressed]⟩
def pB (ks bn i j : String) : TensorId := ⟨ks ++ "_" ++ bn, bn, [i, j], [.dense, .compressed]⟩

/-- **names.** `(allNames …).Nodup` — the only name hypothesis of `Ctx.OK` — holds for the names the pipeline
builds: index and tensor names without `'_'`, pairwise different; tensor ids `0_<a>`, `<k>_<B>`. -/
theorem csr_names_generated (i j an bn ks : String)
    (hi : '_' ∉ i.toList) (hj : '_' ∉ j.toList) (ha : '_' ∉ an.toList) (hb : '_' ∉ bn.toList)
    (hk : '_' ∉ ks.toList)
    (hij : i ≠ j) (hia : i ≠ an) (hib : i ≠ bn) (hja : j ≠ an) (hjb : j ≠ bn) (hab : an ≠ bn) :
    (allNames i j (pOut an i j) (pB ks bn i j)).Nodup :=
  Sparse2.allNames_nodup i j an bn ks hi hj ha hb hk hij hia hib hja hjb hab

/-! ### non-vacuity: `a(i,j) = 2 * B(i,j)`, `B = [[1,0,2],[0,0,0],[0,3,0]]` (`pos = [0,2,2,3]`, `crd = [0,2,1]`,
`vals = [1,2,3]`; the middle row is EMPTY), initial capacity 1 -/

def exFormats : Formats := [("a", [.dense, .compressed], [0, 1]), ("B", [.dense, .compressed], [0, 1])]
def exOut : TensorId := ⟨"0_a", "a", ["i", "j"], [.dense, .compressed]⟩
def exB : TensorId := ⟨"1_B", "B", ["i", "j"], [.dense, .compressed]⟩
def exE : IdExpr := .mul (.int 2) (.tensor exB)
def exAssign : Alg.DAssign := ⟨"a", ["i", "j"], .mul (.int 2) (.tensor 1 "B" ["i", "j"])⟩
def exPos : Nat → Nat := fun r => [0, 2, 2, 3].getD r 0
def exCrd : Nat → Int := fun q => [0, 2, 1].getD q 0

/-- the stored structure of `B`: three rows (the second one EMPTY), three entries -/
def exD {F : Type} (c : Int → F) : CData F :=
  ⟨3, 3, exPos, exCrd, fun q => [c 1, c 2, c 3].getD q (c 0)⟩

/-- generic in the carrier: the state the driver builds for the output `a` (`3 × 3`, empty) and `B` -/
def exStateOf {F : Type} (c : Int → F) : State F :=
  { vars := [⟨"a", .ptr .tensor, some (.tensor 0)⟩, ⟨"B", .ptr .tensor, some (.tensor 1)⟩],
    heap := [⟨.int, [some (.int 3), some (.int 3)], .output, true⟩,
             ⟨.int, [some (.int 3), some (.int 3)], .input, true⟩,
             ⟨.int, [some (.int 0), some (.int 2), some (.int 2), some (.int 3)], .input, true⟩,
             ⟨.int, [some (.int 0), some (.int 2), some (.int 1)], .input, true⟩,
             ⟨.float, [some (.flt (c 1)), some (.flt (c 2)), some (.flt (c 3))], .input, true⟩],
    tensors := [⟨2, 0, [none, some (.null, .null)], .null, .output⟩,
                ⟨2, 1, [none, some (.ptr 2 0, .ptr 3 0)], .ptr 4 0, .input⟩] }

/-- the context of the instance -/
def exK {F : Type} (ofRat : Rat → F) (c : Int → F) : Ctx F :=
  ⟨ofRat, "i", "j", exOut, exB, exE, exD c, (exStateOf c).heap, (exStateOf c).tensors, 0, 2, 3, 4⟩

theorem exWf {F : Type} (c : Int → F) : (exD c).Wf := by
  refine ⟨rfl, rfl, ?_, ?_, by show (3 : Nat) < 2147483647; decide, by show (3 : Nat) ≤ 1073741824; decide⟩
  · intro r hr
    have hr' : r < 3 := hr
    show exPos r ≤ exPos (r + 1)
    match r, hr' with
    | 0, _ => decide
    | 1, _ => decide
    | 2, _ => decide
  · intro q hq
    have hq' : q < 3 := hq
    show -2147483648 ≤ exCrd q ∧ exCrd q < 2147483648
    match q, hq' with
    | 0, _ => decide
    | 1, _ => decide
    | 2, _ => decide

/-- the instance is a well-formed CSR matrix in the sense of `Spmv.Csr` too (`3 × 3`, `nnz = 3`) -/
example : Spmv.Csr 3 3 3 exPos (fun q => (exCrd q).toNat) := by
  refine ⟨rfl, ?_, rfl, ?_⟩
  · intro k hk
    match k, hk with
    | 0, _ => decide
    | 1, _ => decide
    | 2, _ => decide
  · intro p hp
    match p, hp with
    | 0, _ => decide
    | 1, _ => decide
    | 2, _ => decide

theorem exOK {F : Type} [FloatOps F] (ofRat : Rat → F) (c : Int → F)
    (hfin : ∀ q, q < 3 → ToIr.AllFinite ofRat (fun _ => (exD c).vals q) exE) : (exK ofRat c).OK := by
  refine
    { names := by show (allNames "i" "j" exOut exB).Nodup; decide,
      ho := by show isDS "i" "j" exOut = true; decide,
      he := by show isExpr "i" "j" exB exE = true; decide, wf := exWf c, fin := hfin,
      p := ⟨_, rfl, rfl, rfl, ?_⟩, c := ⟨_, rfl, rfl, rfl, Nat.le_refl _, ?_⟩, v := ⟨_, rfl, rfl, rfl, ?_⟩ }
  · intro r hr
    have hr' : r ≤ 3 := hr
    match r, hr' with
    | 0, _ => rfl
    | 1, _ => rfl
    | 2, _ => rfl
    | 3, _ => rfl
  · intro q hq
    have hq' : q < 3 := hq
    match q, hq' with
    | 0, _ => rfl
    | 1, _ => rfl
    | 2, _ => rfl
  · intro q hq
    have hq' : q < 3 := hq
    match q, hq' with
    | 0, _ => rfl
    | 1, _ => rfl
    | 2, _ => rfl

theorem exInitOf {F : Type} [FloatOps F] (ofRat : Rat → F) (c : Int → F) :
    Init (exK ofRat c) ⟨2, 0, [none, some (.null, .null)], .null, .output⟩
      ⟨2, 1, [none, some (.ptr 2 0, .ptr 3 0)], .ptr 4 0, .input⟩ 1 3 (exStateOf c) := by
  refine
    { heap := rfl, tensors := rfl, avar := ⟨_, rfl, rfl, rfl⟩, bvar := ⟨_, rfl, rfl, rfl⟩, fresh := ?_,
      arec := rfl, aown := rfl, aord := Nat.le_refl _, aslot1 := ⟨_, _, rfl, rfl, rfl⟩, avals := rfl,
      adim := ⟨_, rfl, rfl, rfl, rfl, rfl⟩, m32 := by decide, brec := rfl, bord := Nat.le_refl _,
      bslot1 := rfl, bvals := rfl }
  intro x h1 h2
  have e1 : ("a" == x) = false := beq_eq_false_iff_ne.2 (Ne.symm h1)
  have e2 : ("B" == x) = false := beq_eq_false_iff_ne.2 (Ne.symm h2)
  simp [lookupVar, exStateOf, List.find?, e1, e2]

/-- **K1, closed instance**: the graph of the class is the one the front half (`bestAlgorithm`) chooses for the
assignment -/
example : bestAlgorithm exAssign exFormats = .graph (graph "i" "j" exOut exE) := by
  have h : toIterationGraphs exAssign exFormats = .ok [graph "i" "j" exOut exE] := by rfl
  simp only [bestAlgorithm, h]

/-- the instance is in the class -/
example : isDS "i" "j" exOut = true ∧ isExpr "i" "j" exB exE = true ∧ dsFormats exFormats = true := by decide

/-- literals of the instance over `Int`: the numerator -/
def exOfRat : Rat → Int := fun q => q.num

/-- **K3 is not vacuous** (over `Int`, initial capacity 1 — `a_1_crd` and `a_vals` are reallocated while they
grow, `a_1_pos` is not): every hypothesis holds on the instance, `generateIr` produces the kernel, and the run
returns `0` after `3 + 3 = 6` iterations and leaves `pos = [0, 2, 2, 3]` (the EMPTY row has its cell),
`crd = [0, 2, 1]`, `vals = [2, 4, 6, ·]` in fresh blocks the output record points to. -/
example : ∃ f o, generateIr exOfRat (some 1) exAssign exFormats (graph "i" "j" exOut exE) .evaluate = .ok f ∧
    exec 7 f.body (exStateOf (F := Int) id) = .ok o ∧ o.ret = some (.int 0) ∧ o.iters = 6 ∧
    ∃ tr' p1 c1 v vblk, o.st.tensors[0]? = some tr' ∧
      tr'.slots = [none, some (.ptr p1 0, .ptr c1 0)] ∧ tr'.vals = .ptr v 0 ∧
      o.st.heap[p1]? = some ⟨.int, [some (.int 0), some (.int 2), some (.int 2), some (.int 3)], .output, true⟩ ∧
      o.st.heap[c1]? = some ⟨.int, [some (.int 0), some (.int 2), some (.int 1)], .output, true⟩ ∧
      o.st.heap[v]? = some vblk ∧ vblk.live = true ∧ vblk.cells.length = 4 ∧
      vblk.cells[0]? = some (some (.flt 2)) ∧ vblk.cells[1]? = some (some (.flt 4)) ∧
      vblk.cells[2]? = some (some (.flt 6)) := by
  have hgen := csr_generateIr_eq exOfRat (some 1) exAssign exFormats "i" "j" exOut exB exE (by decide)
    (by decide) (by decide) (by decide) (by decide) rfl (by decide)
  obtain ⟨o, eo, hret, hit, ⟨tr', p1, c1, v, vblk, h1, _, _, _, h5, h6, _, _, h9, h10, h11, h12, _, _, h15, h16⟩,
    _⟩ :=
    csr_kernel_correct exOfRat (some 1) exAssign exFormats "i" "j" exOut exB exE (by decide) (by decide) rfl
      (by decide) rfl (by decide) (by decide) (exD (F := Int) id) 0 1 _ _ 3 2 3 4 (exStateOf (F := Int) id)
      (exOK exOfRat id (fun q _ => ToIr.Ex.allFinite_int _ _ _)) (exInitOf exOfRat id) _ hgen 7 (by decide)
  exact ⟨_, o, hgen, eo, hret, hit, tr', p1, c1, v, vblk, h1, h5, h6, h9, h10, h11, h12, h15,
    h16 0 (by decide), h16 1 (by decide), h16 2 (by decide)⟩

/-- **K4 is not vacuous**: the same instance over the exact carrier `Rat`, default initial capacity; the stored
values are `Graph.value` of `2 * B(i,j)` at the entries of `B` -/
example : ∃ (f : Func Rat) (o : Out Rat),
    generateIr (F := Rat) id none exAssign exFormats (graph "i" "j" exOut exE) .evaluate = .ok f ∧
    exec 7 f.body (exStateOf (fun z => (z : Rat))) = .ok o ∧ o.ret = some (.int 0) ∧ o.iters = 6 ∧
    ∃ (v : Nat) (vblk : Block Rat), o.st.heap[v]? = some vblk ∧ vblk.live = true ∧
      ∀ q, q < 3 → vblk.cells[q]? = some (some (.flt (value
        (fun _ => (exD (fun z => (z : Rat))).vals q) exE))) := by
  have hgen := csr_generateIr_eq (F := Rat) id none exAssign exFormats "i" "j" exOut exB exE (by decide)
    (by decide) (by decide) (by decide) (by decide) rfl (by decide)
  obtain ⟨o, eo, hret, hit, tr', p1, c1, v, vblk, _, _, _, _, _, h13, h14, _, h18⟩ :=
    csr_kernel_exact none exAssign exFormats "i" "j" exOut exB exE (by decide) (by decide) rfl
      (by decide) rfl (by decide) (by decide) (exD (fun z => (z : Rat))) 0 1 _ _ 3 2 3 4
      (exStateOf (fun z => (z : Rat))) (exOK id _ (fun q _ => ToIr.allFinite_rat _ _ _)) (exInitOf id _) _ hgen 7
      (by decide)
  exact ⟨_, o, hgen, eo, hret, hit, v, vblk, h13, h14, h18⟩

/-- the static hypotheses `Ctx.OK` hold on the instance -/
example : (exK exOfRat (F := Int) id).OK := exOK exOfRat id (fun _ _ => ToIr.Ex.allFinite_int _ _ _)

/-- **the hypotheses of K2 are satisfiable**: on the instance, the state reached after the prologue
(`prologue_runs`) satisfies `Entry` (this is how K3's proof uses K2, for every input) -/
example : ∃ (σ : State Int) (S : OutSt Int), Entry (exK exOfRat id) S σ := by
  have ok := exOK exOfRat (F := Int) id (fun _ _ => ToIr.Ex.allFinite_int _ _ _)
  obtain ⟨σC, _, entry⟩ := prologue_runs ok (some 1) (by decide) (by decide) (exInitOf exOfRat id) 0
  exact ⟨σC, _, entry⟩

/-- the hypotheses of `csr_exact_meaning` / `csr_denote_scale` on the instance: the dense reading of the result
at `(0, 2)` is `2 * 2`, at `(2, 1)` it is `2 * 3`, in the empty row `(1, 0)` and at the unstored `(0, 1)` it is `0` -/
example : (exD (fun z => (z : Rat))).outAt exE 0 2 = 4 ∧ (exD (fun z => (z : Rat))).outAt exE 2 1 = 6 ∧
    (exD (fun z => (z : Rat))).outAt exE 1 0 = 0 ∧ (exD (fun z => (z : Rat))).outAt exE 0 1 = 0 := by
  refine ⟨?_, ?_, ?_, ?_⟩ <;> decide +kernel

/-- the result of the instance is a well-formed `3 × 3` CSR matrix (`Storage.wfCheck`; the general statement
`csr_result_wf` is not proved: see the report) -/
example : Storage.wfCheck ⟨[3, 3], [0, 1], [⟨.dense, [], []⟩, ⟨.compressed, [0, 2, 2, 3], [0, 2, 1]⟩],
    [2, 4, 6]⟩ = true := by decide

end TV.Csr
