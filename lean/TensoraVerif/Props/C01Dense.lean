import TensoraVerif.Lemmas.Dense1Exact
import TensoraVerif.Model.FloatLaws
import TensoraVerif.Props.C07

/-!
# C01, end to end, for dense element-wise vector kernels

"The kernel computes the mathematical meaning of the assignment", proved — not tested — for one
honest class of problems: assignments `out(i) = e` where `out` and every tensor of `e` are order-1
tensors indexed by `i` and stored densely (e.g. `a(i) = b(i) * c(i) + 2 * d(i)`, all formats `d`).
The iteration graph of such an assignment is `Dense1.graph i outT e = .iter i (some ⟨outT, 0⟩)
(.terminal e)`.

The chain is: `Gen.generateIr` / `Gen.lower` (the lowering pass, Model/GenerateIR.lean) produce an IR
function; `IR.exec` (the monitored machine, Model/Machine.lean: checked loads and stores, checked
32-bit integers, finite floats, fuel) runs it; the result is compared with `Dense1.valueF`, the
meaning of `e` in the float carrier (association of the tree), which over the exact carrier `Rat`
is `Graph.value` (T3).

* `dense1_lower_eq`, `dense1_generateIr_eq` — what the pass emits on the class, written out.
* **T1** `dense1_loop_correct` — Hoare-style correctness of the lowered loop, every `n < 2^31`.
* **T2** `dense1_kernel_correct` — the whole `evaluate` function from an initial state as the
  driver builds it: returns `0`, the output record's `vals` points to a fresh block holding exactly
  the `n` values, inputs untouched, `n` loop iterations, fuel `n + 1`.
* `dense1_kernel_correct_optimised` — T2 transferred to the peephole-optimised body (with C07).
* **T3** `dense1_valueF_exact`, `dense1_kernel_exact` — over `Rat` the kernel computes exactly
  `Graph.value` at every coordinate.
* non-vacuity: `n = 3`, `a(i) = b(i) * c(i) + 2` over `Int`: the graph is the one the front half
  chooses, `generateIr` produces the kernel, every hypothesis holds, and the run leaves `[6, 12, 20]`.

Vocabulary (Lemmas/Dense1Model.lean, Dense1Spec.lean, Dense1Kernel.lean): `leaves e` the tensor
occurrences of `e`; `isLeaf i t` : `t.indexes = [i] ∧ t.modes = [dense]`; `isExpr i e` : every leaf
is one; `valueF ofRat ρ e`, `allFinite ofRat ρ e` (every sub-result, literals and leaves included,
is finite); `IntVar σ x v` / `PtrVar σ x b` / `TensorVar σ x k` : variable `x` is declared `int` /
pointer / `taco_tensor_t*` and holds `v` / the base address of block `b` / tensor record `k`.
-/
namespace TV.Dense1
open TV.IR TV.Gen TV.Graph TV.Growth

variable {F : Type} [FloatOps F]

/-! ### what the pass emits -/

omit [FloatOps F] in
/-- **The lowered loop.** For every graph of the class, `lower` (any fuel `≥ 2`) succeeds and
returns `int i = 0; while (i < i_dim) { int p_<out>_0 = 0 * i_dim + i; int p_<t>_0 = 0 * i_dim + i; …
if (true) { out_vals[p_<out>_0] = <e>; } i = i + 1; }` (`loopLines`). -/
theorem dense1_lower_eq (ofRat : Rat → F) (k : Nat) (i : String) (outT : TensorId) (e : IdExpr)
    (ho : isLeaf i outT = true) (he : isExpr i e = true) :
    lower ofRat (k + 2) (graph i outT e) (.append outT 0) .evaluate =
      .ok ⟨some ("*** Iteration over " ++ i ++ " ***"), loopLines ofRat i outT e⟩ :=
  lower_eq ofRat k i outT e ho he

omit [FloatOps F] in
/-- **The generated kernel.** For an assignment `out(i) = rhs` whose accesses all use the index
`i` alone, an all-dense order-1 format table and the graph of the class, `generateIr` succeeds and
returns exactly `Dense1.kernel` : `{ int i_dim = out->dimensions[0]; double* t_vals = t->vals; …
int out_vals_capacity = 1 * out->dimensions[0]; out_vals = malloc(…); <loop>; out->vals = out_vals;
return 0; }`. -/
theorem dense1_generateIr_eq (ofRat : Rat → F) (cap : Option Int) (a : Alg.DAssign) (formats : Formats)
    (i : String) (outT : TensorId) (e : IdExpr)
    (hout : tensorId 0 a.tname formats a.tidx = some outT)
    (ho : isLeaf i outT = true) (he : isExpr i e = true) (hf : denseFormats formats = true)
    (hidx : a.tidx = [i]) (hrhs : rhsIdx i a.rhs = true) :
    generateIr ofRat cap a formats (graph i outT e) .evaluate = .ok (kernel ofRat formats i outT e) :=
  generateIr_eq ofRat cap a formats i outT e hout (tensorId_name hout) ho he hf
    (indexDimensions_eq a i hidx hrhs)

/-! ### T1 -/

/-- **T1 (the loop computes the meaning of the assignment).** Let `out(i) = e` be of the class, the
index name without `'_'`, `n < 2^31`, and `σ` a machine state in which
* `i_dim` is an `int` holding `n`;
* `<out>_vals` points to block `ob`, a live, output-owned float block of at least `n` cells;
* for every tensor occurrence `t` of `e`, `<t>_vals` points to a live float block `blkOf t.name ≠ ob`
  whose first `n` cells are initialised, cell `j` holding the float `cellsOf t.name j`;
* the scratch variables (`i`, `p_<out>_0`, `p_<t>_0`) are undeclared or declared `int`;
* at every coordinate `j < n` every sub-result of `e` is finite.

Then whatever `lower` returns for the graph runs on the machine, with any fuel `≥ n + 1`, without
error and without returning, in exactly `n` iterations, and in the final state
* cell `j` of block `ob` holds `valueF ofRat (fun t => cellsOf t.name j) e` for every `j < n`, the
  cells `≥ n` are unchanged, the block is still live, output-owned, float, of the same length;
* every other block (the inputs in particular), every tensor record, and every variable other than
  the scratch variables is unchanged; the heap has not grown; `i` holds `n`. -/
theorem dense1_loop_correct (ofRat : Rat → F) (i : String) (outT : TensorId) (e : IdExpr)
    (ho : isLeaf i outT = true) (he : isExpr i e = true) (hi : '_' ∉ i.toList)
    (n ob : Nat) (blkOf : String → Nat) (cellsOf : String → Nat → F) (σ : State F)
    (hn : n < 2147483648)
    (hdim : IntVar σ (dimName i) n)
    (hout : PtrVar σ (valsName outT.name) ob)
    (houtBlk : ∃ blk, σ.heap[ob]? = some blk ∧ blk.live = true ∧ blk.owner = .output ∧
      blk.ty = .float ∧ n ≤ blk.cells.length)
    (hins : ∀ t ∈ leaves e, PtrVar σ (valsName t.name) (blkOf t.name) ∧ blkOf t.name ≠ ob ∧
      ∃ blk, σ.heap[blkOf t.name]? = some blk ∧ blk.live = true ∧ blk.ty = .float ∧
        ∀ j, j < n → blk.cells[j]? = some (some (.flt (cellsOf t.name j))))
    (hscratch : ∀ x ∈ i :: (outT :: leaves e).map (fun t => layerPointer t.id 0),
      ∀ r, lookupVar σ.vars x = some r → r.ty = .int)
    (hfin : ∀ j, j < n → allFinite ofRat (fun t => cellsOf t.name j) e = true)
    (k : Nat) (body : SB F)
    (hlow : lower ofRat (k + 2) (graph i outT e) (.append outT 0) .evaluate = .ok body)
    (fuel : Nat) (hfuel : n + 1 ≤ fuel) :
    ∃ o, exec fuel body.finalize σ = .ok o ∧ o.ret = none ∧ o.iters = n ∧
      (∃ blk blk', σ.heap[ob]? = some blk ∧ o.st.heap[ob]? = some blk' ∧
        blk'.live = true ∧ blk'.owner = .output ∧ blk'.ty = .float ∧
        blk'.cells.length = blk.cells.length ∧
        (∀ j, j < n →
          blk'.cells[j]? = some (some (.flt (valueF ofRat (fun t => cellsOf t.name j) e)))) ∧
        (∀ j, n ≤ j → blk'.cells[j]? = blk.cells[j]?)) ∧
      (∀ b, b ≠ ob → o.st.heap[b]? = σ.heap[b]?) ∧
      o.st.heap.length = σ.heap.length ∧
      o.st.tensors = σ.tensors ∧
      (∀ y, y ∉ i :: (outT :: leaves e).map (fun t => layerPointer t.id 0) →
        lookupVar o.st.vars y = lookupVar σ.vars y) ∧
      IntVar o.st i n := by
  rw [lower_eq ofRat k i outT e ho he] at hlow
  cases hlow
  obtain ⟨σ', ⟨o, eo, hret, hst, hit⟩, hp⟩ := loopLines_runs ofRat (names_of_index i outT e hi) he
    (n := n) (ob := ob) (blkOf := blkOf) (cellsOf := cellsOf) (by omega) hfin σ fuel
    ⟨hdim, hout, houtBlk, hins, hscratch⟩ hfuel
  subst hst
  refine ⟨o, ?_, hret, hit, ?_, hp.heap, hp.heapLen, hp.tensors, hp.vars, hp.idx⟩
  · show exec fuel (.block _ _) σ = _
    rw [exec.eq_5]; exact eo
  · obtain ⟨blk, blk', h1, h2, h3, h4, h5, h6, h7, h8⟩ := hp.outBlk
    exact ⟨blk, blk', h1, h2, h3, h4, h5, h6, fun j hj => h7 j (by omega) hj, fun j hj => h8 j (Or.inr hj)⟩

/-! ### T2 -/

/-- **T2 (the generated `evaluate` kernel computes the meaning of the assignment).** Let
`out(i) = rhs` be an assignment whose accesses all use the index `i` alone, `formats` an all-dense
order-1 format table, `outT` the output tensor as `generateIr` computes it, `e` a right-hand side of
the class, with the side conditions `KernelOK` (index and tensor names without `'_'`, the index is
not a tensor name, the output and the tensors of `e` are in the format table, the output does not
occur in `e`). Let `σ` be an initial machine state as the driver builds it (`Init`): the variables
are exactly the tensor parameters, parameter `t` bound to record `tix t`; the output record is
output-owned and its `dimensions` block holds `n < 2^31`; the record of every tensor `t` of `e` has
`vals` pointing to a live float block whose first `n` cells are initialised with `cellsOf t`; and at
every coordinate every sub-result of `e` is finite.

Then the function `f` that `generateIr` produces for the graph of the class runs on the machine with
any fuel `≥ n + 1` without error, **returns `0`** after exactly `n` loop iterations, and in the final
state the output record's `vals` points to block `σ.heap.length` — a fresh, live, output-owned float
block whose cells are **exactly** `valueF ofRat (fun t => cellsOf t.name j) e` for `j = 0 … n-1`;
every block of the initial heap (all inputs) and every other tensor record is unchanged. -/
theorem dense1_kernel_correct (ofRat : Rat → F) (cap : Option Int) (a : Alg.DAssign) (formats : Formats)
    (i : String) (outT : TensorId) (e : IdExpr)
    (hout : tensorId 0 a.tname formats a.tidx = some outT)
    (ho : isLeaf i outT = true) (he : isExpr i e = true) (hf : denseFormats formats = true)
    (hidx : a.tidx = [i]) (hrhs : rhsIdx i a.rhs = true) (ok : KernelOK formats i outT e)
    (n : Nat) (tix blkOf : String → Nat) (cellsOf : String → Nat → F) (σ : State F)
    (hn : n < 2147483648)
    (hfin : ∀ j, j < n → allFinite ofRat (fun t => cellsOf t.name j) e = true)
    (hinit : Init formats outT e n tix blkOf cellsOf σ)
    (f : Func F) (hgen : generateIr ofRat cap a formats (graph i outT e) .evaluate = .ok f)
    (fuel : Nat) (hfuel : n + 1 ≤ fuel) :
    ∃ o, exec fuel f.body σ = .ok o ∧ o.ret = some (.int 0) ∧ o.iters = n ∧
      (∃ tr, σ.tensors[tix outT.name]? = some tr ∧
        o.st.tensors[tix outT.name]? = some { tr with vals := .ptr σ.heap.length 0 }) ∧
      (∃ blk, o.st.heap[σ.heap.length]? = some blk ∧ blk.live = true ∧ blk.owner = .output ∧
        blk.ty = .float ∧
        blk.cells = (List.range n).map fun j =>
          some (.flt (valueF ofRat (fun t => cellsOf t.name j) e))) ∧
      (∀ b, b < σ.heap.length → o.st.heap[b]? = σ.heap[b]?) ∧
      o.st.heap.length = σ.heap.length + 1 ∧
      (∀ k', k' ≠ tix outT.name → o.st.tensors[k']? = σ.tensors[k']?) := by
  rw [dense1_generateIr_eq ofRat cap a formats i outT e hout ho he hf hidx hrhs] at hgen
  cases hgen
  obtain ⟨o, eo, hret, hit, hp⟩ := kernel_runs ofRat formats i outT e he ok (by omega) hfin hinit fuel hfuel
  exact ⟨o, eo, hret, hit, hp.outRec, hp.blk, hp.heap, hp.heapLen, hp.otherRecs⟩

/-- **T2 after the peephole optimiser** (the pipeline runs `peepS` on the body that `generateIr`
returns). Under the hypotheses of T2 and the float laws `FloatLaws F` (C07), the optimised kernel
either returns `0` in a final state with the same guarantees (`KernelPost`: the output record points
to the fresh block holding exactly the `n` values, inputs untouched), or stops with `intOverflow`
(the alternative that C07's `peephole_stmt_sound` leaves open — finding F8: a float-literal identity
rule may retype a product. C07's retyping-free fragment `NoFloatIdentityS` cannot be used to exclude
it here: the cursor initialisation `0 * i_dim + i` of every kernel of the class is rewritten by the
rule `0 * e → 0`, which that fragment forbids). -/
theorem dense1_kernel_correct_optimised [FloatLaws F] (ofRat : Rat → F) (cap : Option Int)
    (a : Alg.DAssign) (formats : Formats) (i : String) (outT : TensorId) (e : IdExpr)
    (hout : tensorId 0 a.tname formats a.tidx = some outT)
    (ho : isLeaf i outT = true) (he : isExpr i e = true) (hf : denseFormats formats = true)
    (hidx : a.tidx = [i]) (hrhs : rhsIdx i a.rhs = true) (ok : KernelOK formats i outT e)
    (n : Nat) (tix blkOf : String → Nat) (cellsOf : String → Nat → F) (σ : State F)
    (hn : n < 2147483648)
    (hfin : ∀ j, j < n → allFinite ofRat (fun t => cellsOf t.name j) e = true)
    (hinit : Init formats outT e n tix blkOf cellsOf σ)
    (f : Func F) (hgen : generateIr ofRat cap a formats (graph i outT e) .evaluate = .ok f)
    (fuel : Nat) (hfuel : n + 1 ≤ fuel) :
    (∃ o', exec fuel (peepS f.body) σ = .ok o' ∧ o'.ret = some (.int 0) ∧
        KernelPost ofRat e n (tix outT.name) cellsOf σ o'.st) ∨
      exec fuel (peepS f.body) σ = .error .intOverflow := by
  obtain ⟨o, eo, hret, _, h1, h2, h3, h4, h5⟩ :=
    dense1_kernel_correct ofRat cap a formats i outT e hout ho he hf hidx hrhs ok n tix blkOf cellsOf σ hn
      hfin hinit f hgen fuel hfuel
  have hpost : KernelPost ofRat e n (tix outT.name) cellsOf σ o.st := ⟨h1, h5, h2, h3, h4⟩
  rcases peephole_stmt_sound fuel f.body σ o eo with ⟨o', e', hst, hrr, _, _⟩ | hov
  · left
    refine ⟨o', e', ?_, by rw [hst]; exact hpost⟩
    rw [hret] at hrr
    cases hr' : o'.ret with
    | none => rw [hr'] at hrr; exact hrr.elim
    | some v' =>
      rw [hr'] at hrr
      rcases hrr with rfl | ⟨_, _, hflt⟩
      · rfl
      · cases hflt
  · exact Or.inr hov

/-! ### T3 -/

/-- **T3 (exact instance).** Over the exact carrier `Rat` (every value finite, exact arithmetic,
literals through `id`) the float meaning is the mathematical meaning `Graph.value`. -/
theorem dense1_valueF_exact (ρ : String → Rat) (e : IdExpr) :
    valueF (F := Rat) id (fun t => ρ t.id) e = value ρ e :=
  valueF_rat ρ e

/-- **T3 (the kernel computes exactly `Graph.value` at every coordinate).** Under the hypotheses
of T2 over the exact carrier (no finiteness hypothesis is left), if `ρ j` gives, for every tensor
occurrence of `e`, the content of cell `j` of its array, then the generated kernel returns `0` and
leaves in the output tensor exactly the values `Graph.value (ρ j) e`, `j = 0 … n-1`. -/
theorem dense1_kernel_exact (cap : Option Int) (a : Alg.DAssign) (formats : Formats)
    (i : String) (outT : TensorId) (e : IdExpr)
    (hout : tensorId 0 a.tname formats a.tidx = some outT)
    (ho : isLeaf i outT = true) (he : isExpr i e = true) (hf : denseFormats formats = true)
    (hidx : a.tidx = [i]) (hrhs : rhsIdx i a.rhs = true) (ok : KernelOK formats i outT e)
    (n : Nat) (tix blkOf : String → Nat) (cellsOf : String → Nat → Rat) (σ : State Rat)
    (hn : n < 2147483648)
    (hinit : Init formats outT e n tix blkOf cellsOf σ)
    (ρ : Nat → String → Rat) (hρ : ∀ j, j < n → ∀ t ∈ leaves e, ρ j t.id = cellsOf t.name j)
    (f : Func Rat) (hgen : generateIr id cap a formats (graph i outT e) .evaluate = .ok f)
    (fuel : Nat) (hfuel : n + 1 ≤ fuel) :
    ∃ o, exec fuel f.body σ = .ok o ∧ o.ret = some (.int 0) ∧
      (∃ tr, σ.tensors[tix outT.name]? = some tr ∧
        o.st.tensors[tix outT.name]? = some { tr with vals := .ptr σ.heap.length 0 }) ∧
      ∃ blk, o.st.heap[σ.heap.length]? = some blk ∧ blk.live = true ∧
        blk.cells = (List.range n).map fun j => some (.flt (value (ρ j) e)) := by
  obtain ⟨o, eo, hret, _, hrec, ⟨blk, hb, hlive, _, _, hcells⟩, _⟩ :=
    dense1_kernel_correct id cap a formats i outT e hout ho he hf hidx hrhs ok n tix blkOf cellsOf σ hn
      (fun j _ => allFinite_rat _ _ _) hinit f hgen fuel hfuel
  refine ⟨o, eo, hret, hrec, blk, hb, hlive, ?_⟩
  rw [hcells]
  apply List.map_congr_left
  intro j hj
  have hj : j < n := List.mem_range.1 hj
  rw [← valueF_rat (ρ j) e, valueF_congr id _ _ e (fun t ht => (hρ j hj t ht).symm)]

/-- the kernels of the class are outside C07's retyping-free fragment (because of `0 * i_dim`) -/
example : NoFloatIdentityS (kernel (F := Int) (fun q => q.num) [("a", [.dense], [0]), ("b", [.dense], [0])] "i"
    ⟨"0_a", "a", ["i"], [.dense]⟩ (.tensor ⟨"1_b", "b", ["i"], [.dense]⟩)).body = false := by decide

/-! ### non-vacuity: `a(i) = b(i) * c(i) + 2`, `n = 3`, `b = [1, 2, 3]`, `c = [4, 5, 6]` -/

def exFormats : Formats := [("a", [.dense], [0]), ("b", [.dense], [0]), ("c", [.dense], [0])]
def exOut : TensorId := ⟨"0_a", "a", ["i"], [.dense]⟩
def exB : TensorId := ⟨"1_b", "b", ["i"], [.dense]⟩
def exC : TensorId := ⟨"2_c", "c", ["i"], [.dense]⟩
def exE : IdExpr := .add (.mul (.tensor exB) (.tensor exC)) (.int 2)
def exAssign : Alg.DAssign :=
  ⟨"a", ["i"], .add (.mul (.tensor 1 "b" ["i"]) (.tensor 2 "c" ["i"])) (.int 2)⟩
def exTix : String → Nat := fun s => if s = "a" then 0 else if s = "b" then 1 else 2
def exBlkOf : String → Nat := fun s => if s = "b" then 2 else 4
theorem exKernelOK : KernelOK exFormats "i" exOut exE := by
  refine ⟨by decide, ?_, by decide, by decide, ?_⟩
  · intro f hf
    simp only [exFormats, List.mem_cons, List.not_mem_nil, or_false] at hf
    rcases hf with rfl | rfl | rfl <;> decide
  · intro t ht
    simp only [exE, leaves, List.cons_append, List.nil_append, List.append_nil, List.mem_cons,
      List.not_mem_nil, or_false] at ht
    rcases ht with rfl | rfl <;> decide

/-- generic in the carrier: the state the driver builds for `a` (output), `b = [1, 2, 3]`, `c = [4, 5, 6]` -/
def exStateOf {F : Type} (c : Int → F) : State F :=
  { vars := [⟨"a", .ptr .tensor, some (.tensor 0)⟩, ⟨"b", .ptr .tensor, some (.tensor 1)⟩,
             ⟨"c", .ptr .tensor, some (.tensor 2)⟩],
    heap := [⟨.int, [some (.int 3)], .output, true⟩,
             ⟨.int, [some (.int 3)], .input, true⟩,
             ⟨.float, [some (.flt (c 1)), some (.flt (c 2)), some (.flt (c 3))], .input, true⟩,
             ⟨.int, [some (.int 3)], .input, true⟩,
             ⟨.float, [some (.flt (c 4)), some (.flt (c 5)), some (.flt (c 6))], .input, true⟩],
    tensors := [⟨1, 0, [none], .null, .output⟩, ⟨1, 1, [none], .ptr 2 0, .input⟩,
                ⟨1, 3, [none], .ptr 4 0, .input⟩] }
def exCellsOf {F : Type} (c : Int → F) : String → Nat → F :=
  fun s j => if s = "b" then [c 1, c 2, c 3].getD j (c 0) else [c 4, c 5, c 6].getD j (c 0)

theorem exInitOf {F : Type} [FloatOps F] (c : Int → F) :
    Init exFormats exOut exE 3 exTix exBlkOf (exCellsOf c) (exStateOf c) := by
  refine ⟨?_, ?_, ?_, ?_, ?_⟩
  · intro f hf
    simp only [exFormats, List.mem_cons, List.not_mem_nil, or_false] at hf
    rcases hf with rfl | rfl | rfl <;> exact ⟨_, rfl, rfl, rfl⟩
  · intro x hx
    simp only [exFormats, List.map_cons, List.map_nil, List.mem_cons, List.not_mem_nil, or_false,
      not_or] at hx
    obtain ⟨h1, h2, h3⟩ := hx
    have e1 : ("a" == x) = false := beq_eq_false_iff_ne.2 (Ne.symm h1)
    have e2 : ("b" == x) = false := beq_eq_false_iff_ne.2 (Ne.symm h2)
    have e3 : ("c" == x) = false := beq_eq_false_iff_ne.2 (Ne.symm h3)
    simp [lookupVar, exStateOf, List.find?, e1, e2, e3]
  · intro f hf
    simp only [exFormats, List.mem_cons, List.not_mem_nil, or_false] at hf
    rcases hf with rfl | rfl | rfl <;> exact ⟨_, rfl, rfl⟩
  · exact ⟨_, _, rfl, rfl, rfl, rfl, rfl, rfl⟩
  · intro t ht
    simp only [exE, leaves, List.cons_append, List.nil_append, List.append_nil, List.mem_cons,
      List.not_mem_nil, or_false] at ht
    rcases ht with rfl | rfl
    · refine ⟨_, _, rfl, rfl, rfl, rfl, rfl, ?_⟩
      intro j hj
      match j, hj with
      | 0, _ => rfl
      | 1, _ => rfl
      | 2, _ => rfl
    · refine ⟨_, _, rfl, rfl, rfl, rfl, rfl, ?_⟩
      intro j hj
      match j, hj with
      | 0, _ => rfl
      | 1, _ => rfl
      | 2, _ => rfl


/-- the graph of the class is the one the front half chooses for the assignment -/
example : bestAlgorithm exAssign exFormats = .graph (graph "i" exOut exE) := by
  have h : toIterationGraphs exAssign exFormats = .ok [graph "i" exOut exE] := by rfl
  simp only [bestAlgorithm, h]

/-- literals of the instance over `Int`: the numerator (all literals are integers) -/
def exOfRat : Rat → Int := fun q => q.num

/-- **T2 is not vacuous** (over `Int`): every hypothesis holds on the instance, `generateIr`
produces the kernel, and the run returns `0` after 3 iterations and leaves
`[1*4+2, 2*5+2, 3*6+2] = [6, 12, 20]` in the fresh block `5` the output record points to -/
example : ∃ f o, generateIr exOfRat none exAssign exFormats (graph "i" exOut exE) .evaluate = .ok f ∧
    exec 4 f.body (exStateOf (F := Int) id) = .ok o ∧ o.ret = some (.int 0) ∧ o.iters = 3 ∧
    (∃ tr, o.st.tensors[0]? = some tr ∧ tr.vals = .ptr 5 0) ∧
    ∃ blk, o.st.heap[5]? = some blk ∧ blk.live = true ∧
      blk.cells = [some (.flt 6), some (.flt 12), some (.flt 20)] := by
  have hgen := dense1_generateIr_eq exOfRat none exAssign exFormats "i" exOut exE (by decide) (by decide)
    (by decide) (by decide) rfl (by decide)
  obtain ⟨o, eo, hret, hit, ⟨tr, htr, htr'⟩, ⟨blk, hb, hlive, _, _, hcells⟩, _⟩ :=
    dense1_kernel_correct exOfRat none exAssign exFormats "i" exOut exE (by decide) (by decide) (by decide)
      (by decide) rfl (by decide) exKernelOK 3 exTix exBlkOf _ _ (by omega)
      (fun j _ => allFinite_of_total (fun _ => rfl) _ _ _) (exInitOf (F := Int) id) _ hgen 4 (by omega)
  refine ⟨_, o, hgen, eo, hret, hit, ⟨_, htr', rfl⟩, blk, hb, hlive, ?_⟩
  rw [hcells]
  rfl

/-- a state in the middle of the kernel: after the prologue, before the loop -/
def exLoopState : State Int :=
  { vars := [⟨"i_dim", .int, some (.int 3)⟩, ⟨"a_vals", .ptr .float, some (.ptr 0 0)⟩,
             ⟨"b_vals", .ptr .float, some (.ptr 2 0)⟩, ⟨"c_vals", .ptr .float, some (.ptr 4 0)⟩],
    heap := [⟨.float, [none, none, none, some (.flt 7)], .output, true⟩,
             ⟨.int, [some (.int 3)], .input, true⟩,
             ⟨.float, [some (.flt 1), some (.flt 2), some (.flt 3)], .input, true⟩,
             ⟨.int, [some (.int 3)], .input, true⟩,
             ⟨.float, [some (.flt 4), some (.flt 5), some (.flt 6)], .input, true⟩],
    tensors := [] }

/-- T1 is not vacuous: its hypotheses hold in `exLoopState` (`n = 3`, output block `0` of 4 cells),
and the loop leaves `[6, 12, 20]` in the first three cells, the fourth unchanged -/
example : ∃ body o,
    lower exOfRat 16 (graph "i" exOut exE) (.append exOut 0) .evaluate = .ok body ∧
    exec 4 body.finalize exLoopState = .ok o ∧ o.ret = none ∧ o.iters = 3 ∧
    ∃ blk, o.st.heap[0]? = some blk ∧
      blk.cells = [some (.flt 6), some (.flt 12), some (.flt 20), some (.flt 7)] := by
  have hlow := dense1_lower_eq exOfRat 14 "i" exOut exE (by decide) (by decide)
  obtain ⟨o, eo, hret, hit, ⟨blk, blk', hb, hb', _, _, _, hlen, hc1, hc2⟩, _⟩ :=
    dense1_loop_correct exOfRat "i" exOut exE (by decide) (by decide) (by decide) 3 0 exBlkOf (exCellsOf (F := Int) id)
      exLoopState (by omega) ⟨_, rfl, rfl, rfl⟩ ⟨_, _, rfl, rfl, rfl⟩ ⟨_, rfl, rfl, rfl, rfl, by decide⟩
      (by
        intro t ht
        simp only [exE, leaves, List.cons_append, List.nil_append, List.append_nil, List.mem_cons,
          List.not_mem_nil, or_false] at ht
        rcases ht with rfl | rfl
        · refine ⟨⟨_, _, rfl, rfl, rfl⟩, by decide, _, rfl, rfl, rfl, ?_⟩
          intro j hj
          match j, hj with
          | 0, _ => rfl
          | 1, _ => rfl
          | 2, _ => rfl
        · refine ⟨⟨_, _, rfl, rfl, rfl⟩, by decide, _, rfl, rfl, rfl, ?_⟩
          intro j hj
          match j, hj with
          | 0, _ => rfl
          | 1, _ => rfl
          | 2, _ => rfl)
      (by
        intro x hx r hr
        simp only [exE, exOut, exB, exC, leaves, layerPointer, List.map_cons, List.map_nil, List.cons_append,
          List.nil_append, List.mem_cons, List.not_mem_nil, or_false] at hx
        rcases hx with rfl | rfl | rfl | rfl <;> cases hr)
      (fun j _ => allFinite_of_total (fun _ => rfl) _ _ _) 14 _ hlow 4 (by omega)
  refine ⟨_, o, hlow, eo, hret, hit, blk', hb', ?_⟩
  cases hb
  apply List.ext_getElem?
  intro j
  match j with
  | 0 => rw [hc1 0 (by omega)]; rfl
  | 1 => rw [hc1 1 (by omega)]; rfl
  | 2 => rw [hc1 2 (by omega)]; rfl
  | j + 3 => rw [hc2 (j + 3) (by omega)]; rfl


/-- **T3 is not vacuous**: the same instance over the exact carrier `Rat`; the kernel leaves exactly
`Graph.value` of `b(i) * c(i) + 2` at every coordinate -/
example : ∃ f o, generateIr (F := Rat) id none exAssign exFormats (graph "i" exOut exE) .evaluate = .ok f ∧
    exec 4 f.body (exStateOf (fun z => (z : Rat))) = .ok o ∧ o.ret = some (.int 0) ∧
    ∃ blk, o.st.heap[5]? = some blk ∧ blk.live = true ∧
      blk.cells = (List.range 3).map fun j => some (.flt (value
        (fun id => if id = "1_b" then [(1 : Rat), 2, 3].getD j 0 else [(4 : Rat), 5, 6].getD j 0) exE)) := by
  have hgen := dense1_generateIr_eq (F := Rat) id none exAssign exFormats "i" exOut exE (by decide) (by decide)
    (by decide) (by decide) rfl (by decide)
  obtain ⟨o, eo, hret, _, blk, hb, hlive, hcells⟩ :=
    dense1_kernel_exact none exAssign exFormats "i" exOut exE (by decide) (by decide) (by decide)
      (by decide) rfl (by decide) exKernelOK 3 exTix exBlkOf _ _ (by omega) (exInitOf (fun z => (z : Rat)))
      (fun j id => if id = "1_b" then [(1 : Rat), 2, 3].getD j 0 else [(4 : Rat), 5, 6].getD j 0)
      (by
        intro j hj t ht
        simp only [exE, leaves, List.cons_append, List.nil_append, List.append_nil, List.mem_cons,
          List.not_mem_nil, or_false] at ht
        rcases ht with rfl | rfl <;>
        · match j, hj with
          | 0, _ => rfl
          | 1, _ => rfl
          | 2, _ => rfl)
      _ hgen 4 (by omega)
  exact ⟨_, o, hgen, eo, hret, blk, hb, hlive, hcells⟩


end TV.Dense1
