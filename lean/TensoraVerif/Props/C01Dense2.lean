import TensoraVerif.Lemmas.Dense2Exact
import TensoraVerif.Model.FloatLaws
import TensoraVerif.Props.C07

/-!
# C01, end to end, for dense kernels with one contraction (matrix–vector class)

The second class for which "the kernel computes the mathematical meaning of the assignment" is
proved on the machine, for ALL dimensions and ALL states satisfying the stated preconditions:
assignments `out(i) = Σ_j e` where `out` is an order-1 dense tensor indexed by `i` and every tensor
of `e` is dense and of one of the kinds `B(i,j)` (`isM`), `c(j)` (`isJ`), `d(i)` (`isI`). The
required case is the matrix–vector product `a(i) = B(i,j) * c(j)`. The iteration graph is
`Dense2.graph i j outT e = .iter i (some ⟨outT, 0⟩) (.iter j none (.terminal e))` (no `.sum` node:
checked on the closed instance below with `bestAlgorithm`).

Compared with the element-wise class (`Props/C01Dense.lean`) the generated code exercises: nested
loops; the dense position arithmetic `p_<B>_1 = p_<B>_0 * j_dim + j` (`layersToWrite`);
`Output.next none` opening a bucket (`bucket_<out> = out_vals + p_<out>_0 * 1`);
`bucketDeclarations` (the zero-initialisation loop `while (i_bucket < 1) { bucket[i_bucket] = 0; … }`
— it stores the INTEGER literal `0`, which the store converts: the accumulation starts from
`FloatOps.ofInt 0`); and the accumulation `bucket[0] = bucket[0] + <e>`.

* **U1** `dense2_lower_eq` (+ `dense2_generateIr_eq`) — what the pass emits on the class, written out.
* **U2** `dense2_loops_correct` — Hoare theorem for the loop nest, every `n`, `m` with
  `n * m < 2^31` (and `n < 2^31`, needed when `m = 0`): runs with fuel `≥ n + m + 2` in exactly
  `n * (m + 2)` loop iterations (`n` outer, `n * m` inner, `n` bucket-initialisation) and leaves
  `dotF … ii m` — the sum IN LOOP ORDER from `ofInt 0` — in cell `ii` of the output block.
* **U3** `dense2_kernel_correct` — the whole `evaluate` function from an initial state as the driver
  builds it; `dense2_matvec_kernel_correct` — the required case `a(i) = B(i,j) * c(j)`.
* **U4** `dense2_kernel_exact` — over `Rat` the cells are `Σ_j Graph.value`; and
  `dense2_matvec_kernel_denote` — for the matrix–vector product they are `Alg.denote` of the
  assignment (the specification of C01) at `[ii]`.
* `dense2_kernel_correct_optimised` — U3 transferred to the peephole-optimised body (with C07).
* non-vacuity: `n = 2`, `m = 3`, `B = [[1,2,3],[4,5,6]]`, `c = [7,8,9]`: the result is `[50, 122]`
  (U1 written out statement by statement, U2 on a mid-kernel state, U3 over `Int`, U4 over `Rat`
  against `Alg.denote`); and the general theorem on a three-kind expression
  `a(i) = B(i,j) * c(j) * d(i)`: `[100, 366]`.
* `dense2_loops_n_bound_needed` — deviation from the brief's wording of U2: `n * m < 2^31` alone is
  not enough when `m = 0`; with `n = 2^31` every other hypothesis holds and the nest stops with
  `intOverflow`. (When `m ≥ 1`, `n < 2^31` follows from `n * m < 2^31`.)

Vocabulary (Lemmas/Dense2Model.lean, Dense2Spec.lean, Dense2Kernel.lean): `leaves e` the tensor
occurrences; `isM i j t` / `isJ j t` / `isI i t` the three kinds; `isExpr i j e` every leaf is of a
kind; `cellIx i j m ii jj t` the cell a leaf addresses (`ii * m + jj`, `jj`, `ii`); `cellCount` the
number of cells it may address (`n * m`, `m`, `n`); `termF` the terminal expression at `(ii, jj)`;
`dotF … ii k` the running sum; `stepFinite … ii jj` what the machine checks at `(ii, jj)` (every
sub-result of `e`, the accumulator read back, the new running sum are finite); `scratch` the
variables the nest writes (`i`, `j`, the cursors, `bucket_<id>`, `i_bucket_<id>`), `reqTy` their
declared type.
-/
namespace TV.Dense2
open TV.IR TV.Gen TV.Graph TV.Growth
open TV.Dense1 (leaves valueF allFinite ptrDecl ptrName TensorVar ratFloatOps)

variable {F : Type} [FloatOps F]

/-! ### U1: what the pass emits -/

omit [FloatOps F] in
/-- **U1 (the lowered loop nest).** For every graph of the class (`i ≠ j`, the terminal expression
not sparse at `j`, i.e. without a literal `0` factor), `lower` (any fuel `≥ 3`) succeeds and returns
`loopLines ofRat i j outT e`:
```
int i = 0;
while (i < i_dim) {
  int p_<out>_0 = 0 * i_dim + i;  int p_<t>_0 = 0 * i_dim + i; …          // [i,…] leaves
  if (true) { /* Iteration over j */
    { /* Bucket initialization */
      double* bucket_<out> = <out>_vals + p_<out>_0 * 1;  int i_bucket_<out> = 0;
      while (i_bucket_<out> < 1) { bucket_<out>[i_bucket_<out>] = 0; i_bucket_<out> = i_bucket_<out> + 1; } }
    int j = 0;
    while (j < j_dim) {
      int p_<B>_1 = p_<B>_0 * j_dim + j; …  int p_<c>_0 = 0 * j_dim + j; …   // [i,j] and [j] leaves
      if (true) { bucket_<out>[0] = bucket_<out>[0] + <e>; }
      j = j + 1; } }
  i = i + 1; }
``` -/
theorem dense2_lower_eq (ofRat : Rat → F) (k : Nat) (i j : String) (hij : i ≠ j) (outT : TensorId)
    (e : IdExpr) (ho : isI i outT = true) (he : isExpr i j e = true)
    (hsp : (extractContext e j).isSparse = false) :
    lower ofRat (k + 3) (graph i j outT e) (.append outT 0) .evaluate =
      .ok ⟨some ("*** Iteration over " ++ i ++ " ***"), loopLines ofRat i j outT e⟩ :=
  lower_eq ofRat k i j hij outT e ho he hsp

omit [FloatOps F] in
/-- **The generated kernel.** For an assignment whose dimension variables are `i_dim` (dimension 0
of the output) and `j_dim` (dimension `jd` of tensor `jt`), an all-dense format table and the graph
of the class, `generateIr` succeeds and returns exactly `Dense2.kernel`:
`{ int i_dim = out->dimensions[0]; int j_dim = jt->dimensions[jd]; double* t_vals = t->vals; …
int out_vals_capacity = 1 * out->dimensions[0]; out_vals = malloc(…); <loop nest>;
out->vals = out_vals; return 0; }`. -/
theorem dense2_generateIr_eq (ofRat : Rat → F) (cap : Option Int) (a : Alg.DAssign) (formats : Formats)
    (i j : String) (hij : i ≠ j) (jt : String) (jd : Nat) (outT : TensorId) (e : IdExpr)
    (hout : tensorId 0 a.tname formats a.tidx = some outT)
    (ho : isI i outT = true) (he : isExpr i j e = true)
    (hsp : (extractContext e j).isSparse = false) (hf : denseFormats formats = true)
    (hd : indexDimensions a = [(i, a.tname, 0), (j, jt, jd)]) :
    generateIr ofRat cap a formats (graph i j outT e) .evaluate =
      .ok (kernel ofRat formats i j jt jd outT e) :=
  generateIr_eq ofRat cap a formats i j hij jt jd outT e hout (Dense1.tensorId_name hout) ho he hsp hf hd

/-! ### U2 -/

/-- **U2 (the loop nest computes the sums in loop order).** Let `out(i) = Σ_j e` be of the class,
the index names and the tensor names without `'_'`, `i ≠ j`, the output id containing `'_'`, no id
shared between a `[j]`-leaf and an `[i,…]`-leaf (`idsOK`); `n * m < 2^31`, `n < 2^31`; and `σ` a
machine state in which
* `i_dim`, `j_dim` are `int`s holding `n`, `m`;
* `<out>_vals` points to block `ob`, a live, output-owned float block of at least `n` cells;
* for every tensor occurrence `t` of `e`, `<t>_vals` points to a live float block
  `blkOf t.name ≠ ob` whose first `cellCount` cells (`n * m` row-major for `B(i,j)`, `m` for `c(j)`,
  `n` for `d(i)`) are initialised, cell `k` holding the float `cellsOf t.name k`;
* the scratch variables are undeclared or declared with the type the nest declares them with;
* at every `(ii, jj)` what the machine checks is finite (`stepFinite`).

Then whatever `lower` returns for the graph runs on the machine, with any fuel `≥ n + m + 2`,
without error and without returning, in exactly `n * (m + 2)` loop iterations, and in the final state
* cell `ii` of block `ob` holds `dotF ofRat i j m cellsOf e ii m` =
  `((ofInt 0 + t(ii,0)) + t(ii,1)) + … + t(ii,m-1)` for every `ii < n`, the cells `≥ n` are
  unchanged, the block is still live, output-owned, float, of the same length;
* every other block (the inputs in particular), every tensor record, and every variable other than
  the scratch variables is unchanged; the heap has not grown; `i` holds `n`. -/
theorem dense2_loops_correct (ofRat : Rat → F) (i j : String) (outT : TensorId) (e : IdExpr)
    (ho : isI i outT = true) (he : isExpr i j e = true)
    (hsp : (extractContext e j).isSparse = false)
    (hi : '_' ∉ i.toList) (hj : '_' ∉ j.toList) (hij : i ≠ j)
    (hnames : ∀ t ∈ outT :: leaves e, '_' ∉ t.name.toList) (hid : '_' ∈ outT.id.toList)
    (hids : idsOK i j e = true)
    (n m ob : Nat) (blkOf : String → Nat) (cellsOf : String → Nat → F) (σ : State F)
    (hnm : n * m < 2147483648) (hn : n < 2147483648)
    (hdimI : IntVar σ (dimName i) n) (hdimJ : IntVar σ (dimName j) m)
    (hout : PtrVar σ (valsName outT.name) ob)
    (houtBlk : ∃ blk, σ.heap[ob]? = some blk ∧ blk.live = true ∧ blk.owner = .output ∧
      blk.ty = .float ∧ n ≤ blk.cells.length)
    (hins : ∀ t ∈ leaves e, PtrVar σ (valsName t.name) (blkOf t.name) ∧ blkOf t.name ≠ ob ∧
      ∃ blk, σ.heap[blkOf t.name]? = some blk ∧ blk.live = true ∧ blk.ty = .float ∧
        ∀ k, k < cellCount i j n m t → blk.cells[k]? = some (some (.flt (cellsOf t.name k))))
    (hscratch : ∀ x ∈ scratch i j outT e, ∀ r, lookupVar σ.vars x = some r → r.ty = reqTy outT x)
    (hfin : ∀ ii, ii < n → ∀ jj, jj < m → stepFinite ofRat i j m cellsOf e ii jj = true)
    (k : Nat) (body : SB F)
    (hlow : lower ofRat (k + 3) (graph i j outT e) (.append outT 0) .evaluate = .ok body)
    (fuel : Nat) (hfuel : n + m + 2 ≤ fuel) :
    ∃ o, exec fuel body.finalize σ = .ok o ∧ o.ret = none ∧ o.iters = n * (m + 2) ∧
      (∃ blk blk', σ.heap[ob]? = some blk ∧ o.st.heap[ob]? = some blk' ∧
        blk'.live = true ∧ blk'.owner = .output ∧ blk'.ty = .float ∧
        blk'.cells.length = blk.cells.length ∧
        (∀ ii, ii < n →
          blk'.cells[ii]? = some (some (.flt (dotF ofRat i j m cellsOf e ii m)))) ∧
        (∀ k, n ≤ k → blk'.cells[k]? = blk.cells[k]?)) ∧
      (∀ b, b ≠ ob → o.st.heap[b]? = σ.heap[b]?) ∧
      o.st.heap.length = σ.heap.length ∧
      o.st.tensors = σ.tensors ∧
      (∀ y, y ∉ scratch i j outT e → lookupVar o.st.vars y = lookupVar σ.vars y) ∧
      IntVar o.st i n := by
  rw [lower_eq ofRat k i j hij outT e ho he hsp] at hlow
  cases hlow
  obtain ⟨blk, hb, hlive, hown, hty, hlen⟩ := houtBlk
  have hout0 : OutIs σ ob blk.cells := by
    unfold OutIs; rw [hb]
    cases blk with
    | mk ty cells owner live =>
      simp only at hlive hown hty ⊢
      subst hlive hown hty; rfl
  obtain ⟨σ', ⟨o, eo, hret, hst, hit⟩, hp⟩ := loopLines_runs ofRat
    (names_of_index i j outT e hi hj hij hnames hid hids) he (n := n) (m := m) (ob := ob)
    (blkOf := blkOf) (cellsOf := cellsOf) (by omega) (by omega) hfin σ fuel blk.cells
    ⟨hdimI, hdimJ, hout, hins, hscratch⟩ hout0 hlen hfuel
  subst hst
  refine ⟨o, ?_, hret, hit, ?_, hp.frame.heap, hp.frame.heapLen, hp.frame.tensors, hp.frame.vars, hp.idx⟩
  · show exec fuel (.block _ _) σ = _
    rw [exec.eq_5]; exact eo
  · obtain ⟨cells', h1, h2, h3, h4⟩ := hp.out
    exact ⟨blk, _, hb, h1, rfl, rfl, rfl, h2, fun ii hii => h3 ii (by omega) hii,
      fun k hk => h4 k (Or.inr hk)⟩

/-! ### U3 -/

/-- **U3 (the generated `evaluate` kernel computes the sums).** Let the assignment `a` have the
dimension variables `i_dim` (dimension 0 of the output) and `j_dim` (dimension `jd` of `jt`),
`formats` an all-dense format table, `outT` the output tensor as `generateIr` computes it, `e` a
terminal expression of the class, with the side conditions `KernelOK`. Let `σ` be an initial machine
state as the driver builds it (`Init`): the variables are exactly the tensor parameters; the output
record is output-owned and its `dimensions` block holds `n` at 0; the `dimensions` block of `jt`
holds `m` at `jd`; the record of every tensor `t` of `e` has `vals` pointing to a live float block
whose first `cellCount` cells are initialised with `cellsOf t`; `n, m, n * m < 2^31`; and every
machine check is finite.

Then the function `f` that `generateIr` produces for the graph of the class runs on the machine with
any fuel `≥ n + m + 2` without error, **returns `0`** after exactly `n * (m + 2)` loop iterations,
and in the final state the output record's `vals` points to block `σ.heap.length` — a fresh, live,
output-owned float block whose cells are **exactly** `dotF ofRat i j m cellsOf e ii m` for
`ii = 0 … n-1`; every block of the initial heap (all inputs) and every other record is unchanged. -/
theorem dense2_kernel_correct (ofRat : Rat → F) (cap : Option Int) (a : Alg.DAssign) (formats : Formats)
    (i j jt : String) (jd : Nat) (outT : TensorId) (e : IdExpr)
    (hout : tensorId 0 a.tname formats a.tidx = some outT)
    (ho : isI i outT = true) (he : isExpr i j e = true)
    (hsp : (extractContext e j).isSparse = false) (hf : denseFormats formats = true)
    (hd : indexDimensions a = [(i, a.tname, 0), (j, jt, jd)])
    (ok : KernelOK formats i j jt outT e)
    (n m : Nat) (tix blkOf : String → Nat) (cellsOf : String → Nat → F) (σ : State F)
    (hnm : n * m < 2147483648) (hn : n < 2147483648) (hm : m < 2147483648) (hjd : jd < 2147483648)
    (hfin : ∀ ii, ii < n → ∀ jj, jj < m → stepFinite ofRat i j m cellsOf e ii jj = true)
    (hinit : Init formats i j jt jd outT e n m tix blkOf cellsOf σ)
    (f : Func F) (hgen : generateIr ofRat cap a formats (graph i j outT e) .evaluate = .ok f)
    (fuel : Nat) (hfuel : n + m + 2 ≤ fuel) :
    ∃ o, exec fuel f.body σ = .ok o ∧ o.ret = some (.int 0) ∧ o.iters = n * (m + 2) ∧
      (∃ tr, σ.tensors[tix outT.name]? = some tr ∧
        o.st.tensors[tix outT.name]? = some { tr with vals := .ptr σ.heap.length 0 }) ∧
      (∃ blk, o.st.heap[σ.heap.length]? = some blk ∧ blk.live = true ∧ blk.owner = .output ∧
        blk.ty = .float ∧
        blk.cells = (List.range n).map fun ii => some (.flt (dotF ofRat i j m cellsOf e ii m))) ∧
      (∀ b, b < σ.heap.length → o.st.heap[b]? = σ.heap[b]?) ∧
      o.st.heap.length = σ.heap.length + 1 ∧
      (∀ k', k' ≠ tix outT.name → o.st.tensors[k']? = σ.tensors[k']?) := by
  rw [dense2_generateIr_eq ofRat cap a formats i j ok.ij jt jd outT e hout ho he hsp hf hd] at hgen
  cases hgen
  obtain ⟨o, eo, hret, hit, hp⟩ := kernel_runs ofRat formats i j jt jd outT e he ok
    (by omega) (by omega) (by omega) (by omega) hfin hinit fuel hfuel
  exact ⟨o, eo, hret, hit, hp.outRec, hp.blk, hp.heap, hp.heapLen, hp.otherRecs⟩

/-- **U3 after the peephole optimiser** (the pipeline runs `peepS` on the body that `generateIr`
returns). Under the hypotheses of U3 and the float laws `FloatLaws F` (C07), the optimised kernel
either returns `0` in a final state with the same guarantees (`KernelPost`: the output record points
to the fresh block holding exactly the `n` sums, inputs untouched), or stops with `intOverflow` (the
alternative that C07's `peephole_stmt_sound` leaves open — finding F8; the cursor initialisations
`0 * i_dim + i`, `0 * j_dim + j` and `p * 1` of every kernel of the class are rewritten by the
optimiser, so C07's retyping-free fragment does not apply). -/
theorem dense2_kernel_correct_optimised [FloatLaws F] (ofRat : Rat → F) (cap : Option Int)
    (a : Alg.DAssign) (formats : Formats)
    (i j jt : String) (jd : Nat) (outT : TensorId) (e : IdExpr)
    (hout : tensorId 0 a.tname formats a.tidx = some outT)
    (ho : isI i outT = true) (he : isExpr i j e = true)
    (hsp : (extractContext e j).isSparse = false) (hf : denseFormats formats = true)
    (hd : indexDimensions a = [(i, a.tname, 0), (j, jt, jd)])
    (ok : KernelOK formats i j jt outT e)
    (n m : Nat) (tix blkOf : String → Nat) (cellsOf : String → Nat → F) (σ : State F)
    (hnm : n * m < 2147483648) (hn : n < 2147483648) (hm : m < 2147483648) (hjd : jd < 2147483648)
    (hfin : ∀ ii, ii < n → ∀ jj, jj < m → stepFinite ofRat i j m cellsOf e ii jj = true)
    (hinit : Init formats i j jt jd outT e n m tix blkOf cellsOf σ)
    (f : Func F) (hgen : generateIr ofRat cap a formats (graph i j outT e) .evaluate = .ok f)
    (fuel : Nat) (hfuel : n + m + 2 ≤ fuel) :
    (∃ o', exec fuel (peepS f.body) σ = .ok o' ∧ o'.ret = some (.int 0) ∧
        KernelPost ofRat i j e n m (tix outT.name) cellsOf σ o'.st) ∨
      exec fuel (peepS f.body) σ = .error .intOverflow := by
  obtain ⟨o, eo, hret, _, h1, h2, h3, h4, h5⟩ :=
    dense2_kernel_correct ofRat cap a formats i j jt jd outT e hout ho he hsp hf hd ok n m tix blkOf
      cellsOf σ hnm hn hm hjd hfin hinit f hgen fuel hfuel
  have hpost : KernelPost ofRat i j e n m (tix outT.name) cellsOf σ o.st := ⟨h1, h5, h2, h3, h4⟩
  rcases peephole_stmt_sound fuel f.body σ o eo with ⟨o', e', hst, hrr, _, _⟩ | hov
  · left
    refine ⟨o', e', ?_, by rw [hst]; exact hpost⟩
    rw [hret] at hrr
    cases hr' : o'.ret with
    | none => rw [hr'] at hrr; exact hrr.elim
    | some v' =>
      rw [hr'] at hrr
      rcases hrr with rfl | ⟨_, _, hflt⟩
      · rfl
      · cases hflt
  · exact Or.inr hov

/-- **U3, the required case: `a(i) = B(i,j) * c(j)`**, all formats dense, identity orderings. For
the desugared assignment `⟨an, [i], contract j (B(i,j) * c(j))⟩`, `tB`, `tC` the two tensor
occurrences (`[i,j]`-dense and `[j]`-dense, with different ids): the kernel `generateIr` produces
runs, returns `0`, and leaves in the fresh output block, for every `ii < n`,
`((ofInt 0 + B[ii*m+0] * c[0]) + B[ii*m+1] * c[1]) + … ` (`dotF`). -/
theorem dense2_matvec_kernel_correct (ofRat : Rat → F) (cap : Option Int) (an Bn cn : String)
    (k1 k2 : Nat) (formats : Formats) (i j : String) (outT tB tC : TensorId)
    (hout : tensorId 0 an formats [i] = some outT)
    (ho : isI i outT = true) (hB : isM i j tB = true) (hC : isJ j tC = true)
    (hf : denseFormats formats = true) (ok : KernelOK formats i j Bn outT (matvecE tB tC))
    (n m : Nat) (tix blkOf : String → Nat) (cellsOf : String → Nat → F) (σ : State F)
    (hnm : n * m < 2147483648) (hn : n < 2147483648) (hm : m < 2147483648)
    (hfin : ∀ ii, ii < n → ∀ jj, jj < m →
      stepFinite ofRat i j m cellsOf (matvecE tB tC) ii jj = true)
    (hinit : Init formats i j Bn 1 outT (matvecE tB tC) n m tix blkOf cellsOf σ)
    (f : Func F)
    (hgen : generateIr ofRat cap
      ⟨an, [i], .contract j (.mul (.tensor k1 Bn [i, j]) (.tensor k2 cn [j]))⟩ formats
      (graph i j outT (matvecE tB tC)) .evaluate = .ok f)
    (fuel : Nat) (hfuel : n + m + 2 ≤ fuel) :
    ∃ o, exec fuel f.body σ = .ok o ∧ o.ret = some (.int 0) ∧ o.iters = n * (m + 2) ∧
      (∃ tr, σ.tensors[tix outT.name]? = some tr ∧
        o.st.tensors[tix outT.name]? = some { tr with vals := .ptr σ.heap.length 0 }) ∧
      (∃ blk, o.st.heap[σ.heap.length]? = some blk ∧ blk.live = true ∧ blk.owner = .output ∧
        blk.ty = .float ∧
        blk.cells = (List.range n).map fun ii =>
          some (.flt (dotF ofRat i j m cellsOf (matvecE tB tC) ii m))) ∧
      (∀ b, b < σ.heap.length → o.st.heap[b]? = σ.heap[b]?) ∧
      o.st.heap.length = σ.heap.length + 1 ∧
      (∀ k', k' ≠ tix outT.name → o.st.tensors[k']? = σ.tensors[k']?) :=
  dense2_kernel_correct ofRat cap _ formats i j Bn 1 outT (matvecE tB tC) hout ho
    (matvec_isExpr i j tB tC hB hC) (matvec_notSparse i j ok.ij tB tC hB hC) hf
    (indexDimensions_matvec an Bn cn i j ok.ij k1 k2) ok n m tix blkOf cellsOf σ hnm hn hm (by omega)
    hfin hinit f hgen fuel hfuel

/-- the running sums of the matrix–vector product, unfolded: `dotF` starts from `ofInt 0` and adds
`B[ii * m + k] * c[k]` at step `k` -/
theorem dense2_matvec_dotF (ofRat : Rat → F) (i j : String) (tB tC : TensorId)
    (hB : isM i j tB = true) (hC : isJ j tC = true) (m : Nat) (cellsOf : String → Nat → F)
    (ii k : Nat) :
    dotF ofRat i j m cellsOf (matvecE tB tC) ii 0 = FloatOps.ofInt 0 ∧
    dotF ofRat i j m cellsOf (matvecE tB tC) ii (k + 1) =
      FloatOps.add (dotF ofRat i j m cellsOf (matvecE tB tC) ii k)
        (FloatOps.mul (cellsOf tB.name (ii * m + k)) (cellsOf tC.name k)) := by
  have hCM : isM i j tC = false := by
    have h := (isJ_iff j tC).1 hC
    simp [isM, h.1]
  refine ⟨rfl, ?_⟩
  simp [dotF, termF, matvecE, valueF, rhoAt, cellIx, hB, hC, hCM]

/-! ### U4 -/

/-- **U4 (exact instance).** Under the hypotheses of U3 over the exact carrier `Rat` (every value
finite, exact arithmetic, literals through `id`; no finiteness hypothesis is left), if `ρ ii jj`
gives, for every tensor occurrence of `e`, the content of the cell it addresses at `(ii, jj)`, then
the generated kernel returns `0` and leaves in the output tensor exactly
`Σ_{jj < m} Graph.value (ρ ii jj) e` (`Alg.sumRange`), `ii = 0 … n-1`. -/
theorem dense2_kernel_exact (cap : Option Int) (a : Alg.DAssign) (formats : Formats)
    (i j jt : String) (jd : Nat) (outT : TensorId) (e : IdExpr)
    (hout : tensorId 0 a.tname formats a.tidx = some outT)
    (ho : isI i outT = true) (he : isExpr i j e = true)
    (hsp : (extractContext e j).isSparse = false) (hf : denseFormats formats = true)
    (hd : indexDimensions a = [(i, a.tname, 0), (j, jt, jd)])
    (ok : KernelOK formats i j jt outT e)
    (n m : Nat) (tix blkOf : String → Nat) (cellsOf : String → Nat → Rat) (σ : State Rat)
    (hnm : n * m < 2147483648) (hn : n < 2147483648) (hm : m < 2147483648) (hjd : jd < 2147483648)
    (hinit : Init formats i j jt jd outT e n m tix blkOf cellsOf σ)
    (ρ : Nat → Nat → String → Rat)
    (hρ : ∀ ii, ii < n → ∀ jj, jj < m → ∀ t ∈ leaves e,
      ρ ii jj t.id = cellsOf t.name (cellIx i j m ii jj t))
    (f : Func Rat) (hgen : generateIr id cap a formats (graph i j outT e) .evaluate = .ok f)
    (fuel : Nat) (hfuel : n + m + 2 ≤ fuel) :
    ∃ o, exec fuel f.body σ = .ok o ∧ o.ret = some (.int 0) ∧
      (∃ tr, σ.tensors[tix outT.name]? = some tr ∧
        o.st.tensors[tix outT.name]? = some { tr with vals := .ptr σ.heap.length 0 }) ∧
      ∃ blk, o.st.heap[σ.heap.length]? = some blk ∧ blk.live = true ∧
        blk.cells = (List.range n).map fun ii =>
          some (.flt (Alg.sumRange m fun jj => value (ρ ii jj) e)) := by
  obtain ⟨o, eo, hret, _, hrec, ⟨blk, hb, hlive, _, _, hcells⟩, _⟩ :=
    dense2_kernel_correct id cap a formats i j jt jd outT e hout ho he hsp hf hd ok n m tix blkOf cellsOf σ
      hnm hn hm hjd (fun ii _ jj _ => stepFinite_rat _ _ _ _ _ _ _ _) hinit f hgen fuel hfuel
  refine ⟨o, eo, hret, hrec, blk, hb, hlive, ?_⟩
  rw [hcells]
  apply List.map_congr_left
  intro ii hii
  have hii : ii < n := List.mem_range.1 hii
  rw [dotF_rat]
  congr 2
  exact sumRange_congr m _ _ (fun jj hjj => termF_rat i j m cellsOf e ii jj (ρ ii jj) (hρ ii hii jj hjj))

/-- **U4, the required case, against the specification `Alg.denote`.** For the SOURCE assignment
`a(i) = B(i,j) * c(j)` (`Alg.Assign`, before desugaring; `Alg.desugar` of it is the assignment the
kernel is generated from — `desugar_matvec`), inputs `inputs B [ii, jj] = B_vals[ii * m + jj]`,
`inputs c [jj] = c_vals[jj]` and `sizes j = m`: over `Rat` the kernel returns `0` and cell `ii` of the
output is exactly `Alg.denote (a(i) = B(i,j) * c(j)) inputs sizes [ii]` — the sentence of C01. -/
theorem dense2_matvec_kernel_denote (cap : Option Int) (an Bn cn : String)
    (formats : Formats) (i j : String) (outT tB tC : TensorId)
    (hout : tensorId 0 an formats [i] = some outT)
    (ho : isI i outT = true) (hB : isM i j tB = true) (hC : isJ j tC = true)
    (hBn : tB.name = Bn) (hCn : tC.name = cn)
    (hf : denseFormats formats = true) (ok : KernelOK formats i j Bn outT (matvecE tB tC))
    (n m : Nat) (tix blkOf : String → Nat) (cellsOf : String → Nat → Rat) (σ : State Rat)
    (hnm : n * m < 2147483648) (hn : n < 2147483648) (hm : m < 2147483648)
    (hinit : Init formats i j Bn 1 outT (matvecE tB tC) n m tix blkOf cellsOf σ)
    (inputs : Alg.Inputs) (sizes : Alg.Sizes) (hsz : sizes j = m)
    (hinB : ∀ ii, ii < n → ∀ jj, jj < m → inputs Bn [ii, jj] = cellsOf Bn (ii * m + jj))
    (hinC : ∀ jj, jj < m → inputs cn [jj] = cellsOf cn jj)
    (f : Func Rat)
    (hgen : generateIr id cap (Alg.desugar ⟨an, [i], .mul (.tensor Bn [i, j]) (.tensor cn [j])⟩)
      formats (graph i j outT (matvecE tB tC)) .evaluate = .ok f)
    (fuel : Nat) (hfuel : n + m + 2 ≤ fuel) :
    ∃ o, exec fuel f.body σ = .ok o ∧ o.ret = some (.int 0) ∧
      (∃ tr, σ.tensors[tix outT.name]? = some tr ∧
        o.st.tensors[tix outT.name]? = some { tr with vals := .ptr σ.heap.length 0 }) ∧
      ∃ blk, o.st.heap[σ.heap.length]? = some blk ∧ blk.live = true ∧
        blk.cells = (List.range n).map fun ii =>
          some (.flt (Alg.denote ⟨an, [i], .mul (.tensor Bn [i, j]) (.tensor cn [j])⟩
            inputs sizes [ii])) := by
  rw [desugar_matvec an Bn cn i j ok.ij] at hgen
  obtain ⟨o, eo, hret, _, hrec, ⟨blk, hb, hlive, _, _, hcells⟩, _⟩ :=
    dense2_matvec_kernel_correct id cap an Bn cn 1 2 formats i j outT tB tC hout ho hB hC hf ok n m tix
      blkOf cellsOf σ hnm hn hm (fun ii _ jj _ => stepFinite_rat _ _ _ _ _ _ _ _) hinit f hgen fuel hfuel
  refine ⟨o, eo, hret, hrec, blk, hb, hlive, ?_⟩
  rw [hcells]
  apply List.map_congr_left
  intro ii hii
  have hii : ii < n := List.mem_range.1 hii
  rw [dotF_rat, denote_matvec inputs sizes an Bn cn i j ok.ij ii, hsz]
  congr 2
  refine sumRange_congr m _ _ (fun jj hjj => ?_)
  have hCM : isM i j tC = false := by
    have h := (isJ_iff j tC).1 hC
    simp [isM, h.1]
  rw [hinB ii hii jj hjj, hinC jj hjj, ← hBn, ← hCn]
  simp [termF, matvecE, valueF, rhoAt, cellIx, hB, hC, hCM]
  rfl

/-! ### non-vacuity: `a(i) = B(i,j) * c(j)`, `n = 2`, `m = 3`, `B = [[1,2,3],[4,5,6]]`, `c = [7,8,9]` -/

def exFormats : Formats :=
  [("a", [.dense], [0]), ("B", [.dense, .dense], [0, 1]), ("c", [.dense], [0])]
def exOut : TensorId := ⟨"0_a", "a", ["i"], [.dense]⟩
def exB : TensorId := ⟨"1_B", "B", ["i", "j"], [.dense, .dense]⟩
def exC : TensorId := ⟨"2_c", "c", ["j"], [.dense]⟩
def exE : IdExpr := matvecE exB exC
/-- the source assignment `a(i) = B(i,j) * c(j)` -/
def exSource : Alg.Assign := ⟨"a", ["i"], .mul (.tensor "B" ["i", "j"]) (.tensor "c" ["j"])⟩
def exAssign : Alg.DAssign := Alg.desugar exSource
def exTix : String → Nat := fun s => if s = "a" then 0 else if s = "B" then 1 else 2
def exBlkOf : String → Nat := fun s => if s = "B" then 2 else 4

/-- the graph of the class is the one the front half chooses for the assignment (no `.sum` node) -/
example : bestAlgorithm exAssign exFormats = .graph (graph "i" "j" exOut exE) := by
  rfl

theorem exKernelOK : KernelOK exFormats "i" "j" "B" exOut exE := by
  refine ⟨by decide, by decide, by decide, ?_, by decide, by decide, by decide, by decide, by decide,
    ?_, by decide⟩
  · intro f hf
    simp only [exFormats, List.mem_cons, List.not_mem_nil, or_false] at hf
    rcases hf with rfl | rfl | rfl <;> decide
  · intro t ht
    simp only [exE, matvecE, leaves, List.cons_append, List.nil_append, List.mem_cons,
      List.not_mem_nil, or_false] at ht
    rcases ht with rfl | rfl <;> decide


/-- generic in the carrier: the state the driver builds for `a` (output, dimension 2),
`B = [[1,2,3],[4,5,6]]` (dimensions 2 × 3, row-major), `c = [7,8,9]` -/
def exStateOf {F : Type} (c : Int → F) : State F :=
  { vars := [⟨"a", .ptr .tensor, some (.tensor 0)⟩, ⟨"B", .ptr .tensor, some (.tensor 1)⟩,
             ⟨"c", .ptr .tensor, some (.tensor 2)⟩],
    heap := [⟨.int, [some (.int 2)], .output, true⟩,
             ⟨.int, [some (.int 2), some (.int 3)], .input, true⟩,
             ⟨.float, [some (.flt (c 1)), some (.flt (c 2)), some (.flt (c 3)),
                       some (.flt (c 4)), some (.flt (c 5)), some (.flt (c 6))], .input, true⟩,
             ⟨.int, [some (.int 3)], .input, true⟩,
             ⟨.float, [some (.flt (c 7)), some (.flt (c 8)), some (.flt (c 9))], .input, true⟩],
    tensors := [⟨1, 0, [none], .null, .output⟩, ⟨2, 1, [none, none], .ptr 2 0, .input⟩,
                ⟨1, 3, [none], .ptr 4 0, .input⟩] }
def exCellsOf {F : Type} (c : Int → F) : String → Nat → F :=
  fun s k => if s = "B" then [c 1, c 2, c 3, c 4, c 5, c 6].getD k (c 0)
    else [c 7, c 8, c 9].getD k (c 0)

theorem exInitOf {F : Type} [FloatOps F] (c : Int → F) :
    Init exFormats "i" "j" "B" 1 exOut exE 2 3 exTix exBlkOf (exCellsOf c) (exStateOf c) := by
  refine ⟨?_, ?_, ?_, ?_, ?_, ?_⟩
  · intro f hf
    simp only [exFormats, List.mem_cons, List.not_mem_nil, or_false] at hf
    rcases hf with rfl | rfl | rfl <;> exact ⟨_, rfl, rfl, rfl⟩
  · intro x hx
    simp only [exFormats, List.map_cons, List.map_nil, List.mem_cons, List.not_mem_nil, or_false,
      not_or] at hx
    obtain ⟨h1, h2, h3⟩ := hx
    have e1 : ("a" == x) = false := beq_eq_false_iff_ne.2 (Ne.symm h1)
    have e2 : ("B" == x) = false := beq_eq_false_iff_ne.2 (Ne.symm h2)
    have e3 : ("c" == x) = false := beq_eq_false_iff_ne.2 (Ne.symm h3)
    simp [lookupVar, exStateOf, List.find?, e1, e2, e3]
  · intro f hf
    simp only [exFormats, List.mem_cons, List.not_mem_nil, or_false] at hf
    rcases hf with rfl | rfl | rfl <;> exact ⟨_, rfl, rfl⟩
  · exact ⟨_, _, rfl, rfl, rfl, rfl, rfl, rfl⟩
  · exact ⟨_, _, rfl, rfl, rfl, rfl, rfl⟩
  · intro t ht
    simp only [exE, matvecE, leaves, List.cons_append, List.nil_append, List.mem_cons,
      List.not_mem_nil, or_false] at ht
    rcases ht with rfl | rfl
    · refine ⟨_, _, rfl, rfl, rfl, rfl, rfl, ?_⟩
      intro k hk
      have h6 : cellCount "i" "j" 2 3 exB = 6 := by decide
      rw [h6] at hk
      match k, hk with
      | 0, _ => rfl
      | 1, _ => rfl
      | 2, _ => rfl
      | 3, _ => rfl
      | 4, _ => rfl
      | 5, _ => rfl
    · refine ⟨_, _, rfl, rfl, rfl, rfl, rfl, ?_⟩
      intro k hk
      have h3 : cellCount "i" "j" 2 3 exC = 3 := by decide
      rw [h3] at hk
      match k, hk with
      | 0, _ => rfl
      | 1, _ => rfl
      | 2, _ => rfl

/-- literals of the instance over `Int`: the numerator -/
def exOfRat : Rat → Int := fun q => q.num

/-- the desugared assignment of the instance -/
theorem exAssign_eq : exAssign =
    ⟨"a", ["i"], .contract "j" (.mul (.tensor 1 "B" ["i", "j"]) (.tensor 2 "c" ["j"]))⟩ :=
  desugar_matvec "a" "B" "c" "i" "j" (by decide)

/-- **U3 is not vacuous** (over `Int`): every hypothesis holds on the instance, `generateIr` produces
the kernel, and the run returns `0` after `2 * (3 + 2) = 10` loop iterations and leaves
`[1*7 + 2*8 + 3*9, 4*7 + 5*8 + 6*9] = [50, 122]` in the fresh block `5` the output record points to -/
example : ∃ f o, generateIr exOfRat none exAssign exFormats (graph "i" "j" exOut exE) .evaluate = .ok f ∧
    exec 7 f.body (exStateOf (F := Int) id) = .ok o ∧ o.ret = some (.int 0) ∧ o.iters = 10 ∧
    (∃ tr, o.st.tensors[0]? = some tr ∧ tr.vals = .ptr 5 0) ∧
    ∃ blk, o.st.heap[5]? = some blk ∧ blk.live = true ∧
      blk.cells = [some (.flt 50), some (.flt 122)] := by
  have hgen : generateIr exOfRat none exAssign exFormats (graph "i" "j" exOut exE) .evaluate =
      .ok (kernel exOfRat exFormats "i" "j" "B" 1 exOut exE) := by
    rw [exAssign_eq]
    exact dense2_generateIr_eq exOfRat none _ exFormats "i" "j" (by decide) "B" 1 exOut exE (by decide)
      (by decide) (by decide) (by decide) (by decide)
      (indexDimensions_matvec "a" "B" "c" "i" "j" (by decide) 1 2)
  have hgen' := hgen
  rw [exAssign_eq] at hgen'
  obtain ⟨o, eo, hret, hit, ⟨tr, htr, htr'⟩, ⟨blk, hb, hlive, _, _, hcells⟩, _⟩ :=
    dense2_matvec_kernel_correct exOfRat none "a" "B" "c" 1 2 exFormats "i" "j" exOut exB exC (by decide)
      (by decide) (by decide) (by decide) (by decide) exKernelOK 2 3 exTix exBlkOf _ _ (by omega)
      (by omega) (by omega) (fun ii _ jj _ => stepFinite_of_total (fun _ => rfl) _ _ _ _ _ _ _ _)
      (exInitOf (F := Int) id) _ hgen' 7 (by omega)
  refine ⟨_, o, hgen, eo, hret, hit, ⟨_, htr', rfl⟩, blk, hb, hlive, ?_⟩
  rw [hcells]
  rfl


/-- **U1 on the instance, fully written out**: the statements `lower` emits for
`a(i) = B(i,j) * c(j)` -/
example : lower exOfRat 20 (graph "i" "j" exOut exE) (.append exOut 0) .evaluate =
    .ok ⟨some "*** Iteration over i ***",
      [.declAssign "i" .int (.intLit 0),
       .loop (.bin .lt (.var "i") (.var "i_dim")) (.block
         [.declAssign "p_0_a_0" .int (.bin .add (.bin .mul (.intLit 0) (.var "i_dim")) (.var "i")),
          .declAssign "p_1_B_0" .int (.bin .add (.bin .mul (.intLit 0) (.var "i_dim")) (.var "i")),
          .branch (.boolLit true) (.block [.block
            [.block
              [.declAssign "bucket_0_a" (.ptr .float)
                 (.bin .add (.var "a_vals") (.bin .mul (.var "p_0_a_0") (.intLit 1))),
               .declAssign "i_bucket_0_a" .int (.intLit 0),
               .loop (.bin .lt (.var "i_bucket_0_a") (.intLit 1)) (.block
                 [.assign (.idx (.var "bucket_0_a") (.var "i_bucket_0_a")) (.intLit 0),
                  .assign (.var "i_bucket_0_a") (.bin .add (.var "i_bucket_0_a") (.intLit 1))] none)]
              (some "Bucket initialization"),
             .declAssign "j" .int (.intLit 0),
             .loop (.bin .lt (.var "j") (.var "j_dim")) (.block
               [.declAssign "p_1_B_1" .int (.bin .add (.bin .mul (.var "p_1_B_0") (.var "j_dim")) (.var "j")),
                .declAssign "p_2_c_0" .int (.bin .add (.bin .mul (.intLit 0) (.var "j_dim")) (.var "j")),
                .branch (.boolLit true) (.block [.block
                  [.assign (.idx (.var "bucket_0_a") (.intLit 0))
                     (.bin .add (.idx (.var "bucket_0_a") (.intLit 0))
                       (.bin .mul (.idx (.var "B_vals") (.var "p_1_B_1"))
                         (.idx (.var "c_vals") (.var "p_2_c_0"))))]
                  (some "*** Computation of expression ***")] none) (.block [] none),
                .assign (.var "j") (.bin .add (.var "j") (.intLit 1))] none)]
            (some "*** Iteration over j ***")] none) (.block [] none),
          .assign (.var "i") (.bin .add (.var "i") (.intLit 1))] none)]⟩ := by
  rw [dense2_lower_eq exOfRat 17 "i" "j" (by decide) exOut exE (by decide) (by decide) (by decide)]
  rfl

/-- a state in the middle of the kernel: after the prologue, before the loop nest; the output block
`0` has a third cell that the nest must not touch -/
def exLoopState : State Int :=
  { vars := [⟨"i_dim", .int, some (.int 2)⟩, ⟨"j_dim", .int, some (.int 3)⟩,
             ⟨"a_vals", .ptr .float, some (.ptr 0 0)⟩,
             ⟨"B_vals", .ptr .float, some (.ptr 2 0)⟩, ⟨"c_vals", .ptr .float, some (.ptr 4 0)⟩],
    heap := [⟨.float, [none, none, some (.flt 77)], .output, true⟩,
             ⟨.int, [some (.int 2), some (.int 3)], .input, true⟩,
             ⟨.float, [some (.flt 1), some (.flt 2), some (.flt 3),
                       some (.flt 4), some (.flt 5), some (.flt 6)], .input, true⟩,
             ⟨.int, [some (.int 3)], .input, true⟩,
             ⟨.float, [some (.flt 7), some (.flt 8), some (.flt 9)], .input, true⟩],
    tensors := [] }

/-- **U2 is not vacuous**: its hypotheses hold in `exLoopState` (`n = 2`, `m = 3`, output block `0`
of 3 cells), and the loop nest leaves `[50, 122]` in the first two cells, the third unchanged, after
`2 * (3 + 2) = 10` loop iterations -/
example : ∃ body o,
    lower exOfRat 20 (graph "i" "j" exOut exE) (.append exOut 0) .evaluate = .ok body ∧
    exec 7 body.finalize exLoopState = .ok o ∧ o.ret = none ∧ o.iters = 10 ∧
    ∃ blk, o.st.heap[0]? = some blk ∧
      blk.cells = [some (.flt 50), some (.flt 122), some (.flt 77)] := by
  have hlow := dense2_lower_eq exOfRat 17 "i" "j" (by decide) exOut exE (by decide) (by decide) (by decide)
  have hscr : scratch "i" "j" exOut exE =
      ["i", "p_0_a_0", "p_1_B_0", "j", "bucket_0_a", "i_bucket_0_a", "p_1_B_1", "p_2_c_0"] := by decide
  obtain ⟨o, eo, hret, hit, ⟨blk, blk', hb, hb', _, _, _, hlen, hc1, hc2⟩, _⟩ :=
    dense2_loops_correct exOfRat "i" "j" exOut exE (by decide) (by decide) (by decide) (by decide)
      (by decide) (by decide)
      (by
        intro t ht
        simp only [exE, matvecE, leaves, List.cons_append, List.nil_append, List.mem_cons,
          List.not_mem_nil, or_false] at ht
        rcases ht with rfl | rfl | rfl <;> decide)
      (by decide) (by decide) 2 3 0 exBlkOf (exCellsOf (F := Int) id)
      exLoopState (by omega) (by omega) ⟨_, rfl, rfl, rfl⟩ ⟨_, rfl, rfl, rfl⟩ ⟨_, _, rfl, rfl, rfl⟩
      ⟨_, rfl, rfl, rfl, rfl, by decide⟩
      (by
        intro t ht
        simp only [exE, matvecE, leaves, List.cons_append, List.nil_append, List.mem_cons,
          List.not_mem_nil, or_false] at ht
        rcases ht with rfl | rfl
        · refine ⟨⟨_, _, rfl, rfl, rfl⟩, by decide, _, rfl, rfl, rfl, ?_⟩
          intro k hk
          have h6 : cellCount "i" "j" 2 3 exB = 6 := by decide
          rw [h6] at hk
          match k, hk with
          | 0, _ => rfl
          | 1, _ => rfl
          | 2, _ => rfl
          | 3, _ => rfl
          | 4, _ => rfl
          | 5, _ => rfl
        · refine ⟨⟨_, _, rfl, rfl, rfl⟩, by decide, _, rfl, rfl, rfl, ?_⟩
          intro k hk
          have h3 : cellCount "i" "j" 2 3 exC = 3 := by decide
          rw [h3] at hk
          match k, hk with
          | 0, _ => rfl
          | 1, _ => rfl
          | 2, _ => rfl)
      (by
        intro x hx r hr
        rw [hscr] at hx
        simp only [List.mem_cons, List.not_mem_nil, or_false] at hx
        rcases hx with rfl | rfl | rfl | rfl | rfl | rfl | rfl | rfl <;> cases hr)
      (fun ii _ jj _ => stepFinite_of_total (fun _ => rfl) _ _ _ _ _ _ _ _) 17 _ hlow 7 (by omega)
  refine ⟨_, o, hlow, eo, hret, hit, blk', hb', ?_⟩
  cases hb
  apply List.ext_getElem?
  intro k
  match k with
  | 0 => rw [hc1 0 (by omega)]; rfl
  | 1 => rw [hc1 1 (by omega)]; rfl
  | k + 2 => rw [hc2 (k + 2) (by omega)]; rfl


/-- the inputs of the instance as the specification sees them: tensor name → coordinates → value -/
def exInputs : Alg.Inputs := fun s coord =>
  if s = "B" then [(1 : Rat), 2, 3, 4, 5, 6].getD (coord.getD 0 0 * 3 + coord.getD 1 0) 0
  else [(7 : Rat), 8, 9].getD (coord.getD 0 0) 0
def exSizes : Alg.Sizes := fun s => if s = "j" then 3 else 2

/-- **U4 is not vacuous**: the same instance over the exact carrier `Rat`; the kernel generated from
`Alg.desugar` of the source assignment leaves exactly `Alg.denote (a(i) = B(i,j) * c(j))` at every
coordinate — and the specification evaluates to `[50, 122]` -/
example : ∃ f o, generateIr (F := Rat) id none exAssign exFormats (graph "i" "j" exOut exE) .evaluate = .ok f ∧
    exec 7 f.body (exStateOf (fun z => (z : Rat))) = .ok o ∧ o.ret = some (.int 0) ∧
    (∃ blk, o.st.heap[5]? = some blk ∧ blk.live = true ∧
      blk.cells = (List.range 2).map fun ii => some (.flt (Alg.denote exSource exInputs exSizes [ii]))) ∧
    Alg.denote exSource exInputs exSizes [0] = 50 ∧ Alg.denote exSource exInputs exSizes [1] = 122 := by
  have hgen : generateIr (F := Rat) id none exAssign exFormats (graph "i" "j" exOut exE) .evaluate =
      .ok (kernel id exFormats "i" "j" "B" 1 exOut exE) := by
    rw [exAssign_eq]
    exact dense2_generateIr_eq id none _ exFormats "i" "j" (by decide) "B" 1 exOut exE (by decide)
      (by decide) (by decide) (by decide) (by decide)
      (indexDimensions_matvec "a" "B" "c" "i" "j" (by decide) 1 2)
  obtain ⟨o, eo, hret, _, blk, hb, hlive, hcells⟩ :=
    dense2_matvec_kernel_denote none "a" "B" "c" exFormats "i" "j" exOut exB exC (by decide)
      (by decide) (by decide) (by decide) rfl rfl (by decide) exKernelOK 2 3 exTix exBlkOf _ _ (by omega)
      (by omega) (by omega) (exInitOf (fun z => (z : Rat))) exInputs exSizes rfl
      (by
        intro ii hii jj hjj
        match ii, hii, jj, hjj with
        | 0, _, 0, _ => rfl
        | 0, _, 1, _ => rfl
        | 0, _, 2, _ => rfl
        | 1, _, 0, _ => rfl
        | 1, _, 1, _ => rfl
        | 1, _, 2, _ => rfl)
      (by
        intro jj hjj
        match jj, hjj with
        | 0, _ => rfl
        | 1, _ => rfl
        | 2, _ => rfl)
      _ hgen 7 (by omega)
  refine ⟨_, o, hgen, eo, hret, ⟨blk, hb, hlive, hcells⟩, ?_, ?_⟩
  · rw [show exSource = ⟨"a", ["i"], .mul (.tensor "B" ["i", "j"]) (.tensor "c" ["j"])⟩ from rfl,
      denote_matvec exInputs exSizes "a" "B" "c" "i" "j" (by decide) 0]
    simp [Alg.sumRange, exSizes, exInputs, List.range, List.range.loop]
    grind
  · rw [show exSource = ⟨"a", ["i"], .mul (.tensor "B" ["i", "j"]) (.tensor "c" ["j"])⟩ from rfl,
      denote_matvec exInputs exSizes "a" "B" "c" "i" "j" (by decide) 1]
    simp [Alg.sumRange, exSizes, exInputs, List.range, List.range.loop]
    grind

/-! ### the wider class is inhabited: `a(i) = B(i,j) * c(j) * d(i)`, `d = [2, 3]` -/

def ex3Formats : Formats :=
  [("a", [.dense], [0]), ("B", [.dense, .dense], [0, 1]), ("c", [.dense], [0]), ("d", [.dense], [0])]
def exD : TensorId := ⟨"3_d", "d", ["i"], [.dense]⟩
def ex3E : IdExpr := .mul (.mul (.tensor exB) (.tensor exC)) (.tensor exD)
def ex3Source : Alg.Assign :=
  ⟨"a", ["i"], .mul (.mul (.tensor "B" ["i", "j"]) (.tensor "c" ["j"])) (.tensor "d" ["i"])⟩
def ex3Assign : Alg.DAssign := Alg.desugar ex3Source
def ex3Tix : String → Nat := fun s => if s = "a" then 0 else if s = "B" then 1 else if s = "c" then 2 else 3
def ex3BlkOf : String → Nat := fun s => if s = "B" then 2 else if s = "c" then 4 else 6

example : bestAlgorithm ex3Assign ex3Formats = .graph (graph "i" "j" exOut ex3E) := by rfl

theorem ex3KernelOK : KernelOK ex3Formats "i" "j" "B" exOut ex3E := by
  refine ⟨by decide, by decide, by decide, ?_, by decide, by decide, by decide, by decide, by decide,
    ?_, by decide⟩
  · intro f hf
    simp only [ex3Formats, List.mem_cons, List.not_mem_nil, or_false] at hf
    rcases hf with rfl | rfl | rfl | rfl <;> decide
  · intro t ht
    simp only [ex3E, leaves, List.cons_append, List.nil_append, List.mem_cons,
      List.not_mem_nil, or_false] at ht
    rcases ht with rfl | rfl | rfl <;> decide

def ex3State : State Int :=
  { vars := [⟨"a", .ptr .tensor, some (.tensor 0)⟩, ⟨"B", .ptr .tensor, some (.tensor 1)⟩,
             ⟨"c", .ptr .tensor, some (.tensor 2)⟩, ⟨"d", .ptr .tensor, some (.tensor 3)⟩],
    heap := [⟨.int, [some (.int 2)], .output, true⟩,
             ⟨.int, [some (.int 2), some (.int 3)], .input, true⟩,
             ⟨.float, [some (.flt 1), some (.flt 2), some (.flt 3),
                       some (.flt 4), some (.flt 5), some (.flt 6)], .input, true⟩,
             ⟨.int, [some (.int 3)], .input, true⟩,
             ⟨.float, [some (.flt 7), some (.flt 8), some (.flt 9)], .input, true⟩,
             ⟨.int, [some (.int 2)], .input, true⟩,
             ⟨.float, [some (.flt 2), some (.flt 3)], .input, true⟩],
    tensors := [⟨1, 0, [none], .null, .output⟩, ⟨2, 1, [none, none], .ptr 2 0, .input⟩,
                ⟨1, 3, [none], .ptr 4 0, .input⟩, ⟨1, 5, [none], .ptr 6 0, .input⟩] }
def ex3CellsOf : String → Nat → Int :=
  fun s k => if s = "B" then [1, 2, 3, 4, 5, 6].getD k 0
    else if s = "c" then [7, 8, 9].getD k 0 else [2, 3].getD k 0

theorem ex3Init : Init ex3Formats "i" "j" "B" 1 exOut ex3E 2 3 ex3Tix ex3BlkOf ex3CellsOf ex3State := by
  refine ⟨?_, ?_, ?_, ?_, ?_, ?_⟩
  · intro f hf
    simp only [ex3Formats, List.mem_cons, List.not_mem_nil, or_false] at hf
    rcases hf with rfl | rfl | rfl | rfl <;> exact ⟨_, rfl, rfl, rfl⟩
  · intro x hx
    simp only [ex3Formats, List.map_cons, List.map_nil, List.mem_cons, List.not_mem_nil, or_false,
      not_or] at hx
    obtain ⟨h1, h2, h3, h4⟩ := hx
    have e1 : ("a" == x) = false := beq_eq_false_iff_ne.2 (Ne.symm h1)
    have e2 : ("B" == x) = false := beq_eq_false_iff_ne.2 (Ne.symm h2)
    have e3 : ("c" == x) = false := beq_eq_false_iff_ne.2 (Ne.symm h3)
    have e4 : ("d" == x) = false := beq_eq_false_iff_ne.2 (Ne.symm h4)
    simp [lookupVar, ex3State, List.find?, e1, e2, e3, e4]
  · intro f hf
    simp only [ex3Formats, List.mem_cons, List.not_mem_nil, or_false] at hf
    rcases hf with rfl | rfl | rfl | rfl <;> exact ⟨_, rfl, rfl⟩
  · exact ⟨_, _, rfl, rfl, rfl, rfl, rfl, rfl⟩
  · exact ⟨_, _, rfl, rfl, rfl, rfl, rfl⟩
  · intro t ht
    simp only [ex3E, leaves, List.cons_append, List.nil_append, List.mem_cons,
      List.not_mem_nil, or_false] at ht
    rcases ht with rfl | rfl | rfl
    · refine ⟨_, _, rfl, rfl, rfl, rfl, rfl, ?_⟩
      intro k hk
      have h6 : cellCount "i" "j" 2 3 exB = 6 := by decide
      rw [h6] at hk
      match k, hk with
      | 0, _ => rfl
      | 1, _ => rfl
      | 2, _ => rfl
      | 3, _ => rfl
      | 4, _ => rfl
      | 5, _ => rfl
    · refine ⟨_, _, rfl, rfl, rfl, rfl, rfl, ?_⟩
      intro k hk
      have h3 : cellCount "i" "j" 2 3 exC = 3 := by decide
      rw [h3] at hk
      match k, hk with
      | 0, _ => rfl
      | 1, _ => rfl
      | 2, _ => rfl
    · refine ⟨_, _, rfl, rfl, rfl, rfl, rfl, ?_⟩
      intro k hk
      have h2 : cellCount "i" "j" 2 3 exD = 2 := by decide
      rw [h2] at hk
      match k, hk with
      | 0, _ => rfl
      | 1, _ => rfl

/-- **the general U3 on a three-kind expression**: `a(i) = B(i,j) * c(j) * d(i)` leaves
`[50 * 2, 122 * 3] = [100, 366]` -/
example : ∃ f o, generateIr exOfRat none ex3Assign ex3Formats (graph "i" "j" exOut ex3E) .evaluate = .ok f ∧
    exec 7 f.body ex3State = .ok o ∧ o.ret = some (.int 0) ∧ o.iters = 10 ∧
    ∃ blk, o.st.heap[7]? = some blk ∧ blk.live = true ∧
      blk.cells = [some (.flt 100), some (.flt 366)] := by
  have hgen := dense2_generateIr_eq exOfRat none ex3Assign ex3Formats "i" "j" (by decide) "B" 1 exOut ex3E
    (by decide) (by decide) (by decide) (by decide) (by decide) (by decide)
  obtain ⟨o, eo, hret, hit, _, ⟨blk, hb, hlive, _, _, hcells⟩, _⟩ :=
    dense2_kernel_correct exOfRat none ex3Assign ex3Formats "i" "j" "B" 1 exOut ex3E (by decide) (by decide)
      (by decide) (by decide) (by decide) (by decide) ex3KernelOK 2 3 ex3Tix ex3BlkOf ex3CellsOf ex3State
      (by omega) (by omega) (by omega) (by omega)
      (fun ii _ jj _ => stepFinite_of_total (fun _ => rfl) _ _ _ _ _ _ _ _) ex3Init _ hgen 7 (by omega)
  refine ⟨_, o, hgen, eo, hret, hit, blk, hb, hlive, ?_⟩
  rw [hcells]
  rfl

/-! ### the hypothesis `n < 2^31` of U2 is needed (deviation from the brief's wording) -/

/-- a state with `i_dim = 2^31`, `j_dim = 0` (so `n * m = 0 < 2^31`) and an output block with the
cells `cells` (`List.replicate 2147483648 none`, say) -/
def cexState (cells : List (Option (Val Int))) : State Int :=
  { vars := [⟨"i_dim", .int, some (.int 2147483648)⟩, ⟨"j_dim", .int, some (.int 0)⟩,
             ⟨"a_vals", .ptr .float, some (.ptr 0 0)⟩,
             ⟨"B_vals", .ptr .float, some (.ptr 1 0)⟩, ⟨"c_vals", .ptr .float, some (.ptr 2 0)⟩],
    heap := [⟨.float, cells, .output, true⟩,
             ⟨.float, [], .input, true⟩, ⟨.float, [], .input, true⟩],
    tensors := [] }

/-- **`n < 2^31` cannot be dropped from U2** (the brief's wording "`n * m < 2^31`" alone is false of
the machine when `m = 0`): in `cexState cells` (any `cells` of length `≥ 2^31`) every other hypothesis of `dense2_loops_correct` holds with
`n = 2^31`, `m = 0`, and the lowered loop nest stops with `intOverflow` at the first evaluation of
`i < i_dim`. -/
theorem dense2_loops_n_bound_needed (cells : List (Option (Val Int)))
    (hcells : 2147483648 ≤ cells.length) :
    (2147483648 * 0 < 2147483648) ∧
    IntVar (cexState cells) (dimName "i") (2147483648 : Nat) ∧ IntVar (cexState cells) (dimName "j") (0 : Nat) ∧
    PtrVar (cexState cells) (valsName exOut.name) 0 ∧
    (∃ blk, (cexState cells).heap[0]? = some blk ∧ blk.live = true ∧ blk.owner = .output ∧
      blk.ty = .float ∧ 2147483648 ≤ blk.cells.length) ∧
    (∀ t ∈ leaves exE, PtrVar (cexState cells) (valsName t.name) (if t.name = "B" then 1 else 2) ∧
      (if t.name = "B" then 1 else 2) ≠ 0 ∧
      ∃ blk, (cexState cells).heap[if t.name = "B" then 1 else 2]? = some blk ∧ blk.live = true ∧
        blk.ty = .float ∧
        ∀ k, k < cellCount "i" "j" 2147483648 0 t → blk.cells[k]? = some (some (.flt (0 : Int)))) ∧
    (∀ x ∈ scratch "i" "j" exOut exE, ∀ r, lookupVar (cexState cells).vars x = some r → r.ty = reqTy exOut x) ∧
    ∀ fuel body, lower exOfRat 20 (graph "i" "j" exOut exE) (.append exOut 0) .evaluate = .ok body →
      exec (fuel + 1) body.finalize (cexState cells) = .error .intOverflow := by
  have hscr : scratch "i" "j" exOut exE =
      ["i", "p_0_a_0", "p_1_B_0", "j", "bucket_0_a", "i_bucket_0_a", "p_1_B_1", "p_2_c_0"] := by decide
  refine ⟨by decide, ⟨_, rfl, rfl, rfl⟩, ⟨_, rfl, rfl, rfl⟩, ⟨_, _, rfl, rfl, rfl⟩,
    ⟨_, rfl, rfl, rfl, rfl, hcells⟩, ?_, ?_, ?_⟩
  · intro t ht
    simp only [exE, matvecE, leaves, List.cons_append, List.nil_append, List.mem_cons,
      List.not_mem_nil, or_false] at ht
    rcases ht with rfl | rfl
    · refine ⟨⟨_, _, rfl, rfl, rfl⟩, by decide, _, rfl, rfl, rfl, ?_⟩
      intro k hk
      have h0 : cellCount "i" "j" 2147483648 0 exB = 0 := by decide
      rw [h0] at hk; omega
    · refine ⟨⟨_, _, rfl, rfl, rfl⟩, by decide, _, rfl, rfl, rfl, ?_⟩
      intro k hk
      have h0 : cellCount "i" "j" 2147483648 0 exC = 0 := by decide
      rw [h0] at hk; omega
  · intro x hx r hr
    rw [hscr] at hx
    simp only [List.mem_cons, List.not_mem_nil, or_false] at hx
    rcases hx with rfl | rfl | rfl | rfl | rfl | rfl | rfl | rfl <;> cases hr
  · intro fuel body hlow
    rw [dense2_lower_eq exOfRat 17 "i" "j" (by decide) exOut exE (by decide) (by decide) (by decide)] at hlow
    cases hlow
    show exec (fuel + 1) (.block (loopLines exOfRat "i" "j" exOut exE) _) (cexState cells) = _
    rw [exec.eq_5]
    simp only [loopLines, declAssignE, outerLoop]
    rw [execL.eq_2, exec.eq_4]
    have h1 : evalRhs (cexState cells) (.intLit 0 : Expr Int) = .ok ((cexState cells), .int 0) :=
      evalRhs_of_ok (evalE_intLit (by omega) (by omega))
    rw [h1]
    simp only [bind, Except.bind, convTo]
    have h2 : declare (cexState cells) "i" .int (some (.int 0)) =
        .ok { cexState cells with vars := (cexState cells).vars ++ [⟨"i", .int, some (.int 0)⟩] } := by
      rfl
    rw [h2]
    simp only []
    rw [execL.eq_2, exec.eq_8]
    have h3 : evalE { cexState cells with vars := (cexState cells).vars ++ [⟨"i", .int, some (.int 0)⟩] }
        (.bin .lt (.var "i") (.var (dimName "i")) : Expr Int) = .error .intOverflow := by
      rfl
    rw [h3]
    rfl

/-- cells as `dense2_loops_n_bound_needed` wants them exist -/
example : 2147483648 ≤ (List.replicate 2147483648 (none : Option (Val Int))).length := by
  rw [List.length_replicate]; exact Nat.le_refl _

end TV.Dense2
