import TensoraVerif.Lemmas.DenseNCex
import TensoraVerif.Lemmas.Dense1Exact
import TensoraVerif.Model.FloatLaws

/-!
# C01, end to end, for an UNBOUNDED family: dense element-wise kernels of EVERY order

"The kernel computes the mathematical meaning of the assignment", proved — not tested — for all
assignments `out(i₁,…,iₙ) = e`, `n` arbitrary, where `out` and every tensor of `e` are order-`n`
tensors indexed by exactly the index list `is = [i₁,…,iₙ]` (pairwise distinct) and stored densely
at every level (identity mode ordering, i.e. row-major storage in `is`); `e` is any `+`/`*` tree
over literals and such leaves. The iteration graph is the nest
`DenseN.graph is outT e = .iter i₁ (some ⟨outT,0⟩) (.iter i₂ (some ⟨outT,1⟩) … (.terminal e))`
(`DenseN.nest`, by recursion on the index list); for `a(i,j) = b(i,j) + c(i,j)` and
`a(i,j,k) = b(i,j,k) * c(i,j,k) + 1`, all formats `dd` / `ddd`, it IS the graph the front half chooses
(examples at the end).

Dimensions are given as a list `dims : List (String × Nat)` of (index name, dimension value);
`dims.map (·.1)` is the index list `is`, `dims.map (·.2)` the dimension values `ds`.

* **N1** `denseN_lower_eq` — what `lower` emits: the loop nest `DenseN.nestSB` (recursive in the depth).
* **N2** `denseN_loops_correct` — Hoare theorem for the nest, every `n`, all dimension values whose
  prefix products are `< 2^31` (`Fits 1 ds`; equivalent to `Π d < 2^31` when all `d ≥ 1`,
  `denseN_fits_of_prod_lt`): fuel `Σ (d_l + 1)`, `Σ_l Π_{k≤l} d_k` iterations, cell `c` of the output
  holds `valueF` at cell `c` for all `c < Π d` (and, equivalently, at `lin` of every multi-index).
* `denseN_generateIr_eq` — the whole `evaluate` function `generateIr` produces, written out.
* **N3** `denseN_kernel_correct` — the whole `evaluate` function from an initial state as the driver
  builds it: returns `0`, the output record's `vals` points to a fresh block holding exactly the
  `Π d` values; inputs untouched.
* **N4** `denseN_kernel_exact` — over `Rat` the kernel computes exactly `Graph.value` at every cell.
* `denseN_prod_bound_insufficient` — closed counterexample to the wording "`Π d < 2^31`" alone
  (dimensions `(65536, 65536, 0)`: `Π d = 0`, the kernel stops with `intOverflow`).
* non-vacuity: `n = 3`, dimensions `(2,1,2)`, `a(i,j,k) = b(i,j,k) * c(i,j,k) + 1` over `Int` and `Rat`.

Vocabulary (Lemmas/DenseNModel.lean, DenseNSpec.lean, DenseNKernel.lean): `isLeaf is t` :
`t.indexes = is` and all modes dense; `isExpr is e` : every leaf is one; `prod ds = Π d`;
`lin q ds js` row-major linearisation; `Below js ds` : `js` is a multi-index below `ds`;
`iterCount ds = Σ_l Π_{k≤l} d_k`; `fuelNeed ds = Σ_l (d_l + 1)`; `Fits Q ds` : `Q, Q·d₁, Q·d₁·d₂, … < 2^31`;
`scratch ts l is` the variables the levels write (`i_k` and `p_<t>_<k>`);
`IntVar` / `PtrVar` / `TensorVar` as in C01Dense.
-/
namespace TV.DenseN
open TV.IR TV.Gen TV.Graph TV.Growth
open TV.Dense1 (leaves valueF allFinite)

variable {F : Type} [FloatOps F]

/-! ### N1 -/

omit [FloatOps F] in
/-- **N1 (the lowered loop nest).** For every graph of the class — any depth `n = is.length` —
`lower` (any fuel `≥ n + 1`) succeeds and returns `nestSB ofRat outT e 0 is`, the builder defined by
recursion on the levels: at level `l` with index `i`
`int i = 0; while (i < i_dim) { int p_<out>_l = <p_<out>_(l-1) or 0> * i_dim + i; int p_<t>_l = … (every
leaf); if (true) { <level l+1> } i = i + 1; }`, innermost `out_vals[p_<out>_(n-1)] = <e>;`. -/
theorem denseN_lower_eq (ofRat : Rat → F) (k : Nat) (is : List String) (outT : TensorId) (e : IdExpr)
    (ho : isLeaf is outT = true) (he : isExpr is e = true) (hnd : is.Nodup) :
    lower ofRat (is.length + 1 + k) (graph is outT e) (.append outT 0) .evaluate =
      .ok (nestSB ofRat outT e 0 is) :=
  lower_eq ofRat k is outT e ho he hnd

omit [FloatOps F] in
/-- **N1, at every level** (the statement the induction proves): with `full = pre ++ rest`, the
sub-nest over `rest` lowered against the output state `.append outT pre.length` is
`nestSB … pre.length rest`. -/
theorem denseN_lower_nest_eq (ofRat : Rat → F) (outT : TensorId) (e : IdExpr) (full : List String)
    (ho : isLeaf full outT = true) (he : isExpr full e = true) (hnd : full.Nodup)
    (rest pre : List String) (k : Nat) (hfull : full = pre ++ rest) :
    lower ofRat (rest.length + 1 + k) (nest outT e pre.length rest) (.append outT pre.length) .evaluate =
      .ok (nestSB ofRat outT e pre.length rest) :=
  lower_nest_eq ofRat outT e full ho he hnd rest pre k hfull

/-! ### N2 -/

/-- when every dimension is positive, the bound on the prefix products is `Π d < 2^31` -/
theorem denseN_fits_of_prod_lt (ds : List Nat) (hpos : ∀ d ∈ ds, 1 ≤ d) (h : prod ds < 2147483648) :
    Fits 1 ds :=
  fits_of_prod_lt ds 1 hpos (by simpa using h)

/-- **N2, at every level** (the generalised induction hypothesis). Let `full = pre ++ rest` list the
indexes with their dimensions, `σ` a state satisfying `Env` (the `_dim` variables hold the
dimensions, `<out>_vals` points to a live output block `ob` of at least `N` cells, every `<t>_vals`
to a live float block with `N` initialised cells, scratch variables undeclared or `int`), in which
the pointers of level `pre.length - 1` hold the linearised prefix `q` (`PrevIs`), with `q < Q`,
`Fits Q` of the remaining dimensions, `(q+1) * P ≤ N` for `P` their product, and all sub-results
finite on the cells `q*P ≤ c < (q+1)*P`. Then the sub-nest of the remaining levels runs with fuel
`fuelNeed`, without error and without returning, in `iterCount` iterations, and writes exactly the
cells `q*P ≤ c < (q+1)*P` of block `ob` with `valueF` at cell `c` (`Upd`: everything else — other
cells, other blocks, tensor records, variables outside the scratch set of these levels — unchanged). -/
theorem denseN_nest_correct (ofRat : Rat → F) (outT : TensorId) (e : IdExpr) (full : List (String × Nat))
    (N ob : Nat) (blkOf : String → Nat) (cellsOf : String → Nat → F)
    (ho : isLeaf (full.map (·.1)) outT = true) (he : isExpr (full.map (·.1)) e = true)
    (hnd : (full.map (·.1)).Nodup) (hus : ∀ p ∈ full, '_' ∉ p.1.toList)
    (rest pre : List (String × Nat)) (q Q : Nat) (σ : State F) (fuel : Nat)
    (hfull : full = pre ++ rest)
    (henv : Env full outT e N ob blkOf cellsOf σ)
    (hprev : PrevIs σ (outT :: leaves e) pre.length q)
    (hq : q < Q) (hfit : Fits Q (rest.map (·.2)))
    (hcap : (q + 1) * prod (rest.map (·.2)) ≤ N)
    (hfin : ∀ c, q * prod (rest.map (·.2)) ≤ c → c < (q + 1) * prod (rest.map (·.2)) →
      allFinite ofRat (fun t => cellsOf t.name c) e = true)
    (hfuel : fuelNeed (rest.map (·.2)) ≤ fuel) :
    ∃ σ', Dense1.RunsI fuel (nestSB ofRat outT e pre.length (rest.map (·.1))).finalize σ σ'
        (iterCount (rest.map (·.2))) ∧
      Upd ob (scratch (outT :: leaves e) pre.length (rest.map (·.1)))
        (q * prod (rest.map (·.2))) ((q + 1) * prod (rest.map (·.2)))
        (fun c => valueF ofRat (fun t => cellsOf t.name c) e) σ σ' :=
  nest_runs ofRat outT e full N ob blkOf cellsOf ho he hnd hus rest pre q Q σ fuel hfull henv hprev hq hfit
    hcap hfin hfuel

/-- **N2 (the loop nest computes the meaning of the assignment, every order).** Let
`out(i₁,…,iₙ) = e` be of the class, `dims` the indexes (pairwise distinct, names without `'_'`) with
dimension values `ds` whose prefix products are all `< 2^31` (`Fits 1 ds`), and `σ` a machine state
in which
* `<i_l>_dim` is an `int` holding `d_l`, for every level;
* `<out>_vals` points to block `ob`, a live, output-owned float block of at least `Π d` cells;
* for every tensor occurrence `t` of `e`, `<t>_vals` points to a live float block `blkOf t.name ≠ ob`
  whose first `Π d` cells are initialised, cell `c` holding the float `cellsOf t.name c`;
* the scratch variables (`i_l`, `p_<out>_l`, `p_<t>_l`, all levels) are undeclared or declared `int`;
* at every cell `c < Π d` every sub-result of `e` is finite.

Then whatever `lower` returns for the graph of the class (any fuel `≥ n + 1`) runs on the machine,
with any fuel `≥ Σ_l (d_l + 1)`, without error and without returning, in exactly
`Σ_l Π_{k≤l} d_k` loop iterations, and in the final state
* cell `c` of block `ob` holds `valueF ofRat (fun t => cellsOf t.name c) e` for every `c < Π d` —
  in particular cell `lin 0 ds js` for every multi-index `js` below `ds` (row-major linearisation;
  every `c < Π d` is one) —, the cells `≥ Π d` are unchanged, the block is still live, output-owned,
  float, of the same length;
* every other block (the inputs in particular), every tensor record, and every variable other than
  the scratch variables is unchanged; the heap has not grown. -/
theorem denseN_loops_correct (ofRat : Rat → F) (dims : List (String × Nat)) (outT : TensorId) (e : IdExpr)
    (ho : isLeaf (dims.map (·.1)) outT = true) (he : isExpr (dims.map (·.1)) e = true)
    (hnd : (dims.map (·.1)).Nodup) (hus : ∀ p ∈ dims, '_' ∉ p.1.toList)
    (ob : Nat) (blkOf : String → Nat) (cellsOf : String → Nat → F) (σ : State F)
    (hfit : Fits 1 (dims.map (·.2)))
    (hdim : ∀ p ∈ dims, IntVar σ (dimName p.1) p.2)
    (hout : PtrVar σ (valsName outT.name) ob)
    (houtBlk : ∃ blk, σ.heap[ob]? = some blk ∧ blk.live = true ∧ blk.owner = .output ∧
      blk.ty = .float ∧ prod (dims.map (·.2)) ≤ blk.cells.length)
    (hins : ∀ t ∈ leaves e, PtrVar σ (valsName t.name) (blkOf t.name) ∧ blkOf t.name ≠ ob ∧
      ∃ blk, σ.heap[blkOf t.name]? = some blk ∧ blk.live = true ∧ blk.ty = .float ∧
        ∀ c, c < prod (dims.map (·.2)) → blk.cells[c]? = some (some (.flt (cellsOf t.name c))))
    (hscratch : ∀ x ∈ scratch (outT :: leaves e) 0 (dims.map (·.1)),
      ∀ r, lookupVar σ.vars x = some r → r.ty = .int)
    (hfin : ∀ c, c < prod (dims.map (·.2)) → allFinite ofRat (fun t => cellsOf t.name c) e = true)
    (fuelL : Nat) (hfuelL : dims.length + 1 ≤ fuelL) (body : SB F)
    (hlow : lower ofRat fuelL (graph (dims.map (·.1)) outT e) (.append outT 0) .evaluate = .ok body)
    (fuel : Nat) (hfuel : fuelNeed (dims.map (·.2)) ≤ fuel) :
    ∃ o, exec fuel body.finalize σ = .ok o ∧ o.ret = none ∧ o.iters = iterCount (dims.map (·.2)) ∧
      (∃ blk blk', σ.heap[ob]? = some blk ∧ o.st.heap[ob]? = some blk' ∧
        blk'.live = true ∧ blk'.owner = .output ∧ blk'.ty = .float ∧
        blk'.cells.length = blk.cells.length ∧
        (∀ c, c < prod (dims.map (·.2)) →
          blk'.cells[c]? = some (some (.flt (valueF ofRat (fun t => cellsOf t.name c) e)))) ∧
        (∀ js, Below js (dims.map (·.2)) →
          blk'.cells[lin 0 (dims.map (·.2)) js]? =
            some (some (.flt (valueF ofRat (fun t => cellsOf t.name (lin 0 (dims.map (·.2)) js)) e)))) ∧
        (∀ c, prod (dims.map (·.2)) ≤ c → blk'.cells[c]? = blk.cells[c]?)) ∧
      (∀ b, b ≠ ob → o.st.heap[b]? = σ.heap[b]?) ∧
      o.st.heap.length = σ.heap.length ∧
      o.st.tensors = σ.tensors ∧
      (∀ y, y ∉ scratch (outT :: leaves e) 0 (dims.map (·.1)) →
        lookupVar o.st.vars y = lookupVar σ.vars y) := by
  obtain ⟨k, rfl⟩ := Nat.exists_eq_add_of_le hfuelL
  have hlen : (dims.map (·.1)).length = dims.length := by simp
  rw [← hlen, lower_eq ofRat k _ outT e ho he hnd] at hlow
  cases hlow
  obtain ⟨σ', ⟨o, eo, hret, hst, hit⟩, hp⟩ := nest_runs ofRat outT e dims (prod (dims.map (·.2))) ob blkOf
    cellsOf ho he hnd hus dims [] 0 1 σ fuel rfl ⟨hdim, hout, houtBlk, hins, hscratch⟩ (by simp [PrevIs])
    (by omega) hfit (by simp) (fun c _ hc => hfin c (by simpa using hc)) hfuel
  subst hst
  simp only [List.length_nil, Nat.zero_mul, Nat.zero_add, Nat.one_mul] at eo hit hp
  obtain ⟨blk, blk', h1, h2, h3, h4, h5, h6, h7, h8⟩ := hp.outBlk
  obtain ⟨blk0, hb0, hlive, hown, hty, _⟩ := houtBlk
  rw [h1] at hb0; cases hb0
  refine ⟨o, eo, hret, hit, ⟨blk, blk', h1, h2, h3.trans hlive, h4.trans hown, h5.trans hty, h6,
    fun c hc => h7 c (by omega) hc, ?_, fun c hc => h8 c (Or.inr hc)⟩, hp.heap, hp.heapLen, hp.tensors,
    hp.vars⟩
  intro js hjs
  have := lin_bounds (dims.map (·.2)) js 0 hjs
  exact h7 _ (by omega) (by omega)

/-! ### the generated kernel -/

/-- **The generated kernel.** For an assignment `out(is) = rhs` whose accesses all use indexes of
`is`, an all-dense format table and the graph of the class, `generateIr` succeeds and returns exactly
`DenseN.kernel` : `{ int i₁_dim = out->dimensions[0]; …; int iₙ_dim = out->dimensions[n-1];
double* t_vals = t->vals; …; int out_vals_capacity = 1 * out->dimensions[0] * … * out->dimensions[n-1];
out_vals = malloc(…); <nest>; out->vals = out_vals; return 0; }`. -/
theorem denseN_generateIr_eq (ofRat : Rat → F) (cap : Option Int) (a : Alg.DAssign) (formats : Formats)
    (is : List String) (outT : TensorId) (e : IdExpr)
    (hout : tensorId 0 a.tname formats a.tidx = some outT)
    (ho : isLeaf is outT = true) (he : isExpr is e = true) (hnd : is.Nodup)
    (hf : Dense2.denseFormats formats = true)
    (hidx : a.tidx = is) (hrhs : rhsIdx is a.rhs = true) :
    generateIr ofRat cap a formats (graph is outT e) .evaluate = .ok (kernel ofRat formats is outT e) :=
  generateIr_eq ofRat cap a formats is outT e hout (Dense1.tensorId_name hout) ho he hnd hf
    (indexDimensions_eq a is hidx hnd hrhs)

/-! ### N3 -/

/-- **N3 (the generated `evaluate` kernel computes the meaning of the assignment, every order).** Let
`out(is) = rhs` be an assignment whose accesses all use indexes of `is = dims.map (·.1)`, `formats`
an all-dense format table, `outT` the output tensor as `generateIr` computes it, `e` a right-hand
side of the class, with the side conditions `KernelOK` (index and tensor names without `'_'`,
indexes pairwise distinct and not tensor names, the output and the tensors of `e` in the format
table, the output not in `e`). Let the dimension values `ds = dims.map (·.2)` have all prefix
products `< 2^31` (`Fits 1 ds`), each `d < 2^31` (they are read from an `int32` array), and `σ` be
an initial machine state as the driver builds it (`Init`): the variables are exactly the tensor
parameters; the output record is output-owned and its `dimensions` block holds `ds`; the record of
every tensor `t` of `e` has `vals` pointing to a live float block whose first `Π d` cells are
initialised with `cellsOf t`; at every cell every sub-result of `e` is finite.

Then the function `f` that `generateIr` produces for the graph of the class runs on the machine with
any fuel `≥ Σ_l (d_l + 1)` without error, **returns `0`** after exactly `Σ_l Π_{k≤l} d_k` loop
iterations, and in the final state the output record's `vals` points to block `σ.heap.length` — a
fresh, live, output-owned float block whose cells are **exactly**
`valueF ofRat (fun t => cellsOf t.name c) e` for `c = 0 … Π d - 1` (cell `lin 0 ds js` for the
multi-index `js`); every block of the initial heap (all inputs) and every other tensor record is
unchanged. -/
theorem denseN_kernel_correct (ofRat : Rat → F) (cap : Option Int) (a : Alg.DAssign) (formats : Formats)
    (dims : List (String × Nat)) (outT : TensorId) (e : IdExpr)
    (hout : tensorId 0 a.tname formats a.tidx = some outT)
    (ho : isLeaf (dims.map (·.1)) outT = true) (he : isExpr (dims.map (·.1)) e = true)
    (hf : Dense2.denseFormats formats = true)
    (hidx : a.tidx = dims.map (·.1)) (hrhs : rhsIdx (dims.map (·.1)) a.rhs = true)
    (ok : KernelOK formats (dims.map (·.1)) outT e)
    (tix blkOf : String → Nat) (cellsOf : String → Nat → F) (σ : State F)
    (hfit : Fits 1 (dims.map (·.2))) (hd31 : ∀ p ∈ dims, p.2 < 2147483648)
    (hn31 : dims.length < 2147483648)
    (hfin : ∀ c, c < prod (dims.map (·.2)) → allFinite ofRat (fun t => cellsOf t.name c) e = true)
    (hinit : Init formats outT e (dims.map (·.2)) tix blkOf cellsOf σ)
    (f : Func F) (hgen : generateIr ofRat cap a formats (graph (dims.map (·.1)) outT e) .evaluate = .ok f)
    (fuel : Nat) (hfuel : fuelNeed (dims.map (·.2)) ≤ fuel) :
    ∃ o, exec fuel f.body σ = .ok o ∧ o.ret = some (.int 0) ∧ o.iters = iterCount (dims.map (·.2)) ∧
      (∃ tr, σ.tensors[tix outT.name]? = some tr ∧
        o.st.tensors[tix outT.name]? = some { tr with vals := .ptr σ.heap.length 0 }) ∧
      (∃ blk, o.st.heap[σ.heap.length]? = some blk ∧ blk.live = true ∧ blk.owner = .output ∧
        blk.ty = .float ∧
        blk.cells = (List.range (prod (dims.map (·.2)))).map fun c =>
          some (.flt (valueF ofRat (fun t => cellsOf t.name c) e))) ∧
      (∀ b, b < σ.heap.length → o.st.heap[b]? = σ.heap[b]?) ∧
      o.st.heap.length = σ.heap.length + 1 ∧
      (∀ k', k' ≠ tix outT.name → o.st.tensors[k']? = σ.tensors[k']?) := by
  rw [denseN_generateIr_eq ofRat cap a formats _ outT e hout ho he ok.nodup hf hidx hrhs] at hgen
  cases hgen
  obtain ⟨o, eo, hret, hit, hp⟩ := kernel_runs ofRat formats dims outT e ho he ok hfit hd31 hn31 hfin hinit
    fuel hfuel
  exact ⟨o, eo, hret, hit, hp.outRec, hp.blk, hp.heap, hp.heapLen, hp.otherRecs⟩

/-! ### N4 -/

/-- **N4 (the kernel computes exactly `Graph.value` at every cell).** Under the hypotheses of N3 over
the exact carrier `Rat` (no finiteness hypothesis is left), if `ρ c` gives, for every tensor
occurrence of `e`, the content of cell `c` of its array, then the generated kernel returns `0` and
leaves in the output tensor exactly the values `Graph.value (ρ c) e`, `c = 0 … Π d - 1`. -/
theorem denseN_kernel_exact (cap : Option Int) (a : Alg.DAssign) (formats : Formats)
    (dims : List (String × Nat)) (outT : TensorId) (e : IdExpr)
    (hout : tensorId 0 a.tname formats a.tidx = some outT)
    (ho : isLeaf (dims.map (·.1)) outT = true) (he : isExpr (dims.map (·.1)) e = true)
    (hf : Dense2.denseFormats formats = true)
    (hidx : a.tidx = dims.map (·.1)) (hrhs : rhsIdx (dims.map (·.1)) a.rhs = true)
    (ok : KernelOK formats (dims.map (·.1)) outT e)
    (tix blkOf : String → Nat) (cellsOf : String → Nat → Rat) (σ : State Rat)
    (hfit : Fits 1 (dims.map (·.2))) (hd31 : ∀ p ∈ dims, p.2 < 2147483648)
    (hn31 : dims.length < 2147483648)
    (hinit : Init formats outT e (dims.map (·.2)) tix blkOf cellsOf σ)
    (ρ : Nat → String → Rat)
    (hρ : ∀ c, c < prod (dims.map (·.2)) → ∀ t ∈ leaves e, ρ c t.id = cellsOf t.name c)
    (f : Func Rat) (hgen : generateIr id cap a formats (graph (dims.map (·.1)) outT e) .evaluate = .ok f)
    (fuel : Nat) (hfuel : fuelNeed (dims.map (·.2)) ≤ fuel) :
    ∃ o, exec fuel f.body σ = .ok o ∧ o.ret = some (.int 0) ∧
      (∃ tr, σ.tensors[tix outT.name]? = some tr ∧
        o.st.tensors[tix outT.name]? = some { tr with vals := .ptr σ.heap.length 0 }) ∧
      ∃ blk, o.st.heap[σ.heap.length]? = some blk ∧ blk.live = true ∧
        blk.cells = (List.range (prod (dims.map (·.2)))).map fun c => some (.flt (value (ρ c) e)) := by
  obtain ⟨o, eo, hret, _, hrec, ⟨blk, hb, hlive, _, _, hcells⟩, _⟩ :=
    denseN_kernel_correct id cap a formats dims outT e hout ho he hf hidx hrhs ok tix blkOf cellsOf σ hfit
      hd31 hn31 (fun c _ => Dense1.allFinite_rat _ _ _) hinit f hgen fuel hfuel
  refine ⟨o, eo, hret, hrec, blk, hb, hlive, ?_⟩
  rw [hcells]
  apply List.map_congr_left
  intro c hc
  have hc : c < prod (dims.map (·.2)) := List.mem_range.1 hc
  rw [← Dense1.valueF_rat (ρ c) e, Dense1.valueF_congr id _ _ e (fun t ht => (hρ c hc t ht).symm)]

/-! ### the wording "`Π d < 2^31`" alone is not enough -/

/-- **Counterexample to N2/N3 with `Π d < 2^31` in place of `Fits 1 ds`.** For
`a(i,j,k) = b(i,j,k)`, dimensions `(65536, 65536, 0)`: `Π d = 0 < 2^31`, every dimension is `< 2^31`,
every other hypothesis of N3 holds (`generateIr` produces the kernel, `KernelOK`, `Init` in the state
the driver builds, finiteness), `Fits 1 ds` fails — and the kernel stops with `intOverflow` (the
capacity `1 * 65536 * 65536 * 0` of "Output initialization" overflows at the second product; with
other shapes the pointers `p_l` of the outer levels overflow in the same way), whatever the fuel. -/
theorem denseN_prod_bound_insufficient :
    prod (cexDims.map (·.2)) < 2147483648 ∧ (∀ p ∈ cexDims, p.2 < 2147483648) ∧
    ¬ Fits 1 (cexDims.map (·.2)) ∧
    isLeaf (cexDims.map (·.1)) cexOut = true ∧ isExpr (cexDims.map (·.1)) cexE = true ∧
    KernelOK cexFormats (cexDims.map (·.1)) cexOut cexE ∧
    Init cexFormats cexOut cexE (cexDims.map (·.2)) cexTix cexBlkOf cexCellsOf cexState ∧
    (∀ c, c < prod (cexDims.map (·.2)) →
      allFinite (fun q : Rat => q.num) (fun t => cexCellsOf t.name c) cexE = true) ∧
    ∃ f, generateIr (fun q : Rat => q.num) none cexAssign cexFormats
        (graph (cexDims.map (·.1)) cexOut cexE) .evaluate = .ok f ∧
      ∀ fuel, exec fuel f.body cexState = .error .intOverflow := by
  refine ⟨by decide, by decide, by simp [cexDims, Fits], by decide, by decide, cexKernelOK, cexInit, ?_, ?_⟩
  · intro c hc
    simp [cexDims, prod] at hc
  · refine ⟨_, denseN_generateIr_eq _ none cexAssign cexFormats _ cexOut cexE (by decide) (by decide)
      (by decide) (by decide) (by decide) rfl (by decide), fun fuel => cex_overflow _ fuel⟩

/-! ### the graph of the class is the one the front half chooses (`n = 2`, `n = 3`, all `dd`/`ddd`) -/

/-- `a(i,j) = b(i,j) + c(i,j)`, all formats `dd` -/
example : bestAlgorithm ⟨"a", ["i", "j"], .add (.tensor 1 "b" ["i", "j"]) (.tensor 2 "c" ["i", "j"])⟩
      [("a", [.dense, .dense], [0, 1]), ("b", [.dense, .dense], [0, 1]), ("c", [.dense, .dense], [0, 1])] =
    .graph (graph ["i", "j"] ⟨"0_a", "a", ["i", "j"], [.dense, .dense]⟩
      (.add (.tensor ⟨"1_b", "b", ["i", "j"], [.dense, .dense]⟩)
        (.tensor ⟨"2_c", "c", ["i", "j"], [.dense, .dense]⟩))) := by rfl

/-- `a(i,j,k) = b(i,j,k) + c(i,j,k)`, all formats `ddd` -/
example : bestAlgorithm
      ⟨"a", ["i", "j", "k"], .add (.tensor 1 "b" ["i", "j", "k"]) (.tensor 2 "c" ["i", "j", "k"])⟩
      [("a", [.dense, .dense, .dense], [0, 1, 2]), ("b", [.dense, .dense, .dense], [0, 1, 2]),
       ("c", [.dense, .dense, .dense], [0, 1, 2])] =
    .graph (graph ["i", "j", "k"] ⟨"0_a", "a", ["i", "j", "k"], [.dense, .dense, .dense]⟩
      (.add (.tensor ⟨"1_b", "b", ["i", "j", "k"], [.dense, .dense, .dense]⟩)
        (.tensor ⟨"2_c", "c", ["i", "j", "k"], [.dense, .dense, .dense]⟩))) := by rfl

/-! ### non-vacuity: `a(i,j,k) = b(i,j,k) * c(i,j,k) + 1`, dimensions `(2,1,2)`,
`b = [1,2,3,4]`, `c = [5,6,7,8]` (row-major) -/

def exModes : List Mode := [.dense, .dense, .dense]
def exFormats : Formats := [("a", exModes, [0, 1, 2]), ("b", exModes, [0, 1, 2]), ("c", exModes, [0, 1, 2])]
def exDims : List (String × Nat) := [("i", 2), ("j", 1), ("k", 2)]
def exOut : TensorId := ⟨"0_a", "a", ["i", "j", "k"], exModes⟩
def exB : TensorId := ⟨"1_b", "b", ["i", "j", "k"], exModes⟩
def exC : TensorId := ⟨"2_c", "c", ["i", "j", "k"], exModes⟩
def exE : IdExpr := .add (.mul (.tensor exB) (.tensor exC)) (.int 1)
def exAssign : Alg.DAssign :=
  ⟨"a", ["i", "j", "k"],
    .add (.mul (.tensor 1 "b" ["i", "j", "k"]) (.tensor 2 "c" ["i", "j", "k"])) (.int 1)⟩
def exTix : String → Nat := fun s => if s = "a" then 0 else if s = "b" then 1 else 2
def exBlkOf : String → Nat := fun s => if s = "b" then 2 else 4

/-- the graph of the class is the one the front half chooses for the assignment -/
example : bestAlgorithm exAssign exFormats = .graph (graph (exDims.map (·.1)) exOut exE) := by rfl

theorem exKernelOK : KernelOK exFormats (exDims.map (·.1)) exOut exE := by
  refine ⟨by decide, by decide, ?_, by decide, by decide, ?_⟩
  · intro f hf
    simp only [exFormats, List.mem_cons, List.not_mem_nil, or_false] at hf
    rcases hf with rfl | rfl | rfl <;> decide
  · intro t ht
    simp only [exE, leaves, List.cons_append, List.nil_append, List.append_nil, List.mem_cons,
      List.not_mem_nil, or_false] at ht
    rcases ht with rfl | rfl <;> decide

/-- generic in the carrier: the state the driver builds for `a` (output, dimensions `(2,1,2)`),
`b = [1,2,3,4]`, `c = [5,6,7,8]` -/
def exStateOf {F : Type} (c : Int → F) : State F :=
  { vars := [⟨"a", .ptr .tensor, some (.tensor 0)⟩, ⟨"b", .ptr .tensor, some (.tensor 1)⟩,
             ⟨"c", .ptr .tensor, some (.tensor 2)⟩],
    heap := [⟨.int, [some (.int 2), some (.int 1), some (.int 2)], .output, true⟩,
             ⟨.int, [some (.int 2), some (.int 1), some (.int 2)], .input, true⟩,
             ⟨.float, [some (.flt (c 1)), some (.flt (c 2)), some (.flt (c 3)), some (.flt (c 4))], .input, true⟩,
             ⟨.int, [some (.int 2), some (.int 1), some (.int 2)], .input, true⟩,
             ⟨.float, [some (.flt (c 5)), some (.flt (c 6)), some (.flt (c 7)), some (.flt (c 8))], .input, true⟩],
    tensors := [⟨3, 0, [none, none, none], .null, .output⟩, ⟨3, 1, [none, none, none], .ptr 2 0, .input⟩,
                ⟨3, 3, [none, none, none], .ptr 4 0, .input⟩] }
def exCellsOf {F : Type} (c : Int → F) : String → Nat → F :=
  fun s j => if s = "b" then [c 1, c 2, c 3, c 4].getD j (c 0) else [c 5, c 6, c 7, c 8].getD j (c 0)

theorem exInitOf {F : Type} [FloatOps F] (c : Int → F) :
    Init exFormats exOut exE (exDims.map (·.2)) exTix exBlkOf (exCellsOf c) (exStateOf c) := by
  refine ⟨?_, ?_, ?_, ?_, ?_⟩
  · intro f hf
    simp only [exFormats, List.mem_cons, List.not_mem_nil, or_false] at hf
    rcases hf with rfl | rfl | rfl <;> exact ⟨_, rfl, rfl, rfl⟩
  · intro x hx
    simp only [exFormats, List.map_cons, List.map_nil, List.mem_cons, List.not_mem_nil, or_false,
      not_or] at hx
    obtain ⟨h1, h2, h3⟩ := hx
    have e1 : ("a" == x) = false := beq_eq_false_iff_ne.2 (Ne.symm h1)
    have e2 : ("b" == x) = false := beq_eq_false_iff_ne.2 (Ne.symm h2)
    have e3 : ("c" == x) = false := beq_eq_false_iff_ne.2 (Ne.symm h3)
    simp [lookupVar, exStateOf, List.find?, e1, e2, e3]
  · intro f hf
    simp only [exFormats, List.mem_cons, List.not_mem_nil, or_false] at hf
    rcases hf with rfl | rfl | rfl <;> exact ⟨_, rfl, rfl⟩
  · refine ⟨_, _, rfl, rfl, rfl, rfl, rfl, ?_⟩
    intro k hk
    match k, hk with
    | 0, _ => rfl
    | 1, _ => rfl
    | 2, _ => rfl
  · intro t ht
    simp only [exE, leaves, List.cons_append, List.nil_append, List.append_nil, List.mem_cons,
      List.not_mem_nil, or_false] at ht
    have h4 : prod (exDims.map (·.2)) = 4 := by decide
    rcases ht with rfl | rfl
    · refine ⟨_, _, rfl, rfl, rfl, rfl, rfl, ?_⟩
      intro j hj
      rw [h4] at hj
      match j, hj with
      | 0, _ => rfl
      | 1, _ => rfl
      | 2, _ => rfl
      | 3, _ => rfl
    · refine ⟨_, _, rfl, rfl, rfl, rfl, rfl, ?_⟩
      intro j hj
      rw [h4] at hj
      match j, hj with
      | 0, _ => rfl
      | 1, _ => rfl
      | 2, _ => rfl
      | 3, _ => rfl

/-- literals of the instance over `Int`: the numerator (all literals are integers) -/
def exOfRat : Rat → Int := fun q => q.num

theorem exFits : Fits 1 (exDims.map (·.2)) := by simp [exDims, Fits]

/-- **N3 is not vacuous** (over `Int`): every hypothesis holds on the instance, `generateIr` produces
the kernel, and the run (fuel `8 = (2+1)+(1+1)+(2+1)`) returns `0` after `8 = 2 + 2·1 + 2·1·2`
iterations and leaves `[1*5+1, 2*6+1, 3*7+1, 4*8+1] = [6, 13, 22, 33]` in the fresh block `5` the
output record points to -/
example : ∃ f o, generateIr exOfRat none exAssign exFormats (graph (exDims.map (·.1)) exOut exE) .evaluate = .ok f ∧
    exec 8 f.body (exStateOf (F := Int) id) = .ok o ∧ o.ret = some (.int 0) ∧ o.iters = 8 ∧
    (∃ tr, o.st.tensors[0]? = some tr ∧ tr.vals = .ptr 5 0) ∧
    ∃ blk, o.st.heap[5]? = some blk ∧ blk.live = true ∧
      blk.cells = [some (.flt 6), some (.flt 13), some (.flt 22), some (.flt 33)] := by
  have hgen := denseN_generateIr_eq exOfRat none exAssign exFormats (exDims.map (·.1)) exOut exE (by decide)
    (by decide) (by decide) (by decide) (by decide) rfl (by decide)
  obtain ⟨o, eo, hret, hit, ⟨tr, htr, htr'⟩, ⟨blk, hb, hlive, _, _, hcells⟩, _⟩ :=
    denseN_kernel_correct exOfRat none exAssign exFormats exDims exOut exE (by decide) (by decide) (by decide)
      (by decide) rfl (by decide) exKernelOK exTix exBlkOf _ _ exFits (by decide) (by decide)
      (fun c _ => Dense1.allFinite_of_total (fun _ => rfl) _ _ _) (exInitOf (F := Int) id) _ hgen 8 (by decide)
  refine ⟨_, o, hgen, eo, hret, hit, ⟨_, htr', rfl⟩, blk, hb, hlive, ?_⟩
  rw [hcells]
  rfl

/-- a state in the middle of the kernel: after the prologue, before the nest -/
def exLoopState : State Int :=
  { vars := [⟨"i_dim", .int, some (.int 2)⟩, ⟨"j_dim", .int, some (.int 1)⟩, ⟨"k_dim", .int, some (.int 2)⟩,
             ⟨"a_vals", .ptr .float, some (.ptr 0 0)⟩,
             ⟨"b_vals", .ptr .float, some (.ptr 2 0)⟩, ⟨"c_vals", .ptr .float, some (.ptr 4 0)⟩],
    heap := [⟨.float, [none, none, none, none, some (.flt 7)], .output, true⟩,
             ⟨.int, [some (.int 2), some (.int 1), some (.int 2)], .input, true⟩,
             ⟨.float, [some (.flt 1), some (.flt 2), some (.flt 3), some (.flt 4)], .input, true⟩,
             ⟨.int, [some (.int 2), some (.int 1), some (.int 2)], .input, true⟩,
             ⟨.float, [some (.flt 5), some (.flt 6), some (.flt 7), some (.flt 8)], .input, true⟩],
    tensors := [] }

/-- **N2 is not vacuous**: its hypotheses hold in `exLoopState` (dimensions `(2,1,2)`, output block `0`
of 5 cells), and the nest leaves `[6, 13, 22, 33]` in the first four cells — cell `lin 0 [2,1,2] [1,0,1] = 3`
holds `33` —, the fifth unchanged -/
example : ∃ body o,
    lower exOfRat 16 (graph (exDims.map (·.1)) exOut exE) (.append exOut 0) .evaluate = .ok body ∧
    exec 8 body.finalize exLoopState = .ok o ∧ o.ret = none ∧ o.iters = 8 ∧
    ∃ blk, o.st.heap[0]? = some blk ∧
      blk.cells = [some (.flt 6), some (.flt 13), some (.flt 22), some (.flt 33), some (.flt 7)] ∧
      blk.cells[lin 0 [2, 1, 2] [1, 0, 1]]? = some (some (.flt 33)) := by
  have hlow := denseN_lower_eq exOfRat 12 (exDims.map (·.1)) exOut exE (by decide) (by decide) (by decide)
  have h4 : prod (exDims.map (·.2)) = 4 := by decide
  obtain ⟨o, eo, hret, hit, ⟨blk, blk', hb, hb', _, _, _, hlen, hc1, hc2, hc3⟩, _⟩ :=
    denseN_loops_correct exOfRat exDims exOut exE (by decide) (by decide) (by decide) (by decide) 0 exBlkOf
      (exCellsOf (F := Int) id) exLoopState exFits
      (by
        intro p hp
        simp only [exDims, List.mem_cons, List.not_mem_nil, or_false] at hp
        rcases hp with rfl | rfl | rfl <;> exact ⟨_, rfl, rfl, rfl⟩)
      ⟨_, _, rfl, rfl, rfl⟩ ⟨_, rfl, rfl, rfl, rfl, by decide⟩
      (by
        intro t ht
        simp only [exE, leaves, List.cons_append, List.nil_append, List.append_nil, List.mem_cons,
          List.not_mem_nil, or_false] at ht
        rcases ht with rfl | rfl
        · refine ⟨⟨_, _, rfl, rfl, rfl⟩, by decide, _, rfl, rfl, rfl, ?_⟩
          intro j hj
          rw [h4] at hj
          match j, hj with
          | 0, _ => rfl
          | 1, _ => rfl
          | 2, _ => rfl
          | 3, _ => rfl
        · refine ⟨⟨_, _, rfl, rfl, rfl⟩, by decide, _, rfl, rfl, rfl, ?_⟩
          intro j hj
          rw [h4] at hj
          match j, hj with
          | 0, _ => rfl
          | 1, _ => rfl
          | 2, _ => rfl
          | 3, _ => rfl)
      (by
        intro x hx r hr
        simp only [exDims, exE, exOut, exB, exC, leaves, scratch, ptrsAt, layerPointer, List.map_cons,
          List.map_nil, List.cons_append, List.nil_append, List.append_nil, List.mem_cons,
          List.not_mem_nil, or_false] at hx
        rcases hx with rfl | rfl | rfl | rfl | rfl | rfl | rfl | rfl | rfl | rfl | rfl | rfl <;> cases hr)
      (fun j _ => Dense1.allFinite_of_total (fun _ => rfl) _ _ _) 16 (by decide) _ hlow 8 (by decide)
  refine ⟨_, o, hlow, eo, hret, hit, blk', hb', ?_, ?_⟩
  · cases hb
    apply List.ext_getElem?
    intro j
    match j with
    | 0 => rw [hc1 0 (by omega)]; rfl
    | 1 => rw [hc1 1 (by omega)]; rfl
    | 2 => rw [hc1 2 (by omega)]; rfl
    | 3 => rw [hc1 3 (by omega)]; rfl
    | j + 4 => rw [hc3 (j + 4) (by omega)]; rfl
  · have := hc2 [1, 0, 1] (by simp [Below, exDims])
    exact this

/-- **N4 is not vacuous**: the same instance over the exact carrier `Rat`; the kernel leaves exactly
`Graph.value` of `b(i,j,k) * c(i,j,k) + 1` at every cell -/
example : ∃ f o, generateIr (F := Rat) id none exAssign exFormats (graph (exDims.map (·.1)) exOut exE) .evaluate = .ok f ∧
    exec 8 f.body (exStateOf (fun z => (z : Rat))) = .ok o ∧ o.ret = some (.int 0) ∧
    ∃ blk, o.st.heap[5]? = some blk ∧ blk.live = true ∧
      blk.cells = (List.range 4).map fun c => some (.flt (value
        (fun id => if id = "1_b" then [(1 : Rat), 2, 3, 4].getD c 0 else [(5 : Rat), 6, 7, 8].getD c 0) exE)) := by
  have hgen := denseN_generateIr_eq (F := Rat) id none exAssign exFormats (exDims.map (·.1)) exOut exE (by decide)
    (by decide) (by decide) (by decide) (by decide) rfl (by decide)
  have h4 : prod (exDims.map (·.2)) = 4 := by decide
  obtain ⟨o, eo, hret, _, blk, hb, hlive, hcells⟩ :=
    denseN_kernel_exact none exAssign exFormats exDims exOut exE (by decide) (by decide) (by decide)
      (by decide) rfl (by decide) exKernelOK exTix exBlkOf _ _ exFits (by decide) (by decide)
      (exInitOf (fun z => (z : Rat)))
      (fun c id => if id = "1_b" then [(1 : Rat), 2, 3, 4].getD c 0 else [(5 : Rat), 6, 7, 8].getD c 0)
      (by
        intro j hj t ht
        rw [h4] at hj
        simp only [exE, leaves, List.cons_append, List.nil_append, List.append_nil, List.mem_cons,
          List.not_mem_nil, or_false] at ht
        rcases ht with rfl | rfl <;>
        · match j, hj with
          | 0, _ => rfl
          | 1, _ => rfl
          | 2, _ => rfl
          | 3, _ => rfl)
      _ hgen 8 (by decide)
  rw [h4] at hcells
  exact ⟨_, o, hgen, eo, hret, blk, hb, hlive, hcells⟩

end TV.DenseN
