import TensoraVerif.Lemmas.Pipe1Source
import TensoraVerif.Props.C01Dense
import TensoraVerif.Props.C01

/-!
# C01, the full pipeline, for dense element-wise vector assignments

`Props/C01Dense.lean` proves that the kernel generated for the graph
`Dense1.graph i outT e = .iter i (some ⟨outT, 0⟩) (.terminal e)` computes `Graph.value`/`valueF` of `e`.
This file adds the FRONT HALF for the whole class of SOURCE assignments, and composes the two:

* the class `Dense1Source a formats i` (Lemmas/Pipe1Source.lean): `a = out(i) = rhs`, `rhs` built from
  `add`/`sub`/`mul`, integer/float literals and references `t(i)` to tensors `t ≠ out`; `out` and every
  `t` have the format `d` (`[dense]`, ordering `[0]`) in the format table (`isD`). Subtraction is
  included. No hypothesis on the shape (nesting) of `rhs`; a right-hand side without any tensor
  (`a(i) = 2`) is in the class. P3 additionally needs `Dense1Names formats i`: EVERY entry of the table
  is `d` (the kernel unpacks every entry), no `'_'` in tensor names or in `i`, `i` not a tensor name.
* **P1** `dense1_toIterationGraphs`, `dense1_bestAlgorithm`: the compiler's own pipeline
  `toIterationGraphs ∘ desugar` returns exactly ONE candidate for every assignment of the class, the
  graph `Dense1.graph i (outId a.tname i) (rhsId a i)`, where `rhsId a i = toId i (plainE a.rhs 1).1`
  is the explicit image of the right-hand side (tensor occurrence number `k ≥ 1`, left to right, of
  `t` becomes the tensor `<k>_<t>`; `l - r` becomes `l + (-1) * r`) and `outId` is the tensor `0_<out>`.
* **P2** `dense1_value_denote`: `Graph.value` of that terminal expression, tensor `<k>_<t>` read at
  `inp t [j]`, is the specification `Alg.denote a inp sz [j]` (any `j`, any sizes);
  `dense1_not_productHoistUnsafe`: the class never triggers the known defect of `desugar`.
* **P3** `evaluate_correct_dense1`: for every assignment of the class and every initial machine state
  holding the dense input vectors, the pipeline yields a graph, `generateIr` yields an `evaluate`
  function for it, and that function runs without error, returns `0`, and leaves exactly
  `denote a inp sz [j]`, `j < n`, in the output tensor (exact carrier `Rat`).
  `evaluate_correct_dense1_float`: the same over any float carrier, the result being the float
  meaning `denoteF` of the SOURCE expression (association of the tree), under the finiteness
  hypothesis of `dense1_kernel_correct`.
* non-vacuity: `a(i) = b(i) * c(i) + 2 * d(i)`, `n = 3`.
-/
namespace TV.Dense1
open TV.IR TV.Gen TV.Graph TV.Growth TV.Alg TV.Pipe1

/-! ### P1 -/

/-- **P1 (all candidates).** For every assignment of the class, `toIterationGraphs (desugar a)`
succeeds and returns exactly one candidate graph: one loop over `i` carrying the output, around the
terminal `rhsId a i`. -/
theorem dense1_toIterationGraphs (a : Assign) (formats : Formats) (i : String)
    (hc : Dense1Source a formats i) :
    toIterationGraphs (desugar a) formats = .ok [graph i (outId a.tname i) (rhsId a i)] := by
  rw [hc.desugar]
  exact toIterationGraphs_eq i a.tname formats hc.out _ hc.dOk

/-- **P1.** For every assignment of the class the compiler's pipeline `bestAlgorithm ∘ desugar`
chooses the graph of `Dense1`, with the explicitly given output tensor `outId a.tname i = 0_<out>` and
terminal expression `rhsId a i = toId i (plainE a.rhs 1).1`. -/
theorem dense1_bestAlgorithm (a : Assign) (formats : Formats) (i : String)
    (hc : Dense1Source a formats i) :
    bestAlgorithm (desugar a) formats = .graph (graph i (outId a.tname i) (rhsId a i)) := by
  simp only [bestAlgorithm, dense1_toIterationGraphs a formats i hc]

/-! ### P2 -/

/-- the class never triggers the known defect of the desugaring pass (finding F12) -/
theorem dense1_not_productHoistUnsafe (a : Assign) (formats : Formats) (i : String)
    (hc : Dense1Source a formats i) : productHoistUnsafe a.tidx a.rhs = false := by
  rw [hc.tidx]; exact productHoistUnsafe_srcOk i a.tname formats a.rhs hc.rhs

/-- **P2.** For every assignment of the class, all inputs, all sizes and every coordinate `j`, the
value of the terminal expression of the chosen graph — tensor occurrence `<k>_<t>` read at
`inp t [j]` (`nameOf` strips the occurrence number) — is the specification `denote` of the source
assignment at `[j]`. -/
theorem dense1_value_denote (a : Assign) (formats : Formats) (i : String)
    (hc : Dense1Source a formats i) (inp : Inputs) (sz : Sizes) (j : Nat) :
    value (fun id => inp (nameOf id) [j]) (rhsId a i) = denote a inp sz [j] := by
  rw [← desugar_correct a inp sz [j] (dense1_not_productHoistUnsafe a formats i hc), hc.desugar]
  exact value_toId inp sz i a.tname formats j _ hc.dOk

/-! ### P3 -/

/-- **P3 (the `evaluate` kernel that the pipeline yields computes the specification).** Let `a` be a
source assignment `out(i) = rhs` of the class `Dense1Source` over the all-`d` format table `formats`,
with the naming side conditions `Dense1Names`; `inp` any inputs; `n < 2^31`; and `σ` an initial machine
state as the driver builds it (`Init`): the variables are exactly the tensor parameters, the output
record is output-owned with `dimensions[0] = n`, and the record of every tensor `t` of `rhs` has `vals`
pointing to a live float block whose cell `j < n` holds `inp t [j]`.

Then the pipeline goes through — `bestAlgorithm (desugar a) formats` is a graph `g` and
`generateIr … (desugar a) formats g .evaluate` is a function `f` — and `f` runs on the machine with any
fuel `≥ n + 1` without error, **returns `0`**, the output record's `vals` points to the fresh block
`σ.heap.length`, and that block is live and holds **exactly** `denote a inp sz [j]` for
`j = 0 … n-1` (whatever `sz`: the class has no contraction). -/
theorem evaluate_correct_dense1 (cap : Option Int) (a : Assign) (formats : Formats) (i : String)
    (hc : Dense1Source a formats i) (hnames : Dense1Names formats i)
    (inp : Inputs) (sz : Sizes) (n : Nat) (hn : n < 2147483648)
    (tix blkOf : String → Nat) (σ : State Rat)
    (hinit : Init formats (outId a.tname i) (rhsId a i) n tix blkOf (fun t j => inp t [j]) σ)
    (fuel : Nat) (hfuel : n + 1 ≤ fuel) :
    ∃ g f, bestAlgorithm (desugar a) formats = .graph g ∧
      generateIr id cap (desugar a) formats g .evaluate = .ok f ∧
      ∃ o, exec fuel f.body σ = .ok o ∧ o.ret = some (.int 0) ∧
        (∃ tr, σ.tensors[tix a.tname]? = some tr ∧
          o.st.tensors[tix a.tname]? = some { tr with vals := .ptr σ.heap.length 0 }) ∧
        ∃ blk, o.st.heap[σ.heap.length]? = some blk ∧ blk.live = true ∧
          blk.cells = (List.range n).map fun j => some (.flt (denote a inp sz [j])) := by
  have hd := hc.dOk
  have hout : tensorId 0 (desugar a).tname formats (desugar a).tidx = some (outId a.tname i) := by
    rw [hc.desugar]; exact tensorId_out formats a.tname hc.out i
  have hidx : (desugar a).tidx = [i] := by rw [hc.desugar]
  have hrhs : rhsIdx i (desugar a).rhs = true := by
    rw [hc.desugar]; exact rhsIdx_dOk i a.tname formats _ hd
  have he := isExpr_toId i a.tname formats _ hd
  have ho : isLeaf i (outId a.tname i) = true := by simp [isLeaf, outId]
  have hgen := dense1_generateIr_eq (F := Rat) id cap (desugar a) formats i (outId a.tname i) (rhsId a i)
    hout ho he (denseFormats_of_fmtsD formats hnames.fmts) hidx hrhs
  obtain ⟨o, eo, hret, hrec, blk, hb, hlive, hcells⟩ :=
    dense1_kernel_exact cap (desugar a) formats i (outId a.tname i) (rhsId a i) hout ho he
      (denseFormats_of_fmtsD formats hnames.fmts) hidx hrhs (hc.kernelOK hnames) n tix blkOf _ σ hn hinit
      (fun j id => inp (nameOf id) [j])
      (fun j _ t ht => by rw [hc.nameOf_leaf t ht])
      _ hgen fuel hfuel
  refine ⟨_, _, dense1_bestAlgorithm a formats i hc, hgen, o, eo, hret, hrec, blk, hb, hlive, ?_⟩
  rw [hcells]
  exact List.map_congr_left fun j _ => by rw [dense1_value_denote a formats i hc inp sz j]

/-- **P3, abstract floats.** Over any float carrier `F` with literal conversion `ofRat`: if moreover
at every coordinate `j < n` every sub-result of the evaluation is finite, the `evaluate` function that
the pipeline yields returns `0` after exactly `n` loop iterations and the fresh output block holds
exactly the float meaning `denoteF` of the SOURCE right-hand side (operations in the association of
the source tree, `l - r` computed as `l + (-1) * r`), tensor `t` read at `cellsOf t j`; all blocks of
the initial heap are unchanged. -/
theorem evaluate_correct_dense1_float {F : Type} [FloatOps F] (ofRat : Rat → F) (cap : Option Int)
    (a : Assign) (formats : Formats) (i : String)
    (hc : Dense1Source a formats i) (hnames : Dense1Names formats i)
    (n : Nat) (hn : n < 2147483648)
    (tix blkOf : String → Nat) (cellsOf : String → Nat → F) (σ : State F)
    (hfin : ∀ j, j < n → allFinite ofRat (fun t => cellsOf t.name j) (rhsId a i) = true)
    (hinit : Init formats (outId a.tname i) (rhsId a i) n tix blkOf cellsOf σ)
    (fuel : Nat) (hfuel : n + 1 ≤ fuel) :
    ∃ g f, bestAlgorithm (desugar a) formats = .graph g ∧
      generateIr ofRat cap (desugar a) formats g .evaluate = .ok f ∧
      ∃ o, exec fuel f.body σ = .ok o ∧ o.ret = some (.int 0) ∧ o.iters = n ∧
        (∃ tr, σ.tensors[tix a.tname]? = some tr ∧
          o.st.tensors[tix a.tname]? = some { tr with vals := .ptr σ.heap.length 0 }) ∧
        (∃ blk, o.st.heap[σ.heap.length]? = some blk ∧ blk.live = true ∧ blk.owner = .output ∧
          blk.ty = .float ∧
          blk.cells = (List.range n).map fun j =>
            some (.flt (denoteF ofRat (fun t => cellsOf t j) a.rhs))) ∧
        (∀ b, b < σ.heap.length → o.st.heap[b]? = σ.heap[b]?) := by
  have hd := hc.dOk
  have hout : tensorId 0 (desugar a).tname formats (desugar a).tidx = some (outId a.tname i) := by
    rw [hc.desugar]; exact tensorId_out formats a.tname hc.out i
  have hidx : (desugar a).tidx = [i] := by rw [hc.desugar]
  have hrhs : rhsIdx i (desugar a).rhs = true := by
    rw [hc.desugar]; exact rhsIdx_dOk i a.tname formats _ hd
  have he := isExpr_toId i a.tname formats _ hd
  have ho : isLeaf i (outId a.tname i) = true := by simp [isLeaf, outId]
  have hgen := dense1_generateIr_eq ofRat cap (desugar a) formats i (outId a.tname i) (rhsId a i)
    hout ho he (denseFormats_of_fmtsD formats hnames.fmts) hidx hrhs
  obtain ⟨o, eo, hret, hit, hrec, ⟨blk, hb, hlive, hown, hty, hcells⟩, hheap, _⟩ :=
    dense1_kernel_correct ofRat cap (desugar a) formats i (outId a.tname i) (rhsId a i) hout ho he
      (denseFormats_of_fmtsD formats hnames.fmts) hidx hrhs (hc.kernelOK hnames) n tix blkOf cellsOf σ hn
      hfin hinit _ hgen fuel hfuel
  refine ⟨_, _, dense1_bestAlgorithm a formats i hc, hgen, o, eo, hret, hit, hrec,
    ⟨blk, hb, hlive, hown, hty, ?_⟩, hheap⟩
  rw [hcells]
  exact List.map_congr_left fun j _ => by
    rw [show rhsId a i = toId i (plainE a.rhs 1).1 from rfl,
      valueF_toId ofRat (fun t => cellsOf t j) i a.rhs 1]

/-! ### non-vacuity: `a(i) = b(i) * c(i) + 2 * d(i)`, `n = 3` -/

def pipeFormats : Formats :=
  [("a", [.dense], [0]), ("b", [.dense], [0]), ("c", [.dense], [0]), ("d", [.dense], [0])]

/-- `a(i) = b(i) * c(i) + 2 * d(i)` -/
def pipeAssign : Assign :=
  ⟨"a", ["i"], .add (.mul (.tensor "b" ["i"]) (.tensor "c" ["i"])) (.mul (.int 2) (.tensor "d" ["i"]))⟩

/-- `a(i) = b(i) - 0.5 * (c(i) - 3)`: subtraction, a float literal, right nesting -/
def pipeAssignSub : Assign :=
  ⟨"a", ["i"], .sub (.tensor "b" ["i"]) (.mul (.flt 0.5) (.sub (.tensor "c" ["i"]) (.int 3)))⟩

theorem pipeAssign_class : Dense1Source pipeAssign pipeFormats "i" := ⟨rfl, by decide, by decide⟩
theorem pipeAssignSub_class : Dense1Source pipeAssignSub pipeFormats "i" :=
  ⟨rfl, by decide, by decide⟩

theorem pipeNames : Dense1Names pipeFormats "i" := by
  refine ⟨by decide, ?_, by decide, by decide⟩
  intro f hf
  simp only [pipeFormats, List.mem_cons, List.not_mem_nil, or_false] at hf
  rcases hf with rfl | rfl | rfl | rfl <;> decide

/-- the explicit terminal expression and output tensor of the instance -/
example : rhsId pipeAssign "i" =
    .add (.mul (.tensor ⟨"1_b", "b", ["i"], [.dense]⟩) (.tensor ⟨"2_c", "c", ["i"], [.dense]⟩))
      (.mul (.int 2) (.tensor ⟨"3_d", "d", ["i"], [.dense]⟩)) ∧
    outId pipeAssign.tname "i" = ⟨"0_a", "a", ["i"], [.dense]⟩ := by decide

example : rhsId pipeAssignSub "i" =
    .add (.tensor ⟨"1_b", "b", ["i"], [.dense]⟩)
      (.mul (.int (-1)) (.mul (.flt 0.5)
        (.add (.tensor ⟨"2_c", "c", ["i"], [.dense]⟩) (.mul (.int (-1)) (.int 3))))) := by decide +kernel

/-- P1 on the instances agrees with evaluating the model of the pipeline (independent check) -/
example : toIterationGraphs (desugar pipeAssign) pipeFormats =
    .ok [graph "i" (outId "a" "i") (rhsId pipeAssign "i")] := by rfl
example : toIterationGraphs (desugar pipeAssignSub) pipeFormats =
    .ok [graph "i" (outId "a" "i") (rhsId pipeAssignSub "i")] := by rfl

/-- P1 is not vacuous -/
example : bestAlgorithm (desugar pipeAssign) pipeFormats =
    .graph (graph "i" ⟨"0_a", "a", ["i"], [.dense]⟩
      (.add (.mul (.tensor ⟨"1_b", "b", ["i"], [.dense]⟩) (.tensor ⟨"2_c", "c", ["i"], [.dense]⟩))
        (.mul (.int 2) (.tensor ⟨"3_d", "d", ["i"], [.dense]⟩)))) :=
  dense1_bestAlgorithm pipeAssign pipeFormats "i" pipeAssign_class

/-- generic in the carrier: the arrays `b = [1, 2, 3]`, `c = [4, 5, 6]`, `d = [7, 8, 9]` -/
def pipeCellsOf {F : Type} (c : Int → F) : String → Nat → F :=
  fun s j => if s = "b" then [c 1, c 2, c 3].getD j (c 0) else if s = "c" then [c 4, c 5, c 6].getD j (c 0)
    else [c 7, c 8, c 9].getD j (c 0)

/-- the same as inputs of the specification -/
def pipeInp : Inputs := fun t coord =>
  match coord with
  | [j] => pipeCellsOf (fun z => (z : Rat)) t j
  | _ => 0

/-- P2 is not vacuous: at coordinate 1 the specification is `2 * 5 + 2 * 8 = 26` -/
example : value (fun id => pipeInp (nameOf id) [1]) (rhsId pipeAssign "i") = 26 ∧
    denote pipeAssign pipeInp (fun _ => 3) [1] = 26 := by
  have h := dense1_value_denote pipeAssign pipeFormats "i" pipeAssign_class pipeInp (fun _ => 3) 1
  have h2 : denote pipeAssign pipeInp (fun _ => 3) [1] = 26 := by decide +kernel
  exact ⟨h.trans h2, h2⟩

def pipeTix : String → Nat := fun s => if s = "a" then 0 else if s = "b" then 1 else if s = "c" then 2 else 3
def pipeBlkOf : String → Nat := fun s => if s = "b" then 2 else if s = "c" then 4 else 6

/-- generic in the carrier: the state the driver builds for `a` (output), `b`, `c`, `d` -/
def pipeStateOf {F : Type} (c : Int → F) : State F :=
  { vars := [⟨"a", .ptr .tensor, some (.tensor 0)⟩, ⟨"b", .ptr .tensor, some (.tensor 1)⟩,
             ⟨"c", .ptr .tensor, some (.tensor 2)⟩, ⟨"d", .ptr .tensor, some (.tensor 3)⟩],
    heap := [⟨.int, [some (.int 3)], .output, true⟩,
             ⟨.int, [some (.int 3)], .input, true⟩,
             ⟨.float, [some (.flt (c 1)), some (.flt (c 2)), some (.flt (c 3))], .input, true⟩,
             ⟨.int, [some (.int 3)], .input, true⟩,
             ⟨.float, [some (.flt (c 4)), some (.flt (c 5)), some (.flt (c 6))], .input, true⟩,
             ⟨.int, [some (.int 3)], .input, true⟩,
             ⟨.float, [some (.flt (c 7)), some (.flt (c 8)), some (.flt (c 9))], .input, true⟩],
    tensors := [⟨1, 0, [none], .null, .output⟩, ⟨1, 1, [none], .ptr 2 0, .input⟩,
                ⟨1, 3, [none], .ptr 4 0, .input⟩, ⟨1, 5, [none], .ptr 6 0, .input⟩] }

theorem pipeInitOf {F : Type} [FloatOps F] (c : Int → F) :
    Init pipeFormats (outId pipeAssign.tname "i") (rhsId pipeAssign "i") 3 pipeTix pipeBlkOf
      (pipeCellsOf c) (pipeStateOf c) := by
  refine ⟨?_, ?_, ?_, ?_, ?_⟩
  · intro f hf
    simp only [pipeFormats, List.mem_cons, List.not_mem_nil, or_false] at hf
    rcases hf with rfl | rfl | rfl | rfl <;> exact ⟨_, rfl, rfl, rfl⟩
  · intro x hx
    simp only [pipeFormats, List.map_cons, List.map_nil, List.mem_cons, List.not_mem_nil, or_false,
      not_or] at hx
    obtain ⟨h1, h2, h3, h4⟩ := hx
    have e1 : ("a" == x) = false := beq_eq_false_iff_ne.2 (Ne.symm h1)
    have e2 : ("b" == x) = false := beq_eq_false_iff_ne.2 (Ne.symm h2)
    have e3 : ("c" == x) = false := beq_eq_false_iff_ne.2 (Ne.symm h3)
    have e4 : ("d" == x) = false := beq_eq_false_iff_ne.2 (Ne.symm h4)
    simp [lookupVar, pipeStateOf, List.find?, e1, e2, e3, e4]
  · intro f hf
    simp only [pipeFormats, List.mem_cons, List.not_mem_nil, or_false] at hf
    rcases hf with rfl | rfl | rfl | rfl <;> exact ⟨_, rfl, rfl⟩
  · exact ⟨_, _, rfl, rfl, rfl, rfl, rfl, rfl⟩
  · intro t ht
    have hl : leaves (rhsId pipeAssign "i") = [⟨"1_b", "b", ["i"], [.dense]⟩,
        ⟨"2_c", "c", ["i"], [.dense]⟩, ⟨"3_d", "d", ["i"], [.dense]⟩] := by decide
    simp only [hl, List.mem_cons, List.not_mem_nil, or_false] at ht
    rcases ht with rfl | rfl | rfl <;>
    · refine ⟨_, _, rfl, rfl, rfl, rfl, rfl, ?_⟩
      intro j hj
      match j, hj with
      | 0, _ => rfl
      | 1, _ => rfl
      | 2, _ => rfl

/-- **P3 is not vacuous**: every hypothesis holds on the instance; the pipeline yields the kernel, and
the run returns `0` and leaves `[1*4+2*7, 2*5+2*8, 3*6+2*9] = [18, 26, 36]` — the specification
`denote` at `[0]`, `[1]`, `[2]` — in the fresh block `7` the output record points to -/
example : ∃ g f o, bestAlgorithm (desugar pipeAssign) pipeFormats = .graph g ∧
    generateIr (F := Rat) id none (desugar pipeAssign) pipeFormats g .evaluate = .ok f ∧
    exec 4 f.body (pipeStateOf (fun z => (z : Rat))) = .ok o ∧ o.ret = some (.int 0) ∧
    (∃ tr, o.st.tensors[0]? = some tr ∧ tr.vals = .ptr 7 0) ∧
    ∃ blk, o.st.heap[7]? = some blk ∧ blk.live = true ∧
      blk.cells = [some (.flt (denote pipeAssign pipeInp (fun _ => 3) [0])),
        some (.flt (denote pipeAssign pipeInp (fun _ => 3) [1])),
        some (.flt (denote pipeAssign pipeInp (fun _ => 3) [2]))] ∧
      blk.cells = [some (.flt 18), some (.flt 26), some (.flt 36)] := by
  obtain ⟨g, f, hg, hf, o, eo, hret, ⟨tr, _, htr'⟩, blk, hb, hlive, hcells⟩ :=
    evaluate_correct_dense1 none pipeAssign pipeFormats "i" pipeAssign_class pipeNames pipeInp (fun _ => 3)
      3 (by omega) pipeTix pipeBlkOf _ (pipeInitOf (fun z => (z : Rat))) 4 (by omega)
  refine ⟨g, f, o, hg, hf, eo, hret, ⟨_, htr', rfl⟩, blk, hb, hlive, hcells, ?_⟩
  rw [hcells]
  have h0 : denote pipeAssign pipeInp (fun _ => 3) [0] = 18 := by decide +kernel
  have h1 : denote pipeAssign pipeInp (fun _ => 3) [1] = 26 := by decide +kernel
  have h2 : denote pipeAssign pipeInp (fun _ => 3) [2] = 36 := by decide +kernel
  simp [List.range, List.range.loop, h0, h1, h2]

/-- **the float version is not vacuous** (carrier `Int`, literals through the numerator): the pipeline
yields the kernel, which returns `0` after 3 iterations and leaves `[18, 26, 36]` -/
example : ∃ g f o, bestAlgorithm (desugar pipeAssign) pipeFormats = .graph g ∧
    generateIr exOfRat none (desugar pipeAssign) pipeFormats g .evaluate = .ok f ∧
    exec 4 f.body (pipeStateOf (F := Int) id) = .ok o ∧ o.ret = some (.int 0) ∧ o.iters = 3 ∧
    ∃ blk, o.st.heap[7]? = some blk ∧ blk.live = true ∧
      blk.cells = [some (.flt 18), some (.flt 26), some (.flt 36)] := by
  obtain ⟨g, f, hg, hf, o, eo, hret, hit, _, ⟨blk, hb, hlive, _, _, hcells⟩, _⟩ :=
    evaluate_correct_dense1_float exOfRat none pipeAssign pipeFormats "i" pipeAssign_class pipeNames
      3 (by omega) pipeTix pipeBlkOf _ _ (fun j _ => allFinite_of_total (fun _ => rfl) _ _ _)
      (pipeInitOf (F := Int) id) 4 (by omega)
  refine ⟨g, f, o, hg, hf, eo, hret, hit, blk, hb, hlive, ?_⟩
  rw [hcells]
  rfl

end TV.Dense1

/-- info: 'TV.Dense1.dense1_bestAlgorithm' depends on axioms: [propext, Classical.choice, Quot.sound] -/
#guard_msgs in
#print axioms TV.Dense1.dense1_bestAlgorithm
/-- info: 'TV.Dense1.dense1_value_denote' depends on axioms: [propext, Classical.choice, Quot.sound] -/
#guard_msgs in
#print axioms TV.Dense1.dense1_value_denote
/-- info: 'TV.Dense1.evaluate_correct_dense1' depends on axioms: [propext, Classical.choice, Quot.sound] -/
#guard_msgs in
#print axioms TV.Dense1.evaluate_correct_dense1
/-- info: 'TV.Dense1.evaluate_correct_dense1_float' depends on axioms: [propext, Classical.choice, Quot.sound] -/
#guard_msgs in
#print axioms TV.Dense1.evaluate_correct_dense1_float
