import TensoraVerif.Lemmas.DenseTermFlat
import TensoraVerif.Model.FloatLaws

/-!
# C01, end to end, for ALL dense single-term contractions

The class `DenseTerm`: every tensor dense with identity mode ordering; the iteration graph is ANY
linear nest `.iter x₁ o₁ (.iter x₂ o₂ (… (.iter xₘ oₘ (.terminal e))))` (`DenseTerm.graph lv outT e`,
`lv : List (String × Bool)` the levels with their "is an output index" flag) in which the output
levels carry the output's layers `0, 1, …` in increasing order and the contraction levels
(`o = none`) may sit ANYWHERE; `e` is any `+`/`*` tree over literals and dense leaves whose index
lists are sub-sequences of `[x₁ … xₘ]` (`isLeaf`, `isExpr`). Members: the matrix product
`a(i,j) = B(i,k) * C(k,j)` (nest `i, k, j`: the `j` layer is reached after the contraction `k`, so the
output goes through a bucket over `[j]`), matrix–vector, the dot product `a() = b(i) * c(i)` (bucket
over `[]`), `a(j) = B(i,j) * c(i)` (contraction loop OUTERMOST, bucket over the whole output), outer
products, tensor-times-vector, element-wise kernels (no contraction) of every order.

* **T1** `denseTerm_lower_eq` (and the generalised `denseTerm_lower_nest_eq`,
  `denseTerm_generateIr_eq`): `lower` emits `DenseTerm.termNest` = `termSB (.app 0) lv`, the
  recursive description of the loop nest (per level: `int x = 0; while (x < x_dim) { cursors;
  if (true) { next level } x = x + 1 }`, preceded by the "Bucket initialization" block at the first
  contraction level).
* **T2** `denseTerm_nest_correct` (Hoare theorem for every sub-nest, generalised over the prefix,
  the output state, the valuation and the current content of the slab) and `denseTerm_loops_correct`
  (the whole nest): the output cell of every output multi-index `J` ends up holding
  `cellF … J` — the terms of all contraction multi-indexes added IN LOOP ORDER starting from
  `ofInt 0` (what the bucket initialisation stores), or just the term when there is no contraction
  — inputs unchanged, exact iteration count `iters`, explicit no-overflow condition `Fits 1` on the
  prefix products of EVERY tensor's dimensions.
* **T3** `denseTerm_kernel_correct`: the whole `evaluate` function from an initial state as the
  driver builds it; corollaries `matmul_kernel_correct`, `dot_kernel_correct` with the cell formulas
  written out (`mmF`, `dotF`).
* **T4** `denseTerm_kernel_exact` (over `Rat` the cells are the nested sums `sumSem` of
  `Graph.value`), `matmul_kernel_denote` (the cells are `Alg.denote` of the source assignment
  `a(i,j) = B(i,k) * C(k,j)`).
* deviation `denseTerm_zero_factor_cex`: for an expression with a literal-zero factor the pass skips
  the contraction loop, so T1 needs `zeroish e = false` when there is a contraction level.
* non-vacuity: `2×3` times `3×2` matrix product over `Int` and `Rat`; the dot product.

Vocabulary (`Lemmas/DenseTermModel.lean`, `DenseTermSpec.lean`, `DenseTermKernel.lean`):
`Level = String × Bool`; `idxs lv`, `outIdxs lv`; `isLeaf xs t` (dense, `t.indexes` a sub-sequence of
`xs`), `isOut lv t` (dense, indexed by exactly `outIdxs lv`), `isExpr`, `zeroish`, `idsOK`;
`OMode` (`.app n` still appending at layer `n` / `.bkt n0` bucket opened at layer `n0`);
`termSB ofRat outT e m lv` the emitted builder; `upd`, `linIdx dimOf val l` (row-major
linearisation of the indexes `l` under `val`), `rho`, `termF`, `finF`; `sem … b lv val J f` what a
sub-nest does to cell `J` holding `f` (`b`: bucket mode), `semOK` what the machine checks,
`cellF`/`cellOK` the same for the whole kernel; `iters`, `fuelNeed`; `Ctx` the data of one kernel,
`Static C` its static side conditions, `Env C σ` what every level relies on, `St C pre val b σ` the
invariant on index variables and cursors, `Wr C b rest` the variables a sub-nest writes,
`Fr C W lo hi σ σ'` the frame, `CellIs C σ c f`; `KernelOK`, `Init`, `KernelPost`.
-/
namespace TV.DenseTerm
open TV.IR TV.Gen TV.Graph TV.Growth
open TV.Dense1 (leaves valueF allFinite RunsI RunsLI ratFloatOps)
open TV.DenseN (prod lin Fits Below)

variable {F : Type}

/-! ### T1: what the pass emits -/

/-- **T1.** For every level list `lv` with pairwise distinct index names, every output tensor
`outT` of the class (`isOut`: all modes dense, indexed by exactly the output indexes in nest order),
every expression of the class (`isExpr`: every leaf dense with an index list that is a sub-sequence
of the nest order) that has no literal-zero factor if there is a contraction level (`zeroish`), and
every fuel `≥ lv.length + 1`: `lower` succeeds on `graph lv outT e` and returns `termNest`, i.e.
`termSB ofRat outT e (.app 0) lv`, where recursively
```
termSB m []            = { <out>_vals[p_<out>_<N-1>] = e }              (m = .app _)
                       = { bucket[ravel(bucket indexes)] += e }        (m = .bkt n0)
termSB m ((x,o) :: r)  = { [Bucket initialization: double* bucket = <out>_vals + p_<out>_<n-1> * (1*d_n*…);
                             int i_bucket = 0; while (i_bucket < 1*d_n*…) { bucket[i_bucket] = 0; i_bucket++ }]
                                                                        (only if m = .app n and o = false)
                           int x = 0;
                           while (x < x_dim) {
                             [int p_<out>_<n> = p_<out>_<n-1> * x_dim + x;]   (only if m = .app n and o = true)
                             int p_<t>_<k> = p_<t>_<k-1> * x_dim + x;          (every leaf t with x at position k)
                             if (true) { termSB (m.next o) r }
                             x = x + 1; } }
``` -/
theorem denseTerm_lower_eq (ofRat : Rat → F) (k : Nat) (lv : List Level) (outT : TensorId) (e : IdExpr)
    (ho : isOut lv outT = true) (he : isExpr (idxs lv) e = true) (hnd : (idxs lv).Nodup)
    (hz : ∀ p ∈ lv, p.2 = false → zeroish e = false) :
    lower ofRat (lv.length + 1 + k) (graph lv outT e) (.append outT 0) .evaluate =
      .ok (termNest ofRat lv outT e) :=
  lower_eq ofRat k lv outT e ho he hnd hz

/-- **T1, generalised** (the induction hypothesis): the sub-nest over `rest` after the prefix `pre`
(`full = pre ++ rest`), lowered against the output object `m.out outT` that reaches it (`ModeOK`:
`.app n` only if every level of `pre` is an output level and `n = pre.length`), is `termSB … m rest`. -/
theorem denseTerm_lower_nest_eq (ofRat : Rat → F) (outT : TensorId) (e : IdExpr) (full : List Level)
    (ho : isOut full outT = true) (he : isExpr (idxs full) e = true) (hnd : (idxs full).Nodup)
    (hz : ∀ p ∈ full, p.2 = false → zeroish e = false)
    (rest pre : List Level) (m : OMode) (k : Nat) (hfull : full = pre ++ rest) (hm : ModeOK m pre) :
    lower ofRat (rest.length + 1 + k) (nest outT e (outIdxs pre).length rest) (m.out outT) .evaluate =
      .ok (termSB ofRat outT e m rest) :=
  lower_nest_eq ofRat outT e full ho he hnd hz rest pre m k hfull hm

/-- **The generated kernel.** For an assignment whose output is `outT`, an all-dense format table and
the graph of the class, `generateIr` succeeds and returns exactly `DenseTerm.kernel`:
`{ int <x>_dim = <name>->dimensions[<d>]; … (one per entry of `indexDimensions a`)
double* <t>_vals = t->vals; … int <out>_vals_capacity = 1 * out->dimensions[0] * …;
<out>_vals = malloc(…); <termNest>; out->vals = <out>_vals; return 0; }`. -/
theorem denseTerm_generateIr_eq [FloatOps F] (ofRat : Rat → F) (cap : Option Int) (a : Alg.DAssign)
    (formats : Formats) (lv : List Level) (outT : TensorId) (e : IdExpr)
    (hout : tensorId 0 a.tname formats a.tidx = some outT)
    (ho : isOut lv outT = true) (he : isExpr (idxs lv) e = true) (hnd : (idxs lv).Nodup)
    (hz : ∀ p ∈ lv, p.2 = false → zeroish e = false)
    (hf : Dense2.denseFormats formats = true) :
    generateIr ofRat cap a formats (graph lv outT e) .evaluate =
      .ok (kernel ofRat formats (indexDimensions a) lv outT e) :=
  generateIr_eq ofRat cap a formats _ lv outT e hout (Dense1.tensorId_name hout) ho he hnd hz hf rfl

variable [FloatOps F]

/-! ### T2 -/

/-- **T2 (Hoare theorem of every sub-nest; the induction hypothesis of the nest).** Let `C` be the
data of a kernel satisfying the static side conditions `Static C` (the class; distinct
underscore-free index names; underscore-free tensor names; an output id containing `'_'`; tensors
sharing an id share the index list; `Fits 1` on the dimensions of EVERY tensor — every prefix
product below `2^31`, dimensions of size `0` included —; every dimension below `2^31`).
For every split `C.full = pre ++ rest`, every output state `m` matching `pre` (`HMode`), every
valuation `val` of the indexes of `pre`, every state `σ` satisfying the invariant
`St C pre val m.isBkt σ` (the environment `Env`; every index variable of `pre` holds `val`, below
its dimension; every cursor `p_<t>_<k>` whose layers `0..k` are bound holds `linIdx` of them; in
bucket mode the bucket pointer points at `qb * Pb` in the output block), writing
`qo = linIdx C.dimOf val (outIdxs pre)` for the linearised output coordinates bound so far, `ds` for
the dimensions of the output levels of `rest` and `P = Π ds`:

if (in bucket mode) cell `lin qo ds J` of the output block holds `g J` for every `J` below `ds`, and
`semOK` holds at every such `J` (every terminal reached has all sub-results finite; in bucket mode
the accumulator read back and the new sum are finite), then the sub-nest `termSB … m rest` runs with
any fuel `≥ fuelNeed`, in exactly `iters` loop iterations, changes only the variables `Wr C _ rest`
and the cells `qo * P ≤ c < (qo + 1) * P` of the output block (`Fr`: every other block, every tensor
record, the heap size and every other variable unchanged), and leaves
`sem … m.isBkt rest val J (g J)` in cell `lin qo ds J`: in append mode the sub-nest WRITES the cells
of its index range, in bucket mode it ADDS the terms of the contraction multi-indexes of the
sub-nest, in loop order. -/
theorem denseTerm_nest_correct (ofRat : Rat → F) (C : Ctx F) (S : Static C)
    (rest pre : List Level) (m : OMode) (val : String → Nat) (g : List Nat → F) (σ : State F)
    (fuel : Nat) (hfull : C.full = pre ++ rest) (hmode : HMode C m pre)
    (hst : St C pre val m.isBkt σ)
    (hcells : m.isBkt = true → ∀ J, Below J (outDims C.dimOf rest) →
      CellIs C σ (lin (linIdx C.dimOf val (outIdxs pre)) (outDims C.dimOf rest) J) (g J))
    (hok : ∀ J, Below J (outDims C.dimOf rest) →
      semOK (termF ofRat C.dimOf C.cellsOf C.e) (finF ofRat C.dimOf C.cellsOf C.e) C.dimOf
        m.isBkt rest val J (g J))
    (hfuel : fuelNeed C.dimOf m.isBkt rest ≤ fuel) :
    ∃ σ', RunsI fuel (termSB ofRat C.outT C.e m rest).finalize σ σ' (iters C.dimOf m.isBkt rest) ∧
      Fr C (Wr C m.isBkt rest)
        (linIdx C.dimOf val (outIdxs pre) * prod (outDims C.dimOf rest))
        ((linIdx C.dimOf val (outIdxs pre) + 1) * prod (outDims C.dimOf rest)) σ σ' ∧
      ∀ J, Below J (outDims C.dimOf rest) →
        CellIs C σ' (lin (linIdx C.dimOf val (outIdxs pre)) (outDims C.dimOf rest) J)
          (sem (termF ofRat C.dimOf C.cellsOf C.e) C.dimOf m.isBkt rest val J (g J)) :=
  nestSpec_all ofRat S rest pre m val g σ fuel hfull hmode hst hcells hok hfuel

/-- **T2 (the whole loop nest).** Let `Static C` hold and `σ` satisfy `Env C σ`: `<x>_dim` holds
`C.dimOf x` for every index of the nest; `<out>_vals` points to block `C.ob`, a live output-owned
float block of at least `C.N = Π (output dimensions)` cells; for every tensor occurrence `t` of
`C.e`, `<t>_vals` points to a live float block `C.blkOf t.name ≠ C.ob` whose first `Π dims(t)` cells
are initialised with the floats `C.cellsOf t.name` (row-major in `t`'s own index order); the scratch
variables (`Wr C false C.full`: index variables, cursors, bucket pointer, bucket loop index) are
undeclared or declared with the type the nest declares them with. If `cellOK` holds at every output
multi-index (what the machine checks is finite), then whatever `lower` returns for the graph runs on
the machine with any fuel `≥ fuelNeed`, without error and without returning, in exactly
`iters C.dimOf false C.full` loop iterations, and in the final state

* for every output multi-index `J` below the output dimensions, cell `lin 0 dims J` (row-major) of
  block `C.ob` holds `cellF … J` = the terms `valueF e` of all contraction multi-indexes added in
  loop order starting from `ofInt 0` (just the term if there is no contraction index);
* `Fr`: the cells `≥ C.N` of the block, its liveness, owner, type and length, every other block
  (the inputs in particular), every tensor record, the heap size and every variable that is not a
  scratch variable are unchanged. -/
theorem denseTerm_loops_correct (ofRat : Rat → F) (C : Ctx F) (S : Static C)
    (hz : ∀ p ∈ C.full, p.2 = false → zeroish C.e = false) (σ : State F) (henv : Env C σ)
    (hok : ∀ J, Below J (outDims C.dimOf C.full) → cellOK ofRat C.dimOf C.cellsOf C.e C.full J)
    (k : Nat) (body : SB F)
    (hlow : lower ofRat (C.full.length + 1 + k) (graph C.full C.outT C.e) (.append C.outT 0) .evaluate =
      .ok body)
    (fuel : Nat) (hfuel : fuelNeed C.dimOf false C.full ≤ fuel) :
    ∃ o, exec fuel body.finalize σ = .ok o ∧ o.ret = none ∧ o.iters = iters C.dimOf false C.full ∧
      Fr C (Wr C false C.full) 0 C.N σ o.st ∧
      ∀ J, Below J (outDims C.dimOf C.full) →
        CellIs C o.st (lin 0 (outDims C.dimOf C.full) J)
          (cellF ofRat C.dimOf C.cellsOf C.e C.full J) := by
  rw [lower_eq ofRat k C.full C.outT C.e S.out S.expr S.nodup hz] at hlow
  cases hlow
  obtain ⟨σ', ⟨o, e1, e2, e3, e4⟩, hfr, hc⟩ := nest_top ofRat S henv hok fuel hfuel
  exact ⟨o, e1, e2, e4, e3 ▸ hfr, e3 ▸ hc⟩

/-- every cell of the output is the cell of some output multi-index: together with
`denseTerm_loops_correct` / `KernelPost`, no cell `c < C.N` is left unspecified -/
theorem denseTerm_cells_covered (ds : List Nat) (c : Nat) (hc : c < prod ds) :
    ∃ J, Below J ds ∧ lin 0 ds J = c :=
  lin_surj ds 0 c (by omega) (by simpa using hc)

/-- **The content of an output cell, flattened** ("`foldF` over the contraction multi-indexes in
loop order of `valueF e`"): for an output multi-index `J` below the output dimensions, `cellF … J` is
— if the nest has no contraction level — the terminal expression under the valuation that binds the
output levels to `J`; otherwise the left fold
`((ofInt 0 + t(K₁)) + t(K₂)) + …` over ALL contraction multi-indexes `K` in loop order
(`contrVals`: lexicographic in nest order, the first contraction index slowest) of the terminal
expression `t(K) = termF … (bindVal lv _ J K) = valueF ofRat (rho …) e` under the valuation that binds
the output levels to `J` and the contraction levels to `K`. -/
theorem denseTerm_cellF_flat (ofRat : Rat → F) (dimOf : String → Nat) (cellsOf : String → Nat → F)
    (e : IdExpr) (lv : List Level) (J : List Nat) (hJ : Below J (outDims dimOf lv)) :
    cellF ofRat dimOf cellsOf e lv J =
      if lv.all (·.2) then termF ofRat dimOf cellsOf e (bindVal lv (fun _ => 0) J [])
      else (contrVals dimOf lv).foldl
        (fun f K => FloatOps.add f (termF ofRat dimOf cellsOf e (bindVal lv (fun _ => 0) J K)))
        (FloatOps.ofInt 0) :=
  cellF_flat ofRat dimOf cellsOf e lv J hJ

/-! ### T3 -/

/-- **T3 (the whole `evaluate` function).** Let `a` be a desugared assignment whose output tensor
is `C.outT` (`tensorId 0 …`), `formats` an all-dense format table, `srcs = indexDimensions a` the
table "which tensor supplies each `_dim`", `C` the data of the kernel with `C.ob` the first free heap
address, `KernelOK` the static side conditions (`Static C`; underscore-free tensor names; indexes are
not tensor names; the tensors are in the format table; the output does not occur on the right; every
index of the nest has exactly one entry in `srcs`, naming a tensor of the table), and `σ` an initial
state as the driver builds it (`Init`: the variables are exactly the tensor parameters; the
`dimensions` block of the tensor `srcs` names holds the dimension at the stated position; the output
record is output-owned; every right-hand-side tensor has `vals` pointing to a live float block whose
first `Π dims(t)` cells hold `C.cellsOf t.name`). If `cellOK` holds at every output multi-index, then
the function `generateIr` produces for the graph of the class runs with any fuel `≥ fuelNeed`,
returns `0` after exactly `iters` loop iterations, and `KernelPost` holds: the output record's `vals`
points to the fresh block `σ.heap.length`, a live output-owned float block of exactly `C.N` cells in
which cell `lin 0 dims J` holds `cellF … J` for every output multi-index `J`; every old block and
every other tensor record is unchanged; the heap has grown by exactly that block. -/
theorem denseTerm_kernel_correct (ofRat : Rat → F) (cap : Option Int) (a : Alg.DAssign)
    (formats : Formats) (C : Ctx F)
    (hout : tensorId 0 a.tname formats a.tidx = some C.outT)
    (hz : ∀ p ∈ C.full, p.2 = false → zeroish C.e = false)
    (hf : Dense2.denseFormats formats = true)
    (ok : KernelOK formats (indexDimensions a) C) (tix : String → Nat) (σ : State F)
    (hob : C.ob = σ.heap.length)
    (hok : ∀ J, Below J (outDims C.dimOf C.full) → cellOK ofRat C.dimOf C.cellsOf C.e C.full J)
    (hinit : Init formats (indexDimensions a) C tix σ)
    (f : Func F) (hgen : generateIr ofRat cap a formats (graph C.full C.outT C.e) .evaluate = .ok f)
    (fuel : Nat) (hfuel : fuelNeed C.dimOf false C.full ≤ fuel) :
    ∃ o, exec fuel f.body σ = .ok o ∧ o.ret = some (.int 0) ∧ o.iters = iters C.dimOf false C.full ∧
      KernelPost ofRat C (tix C.outT.name) σ o.st := by
  have S := ok.static
  rw [denseTerm_generateIr_eq ofRat cap a formats C.full C.outT C.e hout S.out S.expr S.nodup hz hf] at hgen
  cases hgen
  exact kernel_runs ofRat formats _ C ok hob hok hinit fuel hfuel

/-- **T3 for the matrix product** `a(i,j) = Σ_k B(i,k) * C(k,j)` (all dense, nest `i, k, j`; distinct
index names). With `n = dimOf i`, `m = dimOf j`, `p = dimOf k`: the kernel returns `0` after exactly
`n * (m + p * (m + 1) + 1)` loop iterations (`n` for `i`, per `i`: `m` bucket-initialisation, `p` for
`k`, `p * m` for `j`), and cell `ii * m + jj` of the fresh output block (exactly `n * m` cells) holds
`mmF … ii jj p = ((ofInt 0 + B[ii,0] * C[0,jj]) + B[ii,1] * C[1,jj]) + … + B[ii,p-1] * C[p-1,jj]` where
`B[ii,kk]` is cell `ii * p + kk` of `B`'s array and `C[kk,jj]` cell `kk * m + jj` of `C`'s. -/
theorem matmul_kernel_correct (ofRat : Rat → F) (cap : Option Int) (an Bn Cn i j k : String)
    (k1 k2 : Nat) (formats : Formats) (outT tB tC : TensorId)
    (hij : i ≠ j) (hik : i ≠ k) (hjk : j ≠ k)
    (hout : tensorId 0 an formats [i, j] = some outT)
    (hf : Dense2.denseFormats formats = true)
    (hB : tB.indexes = [i, k]) (hC : tC.indexes = [k, j])
    (dimOf : String → Nat) (blkOf : String → Nat) (cellsOf : String → Nat → F)
    (tix : String → Nat) (σ : State F)
    (ok : KernelOK formats [(i, an, 0), (j, an, 1), (k, Bn, 1)]
      ⟨mmLv i j k, dimOf, outT, mulE tB tC, σ.heap.length, blkOf, cellsOf⟩)
    (hok : ∀ ii, ii < dimOf i → ∀ jj, jj < dimOf j →
      cellOK ofRat dimOf cellsOf (mulE tB tC) (mmLv i j k) [ii, jj])
    (hinit : Init formats [(i, an, 0), (j, an, 1), (k, Bn, 1)]
      ⟨mmLv i j k, dimOf, outT, mulE tB tC, σ.heap.length, blkOf, cellsOf⟩ tix σ)
    (f : Func F)
    (hgen : generateIr ofRat cap (mmAssign an Bn Cn i j k k1 k2) formats
      (graph (mmLv i j k) outT (mulE tB tC)) .evaluate = .ok f)
    (fuel : Nat)
    (hfuel : dimOf i + 1 + (dimOf j + 1 + (dimOf k + 1 + (dimOf j + 1))) ≤ fuel) :
    ∃ o, exec fuel f.body σ = .ok o ∧ o.ret = some (.int 0) ∧
      o.iters = dimOf i * (dimOf j + dimOf k * (dimOf j + 1) + 1) ∧
      (∃ tr, σ.tensors[tix outT.name]? = some tr ∧
        o.st.tensors[tix outT.name]? = some { tr with vals := .ptr σ.heap.length 0 }) ∧
      (∃ blk, o.st.heap[σ.heap.length]? = some blk ∧ blk.live = true ∧ blk.owner = .output ∧
        blk.ty = .float ∧ blk.cells.length = dimOf i * dimOf j ∧
        ∀ ii, ii < dimOf i → ∀ jj, jj < dimOf j →
          blk.cells[ii * dimOf j + jj]? = some (some (.flt
            (mmF (cellsOf tB.name) (cellsOf tC.name) (dimOf j) (dimOf k) ii jj (dimOf k))))) ∧
      (∀ b, b < σ.heap.length → o.st.heap[b]? = σ.heap[b]?) ∧
      o.st.heap.length = σ.heap.length + 1 ∧
      (∀ k', k' ≠ tix outT.name → o.st.tensors[k']? = σ.tensors[k']?) := by
  have hd := indexDimensions_mm an Bn Cn i j k k1 k2 hij hik hjk
  obtain ⟨o, eo, hret, hit, ⟨hrec, hother, ⟨blk, hb, hl, hw, hty, hlen, hcells⟩, hheap, hhl⟩⟩ :=
    denseTerm_kernel_correct ofRat cap (mmAssign an Bn Cn i j k k1 k2) formats
      ⟨mmLv i j k, dimOf, outT, mulE tB tC, σ.heap.length, blkOf, cellsOf⟩ hout
      (fun _ _ _ => rfl) hf (hd ▸ ok) tix σ rfl
      (by
        intro J hJ
        rw [mm_outDims] at hJ
        match J, hJ with
        | [ii, jj], ⟨h1, h2, _⟩ => exact hok ii h1 jj h2)
      (hd ▸ hinit) f hgen fuel (by rw [mm_fuel]; exact hfuel)
  refine ⟨o, eo, hret, by rw [hit, mm_iters], hrec, ⟨blk, hb, hl, hw, hty, ?_, ?_⟩, hheap, hhl, hother⟩
  · rw [hlen]; simp [Ctx.N, mm_outDims, prod]
  · intro ii hii jj hjj
    have := hcells [ii, jj] (by rw [mm_outDims]; exact ⟨hii, hjj, trivial⟩)
    rw [mm_outDims] at this
    simp only [lin, Nat.zero_mul, Nat.zero_add] at this
    rw [this, mm_cellF ofRat i j k hij hik hjk dimOf cellsOf tB tC hB hC]

/-- **T3 for the dot product** `a() = Σ_i b(i) * c(i)` (scalar output: bucket over no layers). With
`n = dimOf i`: the kernel returns `0` after exactly `1 + n` loop iterations (one of the bucket
initialisation), and the single cell of the fresh output block holds
`dotF … n = ((ofInt 0 + b[0] * c[0]) + b[1] * c[1]) + … + b[n-1] * c[n-1]`. -/
theorem dot_kernel_correct (ofRat : Rat → F) (cap : Option Int) (an bn cn i : String)
    (k1 k2 : Nat) (formats : Formats) (outT tb tc : TensorId)
    (hout : tensorId 0 an formats [] = some outT)
    (hf : Dense2.denseFormats formats = true)
    (hb : tb.indexes = [i]) (hc : tc.indexes = [i])
    (dimOf : String → Nat) (blkOf : String → Nat) (cellsOf : String → Nat → F)
    (tix : String → Nat) (σ : State F)
    (ok : KernelOK formats [(i, bn, 0)] ⟨dotLv i, dimOf, outT, mulE tb tc, σ.heap.length, blkOf, cellsOf⟩)
    (hok : cellOK ofRat dimOf cellsOf (mulE tb tc) (dotLv i) [])
    (hinit : Init formats [(i, bn, 0)]
      ⟨dotLv i, dimOf, outT, mulE tb tc, σ.heap.length, blkOf, cellsOf⟩ tix σ)
    (f : Func F)
    (hgen : generateIr ofRat cap (dotAssign an bn cn i k1 k2) formats
      (graph (dotLv i) outT (mulE tb tc)) .evaluate = .ok f)
    (fuel : Nat) (hfuel : 2 + (dimOf i + 1) ≤ fuel) :
    ∃ o, exec fuel f.body σ = .ok o ∧ o.ret = some (.int 0) ∧ o.iters = 1 + dimOf i ∧
      (∃ tr, σ.tensors[tix outT.name]? = some tr ∧
        o.st.tensors[tix outT.name]? = some { tr with vals := .ptr σ.heap.length 0 }) ∧
      (∃ blk, o.st.heap[σ.heap.length]? = some blk ∧ blk.live = true ∧ blk.owner = .output ∧
        blk.ty = .float ∧
        blk.cells = [some (.flt (dotF (cellsOf tb.name) (cellsOf tc.name) (dimOf i)))]) ∧
      (∀ b, b < σ.heap.length → o.st.heap[b]? = σ.heap[b]?) ∧
      o.st.heap.length = σ.heap.length + 1 ∧
      (∀ k', k' ≠ tix outT.name → o.st.tensors[k']? = σ.tensors[k']?) := by
  have hd := indexDimensions_dot an bn cn i k1 k2
  obtain ⟨o, eo, hret, hit, ⟨hrec, hother, ⟨blk, hbk, hl, hw, hty, hlen, hcells⟩, hheap, hhl⟩⟩ :=
    denseTerm_kernel_correct ofRat cap (dotAssign an bn cn i k1 k2) formats
      ⟨dotLv i, dimOf, outT, mulE tb tc, σ.heap.length, blkOf, cellsOf⟩ hout
      (fun _ _ _ => rfl) hf (hd ▸ ok) tix σ rfl
      (by
        intro J hJ
        have : outDims dimOf (dotLv i) = [] := by simp [outDims, dotLv]
        rw [this] at hJ
        rw [below_nil hJ]; exact hok)
      (hd ▸ hinit) f hgen fuel (by rw [dot_fuel]; exact hfuel)
  refine ⟨o, eo, hret, by rw [hit, dot_iters], hrec, ⟨blk, hbk, hl, hw, hty, ?_⟩, hheap, hhl, hother⟩
  have hN : blk.cells.length = 1 := by rw [hlen]; simp [Ctx.N, outDims, dotLv, prod]
  have h0 := hcells [] (by simp [outDims, dotLv, Below])
  have : outDims dimOf (dotLv i) = [] := by simp [outDims, dotLv]
  rw [this] at h0
  simp only [lin] at h0
  rw [dot_cellF ofRat i dimOf cellsOf tb tc hb hc] at h0
  match hcs : blk.cells, hN with
  | [c0], _ =>
    rw [hcs] at h0
    simp at h0
    rw [h0]

/-! ### T4 -/

/-- **T4 (general class, exact carrier).** Over `Rat` (exact arithmetic, everything finite, literals
through `id`) there is no finiteness hypothesis left, and the cell of every output multi-index `J`
holds the nested sum over the contraction indexes (in nest order) of the terminal expression —
`sumSem`, the analogue of `Alg.sumOver` — where the terminal expression under a valuation is
`Graph.value` (`termF_rat`). -/
theorem denseTerm_kernel_exact (cap : Option Int) (a : Alg.DAssign) (formats : Formats) (C : Ctx Rat)
    (hout : tensorId 0 a.tname formats a.tidx = some C.outT)
    (hz : ∀ p ∈ C.full, p.2 = false → zeroish C.e = false)
    (hf : Dense2.denseFormats formats = true)
    (ok : KernelOK formats (indexDimensions a) C) (tix : String → Nat) (σ : State Rat)
    (hob : C.ob = σ.heap.length) (hinit : Init formats (indexDimensions a) C tix σ)
    (f : Func Rat) (hgen : generateIr id cap a formats (graph C.full C.outT C.e) .evaluate = .ok f)
    (fuel : Nat) (hfuel : fuelNeed C.dimOf false C.full ≤ fuel) :
    ∃ o, exec fuel f.body σ = .ok o ∧ o.ret = some (.int 0) ∧
      (∃ tr, σ.tensors[tix C.outT.name]? = some tr ∧
        o.st.tensors[tix C.outT.name]? = some { tr with vals := .ptr σ.heap.length 0 }) ∧
      ∃ blk, o.st.heap[σ.heap.length]? = some blk ∧ blk.live = true ∧ blk.cells.length = C.N ∧
        ∀ J, Below J (outDims C.dimOf C.full) →
          blk.cells[lin 0 (outDims C.dimOf C.full) J]? = some (some (.flt
            (sumSem (termF (F := Rat) id C.dimOf C.cellsOf C.e) C.dimOf C.full (fun _ => 0) J))) := by
  obtain ⟨o, eo, hret, _, ⟨hrec, _, ⟨blk, hb, hl, _, _, hlen, hcells⟩, _, _⟩⟩ :=
    denseTerm_kernel_correct (F := Rat) id cap a formats C hout hz hf ok tix σ hob
      (fun J _ => cellOK_of_total (fun _ => rfl) _ _ _ _ _ J) hinit f hgen fuel hfuel
  refine ⟨o, eo, hret, hrec, blk, hb, hl, hlen, ?_⟩
  intro J hJ
  rw [hcells J hJ, cellF_rat C.dimOf C.cellsOf C.e C.full J hJ]

/-- **T4 for the matrix product: the kernel computes the specification.** Over `Rat`, for the kernel
generated from `Alg.desugar` of the SOURCE assignment `a(i,j) = B(i,k) * C(k,j)`, with the inputs of
the specification related to the arrays by `inputs B [ii,kk] = cells of B at ii * p + kk`,
`inputs C [kk,jj] = cells of C at kk * m + jj` and `sizes k = p`: cell `ii * m + jj` of the output
holds `Alg.denote (a(i,j) = B(i,k) * C(k,j)) inputs sizes [ii, jj]` (= `Σ_k B[i,k] * C[k,j]`,
`denote_matmul`). -/
theorem matmul_kernel_denote (cap : Option Int) (an Bn Cn i j k : String)
    (formats : Formats) (outT tB tC : TensorId)
    (hij : i ≠ j) (hik : i ≠ k) (hjk : j ≠ k)
    (hout : tensorId 0 an formats [i, j] = some outT)
    (hf : Dense2.denseFormats formats = true)
    (hB : tB.indexes = [i, k]) (hC : tC.indexes = [k, j])
    (dimOf : String → Nat) (blkOf : String → Nat) (cellsOf : String → Nat → Rat)
    (tix : String → Nat) (σ : State Rat)
    (ok : KernelOK formats [(i, an, 0), (j, an, 1), (k, Bn, 1)]
      ⟨mmLv i j k, dimOf, outT, mulE tB tC, σ.heap.length, blkOf, cellsOf⟩)
    (hinit : Init formats [(i, an, 0), (j, an, 1), (k, Bn, 1)]
      ⟨mmLv i j k, dimOf, outT, mulE tB tC, σ.heap.length, blkOf, cellsOf⟩ tix σ)
    (inputs : Alg.Inputs) (sizes : Alg.Sizes) (hsz : sizes k = dimOf k)
    (hinB : ∀ ii, ii < dimOf i → ∀ kk, kk < dimOf k →
      inputs Bn [ii, kk] = cellsOf tB.name (ii * dimOf k + kk))
    (hinC : ∀ kk, kk < dimOf k → ∀ jj, jj < dimOf j →
      inputs Cn [kk, jj] = cellsOf tC.name (kk * dimOf j + jj))
    (f : Func Rat)
    (hgen : generateIr id cap
      (Alg.desugar ⟨an, [i, j], .mul (.tensor Bn [i, k]) (.tensor Cn [k, j])⟩) formats
      (graph (mmLv i j k) outT (mulE tB tC)) .evaluate = .ok f)
    (fuel : Nat)
    (hfuel : dimOf i + 1 + (dimOf j + 1 + (dimOf k + 1 + (dimOf j + 1))) ≤ fuel) :
    ∃ o, exec fuel f.body σ = .ok o ∧ o.ret = some (.int 0) ∧
      (∃ tr, σ.tensors[tix outT.name]? = some tr ∧
        o.st.tensors[tix outT.name]? = some { tr with vals := .ptr σ.heap.length 0 }) ∧
      ∃ blk, o.st.heap[σ.heap.length]? = some blk ∧ blk.live = true ∧
        blk.cells.length = dimOf i * dimOf j ∧
        ∀ ii, ii < dimOf i → ∀ jj, jj < dimOf j →
          blk.cells[ii * dimOf j + jj]? = some (some (.flt
            (Alg.denote ⟨an, [i, j], .mul (.tensor Bn [i, k]) (.tensor Cn [k, j])⟩
              inputs sizes [ii, jj]))) := by
  rw [desugar_mm an Bn Cn i j k hij hik hjk] at hgen
  obtain ⟨o, eo, hret, _, hrec, ⟨blk, hb, hl, _, _, hlen, hcells⟩, _⟩ :=
    matmul_kernel_correct (F := Rat) id cap an Bn Cn i j k 1 2 formats outT tB tC hij hik hjk hout hf
      hB hC dimOf blkOf cellsOf tix σ ok
      (fun ii _ jj _ => cellOK_of_total (fun _ => rfl) _ _ _ _ _ _) hinit f hgen fuel hfuel
  refine ⟨o, eo, hret, hrec, blk, hb, hl, hlen, ?_⟩
  intro ii hii jj hjj
  rw [hcells ii hii jj hjj, denote_matmul inputs sizes an Bn Cn i j k hij hik hjk ii jj, mmF_rat, hsz]
  congr 3
  apply Dense2.sumRange_congr
  intro kk hkk
  rw [hinB ii hii kk hkk, hinC kk hkk jj hjj]

/-! ### deviation: a literal-zero factor -/

/-- the expression `b(i) * 0` of the counterexample -/
def cexB : TensorId := ⟨"1_b", "b", ["i"], [.dense]⟩
def cexOut : TensorId := ⟨"0_a", "a", [], []⟩
def cexE : IdExpr := .mul (.tensor cexB) (.int 0)

omit [FloatOps F] in
/-- **Deviation (T1 needs `zeroish e = false` at contraction levels).** For `a() = Σ_i b(i) * 0` —
a member of the class as the brief words it (a product over a literal and a dense leaf) — every
other hypothesis of T1 holds, but `extract_context` marks the contraction loop over `i` as sparse
without any sparse leaf, and `lower` emits ONLY the bucket initialisation: no loop at all. So the
result is not `termNest` (which has the loop). The emitted kernel leaves `ofInt 0` in the output. -/
theorem denseTerm_zero_factor_cex (ofRat : Rat → F) :
    isOut [("i", false)] cexOut = true ∧ isExpr (idxs [("i", false)]) cexE = true ∧
    (idxs [("i", false)]).Nodup ∧ zeroish cexE = true ∧
    lower ofRat 5 (graph [("i", false)] cexOut cexE) (.append cexOut 0) .evaluate =
      .ok ⟨some "*** Iteration over i ***", [bucketInit cexOut 0]⟩ ∧
    lower ofRat 5 (graph [("i", false)] cexOut cexE) (.append cexOut 0) .evaluate ≠
      .ok (termNest ofRat [("i", false)] cexOut cexE) := by
  have hlow : lower ofRat 5 (graph [("i", false)] cexOut cexE) (.append cexOut 0) .evaluate =
      .ok ⟨some "*** Iteration over i ***", [bucketInit cexOut 0]⟩ := by
    have hg : graph [("i", false)] cexOut cexE = .iter "i" none (.terminal cexE) := rfl
    rw [hg]
    have hnc : nodeContext (IGraph.iter "i" none (.terminal cexE)) = ⟨true, [], [⟨cexB, 0⟩]⟩ := by
      simp [nodeContext, IGraph.context, extractContext, Context.mul, cexE, cexB, List.findIdx?_cons]
    have hcd : compressedDims (IGraph.iter "i" none (.terminal cexE)) = [] := by
      simp [compressedDims, hnc, dedupStr]
    have hsub := DenseN.generateSubgraphs_eq _ hcd
    have hnext := bucket_next (F := F) cexOut 0 (by decide)
    unfold lower
    simp only [Kind.isCompute, Bool.not_true, Bool.false_and, Bool.false_eq_true, if_false]
    simp [hnc, hsub, hcd, hnext, isSparseOutput, bind, Except.bind, pure, Except.pure, SB.mk',
      SB.append, bucketInit, bucketDeclarations, SB.finalize, SB.loop, SB.add]
  refine ⟨by decide, by decide, by decide, by decide, hlow, ?_⟩
  rw [hlow]
  intro h
  have := congrArg (fun r => match r with | .ok (sb : SB F) => sb.lines.length | .error _ => 0) h
  simp [termNest, termSB, initDecl] at this

/-! ### non-vacuity: `a(i,j) = B(i,k) * C(k,j)`, `2×3` times `3×2` -/

def exFormats : Formats :=
  [("a", [.dense, .dense], [0, 1]), ("B", [.dense, .dense], [0, 1]), ("C", [.dense, .dense], [0, 1])]
def exOut : TensorId := ⟨"0_a", "a", ["i", "j"], [.dense, .dense]⟩
def exB : TensorId := ⟨"1_B", "B", ["i", "k"], [.dense, .dense]⟩
def exC : TensorId := ⟨"2_C", "C", ["k", "j"], [.dense, .dense]⟩
def exE : IdExpr := mulE exB exC
def exLv : List Level := mmLv "i" "j" "k"
/-- the source assignment `a(i,j) = B(i,k) * C(k,j)` -/
def exSource : Alg.Assign := ⟨"a", ["i", "j"], .mul (.tensor "B" ["i", "k"]) (.tensor "C" ["k", "j"])⟩
def exAssign : Alg.DAssign := Alg.desugar exSource
def exDimOf : String → Nat := fun s => if s = "k" then 3 else 2
def exTix : String → Nat := fun s => if s = "a" then 0 else if s = "B" then 1 else 2
def exBlkOf : String → Nat := fun s => if s = "B" then 2 else 4
def exSrcs : List (String × String × Nat) := [("i", "a", 0), ("j", "a", 1), ("k", "B", 1)]

/-- the graph of the class (nest `i, k, j`) is the one the front half chooses for the matrix product -/
example : bestAlgorithm exAssign exFormats = .graph (graph exLv exOut exE) := by rfl

/-- the dot product: the graph the front half chooses is the one-level nest over the contraction -/
example : bestAlgorithm (Alg.desugar ⟨"a", [], .mul (.tensor "b" ["i"]) (.tensor "c" ["i"])⟩)
    [("a", [], []), ("b", [.dense], [0]), ("c", [.dense], [0])] =
    .graph (graph (dotLv "i") ⟨"0_a", "a", [], []⟩
      (mulE ⟨"1_b", "b", ["i"], [.dense]⟩ ⟨"2_c", "c", ["i"], [.dense]⟩)) := by rfl

/-- `a(j) = B(i,j) * c(i)`: the contraction loop is OUTERMOST -/
example : bestAlgorithm (Alg.desugar ⟨"a", ["j"], .mul (.tensor "B" ["i", "j"]) (.tensor "c" ["i"])⟩)
    [("a", [.dense], [0]), ("B", [.dense, .dense], [0, 1]), ("c", [.dense], [0])] =
    .graph (graph [("i", false), ("j", true)] ⟨"0_a", "a", ["j"], [.dense]⟩
      (mulE ⟨"1_B", "B", ["i", "j"], [.dense, .dense]⟩ ⟨"2_c", "c", ["i"], [.dense]⟩)) := by rfl

/-- generic in the carrier: the state the driver builds for `a` (output, dimensions 2 × 2),
`B = [[1,2,3],[4,5,6]]`, `C = [[7,8],[9,10],[11,12]]` (row-major) -/
def exStateOf {F : Type} (c : Int → F) : State F :=
  { vars := [⟨"a", .ptr .tensor, some (.tensor 0)⟩, ⟨"B", .ptr .tensor, some (.tensor 1)⟩,
             ⟨"C", .ptr .tensor, some (.tensor 2)⟩],
    heap := [⟨.int, [some (.int 2), some (.int 2)], .output, true⟩,
             ⟨.int, [some (.int 2), some (.int 3)], .input, true⟩,
             ⟨.float, [some (.flt (c 1)), some (.flt (c 2)), some (.flt (c 3)),
                       some (.flt (c 4)), some (.flt (c 5)), some (.flt (c 6))], .input, true⟩,
             ⟨.int, [some (.int 3), some (.int 2)], .input, true⟩,
             ⟨.float, [some (.flt (c 7)), some (.flt (c 8)), some (.flt (c 9)),
                       some (.flt (c 10)), some (.flt (c 11)), some (.flt (c 12))], .input, true⟩],
    tensors := [⟨2, 0, [none, none], .null, .output⟩, ⟨2, 1, [none, none], .ptr 2 0, .input⟩,
                ⟨2, 3, [none, none], .ptr 4 0, .input⟩] }
def exCellsOf {F : Type} (c : Int → F) : String → Nat → F :=
  fun s k => if s = "B" then [c 1, c 2, c 3, c 4, c 5, c 6].getD k (c 0)
    else [c 7, c 8, c 9, c 10, c 11, c 12].getD k (c 0)
/-- the data of the instance -/
def exCtx {F : Type} (c : Int → F) : Ctx F := ⟨exLv, exDimOf, exOut, exE, 5, exBlkOf, exCellsOf c⟩

theorem exStaticOf {F : Type} (ob : Nat) (cells : String → Nat → F) :
    Static ⟨exLv, exDimOf, exOut, exE, ob, exBlkOf, cells⟩ := by
  refine ⟨?_, ?_, ?_, ?_, ?_, ?_, ?_, ?_, ?_⟩
  · show isOut exLv exOut = true; decide
  · show isExpr (idxs exLv) exE = true; decide
  · show (idxs exLv).Nodup; decide
  · show ∀ x ∈ idxs exLv, '_' ∉ x.toList; decide
  · show ∀ t ∈ exOut :: leaves exE, '_' ∉ t.name.toList; decide
  · show '_' ∈ exOut.id.toList; decide
  · show idsOK (exOut :: leaves exE) = true; decide
  · show ∀ t ∈ exOut :: leaves exE, Fits 1 (t.indexes.map exDimOf)
    intro t ht
    simp only [exE, mulE, leaves, List.cons_append, List.nil_append, List.mem_cons,
      List.not_mem_nil, or_false] at ht
    rcases ht with rfl | rfl | rfl <;> simp [DenseN.Fits, exOut, exB, exC, exDimOf]
  · show ∀ x ∈ idxs exLv, exDimOf x < 2147483648; decide

theorem exStatic {F : Type} (c : Int → F) : Static (exCtx c) := exStaticOf 5 _

theorem exKernelOK {F : Type} (c : Int → F) : KernelOK exFormats exSrcs (exCtx c) := by
  refine ⟨exStatic c, ⟨"a", rfl⟩, ?_, ?_, ?_, ?_, ?_, ?_, ?_, ?_⟩
  · show ∀ f ∈ exFormats, '_' ∉ f.1.toList; decide
  · show ∀ x ∈ idxs exLv, x ∉ exFormats.map (·.1); decide
  · show exOut.name ∈ exFormats.map (·.1); decide
  · show ∀ t ∈ leaves exE, t.name ∈ exFormats.map (·.1) ∧ t.name ≠ exOut.name; decide
  · show (exSrcs.map (·.1)).Nodup; decide
  · show ∀ p ∈ exSrcs, p.1 ∈ idxs exLv ∧ p.2.1 ∈ exFormats.map (·.1) ∧ p.2.2 < 2147483648; decide
  · show ∀ x ∈ idxs exLv, x ∈ exSrcs.map (·.1); decide
  · show exOut.indexes.length < 2147483648; decide

theorem exInitOf {F : Type} [FloatOps F] (c : Int → F) :
    Init exFormats exSrcs (exCtx c) exTix (exStateOf c) := by
  refine ⟨?_, ?_, ?_, ?_, ?_, ?_⟩
  · intro f hf
    simp only [exFormats, List.mem_cons, List.not_mem_nil, or_false] at hf
    rcases hf with rfl | rfl | rfl <;> exact ⟨_, rfl, rfl, rfl⟩
  · intro x hx
    simp only [exFormats, List.map_cons, List.map_nil, List.mem_cons, List.not_mem_nil, or_false,
      not_or] at hx
    obtain ⟨h1, h2, h3⟩ := hx
    have e1 : ("a" == x) = false := beq_eq_false_iff_ne.2 (Ne.symm h1)
    have e2 : ("B" == x) = false := beq_eq_false_iff_ne.2 (Ne.symm h2)
    have e3 : ("C" == x) = false := beq_eq_false_iff_ne.2 (Ne.symm h3)
    simp [lookupVar, exStateOf, List.find?, e1, e2, e3]
  · intro f hf
    simp only [exFormats, List.mem_cons, List.not_mem_nil, or_false] at hf
    rcases hf with rfl | rfl | rfl <;> exact ⟨_, rfl, rfl⟩
  · intro p hp
    simp only [exSrcs, List.mem_cons, List.not_mem_nil, or_false] at hp
    rcases hp with rfl | rfl | rfl <;> exact ⟨_, _, rfl, rfl, rfl, rfl, rfl⟩
  · refine ⟨_, _, rfl, rfl, rfl, rfl, rfl, ?_⟩
    intro k hk
    have h2 : (exCtx c).outT.indexes.length = 2 := rfl
    rw [h2] at hk
    match k, hk with
    | 0, _ => rfl
    | 1, _ => rfl
  · intro t ht
    simp only [exCtx, exE, mulE, leaves, List.cons_append, List.nil_append, List.mem_cons,
      List.not_mem_nil, or_false] at ht
    rcases ht with rfl | rfl
    · refine ⟨_, _, rfl, rfl, rfl, rfl, rfl, ?_⟩
      intro k hk
      have h6 : prod (exB.indexes.map (exCtx c).dimOf) = 6 := by show prod (exB.indexes.map exDimOf) = 6; decide
      rw [h6] at hk
      match k, hk with
      | 0, _ => rfl
      | 1, _ => rfl
      | 2, _ => rfl
      | 3, _ => rfl
      | 4, _ => rfl
      | 5, _ => rfl
    · refine ⟨_, _, rfl, rfl, rfl, rfl, rfl, ?_⟩
      intro k hk
      have h6 : prod (exC.indexes.map (exCtx c).dimOf) = 6 := by show prod (exC.indexes.map exDimOf) = 6; decide
      rw [h6] at hk
      match k, hk with
      | 0, _ => rfl
      | 1, _ => rfl
      | 2, _ => rfl
      | 3, _ => rfl
      | 4, _ => rfl
      | 5, _ => rfl

/-- literals of the instance over `Int`: the numerator -/
def exOfRat : Rat → Int := fun q => q.num

theorem exAssign_eq : exAssign = mmAssign "a" "B" "C" "i" "j" "k" 1 2 :=
  desugar_mm "a" "B" "C" "i" "j" "k" (by decide) (by decide) (by decide)

/-- **T3 is not vacuous** (over `Int`): every hypothesis holds on the instance, `generateIr` produces
a kernel, and the run returns `0` after `2 * (2 + 3 * 3 + 1) = 24` loop iterations and leaves
`[[58, 64], [139, 154]]` (row-major) in the fresh block `5` the output record points to -/
example : ∃ f o, generateIr exOfRat none exAssign exFormats (graph exLv exOut exE) .evaluate = .ok f ∧
    exec 13 f.body (exStateOf (F := Int) id) = .ok o ∧ o.ret = some (.int 0) ∧ o.iters = 24 ∧
    (∃ tr, o.st.tensors[0]? = some tr ∧ tr.vals = .ptr 5 0) ∧
    ∃ blk, o.st.heap[5]? = some blk ∧ blk.live = true ∧
      blk.cells = [some (.flt 58), some (.flt 64), some (.flt 139), some (.flt 154)] := by
  have hgen : generateIr exOfRat none exAssign exFormats (graph exLv exOut exE) .evaluate =
      .ok (kernel exOfRat exFormats (indexDimensions exAssign) exLv exOut exE) :=
    denseTerm_generateIr_eq exOfRat none exAssign exFormats exLv exOut exE (by rw [exAssign_eq]; rfl)
      (by decide) (by decide) (by decide) (by decide) (by decide)
  have hgen' := hgen
  rw [exAssign_eq] at hgen'
  obtain ⟨o, eo, hret, hit, ⟨tr, htr, htr'⟩, ⟨blk, hb, hlive, _, _, hlen, hcells⟩, _⟩ :=
    matmul_kernel_correct exOfRat none "a" "B" "C" "i" "j" "k" 1 2 exFormats exOut exB exC (by decide)
      (by decide) (by decide) (by decide) (by decide) rfl rfl exDimOf exBlkOf (exCellsOf (F := Int) id)
      exTix (exStateOf (F := Int) id) (exKernelOK _)
      (fun ii _ jj _ => cellOK_of_total (fun _ => rfl) _ _ _ _ _ _) (exInitOf (F := Int) id) _ hgen' 13
      (by decide)
  refine ⟨_, o, hgen, eo, hret, hit, ⟨_, htr', rfl⟩, blk, hb, hlive, ?_⟩
  have h4 : blk.cells.length = 4 := hlen
  have c00 := hcells 0 (by decide) 0 (by decide)
  have c01 := hcells 0 (by decide) 1 (by decide)
  have c10 := hcells 1 (by decide) 0 (by decide)
  have c11 := hcells 1 (by decide) 1 (by decide)
  match hcs : blk.cells, h4 with
  | [x0, x1, x2, x3], _ =>
    rw [hcs] at c00 c01 c10 c11
    simp [exDimOf] at c00 c01 c10 c11
    rw [c00, c01, c10, c11]
    rfl

/-- the inputs of the instance as the specification sees them -/
def exInputs : Alg.Inputs := fun s coord =>
  if s = "B" then [(1 : Rat), 2, 3, 4, 5, 6].getD (coord.getD 0 0 * 3 + coord.getD 1 0) 0
  else [(7 : Rat), 8, 9, 10, 11, 12].getD (coord.getD 0 0 * 2 + coord.getD 1 0) 0
def exSizes : Alg.Sizes := fun s => if s = "k" then 3 else 2

/-- **T4 is not vacuous**: the same instance over the exact carrier `Rat`; the kernel generated from
`Alg.desugar` of the source assignment leaves exactly `Alg.denote (a(i,j) = B(i,k) * C(k,j))` at
every coordinate — and the specification evaluates to `58` at `[0,0]` and `154` at `[1,1]` -/
example : ∃ f o, generateIr (F := Rat) id none exAssign exFormats (graph exLv exOut exE) .evaluate = .ok f ∧
    exec 13 f.body (exStateOf (fun z => (z : Rat))) = .ok o ∧ o.ret = some (.int 0) ∧
    (∃ blk, o.st.heap[5]? = some blk ∧ blk.live = true ∧ blk.cells.length = 4 ∧
      ∀ ii, ii < 2 → ∀ jj, jj < 2 → blk.cells[ii * 2 + jj]? =
        some (some (.flt (Alg.denote exSource exInputs exSizes [ii, jj])))) ∧
    Alg.denote exSource exInputs exSizes [0, 0] = 58 ∧
    Alg.denote exSource exInputs exSizes [1, 1] = 154 := by
  have hgen : generateIr (F := Rat) id none exAssign exFormats (graph exLv exOut exE) .evaluate =
      .ok (kernel id exFormats (indexDimensions exAssign) exLv exOut exE) :=
    denseTerm_generateIr_eq id none exAssign exFormats exLv exOut exE (by rw [exAssign_eq]; rfl)
      (by decide) (by decide) (by decide) (by decide) (by decide)
  obtain ⟨o, eo, hret, _, blk, hb, hlive, hlen, hcells⟩ :=
    matmul_kernel_denote none "a" "B" "C" "i" "j" "k" exFormats exOut exB exC (by decide)
      (by decide) (by decide) (by decide) (by decide) rfl rfl exDimOf exBlkOf
      (exCellsOf (fun z => (z : Rat))) exTix (exStateOf (fun z => (z : Rat))) (exKernelOK _)
      (exInitOf (fun z => (z : Rat))) exInputs exSizes rfl
      (by
        intro ii hii kk hkk
        have hii : ii < 2 := hii
        have hkk : kk < 3 := hkk
        match ii, hii, kk, hkk with
        | 0, _, 0, _ => rfl
        | 0, _, 1, _ => rfl
        | 0, _, 2, _ => rfl
        | 1, _, 0, _ => rfl
        | 1, _, 1, _ => rfl
        | 1, _, 2, _ => rfl)
      (by
        intro kk hkk jj hjj
        have hjj : jj < 2 := hjj
        have hkk : kk < 3 := hkk
        match kk, hkk, jj, hjj with
        | 0, _, 0, _ => rfl
        | 0, _, 1, _ => rfl
        | 1, _, 0, _ => rfl
        | 1, _, 1, _ => rfl
        | 2, _, 0, _ => rfl
        | 2, _, 1, _ => rfl)
      _ hgen 13 (by decide)
  refine ⟨_, o, hgen, eo, hret, ⟨blk, hb, hlive, hlen, hcells⟩, ?_, ?_⟩
  · rw [show exSource = ⟨"a", ["i", "j"], .mul (.tensor "B" ["i", "k"]) (.tensor "C" ["k", "j"])⟩ from rfl,
      denote_matmul exInputs exSizes "a" "B" "C" "i" "j" "k" (by decide) (by decide) (by decide) 0 0]
    simp [Alg.sumRange, exSizes, exInputs, List.range, List.range.loop]
    grind
  · rw [show exSource = ⟨"a", ["i", "j"], .mul (.tensor "B" ["i", "k"]) (.tensor "C" ["k", "j"])⟩ from rfl,
      denote_matmul exInputs exSizes "a" "B" "C" "i" "j" "k" (by decide) (by decide) (by decide) 1 1]
    simp [Alg.sumRange, exSizes, exInputs, List.range, List.range.loop]
    grind

/-- a state in the middle of the kernel: after the prologue, before the loop nest; the output block
`0` has a fifth cell that the nest must not touch -/
def exLoopState : State Int :=
  { vars := [⟨"i_dim", .int, some (.int 2)⟩, ⟨"j_dim", .int, some (.int 2)⟩, ⟨"k_dim", .int, some (.int 3)⟩,
             ⟨"a_vals", .ptr .float, some (.ptr 0 0)⟩,
             ⟨"B_vals", .ptr .float, some (.ptr 2 0)⟩, ⟨"C_vals", .ptr .float, some (.ptr 4 0)⟩],
    heap := [⟨.float, [none, none, none, none, some (.flt 77)], .output, true⟩,
             ⟨.int, [some (.int 2), some (.int 3)], .input, true⟩,
             ⟨.float, [some (.flt 1), some (.flt 2), some (.flt 3),
                       some (.flt 4), some (.flt 5), some (.flt 6)], .input, true⟩,
             ⟨.int, [some (.int 3), some (.int 2)], .input, true⟩,
             ⟨.float, [some (.flt 7), some (.flt 8), some (.flt 9),
                       some (.flt 10), some (.flt 11), some (.flt 12)], .input, true⟩],
    tensors := [] }

/-- the data of the mid-kernel instance: output block `0` -/
def exLoopCtx : Ctx Int := ⟨exLv, exDimOf, exOut, exE, 0, exBlkOf, exCellsOf (F := Int) id⟩

/-- **T2 is not vacuous**: `Static` and `Env` hold in `exLoopState`, and the loop nest `lower` emits
leaves `58, 64, 139, 154` in the cells of the four output multi-indexes, the fifth cell unchanged,
after `24` loop iterations -/
example : ∃ body o,
    lower exOfRat 20 (graph exLv exOut exE) (.append exOut 0) .evaluate = .ok body ∧
    exec 13 body.finalize exLoopState = .ok o ∧ o.ret = none ∧ o.iters = 24 ∧
    ∃ blk, o.st.heap[0]? = some blk ∧
      blk.cells = [some (.flt 58), some (.flt 64), some (.flt 139), some (.flt 154), some (.flt 77)] := by
  have hlow := denseTerm_lower_eq exOfRat 16 exLv exOut exE (by decide) (by decide) (by decide)
    (fun _ _ _ => rfl)
  have S : Static exLoopCtx := exStaticOf 0 _
  have henv : Env exLoopCtx exLoopState := by
    refine ⟨?_, ⟨_, _, rfl, rfl, rfl⟩, ⟨_, rfl, rfl, rfl, rfl, by decide⟩, ?_, ?_⟩
    · intro x hx
      simp only [exLoopCtx, exLv, mmLv, idxs, List.map_cons, List.map_nil, List.mem_cons,
        List.not_mem_nil, or_false] at hx
      rcases hx with rfl | rfl | rfl <;> exact ⟨_, rfl, rfl, rfl⟩
    · intro t ht
      simp only [exLoopCtx, exE, mulE, leaves, List.cons_append, List.nil_append, List.mem_cons,
        List.not_mem_nil, or_false] at ht
      rcases ht with rfl | rfl
      · refine ⟨⟨_, _, rfl, rfl, rfl⟩, by decide, _, rfl, rfl, rfl, ?_⟩
        intro k hk
        have h6 : prod (exB.indexes.map exLoopCtx.dimOf) = 6 := by decide
        rw [h6] at hk
        match k, hk with
        | 0, _ => rfl
        | 1, _ => rfl
        | 2, _ => rfl
        | 3, _ => rfl
        | 4, _ => rfl
        | 5, _ => rfl
      · refine ⟨⟨_, _, rfl, rfl, rfl⟩, by decide, _, rfl, rfl, rfl, ?_⟩
        intro k hk
        have h6 : prod (exC.indexes.map exLoopCtx.dimOf) = 6 := by decide
        rw [h6] at hk
        match k, hk with
        | 0, _ => rfl
        | 1, _ => rfl
        | 2, _ => rfl
        | 3, _ => rfl
        | 4, _ => rfl
        | 5, _ => rfl
    · intro y hy r hr
      exfalso
      have hus : y ∈ ["i", "k", "j"] ∨ '_' ∈ y.toList := by
        rcases hy with h | ⟨t, _, k, a, _, _, rfl⟩ | ⟨_, rfl | rfl⟩
        · left; simpa [exLoopCtx, exLv, mmLv, idxs] using h
        · right; exact Dense2.mem_us_lp _ _
        · right; exact mem_us_bucketName _ _
        · right; exact mem_us_bucketLoopName _ _
      have hread : ∀ z ∈ ["i_dim", "j_dim", "k_dim", "a_vals", "B_vals", "C_vals"], y ≠ z := by
        intro z hz e
        have hR : ReadName z := by
          simp only [List.mem_cons, List.not_mem_nil, or_false] at hz
          rcases hz with rfl | rfl | rfl | rfl | rfl | rfl
          · exact ⟨by decide, 'm', by decide, by decide⟩
          · exact ⟨by decide, 'm', by decide, by decide⟩
          · exact ⟨by decide, 'm', by decide, by decide⟩
          · exact ⟨by decide, 's', by decide, by decide⟩
          · exact ⟨by decide, 's', by decide, by decide⟩
          · exact ⟨by decide, 's', by decide, by decide⟩
        exact notWr_read S (pre := []) (rest := exLoopCtx.full) rfl hR (e ▸ hy)
      have hnone : lookupVar exLoopState.vars y = none := by
        have e1 : ("i_dim" == y) = false := beq_eq_false_iff_ne.2 (Ne.symm (hread _ (by simp)))
        have e2 : ("j_dim" == y) = false := beq_eq_false_iff_ne.2 (Ne.symm (hread _ (by simp)))
        have e3 : ("k_dim" == y) = false := beq_eq_false_iff_ne.2 (Ne.symm (hread _ (by simp)))
        have e4 : ("a_vals" == y) = false := beq_eq_false_iff_ne.2 (Ne.symm (hread _ (by simp)))
        have e5 : ("B_vals" == y) = false := beq_eq_false_iff_ne.2 (Ne.symm (hread _ (by simp)))
        have e6 : ("C_vals" == y) = false := beq_eq_false_iff_ne.2 (Ne.symm (hread _ (by simp)))
        simp [lookupVar, exLoopState, List.find?, e1, e2, e3, e4, e5, e6]
      rw [hnone] at hr; cases hr
  obtain ⟨o, eo, hret, hit, hfr, hc⟩ := denseTerm_loops_correct exOfRat exLoopCtx S (fun _ _ _ => rfl)
    exLoopState henv (fun J _ => cellOK_of_total (fun _ => rfl) _ _ _ _ _ J) 16 _ hlow 13 (by decide)
  obtain ⟨blk, blk', hb, hb', _, _, _, hlen, hu⟩ := hfr.outBlk
  refine ⟨_, o, hlow, eo, hret, by rw [hit]; decide, blk', hb', ?_⟩
  cases hb
  have hds : outDims exLoopCtx.dimOf exLoopCtx.full = [2, 2] := by decide
  have cell : ∀ ii jj, ii < 2 → jj < 2 → blk'.cells[ii * 2 + jj]? =
      some (some (.flt (cellF exOfRat exLoopCtx.dimOf exLoopCtx.cellsOf exLoopCtx.e exLoopCtx.full [ii, jj]))) := by
    intro ii jj hi hj
    obtain ⟨b2, h1, h2⟩ := hc [ii, jj] (by rw [hds]; exact ⟨hi, hj, trivial⟩)
    rw [hb'] at h1; cases h1
    rw [hds] at h2
    simpa [lin] using h2
  have h5 : blk'.cells.length = 5 := hlen
  have c00 := cell 0 0 (by decide) (by decide)
  have c01 := cell 0 1 (by decide) (by decide)
  have c10 := cell 1 0 (by decide) (by decide)
  have c11 := cell 1 1 (by decide) (by decide)
  have c4 := hu 4 (Or.inr (by decide))
  match hcs : blk'.cells, h5 with
  | [x0, x1, x2, x3, x4], _ =>
    rw [hcs] at c00 c01 c10 c11 c4
    simp at c00 c01 c10 c11 c4
    rw [c00, c01, c10, c11, c4]
    rfl

/-! ### non-vacuity: the dot product `a() = b(i) * c(i)`, `b = [1,2,3]`, `c = [4,5,6]` -/

def dxFormats : Formats := [("a", [], []), ("b", [.dense], [0]), ("c", [.dense], [0])]
def dxOut : TensorId := ⟨"0_a", "a", [], []⟩
def dxB : TensorId := ⟨"1_b", "b", ["i"], [.dense]⟩
def dxC : TensorId := ⟨"2_c", "c", ["i"], [.dense]⟩
def dxDimOf : String → Nat := fun _ => 3
def dxBlkOf : String → Nat := fun s => if s = "b" then 2 else 4
def dxCellsOf : String → Nat → Int :=
  fun s k => if s = "b" then [1, 2, 3].getD k 0 else [4, 5, 6].getD k 0
def dxState : State Int :=
  { vars := [⟨"a", .ptr .tensor, some (.tensor 0)⟩, ⟨"b", .ptr .tensor, some (.tensor 1)⟩,
             ⟨"c", .ptr .tensor, some (.tensor 2)⟩],
    heap := [⟨.int, [], .output, true⟩,
             ⟨.int, [some (.int 3)], .input, true⟩,
             ⟨.float, [some (.flt 1), some (.flt 2), some (.flt 3)], .input, true⟩,
             ⟨.int, [some (.int 3)], .input, true⟩,
             ⟨.float, [some (.flt 4), some (.flt 5), some (.flt 6)], .input, true⟩],
    tensors := [⟨0, 0, [], .null, .output⟩, ⟨1, 1, [none], .ptr 2 0, .input⟩,
                ⟨1, 3, [none], .ptr 4 0, .input⟩] }
def dxCtx : Ctx Int := ⟨dotLv "i", dxDimOf, dxOut, mulE dxB dxC, 5, dxBlkOf, dxCellsOf⟩

theorem dxKernelOK : KernelOK dxFormats [("i", "b", 0)] dxCtx := by
  refine ⟨⟨?_, ?_, ?_, ?_, ?_, ?_, ?_, ?_, ?_⟩, ⟨"a", rfl⟩, ?_, ?_, ?_, ?_, ?_, ?_, ?_, ?_⟩
  · show isOut (dotLv "i") dxOut = true; decide
  · show isExpr (idxs (dotLv "i")) (mulE dxB dxC) = true; decide
  · show (idxs (dotLv "i")).Nodup; decide
  · show ∀ x ∈ idxs (dotLv "i"), '_' ∉ x.toList; decide
  · show ∀ t ∈ dxOut :: leaves (mulE dxB dxC), '_' ∉ t.name.toList; decide
  · show '_' ∈ dxOut.id.toList; decide
  · show idsOK (dxOut :: leaves (mulE dxB dxC)) = true; decide
  · show ∀ t ∈ dxOut :: leaves (mulE dxB dxC), Fits 1 (t.indexes.map dxDimOf)
    intro t ht
    simp only [mulE, leaves, List.cons_append, List.nil_append, List.mem_cons,
      List.not_mem_nil, or_false] at ht
    rcases ht with rfl | rfl | rfl <;> simp [DenseN.Fits, dxOut, dxB, dxC, dxDimOf]
  · show ∀ x ∈ idxs (dotLv "i"), dxDimOf x < 2147483648; decide
  · show ∀ f ∈ dxFormats, '_' ∉ f.1.toList; decide
  · show ∀ x ∈ idxs (dotLv "i"), x ∉ dxFormats.map (·.1); decide
  · show dxOut.name ∈ dxFormats.map (·.1); decide
  · show ∀ t ∈ leaves (mulE dxB dxC), t.name ∈ dxFormats.map (·.1) ∧ t.name ≠ dxOut.name; decide
  · show ([("i", "b", 0)] : List (String × String × Nat)).map (·.1) |>.Nodup; decide
  · show ∀ p ∈ ([("i", "b", 0)] : List (String × String × Nat)),
      p.1 ∈ idxs (dotLv "i") ∧ p.2.1 ∈ dxFormats.map (·.1) ∧ p.2.2 < 2147483648; decide
  · show ∀ x ∈ idxs (dotLv "i"), x ∈ ([("i", "b", 0)] : List (String × String × Nat)).map (·.1); decide
  · show dxOut.indexes.length < 2147483648; decide

theorem dxInit : Init dxFormats [("i", "b", 0)] dxCtx
    (fun s => if s = "a" then 0 else if s = "b" then 1 else 2) dxState := by
  refine ⟨?_, ?_, ?_, ?_, ?_, ?_⟩
  · intro f hf
    simp only [dxFormats, List.mem_cons, List.not_mem_nil, or_false] at hf
    rcases hf with rfl | rfl | rfl <;> exact ⟨_, rfl, rfl, rfl⟩
  · intro x hx
    simp only [dxFormats, List.map_cons, List.map_nil, List.mem_cons, List.not_mem_nil, or_false,
      not_or] at hx
    obtain ⟨h1, h2, h3⟩ := hx
    have e1 : ("a" == x) = false := beq_eq_false_iff_ne.2 (Ne.symm h1)
    have e2 : ("b" == x) = false := beq_eq_false_iff_ne.2 (Ne.symm h2)
    have e3 : ("c" == x) = false := beq_eq_false_iff_ne.2 (Ne.symm h3)
    simp [lookupVar, dxState, List.find?, e1, e2, e3]
  · intro f hf
    simp only [dxFormats, List.mem_cons, List.not_mem_nil, or_false] at hf
    rcases hf with rfl | rfl | rfl <;> exact ⟨_, rfl, rfl⟩
  · intro p hp
    simp only [List.mem_cons, List.not_mem_nil, or_false] at hp
    subst hp
    exact ⟨_, _, rfl, rfl, rfl, rfl, rfl⟩
  · refine ⟨_, _, rfl, rfl, rfl, rfl, rfl, ?_⟩
    intro k hk
    have h0 : dxCtx.outT.indexes.length = 0 := rfl
    omega
  · intro t ht
    simp only [dxCtx, mulE, leaves, List.cons_append, List.nil_append, List.mem_cons,
      List.not_mem_nil, or_false] at ht
    rcases ht with rfl | rfl
    · refine ⟨_, _, rfl, rfl, rfl, rfl, rfl, ?_⟩
      intro k hk
      have h3 : prod (dxB.indexes.map dxCtx.dimOf) = 3 := by show prod (dxB.indexes.map dxDimOf) = 3; decide
      rw [h3] at hk
      match k, hk with
      | 0, _ => rfl
      | 1, _ => rfl
      | 2, _ => rfl
    · refine ⟨_, _, rfl, rfl, rfl, rfl, rfl, ?_⟩
      intro k hk
      have h3 : prod (dxC.indexes.map dxCtx.dimOf) = 3 := by show prod (dxC.indexes.map dxDimOf) = 3; decide
      rw [h3] at hk
      match k, hk with
      | 0, _ => rfl
      | 1, _ => rfl
      | 2, _ => rfl

/-- **T3 for the dot product is not vacuous**: the kernel returns `0` after `1 + 3 = 4` loop
iterations and leaves `1*4 + 2*5 + 3*6 = 32` in the single cell of the fresh block -/
example : ∃ f o, generateIr exOfRat none (dotAssign "a" "b" "c" "i" 1 2) dxFormats
      (graph (dotLv "i") dxOut (mulE dxB dxC)) .evaluate = .ok f ∧
    exec 6 f.body dxState = .ok o ∧ o.ret = some (.int 0) ∧ o.iters = 4 ∧
    ∃ blk, o.st.heap[5]? = some blk ∧ blk.live = true ∧ blk.cells = [some (.flt 32)] := by
  have hgen := denseTerm_generateIr_eq exOfRat none (dotAssign "a" "b" "c" "i" 1 2) dxFormats
    (dotLv "i") dxOut (mulE dxB dxC) rfl (by decide) (by decide) (by decide) (by decide) (by decide)
  obtain ⟨o, eo, hret, hit, _, ⟨blk, hb, hlive, _, _, hcells⟩, _⟩ :=
    dot_kernel_correct exOfRat none "a" "b" "c" "i" 1 2 dxFormats dxOut dxB dxC rfl (by decide) rfl rfl
      dxDimOf dxBlkOf dxCellsOf _ dxState dxKernelOK
      (cellOK_of_total (fun _ => rfl) _ _ _ _ _ _) dxInit _ hgen 6 (by decide)
  exact ⟨_, o, hgen, eo, hret, hit, blk, hb, hlive, by rw [hcells]; rfl⟩

end TV.DenseTerm
