import TensoraVerif.Lemmas.Pipe2Sparse
import TensoraVerif.Lemmas.Pipe2DenseSource
import TensoraVerif.Props.C01Sparse1
import TensoraVerif.Props.C01Dense2
import TensoraVerif.Props.C01

/-!
# C01, the full pipeline, for the sparse vector copy/scale class and the dense matrix–vector class

`Props/C01Sparse1.lean` and `Props/C01Dense2.lean` prove that the kernel generated for a GIVEN graph
(`Sparse1.graph i outT e`, `Dense2.graph i j outT e`) computes `Graph.value` of the terminal
expression. This file adds the FRONT HALF for classes of SOURCE assignments (as
`Props/C01DensePipeline.lean` does for the element-wise dense class) and composes the two.

## Q1 — sparse vector copy / scale (namespace `TV.Sparse1`)

* the class `Sparse1Source a formats i b` (Lemmas/Pipe2Sparse.lean): `a = out(i) = rhs` with `rhs` one
  of `b(i)`, `c * b(i)`, `b(i) * c`, `c` an integer or float literal (ANY literal, `0` included: the
  loop is sparse because of `b`), `b ≠ out`, and the format table exactly `[out ↦ s, b ↦ s]`.
  Integer literals stay integer literals through `Alg.desugar` and `graphsOf` (`IdExpr.int`), so
  `a(i) = 2 * b(i)` yields the terminal `2 * 1_b`, not `2.0 * 1_b`.
* `sparse1_toIterationGraphs`, `sparse1_bestAlgorithm`: the candidate list of the pipeline is the
  singleton `[Sparse1.graph i (spOut a.tname i) (spE a i)]` (for this class there is exactly one
  candidate: one legal order of a compressed vector), with `spOut = 0_<out>`, `spB = 1_<b>` and
  `spE a i = toIdS i (plainE a.rhs 1).1`, i.e. `1_b`, `c * 1_b` or `1_b * c`.
* `sparse1_value_denote`: `Graph.value` of the terminal, `1_b` read as `inp b [c]`, is `denote a` at
  `[c]`; `sparse1_denote_unstored`: where `b` stores nothing the specification is `0`.
* `evaluate_correct_sparse1` (+ `_float`): source assignment → the kernel the pipeline yields returns `0`
  and the output stores exactly the coordinates of `b` with the values `denote a inp sz [crd k]`.

## Q2 — dense kernels with one contraction (namespace `TV.Dense2`)

* the class `Dense2Source a formats i j` (Lemmas/Pipe2DenseSource.lean): `a = out(i) = rhs`, `rhs` any
  tree of `add`/`sub`/`mul` over NONZERO literals and references `B(i,j)` (`B ↦ dd`), `c(j)`, `d(i)`
  (`c, d ↦ d`) such that (`everyJ`) every additive term contains `j`, (`shape`) no operand that
  mentions `j` only is followed by one that mentions `i` only, (`safe`) F12's signature is absent.
  Products `B(i,j) * c(j)`, `B(i,j) * c(j) * d(i)`, `d(i) * (B(i,j) * c(j))`, `2 * B(i,j) * c(j)` and sums
  `B(i,j) * c(j) + B2(i,j) * c2(j)`, `(B(i,j) + B2(i,j)) * c(j)` are in the class (closed instances
  below). What is NOT in the class, and why (closed counterexamples `dense2_class_*`):
  `c(j) * e(j) * d(i)` — the first candidate has `j` OUTSIDE `i`; `B(i,j) * c(j) + d(i)` — `desugar` leaves
  the `add` above the contraction and the first candidate is a `.sum` graph.
* `dense2_bestAlgorithm`: the FIRST candidate of the pipeline (there are two or more: `dd` has two
  legal orders) is `Dense2.graph i j (outId a.tname i) (rhsId2 a)`, `rhsId2 a = toId2 (plainE a.rhs 1).1`.
* `dense2_value_denote`: `Σ_{jj < sz j} Graph.value (ρ jj) (rhsId2 a) = denote a inp sz [ii]`.
* `evaluate_correct_dense2` (+ `_float`): source assignment → final machine state = `denote`.
-/
namespace TV.Sparse1
open TV.IR TV.Gen TV.Graph TV.Growth TV.Alg TV.Pipe1 TV.Pipe2

/-! ### Q1, P1 -/

/-- **P1 (all candidates).** For every assignment of the class, `toIterationGraphs (desugar a)`
succeeds and returns exactly one candidate graph: one loop over `i` carrying the (compressed)
output, around the terminal `spE a i`. -/
theorem sparse1_toIterationGraphs (a : Assign) (formats : Formats) (i b : String)
    (hc : Sparse1Source a formats i b) :
    toIterationGraphs (desugar a) formats = .ok [graph i (spOut a.tname i) (spE a i)] :=
  toIterationGraphs_sp1 hc

/-- **P1.** For every assignment of the class the compiler's pipeline `bestAlgorithm ∘ desugar`
chooses the graph of `Sparse1`, with the explicitly given output tensor `spOut a.tname i = 0_<out>`
and terminal expression `spE a i` (`1_b`, `c * 1_b` or `1_b * c`; its only tensor is
`spB b i = 1_<b>`: `sparse1_terminal_leaves`). -/
theorem sparse1_bestAlgorithm (a : Assign) (formats : Formats) (i b : String)
    (hc : Sparse1Source a formats i b) :
    bestAlgorithm (desugar a) formats = .graph (graph i (spOut a.tname i) (spE a i)) := by
  simp only [bestAlgorithm, sparse1_toIterationGraphs a formats i b hc]

/-- the terminal expression written out, for the three shapes of the class -/
theorem sparse1_terminal (i b : String) (tn : String) :
    spE ⟨tn, [i], .tensor b [i]⟩ i = .tensor (spB b i) ∧
    (∀ v : Int, spE ⟨tn, [i], .mul (.int v) (.tensor b [i])⟩ i = .mul (.int v) (.tensor (spB b i))) ∧
    (∀ q : Rat, spE ⟨tn, [i], .mul (.flt q) (.tensor b [i])⟩ i = .mul (.flt q) (.tensor (spB b i))) ∧
    (∀ v : Int, spE ⟨tn, [i], .mul (.tensor b [i]) (.int v)⟩ i = .mul (.tensor (spB b i)) (.int v)) ∧
    (∀ q : Rat, spE ⟨tn, [i], .mul (.tensor b [i]) (.flt q)⟩ i = .mul (.tensor (spB b i)) (.flt q)) :=
  ⟨rfl, fun _ => rfl, fun _ => rfl, fun _ => rfl, fun _ => rfl⟩

/-- the only tensor occurrence of the terminal expression is `1_<b>` -/
theorem sparse1_terminal_leaves (a : Assign) (formats : Formats) (i b : String)
    (hc : Sparse1Source a formats i b) : ToIr.leaves (spE a i) = [spB b i] :=
  spE_leaves hc.rhs

/-! ### Q1, P2 -/

/-- the class never triggers the known defect of the desugaring pass (finding F12) -/
theorem sparse1_not_productHoistUnsafe (a : Assign) (formats : Formats) (i b : String)
    (hc : Sparse1Source a formats i b) : productHoistUnsafe a.tidx a.rhs = false := by
  rw [hc.tidx]; exact productHoistUnsafe_sp1 hc.rhs

/-- **P2.** For every assignment of the class, all inputs, all sizes and every coordinate `c`, the
value of the terminal expression of the chosen graph — its single tensor `1_<b>` read as
`inp b [c]` — is the specification `denote` of the source assignment at `[c]`. -/
theorem sparse1_value_denote (a : Assign) (formats : Formats) (i b : String)
    (hc : Sparse1Source a formats i b) (inp : Inputs) (sz : Sizes) (c : Nat) :
    value (fun _ => inp b [c]) (spE a i) = denote a inp sz [c] := by
  rw [← desugar_correct a inp sz [c] (sparse1_not_productHoistUnsafe a formats i b hc), hc.desugar]
  exact value_sp1 inp sz hc.rhs c

/-- **P2, the coordinates that are not stored.** Where `b` stores nothing (`inp b [c] = 0`) the
specification of the assignment is `0`: storing exactly the coordinates of `b` loses nothing. -/
theorem sparse1_denote_unstored (a : Assign) (formats : Formats) (i b : String)
    (hc : Sparse1Source a formats i b) (inp : Inputs) (sz : Sizes) (c : Nat) (h0 : inp b [c] = 0) :
    denote a inp sz [c] = 0 := by
  rw [← sparse1_value_denote a formats i b hc inp sz c, h0]
  exact value_sp1_zero hc.rhs

/-! ### Q1, P3 -/

/-- **P3 (the `evaluate` kernel that the pipeline yields computes the specification).** Let `a` be a
source assignment `out(i) = rhs` of the class `Sparse1Source` (`rhs` = `b(i)`, `c * b(i)` or
`b(i) * c`; format table `[out ↦ s, b ↦ s]`) with the naming side conditions `Sparse1Names`; `inp` any
inputs; `cap` ANY initial capacity parameter with `1 ≤ capVal cap < 2^31`; and `σ` an initial machine
state as the driver builds it (`Init`) for a well-formed compressed input vector: `b`'s `pos` block is
`[0, m]`, its `crd` block holds the coordinates `crd 0 < crd 1 < … < crd (m-1)`, all below the
dimension `n`, its `vals` block the values `inp b [crd k]`; `m ≤ 2^30`.

Then the pipeline goes through — `bestAlgorithm (desugar a) formats` is a graph `g` and
`generateIr … (desugar a) formats g .evaluate` is a function `f` — and `f` runs on the machine with any
fuel `≥ m + 1` without error, **returns `0`** after exactly `m` loop iterations, and the output record
points to three blocks: `pos = [0, m]`; `crd` = exactly the coordinates of `b`; and a live `vals` block
of `m + 1` cells whose cell `k < m` holds **exactly** `denote a inp sz [crd k]` (whatever `sz`: the
class has no contraction). By `sparse1_denote_unstored` the specification is `0` at every coordinate
that is not stored. -/
theorem evaluate_correct_sparse1 (cap : Option Int) (a : Assign) (formats : Formats) (i b : String)
    (hc : Sparse1Source a formats i b) (hnames : Sparse1Names a i b)
    (hk0 : 1 ≤ capVal cap) (hk1 : capVal cap < 2147483648)
    (inp : Inputs) (sz : Sizes)
    (ta tb : Nat) (atr btr : TensorRec Rat) (n : Int) (m bpb bcb bvb : Nat) (crd : Nat → Nat)
    (σ : State Rat)
    (init : Init (spOut a.tname i) (spB b i) ta tb atr btr n m bpb bcb bvb (fun k => (crd k : Int))
      (fun k => inp b [crd k]) σ)
    (hm : m ≤ 1073741824)
    (hsorted : ∀ j k, j < k → k < m → crd j < crd k)
    (hrng : ∀ k, k < m → (crd k : Int) < n)
    (fuel : Nat) (hfuel : m + 1 ≤ fuel) :
    ∃ g f, bestAlgorithm (desugar a) formats = .graph g ∧
      generateIr id cap (desugar a) formats g .evaluate = .ok f ∧
      ∃ o, exec fuel f.body σ = .ok o ∧ o.ret = some (.int 0) ∧ o.iters = m ∧
      ∃ tr' pF cF vF vblk, o.st.tensors[ta]? = some tr' ∧
        tr'.slots = atr.slots.set 0 (some (.ptr pF 0, .ptr cF 0)) ∧ tr'.vals = .ptr vF 0 ∧
        o.st.heap[pF]? = some ⟨.int, [some (.int 0), some (.int m)], .output, true⟩ ∧
        o.st.heap[cF]? = some ⟨.int, (List.range m).map (fun k => some (.int (crd k))), .output, true⟩ ∧
        o.st.heap[vF]? = some vblk ∧ vblk.live = true ∧ vblk.cells.length = m + 1 ∧
        ∀ k, k < m → vblk.cells[k]? = some (some (.flt (denote a inp sz [crd k]))) := by
  have hout : tensorId 0 (desugar a).tname formats (desugar a).tidx = some (spOut a.tname i) := by
    rw [hc.desugar, hc.fmts]; exact tensorId_spOut a.tname b i
  have hidx : (desugar a).tidx = [i] := by rw [hc.desugar]
  have hrhs : Dense1.rhsIdx i (desugar a).rhs = true := by
    rw [hc.desugar]; exact rhsIdx_sp1 hc.rhs
  have hf : sparseFormats formats = true := by rw [hc.fmts]; exact sparseFormats_sp1 a.tname b
  have hgen := sparse1_generateIr_eq (F := Rat) id cap (desugar a) formats i (spOut a.tname i) (spB b i)
    (spE a i) hout (spOut_isSp a.tname i) (spE_isExpr hc) hf hidx hrhs
  obtain ⟨o, eo, hret, hit, tr', pF, cF, vF, vblk, h1, h2, h3, h4, h5, h6, h7, h8, h9⟩ :=
    sparse1_kernel_exact cap (desugar a) formats i (spOut a.tname i) (spB b i) (spE a i) hout
      (spOut_isSp a.tname i) (spE_isExpr hc) hf hidx hrhs (hc.kernelOK hnames) hk0 hk1 ta tb atr btr n m
      bpb bcb bvb _ _ σ init hm (fun j k hjk hk => by have := hsorted j k hjk hk; omega)
      (fun k hk => by have := hrng k hk; have := init.n32; omega) _ hgen fuel hfuel
  refine ⟨_, _, sparse1_bestAlgorithm a formats i b hc, hgen, o, eo, hret, hit, tr', pF, cF, vF, vblk,
    h1, h2, h3, h4, h5, h6, h7, h8, ?_⟩
  intro k hk
  rw [h9 k hk, sparse1_value_denote a formats i b hc inp sz (crd k)]

/-- **P3, corollary: the result is a well-formed compressed vector with exactly `b`'s coordinates**
(C02, C03): the structure the output record of `evaluate_correct_sparse1` describes passes
`Storage.wfCheck` for the dimension `d`, whatever the `m` stored values. -/
theorem evaluate_correct_sparse1_wf (d m : Nat) (crd : Nat → Nat) (vs : List Int)
    (hsorted : ∀ j k, j < k → k < m → crd j < crd k) (hrng : ∀ k, k < m → crd k < d)
    (hv : vs.length = m) :
    Storage.wfCheck (storedVec d ((List.range m).map fun k => (crd k : Int)) vs) = true :=
  (sparse1_result_wf d m (fun k => (crd k : Int)) vs
    (fun j k hjk hk => by have := hsorted j k hjk hk; omega)
    (fun k hk => by have := hrng k hk; omega) hv).1

/-- **P3, abstract floats.** Over any float carrier `F` with literal conversion `ofRat`: if moreover
at every stored entry every sub-result of the evaluation is finite, the `evaluate` function that the
pipeline yields returns `0` after exactly `m` loop iterations, the output's `crd` block holds exactly
`b`'s coordinates, and cell `k < m` of its `vals` block holds the float meaning `denoteF` of the SOURCE
right-hand side (`Pipe1.denoteF`: operations in the association of the source tree) with `b` read as
`cellsB k`; every block of the initial heap is unchanged. -/
theorem evaluate_correct_sparse1_float {F : Type} [FloatOps F] (ofRat : Rat → F) (cap : Option Int)
    (a : Assign) (formats : Formats) (i b : String)
    (hc : Sparse1Source a formats i b) (hnames : Sparse1Names a i b)
    (hk0 : 1 ≤ capVal cap) (hk1 : capVal cap < 2147483648)
    (ta tb : Nat) (atr btr : TensorRec F) (n : Int) (m bpb bcb bvb : Nat) (crd : Nat → Nat)
    (cellsB : Nat → F) (σ : State F)
    (init : Init (spOut a.tname i) (spB b i) ta tb atr btr n m bpb bcb bvb (fun k => (crd k : Int))
      cellsB σ)
    (hm : m ≤ 1073741824)
    (hsorted : ∀ j k, j < k → k < m → crd j < crd k)
    (hrng : ∀ k, k < m → (crd k : Int) < n)
    (hfin : ∀ q, q < m → ToIr.AllFinite ofRat (fun _ => cellsB q) (spE a i))
    (fuel : Nat) (hfuel : m + 1 ≤ fuel) :
    ∃ g f, bestAlgorithm (desugar a) formats = .graph g ∧
      generateIr ofRat cap (desugar a) formats g .evaluate = .ok f ∧
      ∃ o, exec fuel f.body σ = .ok o ∧ o.ret = some (.int 0) ∧ o.iters = m ∧
      (∃ tr' pF cF vF vblk, o.st.tensors[ta]? = some tr' ∧
        tr'.slots = atr.slots.set 0 (some (.ptr pF 0, .ptr cF 0)) ∧ tr'.vals = .ptr vF 0 ∧
        o.st.heap[pF]? = some ⟨.int, [some (.int 0), some (.int m)], .output, true⟩ ∧
        o.st.heap[cF]? = some ⟨.int, (List.range m).map (fun k => some (.int (crd k))), .output, true⟩ ∧
        o.st.heap[vF]? = some vblk ∧ vblk.live = true ∧ vblk.owner = .output ∧ vblk.ty = .float ∧
        vblk.cells.length = m + 1 ∧
        ∀ k, k < m → vblk.cells[k]? = some (some (.flt (denoteF ofRat (fun _ => cellsB k) a.rhs)))) ∧
      (∀ k, k < σ.heap.length → o.st.heap[k]? = σ.heap[k]?) := by
  have hout : tensorId 0 (desugar a).tname formats (desugar a).tidx = some (spOut a.tname i) := by
    rw [hc.desugar, hc.fmts]; exact tensorId_spOut a.tname b i
  have hidx : (desugar a).tidx = [i] := by rw [hc.desugar]
  have hrhs : Dense1.rhsIdx i (desugar a).rhs = true := by
    rw [hc.desugar]; exact rhsIdx_sp1 hc.rhs
  have hf : sparseFormats formats = true := by rw [hc.fmts]; exact sparseFormats_sp1 a.tname b
  have hgen := sparse1_generateIr_eq ofRat cap (desugar a) formats i (spOut a.tname i) (spB b i)
    (spE a i) hout (spOut_isSp a.tname i) (spE_isExpr hc) hf hidx hrhs
  obtain ⟨o, eo, hret, hit, ⟨tr', pF, cF, vF, vblk, h1, _, _, _, h5, h6, _, _, _, _, _, _, h13, h14, h15,
      h16, h17, h18, h19, h20⟩, _, _, hheap⟩ :=
    sparse1_kernel_correct ofRat cap (desugar a) formats i (spOut a.tname i) (spB b i) (spE a i) hout
      (spOut_isSp a.tname i) (spE_isExpr hc) hf hidx hrhs (hc.kernelOK hnames) hk0 hk1 ta tb atr btr n m
      bpb bcb bvb _ cellsB σ init hm (fun j k hjk hk => by have := hsorted j k hjk hk; omega)
      (fun k hk => by have := hrng k hk; have := init.n32; omega) hfin _ hgen fuel hfuel
  refine ⟨_, _, sparse1_bestAlgorithm a formats i b hc, hgen, o, eo, hret, hit,
    ⟨tr', pF, cF, vF, vblk, h1, h5, h6, h13, h14, h15, h16, h17, h18, h19, ?_⟩, hheap⟩
  intro k hk
  rw [h20 k hk, show spE a i = toIdS i (plainE a.rhs 1).1 from rfl, valueF_toIdS ofRat (cellsB k) i a.rhs 1]

/-! ### Q1, non-vacuity: `a(i) = 2 * b(i)`, `b = {1: 2.0, 3: 5.0}`, dimension 5, initial capacity 1 -/

/-- `a(i) = 2 * b(i)` -/
def pipeSrc : Assign := ⟨"a", ["i"], .mul (.int 2) (.tensor "b" ["i"])⟩
/-- `a(i) = b(i) * 2.5` -/
def pipeSrcR : Assign := ⟨"a", ["i"], .mul (.tensor "b" ["i"]) (.flt 2.5)⟩
/-- `a(i) = b(i)` -/
def pipeSrcC : Assign := ⟨"a", ["i"], .tensor "b" ["i"]⟩

theorem pipeSrc_class : Sparse1Source pipeSrc exFormats "i" "b" :=
  ⟨rfl, .scaleL _ rfl, by decide, rfl⟩
theorem pipeSrcR_class : Sparse1Source pipeSrcR exFormats "i" "b" :=
  ⟨rfl, .scaleR _ rfl, by decide, rfl⟩
theorem pipeSrcC_class : Sparse1Source pipeSrcC exFormats "i" "b" :=
  ⟨rfl, .copy, by decide, rfl⟩
theorem pipeSrc_names : Sparse1Names pipeSrc "i" "b" :=
  ⟨by decide, by decide, by decide, by decide, by decide⟩

/-- the class is decidable on closed instances -/
example : sp1RhsB "i" "b" pipeSrc.rhs = true ∧ sp1RhsB "i" "b" pipeSrcR.rhs = true ∧
    sp1RhsB "i" "b" pipeSrcC.rhs = true ∧ sp1RhsB "i" "b" (.add (.tensor "b" ["i"]) (.int 2)) = false := by
  decide

/-- the explicit output tensor, input tensor and terminal expression of the instance are those of
`Props/C01Sparse1.lean` -/
example : spOut pipeSrc.tname "i" = exOut ∧ spB "b" "i" = exB ∧ spE pipeSrc "i" = exE := by decide

/-- P1 on the instances agrees with evaluating the model of the pipeline (independent check) -/
example : toIterationGraphs (desugar pipeSrc) exFormats = .ok [graph "i" exOut exE] := by rfl
example : toIterationGraphs (desugar pipeSrcR) exFormats =
    .ok [graph "i" exOut (.mul (.tensor exB) (.flt 2.5))] := by rfl
example : toIterationGraphs (desugar pipeSrcC) exFormats = .ok [graph "i" exOut (.tensor exB)] := by rfl

/-- P1 is not vacuous -/
example : bestAlgorithm (desugar pipeSrc) exFormats = .graph (graph "i" exOut exE) :=
  sparse1_bestAlgorithm pipeSrc exFormats "i" "b" pipeSrc_class

/-- the input vector `b = {1: 2, 3: 5}` as the specification sees it -/
def pipeInpS : Inputs := fun t coord =>
  if t = "b" then (if coord = [1] then 2 else if coord = [3] then 5 else 0) else 0
def pipeCrd : Nat → Nat := fun k => [1, 3].getD k 0

/-- P2 is not vacuous: at coordinate 3 the specification is `2 * 5 = 10`, at the unstored coordinate
2 it is `0` -/
example : value (fun _ => pipeInpS "b" [3]) (spE pipeSrc "i") = 10 ∧
    denote pipeSrc pipeInpS (fun _ => 5) [3] = 10 ∧ denote pipeSrc pipeInpS (fun _ => 5) [2] = 0 := by
  have h := sparse1_value_denote pipeSrc exFormats "i" "b" pipeSrc_class pipeInpS (fun _ => 5) 3
  have h2 : denote pipeSrc pipeInpS (fun _ => 5) [3] = 10 := by decide +kernel
  exact ⟨h.trans h2, h2,
    sparse1_denote_unstored pipeSrc exFormats "i" "b" pipeSrc_class pipeInpS (fun _ => 5) 2 (by decide)⟩

theorem pipeInitS : Init (spOut pipeSrc.tname "i") (spB "b" "i") 0 1
    ⟨1, 0, [some (.null, .null)], .null, .output⟩
    ⟨1, 1, [some (.ptr 2 0, .ptr 3 0)], .ptr 4 0, .input⟩ 5 2 2 3 4 (fun k => (pipeCrd k : Int))
    (fun k => pipeInpS "b" [pipeCrd k]) (exStateOf (fun z => (z : Rat))) := by
  have h := exInitOf (fun z => (z : Rat))
  have e1 : (fun k => (pipeCrd k : Int)) = exCrd := by
    funext k
    match k with
    | 0 => rfl
    | 1 => rfl
    | k + 2 => simp [pipeCrd, exCrd]
  refine { h with bcrd := ?_, bval := ?_ }
  · obtain ⟨blk, hb, hl, ht, hlen, hcells⟩ := h.bcrd
    exact ⟨blk, hb, hl, ht, hlen, fun j hj => by rw [hcells j hj, ← e1]⟩
  · obtain ⟨blk, hb, hl, ht, hcells⟩ := h.bval
    refine ⟨blk, hb, hl, ht, ?_⟩
    intro j hj
    rw [hcells j hj]
    match j, hj with
    | 0, _ => rfl
    | 1, _ => rfl

/-- **P3 is not vacuous**: every hypothesis holds on the instance (initial capacity 1: both arrays
grow); the pipeline yields the kernel, and the run returns `0` after 2 iterations and leaves
`pos = [0, 2]`, `crd = [1, 3]`, `vals = [denote at 1, denote at 3, ·] = [4, 10, ·]` -/
example : ∃ g f o, bestAlgorithm (desugar pipeSrc) exFormats = .graph g ∧
    generateIr (F := Rat) id (some 1) (desugar pipeSrc) exFormats g .evaluate = .ok f ∧
    exec 3 f.body (exStateOf (fun z => (z : Rat))) = .ok o ∧ o.ret = some (.int 0) ∧ o.iters = 2 ∧
    ∃ (pF cF vF : Nat) (vblk : Block Rat),
      o.st.heap[pF]? = some ⟨.int, [some (.int 0), some (.int 2)], .output, true⟩ ∧
      o.st.heap[cF]? = some ⟨.int, [some (.int 1), some (.int 3)], .output, true⟩ ∧
      o.st.heap[vF]? = some vblk ∧ vblk.live = true ∧ vblk.cells.length = 3 ∧
      vblk.cells[0]? = some (some (.flt (denote pipeSrc pipeInpS (fun _ => 5) [1]))) ∧
      vblk.cells[1]? = some (some (.flt (denote pipeSrc pipeInpS (fun _ => 5) [3]))) ∧
      vblk.cells[0]? = some (some (.flt 4)) ∧ vblk.cells[1]? = some (some (.flt 10)) := by
  have hs : ∀ j k, j < k → k < 2 → pipeCrd j < pipeCrd k := by
    intro j k h1 h2
    have hk : k = 1 := by omega
    have hj : j = 0 := by omega
    subst hk hj
    decide
  have hr : ∀ k, k < 2 → (pipeCrd k : Int) < 5 := by
    intro k hk
    match k, hk with
    | 0, _ => decide
    | 1, _ => decide
  obtain ⟨g, f, hg, hf, o, eo, hret, hit, tr', pF, cF, vF, vblk, _, _, _, h4, h5, h6, h7, h8, h9⟩ :=
    evaluate_correct_sparse1 (some 1) pipeSrc exFormats "i" "b" pipeSrc_class pipeSrc_names (by decide)
      (by decide) pipeInpS (fun _ => 5) 0 1 _ _ 5 2 2 3 4 pipeCrd _ pipeInitS (by decide) hs hr 3 (by decide)
  have d0 : denote pipeSrc pipeInpS (fun _ => 5) [1] = 4 := by decide +kernel
  have d1 : denote pipeSrc pipeInpS (fun _ => 5) [3] = 10 := by decide +kernel
  have c0 := h9 0 (by decide)
  have c1 := h9 1 (by decide)
  refine ⟨g, f, o, hg, hf, eo, hret, hit, pF, cF, vF, vblk, h4, h5, h6, h7, h8, c0, c1, ?_, ?_⟩
  · rw [c0]; exact congrArg (fun x => some (some (Val.flt x))) d0
  · rw [c1]; exact congrArg (fun x => some (some (Val.flt x))) d1

/-- the result of the instance is a well-formed compressed vector of dimension 5 -/
example : Storage.wfCheck (storedVec 5 ((List.range 2).map fun k => (pipeCrd k : Int)) [4, 10]) = true :=
  evaluate_correct_sparse1_wf 5 2 pipeCrd [4, 10]
    (by
      intro j k h1 h2
      have hk : k = 1 := by omega
      have hj : j = 0 := by omega
      subst hk hj
      decide)
    (by
      intro k hk
      match k, hk with
      | 0, _ => decide
      | 1, _ => decide)
    rfl

end TV.Sparse1

/-- info: 'TV.Sparse1.sparse1_bestAlgorithm' depends on axioms: [propext, Classical.choice, Quot.sound] -/
#guard_msgs in
#print axioms TV.Sparse1.sparse1_bestAlgorithm
/-- info: 'TV.Sparse1.sparse1_value_denote' depends on axioms: [propext, Classical.choice, Quot.sound] -/
#guard_msgs in
#print axioms TV.Sparse1.sparse1_value_denote
/-- info: 'TV.Sparse1.evaluate_correct_sparse1' depends on axioms: [propext, Classical.choice, Quot.sound] -/
#guard_msgs in
#print axioms TV.Sparse1.evaluate_correct_sparse1
/-- info: 'TV.Sparse1.evaluate_correct_sparse1_float' depends on axioms: [propext, Classical.choice, Quot.sound] -/
#guard_msgs in
#print axioms TV.Sparse1.evaluate_correct_sparse1_float


/-! ## Q2: the dense matrix–vector class -/
namespace TV.Dense2
open TV.IR TV.Gen TV.Graph TV.Growth TV.Alg TV.Pipe1 TV.Pipe2
open TV.Dense1 (leaves valueF)

/-! ### Q2, P1 -/

/-- **P1 (the head of the candidates).** For every assignment of the class `toIterationGraphs (desugar a)`
succeeds, and the first candidate it returns is the graph of `Dense2`: the loop over `i` carrying the
output, outside the loop over `j`, around the terminal `rhsId2 a`. (The list has further candidates —
`j` outside `i` — which `bestAlgorithm` does not look at.) -/
theorem dense2_toIterationGraphs_head (a : Assign) (formats : Formats) (i j : String)
    (hc : Dense2Source a formats i j) :
    ∃ rest, toIterationGraphs (desugar a) formats =
      .ok (graph i j (outId a.tname i) (rhsId2 a) :: rest) := by
  obtain ⟨gs, hg, hh⟩ := hc.toIterationGraphs_head
  cases gs with
  | nil => simp at hh
  | cons g rest =>
    simp only [List.head?_cons, Option.some.injEq] at hh
    subst hh
    exact ⟨rest, hg⟩

/-- **P1.** For every assignment of the class the compiler's pipeline `bestAlgorithm ∘ desugar`
chooses the graph of `Dense2`, with the explicitly given output tensor `outId a.tname i = 0_<out>` and
terminal expression `rhsId2 a = toId2 (plainE a.rhs 1).1` (tensor occurrence number `k ≥ 1`, left to
right, of `t` becomes the all-dense tensor `<k>_<t>` with the indexes of the source; `l - r` becomes
`l + (-1) * r`; the contraction is not visible in the terminal). -/
theorem dense2_bestAlgorithm (a : Assign) (formats : Formats) (i j : String)
    (hc : Dense2Source a formats i j) :
    bestAlgorithm (desugar a) formats = .graph (graph i j (outId a.tname i) (rhsId2 a)) := by
  obtain ⟨rest, h⟩ := dense2_toIterationGraphs_head a formats i j hc
  simp only [bestAlgorithm, h]

/-! ### Q2, P2 -/

/-- the valuation of tensor identifiers at `(ii, jj)`: occurrence `<k>_<t>` of the terminal reads the
input `t` at its own indexes under `i ↦ ii`, `j ↦ jj` -/
def rho2 (a : Assign) (i j : String) (inp : Inputs) (ii jj : Nat) : String → Rat := fun id =>
  match (leaves (rhsId2 a)).find? (·.id == id) with
  | some t => inp t.name (t.indexes.map (Env.get [(j, jj), (i, ii)]))
  | none => 0

/-- `rho2` does what it says on every tensor occurrence of the terminal (identifiers are pairwise
different) -/
theorem rho2_spec (a : Assign) (i j : String) (inp : Inputs) (ii jj : Nat) :
    ∀ t ∈ leaves (rhsId2 a), rho2 a i j inp ii jj t.id =
      inp t.name (t.indexes.map (Env.get [(j, jj), (i, ii)])) := by
  intro t ht
  unfold rho2
  cases hf : (leaves (rhsId2 a)).find? (·.id == t.id) with
  | none =>
    have := List.find?_eq_none.1 hf t ht
    simp at this
  | some t' =>
    have h1 := List.mem_of_find?_eq_some hf
    have h2 := List.find?_some hf
    simp only [beq_iff_eq] at h2
    rw [leaves_id_inj a.rhs 1 t' h1 t ht h2]

/-- **P2, any valuation.** For every assignment of the class, all inputs, all sizes and every row
`ii`: if `ρ jj` reads every tensor occurrence of the terminal at its own indexes under `i ↦ ii`,
`j ↦ jj`, the sum over `jj < sz j` of `Graph.value (ρ jj)` of the terminal of the chosen graph is the
specification `denote` of the source assignment at `[ii]`. -/
theorem dense2_value_denote_of (a : Assign) (formats : Formats) (i j : String)
    (hc : Dense2Source a formats i j) (inp : Inputs) (sz : Sizes) (ii : Nat) (ρ : Nat → String → Rat)
    (hρ : ∀ jj, ∀ t ∈ leaves (rhsId2 a),
      ρ jj t.id = inp t.name (t.indexes.map (Env.get [(j, jj), (i, ii)]))) :
    sumRange (sz j) (fun jj => value (ρ jj) (rhsId2 a)) = denote a inp sz [ii] := by
  rw [← desugar_correct a inp sz [ii] (by rw [hc.tidx]; exact hc.safe), hc.denoteDA_eq inp sz ii]
  refine TV.Alg.sumRange_congr _ _ _ (fun jj => ?_)
  rw [← Dense1.valueF_rat (ρ jj) (rhsId2 a)]
  exact Dense1.valueF_congr id _ _ _ (fun t ht => hρ jj t ht)

/-- **P2.** With the explicit valuation `rho2` (no hypothesis left):
`Σ_{jj < sz j} Graph.value (rho2 … ii jj) (rhsId2 a) = denote a inp sz [ii]`. -/
theorem dense2_value_denote (a : Assign) (formats : Formats) (i j : String)
    (hc : Dense2Source a formats i j) (inp : Inputs) (sz : Sizes) (ii : Nat) :
    sumRange (sz j) (fun jj => value (rho2 a i j inp ii jj) (rhsId2 a)) = denote a inp sz [ii] :=
  dense2_value_denote_of a formats i j hc inp sz ii _ (fun jj => rho2_spec a i j inp ii jj)

/-! ### Q2, P3 -/

/-- **P3 (the `evaluate` kernel that the pipeline yields computes the specification).** Let `a` be a
source assignment `out(i) = rhs` of the class `Dense2Source` over the all-dense format table `formats`,
with the naming side conditions `Dense2Names`; `inp` any inputs, `sz` any sizes with `sz j = m`;
`n, m, n * m < 2^31`; and `σ` an initial machine state as the driver builds it (`Init`): the variables
are exactly the tensor parameters, the output record is output-owned with `dimensions[0] = n`, the
`dimensions` block of the first tensor that mentions `j` (`jDimOf a i j`) holds `m`, and the record of
every tensor `t` of `rhs` has `vals` pointing to a live float block holding the input `t` in row-major
layout (`denseCells formats m inp`: `B[ii * m + jj] = inp B [ii, jj]`, `c[k] = inp c [k]`).

Then the pipeline goes through — `bestAlgorithm (desugar a) formats` is a graph `g` and
`generateIr … (desugar a) formats g .evaluate` is a function `f` — and `f` runs on the machine with any
fuel `≥ n + m + 2` without error, **returns `0`**, the output record's `vals` points to the fresh block
`σ.heap.length`, and that block is live and holds **exactly** `denote a inp sz [ii]` for
`ii = 0 … n-1`. -/
theorem evaluate_correct_dense2 (cap : Option Int) (a : Assign) (formats : Formats) (i j : String)
    (hc : Dense2Source a formats i j) (hnames : Dense2Names formats i j)
    (inp : Inputs) (sz : Sizes) (n m : Nat) (hsz : sz j = m)
    (hnm : n * m < 2147483648) (hn : n < 2147483648) (hm : m < 2147483648)
    (tix blkOf : String → Nat) (σ : State Rat)
    (hinit : Init formats i j (jDimOf a i j).1 (jDimOf a i j).2 (outId a.tname i) (rhsId2 a) n m tix blkOf
      (denseCells formats m inp) σ)
    (fuel : Nat) (hfuel : n + m + 2 ≤ fuel) :
    ∃ g f, bestAlgorithm (desugar a) formats = .graph g ∧
      generateIr id cap (desugar a) formats g .evaluate = .ok f ∧
      ∃ o, exec fuel f.body σ = .ok o ∧ o.ret = some (.int 0) ∧
        (∃ tr, σ.tensors[tix a.tname]? = some tr ∧
          o.st.tensors[tix a.tname]? = some { tr with vals := .ptr σ.heap.length 0 }) ∧
        ∃ blk, o.st.heap[σ.heap.length]? = some blk ∧ blk.live = true ∧
          blk.cells = (List.range n).map fun ii => some (.flt (denote a inp sz [ii])) := by
  obtain ⟨s, hs, _⟩ := hc.shapeP
  have hgen := dense2_generateIr_eq (F := Rat) id cap (desugar a) formats i j hc.ij (jDimOf a i j).1
    (jDimOf a i j).2 (outId a.tname i) (rhsId2 a) hc.tensorId_out (by simp [isI, outId]) hc.isExpr
    hc.notSparse hnames.fmts hc.indexDimensions
  obtain ⟨o, eo, hret, _, hrec, ⟨blk, hb, hlive, _, _, hcells⟩, _⟩ :=
    dense2_kernel_correct id cap (desugar a) formats i j (jDimOf a i j).1 (jDimOf a i j).2
      (outId a.tname i) (rhsId2 a) hc.tensorId_out (by simp [isI, outId]) hc.isExpr hc.notSparse
      hnames.fmts hc.indexDimensions (hc.kernelOK hnames) n m tix blkOf _ σ hnm hn hm
      (by have := hc.jDim_eq.2.2; omega) (fun ii _ jj _ => stepFinite_rat _ _ _ _ _ _ _ _) hinit _ hgen
      fuel hfuel
  refine ⟨_, _, dense2_bestAlgorithm a formats i j hc, hgen, o, eo, hret, hrec, blk, hb, hlive, ?_⟩
  rw [hcells]
  apply List.map_congr_left
  intro ii _
  rw [dotF_rat, ← desugar_correct a inp sz [ii] (by rw [hc.tidx]; exact hc.safe),
    hc.denoteDA_eq inp sz ii, hsz]
  congr 2
  refine sumRange_congr m _ _ (fun jj hjj => ?_)
  exact Dense1.valueF_congr id _ _ _ (fun t ht =>
    cell_of_leaf i j a.tname formats hc.ij _ s hs inp m ii jj hjj t ht)

/-- **P3, abstract floats.** Over any float carrier `F` with literal conversion `ofRat`, any content
`cellsOf` of the input arrays: if every machine check is finite (`stepFinite`), the `evaluate` function
that the pipeline yields returns `0` after exactly `n * (m + 2)` loop iterations and the fresh output
block holds exactly `dotF ofRat i j m cellsOf (rhsId2 a) ii m` — the sum IN LOOP ORDER, from
`ofInt 0`, of the float value of the terminal expression of the SOURCE right-hand side (`rhsId2 a`:
operations in the association of the source tree, `l - r` computed as `l + (-1) * r`); all blocks of
the initial heap are unchanged. -/
theorem evaluate_correct_dense2_float {F : Type} [FloatOps F] (ofRat : Rat → F) (cap : Option Int)
    (a : Assign) (formats : Formats) (i j : String)
    (hc : Dense2Source a formats i j) (hnames : Dense2Names formats i j)
    (n m : Nat) (hnm : n * m < 2147483648) (hn : n < 2147483648) (hm : m < 2147483648)
    (tix blkOf : String → Nat) (cellsOf : String → Nat → F) (σ : State F)
    (hfin : ∀ ii, ii < n → ∀ jj, jj < m → stepFinite ofRat i j m cellsOf (rhsId2 a) ii jj = true)
    (hinit : Init formats i j (jDimOf a i j).1 (jDimOf a i j).2 (outId a.tname i) (rhsId2 a) n m tix blkOf
      cellsOf σ)
    (fuel : Nat) (hfuel : n + m + 2 ≤ fuel) :
    ∃ g f, bestAlgorithm (desugar a) formats = .graph g ∧
      generateIr ofRat cap (desugar a) formats g .evaluate = .ok f ∧
      ∃ o, exec fuel f.body σ = .ok o ∧ o.ret = some (.int 0) ∧ o.iters = n * (m + 2) ∧
        (∃ tr, σ.tensors[tix a.tname]? = some tr ∧
          o.st.tensors[tix a.tname]? = some { tr with vals := .ptr σ.heap.length 0 }) ∧
        (∃ blk, o.st.heap[σ.heap.length]? = some blk ∧ blk.live = true ∧ blk.owner = .output ∧
          blk.ty = .float ∧
          blk.cells = (List.range n).map fun ii =>
            some (.flt (dotF ofRat i j m cellsOf (rhsId2 a) ii m))) ∧
        (∀ b, b < σ.heap.length → o.st.heap[b]? = σ.heap[b]?) := by
  have hgen := dense2_generateIr_eq ofRat cap (desugar a) formats i j hc.ij (jDimOf a i j).1
    (jDimOf a i j).2 (outId a.tname i) (rhsId2 a) hc.tensorId_out (by simp [isI, outId]) hc.isExpr
    hc.notSparse hnames.fmts hc.indexDimensions
  obtain ⟨o, eo, hret, hit, hrec, hblk, hheap, _⟩ :=
    dense2_kernel_correct ofRat cap (desugar a) formats i j (jDimOf a i j).1 (jDimOf a i j).2
      (outId a.tname i) (rhsId2 a) hc.tensorId_out (by simp [isI, outId]) hc.isExpr hc.notSparse
      hnames.fmts hc.indexDimensions (hc.kernelOK hnames) n m tix blkOf cellsOf σ hnm hn hm
      (by have := hc.jDim_eq.2.2; omega) hfin hinit _ hgen fuel hfuel
  exact ⟨_, _, dense2_bestAlgorithm a formats i j hc, hgen, o, eo, hret, hit, hrec, hblk, hheap⟩

/-! ### Q2, non-vacuity and the borders of the class -/

/-- a format table with two matrices and three vectors besides the target -/
def pipe2Formats : Formats :=
  [("a", [.dense], [0]), ("B", [.dense, .dense], [0, 1]), ("c", [.dense], [0]), ("d", [.dense], [0]),
   ("B2", [.dense, .dense], [0, 1]), ("c2", [.dense], [0])]

def srcB : SExpr := .tensor "B" ["i", "j"]
def srcB2 : SExpr := .tensor "B2" ["i", "j"]
def srcC : SExpr := .tensor "c" ["j"]
def srcC2 : SExpr := .tensor "c2" ["j"]
def srcD : SExpr := .tensor "d" ["i"]
/-- `a(i) = rhs` -/
def pipe2Src (rhs : SExpr) : Assign := ⟨"a", ["i"], rhs⟩

/-- **the class is inhabited well beyond the matrix–vector product** (every condition is decidable on
a closed instance): `B(i,j) * c(j)`; `B(i,j) * c(j) * d(i)`; `d(i) * (B(i,j) * c(j))`; `c(j) * B(i,j)`;
`2 * B(i,j) * c(j)`; the sums `B(i,j) * c(j) + B2(i,j) * c2(j)`, `B(i,j) * c(j) - B2(i,j) * c2(j)`,
`(B(i,j) + B2(i,j)) * c(j)`; and the matrix-free `c(j) * c2(j)` (shape `J`) -/
theorem dense2_class_members :
    Dense2Source (pipe2Src (.mul srcB srcC)) pipe2Formats "i" "j" ∧
    Dense2Source (pipe2Src (.mul (.mul srcB srcC) srcD)) pipe2Formats "i" "j" ∧
    Dense2Source (pipe2Src (.mul srcD (.mul srcB srcC))) pipe2Formats "i" "j" ∧
    Dense2Source (pipe2Src (.mul srcC srcB)) pipe2Formats "i" "j" ∧
    Dense2Source (pipe2Src (.mul (.mul (.int 2) srcB) srcC)) pipe2Formats "i" "j" ∧
    Dense2Source (pipe2Src (.add (.mul srcB srcC) (.mul srcB2 srcC2))) pipe2Formats "i" "j" ∧
    Dense2Source (pipe2Src (.sub (.mul srcB srcC) (.mul srcB2 srcC2))) pipe2Formats "i" "j" ∧
    Dense2Source (pipe2Src (.mul (.add srcB srcB2) srcC)) pipe2Formats "i" "j" ∧
    Dense2Source (pipe2Src (.mul srcC srcC2)) pipe2Formats "i" "j" :=
  ⟨⟨rfl, by decide, by decide, by decide, by decide, by decide⟩,
   ⟨rfl, by decide, by decide, by decide, by decide, by decide⟩,
   ⟨rfl, by decide, by decide, by decide, by decide, by decide⟩,
   ⟨rfl, by decide, by decide, by decide, by decide, by decide⟩,
   ⟨rfl, by decide, by decide, by decide, by decide, by decide⟩,
   ⟨rfl, by decide, by decide, by decide, by decide, by decide⟩,
   ⟨rfl, by decide, by decide, by decide, by decide, by decide⟩,
   ⟨rfl, by decide, by decide, by decide, by decide, by decide⟩,
   ⟨rfl, by decide, by decide, by decide, by decide, by decide⟩⟩

/-- P1 on a sum agrees with evaluating the model of the pipeline (independent check): the head of
the candidates of `a(i) = B(i,j) * c(j) - B2(i,j) * c2(j)` -/
example : bestAlgorithm (desugar (pipe2Src (.sub (.mul srcB srcC) (.mul srcB2 srcC2)))) pipe2Formats =
    .graph (graph "i" "j" ⟨"0_a", "a", ["i"], [.dense]⟩
      (.add (.mul (.tensor ⟨"1_B", "B", ["i", "j"], [.dense, .dense]⟩) (.tensor ⟨"2_c", "c", ["j"], [.dense]⟩))
        (.mul (.int (-1)) (.mul (.tensor ⟨"3_B2", "B2", ["i", "j"], [.dense, .dense]⟩)
          (.tensor ⟨"4_c2", "c2", ["j"], [.dense]⟩))))) := by rfl

/-- P1 is not vacuous (the same instance through the theorem) -/
example : bestAlgorithm (desugar (pipe2Src (.sub (.mul srcB srcC) (.mul srcB2 srcC2)))) pipe2Formats =
    .graph (graph "i" "j" (outId "a" "i") (rhsId2 (pipe2Src (.sub (.mul srcB srcC) (.mul srcB2 srcC2))))) :=
  dense2_bestAlgorithm _ pipe2Formats "i" "j" dense2_class_members.2.2.2.2.2.2.1

/-- **the `shape` condition is needed**: `a(i) = c(j) * c2(j) * d(i)` has every other property of the
class (every term contains `j`, F12's signature is absent), but a `J`-shaped operand is followed by an
`I`-shaped one, and the first candidate of the pipeline has `j` OUTSIDE `i` — not the graph of `Dense2` -/
theorem dense2_class_shape_needed :
    shapeS "i" "j" "a" pipe2Formats (.mul (.mul srcC srcC2) srcD) = none ∧
    (inEveryTerm (.mul (.mul srcC srcC2) srcD)).contains "j" = true ∧
    productHoistUnsafe ["i"] (.mul (.mul srcC srcC2) srcD) = false ∧
    bestAlgorithm (desugar (pipe2Src (.mul (.mul srcC srcC2) srcD))) pipe2Formats =
      .graph (.iter "j" none (.iter "i" (some ⟨outId "a" "i", 0⟩) (.terminal
        (.mul (.mul (.tensor ⟨"1_c", "c", ["j"], [.dense]⟩) (.tensor ⟨"2_c2", "c2", ["j"], [.dense]⟩))
          (.tensor ⟨"3_d", "d", ["i"], [.dense]⟩))))) :=
  ⟨by decide, by decide, by decide, by rfl⟩

/-- **the `everyJ` condition is needed**: `a(i) = B(i,j) * c(j) + d(i)` has the shape `IJ` and is free
of F12's signature, but its second term lacks `j`; `desugar` leaves the `add` above the contraction
and the first candidate of the pipeline is a `.sum` graph — not the graph of `Dense2` -/
theorem dense2_class_everyJ_needed :
    shapeS "i" "j" "a" pipe2Formats (.add (.mul srcB srcC) srcD) = some .IJ ∧
    (inEveryTerm (.add (.mul srcB srcC) srcD)).contains "j" = false ∧
    productHoistUnsafe ["i"] (.add (.mul srcB srcC) srcD) = false ∧
    bestAlgorithm (desugar (pipe2Src (.add (.mul srcB srcC) srcD))) pipe2Formats =
      .graph (.iter "i" (some ⟨outId "a" "i", 0⟩) (.sum
        [.terminal (.tensor ⟨"3_d", "d", ["i"], [.dense]⟩),
         .iter "j" none (.terminal (.mul (.tensor ⟨"1_B", "B", ["i", "j"], [.dense, .dense]⟩)
           (.tensor ⟨"2_c", "c", ["j"], [.dense]⟩)))])) :=
  ⟨by decide, by decide, by decide, by rfl⟩

/-! #### the three-kind instance `a(i) = B(i,j) * c(j) * d(i)`, `n = 2`, `m = 3` (`ex3Source` of
`Props/C01Dense2.lean`): `B = [[1,2,3],[4,5,6]]`, `c = [7,8,9]`, `d = [2,3]` -/

theorem ex3_class : Dense2Source ex3Source ex3Formats "i" "j" :=
  ⟨rfl, by decide, by decide, by decide, by decide, by decide⟩

theorem ex3_names : Dense2Names ex3Formats "i" "j" := by
  refine ⟨by decide, ?_, by decide, by decide, by decide, by decide⟩
  intro f hf
  simp only [ex3Formats, List.mem_cons, List.not_mem_nil, or_false] at hf
  rcases hf with rfl | rfl | rfl | rfl <;> decide

/-- the explicit terminal, output tensor and `j_dim` source of the instance are those of
`Props/C01Dense2.lean` -/
example : rhsId2 ex3Source = ex3E ∧ outId ex3Source.tname "i" = exOut ∧
    jDimOf ex3Source "i" "j" = ("B", 1) := by decide

/-- the inputs of the instance as the specification sees them -/
def pipe2Inp : Inputs := fun s coord =>
  if s = "B" then [(1 : Rat), 2, 3, 4, 5, 6].getD (coord.getD 0 0 * 3 + coord.getD 1 0) 0
  else if s = "c" then [(7 : Rat), 8, 9].getD (coord.getD 0 0) 0
  else [(2 : Rat), 3].getD (coord.getD 0 0) 0
def pipe2Sizes : Sizes := fun s => if s = "j" then 3 else 2

/-- P2 is not vacuous: the specification at row 1 is `(4*7 + 5*8 + 6*9) * 3 = 366` -/
example : sumRange (pipe2Sizes "j") (fun jj => value (rho2 ex3Source "i" "j" pipe2Inp 1 jj) (rhsId2 ex3Source)) = 366 ∧
    denote ex3Source pipe2Inp pipe2Sizes [1] = 366 := by
  have h := dense2_value_denote ex3Source ex3Formats "i" "j" ex3_class pipe2Inp pipe2Sizes 1
  have h2 : denote ex3Source pipe2Inp pipe2Sizes [1] = 366 := by decide +kernel
  exact ⟨h.trans h2, h2⟩

/-- the state the driver builds for `a` (output, dimension 2), `B` (2 × 3), `c`, `d`, over `Rat` -/
def pipe2State : State Rat :=
  { vars := [⟨"a", .ptr .tensor, some (.tensor 0)⟩, ⟨"B", .ptr .tensor, some (.tensor 1)⟩,
             ⟨"c", .ptr .tensor, some (.tensor 2)⟩, ⟨"d", .ptr .tensor, some (.tensor 3)⟩],
    heap := [⟨.int, [some (.int 2)], .output, true⟩,
             ⟨.int, [some (.int 2), some (.int 3)], .input, true⟩,
             ⟨.float, [some (.flt 1), some (.flt 2), some (.flt 3),
                       some (.flt 4), some (.flt 5), some (.flt 6)], .input, true⟩,
             ⟨.int, [some (.int 3)], .input, true⟩,
             ⟨.float, [some (.flt 7), some (.flt 8), some (.flt 9)], .input, true⟩,
             ⟨.int, [some (.int 2)], .input, true⟩,
             ⟨.float, [some (.flt 2), some (.flt 3)], .input, true⟩],
    tensors := [⟨1, 0, [none], .null, .output⟩, ⟨2, 1, [none, none], .ptr 2 0, .input⟩,
                ⟨1, 3, [none], .ptr 4 0, .input⟩, ⟨1, 5, [none], .ptr 6 0, .input⟩] }

theorem pipe2Init : Init ex3Formats "i" "j" "B" 1 exOut ex3E 2 3 ex3Tix ex3BlkOf
    (denseCells ex3Formats 3 pipe2Inp) pipe2State := by
  refine ⟨?_, ?_, ?_, ?_, ?_, ?_⟩
  · intro f hf
    simp only [ex3Formats, List.mem_cons, List.not_mem_nil, or_false] at hf
    rcases hf with rfl | rfl | rfl | rfl <;> exact ⟨_, rfl, rfl, rfl⟩
  · intro x hx
    simp only [ex3Formats, List.map_cons, List.map_nil, List.mem_cons, List.not_mem_nil, or_false,
      not_or] at hx
    obtain ⟨h1, h2, h3, h4⟩ := hx
    have e1 : ("a" == x) = false := beq_eq_false_iff_ne.2 (Ne.symm h1)
    have e2 : ("B" == x) = false := beq_eq_false_iff_ne.2 (Ne.symm h2)
    have e3 : ("c" == x) = false := beq_eq_false_iff_ne.2 (Ne.symm h3)
    have e4 : ("d" == x) = false := beq_eq_false_iff_ne.2 (Ne.symm h4)
    simp [lookupVar, pipe2State, List.find?, e1, e2, e3, e4]
  · intro f hf
    simp only [ex3Formats, List.mem_cons, List.not_mem_nil, or_false] at hf
    rcases hf with rfl | rfl | rfl | rfl <;> exact ⟨_, rfl, rfl⟩
  · exact ⟨_, _, rfl, rfl, rfl, rfl, rfl, rfl⟩
  · exact ⟨_, _, rfl, rfl, rfl, rfl, rfl⟩
  · intro t ht
    simp only [ex3E, leaves, List.cons_append, List.nil_append, List.mem_cons,
      List.not_mem_nil, or_false] at ht
    rcases ht with rfl | rfl | rfl
    · refine ⟨_, _, rfl, rfl, rfl, rfl, rfl, ?_⟩
      intro k hk
      have h6 : cellCount "i" "j" 2 3 exB = 6 := by decide
      rw [h6] at hk
      match k, hk with
      | 0, _ => rfl
      | 1, _ => rfl
      | 2, _ => rfl
      | 3, _ => rfl
      | 4, _ => rfl
      | 5, _ => rfl
    · refine ⟨_, _, rfl, rfl, rfl, rfl, rfl, ?_⟩
      intro k hk
      have h3 : cellCount "i" "j" 2 3 exC = 3 := by decide
      rw [h3] at hk
      match k, hk with
      | 0, _ => rfl
      | 1, _ => rfl
      | 2, _ => rfl
    · refine ⟨_, _, rfl, rfl, rfl, rfl, rfl, ?_⟩
      intro k hk
      have h2 : cellCount "i" "j" 2 3 exD = 2 := by decide
      rw [h2] at hk
      match k, hk with
      | 0, _ => rfl
      | 1, _ => rfl

/-- **P3 is not vacuous**: every hypothesis holds on the instance; the pipeline yields the kernel, and
the run returns `0` and leaves `[denote … [0], denote … [1]] = [50 * 2, 122 * 3] = [100, 366]` in the
fresh block `7` the output record points to -/
example : ∃ g f o, bestAlgorithm (desugar ex3Source) ex3Formats = .graph g ∧
    generateIr (F := Rat) id none (desugar ex3Source) ex3Formats g .evaluate = .ok f ∧
    exec 7 f.body pipe2State = .ok o ∧ o.ret = some (.int 0) ∧
    (∃ tr, o.st.tensors[0]? = some tr ∧ tr.vals = .ptr 7 0) ∧
    ∃ blk, o.st.heap[7]? = some blk ∧ blk.live = true ∧
      blk.cells = [some (.flt (denote ex3Source pipe2Inp pipe2Sizes [0])),
        some (.flt (denote ex3Source pipe2Inp pipe2Sizes [1]))] ∧
      blk.cells = [some (.flt 100), some (.flt 366)] := by
  have hinit : Init ex3Formats "i" "j" (jDimOf ex3Source "i" "j").1 (jDimOf ex3Source "i" "j").2
      (outId ex3Source.tname "i") (rhsId2 ex3Source) 2 3 ex3Tix ex3BlkOf
      (denseCells ex3Formats 3 pipe2Inp) pipe2State := pipe2Init
  obtain ⟨g, f, hg, hf, o, eo, hret, ⟨tr, _, htr'⟩, blk, hb, hlive, hcells⟩ :=
    evaluate_correct_dense2 none ex3Source ex3Formats "i" "j" ex3_class ex3_names pipe2Inp pipe2Sizes
      2 3 rfl (by omega) (by omega) (by omega) ex3Tix ex3BlkOf _ hinit 7 (by omega)
  refine ⟨g, f, o, hg, hf, eo, hret, ⟨_, htr', rfl⟩, blk, hb, hlive, hcells, ?_⟩
  rw [hcells]
  have h0 : denote ex3Source pipe2Inp pipe2Sizes [0] = 100 := by decide +kernel
  have h1 : denote ex3Source pipe2Inp pipe2Sizes [1] = 366 := by decide +kernel
  simp [List.range, List.range.loop, h0, h1]

/-- **the float version is not vacuous** (carrier `Int`, literals through the numerator; the state
`ex3State` and its `Init` are those of `Props/C01Dense2.lean`): the pipeline yields the kernel, which
returns `0` after `2 * (3 + 2) = 10` loop iterations and leaves `[100, 366]` -/
example : ∃ g f o, bestAlgorithm (desugar ex3Source) ex3Formats = .graph g ∧
    generateIr exOfRat none (desugar ex3Source) ex3Formats g .evaluate = .ok f ∧
    exec 7 f.body ex3State = .ok o ∧ o.ret = some (.int 0) ∧ o.iters = 10 ∧
    ∃ blk, o.st.heap[7]? = some blk ∧ blk.live = true ∧
      blk.cells = [some (.flt 100), some (.flt 366)] := by
  have hinit : Init ex3Formats "i" "j" (jDimOf ex3Source "i" "j").1 (jDimOf ex3Source "i" "j").2
      (outId ex3Source.tname "i") (rhsId2 ex3Source) 2 3 ex3Tix ex3BlkOf ex3CellsOf ex3State := ex3Init
  obtain ⟨g, f, hg, hf, o, eo, hret, hit, _, ⟨blk, hb, hlive, _, _, hcells⟩, _⟩ :=
    evaluate_correct_dense2_float exOfRat none ex3Source ex3Formats "i" "j" ex3_class ex3_names
      2 3 (by omega) (by omega) (by omega) ex3Tix ex3BlkOf ex3CellsOf ex3State
      (fun ii _ jj _ => stepFinite_of_total (fun _ => rfl) _ _ _ _ _ _ _ _) hinit 7 (by omega)
  refine ⟨g, f, o, hg, hf, eo, hret, hit, blk, hb, hlive, ?_⟩
  rw [hcells]
  rfl

end TV.Dense2

/-- info: 'TV.Dense2.dense2_bestAlgorithm' depends on axioms: [propext, Classical.choice, Quot.sound] -/
#guard_msgs in
#print axioms TV.Dense2.dense2_bestAlgorithm
/-- info: 'TV.Dense2.dense2_value_denote' depends on axioms: [propext, Classical.choice, Quot.sound] -/
#guard_msgs in
#print axioms TV.Dense2.dense2_value_denote
/-- info: 'TV.Dense2.evaluate_correct_dense2' depends on axioms: [propext, Classical.choice, Quot.sound] -/
#guard_msgs in
#print axioms TV.Dense2.evaluate_correct_dense2
/-- info: 'TV.Dense2.evaluate_correct_dense2_float' depends on axioms: [propext, Classical.choice, Quot.sound] -/
#guard_msgs in
#print axioms TV.Dense2.evaluate_correct_dense2_float
