import TensoraVerif.Lemmas.Pipe3DenseNSource
import TensoraVerif.Lemmas.Pipe3DenseNLin
import TensoraVerif.Props.C01DenseN
import TensoraVerif.Lemmas.Pipe3Sparse2
import TensoraVerif.Props.C01Spmul
import TensoraVerif.Props.C01Spadd
import TensoraVerif.Lemmas.Pipe3Spmv
import TensoraVerif.Props.C01Spmv
import TensoraVerif.Props.C01

/-!
# C01, the full pipeline, for the remaining kernel classes

`Props/C01DenseN.lean`, `C01Spmul.lean`, `C01Spadd.lean`, `C01Spmv.lean` prove that the kernel generated
for a GIVEN iteration graph computes `Graph.value` of its terminal expression. This file adds the
FRONT HALF for whole classes of SOURCE assignments (arbitrary tensor and index names) and composes
the two halves.

## DenseN — dense element-wise assignments of every order

* the class `DenseNSource a formats is` (Lemmas/Pipe3DenseNSource.lean): `a = out(i₁,…,iₙ) = rhs`,
  indexes pairwise distinct, `rhs` any `+ − *` tree over integer/float literals and references
  `t(i₁,…,iₙ)` (exactly the target's index list) to tensors `t ≠ out`; `out` and every `t` have the
  all-dense format of order `n` with identity ordering. `n = 0` (scalars) and right-hand sides without
  any tensor are in the class.
* **R1** `denseN_toIterationGraphs_head`, `denseN_bestAlgorithm`: the candidate list of
  `toIterationGraphs ∘ desugar` has several elements (every dense tensor has `n!` legal iteration
  orders; the candidates are the `n!` common loop orders); its HEAD, which `bestAlgorithm` takes, is
  `DenseN.graph is (outIdN a.tname is) (rhsIdN a is)`.
* **R2** `denseN_value_denote`: `Graph.value` of the terminal, tensor `<k>_<t>` read at `inp t js`, is
  `Alg.denote a inp sz js`.
* **R3** `evaluate_correct_denseN`: pipeline succeeds, the kernel returns `0`, the fresh output block
  has `Π d` cells and cell `lin 0 ds js` holds `denote a inp sz js` for every multi-index `js` below the
  dimensions (`evaluate_correct_denseN_cells`: the whole block, cell `c` ↦ `denote a inp sz (unlin ds c)`).

## Spmul / Spadd — `a(i) = b(i) * c(i)` and `a(i) = b(i) + c(i)`, all compressed vectors

* the class: the SOURCE assignments `an(i) = bn(i) * cn(i)` (resp. `+`) for ARBITRARY tensor names
  `an, bn, cn` (pairwise different) and index name `i`, over the format table
  `fmts3 an bn cn = [an ↦ s, bn ↦ s, cn ↦ s]`; naming side conditions `Sp2Names` (no `'_'`, the index is
  not a tensor name) for the machine theorem.
* **R1** `spmul_toIterationGraphs_src`, `spmul_bestAlgorithm_src` (`spadd_…`): exactly ONE candidate,
  `Spmul.graph i (spOut an i) (sp2B bn i) (sp2C cn i)` — one loop over `i` carrying the output around
  the terminal `1_<bn> * 2_<cn>`; the co-iteration lattice is created later, by `lower`.
* **R2** `spmul_value_denote` (`spadd_…`): `Graph.value` of the terminal, operands read at `inp bn [x]`,
  `inp cn [x]`, is `denote` of the source assignment at `[x]`; the dense reading `vecAt H x` of the
  stored result (absent = 0) equals `denote` at EVERY coordinate (`spmul_denote`, `spadd_denote`,
  re-exported in R3).
* **R3** `evaluate_correct_spmul`, `evaluate_correct_spadd`: pipeline succeeds, the kernel returns `0`,
  the output's `pos`/`crd`/`vals` blocks hold exactly `H = intersect b c` (resp. `union b c`), and
  `vecAt H x = denote a inputs sizes [x]` for every `x`.

## Spmv — `a(i) = B(i,j) * c(j)`, `a: d, B: ds, c: d`

* the class: the SOURCE assignments `an(i) = Bn(i,j) * cn(j)` for ARBITRARY tensor names (pairwise
  different) and index names `i ≠ j`, over the format table `spFormats an Bn cn`. (`Props/C01Spmv.lean`
  already states its kernel theorems for arbitrary names — `spmv_kernel_correct_names`,
  `spmv_kernel_denote` —; what was missing is R1 beyond the closed `rfl` instance.)
* **R1** `spmv_toIterationGraphs_head`, `spmv_bestAlgorithm_src`: the first candidate is
  `Spmv.graph i j (pOut an i) (pB Bn i j) (pC cn j)` (`i` carrying the output, outside `j`).
* **R2** `spmv_value_denote`: `Σ_{jj < sz j}` of `Graph.value` of the terminal `1_<Bn> * 2_<cn>`, read at
  `inp Bn [ii, jj]`, `inp cn [jj]`, is `denote` of the source assignment at `[ii]`.
* **R3** `evaluate_correct_spmv`: pipeline succeeds, the kernel returns `0` after `2n + nnz` iterations,
  cell `ii` of the fresh output block is `denote a inputs sizes [ii]`, for inputs `Bn` = the matrix the
  CSR arrays decode to.
-/
namespace TV.DenseN
open TV.IR TV.Gen TV.Graph TV.Growth TV.Alg TV.Pipe1 TV.Pipe3

/-! ### R1 -/

/-- **R1 (head of the candidates).** For every assignment of the class, `toIterationGraphs (desugar a)`
succeeds and its first candidate is the loop nest over the target's indexes in the target's order,
level `l` carrying layer `l` of the output, around the terminal `rhsIdN a is`. -/
theorem denseN_toIterationGraphs_head (a : Assign) (formats : Formats) (is : List String)
    (hc : DenseNSource a formats is) :
    ∃ gs, toIterationGraphs (desugar a) formats = .ok gs ∧
      gs.head? = some (graph is (outIdN a.tname is) (rhsIdN a is)) := by
  rw [hc.desugar]
  exact toIterationGraphs_headN is a.tname formats hc.nodup hc.out _ hc.dOk

/-- **R1.** For every assignment of the class the compiler's pipeline `bestAlgorithm ∘ desugar`
chooses the graph of `DenseN`, with the explicitly given output tensor `outIdN a.tname is = 0_<out>`
and terminal expression `rhsIdN a is = toIdN is (plainE a.rhs 1).1`. -/
theorem denseN_bestAlgorithm (a : Assign) (formats : Formats) (is : List String)
    (hc : DenseNSource a formats is) :
    bestAlgorithm (desugar a) formats = .graph (graph is (outIdN a.tname is) (rhsIdN a is)) := by
  obtain ⟨gs, hg, hh⟩ := denseN_toIterationGraphs_head a formats is hc
  cases gs with
  | nil => simp at hh
  | cons g gs =>
    simp only [List.head?_cons, Option.some.injEq] at hh
    simp only [bestAlgorithm, hg, hh]

/-! ### R2 -/

/-- the class never triggers the known defect of the desugaring pass (finding F12) -/
theorem denseN_not_productHoistUnsafe (a : Assign) (formats : Formats) (is : List String)
    (hc : DenseNSource a formats is) : productHoistUnsafe a.tidx a.rhs = false := by
  rw [hc.tidx]; exact productHoistUnsafe_srcOkN is a.tname formats a.rhs hc.rhs

/-- **R2.** For every assignment of the class, all inputs, all sizes and every coordinate list `js`
(one coordinate per index), the value of the terminal expression of the chosen graph — tensor
occurrence `<k>_<t>` read at `inp t js` (`nameOf` strips the occurrence number) — is the
specification `denote` of the source assignment at `js`. -/
theorem denseN_value_denote (a : Assign) (formats : Formats) (is : List String)
    (hc : DenseNSource a formats is) (inp : Inputs) (sz : Sizes) (js : List Nat)
    (hlen : js.length = is.length) :
    value (fun id => inp (nameOf id) js) (rhsIdN a is) = denote a inp sz js := by
  rw [← desugar_correct a inp sz js (denseN_not_productHoistUnsafe a formats is hc), hc.desugar]
  exact value_toIdN inp sz is a.tname formats js hc.nodup hlen _ hc.dOk

/-! ### R3 -/

theorem below_length : ∀ {js ds : List Nat}, Below js ds → js.length = ds.length
  | [], [], _ => rfl
  | [], _ :: _, h => by simp [Below] at h
  | _ :: _, [], h => by simp [Below] at h
  | _ :: js, _ :: ds, h => by simp [below_length h.2]

/-- **R3 (the `evaluate` kernel that the pipeline yields computes the specification, every order).**
Let `a` be a source assignment `out(i₁,…,iₙ) = rhs` of the class `DenseNSource` over the index list
`dims.map (·.1)`, `dims` pairing every index with its dimension value; the format table all dense,
names as in `DenseNNames`; the dimension values `ds = dims.map (·.2)` with all prefix products
`< 2^31` (`Fits 1 ds`) and each `< 2^31`; `inp` any inputs; `σ` an initial machine state as the driver
builds it (`Init`): the variables are exactly the tensor parameters, the output record is output-owned
and its `dimensions` block holds `ds`, the record of every tensor `t` of `rhs` has `vals` pointing to
a live float block whose cell `lin 0 ds js` (row-major) holds `inp t js`, for every multi-index `js`
below `ds` (`hcells`).

Then the pipeline goes through — `bestAlgorithm (desugar a) formats` is a graph `g` and
`generateIr … (desugar a) formats g .evaluate` is a function `f` — and `f` runs on the machine with any
fuel `≥ Σ_l (d_l + 1)` without error, **returns `0`**, the output record's `vals` points to the fresh
block `σ.heap.length`, and that block is live, has exactly `Π d` cells, and its cell `lin 0 ds js`
holds **exactly** `denote a inp sz js`, for every multi-index `js` below `ds` (whatever `sz`: the
class has no contraction). -/
theorem evaluate_correct_denseN (cap : Option Int) (a : Assign) (formats : Formats)
    (dims : List (String × Nat))
    (hc : DenseNSource a formats (dims.map (·.1))) (hnames : DenseNNames formats (dims.map (·.1)))
    (inp : Inputs) (sz : Sizes)
    (hfit : Fits 1 (dims.map (·.2))) (hd31 : ∀ p ∈ dims, p.2 < 2147483648)
    (hn31 : dims.length < 2147483648)
    (tix blkOf : String → Nat) (cellsOf : String → Nat → Rat) (σ : State Rat)
    (hcells : ∀ t ∈ Dense1.leaves (rhsIdN a (dims.map (·.1))), ∀ js, Below js (dims.map (·.2)) →
      cellsOf t.name (lin 0 (dims.map (·.2)) js) = inp t.name js)
    (hinit : Init formats (outIdN a.tname (dims.map (·.1))) (rhsIdN a (dims.map (·.1))) (dims.map (·.2))
      tix blkOf cellsOf σ)
    (fuel : Nat) (hfuel : fuelNeed (dims.map (·.2)) ≤ fuel) :
    ∃ g f, bestAlgorithm (desugar a) formats = .graph g ∧
      generateIr id cap (desugar a) formats g .evaluate = .ok f ∧
      ∃ o, exec fuel f.body σ = .ok o ∧ o.ret = some (.int 0) ∧
        (∃ tr, σ.tensors[tix a.tname]? = some tr ∧
          o.st.tensors[tix a.tname]? = some { tr with vals := .ptr σ.heap.length 0 }) ∧
        ∃ blk, o.st.heap[σ.heap.length]? = some blk ∧ blk.live = true ∧
          blk.cells.length = prod (dims.map (·.2)) ∧
          ∀ js, Below js (dims.map (·.2)) →
            blk.cells[lin 0 (dims.map (·.2)) js]? = some (some (.flt (denote a inp sz js))) := by
  have hd := hc.dOk
  have hout : tensorId 0 (desugar a).tname formats (desugar a).tidx =
      some (outIdN a.tname (dims.map (·.1))) := by
    rw [hc.desugar]; exact tensorId_outN formats a.tname _ hc.out
  have hidx : (desugar a).tidx = dims.map (·.1) := by rw [hc.desugar]
  have hrhs : rhsIdx (dims.map (·.1)) (desugar a).rhs = true := by
    rw [hc.desugar]; exact rhsIdx_dOkN _ a.tname formats _ hd
  have he : isExpr (dims.map (·.1)) (rhsIdN a (dims.map (·.1))) = true :=
    isExpr_toIdN (dims.map (·.1)) a.tname formats _ hd
  have ho : isLeaf (dims.map (·.1)) (outIdN a.tname (dims.map (·.1))) = true := by
    simp [isLeaf, outIdN]
  have hgen := denseN_generateIr_eq (F := Rat) id cap (desugar a) formats _ _ _ hout ho he hc.nodup hnames.fmts hidx hrhs
  obtain ⟨o, eo, hret, hrec, blk, hb, hlive, hcellsB⟩ :=
    denseN_kernel_exact cap (desugar a) formats dims _ _ hout ho he hnames.fmts hidx hrhs (hc.kernelOK hnames) tix blkOf cellsOf σ
      hfit hd31 hn31 hinit
      (fun c id => cellsOf (nameOf id) c)
      (fun c _ t ht => by rw [hc.nameOf_leaf t ht])
      _ hgen fuel hfuel
  refine ⟨_, _, denseN_bestAlgorithm a formats _ hc, hgen, o, eo, hret, hrec, blk, hb, hlive, ?_, ?_⟩
  · rw [hcellsB]; simp
  · intro js hjs
    have hlt : lin 0 (dims.map (·.2)) js < prod (dims.map (·.2)) := by
      have := (lin_bounds (dims.map (·.2)) js 0 hjs).2
      simpa using this
    rw [hcellsB, List.getElem?_map, List.getElem?_range hlt]
    simp only [Option.map_some, Option.some.injEq, Val.flt.injEq]
    rw [← denseN_value_denote a formats _ hc inp sz js (by rw [below_length hjs]; simp)]
    apply value_congr
    intro t ht
    show cellsOf (nameOf t.id) _ = inp (nameOf t.id) js
    rw [hc.nameOf_leaf t ht]
    exact hcells t ht js hjs

/-- **R3, the whole block.** Under the hypotheses of `evaluate_correct_denseN` the fresh output block
is exactly `[denote a inp sz (unlin ds c) | c < Π d]`, where `unlin ds c` is the multi-index of cell
`c` (`lin_unlin`, `unlin_lin`: `unlin ds` and `lin 0 ds` are inverse bijections between the cells
`c < Π d` and the multi-indexes below `ds`). -/
theorem evaluate_correct_denseN_cells (cap : Option Int) (a : Assign) (formats : Formats)
    (dims : List (String × Nat))
    (hc : DenseNSource a formats (dims.map (·.1))) (hnames : DenseNNames formats (dims.map (·.1)))
    (inp : Inputs) (sz : Sizes)
    (hfit : Fits 1 (dims.map (·.2))) (hd31 : ∀ p ∈ dims, p.2 < 2147483648)
    (hn31 : dims.length < 2147483648)
    (tix blkOf : String → Nat) (cellsOf : String → Nat → Rat) (σ : State Rat)
    (hcells : ∀ t ∈ Dense1.leaves (rhsIdN a (dims.map (·.1))), ∀ js, Below js (dims.map (·.2)) →
      cellsOf t.name (lin 0 (dims.map (·.2)) js) = inp t.name js)
    (hinit : Init formats (outIdN a.tname (dims.map (·.1))) (rhsIdN a (dims.map (·.1))) (dims.map (·.2))
      tix blkOf cellsOf σ)
    (fuel : Nat) (hfuel : fuelNeed (dims.map (·.2)) ≤ fuel) :
    ∃ g f, bestAlgorithm (desugar a) formats = .graph g ∧
      generateIr id cap (desugar a) formats g .evaluate = .ok f ∧
      ∃ o, exec fuel f.body σ = .ok o ∧ o.ret = some (.int 0) ∧
        (∃ tr, σ.tensors[tix a.tname]? = some tr ∧
          o.st.tensors[tix a.tname]? = some { tr with vals := .ptr σ.heap.length 0 }) ∧
        ∃ blk, o.st.heap[σ.heap.length]? = some blk ∧ blk.live = true ∧
          blk.cells = (List.range (prod (dims.map (·.2)))).map fun c =>
            some (.flt (denote a inp sz (unlin (dims.map (·.2)) c))) := by
  obtain ⟨g, f, hg, hf, o, eo, hret, hrec, blk, hb, hlive, hlen, hcell⟩ :=
    evaluate_correct_denseN cap a formats dims hc hnames inp sz hfit hd31 hn31 tix blkOf cellsOf σ hcells
      hinit fuel hfuel
  refine ⟨g, f, hg, hf, o, eo, hret, hrec, blk, hb, hlive, ?_⟩
  apply List.ext_getElem? 
  intro c
  by_cases hcl : c < prod (dims.map (·.2))
  · obtain ⟨hbel, hlin⟩ := lin_unlin (dims.map (·.2)) 0 c hcl
    have := hcell _ hbel
    rw [hlin, Nat.zero_mul, Nat.zero_add] at this
    rw [this, List.getElem?_map, List.getElem?_range hcl]
    rfl
  · rw [List.getElem?_eq_none (by omega), List.getElem?_eq_none (by simp; omega)]

/-! ### non-vacuity: `r(x,y) = u(x,y) * v(x,y) - 2 * u(x,y)`, dimensions `(2,2)`,
`u = [[1,2],[3,4]]`, `v = [[5,6],[7,8]]` -/

def p3Formats : Formats :=
  [("r", [.dense, .dense], [0, 1]), ("u", [.dense, .dense], [0, 1]), ("v", [.dense, .dense], [0, 1])]

/-- `r(x,y) = u(x,y) * v(x,y) - 2 * u(x,y)` -/
def p3Assign : Assign :=
  ⟨"r", ["x", "y"], .sub (.mul (.tensor "u" ["x", "y"]) (.tensor "v" ["x", "y"]))
    (.mul (.int 2) (.tensor "u" ["x", "y"]))⟩

def p3Dims : List (String × Nat) := [("x", 2), ("y", 2)]

theorem p3_class : DenseNSource p3Assign p3Formats (p3Dims.map (·.1)) :=
  ⟨rfl, by decide, by decide, by decide⟩

theorem p3_names : DenseNNames p3Formats (p3Dims.map (·.1)) := by
  refine ⟨by decide, ?_, by decide, by decide⟩
  intro f hf
  simp only [p3Formats, List.mem_cons, List.not_mem_nil, or_false] at hf
  rcases hf with rfl | rfl | rfl <;> decide

/-- the explicit terminal expression and output tensor of the instance -/
example : rhsIdN p3Assign ["x", "y"] =
    .add (.mul (.tensor ⟨"1_u", "u", ["x", "y"], [.dense, .dense]⟩)
        (.tensor ⟨"2_v", "v", ["x", "y"], [.dense, .dense]⟩))
      (.mul (.int (-1)) (.mul (.int 2) (.tensor ⟨"3_u", "u", ["x", "y"], [.dense, .dense]⟩))) ∧
    outIdN p3Assign.tname ["x", "y"] = ⟨"0_r", "r", ["x", "y"], [.dense, .dense]⟩ := by decide

/-- R1 on the instance agrees with evaluating the model of the pipeline (independent check); the
candidate list has 2 elements (the two loop orders; mixed orders do not merge), the class graph is the first -/
example : (toIterationGraphs (desugar p3Assign) p3Formats).toOption.map (·.length) = some 2 ∧
    bestAlgorithm (desugar p3Assign) p3Formats =
      .graph (graph ["x", "y"] (outIdN "r" ["x", "y"]) (rhsIdN p3Assign ["x", "y"])) := by
  constructor <;> rfl

/-- R1 is not vacuous -/
example : bestAlgorithm (desugar p3Assign) p3Formats =
    .graph (.iter "x" (some ⟨⟨"0_r", "r", ["x", "y"], [.dense, .dense]⟩, 0⟩)
      (.iter "y" (some ⟨⟨"0_r", "r", ["x", "y"], [.dense, .dense]⟩, 1⟩)
        (.terminal (rhsIdN p3Assign ["x", "y"])))) :=
  denseN_bestAlgorithm p3Assign p3Formats _ p3_class

def p3CellsOf : String → Nat → Rat :=
  fun s c => if s = "u" then [(1 : Rat), 2, 3, 4].getD c 0 else [(5 : Rat), 6, 7, 8].getD c 0

/-- the same as inputs of the specification (row-major, `2 × 2`) -/
def p3Inp : Inputs := fun t coord =>
  match coord with
  | [i, j] => p3CellsOf t (i * 2 + j)
  | _ => 0

/-- R2 is not vacuous: at `(1,0)` the specification is `3 * 7 - 2 * 3 = 15` -/
example : value (fun id => p3Inp (nameOf id) [1, 0]) (rhsIdN p3Assign ["x", "y"]) = 15 ∧
    denote p3Assign p3Inp (fun _ => 2) [1, 0] = 15 := by
  have h := denseN_value_denote p3Assign p3Formats _ p3_class p3Inp (fun _ => 2) [1, 0] rfl
  have h2 : denote p3Assign p3Inp (fun _ => 2) [1, 0] = 15 := by decide +kernel
  exact ⟨h.trans h2, h2⟩

def p3Tix : String → Nat := fun s => if s = "r" then 0 else if s = "u" then 1 else 2
def p3BlkOf : String → Nat := fun s => if s = "u" then 2 else 4

/-- the state the driver builds for `r` (output, dimensions `(2,2)`), `u`, `v` -/
def p3State : State Rat :=
  { vars := [⟨"r", .ptr .tensor, some (.tensor 0)⟩, ⟨"u", .ptr .tensor, some (.tensor 1)⟩,
             ⟨"v", .ptr .tensor, some (.tensor 2)⟩],
    heap := [⟨.int, [some (.int 2), some (.int 2)], .output, true⟩,
             ⟨.int, [some (.int 2), some (.int 2)], .input, true⟩,
             ⟨.float, [some (.flt 1), some (.flt 2), some (.flt 3), some (.flt 4)], .input, true⟩,
             ⟨.int, [some (.int 2), some (.int 2)], .input, true⟩,
             ⟨.float, [some (.flt 5), some (.flt 6), some (.flt 7), some (.flt 8)], .input, true⟩],
    tensors := [⟨2, 0, [none, none], .null, .output⟩, ⟨2, 1, [none, none], .ptr 2 0, .input⟩,
                ⟨2, 3, [none, none], .ptr 4 0, .input⟩] }

theorem p3_leaves : Dense1.leaves (rhsIdN p3Assign (p3Dims.map (·.1))) =
    [⟨"1_u", "u", ["x", "y"], [.dense, .dense]⟩, ⟨"2_v", "v", ["x", "y"], [.dense, .dense]⟩,
     ⟨"3_u", "u", ["x", "y"], [.dense, .dense]⟩] := by decide

theorem p3_init : Init p3Formats (outIdN p3Assign.tname (p3Dims.map (·.1)))
    (rhsIdN p3Assign (p3Dims.map (·.1))) (p3Dims.map (·.2)) p3Tix p3BlkOf p3CellsOf p3State := by
  refine ⟨?_, ?_, ?_, ?_, ?_⟩
  · intro f hf
    simp only [p3Formats, List.mem_cons, List.not_mem_nil, or_false] at hf
    rcases hf with rfl | rfl | rfl <;> exact ⟨_, rfl, rfl, rfl⟩
  · intro x hx
    simp only [p3Formats, List.map_cons, List.map_nil, List.mem_cons, List.not_mem_nil, or_false,
      not_or] at hx
    obtain ⟨h1, h2, h3⟩ := hx
    have e1 : ("r" == x) = false := beq_eq_false_iff_ne.2 (Ne.symm h1)
    have e2 : ("u" == x) = false := beq_eq_false_iff_ne.2 (Ne.symm h2)
    have e3 : ("v" == x) = false := beq_eq_false_iff_ne.2 (Ne.symm h3)
    simp [lookupVar, p3State, List.find?, e1, e2, e3]
  · intro f hf
    simp only [p3Formats, List.mem_cons, List.not_mem_nil, or_false] at hf
    rcases hf with rfl | rfl | rfl <;> exact ⟨_, rfl, rfl⟩
  · refine ⟨_, _, rfl, rfl, rfl, rfl, rfl, ?_⟩
    intro k hk
    match k, hk with
    | 0, _ => rfl
    | 1, _ => rfl
  · intro t ht
    rw [p3_leaves] at ht
    simp only [List.mem_cons, List.not_mem_nil, or_false] at ht
    have h4 : prod (p3Dims.map (·.2)) = 4 := by decide
    rcases ht with rfl | rfl | rfl <;>
    · refine ⟨_, _, rfl, rfl, rfl, rfl, rfl, ?_⟩
      intro j hj
      rw [h4] at hj
      match j, hj with
      | 0, _ => rfl
      | 1, _ => rfl
      | 2, _ => rfl
      | 3, _ => rfl

theorem p3_cells : ∀ t ∈ Dense1.leaves (rhsIdN p3Assign (p3Dims.map (·.1))), ∀ js,
    Below js (p3Dims.map (·.2)) → p3CellsOf t.name (lin 0 (p3Dims.map (·.2)) js) = p3Inp t.name js := by
  intro t _ js hjs
  match js, hjs with
  | [i, j], _ => simp [p3Inp, p3Dims, lin]

/-- **R3 is not vacuous**: every hypothesis holds on the instance; the pipeline yields the kernel, and
the run (fuel `6 = (2+1)+(2+1)`) returns `0` and leaves `[1*5-2*1, 2*6-2*2, 3*7-2*3, 4*8-2*4] =
[3, 8, 15, 24]` — the specification `denote` at `(0,0)`, `(0,1)`, `(1,0)`, `(1,1)` — in the fresh
block `5` the output record points to -/
example : ∃ g f o, bestAlgorithm (desugar p3Assign) p3Formats = .graph g ∧
    generateIr (F := Rat) id none (desugar p3Assign) p3Formats g .evaluate = .ok f ∧
    exec 6 f.body p3State = .ok o ∧ o.ret = some (.int 0) ∧
    (∃ tr, o.st.tensors[0]? = some tr ∧ tr.vals = .ptr 5 0) ∧
    ∃ blk, o.st.heap[5]? = some blk ∧ blk.live = true ∧
      blk.cells = [some (.flt (denote p3Assign p3Inp (fun _ => 2) [0, 0])),
        some (.flt (denote p3Assign p3Inp (fun _ => 2) [0, 1])),
        some (.flt (denote p3Assign p3Inp (fun _ => 2) [1, 0])),
        some (.flt (denote p3Assign p3Inp (fun _ => 2) [1, 1]))] ∧
      blk.cells = [some (.flt 3), some (.flt 8), some (.flt 15), some (.flt 24)] := by
  obtain ⟨g, f, hg, hf, o, eo, hret, ⟨tr, _, htr'⟩, blk, hb, hlive, hcells⟩ :=
    evaluate_correct_denseN_cells none p3Assign p3Formats p3Dims p3_class p3_names p3Inp (fun _ => 2)
      (by simp [p3Dims, Fits]) (by decide) (by decide) p3Tix p3BlkOf p3CellsOf p3State p3_cells p3_init
      6 (by decide)
  have h4 : prod (p3Dims.map (·.2)) = 4 := by decide
  rw [h4] at hcells
  refine ⟨g, f, o, hg, hf, eo, hret, ⟨_, htr', rfl⟩, blk, hb, hlive, hcells, ?_⟩
  rw [hcells]
  have h0 : denote p3Assign p3Inp (fun _ => 2) [0, 0] = 3 := by decide +kernel
  have h1 : denote p3Assign p3Inp (fun _ => 2) [0, 1] = 8 := by decide +kernel
  have h2 : denote p3Assign p3Inp (fun _ => 2) [1, 0] = 15 := by decide +kernel
  have h3 : denote p3Assign p3Inp (fun _ => 2) [1, 1] = 24 := by decide +kernel
  have u0 : unlin (p3Dims.map (·.2)) 0 = [0, 0] := by decide
  have u1 : unlin (p3Dims.map (·.2)) 1 = [0, 1] := by decide
  have u2 : unlin (p3Dims.map (·.2)) 2 = [1, 0] := by decide
  have u3 : unlin (p3Dims.map (·.2)) 3 = [1, 1] := by decide
  simp [List.range, List.range.loop, h0, h1, h2, h3, u0, u1, u2, u3]

/-- the scalar border of the class (`n = 0`): `s() = t() + 3` -/
example : bestAlgorithm (desugar ⟨"s", [], .add (.tensor "t" []) (.int 3)⟩) [("s", [], []), ("t", [], [])] =
    .graph (.terminal (.add (.tensor ⟨"1_t", "t", [], []⟩) (.int 3))) :=
  denseN_bestAlgorithm _ _ [] ⟨rfl, by decide, by decide, by decide⟩

end TV.DenseN

/-- info: 'TV.DenseN.denseN_bestAlgorithm' depends on axioms: [propext, Classical.choice, Quot.sound] -/
#guard_msgs in
#print axioms TV.DenseN.denseN_bestAlgorithm
/-- info: 'TV.DenseN.denseN_value_denote' depends on axioms: [propext, Classical.choice, Quot.sound] -/
#guard_msgs in
#print axioms TV.DenseN.denseN_value_denote
/-- info: 'TV.DenseN.evaluate_correct_denseN' depends on axioms: [propext, Classical.choice, Quot.sound] -/
#guard_msgs in
#print axioms TV.DenseN.evaluate_correct_denseN
/-- info: 'TV.DenseN.evaluate_correct_denseN_cells' depends on axioms: [propext, Classical.choice, Quot.sound] -/
#guard_msgs in
#print axioms TV.DenseN.evaluate_correct_denseN_cells

/-! ## Spmul: `an(i) = bn(i) * cn(i)`, all compressed -/
namespace TV.Spmul
open TV.IR TV.Gen TV.Graph TV.Growth TV.Merge
open TV.Sparse1 (isSp inLeaf outLeaf sparseFormats capVal)
open TV.Alg TV.Pipe1 TV.Pipe2 TV.Pipe3

/-- **R1 (all candidates).** For all tensor names `an, bn, cn` (pairwise different) and every index
name `i`, `toIterationGraphs ∘ desugar` of the SOURCE assignment `an(i) = bn(i) * cn(i)` over the
all-compressed format table returns exactly ONE candidate: the graph of `Spmul`. -/
theorem spmul_toIterationGraphs_src (an bn cn i : String) (hab : an ≠ bn) (hac : an ≠ cn) (hbc : bn ≠ cn) :
    toIterationGraphs (desugar ⟨an, [i], .mul (.tensor bn [i]) (.tensor cn [i])⟩) (fmts3 an bn cn) =
      .ok [graph i (spOut an i) (sp2B bn i) (sp2C cn i)] := by
  rw [desugar_mul]
  exact toIterationGraphs_mul3 an bn cn i hab hac hbc

/-- **R1.** `bestAlgorithm ∘ desugar` chooses the graph of `Spmul` for every member of the class. -/
theorem spmul_bestAlgorithm_src (an bn cn i : String) (hab : an ≠ bn) (hac : an ≠ cn) (hbc : bn ≠ cn) :
    bestAlgorithm (desugar ⟨an, [i], .mul (.tensor bn [i]) (.tensor cn [i])⟩) (fmts3 an bn cn) =
      .graph (graph i (spOut an i) (sp2B bn i) (sp2C cn i)) := by
  simp only [bestAlgorithm, spmul_toIterationGraphs_src an bn cn i hab hac hbc]

theorem nameOf_sp2B (bn i : String) : nameOf (sp2B bn i).id = bn := nameOf_id 1 bn
theorem nameOf_sp2C (cn i : String) : nameOf (sp2C cn i).id = cn := nameOf_id 2 cn

/-- **R2.** The value of the terminal expression `1_<bn> * 2_<cn>` of the chosen graph, its operands
read at `inp bn [x]` and `inp cn [x]`, is the specification `denote` of the source assignment at `[x]`,
for every coordinate `x` (where either operand stores nothing, i.e. reads `0`, the value is `0`: this
is why the kernel may skip those coordinates). -/
theorem spmul_value_denote (an bn cn i : String) (inp : Inputs) (sz : Sizes) (x : Nat) :
    value (fun id => inp (nameOf id) [x]) (mulE (sp2B bn i) (sp2C cn i)) =
      denote ⟨an, [i], .mul (.tensor bn [i]) (.tensor cn [i])⟩ inp sz [x] := by
  rw [denote_mul]
  simp only [mulE, value, nameOf_sp2B, nameOf_sp2C]

/-- **R3 (the `evaluate` kernel that the pipeline yields computes the specification).** For all tensor
names `an, bn, cn` and index name `i` with the naming conditions `Sp2Names`, every initial machine state
`σ` as the driver builds it (`Init`: the output record is output-owned, the two inputs are well-formed
compressed vectors with `mb` resp. `mc` stored entries, coordinates `crdB`/`crdC` strictly increasing and
in the `int32` range, values `cellsB`/`cellsC`) and every valuation `inputs` that reads `bn` and `cn` as
the dense readings of the stored operands:

the pipeline goes through — `bestAlgorithm (desugar a) formats` is a graph `g` and `generateIr` yields an
`evaluate` function `f` for it — and `f` runs with any fuel `≥ mb + mc + 1` without error, **returns
`0`**, leaves in the output record fresh `pos`/`crd`/`vals` blocks holding exactly
`H = intersect b c` (`pos = [0, |H|]`, `crd` = the coordinates, `vals[j]` = the `j`-th value), and the
dense reading of `H` (absent = `0`) is **`denote a inputs sizes [x]` at every coordinate `x`**. -/
theorem evaluate_correct_spmul (cap : Option Int) (an bn cn i : String) (hn : Sp2Names an bn cn i)
    (hk0 : 1 ≤ capVal cap) (hk1 : capVal cap < 2147483648)
    (ta : Nat) (atr : TensorRec Rat) (n : Int)
    (tb : Nat) (btr : TensorRec Rat) (mb bpb bcb bvb : Nat) (crdB : Nat → Int) (cellsB : Nat → Rat)
    (tc : Nat) (ctr : TensorRec Rat) (mc cpb ccb cvb : Nat) (crdC : Nat → Int) (cellsC : Nat → Rat)
    (σ : State Rat)
    (init : Init (spOut an i) (sp2B bn i) (sp2C cn i) ta atr n tb btr mb bpb bcb bvb crdB cellsB
      tc ctr mc cpb ccb cvb crdC cellsC σ)
    (hmb : mb ≤ 1073741824) (hmc : mc ≤ 1073741824)
    (hrngB : ∀ j, j < mb → -2147483648 ≤ crdB j ∧ crdB j < 2147483648)
    (hrngC : ∀ j, j < mc → -2147483648 ≤ crdC j ∧ crdC j < 2147483648)
    (hsB : ∀ j k, j < k → k < mb → crdB j < crdB k) (hsC : ∀ j k, j < k → k < mc → crdC j < crdC k)
    (inputs : Inputs) (sizes : Sizes)
    (hinB : ∀ x : Nat, inputs bn [x] = vecAt (assoc mb crdB cellsB) x)
    (hinC : ∀ x : Nat, inputs cn [x] = vecAt (assoc mc crdC cellsC) x)
    (fuel : Nat) (hfuel : mb + mc + 1 ≤ fuel) :
    ∃ g f, bestAlgorithm (desugar ⟨an, [i], .mul (.tensor bn [i]) (.tensor cn [i])⟩) (fmts3 an bn cn) =
        .graph g ∧
      generateIr id cap (desugar ⟨an, [i], .mul (.tensor bn [i]) (.tensor cn [i])⟩) (fmts3 an bn cn) g
        .evaluate = .ok f ∧
      ∃ o H, H = intersect (assoc mb crdB cellsB) (assoc mc crdC cellsC) ∧
        exec fuel f.body σ = .ok o ∧ o.ret = some (.int 0) ∧ o.iters ≤ mb + mc ∧
        (∃ tr' pF cF vF vblk, o.st.tensors[ta]? = some tr' ∧
          tr'.slots = atr.slots.set 0 (some (.ptr pF 0, .ptr cF 0)) ∧ tr'.vals = .ptr vF 0 ∧
          o.st.heap[pF]? = some ⟨.int, [some (.int 0), some (.int H.length)], .output, true⟩ ∧
          o.st.heap[cF]? = some ⟨.int, H.map (fun p => some (.int p.1)), .output, true⟩ ∧
          o.st.heap[vF]? = some vblk ∧ vblk.live = true ∧ vblk.cells.length = H.length + 1 ∧
          ∀ j (h : j < H.length), vblk.cells[j]? = some (some (.flt H[j].2))) ∧
        ∀ x : Nat, vecAt H x =
          denote ⟨an, [i], .mul (.tensor bn [i]) (.tensor cn [i])⟩ inputs sizes [x] := by
  have hout := tensorId3_out an bn cn i
  have hcl := sp2_isClass an bn cn i
  have hf := sparseFormats3 an bn cn
  have hgen : generateIr (F := Rat) id cap (desugar ⟨an, [i], .mul (.tensor bn [i]) (.tensor cn [i])⟩)
      (fmts3 an bn cn) (graph i (spOut an i) (sp2B bn i) (sp2C cn i)) .evaluate =
      .ok (kernel id cap (fmts3 an bn cn) i (spOut an i) (sp2B bn i) (sp2C cn i)) := by
    rw [desugar_mul]
    exact spmul_generateIr_eq id cap _ _ i _ _ _ hout hcl hf rfl (by simp [Dense1.rhsIdx])
  exact ⟨_, _, spmul_bestAlgorithm_src an bn cn i hn.ab hn.ac hn.bc, hgen,
    spmul_kernel_exact cap an bn cn _ i _ _ _ hout hcl hf (sp2_kernelOK hn) hk0 hk1 ta atr n tb btr mb bpb
      bcb bvb crdB cellsB tc ctr mc cpb ccb cvb crdC cellsC σ init hmb hmc hrngB hrngC hsB hsC _ hgen inputs
      sizes hinB hinC fuel hfuel⟩

/-! ### non-vacuity: `p(k) = q(k) * r(k)`, `q = {0:1, 2:2, 5:3}`, `r = {2:10, 3:20, 5:30}`, dimension 6 -/

/-- the state the driver builds for the output `p` (dimension 6, empty), `q` and `r` -/
def p3State : State Rat :=
  { vars := [⟨"p", .ptr .tensor, some (.tensor 0)⟩, ⟨"q", .ptr .tensor, some (.tensor 1)⟩,
             ⟨"r", .ptr .tensor, some (.tensor 2)⟩],
    heap := [⟨.int, [some (.int 6)], .output, true⟩,
             ⟨.int, [some (.int 6)], .input, true⟩,
             ⟨.int, [some (.int 0), some (.int 3)], .input, true⟩,
             ⟨.int, [some (.int 0), some (.int 2), some (.int 5)], .input, true⟩,
             ⟨.float, [some (.flt 1), some (.flt 2), some (.flt 3)], .input, true⟩,
             ⟨.int, [some (.int 6)], .input, true⟩,
             ⟨.int, [some (.int 0), some (.int 3)], .input, true⟩,
             ⟨.int, [some (.int 2), some (.int 3), some (.int 5)], .input, true⟩,
             ⟨.float, [some (.flt 10), some (.flt 20), some (.flt 30)], .input, true⟩],
    tensors := [⟨1, 0, [some (.null, .null)], .null, .output⟩,
                ⟨1, 1, [some (.ptr 2 0, .ptr 3 0)], .ptr 4 0, .input⟩,
                ⟨1, 5, [some (.ptr 6 0, .ptr 7 0)], .ptr 8 0, .input⟩] }

theorem p3Names : Sp2Names "p" "q" "r" "k" :=
  ⟨by decide, by decide, by decide, by decide, by decide, by decide, by decide, by decide, by decide,
    by decide⟩

theorem p3Init :
    Init (spOut "p" "k") (sp2B "q" "k") (sp2C "r" "k") 0 ⟨1, 0, [some (.null, .null)], .null, .output⟩ 6
      1 ⟨1, 1, [some (.ptr 2 0, .ptr 3 0)], .ptr 4 0, .input⟩ 3 2 3 4 exCrdB (exCellsB (fun z => (z : Rat)))
      2 ⟨1, 5, [some (.ptr 6 0, .ptr 7 0)], .ptr 8 0, .input⟩ 3 6 7 8 exCrdC (exCellsC (fun z => (z : Rat)))
      p3State := by
  refine
    { avar := ⟨_, rfl, rfl, rfl⟩, fresh := ?_, arec := rfl, aown := rfl,
      aord := Nat.zero_lt_one, aslot := ⟨_, _, rfl, rfl, rfl⟩, avals := rfl,
      adim := ⟨_, rfl, rfl, rfl, rfl⟩, n32 := by decide,
      b := { var := ⟨_, rfl, rfl, rfl⟩, hrec := rfl, ord := Nat.zero_lt_one, slot := rfl, vals := rfl,
             pos := ⟨_, rfl, rfl, rfl, rfl, rfl⟩, crd := ⟨_, rfl, rfl, rfl, Nat.le_refl _, ?_⟩,
             val := ⟨_, rfl, rfl, rfl, ?_⟩ },
      c := { var := ⟨_, rfl, rfl, rfl⟩, hrec := rfl, ord := Nat.zero_lt_one, slot := rfl, vals := rfl,
             pos := ⟨_, rfl, rfl, rfl, rfl, rfl⟩, crd := ⟨_, rfl, rfl, rfl, Nat.le_refl _, ?_⟩,
             val := ⟨_, rfl, rfl, rfl, ?_⟩ } }
  · intro x h1 h2 h3
    have e1 : ("p" == x) = false := beq_eq_false_iff_ne.2 (Ne.symm h1)
    have e2 : ("q" == x) = false := beq_eq_false_iff_ne.2 (Ne.symm h2)
    have e3 : ("r" == x) = false := beq_eq_false_iff_ne.2 (Ne.symm h3)
    simp [lookupVar, p3State, List.find?, e1, e2, e3]
  · intro j hj
    match j, hj with
    | 0, _ => rfl
    | 1, _ => rfl
    | 2, _ => rfl
  · intro j hj; exact exCells3 _ _ _ _ j hj
  · intro j hj
    match j, hj with
    | 0, _ => rfl
    | 1, _ => rfl
    | 2, _ => rfl
  · intro j hj; exact exCells3 _ _ _ _ j hj

/-- the inputs of the specification read off the stored operands -/
def p3Inputs : Inputs := fun nm co =>
  if nm = "q" then vecAt (assoc 3 exCrdB (exCellsB (fun z => (z : Rat)))) (co.headD 0)
  else vecAt (assoc 3 exCrdC (exCellsC (fun z => (z : Rat)))) (co.headD 0)

/-- R1 is not vacuous, and agrees with evaluating the model of the pipeline (independent check) -/
example : bestAlgorithm (desugar ⟨"p", ["k"], .mul (.tensor "q" ["k"]) (.tensor "r" ["k"])⟩)
      [("p", [.compressed], [0]), ("q", [.compressed], [0]), ("r", [.compressed], [0])] =
    .graph (.iter "k" (some ⟨⟨"0_p", "p", ["k"], [.compressed]⟩, 0⟩)
      (.terminal (.mul (.tensor ⟨"1_q", "q", ["k"], [.compressed]⟩)
        (.tensor ⟨"2_r", "r", ["k"], [.compressed]⟩)))) ∧
    toIterationGraphs (desugar ⟨"p", ["k"], .mul (.tensor "q" ["k"]) (.tensor "r" ["k"])⟩)
      (fmts3 "p" "q" "r") = .ok [graph "k" (spOut "p" "k") (sp2B "q" "k") (sp2C "r" "k")] :=
  ⟨spmul_bestAlgorithm_src "p" "q" "r" "k" (by decide) (by decide) (by decide), by rfl⟩

/-- **R3 is not vacuous**: every hypothesis holds for `p(k) = q(k) * r(k)`; the pipeline yields the
kernel, the run returns `0`, the stored result is `{2: 20, 5: 90}` and its dense reading is `denote` of
the source assignment at every coordinate -/
example : ∃ (g : IGraph) (f : Func Rat) (o : Out Rat) (H : List (Int × Rat)),
    bestAlgorithm (desugar ⟨"p", ["k"], .mul (.tensor "q" ["k"]) (.tensor "r" ["k"])⟩) (fmts3 "p" "q" "r") =
      .graph g ∧
    generateIr (F := Rat) id none (desugar ⟨"p", ["k"], .mul (.tensor "q" ["k"]) (.tensor "r" ["k"])⟩)
      (fmts3 "p" "q" "r") g .evaluate = .ok f ∧
    exec 7 f.body p3State = .ok o ∧ o.ret = some (.int 0) ∧ H = [(2, 20), (5, 90)] ∧
    (∃ cF : Nat, o.st.heap[cF]? = some ⟨.int, H.map (fun p => some (.int p.1)), .output, true⟩) ∧
    ∀ x : Nat, vecAt H x =
      denote ⟨"p", ["k"], .mul (.tensor "q" ["k"]) (.tensor "r" ["k"])⟩ p3Inputs (fun _ => 6) [x] := by
  obtain ⟨g, f, hg, hf, o, H, hH, eo, hret, _, ⟨tr', pF, cF, vF, vblk, _, _, _, _, h14, _⟩, hden⟩ :=
    evaluate_correct_spmul none "p" "q" "r" "k" p3Names (by decide) (by decide) 0 _ 6 1 _ 3 2 3 4 exCrdB
      (exCellsB (fun z => (z : Rat))) 2 _ 3 6 7 8 exCrdC (exCellsC (fun z => (z : Rat))) _ p3Init
      (by decide) (by decide) exRangeB exRangeC exSortedB exSortedC p3Inputs (fun _ => 6)
      (fun x => by simp [p3Inputs]) (fun x => by simp [p3Inputs]) 7 (by decide)
  have hHv : H = [(2, 20), (5, 90)] := by
    rw [hH]
    simp [assoc, List.range, List.range.loop, exCrdB, exCrdC, exCellsB, exCellsC, intersect, interAux,
      FloatOps.mul]
    constructor <;> grind
  exact ⟨g, f, o, H, hg, hf, eo, hret, hHv, ⟨cF, h14⟩, hden⟩

end TV.Spmul

/-- info: 'TV.Spmul.spmul_bestAlgorithm_src' depends on axioms: [propext, Classical.choice, Quot.sound] -/
#guard_msgs in
#print axioms TV.Spmul.spmul_bestAlgorithm_src
/-- info: 'TV.Spmul.spmul_value_denote' depends on axioms: [propext, Classical.choice, Quot.sound] -/
#guard_msgs in
#print axioms TV.Spmul.spmul_value_denote
/-- info: 'TV.Spmul.evaluate_correct_spmul' depends on axioms: [propext, Classical.choice, Quot.sound] -/
#guard_msgs in
#print axioms TV.Spmul.evaluate_correct_spmul

/-! ## Spadd: `an(i) = bn(i) + cn(i)`, all compressed -/
namespace TV.Spadd
open TV.IR TV.Gen TV.Graph TV.Growth TV.Merge
open TV.Sparse1 (isSp inLeaf outLeaf sparseFormats capVal)
open TV.Spmul (isClass KNames assoc vecAt Init KernelOK)
open TV.Alg TV.Pipe1 TV.Pipe2 TV.Pipe3

/-- **R1 (all candidates).** For all tensor names `an, bn, cn` (pairwise different) and every index
name `i`, `toIterationGraphs ∘ desugar` of the SOURCE assignment `an(i) = bn(i) + cn(i)` over the
all-compressed format table returns exactly ONE candidate: the graph of `Spadd` (a single loop around
the terminal `1_<bn> + 2_<cn>`; the four-point co-iteration lattice is created later, by `lower`). -/
theorem spadd_toIterationGraphs_src (an bn cn i : String) (hab : an ≠ bn) (hac : an ≠ cn) (hbc : bn ≠ cn) :
    toIterationGraphs (desugar ⟨an, [i], .add (.tensor bn [i]) (.tensor cn [i])⟩) (fmts3 an bn cn) =
      .ok [graph i (spOut an i) (sp2B bn i) (sp2C cn i)] := by
  rw [desugar_add]
  exact toIterationGraphs_add3 an bn cn i hab hac hbc

/-- **R1.** `bestAlgorithm ∘ desugar` chooses the graph of `Spadd` for every member of the class. -/
theorem spadd_bestAlgorithm_src (an bn cn i : String) (hab : an ≠ bn) (hac : an ≠ cn) (hbc : bn ≠ cn) :
    bestAlgorithm (desugar ⟨an, [i], .add (.tensor bn [i]) (.tensor cn [i])⟩) (fmts3 an bn cn) =
      .graph (graph i (spOut an i) (sp2B bn i) (sp2C cn i)) := by
  simp only [bestAlgorithm, spadd_toIterationGraphs_src an bn cn i hab hac hbc]

/-- **R2.** The value of the terminal expression `1_<bn> + 2_<cn>` of the chosen graph, its operands
read at `inp bn [x]` and `inp cn [x]` (`0` where nothing is stored), is the specification `denote` of the
source assignment at `[x]`, for every coordinate `x`. -/
theorem spadd_value_denote (an bn cn i : String) (inp : Inputs) (sz : Sizes) (x : Nat) :
    value (fun id => inp (nameOf id) [x]) (addE (sp2B bn i) (sp2C cn i)) =
      denote ⟨an, [i], .add (.tensor bn [i]) (.tensor cn [i])⟩ inp sz [x] := by
  rw [denote_add]
  simp only [addE, value, Spmul.nameOf_sp2B, Spmul.nameOf_sp2C]

/-- **R3 (the `evaluate` kernel that the pipeline yields computes the specification).** For all tensor
names `an, bn, cn` and index name `i` with the naming conditions `Sp2Names`, every initial machine state
`σ` as the driver builds it (`Init`: the output record is output-owned, the two inputs are well-formed
compressed vectors with `mb` resp. `mc` stored entries, `mb + mc ≤ 2^30`, coordinates strictly increasing
and in the `int32` range) and every valuation `inputs` that reads `bn` and `cn` as the dense readings of
the stored operands:

the pipeline goes through — `bestAlgorithm (desugar a) formats` is a graph `g` and `generateIr` yields an
`evaluate` function `f` for it — and `f` runs with any fuel `≥ mb + mc + 1` without error, **returns
`0`** after exactly `|H|` loop iterations, leaves in the output record fresh `pos`/`crd`/`vals` blocks
holding exactly `H = union b c`, and the dense reading of `H` (absent = `0`) is **`denote a inputs sizes
[x]` at every coordinate `x`**. -/
theorem evaluate_correct_spadd (cap : Option Int) (an bn cn i : String) (hn : Sp2Names an bn cn i)
    (hk0 : 1 ≤ capVal cap) (hk1 : capVal cap < 2147483648)
    (ta : Nat) (atr : TensorRec Rat) (n : Int)
    (tb : Nat) (btr : TensorRec Rat) (mb bpb bcb bvb : Nat) (crdB : Nat → Int) (cellsB : Nat → Rat)
    (tc : Nat) (ctr : TensorRec Rat) (mc cpb ccb cvb : Nat) (crdC : Nat → Int) (cellsC : Nat → Rat)
    (σ : State Rat)
    (init : Init (spOut an i) (sp2B bn i) (sp2C cn i) ta atr n tb btr mb bpb bcb bvb crdB cellsB
      tc ctr mc cpb ccb cvb crdC cellsC σ)
    (hsum : mb + mc ≤ 1073741824)
    (hrngB : ∀ j, j < mb → -2147483648 ≤ crdB j ∧ crdB j < 2147483648)
    (hrngC : ∀ j, j < mc → -2147483648 ≤ crdC j ∧ crdC j < 2147483648)
    (hsB : ∀ j k, j < k → k < mb → crdB j < crdB k) (hsC : ∀ j k, j < k → k < mc → crdC j < crdC k)
    (inputs : Inputs) (sizes : Sizes)
    (hinB : ∀ x : Nat, inputs bn [x] = vecAt (assoc mb crdB cellsB) x)
    (hinC : ∀ x : Nat, inputs cn [x] = vecAt (assoc mc crdC cellsC) x)
    (fuel : Nat) (hfuel : mb + mc + 1 ≤ fuel) :
    ∃ g f, bestAlgorithm (desugar ⟨an, [i], .add (.tensor bn [i]) (.tensor cn [i])⟩) (fmts3 an bn cn) =
        .graph g ∧
      generateIr id cap (desugar ⟨an, [i], .add (.tensor bn [i]) (.tensor cn [i])⟩) (fmts3 an bn cn) g
        .evaluate = .ok f ∧
      ∃ o H, H = union (assoc mb crdB cellsB) (assoc mc crdC cellsC) ∧
        exec fuel f.body σ = .ok o ∧ o.ret = some (.int 0) ∧ o.iters = H.length ∧ o.iters ≤ mb + mc ∧
        (∃ tr' pF cF vF vblk, o.st.tensors[ta]? = some tr' ∧
          tr'.slots = atr.slots.set 0 (some (.ptr pF 0, .ptr cF 0)) ∧ tr'.vals = .ptr vF 0 ∧
          o.st.heap[pF]? = some ⟨.int, [some (.int 0), some (.int H.length)], .output, true⟩ ∧
          o.st.heap[cF]? = some ⟨.int, H.map (fun p => some (.int p.1)), .output, true⟩ ∧
          o.st.heap[vF]? = some vblk ∧ vblk.live = true ∧ vblk.cells.length = H.length + 1 ∧
          ∀ j (h : j < H.length), vblk.cells[j]? = some (some (.flt H[j].2))) ∧
        ∀ x : Nat, vecAt H x =
          denote ⟨an, [i], .add (.tensor bn [i]) (.tensor cn [i])⟩ inputs sizes [x] := by
  have hout := tensorId3_out an bn cn i
  have hcl := sp2_isClass an bn cn i
  have hf := sparseFormats3 an bn cn
  have hgen : generateIr (F := Rat) id cap (desugar ⟨an, [i], .add (.tensor bn [i]) (.tensor cn [i])⟩)
      (fmts3 an bn cn) (graph i (spOut an i) (sp2B bn i) (sp2C cn i)) .evaluate =
      .ok (kernel id cap (fmts3 an bn cn) i (spOut an i) (sp2B bn i) (sp2C cn i)) := by
    rw [desugar_add]
    exact spadd_generateIr_eq id cap _ _ i _ _ _ hout hcl hf rfl (by simp [Dense1.rhsIdx])
  exact ⟨_, _, spadd_bestAlgorithm_src an bn cn i hn.ab hn.ac hn.bc, hgen,
    spadd_kernel_exact cap an bn cn _ i _ _ _ hout hcl hf (sp2_kernelOK hn) hk0 hk1 ta atr n tb btr mb bpb
      bcb bvb crdB cellsB tc ctr mc cpb ccb cvb crdC cellsC σ init hsum hrngB hrngC hsB hsC _ hgen inputs
      sizes hinB hinC fuel hfuel⟩

/-! ### non-vacuity: `p(k) = q(k) + r(k)`, `q = {0:1, 2:2, 5:3}`, `r = {2:10, 3:20, 5:30}`, dimension 6
(the machine state and the inputs of the `Spmul` instance) -/

open TV.Spmul (p3State p3Names p3Init p3Inputs exCrdB exCellsB exRangeB exSortedB)

/-- R1 is not vacuous, and agrees with evaluating the model of the pipeline (independent check) -/
example : bestAlgorithm (desugar ⟨"p", ["k"], .add (.tensor "q" ["k"]) (.tensor "r" ["k"])⟩)
      [("p", [.compressed], [0]), ("q", [.compressed], [0]), ("r", [.compressed], [0])] =
    .graph (.iter "k" (some ⟨⟨"0_p", "p", ["k"], [.compressed]⟩, 0⟩)
      (.terminal (.add (.tensor ⟨"1_q", "q", ["k"], [.compressed]⟩)
        (.tensor ⟨"2_r", "r", ["k"], [.compressed]⟩)))) ∧
    toIterationGraphs (desugar ⟨"p", ["k"], .add (.tensor "q" ["k"]) (.tensor "r" ["k"])⟩)
      (fmts3 "p" "q" "r") = .ok [graph "k" (spOut "p" "k") (sp2B "q" "k") (sp2C "r" "k")] :=
  ⟨spadd_bestAlgorithm_src "p" "q" "r" "k" (by decide) (by decide) (by decide), by rfl⟩

/-- **R3 is not vacuous**: every hypothesis holds for `p(k) = q(k) + r(k)`; the pipeline yields the
kernel, the run returns `0` after 4 iterations, the stored result is `{0: 1, 2: 12, 3: 20, 5: 33}` and
its dense reading is `denote` of the source assignment at every coordinate -/
example : ∃ (g : IGraph) (f : Func Rat) (o : Out Rat) (H : List (Int × Rat)),
    bestAlgorithm (desugar ⟨"p", ["k"], .add (.tensor "q" ["k"]) (.tensor "r" ["k"])⟩) (fmts3 "p" "q" "r") =
      .graph g ∧
    generateIr (F := Rat) id none (desugar ⟨"p", ["k"], .add (.tensor "q" ["k"]) (.tensor "r" ["k"])⟩)
      (fmts3 "p" "q" "r") g .evaluate = .ok f ∧
    exec 7 f.body p3State = .ok o ∧ o.ret = some (.int 0) ∧ o.iters = 4 ∧
    H = [(0, 1), (2, 12), (3, 20), (5, 33)] ∧
    (∃ cF : Nat, o.st.heap[cF]? = some ⟨.int, H.map (fun p => some (.int p.1)), .output, true⟩) ∧
    ∀ x : Nat, vecAt H x =
      denote ⟨"p", ["k"], .add (.tensor "q" ["k"]) (.tensor "r" ["k"])⟩ p3Inputs (fun _ => 6) [x] := by
  obtain ⟨g, f, hg, hf, o, H, hH, eo, hret, hit, _, ⟨tr', pF, cF, vF, vblk, _, _, _, _, h14, _⟩, hden⟩ :=
    evaluate_correct_spadd none "p" "q" "r" "k" p3Names (by decide) (by decide) 0 _ 6 1 _ 3 2 3 4 exCrdB
      (exCellsB (fun z => (z : Rat))) 2 _ 3 6 7 8 Spmul.exCrdC (Spmul.exCellsC (fun z => (z : Rat))) _ p3Init
      (by decide) exRangeB Spmul.exRangeC exSortedB Spmul.exSortedC p3Inputs (fun _ => 6)
      (fun x => by simp [p3Inputs]) (fun x => by simp [p3Inputs]) 7 (by decide)
  have hHv : H = [(0, 1), (2, 12), (3, 20), (5, 33)] := by
    rw [hH]
    simp [assoc, List.range, List.range.loop, exCrdB, Spmul.exCrdC, exCellsB, Spmul.exCellsC, union, unionAux,
      FloatOps.add]
    grind
  rw [hHv] at hit
  exact ⟨g, f, o, H, hg, hf, eo, hret, hit, hHv, ⟨cF, h14⟩, hden⟩

end TV.Spadd

/-- info: 'TV.Spadd.spadd_bestAlgorithm_src' depends on axioms: [propext, Classical.choice, Quot.sound] -/
#guard_msgs in
#print axioms TV.Spadd.spadd_bestAlgorithm_src
/-- info: 'TV.Spadd.spadd_value_denote' depends on axioms: [propext, Classical.choice, Quot.sound] -/
#guard_msgs in
#print axioms TV.Spadd.spadd_value_denote
/-- info: 'TV.Spadd.evaluate_correct_spadd' depends on axioms: [propext, Classical.choice, Quot.sound] -/
#guard_msgs in
#print axioms TV.Spadd.evaluate_correct_spadd

/-! ## Spmv: `an(i) = Bn(i,j) * cn(j)`, `an: d, Bn: ds, cn: d` -/
namespace TV.Spmv
open TV.IR TV.Gen TV.Graph TV.Growth TV.Merge
open TV.Dense2 (isI isJ)
open TV.Alg TV.Pipe1 TV.Pipe2 TV.Pipe3

/-- **R1 (head of the candidates).** For all tensor names `an, Bn, cn` (pairwise different) and index
names `i ≠ j`, `toIterationGraphs ∘ desugar` of the SOURCE assignment `an(i) = Bn(i,j) * cn(j)` over
the format table `an: d, Bn: ds, cn: d` succeeds and its first candidate is the graph of `Spmv`. -/
theorem spmv_toIterationGraphs_head (an Bn cn i j : String) (hij : i ≠ j) (hab : an ≠ Bn) (hac : an ≠ cn)
    (hbc : Bn ≠ cn) :
    ∃ gs, toIterationGraphs (desugar ⟨an, [i], .mul (.tensor Bn [i, j]) (.tensor cn [j])⟩)
        (spFormats an Bn cn) = .ok gs ∧
      gs.head? = some (graph i j (pOut an i) (pB Bn i j) (pC cn j)) := by
  rw [Dense2.desugar_matvec an Bn cn i j hij]
  exact toIterationGraphs_spmv an Bn cn i j hij hab hac hbc

/-- **R1.** `bestAlgorithm ∘ desugar` chooses the graph of `Spmv` for every member of the class. -/
theorem spmv_bestAlgorithm_src (an Bn cn i j : String) (hij : i ≠ j) (hab : an ≠ Bn) (hac : an ≠ cn)
    (hbc : Bn ≠ cn) :
    bestAlgorithm (desugar ⟨an, [i], .mul (.tensor Bn [i, j]) (.tensor cn [j])⟩) (spFormats an Bn cn) =
      .graph (graph i j (pOut an i) (pB Bn i j) (pC cn j)) := by
  obtain ⟨gs, hg, hh⟩ := spmv_toIterationGraphs_head an Bn cn i j hij hab hac hbc
  cases gs with
  | nil => simp at hh
  | cons g gs =>
    simp only [List.head?_cons, Option.some.injEq] at hh
    simp only [bestAlgorithm, hg, hh]

/-- the reading of the two tensor occurrences at row `ii`, column `jj` -/
def spmvRho (inp : Inputs) (Bn cn i j : String) (ii jj : Nat) : String → Rat :=
  fun id => if id = (pB Bn i j).id then inp Bn [ii, jj] else inp cn [jj]

/-- **R2.** The sum over all columns `jj < sz j` of the value of the terminal expression
`1_<Bn> * 2_<cn>` of the chosen graph, read at `inp Bn [ii, jj]` and `inp cn [jj]`, is the specification
`denote` of the source assignment at `[ii]` (the kernel sums over the STORED columns only: the others
contribute `0`, `spmv_rowDotF_exact`). -/
theorem spmv_value_denote (an Bn cn i j : String) (hij : i ≠ j) (inp : Inputs) (sz : Sizes) (ii : Nat) :
    sumRange (sz j) (fun jj => value (spmvRho inp Bn cn i j ii jj) (spE (pB Bn i j) (pC cn j))) =
      denote ⟨an, [i], .mul (.tensor Bn [i, j]) (.tensor cn [j])⟩ inp sz [ii] := by
  rw [Dense2.denote_matvec inp sz an Bn cn i j hij ii]
  have hne : (pC cn j).id ≠ (pB Bn i j).id := sp2_ids_ne '2' '1' (by decide) cn Bn
  simp only [spE, value, spmvRho, if_true, hne, if_false]

/-- **R3 (the `evaluate` kernel that the pipeline yields computes the specification).** For all index
names `i`, `j` and tensor names `an`, `Bn`, `cn` without `'_'`, pairwise different; every well-formed
CSR matrix (`Csr n m nnz pos crd`, no sortedness needed) with values `vB`, every dense vector `vC`, all
sizes `< 2^31`, `L` a bound on the row lengths; every initial machine state `σ` as the driver builds it
(`Init`); and inputs of the specification `inputs Bn [ii, jj] = csrAt vB pos crd ii jj` (the matrix the
CSR arrays represent), `inputs cn [jj] = vC jj`, `sizes j = m`:

the pipeline goes through — `bestAlgorithm (desugar a) formats` is a graph `g` and `generateIr` yields an
`evaluate` function `f` for it — and `f` runs with any fuel `≥ n + L + 2` without error, **returns `0`**
after exactly `2 * n + nnz` loop iterations, the output record's `vals` points to the fresh block
`σ.heap.length`, and that block holds **exactly** `denote a inputs sizes [ii]`, `ii = 0 … n-1`. -/
theorem evaluate_correct_spmv (cap : Option Int) (i j an Bn cn : String)
    (hi : '_' ∉ i.toList) (hj : '_' ∉ j.toList) (ha : '_' ∉ an.toList) (hb : '_' ∉ Bn.toList)
    (hc : '_' ∉ cn.toList)
    (hij : i ≠ j) (hia : i ≠ an) (hib : i ≠ Bn) (hic : i ≠ cn) (hja : j ≠ an) (hjb : j ≠ Bn)
    (hjc : j ≠ cn) (hab : an ≠ Bn) (hac : an ≠ cn) (hbc : Bn ≠ cn)
    (n m nnz ta tb tc pb cb vb xb : Nat) (pos crd : Nat → Nat) (vB vC : Nat → Rat) (σ : State Rat)
    (hcsr : Csr n m nnz pos crd)
    (hn : n < 2147483648) (hm : m < 2147483648) (hnnz : nnz < 2147483648)
    (L : Nat) (hL : ∀ ii, ii < n → pos (ii + 1) - pos ii ≤ L)
    (hinit : Init (pOut an i) (pB Bn i j) (pC cn j) n m nnz ta tb tc pb cb vb xb pos crd vB vC σ)
    (inputs : Inputs) (sizes : Sizes) (hsz : sizes j = m)
    (hinB : ∀ ii, ii < n → ∀ jj, jj < m → inputs Bn [ii, jj] = csrAt vB pos crd ii jj)
    (hinC : ∀ jj, jj < m → inputs cn [jj] = vC jj)
    (fuel : Nat) (hfuel : n + L + 2 ≤ fuel) :
    ∃ g f, bestAlgorithm (desugar ⟨an, [i], .mul (.tensor Bn [i, j]) (.tensor cn [j])⟩)
        (spFormats an Bn cn) = .graph g ∧
      generateIr id cap (desugar ⟨an, [i], .mul (.tensor Bn [i, j]) (.tensor cn [j])⟩)
        (spFormats an Bn cn) g .evaluate = .ok f ∧
      ∃ o, exec fuel f.body σ = .ok o ∧ o.ret = some (.int 0) ∧ o.iters = 2 * n + nnz ∧
        (∃ tr, σ.tensors[ta]? = some tr ∧
          o.st.tensors[ta]? = some { tr with vals := .ptr σ.heap.length 0 }) ∧
        ∃ blk, o.st.heap[σ.heap.length]? = some blk ∧ blk.live = true ∧
          blk.cells = (List.range n).map fun ii =>
            some (.flt (denote ⟨an, [i], .mul (.tensor Bn [i, j]) (.tensor cn [j])⟩ inputs sizes [ii])) := by
  have hgen : generateIr (F := Rat) id cap (desugar ⟨an, [i], .mul (.tensor Bn [i, j]) (.tensor cn [j])⟩)
      (spFormats an Bn cn) (graph i j (pOut an i) (pB Bn i j) (pC cn j)) .evaluate =
      .ok (kernel id i j (pOut an i) (pB Bn i j) (pC cn j)) := by
    rw [Dense2.desugar_matvec an Bn cn i j hij]
    exact spmv_generateIr_eq id cap _ i j hij (pOut an i) (pB Bn i j) (pC cn j) (tensorId_out an Bn cn i)
      (by simp [isI, pOut]) (by simp [isCsr, pB]) (by simp [isJ, pC])
      (Dense2.indexDimensions_matvec an Bn cn i j hij 1 2)
  exact ⟨_, _, spmv_bestAlgorithm_src an Bn cn i j hij hab hac hbc, hgen,
    spmv_kernel_denote cap i j (pOut an i) (pB Bn i j) (pC cn j) (tensorId_out an Bn cn i)
      (by simp [isCsr, pB]) (by simp [isJ, pC])
      (spmv_names_generated i j an Bn cn hi hj ha hb hc hij hia hib hic hja hjb hjc hab hac hbc)
      n m nnz ta tb tc pb cb vb xb pos crd vB vC σ hcsr hn hm hnnz L hL hinit inputs sizes hsz hinB hinC _
      hgen fuel hfuel⟩

/-! ### non-vacuity: `y(r) = M(r,c) * x(c)`, `M = [[1,0,2],[0,0,0],[0,3,0]]` in CSR, `x = [4,5,6]` -/

/-- the state the driver builds for `y` (output, dimension 3), `M` (CSR) and `x` -/
def p3State : State Rat :=
  { vars := [⟨"y", .ptr .tensor, some (.tensor 0)⟩, ⟨"M", .ptr .tensor, some (.tensor 1)⟩,
             ⟨"x", .ptr .tensor, some (.tensor 2)⟩],
    heap := [⟨.int, [some (.int 3)], .output, true⟩,
             ⟨.int, [some (.int 3), some (.int 3)], .input, true⟩,
             ⟨.int, [some (.int 0), some (.int 2), some (.int 2), some (.int 3)], .input, true⟩,
             ⟨.int, [some (.int 0), some (.int 2), some (.int 1)], .input, true⟩,
             ⟨.float, [some (.flt 1), some (.flt 2), some (.flt 3)], .input, true⟩,
             ⟨.int, [some (.int 3)], .input, true⟩,
             ⟨.float, [some (.flt 4), some (.flt 5), some (.flt 6)], .input, true⟩],
    tensors := [⟨1, 0, [none], .null, .output⟩,
                ⟨2, 1, [none, some (.ptr 2 0, .ptr 3 0)], .ptr 4 0, .input⟩,
                ⟨1, 5, [none], .ptr 6 0, .input⟩] }

theorem p3Init : Init (pOut "y" "r") (pB "M" "r" "c") (pC "x" "c") 3 3 3 0 1 2 2 3 4 6 exPos exCrd
    (exVB (fun z => (z : Rat))) (exVC (fun z => (z : Rat))) p3State := by
  refine ⟨⟨_, rfl, rfl, rfl⟩, ⟨_, rfl, rfl, rfl⟩, ⟨_, rfl, rfl, rfl⟩, ?_,
    ⟨_, _, rfl, rfl, rfl, rfl, rfl, rfl, rfl⟩, ⟨_, _, rfl, by show 1 < 2; omega, rfl, rfl, rfl, rfl, rfl, rfl⟩,
    ⟨_, rfl, rfl⟩, ⟨_, rfl, rfl, rfl, ?_⟩, ⟨_, rfl, rfl, rfl, by show 3 ≤ 3; omega, ?_⟩,
    ⟨_, rfl, rfl, rfl, ?_⟩, ⟨_, rfl, rfl, rfl, ?_⟩⟩
  · intro x h1 h2 h3
    have e1 : ("y" == x) = false := beq_eq_false_iff_ne.2 (Ne.symm h1)
    have e2 : ("M" == x) = false := beq_eq_false_iff_ne.2 (Ne.symm h2)
    have e3 : ("x" == x) = false := beq_eq_false_iff_ne.2 (Ne.symm h3)
    simp [lookupVar, p3State, List.find?, e1, e2, e3]
  · intro k hk
    match k, hk with
    | 0, _ => rfl
    | 1, _ => rfl
    | 2, _ => rfl
    | 3, _ => rfl
  · intro p hp
    match p, hp with
    | 0, _ => rfl
    | 1, _ => rfl
    | 2, _ => rfl
  · intro p hp
    match p, hp with
    | 0, _ => rfl
    | 1, _ => rfl
    | 2, _ => rfl
  · intro k hk
    match k, hk with
    | 0, _ => rfl
    | 1, _ => rfl
    | 2, _ => rfl

/-- the inputs of the instance as the specification sees them: the DENSE matrix
`[[1,0,2],[0,0,0],[0,3,0]]` and the vector `[4,5,6]` -/
def p3Inputs : Inputs := fun s coord =>
  if s = "M" then [(1 : Rat), 0, 2, 0, 0, 0, 0, 3, 0].getD (coord.getD 0 0 * 3 + coord.getD 1 0) 0
  else [(4 : Rat), 5, 6].getD (coord.getD 0 0) 0

set_option linter.unusedSimpArgs false in
theorem p3Decoded : ∀ ii, ii < 3 → ∀ jj, jj < 3 →
    p3Inputs "M" [ii, jj] = csrAt (exVB (fun z => (z : Rat))) exPos exCrd ii jj := by
  intro ii hii jj hjj
  match ii, hii, jj, hjj with
  | 0, _, 0, _ => simp [p3Inputs, csrAt, entrySum, exPos, exCrd, exVB] <;> grind
  | 0, _, 1, _ => simp [p3Inputs, csrAt, entrySum, exPos, exCrd, exVB] <;> grind
  | 0, _, 2, _ => simp [p3Inputs, csrAt, entrySum, exPos, exCrd, exVB] <;> grind
  | 1, _, 0, _ => simp [p3Inputs, csrAt, entrySum, exPos, exCrd, exVB] <;> grind
  | 1, _, 1, _ => simp [p3Inputs, csrAt, entrySum, exPos, exCrd, exVB] <;> grind
  | 1, _, 2, _ => simp [p3Inputs, csrAt, entrySum, exPos, exCrd, exVB] <;> grind
  | 2, _, 0, _ => simp [p3Inputs, csrAt, entrySum, exPos, exCrd, exVB] <;> grind
  | 2, _, 1, _ => simp [p3Inputs, csrAt, entrySum, exPos, exCrd, exVB] <;> grind
  | 2, _, 2, _ => simp [p3Inputs, csrAt, entrySum, exPos, exCrd, exVB] <;> grind

/-- R1 is not vacuous, and agrees with evaluating the model of the pipeline (independent check: the
candidate list has exactly one element) -/
example : bestAlgorithm (desugar ⟨"y", ["r"], .mul (.tensor "M" ["r", "c"]) (.tensor "x" ["c"])⟩)
      [("y", [.dense], [0]), ("M", [.dense, .compressed], [0, 1]), ("x", [.dense], [0])] =
    .graph (.iter "r" (some ⟨⟨"0_y", "y", ["r"], [.dense]⟩, 0⟩) (.iter "c" none
      (.terminal (.mul (.tensor ⟨"1_M", "M", ["r", "c"], [.dense, .compressed]⟩)
        (.tensor ⟨"2_x", "x", ["c"], [.dense]⟩))))) ∧
    toIterationGraphs (desugar ⟨"y", ["r"], .mul (.tensor "M" ["r", "c"]) (.tensor "x" ["c"])⟩)
      (spFormats "y" "M" "x") = .ok [graph "r" "c" (pOut "y" "r") (pB "M" "r" "c") (pC "x" "c")] :=
  ⟨spmv_bestAlgorithm_src "y" "M" "x" "r" "c" (by decide) (by decide) (by decide) (by decide), by rfl⟩

/-- R2 is not vacuous: row 0 of the instance, `1*4 + 0*5 + 2*6 = 16` -/
example : sumRange 3 (fun jj => value (spmvRho p3Inputs "M" "x" "r" "c" 0 jj)
      (spE (pB "M" "r" "c") (pC "x" "c"))) = 16 ∧
    denote ⟨"y", ["r"], .mul (.tensor "M" ["r", "c"]) (.tensor "x" ["c"])⟩ p3Inputs (fun _ => 3) [0] = 16 := by
  have h := spmv_value_denote "y" "M" "x" "r" "c" (by decide) p3Inputs (fun _ => 3) 0
  have h2 : denote ⟨"y", ["r"], .mul (.tensor "M" ["r", "c"]) (.tensor "x" ["c"])⟩ p3Inputs (fun _ => 3) [0]
      = 16 := by
    rw [Dense2.denote_matvec p3Inputs (fun _ => 3) "y" "M" "x" "r" "c" (by decide) 0]
    simp [sumRange, p3Inputs, List.range, List.range.loop]
    grind
  exact ⟨h.trans h2, h2⟩

/-- **R3 is not vacuous**: every hypothesis holds for `y(r) = M(r,c) * x(c)`; the pipeline yields the
kernel, the run (fuel 7) returns `0` after `2 * 3 + 3 = 9` iterations and leaves `denote` of the source
assignment at `[0]`, `[1]`, `[2]` in the fresh block `7` the output record points to -/
example : ∃ (g : IGraph) (f : Func Rat) (o : Out Rat),
    bestAlgorithm (desugar ⟨"y", ["r"], .mul (.tensor "M" ["r", "c"]) (.tensor "x" ["c"])⟩)
      (spFormats "y" "M" "x") = .graph g ∧
    generateIr (F := Rat) id none (desugar ⟨"y", ["r"], .mul (.tensor "M" ["r", "c"]) (.tensor "x" ["c"])⟩)
      (spFormats "y" "M" "x") g .evaluate = .ok f ∧
    exec 7 f.body p3State = .ok o ∧ o.ret = some (.int 0) ∧ o.iters = 9 ∧
    (∃ tr, o.st.tensors[0]? = some tr ∧ tr.vals = .ptr 7 0) ∧
    ∃ blk, o.st.heap[7]? = some blk ∧ blk.live = true ∧
      blk.cells = (List.range 3).map fun ii => some (.flt
        (denote ⟨"y", ["r"], .mul (.tensor "M" ["r", "c"]) (.tensor "x" ["c"])⟩ p3Inputs (fun _ => 3) [ii])) := by
  obtain ⟨g, f, hg, hf, o, eo, hret, hit, ⟨tr, _, htr'⟩, blk, hb, hlive, hcells⟩ :=
    evaluate_correct_spmv none "r" "c" "y" "M" "x" (by decide) (by decide) (by decide) (by decide) (by decide)
      (by decide) (by decide) (by decide) (by decide) (by decide) (by decide) (by decide) (by decide)
      (by decide) (by decide)
      3 3 3 0 1 2 2 3 4 6 exPos exCrd _ _ _ exCsr (by omega) (by omega) (by omega) 2 exRows p3Init
      p3Inputs (fun _ => 3) rfl p3Decoded
      (by
        intro jj hjj
        match jj, hjj with
        | 0, _ => rfl
        | 1, _ => rfl
        | 2, _ => rfl)
      7 (by omega)
  exact ⟨g, f, o, hg, hf, eo, hret, hit, ⟨_, htr', rfl⟩, blk, hb, hlive, hcells⟩

end TV.Spmv

/-- info: 'TV.Spmv.spmv_bestAlgorithm_src' depends on axioms: [propext, Classical.choice, Quot.sound] -/
#guard_msgs in
#print axioms TV.Spmv.spmv_bestAlgorithm_src
/-- info: 'TV.Spmv.spmv_value_denote' depends on axioms: [propext, Classical.choice, Quot.sound] -/
#guard_msgs in
#print axioms TV.Spmv.spmv_value_denote
/-- info: 'TV.Spmv.evaluate_correct_spmv' depends on axioms: [propext, Classical.choice, Quot.sound] -/
#guard_msgs in
#print axioms TV.Spmv.evaluate_correct_spmv
