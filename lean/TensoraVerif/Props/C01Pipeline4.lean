import TensoraVerif.Lemmas.Pipe4MatClass
import TensoraVerif.Props.C01Sparse2
import TensoraVerif.Props.C01Csr
import TensoraVerif.Props.C01
import TensoraVerif.Lemmas.Pipe4Conv
import TensoraVerif.Props.C01Convert2
import TensoraVerif.Lemmas.Pipe4Spdot
import TensoraVerif.Lemmas.Pipe1Value
import TensoraVerif.Props.C01Spdot
import TensoraVerif.Lemmas.Pipe4MatmulNames
import TensoraVerif.Props.C01DenseTerm

/-!
# C01, the full pipeline (front half + composition) for the kernel classes Sparse2, Csr, Conv, Spdot, DenseTerm

## Sparse2 / Csr — matrix copy/scale (`ss → ss`, `ds → ds`)

`Props/C01Sparse2.lean` and `Props/C01Csr.lean` prove that the kernel generated for a GIVEN iteration graph
stores `Graph.value` of its terminal expression. This file adds the FRONT HALF for the classes of SOURCE
assignments (arbitrary tensor and index names) and composes the two halves. (The classes `Conv`, `Spdot`,
`DenseTerm` follow below, each with its own header.)

## The class

The SOURCE assignments `an(i,j) = bn(i,j)` (`c = none`) and `an(i,j) = c * bn(i,j)` (`c = some v`, `v` an
integer literal) — `Pipe4.matRhs c bn i j` — for ARBITRARY tensor names `an ≠ bn` and index names `i ≠ j`, over
the format table `Pipe4.fmts2 m0 m1 an bn = [an ↦ [m0,m1], bn ↦ [m0,m1]]` (identity orderings), with
`[m0,m1] = ss` (`Sparse2`) resp. `ds` (`Csr`); naming side conditions `Pipe4.MatNames` (no `'_'`, pairwise
different) for the machine theorems. The terminal expression is `Pipe4.matE c bT`: `1_<bn>` resp.
`c * 1_<bn>`.

* **R1** `sparse2_toIterationGraphs_src`, `sparse2_bestAlgorithm_src` (`csr_…`): `toIterationGraphs ∘ desugar`
  returns exactly ONE candidate (both formats have a single legal iteration order): the graph
  `Sparse2.graph i j (pOut an i j) (matE c (pB "1" bn i j))` — `i` outside `j`, level `l` carrying layer `l` of
  the output.
* **R2** `sparse2_value_denote` (`csr_…`): `Graph.value` of the terminal, `1_<bn>` read at `inp bn [x, y]`, is
  `Alg.denote` of the source assignment at `[x, y]`.
* **R3** `evaluate_correct_sparse2`, `evaluate_correct_csr`: the pipeline succeeds, the kernel returns `0`
  after exactly `R + nnz` (resp. `n + nnz`) iterations, the output's index arrays and values are as in the
  kernel theorems, and the dense reading of the stored result (absent = `0`) is
  `denote a inputs sizes [x, y]` at EVERY coordinate pair.
-/
namespace TV.Sparse2
open TV.IR TV.Gen TV.Graph TV.Growth TV.Merge
open TV.Sparse1 (capVal)
open TV.Alg TV.Pipe1 TV.Pipe2 TV.Pipe4

/-! ### R1 -/

/-- **R1 (all candidates).** For all tensor names `an ≠ bn`, index names `i ≠ j` and both right-hand sides
(`c = none`: `bn(i,j)`; `c = some v`: `v * bn(i,j)`), `toIterationGraphs ∘ desugar` of the SOURCE assignment
over the doubly compressed format table returns exactly ONE candidate: the graph of `Sparse2`. -/
theorem sparse2_toIterationGraphs_src (c : Option Int) (an bn i j : String) (hij : i ≠ j) (hab : an ≠ bn) :
    toIterationGraphs (desugar ⟨an, [i, j], matRhs c bn i j⟩) (fmts2 .compressed .compressed an bn) =
      .ok [graph i j (pOut an i j) (matE c (pB "1" bn i j))] := by
  rw [matDesugar c an bn i j hij]
  exact matToIterationGraphs .compressed .compressed legalIterationOrders_ss c an bn i j hij hab

/-- **R1.** `bestAlgorithm ∘ desugar` chooses the graph of `Sparse2` for every member of the class. -/
theorem sparse2_bestAlgorithm_src (c : Option Int) (an bn i j : String) (hij : i ≠ j) (hab : an ≠ bn) :
    bestAlgorithm (desugar ⟨an, [i, j], matRhs c bn i j⟩) (fmts2 .compressed .compressed an bn) =
      .graph (graph i j (pOut an i j) (matE c (pB "1" bn i j))) := by
  simp only [bestAlgorithm, sparse2_toIterationGraphs_src c an bn i j hij hab]

/-! ### R2 -/

/-- **R2.** The value of the terminal expression `1_<bn>` resp. `c * 1_<bn>` of the chosen graph, its tensor
read at `inp bn [x, y]` (`nameOf` strips the occurrence number), is the specification `denote` of the source
assignment at `[x, y]`, for every coordinate pair (where `bn` stores nothing, i.e. reads `0`, the value is `0`:
this is why the kernel may skip those coordinates). -/
theorem sparse2_value_denote (c : Option Int) (an bn i j : String) (hij : i ≠ j) (inp : Inputs) (sz : Sizes)
    (x y : Nat) :
    value (fun id => inp (Pipe1.nameOf id) [x, y]) (matE c (pB "1" bn i j)) =
      denote ⟨an, [i, j], matRhs c bn i j⟩ inp sz [x, y] := by
  rw [matDenote c an bn i j hij]
  cases c <;> rfl

/-! ### R3 -/

/-- the dense reading of the stored result is `denote` of the source assignment, at every coordinate pair -/
theorem sparse2_outAt_denote (c : Option Int) (an bn i j : String) (hij : i ≠ j) (d : BData Rat) (h : d.Wf)
    (hs0 : ∀ a b, a < b → b < d.R → d.crd0 a < d.crd0 b)
    (inputs : Inputs) (sizes : Sizes) (hin : ∀ x y : Nat, inputs bn [x, y] = d.at x y) (x y : Nat) :
    d.outAt (matE c (pB "1" bn i j)) x y = denote ⟨an, [i, j], matRhs c bn i j⟩ inputs sizes [x, y] := by
  cases c with
  | none => exact sparse2_denote_copy an bn i j hij _ d h hs0 inputs sizes hin x y
  | some v => exact sparse2_denote_scale an bn i j hij v _ d h hs0 inputs sizes hin x y

/-- **R3 (the `evaluate` kernel that the pipeline yields computes the specification).** For all tensor names
`an, bn` and index names `i, j` with the naming conditions `MatNames`, both right-hand sides (`c`), every
well-formed doubly compressed input `d` (`ok`: laid out in the initial heap; the static fields of `Ctx.OK` —
class predicates, distinct names — hold for the class, see `sparse2_static_src`) with strictly increasing row
coordinates, every initial machine state `σ` as the driver builds it (`Init`) and every valuation `inputs` that
reads `bn` as the dense reading of the stored operand:

the pipeline goes through — `bestAlgorithm (desugar a) formats` is a graph `g` and `generateIr` yields an
`evaluate` function `f` for it — and `f` runs with any fuel `≥ R + nnz + 2` without error, **returns `0`**
after exactly `R + nnz` iterations, leaves in the output record fresh `pos0`/`crd0`/`pos1`/`crd1`/`vals` blocks
holding the non-empty rows of `d` (as in `sparse2_kernel_exact`; cell `q` of `vals` is the terminal's value at
entry `q`), and the dense reading of that result (absent = `0`) is **`denote a inputs sizes [x, y]` at every
coordinate pair `(x, y)`**. -/
theorem evaluate_correct_sparse2 (cap : Option Int) (c : Option Int) (an bn i j : String)
    (hn : MatNames an bn i j) (hk0 : 1 ≤ capVal cap) (hk1 : capVal cap < 2147483648)
    (d : BData Rat) (ta tb : Nat) (atr btr : TensorRec Rat) (n m : Int) (bp0 bc0 bp1 bc1 bv : Nat)
    (σ : State Rat)
    (ok : (Ctx.mk id i j (pOut an i j) (pB "1" bn i j) (matE c (pB "1" bn i j)) d σ.heap σ.tensors ta
      bp0 bc0 bp1 bc1 bv).OK)
    (init : Init (Ctx.mk id i j (pOut an i j) (pB "1" bn i j) (matE c (pB "1" bn i j)) d σ.heap σ.tensors ta
      bp0 bc0 bp1 bc1 bv) atr btr tb n m σ)
    (hs0 : ∀ a b, a < b → b < d.R → d.crd0 a < d.crd0 b)
    (inputs : Inputs) (sizes : Sizes) (hin : ∀ x y : Nat, inputs bn [x, y] = d.at x y)
    (fuel : Nat) (hfuel : d.R + d.nnz + 2 ≤ fuel) :
    ∃ g f, bestAlgorithm (desugar ⟨an, [i, j], matRhs c bn i j⟩) (fmts2 .compressed .compressed an bn) =
        .graph g ∧
      generateIr id cap (desugar ⟨an, [i, j], matRhs c bn i j⟩) (fmts2 .compressed .compressed an bn) g
        .evaluate = .ok f ∧
      ∃ o, exec fuel f.body σ = .ok o ∧ o.ret = some (.int 0) ∧ o.iters = d.R + d.nnz ∧
        (∃ tr' p0 c0 p1 c1 v vblk, o.st.tensors[ta]? = some tr' ∧
          tr'.slots = (atr.slots.set 0 (some (.ptr p0 0, .ptr c0 0))).set 1 (some (.ptr p1 0, .ptr c1 0)) ∧
          tr'.vals = .ptr v 0 ∧
          o.st.heap[p0]? =
            some ⟨.int, [some (.int 0), some (.int ((d.kept d.R).length : Int))], .output, true⟩ ∧
          o.st.heap[c0]? = some ⟨.int, (d.outCrd0 d.R).map (fun z => some (.int z)), .output, true⟩ ∧
          o.st.heap[p1]? = some ⟨.int, (d.outPos1 d.R).map (fun z => some (.int z)), .output, true⟩ ∧
          o.st.heap[c1]? =
            some ⟨.int, (List.range d.nnz).map (fun q => some (.int (d.crd1 q))), .output, true⟩ ∧
          o.st.heap[v]? = some vblk ∧ vblk.live = true ∧ vblk.cells.length = d.nnz + 1 ∧
          ∀ q, q < d.nnz →
            vblk.cells[q]? = some (some (.flt (value (fun _ => d.vals q) (matE c (pB "1" bn i j)))))) ∧
        ∀ x y : Nat, d.outAt (matE c (pB "1" bn i j)) x y =
          denote ⟨an, [i, j], matRhs c bn i j⟩ inputs sizes [x, y] := by
  have hout : tensorId 0 an (fmts2 .compressed .compressed an bn) [i, j] = some (pOut an i j) :=
    matTensorId_out .compressed .compressed an bn i j
  have hgen : generateIr (F := Rat) id cap (desugar ⟨an, [i, j], matRhs c bn i j⟩)
      (fmts2 .compressed .compressed an bn) (graph i j (pOut an i j) (matE c (pB "1" bn i j))) .evaluate =
      .ok (kernel id cap (fmts2 .compressed .compressed an bn) i j (pOut an i j) (pB "1" bn i j)
        (matE c (pB "1" bn i j))) := by
    rw [matDesugar c an bn i j hn.ij]
    exact sparse2_generateIr_eq id cap _ _ i j _ _ _ hout hn.ij (ss_isSS an i j) (ss_isExpr c bn i j hn.ij)
      (ss_formats an bn) rfl (matRhsIdx c bn i j)
  obtain ⟨o, eo, hret, hit, hrest⟩ :=
    sparse2_kernel_exact cap ⟨an, [i, j], matD c bn i j⟩ (fmts2 .compressed .compressed an bn) i j
      (pOut an i j) (pB "1" bn i j) (matE c (pB "1" bn i j)) hout (ss_formats an bn) rfl
      (matRhsIdx c bn i j) rfl hk0 hk1 d ta tb atr btr n m bp0 bc0 bp1 bc1 bv σ ok init _
      (by rw [← matDesugar c an bn i j hn.ij]; exact hgen) fuel hfuel
  exact ⟨_, _, sparse2_bestAlgorithm_src c an bn i j hn.ij hn.ab, hgen, o, eo, hret, hit, hrest,
    sparse2_outAt_denote c an bn i j hn.ij d ok.wf hs0 inputs sizes hin⟩

/-- **the static fields of `Ctx.OK` hold on the whole class**: the output tensor and the terminal expression
the front half builds are in the class of the kernel theorem, and the kernel's variable names are pairwise
distinct. -/
theorem sparse2_static_src (c : Option Int) (an bn i j : String) (hn : MatNames an bn i j) :
    isSS i j (pOut an i j) = true ∧ isExpr i j (pB "1" bn i j) (matE c (pB "1" bn i j)) = true ∧
      (allNames i j (pOut an i j) (pB "1" bn i j)).Nodup :=
  ⟨ss_isSS an i j, ss_isExpr c bn i j hn.ij,
    sparse2_names_generated i j an bn "1" hn.iu hn.ju hn.au hn.bu (by decide) hn.ij hn.ia hn.ib hn.ja hn.jb
      hn.ab⟩

/-! ### non-vacuity: `p(x,y) = 3 * q(x,y)`, `q = {0: {1: 2}, 2: {} (stored but empty), 3: {0: 5, 2: 7}}`,
dimensions `4 × 3` -/

theorem p4Names : MatNames "p" "q" "x" "y" :=
  ⟨by decide, by decide, by decide, by decide, by decide, by decide, by decide, by decide, by decide, by decide⟩

/-- the state the driver builds for the output `p` (`4 × 3`, empty) and `q` -/
def p4State : State Rat :=
  { vars := [⟨"p", .ptr .tensor, some (.tensor 0)⟩, ⟨"q", .ptr .tensor, some (.tensor 1)⟩],
    heap := (exStateOf (fun z => (z : Rat))).heap,
    tensors := (exStateOf (fun z => (z : Rat))).tensors }

/-- the context of the instance -/
def p4K : Ctx Rat :=
  ⟨id, "x", "y", pOut "p" "x" "y", pB "1" "q" "x" "y", matE (some 3) (pB "1" "q" "x" "y"),
    exD (fun z => (z : Rat)), p4State.heap, p4State.tensors, 0, 2, 3, 4, 5, 6⟩

theorem p4OK : p4K.OK := by
  have h := exOK (F := Rat) id (fun z => (z : Rat)) (fun q _ => ToIr.allFinite_rat _ _ _)
  obtain ⟨hnm, hcl, hcn⟩ := sparse2_static_src (some 3) "p" "q" "x" "y" p4Names
  exact { names := hcn, ho := hnm, he := hcl, wf := h.wf, fin := fun q _ => ToIr.allFinite_rat _ _ _,
          p0 := h.p0, c0 := h.c0, p1 := h.p1, c1 := h.c1, v := h.v }

theorem p4Init : Init p4K ⟨2, 0, [some (.null, .null), some (.null, .null)], .null, .output⟩
    ⟨2, 1, [some (.ptr 2 0, .ptr 3 0), some (.ptr 4 0, .ptr 5 0)], .ptr 6 0, .input⟩ 1 4 3 p4State := by
  refine
    { heap := rfl, tensors := rfl, avar := ⟨_, rfl, rfl, rfl⟩, bvar := ⟨_, rfl, rfl, rfl⟩, fresh := ?_,
      arec := rfl, aown := rfl, aord := Nat.le_refl _, aslot0 := ⟨_, _, rfl, rfl, rfl⟩,
      aslot1 := ⟨_, _, rfl, rfl, rfl⟩, avals := rfl, adim := ⟨_, rfl, rfl, rfl, rfl, rfl⟩, n32 := by decide,
      m32 := by decide, brec := rfl, bord := Nat.le_refl _, bslot0 := rfl, bslot1 := rfl, bvals := rfl }
  intro x h1 h2
  have e1 : ("p" == x) = false := beq_eq_false_iff_ne.2 (Ne.symm h1)
  have e2 : ("q" == x) = false := beq_eq_false_iff_ne.2 (Ne.symm h2)
  simp [lookupVar, p4State, List.find?, e1, e2]

/-- the inputs of the specification read off the stored operand -/
def p4Inputs : Inputs := fun _ co =>
  (exD (fun z => (z : Rat))).at (co.headD 0) ((co.drop 1).headD 0)

/-- R1 is not vacuous, and agrees with evaluating the model of the pipeline (independent check) -/
example : bestAlgorithm (desugar ⟨"p", ["x", "y"], .mul (.int 3) (.tensor "q" ["x", "y"])⟩)
      [("p", [.compressed, .compressed], [0, 1]), ("q", [.compressed, .compressed], [0, 1])] =
    .graph (.iter "x" (some ⟨⟨"0_p", "p", ["x", "y"], [.compressed, .compressed]⟩, 0⟩)
      (.iter "y" (some ⟨⟨"0_p", "p", ["x", "y"], [.compressed, .compressed]⟩, 1⟩)
        (.terminal (.mul (.int 3) (.tensor ⟨"1_q", "q", ["x", "y"], [.compressed, .compressed]⟩))))) ∧
    toIterationGraphs (desugar ⟨"p", ["x", "y"], .mul (.int 3) (.tensor "q" ["x", "y"])⟩)
      (fmts2 .compressed .compressed "p" "q") =
      .ok [graph "x" "y" (pOut "p" "x" "y") (matE (some 3) (pB "1" "q" "x" "y"))] :=
  ⟨sparse2_bestAlgorithm_src (some 3) "p" "q" "x" "y" (by decide) (by decide), by rfl⟩

/-- **R3 is not vacuous**: every hypothesis holds for `p(x,y) = 3 * q(x,y)`; the pipeline yields the kernel,
the run returns `0` after `3 + 3` iterations, the empty stored row is dropped (`crd0 = [0, 3]`), and the dense
reading of the result is `denote` of the source assignment at every coordinate pair -/
example : ∃ (g : IGraph) (f : Func Rat) (o : Out Rat),
    bestAlgorithm (desugar ⟨"p", ["x", "y"], .mul (.int 3) (.tensor "q" ["x", "y"])⟩)
      (fmts2 .compressed .compressed "p" "q") = .graph g ∧
    generateIr (F := Rat) id none (desugar ⟨"p", ["x", "y"], .mul (.int 3) (.tensor "q" ["x", "y"])⟩)
      (fmts2 .compressed .compressed "p" "q") g .evaluate = .ok f ∧
    exec 8 f.body p4State = .ok o ∧ o.ret = some (.int 0) ∧ o.iters = 6 ∧
    (∃ c0 : Nat, o.st.heap[c0]? = some ⟨.int, [some (.int 0), some (.int 3)], .output, true⟩) ∧
    ∀ x y : Nat, (exD (fun z => (z : Rat))).outAt (matE (some 3) (pB "1" "q" "x" "y")) x y =
      denote ⟨"p", ["x", "y"], .mul (.int 3) (.tensor "q" ["x", "y"])⟩ p4Inputs (fun _ => 4) [x, y] := by
  obtain ⟨g, f, hg, hf, o, eo, hret, hit, ⟨tr', p0, c0, p1, c1, v, vblk, _, _, _, _, h10, _⟩, hden⟩ :=
    evaluate_correct_sparse2 none (some 3) "p" "q" "x" "y" p4Names (by decide) (by decide)
      (exD (fun z => (z : Rat))) 0 1 _ _ 4 3 2 3 4 5 6 p4State p4OK p4Init
      (by
        intro a b hab hb
        have hb' : b < 3 := hb
        have h3 : (a = 0 ∧ b = 1) ∨ (a = 0 ∧ b = 2) ∨ (a = 1 ∧ b = 2) := by omega
        rcases h3 with ⟨rfl, rfl⟩ | ⟨rfl, rfl⟩ | ⟨rfl, rfl⟩ <;> decide)
      p4Inputs (fun _ => 4) (fun x y => by simp [p4Inputs]) 8 (by decide)
  have hc : (exD (fun z => (z : Rat))).outCrd0 (exD (fun z => (z : Rat))).R = [0, 3] := by decide
  rw [hc] at h10
  exact ⟨g, f, o, hg, hf, eo, hret, hit, ⟨c0, h10⟩, hden⟩

end TV.Sparse2

/-- info: 'TV.Sparse2.sparse2_bestAlgorithm_src' depends on axioms: [propext, Classical.choice, Quot.sound] -/
#guard_msgs in
#print axioms TV.Sparse2.sparse2_bestAlgorithm_src
/-- info: 'TV.Sparse2.sparse2_value_denote' depends on axioms: [propext, Classical.choice, Quot.sound] -/
#guard_msgs in
#print axioms TV.Sparse2.sparse2_value_denote
/-- info: 'TV.Sparse2.evaluate_correct_sparse2' depends on axioms: [propext, Classical.choice, Quot.sound] -/
#guard_msgs in
#print axioms TV.Sparse2.evaluate_correct_sparse2

/-! ## Csr: `an(i,j) = bn(i,j)` / `c * bn(i,j)`, both `ds` -/
namespace TV.Csr
open TV.IR TV.Gen TV.Graph TV.Growth TV.Merge
open TV.Sparse1 (capVal)
open TV.Sparse2 (allNames)
open TV.Alg TV.Pipe1 TV.Pipe2 TV.Pipe4

/-! ### R1 -/

/-- **R1 (all candidates).** For all tensor names `an ≠ bn`, index names `i ≠ j` and both right-hand sides
(`c = none`: `bn(i,j)`; `c = some v`: `v * bn(i,j)`), `toIterationGraphs ∘ desugar` of the SOURCE assignment
over the CSR format table `[an ↦ ds, bn ↦ ds]` returns exactly ONE candidate (`ds` has a single legal iteration
order): the graph of `Csr`. -/
theorem csr_toIterationGraphs_src (c : Option Int) (an bn i j : String) (hij : i ≠ j) (hab : an ≠ bn) :
    toIterationGraphs (desugar ⟨an, [i, j], matRhs c bn i j⟩) (fmts2 .dense .compressed an bn) =
      .ok [graph i j (pOut an i j) (matE c (pB "1" bn i j))] := by
  rw [matDesugar c an bn i j hij]
  exact matToIterationGraphs .dense .compressed Pipe3.legalIterationOrders_ds c an bn i j hij hab

/-- **R1.** `bestAlgorithm ∘ desugar` chooses the graph of `Csr` for every member of the class. -/
theorem csr_bestAlgorithm_src (c : Option Int) (an bn i j : String) (hij : i ≠ j) (hab : an ≠ bn) :
    bestAlgorithm (desugar ⟨an, [i, j], matRhs c bn i j⟩) (fmts2 .dense .compressed an bn) =
      .graph (graph i j (pOut an i j) (matE c (pB "1" bn i j))) := by
  simp only [bestAlgorithm, csr_toIterationGraphs_src c an bn i j hij hab]

/-! ### R2 -/

/-- **R2.** The value of the terminal expression `1_<bn>` resp. `c * 1_<bn>` of the chosen graph, its tensor
read at `inp bn [x, y]`, is the specification `denote` of the source assignment at `[x, y]`, for every
coordinate pair. -/
theorem csr_value_denote (c : Option Int) (an bn i j : String) (hij : i ≠ j) (inp : Inputs) (sz : Sizes)
    (x y : Nat) :
    value (fun id => inp (Pipe1.nameOf id) [x, y]) (matE c (pB "1" bn i j)) =
      denote ⟨an, [i, j], matRhs c bn i j⟩ inp sz [x, y] := by
  rw [matDenote c an bn i j hij]
  cases c <;> rfl

/-! ### R3 -/

/-- the dense reading of the stored result is `denote` of the source assignment, at every coordinate pair -/
theorem csr_outAt_denote (c : Option Int) (an bn i j : String) (hij : i ≠ j) (d : CData Rat)
    (inputs : Inputs) (sizes : Sizes) (hin : ∀ x y : Nat, inputs bn [x, y] = d.at x y) (x y : Nat) :
    d.outAt (matE c (pB "1" bn i j)) x y = denote ⟨an, [i, j], matRhs c bn i j⟩ inputs sizes [x, y] := by
  cases c with
  | none => exact csr_denote_copy an bn i j hij _ d inputs sizes hin x y
  | some v => exact csr_denote_scale an bn i j hij v _ d inputs sizes hin x y

/-- **R3 (the `evaluate` kernel that the pipeline yields computes the specification).** For all tensor names
`an, bn` and index names `i, j` with the naming conditions `MatNames`, both right-hand sides (`c`), every
well-formed CSR input `d` (`ok`: laid out in the initial heap; the static fields of `Ctx.OK` hold for the class,
see `csr_static_src`), every initial machine state `σ` as the driver builds it (`Init`) and every valuation
`inputs` that reads `bn` as the dense reading of the stored operand:

the pipeline goes through — `bestAlgorithm (desugar a) formats` is a graph `g` and `generateIr` yields an
`evaluate` function `f` for it — and `f` runs with any fuel `≥ n + nnz + 1` without error, **returns `0`** after
exactly `n + nnz` iterations, leaves in the output record fresh `pos`/`crd`/`vals` blocks (the index arrays of
the input; cell `q` of `vals` is the terminal's value at entry `q`), and the dense reading of that result
(absent = `0`) is **`denote a inputs sizes [x, y]` at every coordinate pair `(x, y)`**. -/
theorem evaluate_correct_csr (cap : Option Int) (c : Option Int) (an bn i j : String)
    (hn : MatNames an bn i j) (hk0 : 1 ≤ capVal cap) (hk1 : capVal cap < 2147483648)
    (d : CData Rat) (ta tb : Nat) (atr btr : TensorRec Rat) (m : Int) (bp bc bv : Nat) (σ : State Rat)
    (ok : (Ctx.mk id i j (pOut an i j) (pB "1" bn i j) (matE c (pB "1" bn i j)) d σ.heap σ.tensors ta
      bp bc bv).OK)
    (init : Init (Ctx.mk id i j (pOut an i j) (pB "1" bn i j) (matE c (pB "1" bn i j)) d σ.heap σ.tensors ta
      bp bc bv) atr btr tb m σ)
    (inputs : Inputs) (sizes : Sizes) (hin : ∀ x y : Nat, inputs bn [x, y] = d.at x y)
    (fuel : Nat) (hfuel : d.n + d.nnz + 1 ≤ fuel) :
    ∃ g f, bestAlgorithm (desugar ⟨an, [i, j], matRhs c bn i j⟩) (fmts2 .dense .compressed an bn) =
        .graph g ∧
      generateIr id cap (desugar ⟨an, [i, j], matRhs c bn i j⟩) (fmts2 .dense .compressed an bn) g
        .evaluate = .ok f ∧
      ∃ o, exec fuel f.body σ = .ok o ∧ o.ret = some (.int 0) ∧ o.iters = d.n + d.nnz ∧
        (∃ tr' p1 c1 v vblk, o.st.tensors[ta]? = some tr' ∧
          tr'.slots = atr.slots.set 1 (some (.ptr p1 0, .ptr c1 0)) ∧ tr'.vals = .ptr v 0 ∧
          o.st.heap[p1]? =
            some ⟨.int, (List.range (d.n + 1)).map (fun r => some (.int (d.pos r))), .output, true⟩ ∧
          o.st.heap[c1]? = some ⟨.int, (List.range d.nnz).map (fun q => some (.int (d.crd q))), .output, true⟩ ∧
          o.st.heap[v]? = some vblk ∧ vblk.live = true ∧ vblk.cells.length = d.nnz + 1 ∧
          ∀ q, q < d.nnz →
            vblk.cells[q]? = some (some (.flt (value (fun _ => d.vals q) (matE c (pB "1" bn i j)))))) ∧
        ∀ x y : Nat, d.outAt (matE c (pB "1" bn i j)) x y =
          denote ⟨an, [i, j], matRhs c bn i j⟩ inputs sizes [x, y] := by
  have hout : tensorId 0 an (fmts2 .dense .compressed an bn) [i, j] = some (pOut an i j) :=
    matTensorId_out .dense .compressed an bn i j
  have hgen : generateIr (F := Rat) id cap (desugar ⟨an, [i, j], matRhs c bn i j⟩)
      (fmts2 .dense .compressed an bn) (graph i j (pOut an i j) (matE c (pB "1" bn i j))) .evaluate =
      .ok (kernel id cap (fmts2 .dense .compressed an bn) i j (pOut an i j) (pB "1" bn i j)
        (matE c (pB "1" bn i j))) := by
    rw [matDesugar c an bn i j hn.ij]
    exact csr_generateIr_eq id cap _ _ i j _ _ _ hout hn.ij (ds_isDS an i j) (ds_isExpr c bn i j hn.ij)
      (ds_formats an bn) rfl (matRhsIdx c bn i j)
  obtain ⟨o, eo, hret, hit, hrest⟩ :=
    csr_kernel_exact cap ⟨an, [i, j], matD c bn i j⟩ (fmts2 .dense .compressed an bn) i j
      (pOut an i j) (pB "1" bn i j) (matE c (pB "1" bn i j)) hout (ds_formats an bn) rfl
      (matRhsIdx c bn i j) rfl hk0 hk1 d ta tb atr btr m bp bc bv σ ok init _
      (by rw [← matDesugar c an bn i j hn.ij]; exact hgen) fuel hfuel
  exact ⟨_, _, csr_bestAlgorithm_src c an bn i j hn.ij hn.ab, hgen, o, eo, hret, hit, hrest,
    csr_outAt_denote c an bn i j hn.ij d inputs sizes hin⟩

/-- **the static fields of `Ctx.OK` hold on the whole class**: the output tensor and the terminal expression
the front half builds are in the class of the kernel theorem, and the kernel's variable names are pairwise
distinct. -/
theorem csr_static_src (c : Option Int) (an bn i j : String) (hn : MatNames an bn i j) :
    isDS i j (pOut an i j) = true ∧ isExpr i j (pB "1" bn i j) (matE c (pB "1" bn i j)) = true ∧
      (allNames i j (pOut an i j) (pB "1" bn i j)).Nodup :=
  ⟨ds_isDS an i j, ds_isExpr c bn i j hn.ij,
    csr_names_generated i j an bn "1" hn.iu hn.ju hn.au hn.bu (by decide) hn.ij hn.ia hn.ib hn.ja hn.jb
      hn.ab⟩

/-! ### non-vacuity: the copy `u(r,s) = w(r,s)`, `w = [[1,0,2],[0,0,0],[0,3,0]]` (`pos = [0,2,2,3]`,
`crd = [0,2,1]`, `vals = [1,2,3]`) -/

theorem p4Names : MatNames "u" "w" "r" "s" :=
  ⟨by decide, by decide, by decide, by decide, by decide, by decide, by decide, by decide, by decide, by decide⟩

/-- the state the driver builds for the output `u` (`3 × 3`, empty) and `w` -/
def p4State : State Rat :=
  { vars := [⟨"u", .ptr .tensor, some (.tensor 0)⟩, ⟨"w", .ptr .tensor, some (.tensor 1)⟩],
    heap := (exStateOf (fun z => (z : Rat))).heap,
    tensors := (exStateOf (fun z => (z : Rat))).tensors }

/-- the context of the instance -/
def p4K : Ctx Rat :=
  ⟨id, "r", "s", pOut "u" "r" "s", pB "1" "w" "r" "s", matE none (pB "1" "w" "r" "s"),
    exD (fun z => (z : Rat)), p4State.heap, p4State.tensors, 0, 2, 3, 4⟩

theorem p4OK : p4K.OK := by
  have h := exOK (F := Rat) id (fun z => (z : Rat)) (fun q _ => ToIr.allFinite_rat _ _ _)
  obtain ⟨hnm, hcl, hcn⟩ := csr_static_src none "u" "w" "r" "s" p4Names
  exact { names := hcn, ho := hnm, he := hcl, wf := h.wf, fin := fun q _ => ToIr.allFinite_rat _ _ _,
          p := h.p, c := h.c, v := h.v }

theorem p4Init : Init p4K ⟨2, 0, [none, some (.null, .null)], .null, .output⟩
    ⟨2, 1, [none, some (.ptr 2 0, .ptr 3 0)], .ptr 4 0, .input⟩ 1 3 p4State := by
  refine
    { heap := rfl, tensors := rfl, avar := ⟨_, rfl, rfl, rfl⟩, bvar := ⟨_, rfl, rfl, rfl⟩, fresh := ?_,
      arec := rfl, aown := rfl, aord := Nat.le_refl _, aslot1 := ⟨_, _, rfl, rfl, rfl⟩, avals := rfl,
      adim := ⟨_, rfl, rfl, rfl, rfl, rfl⟩, m32 := by decide, brec := rfl, bord := Nat.le_refl _,
      bslot1 := rfl, bvals := rfl }
  intro x h1 h2
  have e1 : ("u" == x) = false := beq_eq_false_iff_ne.2 (Ne.symm h1)
  have e2 : ("w" == x) = false := beq_eq_false_iff_ne.2 (Ne.symm h2)
  simp [lookupVar, p4State, List.find?, e1, e2]

/-- the inputs of the specification read off the stored operand -/
def p4Inputs : Inputs := fun _ co =>
  (exD (fun z => (z : Rat))).at (co.headD 0) ((co.drop 1).headD 0)

/-- R1 is not vacuous, and agrees with evaluating the model of the pipeline (independent check) -/
example : bestAlgorithm (desugar ⟨"u", ["r", "s"], .tensor "w" ["r", "s"]⟩)
      [("u", [.dense, .compressed], [0, 1]), ("w", [.dense, .compressed], [0, 1])] =
    .graph (.iter "r" (some ⟨⟨"0_u", "u", ["r", "s"], [.dense, .compressed]⟩, 0⟩)
      (.iter "s" (some ⟨⟨"0_u", "u", ["r", "s"], [.dense, .compressed]⟩, 1⟩)
        (.terminal (.tensor ⟨"1_w", "w", ["r", "s"], [.dense, .compressed]⟩)))) ∧
    toIterationGraphs (desugar ⟨"u", ["r", "s"], .tensor "w" ["r", "s"]⟩) (fmts2 .dense .compressed "u" "w") =
      .ok [graph "r" "s" (pOut "u" "r" "s") (matE none (pB "1" "w" "r" "s"))] :=
  ⟨csr_bestAlgorithm_src none "u" "w" "r" "s" (by decide) (by decide), by rfl⟩

/-- **R3 is not vacuous**: every hypothesis holds for `u(r,s) = w(r,s)`; the pipeline yields the kernel, the
run returns `0` after `3 + 3` iterations, the output's `crd` block is `[0, 2, 1]`, and the dense reading of the
result is `denote` of the source assignment at every coordinate pair -/
example : ∃ (g : IGraph) (f : Func Rat) (o : Out Rat),
    bestAlgorithm (desugar ⟨"u", ["r", "s"], .tensor "w" ["r", "s"]⟩) (fmts2 .dense .compressed "u" "w") =
      .graph g ∧
    generateIr (F := Rat) id none (desugar ⟨"u", ["r", "s"], .tensor "w" ["r", "s"]⟩)
      (fmts2 .dense .compressed "u" "w") g .evaluate = .ok f ∧
    exec 7 f.body p4State = .ok o ∧ o.ret = some (.int 0) ∧ o.iters = 6 ∧
    (∃ c1 : Nat, o.st.heap[c1]? =
      some ⟨.int, [some (.int 0), some (.int 2), some (.int 1)], .output, true⟩) ∧
    ∀ x y : Nat, (exD (fun z => (z : Rat))).outAt (matE none (pB "1" "w" "r" "s")) x y =
      denote ⟨"u", ["r", "s"], .tensor "w" ["r", "s"]⟩ p4Inputs (fun _ => 3) [x, y] := by
  obtain ⟨g, f, hg, hf, o, eo, hret, hit, ⟨tr', p1, c1, v, vblk, _, _, _, _, h10, _⟩, hden⟩ :=
    evaluate_correct_csr none none "u" "w" "r" "s" p4Names (by decide) (by decide)
      (exD (fun z => (z : Rat))) 0 1 _ _ 3 2 3 4 p4State p4OK p4Init
      p4Inputs (fun _ => 3) (fun x y => by simp [p4Inputs]) 7 (by decide)
  exact ⟨g, f, o, hg, hf, eo, hret, hit, ⟨c1, h10⟩, hden⟩

end TV.Csr

/-- info: 'TV.Csr.csr_bestAlgorithm_src' depends on axioms: [propext, Classical.choice, Quot.sound] -/
#guard_msgs in
#print axioms TV.Csr.csr_bestAlgorithm_src
/-- info: 'TV.Csr.csr_value_denote' depends on axioms: [propext, Classical.choice, Quot.sound] -/
#guard_msgs in
#print axioms TV.Csr.csr_value_denote
/-- info: 'TV.Csr.evaluate_correct_csr' depends on axioms: [propext, Classical.choice, Quot.sound] -/
#guard_msgs in
#print axioms TV.Csr.evaluate_correct_csr

/-!
# C01, the FULL pipeline for the format-conversion kernels `an(i) = bn(i)`, arbitrary names

`Props/C01Convert.lean` (dense → compressed) and `Props/C01Convert2.lean` (compressed → dense) prove the
back half for a GIVEN graph `Conv.graph i outT bT`. This file closes the front half for the SOURCE
assignment `an(i) = bn(i)` with ARBITRARY tensor names `an ≠ bn` and index name `i`, for both format
tables `[an ↦ s, bn ↦ d]` (`d2s`) and `[an ↦ d, bn ↦ s]` (`s2d`):

* **R1** `d2s_toIterationGraphs_src`, `d2s_bestAlgorithm_src`, `s2d_toIterationGraphs_src`,
  `s2d_bestAlgorithm_src` — `toIterationGraphs ∘ desugar` returns exactly one candidate, the graph
  `.iter i (some ⟨0_<an>, 0⟩) (.terminal (.tensor 1_<bn>))`, and `bestAlgorithm` chooses it;
* **R2** `d2s_value_denote`, `s2d_value_denote` — the value of the terminal, its tensor read at
  `inp bn [x]`, is `Alg.denote` of the source assignment at `[x]`;
* **R3** `evaluate_correct_d2s`, `evaluate_correct_s2d` — over `Rat`: the pipeline goes through and the
  `evaluate` function it yields computes `denote` of the SOURCE assignment (composition with
  `d2s_kernel_exact` / `s2d_kernel_exact`; the static hypotheses are derived from `P4ConvNames`).
* non-vacuity with fresh names: `p(k) = q(k)`, both directions, R1 (cross-checked by evaluation of the model)
  and R3.
-/
namespace TV.Conv
set_option linter.unusedSimpArgs false
set_option linter.unusedVariables false
open TV.IR TV.Gen TV.Graph TV.Growth TV.Merge TV.Sparse1
open TV.Alg TV.Pipe1 TV.Pipe2 TV.Pipe4

/-! ## (A) dense → compressed: `an: s`, `bn: d` -/

/-- **R1 (all candidates), d2s.** For all tensor names `an ≠ bn` and every index name `i`,
`toIterationGraphs ∘ desugar` of the SOURCE assignment `an(i) = bn(i)` over the format table
`[an ↦ s, bn ↦ d]` returns exactly ONE candidate: the graph of `Conv` with output `0_<an>` (compressed)
and terminal `1_<bn>` (dense). -/
theorem d2s_toIterationGraphs_src (an bn i : String) (hab : an ≠ bn) :
    toIterationGraphs (desugar ⟨an, [i], .tensor bn [i]⟩) [(an, ([.compressed], [0])), (bn, ([.dense], [0]))] =
      .ok [.iter i (some ⟨⟨"0_" ++ an, an, [i], [.compressed]⟩, 0⟩)
        (.terminal (.tensor ⟨"1_" ++ bn, bn, [i], [.dense]⟩))] := by
  rw [p4_desugar_copy]
  exact p4_toIterationGraphs an bn i .compressed .dense hab (by decide) (by decide)

/-- **R1, d2s.** `bestAlgorithm ∘ desugar` chooses the graph of `Conv` for every member of the class. -/
theorem d2s_bestAlgorithm_src (an bn i : String) (hab : an ≠ bn) :
    bestAlgorithm (desugar ⟨an, [i], .tensor bn [i]⟩) [(an, ([.compressed], [0])), (bn, ([.dense], [0]))] =
      .graph (.iter i (some ⟨⟨"0_" ++ an, an, [i], [.compressed]⟩, 0⟩)
        (.terminal (.tensor ⟨"1_" ++ bn, bn, [i], [.dense]⟩))) := by
  simp only [bestAlgorithm, d2s_toIterationGraphs_src an bn i hab]

/-- **R2, d2s.** The value of the terminal `1_<bn>` of the chosen graph, read at `inp bn [x]`, is the
specification `denote` of the source assignment at `[x]`. -/
theorem d2s_value_denote (an bn i : String) (inp : Inputs) (sz : Sizes) (x : Nat) :
    value (fun id => inp (nameOf id) [x]) (.tensor ⟨"1_" ++ bn, bn, [i], [.dense]⟩) =
      denote ⟨an, [i], .tensor bn [i]⟩ inp sz [x] := by
  rw [d2s_denote]
  simp only [value]
  rw [show ("1_" ++ bn : String) = toString 1 ++ "_" ++ bn from rfl, nameOf_id]

/-- **R3, d2s (the `evaluate` kernel that the pipeline yields computes the specification).** For all
tensor names `an, bn` and index name `i` with the naming conditions `P4ConvNames`, ANY initial capacity
`1 ≤ capVal cap < 2^31`, every initial machine state `σ` as the driver builds it (`D2SInit`: the output
record is output-owned with dimension `n ≤ 2^30`, the input's `vals` block holds `cellsB 0 … cellsB (n-1)`)
and every valuation `inputs` that reads `bn` as the stored dense vector:

the pipeline goes through — `bestAlgorithm (desugar a) formats` is a graph `g` and `generateIr` yields an
`evaluate` function `f` for it — and `f` runs with any fuel `≥ n + 1` without error, **returns `0`** after
exactly `n` iterations, leaves in the output record fresh `pos = [0, n]`, `crd = [0, …, n-1]` blocks and a
`vals` block whose cell `j < n` is **`denote a inputs sizes [j]`** of the SOURCE assignment. -/
theorem evaluate_correct_d2s (cap : Option Int) (an bn i : String) (hn : P4ConvNames an bn i)
    (hk0 : 1 ≤ capVal cap) (hk1 : capVal cap < 2147483648)
    (ta tb : Nat) (atr btr : TensorRec Rat) (n bvb : Nat) (cellsB : Nat → Rat) (σ : State Rat)
    (init : D2SInit (p4Out an i .compressed) (p4B bn i .dense) ta tb atr btr n bvb cellsB σ)
    (hn30 : n ≤ 1073741824)
    (inputs : Inputs) (sizes : Sizes) (hin : ∀ x, x < n → inputs bn [x] = cellsB x)
    (fuel : Nat) (hfuel : n + 1 ≤ fuel) :
    ∃ g f, bestAlgorithm (desugar ⟨an, [i], .tensor bn [i]⟩)
        [(an, ([.compressed], [0])), (bn, ([.dense], [0]))] = .graph g ∧
      generateIr id cap (desugar ⟨an, [i], .tensor bn [i]⟩)
        [(an, ([.compressed], [0])), (bn, ([.dense], [0]))] g .evaluate = .ok f ∧
      ∃ o, exec fuel f.body σ = .ok o ∧ o.ret = some (.int 0) ∧ o.iters = n ∧
        ∃ tr' pF cF vF vblk, o.st.tensors[ta]? = some tr' ∧
          tr'.slots = atr.slots.set 0 (some (.ptr pF 0, .ptr cF 0)) ∧ tr'.vals = .ptr vF 0 ∧
          o.st.heap[pF]? = some ⟨.int, [some (.int 0), some (.int n)], .output, true⟩ ∧
          o.st.heap[cF]? = some ⟨.int, (List.range n).map (fun (j : Nat) => some (.int (j : Int))),
            .output, true⟩ ∧
          o.st.heap[vF]? = some vblk ∧ vblk.live = true ∧ vblk.cells.length = n + 1 ∧
          ∀ j, j < n → vblk.cells[j]? =
            some (some (.flt (denote ⟨an, [i], .tensor bn [i]⟩ inputs sizes [j]))) := by
  have hgen : generateIr (F := Rat) id cap (desugar ⟨an, [i], .tensor bn [i]⟩)
      (p4Fmts an bn .compressed .dense) (graph i (p4Out an i .compressed) (p4B bn i .dense)) .evaluate =
      .ok (d2sKernel id cap (p4Fmts an bn .compressed .dense) i (p4Out an i .compressed)
        (p4B bn i .dense)) := by
    rw [p4_desugar_copy]
    exact d2s_generateIr_eq id cap _ _ i _ _ (p4_tensorId_out an bn i _ _) (p4_isSp an i)
      (p4_isLeaf_b bn i) (p4_d2sFormats an bn i) rfl (by simp [Dense1.rhsIdx])
  obtain ⟨o, eo, hret, hit, tr', pF, cF, vF, vblk, h1, h2, h3, h4, h5, h6, h7, h8, h9⟩ :=
    d2s_kernel_exact cap (desugar ⟨an, [i], .tensor bn [i]⟩) (p4Fmts an bn .compressed .dense) i
      (p4Out an i .compressed) (p4B bn i .dense)
      (by rw [p4_desugar_copy]; exact p4_tensorId_out an bn i _ _) (p4_isSp an i) (p4_isLeaf_b bn i)
      (p4_d2sFormats an bn i) (by rw [p4_desugar_copy]) (by rw [p4_desugar_copy]; simp [Dense1.rhsIdx])
      (p4_kNames hn _ _) hk0 hk1 ta tb atr btr n bvb cellsB σ init hn30 _ hgen fuel hfuel
  refine ⟨_, _, d2s_bestAlgorithm_src an bn i hn.ab, hgen, o, eo, hret, hit, tr', pF, cF, vF, vblk, h1, h2,
    h3, h4, h5, h6, h7, h8, ?_⟩
  intro j hj
  rw [h9 j hj, d2s_denote, hin j hj]
  rfl

/-! ## (B) compressed → dense: `an: d`, `bn: s` -/

/-- **R1 (all candidates), s2d.** For all tensor names `an ≠ bn` and every index name `i`,
`toIterationGraphs ∘ desugar` of the SOURCE assignment `an(i) = bn(i)` over the format table
`[an ↦ d, bn ↦ s]` returns exactly ONE candidate: the graph of `Conv` with output `0_<an>` (dense)
and terminal `1_<bn>` (compressed). -/
theorem s2d_toIterationGraphs_src (an bn i : String) (hab : an ≠ bn) :
    toIterationGraphs (desugar ⟨an, [i], .tensor bn [i]⟩) [(an, ([.dense], [0])), (bn, ([.compressed], [0]))] =
      .ok [.iter i (some ⟨⟨"0_" ++ an, an, [i], [.dense]⟩, 0⟩)
        (.terminal (.tensor ⟨"1_" ++ bn, bn, [i], [.compressed]⟩))] := by
  rw [p4_desugar_copy]
  exact p4_toIterationGraphs an bn i .dense .compressed hab (by decide) (by decide)

/-- **R1, s2d.** `bestAlgorithm ∘ desugar` chooses the graph of `Conv` for every member of the class. -/
theorem s2d_bestAlgorithm_src (an bn i : String) (hab : an ≠ bn) :
    bestAlgorithm (desugar ⟨an, [i], .tensor bn [i]⟩) [(an, ([.dense], [0])), (bn, ([.compressed], [0]))] =
      .graph (.iter i (some ⟨⟨"0_" ++ an, an, [i], [.dense]⟩, 0⟩)
        (.terminal (.tensor ⟨"1_" ++ bn, bn, [i], [.compressed]⟩))) := by
  simp only [bestAlgorithm, s2d_toIterationGraphs_src an bn i hab]

/-- **R2, s2d.** The value of the terminal `1_<bn>` of the chosen graph, read at `inp bn [x]` (the dense
reading of the stored compressed vector: `0` where nothing is stored), is the specification `denote` of the
source assignment at `[x]`. -/
theorem s2d_value_denote (an bn i : String) (inp : Inputs) (sz : Sizes) (x : Nat) :
    value (fun id => inp (nameOf id) [x]) (.tensor ⟨"1_" ++ bn, bn, [i], [.compressed]⟩) =
      denote ⟨an, [i], .tensor bn [i]⟩ inp sz [x] := by
  rw [d2s_denote]
  simp only [value]
  rw [show ("1_" ++ bn : String) = toString 1 ++ "_" ++ bn from rfl, nameOf_id]

/-- **R3, s2d (the `evaluate` kernel that the pipeline yields computes the specification).** For all
tensor names `an, bn` and index name `i` with the naming conditions `P4ConvNames`, every initial machine
state `σ` as the driver builds it (`S2DInit`: the output record is output-owned with dimension `n < 2^31`,
the input is a compressed vector with `m` stored entries, coordinates `crdB`, values `cellsB`), the
coordinates in range `[0, n)` and strictly increasing, and every valuation `inputs` that reads `bn` as the
dense reading of the stored operand (`s2dAt 0`):

the pipeline goes through — `bestAlgorithm (desugar a) formats` is a graph `g` and `generateIr` yields an
`evaluate` function `f` for it — and `f` runs with any fuel `≥ n + 1` without error, **returns `0`** after
exactly `n` iterations, and the output record's `vals` is a FRESH block of exactly `n` cells, cell `x`
holding **`denote a inputs sizes [x]`** of the SOURCE assignment. -/
theorem evaluate_correct_s2d (cap : Option Int) (an bn i : String) (hn : P4ConvNames an bn i)
    (ta tb : Nat) (atr btr : TensorRec Rat) (n m bpb bcb bvb : Nat) (crdB : Nat → Int) (cellsB : Nat → Rat)
    (σ : State Rat)
    (init : S2DInit (p4Out an i .dense) (p4B bn i .compressed) ta tb atr btr n m bpb bcb bvb crdB cellsB σ)
    (hrng : ∀ k, k < m → 0 ≤ crdB k ∧ crdB k < n)
    (hmono : ∀ k, k + 1 < m → crdB k < crdB (k + 1))
    (inputs : Inputs) (sizes : Sizes)
    (hin : ∀ x, inputs bn [x] = s2dAt (0 : Rat) crdB cellsB m x)
    (fuel : Nat) (hfuel : n + 1 ≤ fuel) :
    ∃ g f, bestAlgorithm (desugar ⟨an, [i], .tensor bn [i]⟩)
        [(an, ([.dense], [0])), (bn, ([.compressed], [0]))] = .graph g ∧
      generateIr id cap (desugar ⟨an, [i], .tensor bn [i]⟩)
        [(an, ([.dense], [0])), (bn, ([.compressed], [0]))] g .evaluate = .ok f ∧
      ∃ o, exec fuel f.body σ = .ok o ∧ o.ret = some (.int 0) ∧ o.iters = n ∧
        o.st.tensors[ta]? = some { atr with vals := .ptr σ.heap.length 0 } ∧
        o.st.heap[σ.heap.length]? = some ⟨.float,
          (List.range n).map (fun x => some (.flt
            (denote ⟨an, [i], .tensor bn [i]⟩ inputs sizes [x]))), .output, true⟩ := by
  have hgen : generateIr (F := Rat) id cap (desugar ⟨an, [i], .tensor bn [i]⟩)
      (p4Fmts an bn .dense .compressed) (graph i (p4Out an i .dense) (p4B bn i .compressed)) .evaluate =
      .ok (s2dKernel id (p4Fmts an bn .dense .compressed) i (p4Out an i .dense)
        (p4B bn i .compressed)) := by
    rw [p4_desugar_copy]
    exact s2d_generateIr_eq id cap _ _ i _ _ (p4_tensorId_out an bn i _ _) (p4_isLeaf an i)
      (p4_isSp_b bn i) (p4_s2dFormats an bn i) rfl (by simp [Dense1.rhsIdx])
  exact ⟨_, _, s2d_bestAlgorithm_src an bn i hn.ab, hgen,
    s2d_kernel_exact cap (desugar ⟨an, [i], .tensor bn [i]⟩) (p4Fmts an bn .dense .compressed) i
      (p4Out an i .dense) (p4B bn i .compressed)
      (by rw [p4_desugar_copy]; exact p4_tensorId_out an bn i _ _) (p4_isLeaf an i) (p4_isSp_b bn i)
      (p4_s2dFormats an bn i) (by rw [p4_desugar_copy]) (by rw [p4_desugar_copy]; simp [Dense1.rhsIdx])
      (p4_kNames hn _ _) ta tb atr btr n m bpb bcb bvb crdB cellsB σ init hrng hmono inputs sizes hin _ hgen
      fuel hfuel⟩

/-! ## non-vacuity with fresh names: `p(k) = q(k)` -/

theorem p4Names : P4ConvNames "p" "q" "k" :=
  ⟨by decide, by decide, by decide, by decide, by decide, by decide⟩

/-- R1 (d2s) is not vacuous, and agrees with evaluating the model of the pipeline (independent check) -/
example : bestAlgorithm (desugar ⟨"p", ["k"], .tensor "q" ["k"]⟩)
      [("p", [.compressed], [0]), ("q", [.dense], [0])] =
    .graph (.iter "k" (some ⟨⟨"0_p", "p", ["k"], [.compressed]⟩, 0⟩)
      (.terminal (.tensor ⟨"1_q", "q", ["k"], [.dense]⟩))) ∧
    toIterationGraphs (desugar ⟨"p", ["k"], .tensor "q" ["k"]⟩)
      [("p", [.compressed], [0]), ("q", [.dense], [0])] =
      .ok [graph "k" ⟨"0_p", "p", ["k"], [.compressed]⟩ ⟨"1_q", "q", ["k"], [.dense]⟩] :=
  ⟨d2s_bestAlgorithm_src "p" "q" "k" (by decide), by rfl⟩

/-- R1 (s2d) is not vacuous, and agrees with evaluating the model of the pipeline (independent check) -/
example : bestAlgorithm (desugar ⟨"p", ["k"], .tensor "q" ["k"]⟩)
      [("p", [.dense], [0]), ("q", [.compressed], [0])] =
    .graph (.iter "k" (some ⟨⟨"0_p", "p", ["k"], [.dense]⟩, 0⟩)
      (.terminal (.tensor ⟨"1_q", "q", ["k"], [.compressed]⟩))) ∧
    toIterationGraphs (desugar ⟨"p", ["k"], .tensor "q" ["k"]⟩)
      [("p", [.dense], [0]), ("q", [.compressed], [0])] =
      .ok [graph "k" ⟨"0_p", "p", ["k"], [.dense]⟩ ⟨"1_q", "q", ["k"], [.compressed]⟩] :=
  ⟨s2d_bestAlgorithm_src "p" "q" "k" (by decide), by rfl⟩

/-- the state the driver builds for the output `p` (dimension 3, empty) and the dense `q = [3, 0, 5]` -/
def p4StateD2S : State Rat :=
  { vars := [⟨"p", .ptr .tensor, some (.tensor 0)⟩, ⟨"q", .ptr .tensor, some (.tensor 1)⟩],
    heap := [⟨.int, [some (.int 3)], .output, true⟩,
             ⟨.int, [some (.int 3)], .input, true⟩,
             ⟨.float, [some (.flt 3), some (.flt 0), some (.flt 5)], .input, true⟩],
    tensors := [⟨1, 0, [some (.null, .null)], .null, .output⟩,
                ⟨1, 1, [none], .ptr 2 0, .input⟩] }

def p4CellsD : Nat → Rat := fun j => [(3 : Rat), 0, 5].getD j 0

theorem p4InitD2S :
    D2SInit (p4Out "p" "k" .compressed) (p4B "q" "k" .dense) 0 1 ⟨1, 0, [some (.null, .null)], .null, .output⟩
      ⟨1, 1, [none], .ptr 2 0, .input⟩ 3 2 p4CellsD p4StateD2S := by
  refine
    { avar := ⟨_, rfl, rfl, rfl⟩, bvar := ⟨_, rfl, rfl, rfl⟩, fresh := ?_, arec := rfl, aown := rfl,
      aord := Nat.zero_lt_one, aslot := ⟨_, _, rfl, rfl, rfl⟩, avals := rfl,
      adim := ⟨_, rfl, rfl, rfl, rfl⟩, n32 := by decide, brec := rfl,
      bvals := rfl, bval := ⟨_, rfl, rfl, rfl, ?_⟩ }
  · intro x h1 h2
    have e1 : ("p" == x) = false := beq_eq_false_iff_ne.2 (Ne.symm h1)
    have e2 : ("q" == x) = false := beq_eq_false_iff_ne.2 (Ne.symm h2)
    simp [lookupVar, p4StateD2S, List.find?, e1, e2]
  · intro j hj
    match j, hj with
    | 0, _ => rfl
    | 1, _ => rfl
    | 2, _ => rfl

/-- the inputs of the specification read off the stored operand -/
def p4InputsD : Inputs := fun _ co => p4CellsD (co.headD 0)

/-- **R3 (d2s) is not vacuous**: every hypothesis holds for `p(k) = q(k)`, `q = [3, 0, 5]`; the pipeline
yields the kernel, the run returns `0` after 3 iterations, `crd = [0, 1, 2]` and the stored values are
`denote` of the source assignment at every coordinate -/
example : ∃ (g : IGraph) (f : Func Rat) (o : Out Rat),
    bestAlgorithm (desugar ⟨"p", ["k"], .tensor "q" ["k"]⟩)
      [("p", [.compressed], [0]), ("q", [.dense], [0])] = .graph g ∧
    generateIr (F := Rat) id none (desugar ⟨"p", ["k"], .tensor "q" ["k"]⟩)
      [("p", [.compressed], [0]), ("q", [.dense], [0])] g .evaluate = .ok f ∧
    exec 4 f.body p4StateD2S = .ok o ∧ o.ret = some (.int 0) ∧ o.iters = 3 ∧
    ∃ (cF vF : Nat) (vblk : Block Rat),
      o.st.heap[cF]? = some ⟨.int, [some (.int 0), some (.int 1), some (.int 2)], .output, true⟩ ∧
      o.st.heap[vF]? = some vblk ∧ vblk.live = true ∧
      ∀ j, j < 3 → vblk.cells[j]? =
        some (some (.flt (denote ⟨"p", ["k"], .tensor "q" ["k"]⟩ p4InputsD (fun _ => 3) [j]))) := by
  obtain ⟨g, f, hg, hf, o, eo, hret, hit, tr', pF, cF, vF, vblk, _, _, _, _, h5, h6, h7, _, h9⟩ :=
    evaluate_correct_d2s none "p" "q" "k" p4Names (by decide) (by decide) 0 1 _ _ 3 2 p4CellsD _
      p4InitD2S (by decide) p4InputsD (fun _ => 3) (fun x _ => rfl) 4 (by decide)
  exact ⟨g, f, o, hg, hf, eo, hret, hit, cF, vF, vblk, h5, h6, h7, h9⟩

/-- the state the driver builds for the dense output `p` (dimension 3) and the compressed `q = {1: 2}` -/
def p4StateS2D : State Rat :=
  { vars := [⟨"p", .ptr .tensor, some (.tensor 0)⟩, ⟨"q", .ptr .tensor, some (.tensor 1)⟩],
    heap := [⟨.int, [some (.int 3)], .output, true⟩,
             ⟨.int, [some (.int 3)], .input, true⟩,
             ⟨.int, [some (.int 0), some (.int 1)], .input, true⟩,
             ⟨.int, [some (.int 1)], .input, true⟩,
             ⟨.float, [some (.flt 2)], .input, true⟩],
    tensors := [⟨1, 0, [none], .null, .output⟩,
                ⟨1, 1, [some (.ptr 2 0, .ptr 3 0)], .ptr 4 0, .input⟩] }

theorem p4InitS2D : S2DInit (p4Out "p" "k" .dense) (p4B "q" "k" .compressed) 0 1
    ⟨1, 0, [none], .null, .output⟩
    ⟨1, 1, [some (.ptr 2 0, .ptr 3 0)], .ptr 4 0, .input⟩ 3 1 2 3 4 (fun _ => 1) (fun _ => (2 : Rat))
    p4StateS2D := by
  refine
    { avar := ⟨_, rfl, rfl, rfl⟩, bvar := ⟨_, rfl, rfl, rfl⟩, fresh := ?_, arec := rfl, aown := rfl,
      avals := rfl, adim := ⟨_, rfl, rfl, rfl, rfl⟩, n32 := by decide, m32 := by decide, brec := rfl,
      bord := Nat.zero_lt_one, bslot := rfl, bvals := rfl, bpos := ⟨_, rfl, rfl, rfl, rfl, rfl⟩,
      bcrd := ⟨_, rfl, rfl, rfl, ?_⟩, bval := ⟨_, rfl, rfl, rfl, ?_⟩ }
  · intro x h1 h2
    have e1 : ("p" == x) = false := beq_eq_false_iff_ne.2 (Ne.symm h1)
    have e2 : ("q" == x) = false := beq_eq_false_iff_ne.2 (Ne.symm h2)
    simp [lookupVar, p4StateS2D, List.find?, e1, e2]
  · intro j hj
    match j, hj with
    | 0, _ => rfl
  · intro j hj
    match j, hj with
    | 0, _ => rfl

/-- the inputs of the specification: the dense reading of the stored operand -/
def p4InputsS : Inputs := fun _ co => s2dAt (0 : Rat) (fun _ => 1) (fun _ => (2 : Rat)) 1 (co.headD 0)

/-- **R3 (s2d) is not vacuous**: every hypothesis holds for `p(k) = q(k)`, `q = {1: 2}`, dimension 3; the
pipeline yields the kernel, the run returns `0` after 3 iterations and the fresh output block (address 5)
holds `denote` of the source assignment at every coordinate -/
example : ∃ (g : IGraph) (f : Func Rat) (o : Out Rat),
    bestAlgorithm (desugar ⟨"p", ["k"], .tensor "q" ["k"]⟩)
      [("p", [.dense], [0]), ("q", [.compressed], [0])] = .graph g ∧
    generateIr (F := Rat) id none (desugar ⟨"p", ["k"], .tensor "q" ["k"]⟩)
      [("p", [.dense], [0]), ("q", [.compressed], [0])] g .evaluate = .ok f ∧
    exec 4 f.body p4StateS2D = .ok o ∧ o.ret = some (.int 0) ∧ o.iters = 3 ∧
    o.st.tensors[0]? = some ⟨1, 0, [none], .ptr 5 0, .output⟩ ∧
    o.st.heap[5]? = some ⟨.float, (List.range 3).map (fun x => some (.flt
      (denote ⟨"p", ["k"], .tensor "q" ["k"]⟩ p4InputsS (fun _ => 3) [x]))), .output, true⟩ := by
  obtain ⟨g, f, hg, hf, o, eo, hret, hit, h1, h2⟩ :=
    evaluate_correct_s2d none "p" "q" "k" p4Names 0 1 _ _ 3 1 2 3 4 _ _ _ p4InitS2D
      (fun k hk => by constructor <;> simp) (fun k hk => by omega) p4InputsS (fun _ => 3)
      (fun x => rfl) 4 (by decide)
  exact ⟨g, f, o, hg, hf, eo, hret, hit, h1, h2⟩

end TV.Conv

/-- info: 'TV.Conv.d2s_bestAlgorithm_src' depends on axioms: [propext, Classical.choice, Quot.sound] -/
#guard_msgs in
#print axioms TV.Conv.d2s_bestAlgorithm_src
/-- info: 'TV.Conv.d2s_value_denote' depends on axioms: [propext, Classical.choice, Quot.sound] -/
#guard_msgs in
#print axioms TV.Conv.d2s_value_denote
/-- info: 'TV.Conv.evaluate_correct_d2s' depends on axioms: [propext, Classical.choice, Quot.sound] -/
#guard_msgs in
#print axioms TV.Conv.evaluate_correct_d2s
/-- info: 'TV.Conv.s2d_bestAlgorithm_src' depends on axioms: [propext, Classical.choice, Quot.sound] -/
#guard_msgs in
#print axioms TV.Conv.s2d_bestAlgorithm_src
/-- info: 'TV.Conv.s2d_value_denote' depends on axioms: [propext, Classical.choice, Quot.sound] -/
#guard_msgs in
#print axioms TV.Conv.s2d_value_denote
/-- info: 'TV.Conv.evaluate_correct_s2d' depends on axioms: [propext, Classical.choice, Quot.sound] -/
#guard_msgs in
#print axioms TV.Conv.evaluate_correct_s2d

/-!
# C01, full pipeline, class 4: the sparse dot product `an() = bn(i) * cn(i)`

Front half (source assignment → `desugar` → `bestAlgorithm` → class graph → `denote`) of
`Props/C01Spdot.lean`, for ARBITRARY tensor names `an, bn, cn` and index name `i`; format table
`p4DotFmts an bn cn = [an: scalar, bn: compressed, cn: compressed]`; tensors `0_<an>` (`p4DotOut`),
`1_<bn>` (`sp2B`), `2_<cn>` (`sp2C`).

* R1 `spdot_toIterationGraphs_src` (exactly ONE candidate), `spdot_bestAlgorithm_src`.
* R2 `spdot_value_denote`: `Σ_{x < sz i}` of the value of the terminal = `denote` of the source at `[]`.
* R3 `evaluate_correct_spdot`: over `Rat`, the pipeline goes through and the generated kernel leaves
  exactly one new one-cell block holding `denote` of the SOURCE assignment at `[]`.
* non-vacuity: `p() = q(k) * r(k)`, `q = {0:1, 2:2, 5:3}`, `r = {2:10, 3:20, 5:30}` → `110`.
-/
namespace TV.Spdot
open TV.IR TV.Gen TV.Graph TV.Growth TV.Merge
open TV.Sparse1 (isSp inLeaf)
open TV.Spmul (mulE intersect assoc vecAt)
open TV.Alg TV.Pipe1 TV.Pipe2 TV.Pipe3 TV.Pipe4

/-- **R1 (all candidates).** For all tensor names `an, bn, cn` (pairwise different) and every index name
`i`, `toIterationGraphs ∘ desugar` of the SOURCE assignment `an() = bn(i) * cn(i)` over the format table
`[an: scalar, bn: compressed, cn: compressed]` returns exactly ONE candidate: the graph of `Spdot`,
`.iter i none (.terminal (1_<bn> * 2_<cn>))`. -/
theorem spdot_toIterationGraphs_src (an bn cn i : String) (hab : an ≠ bn) (hac : an ≠ cn) (hbc : bn ≠ cn) :
    toIterationGraphs (desugar ⟨an, [], .mul (.tensor bn [i]) (.tensor cn [i])⟩) (p4DotFmts an bn cn) =
      .ok [graph i (sp2B bn i) (sp2C cn i)] := by
  rw [DenseTerm.desugar_dot]
  exact p4Dot_toIterationGraphs an bn cn i hab hac hbc

/-- **R1.** `bestAlgorithm ∘ desugar` chooses the graph of `Spdot` for every member of the class. -/
theorem spdot_bestAlgorithm_src (an bn cn i : String) (hab : an ≠ bn) (hac : an ≠ cn) (hbc : bn ≠ cn) :
    bestAlgorithm (desugar ⟨an, [], .mul (.tensor bn [i]) (.tensor cn [i])⟩) (p4DotFmts an bn cn) =
      .graph (graph i (sp2B bn i) (sp2C cn i)) := by
  simp only [bestAlgorithm, spdot_toIterationGraphs_src an bn cn i hab hac hbc]

/-- **R1, explicit tensors.** The chosen graph written out: the contraction loop over `i` (no output
layer) around the product of the tensors `1_<bn>` and `2_<cn>`, both compressed vectors over `i`. -/
theorem spdot_bestAlgorithm_src_explicit (an bn cn i : String) (hab : an ≠ bn) (hac : an ≠ cn)
    (hbc : bn ≠ cn) :
    bestAlgorithm (desugar ⟨an, [], .mul (.tensor bn [i]) (.tensor cn [i])⟩)
        [(an, [], []), (bn, [.compressed], [0]), (cn, [.compressed], [0])] =
      .graph (.iter i none (.terminal (.mul (.tensor ⟨"1_" ++ bn, bn, [i], [.compressed]⟩)
        (.tensor ⟨"2_" ++ cn, cn, [i], [.compressed]⟩)))) :=
  spdot_bestAlgorithm_src an bn cn i hab hac hbc

/-- the output tensor `generateIr` computes for the class is `0_<an>`, scalar -/
theorem spdot_tensorId_out_src (an bn cn : String) :
    tensorId 0 an (p4DotFmts an bn cn) [] = some ⟨"0_" ++ an, an, [], []⟩ :=
  p4Dot_tensorId_out an bn cn

/-- **R2.** The sum over all coordinates `x < sz i` of the value of the terminal expression
`1_<bn> * 2_<cn>` of the chosen graph, its operands read at `inp bn [x]` and `inp cn [x]`, is the
specification `denote` of the source assignment at the empty coordinate (the kernel sums over the
coordinates stored in BOTH operands only: the others contribute `0`, `spdot_denote`). -/
theorem spdot_value_denote (an bn cn i : String) (inp : Inputs) (sz : Sizes) :
    sumRange (sz i) (fun x => value (fun id => inp (nameOf id) [x]) (mulE (sp2B bn i) (sp2C cn i))) =
      denote ⟨an, [], .mul (.tensor bn [i]) (.tensor cn [i])⟩ inp sz [] := by
  rw [DenseTerm.denote_dot]
  have hb : nameOf (sp2B bn i).id = bn := nameOf_id 1 bn
  have hc : nameOf (sp2C cn i).id = cn := nameOf_id 2 cn
  simp only [mulE, value, hb, hc]

/-- **R3 (the `evaluate` kernel that the pipeline yields computes the specification).** For all tensor
names `an, bn, cn` and index name `i` with the naming conditions `P4DotNames` (`Sp2Names`: no `'_'`,
pairwise different; `an` none of `dim pos crd vals end 0`), every initial machine state
`σ` as the driver builds it (`Init`: the scalar output record is output-owned, the two inputs are
well-formed compressed vectors with `mb` resp. `mc` stored entries, coordinates `crdB`/`crdC` strictly
increasing and in the `int32` range, those of `bn` within the dimension `sizes i`, values
`cellsB`/`cellsC`) and every valuation `inputs` that reads `bn` and `cn` as the dense readings of the
stored operands:

the pipeline goes through — `bestAlgorithm (desugar a) formats` is a graph `g` and `generateIr` yields an
`evaluate` function `f` for it (whatever the capacity parameter `cap`) — and `f` runs with any fuel
`≥ mb + mc + 2` without error, **returns `0`** after at most `mb + mc + 1` loop iterations, appends
EXACTLY one block to the heap — the live, output-owned one-cell block holding
**`denote a inputs sizes []`** — and sets `vals` of the output record to its base address. -/
theorem evaluate_correct_spdot (cap : Option Int) (an bn cn i : String) (hn : P4DotNames an bn cn i)
    (ta : Nat) (atr : TensorRec Rat) (n : Int)
    (tb : Nat) (btr : TensorRec Rat) (mb bpb bcb bvb : Nat) (crdB : Nat → Int) (cellsB : Nat → Rat)
    (tc : Nat) (ctr : TensorRec Rat) (mc cpb ccb cvb : Nat) (crdC : Nat → Int) (cellsC : Nat → Rat)
    (σ : State Rat)
    (init : Init (p4DotOut an) (sp2B bn i) (sp2C cn i) ta atr n tb btr mb bpb bcb bvb crdB cellsB
      tc ctr mc cpb ccb cvb crdC cellsC σ)
    (hmb : mb ≤ 1073741824) (hmc : mc ≤ 1073741824)
    (hrngB : ∀ j, j < mb → -2147483648 ≤ crdB j ∧ crdB j < 2147483648)
    (hrngC : ∀ j, j < mc → -2147483648 ≤ crdC j ∧ crdC j < 2147483648)
    (hsB : ∀ j k, j < k → k < mb → crdB j < crdB k) (hsC : ∀ j k, j < k → k < mc → crdC j < crdC k)
    (inputs : Inputs) (sizes : Sizes)
    (hrB : ∀ j, j < mb → 0 ≤ crdB j ∧ crdB j < sizes i)
    (hinB : ∀ x : Nat, inputs bn [x] = vecAt (assoc mb crdB cellsB) x)
    (hinC : ∀ x : Nat, inputs cn [x] = vecAt (assoc mc crdC cellsC) x)
    (fuel : Nat) (hfuel : mb + mc + 2 ≤ fuel) :
    ∃ g f, bestAlgorithm (desugar ⟨an, [], .mul (.tensor bn [i]) (.tensor cn [i])⟩) (p4DotFmts an bn cn) =
        .graph g ∧
      generateIr id cap (desugar ⟨an, [], .mul (.tensor bn [i]) (.tensor cn [i])⟩) (p4DotFmts an bn cn) g
        .evaluate = .ok f ∧
      ∃ o, exec fuel f.body σ = .ok o ∧ o.ret = some (.int 0) ∧ o.iters ≤ mb + mc + 1 ∧
        o.st.heap = σ.heap ++
          [⟨.float, [some (.flt (denote ⟨an, [], .mul (.tensor bn [i]) (.tensor cn [i])⟩ inputs sizes []))],
            .output, true⟩] ∧
        o.st.tensors = σ.tensors.set ta { atr with vals := .ptr σ.heap.length 0 } := by
  have hout := p4Dot_tensorId_out an bn cn
  have hcl := p4Dot_isClass an bn cn i
  have ok := p4Dot_kernelOK hn
  have hgen : generateIr (F := Rat) id cap (desugar ⟨an, [], .mul (.tensor bn [i]) (.tensor cn [i])⟩)
      (p4DotFmts an bn cn) (graph i (sp2B bn i) (sp2C cn i)) .evaluate =
      .ok (kernel id (p4DotFmts an bn cn) i (p4DotOut an) (sp2B bn i) (sp2C cn i)) := by
    rw [DenseTerm.desugar_dot]
    exact spdot_generateIr_eq id cap (DenseTerm.dotAssign an bn cn i 1 2) _ i _ (sp2B bn i) (sp2C cn i) 1 2
      hout hcl ok.fmt rfl rfl
  exact ⟨_, _, spdot_bestAlgorithm_src an bn cn i hn.base.ab hn.base.ac hn.base.bc, hgen,
    spdot_kernel_exact cap an bn cn _ i _ (sp2B bn i) (sp2C cn i) hout hcl rfl rfl ok ta atr n tb btr mb bpb
      bcb bvb crdB cellsB tc ctr mc cpb ccb cvb crdC cellsC σ init hmb hmc hrngB hrngC hsB hsC _ hgen inputs
      sizes hrB hinB hinC fuel hfuel⟩

/-! ### non-vacuity: `p() = q(k) * r(k)`, `q = {0:1, 2:2, 5:3}`, `r = {2:10, 3:20, 5:30}`, dimension 6 -/

open TV.Spmul (exCrdB exCrdC exCellsB exCellsC exCells3 exSortedB exSortedC exRangeB exRangeC)

/-- the state the driver builds for the scalar output `p` (order 0, no `vals` yet), `q` and `r` -/
def p4DotState : State Rat :=
  { vars := [⟨"p", .ptr .tensor, some (.tensor 0)⟩, ⟨"q", .ptr .tensor, some (.tensor 1)⟩,
             ⟨"r", .ptr .tensor, some (.tensor 2)⟩],
    heap := [⟨.int, [], .output, true⟩,
             ⟨.int, [some (.int 6)], .input, true⟩,
             ⟨.int, [some (.int 0), some (.int 3)], .input, true⟩,
             ⟨.int, [some (.int 0), some (.int 2), some (.int 5)], .input, true⟩,
             ⟨.float, [some (.flt 1), some (.flt 2), some (.flt 3)], .input, true⟩,
             ⟨.int, [some (.int 6)], .input, true⟩,
             ⟨.int, [some (.int 0), some (.int 3)], .input, true⟩,
             ⟨.int, [some (.int 2), some (.int 3), some (.int 5)], .input, true⟩,
             ⟨.float, [some (.flt 10), some (.flt 20), some (.flt 30)], .input, true⟩],
    tensors := [⟨0, 0, [], .null, .output⟩,
                ⟨1, 1, [some (.ptr 2 0, .ptr 3 0)], .ptr 4 0, .input⟩,
                ⟨1, 5, [some (.ptr 6 0, .ptr 7 0)], .ptr 8 0, .input⟩] }

theorem p4DotNamesEx : P4DotNames "p" "q" "r" "k" :=
  ⟨⟨by decide, by decide, by decide, by decide, by decide, by decide, by decide, by decide, by decide,
    by decide⟩, by decide, by decide, by decide, by decide, by decide, by decide⟩

theorem p4DotInit :
    Init (p4DotOut "p") (sp2B "q" "k") (sp2C "r" "k") 0 ⟨0, 0, [], .null, .output⟩ 6
      1 ⟨1, 1, [some (.ptr 2 0, .ptr 3 0)], .ptr 4 0, .input⟩ 3 2 3 4 exCrdB (exCellsB (fun z => (z : Rat)))
      2 ⟨1, 5, [some (.ptr 6 0, .ptr 7 0)], .ptr 8 0, .input⟩ 3 6 7 8 exCrdC (exCellsC (fun z => (z : Rat)))
      p4DotState := by
  refine
    { avar := ⟨_, rfl, rfl, rfl⟩, fresh := ?_, arec := rfl, aown := rfl, avals := rfl,
      bdim := ⟨_, rfl, rfl, rfl, rfl⟩, n32 := by decide,
      b := { var := ⟨_, rfl, rfl, rfl⟩, hrec := rfl, ord := Nat.zero_lt_one, slot := rfl, vals := rfl,
             pos := ⟨_, rfl, rfl, rfl, rfl, rfl⟩, crd := ⟨_, rfl, rfl, rfl, Nat.le_refl _, ?_⟩,
             val := ⟨_, rfl, rfl, rfl, ?_⟩ },
      c := { var := ⟨_, rfl, rfl, rfl⟩, hrec := rfl, ord := Nat.zero_lt_one, slot := rfl, vals := rfl,
             pos := ⟨_, rfl, rfl, rfl, rfl, rfl⟩, crd := ⟨_, rfl, rfl, rfl, Nat.le_refl _, ?_⟩,
             val := ⟨_, rfl, rfl, rfl, ?_⟩ } }
  · intro x h1 h2 h3
    have e1 : ("p" == x) = false := beq_eq_false_iff_ne.2 (Ne.symm h1)
    have e2 : ("q" == x) = false := beq_eq_false_iff_ne.2 (Ne.symm h2)
    have e3 : ("r" == x) = false := beq_eq_false_iff_ne.2 (Ne.symm h3)
    simp [lookupVar, p4DotState, List.find?, e1, e2, e3]
  · intro j hj
    match j, hj with
    | 0, _ => rfl
    | 1, _ => rfl
    | 2, _ => rfl
  · intro j hj; exact exCells3 _ _ _ _ j hj
  · intro j hj
    match j, hj with
    | 0, _ => rfl
    | 1, _ => rfl
    | 2, _ => rfl
  · intro j hj; exact exCells3 _ _ _ _ j hj

/-- the inputs of the specification read off the stored operands -/
def p4DotInputs : Inputs := fun nm co =>
  if nm = "q" then vecAt (assoc 3 exCrdB (exCellsB (fun z => (z : Rat)))) (co.headD 0)
  else vecAt (assoc 3 exCrdC (exCellsC (fun z => (z : Rat)))) (co.headD 0)

/-- R1 is not vacuous, and agrees with evaluating the model of the pipeline (independent check) -/
example : bestAlgorithm (desugar ⟨"p", [], .mul (.tensor "q" ["k"]) (.tensor "r" ["k"])⟩)
      [("p", [], []), ("q", [.compressed], [0]), ("r", [.compressed], [0])] =
    .graph (.iter "k" none
      (.terminal (.mul (.tensor ⟨"1_q", "q", ["k"], [.compressed]⟩)
        (.tensor ⟨"2_r", "r", ["k"], [.compressed]⟩)))) ∧
    toIterationGraphs (desugar ⟨"p", [], .mul (.tensor "q" ["k"]) (.tensor "r" ["k"])⟩)
      (p4DotFmts "p" "q" "r") = .ok [graph "k" (sp2B "q" "k") (sp2C "r" "k")] ∧
    tensorId 0 "p" (p4DotFmts "p" "q" "r") [] = some ⟨"0_p", "p", [], []⟩ :=
  ⟨spdot_bestAlgorithm_src "p" "q" "r" "k" (by decide) (by decide) (by decide), by rfl, by rfl⟩

/-- the specification on the instance: `2 * 10 + 3 * 30 = 110` -/
theorem p4Dot_value :
    denote ⟨"p", [], .mul (.tensor "q" ["k"]) (.tensor "r" ["k"])⟩ p4DotInputs (fun _ => 6) [] = 110 := by
  rw [← (spdot_denote (exCellsB (fun z => (z : Rat))) (exCellsC (fun z => (z : Rat))) exSortedB exSortedC
    "p" "q" "r" "k" p4DotInputs (fun _ => 6) (by
      intro j hj
      match j, hj with
      | 0, _ => decide
      | 1, _ => decide
      | 2, _ => decide) (fun x => by simp [p4DotInputs]) (fun x => by simp [p4DotInputs])).1]
  simp [assoc, List.range, List.range.loop, exCrdB, exCrdC, exCellsB, exCellsC, intersect, Spmul.interAux,
    FloatOps.mul, dotSum, FloatOps.add, FloatOps.ofInt]
  grind

/-- **R3 is not vacuous**: every hypothesis holds for `p() = q(k) * r(k)`; the pipeline yields the kernel,
the run returns `0` and appends exactly the one-cell block `[110]`, which is `denote` of the source
assignment at `[]` -/
example : ∃ (g : IGraph) (f : Func Rat) (o : Out Rat),
    bestAlgorithm (desugar ⟨"p", [], .mul (.tensor "q" ["k"]) (.tensor "r" ["k"])⟩) (p4DotFmts "p" "q" "r") =
      .graph g ∧
    generateIr (F := Rat) id none (desugar ⟨"p", [], .mul (.tensor "q" ["k"]) (.tensor "r" ["k"])⟩)
      (p4DotFmts "p" "q" "r") g .evaluate = .ok f ∧
    exec 8 f.body p4DotState = .ok o ∧ o.ret = some (.int 0) ∧
    o.st.heap = p4DotState.heap ++ [⟨.float, [some (.flt 110)], .output, true⟩] ∧
    denote ⟨"p", [], .mul (.tensor "q" ["k"]) (.tensor "r" ["k"])⟩ p4DotInputs (fun _ => 6) [] = 110 := by
  obtain ⟨g, f, hg, hf, o, eo, hret, _, hheap, _⟩ :=
    evaluate_correct_spdot none "p" "q" "r" "k" p4DotNamesEx 0 _ 6 1 _ 3 2 3 4 exCrdB
      (exCellsB (fun z => (z : Rat))) 2 _ 3 6 7 8 exCrdC (exCellsC (fun z => (z : Rat))) _ p4DotInit
      (by decide) (by decide) exRangeB exRangeC exSortedB exSortedC p4DotInputs (fun _ => 6)
      (by
        intro j hj
        match j, hj with
        | 0, _ => decide
        | 1, _ => decide
        | 2, _ => decide)
      (fun x => by simp [p4DotInputs]) (fun x => by simp [p4DotInputs]) 8 (by decide)
  rw [p4Dot_value] at hheap
  exact ⟨g, f, o, hg, hf, eo, hret, hheap, p4Dot_value⟩

end TV.Spdot

/-- info: 'TV.Spdot.spdot_toIterationGraphs_src' depends on axioms: [propext, Classical.choice, Quot.sound] -/
#guard_msgs in
#print axioms TV.Spdot.spdot_toIterationGraphs_src
/-- info: 'TV.Spdot.spdot_bestAlgorithm_src' depends on axioms: [propext, Classical.choice, Quot.sound] -/
#guard_msgs in
#print axioms TV.Spdot.spdot_bestAlgorithm_src
/-- info: 'TV.Spdot.spdot_value_denote' depends on axioms: [propext, Classical.choice, Quot.sound] -/
#guard_msgs in
#print axioms TV.Spdot.spdot_value_denote
/-- info: 'TV.Spdot.evaluate_correct_spdot' depends on axioms: [propext, Classical.choice, Quot.sound] -/
#guard_msgs in
#print axioms TV.Spdot.evaluate_correct_spdot

/-!
# C01, the full pipeline, for the dense matrix product `a(i,j) = B(i,k) * C(k,j)`

`Props/C01DenseTerm.lean` proves that the kernel generated for the graph `graph (mmLv i j k) outT (mulE tB tC)`
(the nest `i, k, j`) computes `Alg.denote` of the source assignment (`matmul_kernel_denote`, already for
arbitrary names but for a GIVEN graph and given tensors `outT`, `tB`, `tC`). Here the front half is closed
for ARBITRARY tensor names `an, Bn, Cn` (pairwise different) and index names `i, j, k` (pairwise different),
over the format table `p4mmFormats an Bn Cn` (all three tensors `dd`, identity ordering):

* **R1** `matmul_toIterationGraphs_head`, `matmul_bestAlgorithm_src`: the candidate list of
  `toIterationGraphs ∘ desugar` has several loop orders (two per tensor); its HEAD, which `bestAlgorithm`
  takes, is the nest `i` (output layer 0), `k` (contraction), `j` (output layer 1) around the terminal
  `1_<Bn> * 2_<Cn>`, with the output tensor `0_<an>`.
* **R2** `matmul_value_denote`: the sum over `kk < sz k` of the value of the terminal is `denote`.
* **R3** `evaluate_correct_matmul`: over `Rat`, the pipeline goes through and the `evaluate` kernel leaves
  `denote` of the SOURCE assignment in the output; the static hypotheses of `matmul_kernel_denote`
  (`KernelOK`, the class conditions) are derived from the naming conditions `P4MatmulNames` and the
  dimension bounds.
-/
namespace TV.DenseTerm
open TV.IR TV.Gen TV.Graph TV.Growth
open TV.Alg TV.Pipe4

/-- **R1 (head of the candidates).** For all tensor names `an, Bn, Cn` (pairwise different) and index
names `i, j, k` (pairwise different), `toIterationGraphs ∘ desugar` of the SOURCE assignment
`an(i,j) = Bn(i,k) * Cn(k,j)` over the all-`dd` format table succeeds and its first candidate is the nest
`i, k, j`: `i ↦ 0_<an>` layer 0, `k` a contraction, `j ↦ 0_<an>` layer 1, terminal `1_<Bn> * 2_<Cn>`. -/
theorem matmul_toIterationGraphs_head (an Bn Cn i j k : String) (hij : i ≠ j) (hik : i ≠ k) (hjk : j ≠ k)
    (hab : an ≠ Bn) (hac : an ≠ Cn) (hbc : Bn ≠ Cn) :
    ∃ gs, toIterationGraphs (desugar ⟨an, [i, j], .mul (.tensor Bn [i, k]) (.tensor Cn [k, j])⟩)
        (p4mmFormats an Bn Cn) = .ok gs ∧
      gs.head? = some (.iter i (some ⟨p4mmOut an i j, 0⟩) (.iter k none (.iter j (some ⟨p4mmOut an i j, 1⟩)
        (.terminal (.mul (.tensor (p4mmB Bn i k)) (.tensor (p4mmC Cn k j))))))) := by
  rw [desugar_mm an Bn Cn i j k hij hik hjk]
  exact p4mm_toIterationGraphs an Bn Cn i j k hij hik hjk hab hac hbc

/-- **R1.** `bestAlgorithm ∘ desugar` chooses the nest `i, k, j` (the graph of `DenseTerm` for the level list
`mmLv i j k`) for every member of the class. -/
theorem matmul_bestAlgorithm_src (an Bn Cn i j k : String) (hij : i ≠ j) (hik : i ≠ k) (hjk : j ≠ k)
    (hab : an ≠ Bn) (hac : an ≠ Cn) (hbc : Bn ≠ Cn) :
    bestAlgorithm (desugar ⟨an, [i, j], .mul (.tensor Bn [i, k]) (.tensor Cn [k, j])⟩)
        (p4mmFormats an Bn Cn) =
      .graph (graph (mmLv i j k) (p4mmOut an i j) (mulE (p4mmB Bn i k) (p4mmC Cn k j))) := by
  obtain ⟨gs, hg, hh⟩ := matmul_toIterationGraphs_head an Bn Cn i j k hij hik hjk hab hac hbc
  cases gs with
  | nil => simp at hh
  | cons g gs =>
    simp only [List.head?_cons, Option.some.injEq] at hh
    simp only [bestAlgorithm, hg, hh]
    rfl

/-- the reading of the two tensor occurrences at row `ii`, column `jj`, contraction coordinate `kk` -/
def matmulRho (inp : Inputs) (Bn Cn i k : String) (ii jj kk : Nat) : String → Rat :=
  fun id => if id = (p4mmB Bn i k).id then inp Bn [ii, kk] else inp Cn [kk, jj]

/-- **R2.** The sum over `kk < sz k` of the value of the terminal expression `1_<Bn> * 2_<Cn>` of the chosen
graph, read at `inp Bn [ii, kk]` and `inp Cn [kk, jj]`, is the specification `denote` of the source
assignment at `[ii, jj]`. -/
theorem matmul_value_denote (an Bn Cn i j k : String) (hij : i ≠ j) (hik : i ≠ k) (hjk : j ≠ k)
    (inp : Inputs) (sz : Sizes) (ii jj : Nat) :
    sumRange (sz k) (fun kk => value (matmulRho inp Bn Cn i k ii jj kk)
        (mulE (p4mmB Bn i k) (p4mmC Cn k j))) =
      denote ⟨an, [i, j], .mul (.tensor Bn [i, k]) (.tensor Cn [k, j])⟩ inp sz [ii, jj] := by
  rw [denote_matmul inp sz an Bn Cn i j k hij hik hjk ii jj]
  have hne : (p4mmC Cn k j).id ≠ (p4mmB Bn i k).id := p4mm_ids_ne '2' '1' (by decide) Cn Bn
  simp only [mulE, value, matmulRho, if_true, hne, if_false]

/-- **R3 (the `evaluate` kernel that the pipeline yields computes the specification).** For all names
satisfying `P4MatmulNames` (no `'_'`, indexes pairwise different, tensors pairwise different, no index name
is a tensor name), dimensions `n = dimOf i`, `m = dimOf j`, `p = dimOf k` with `n, m, p, n*m, n*p, p*m < 2^31`,
every initial machine state `σ` as the driver builds it (`Init`), and inputs of the specification
`inputs Bn [ii,kk] = cells of Bn at ii * p + kk`, `inputs Cn [kk,jj] = cells of Cn at kk * m + jj`,
`sizes k = p`: the pipeline goes through — `bestAlgorithm (desugar a) formats` is a graph `g` and `generateIr`
yields an `evaluate` function `f` for it — and `f` runs with the stated fuel without error, **returns `0`**, the
output record's `vals` points to the fresh block `σ.heap.length` of exactly `n * m` cells, and cell
`ii * m + jj` holds **exactly** `denote a inputs sizes [ii, jj]`. -/
theorem evaluate_correct_matmul (cap : Option Int) (an Bn Cn i j k : String)
    (hn : P4MatmulNames an Bn Cn i j k)
    (dimOf : String → Nat) (blkOf : String → Nat) (cellsOf : String → Nat → Rat)
    (tix : String → Nat) (σ : State Rat)
    (hi : dimOf i < 2147483648) (hj : dimOf j < 2147483648) (hk : dimOf k < 2147483648)
    (hijd : dimOf i * dimOf j < 2147483648) (hikd : dimOf i * dimOf k < 2147483648)
    (hkjd : dimOf k * dimOf j < 2147483648)
    (hinit : Init (p4mmFormats an Bn Cn) [(i, an, 0), (j, an, 1), (k, Bn, 1)]
      ⟨mmLv i j k, dimOf, p4mmOut an i j, mulE (p4mmB Bn i k) (p4mmC Cn k j), σ.heap.length, blkOf,
        cellsOf⟩ tix σ)
    (inputs : Inputs) (sizes : Sizes) (hsz : sizes k = dimOf k)
    (hinB : ∀ ii, ii < dimOf i → ∀ kk, kk < dimOf k → inputs Bn [ii, kk] = cellsOf Bn (ii * dimOf k + kk))
    (hinC : ∀ kk, kk < dimOf k → ∀ jj, jj < dimOf j → inputs Cn [kk, jj] = cellsOf Cn (kk * dimOf j + jj))
    (fuel : Nat) (hfuel : dimOf i + 1 + (dimOf j + 1 + (dimOf k + 1 + (dimOf j + 1))) ≤ fuel) :
    ∃ g f, bestAlgorithm (desugar ⟨an, [i, j], .mul (.tensor Bn [i, k]) (.tensor Cn [k, j])⟩)
        (p4mmFormats an Bn Cn) = .graph g ∧
      generateIr id cap (desugar ⟨an, [i, j], .mul (.tensor Bn [i, k]) (.tensor Cn [k, j])⟩)
        (p4mmFormats an Bn Cn) g .evaluate = .ok f ∧
      ∃ o, exec fuel f.body σ = .ok o ∧ o.ret = some (.int 0) ∧
        (∃ tr, σ.tensors[tix an]? = some tr ∧
          o.st.tensors[tix an]? = some { tr with vals := .ptr σ.heap.length 0 }) ∧
        ∃ blk, o.st.heap[σ.heap.length]? = some blk ∧ blk.live = true ∧
          blk.cells.length = dimOf i * dimOf j ∧
          ∀ ii, ii < dimOf i → ∀ jj, jj < dimOf j →
            blk.cells[ii * dimOf j + jj]? = some (some (.flt
              (denote ⟨an, [i, j], .mul (.tensor Bn [i, k]) (.tensor Cn [k, j])⟩ inputs sizes [ii, jj]))) := by
  have ok := p4mm_kernelOK (F := Rat) hn dimOf σ.heap.length blkOf cellsOf hi hj hk hijd hikd hkjd
  have hout := p4mm_tensorId_out an Bn Cn i j
  obtain ⟨f, hgen⟩ : ∃ f, generateIr (F := Rat) id cap
      (desugar ⟨an, [i, j], .mul (.tensor Bn [i, k]) (.tensor Cn [k, j])⟩) (p4mmFormats an Bn Cn)
      (graph (mmLv i j k) (p4mmOut an i j) (mulE (p4mmB Bn i k) (p4mmC Cn k j))) .evaluate = .ok f := by
    rw [desugar_mm an Bn Cn i j k hn.ij hn.ik hn.jk]
    exact ⟨_, denseTerm_generateIr_eq id cap _ _ (mmLv i j k) _ _ hout ok.static.out ok.static.expr
      ok.static.nodup (fun _ _ _ => rfl) (p4mm_denseFormats an Bn Cn)⟩
  exact ⟨_, _, matmul_bestAlgorithm_src an Bn Cn i j k hn.ij hn.ik hn.jk hn.ab hn.ac hn.bc, hgen,
    matmul_kernel_denote cap an Bn Cn i j k _ _ _ _ hn.ij hn.ik hn.jk hout (p4mm_denseFormats an Bn Cn)
      rfl rfl dimOf blkOf cellsOf tix σ ok hinit inputs sizes hsz hinB hinC _ hgen fuel hfuel⟩

/-! ### non-vacuity: fresh names, `p(x,y) = q(x,z) * r(z,y)` -/

/-- R1 is not vacuous, and agrees with evaluating the model of the pipeline (independent check by `rfl` on
the closed instance: the real head is the nest `x, z, y`) -/
example : bestAlgorithm (desugar ⟨"p", ["x", "y"], .mul (.tensor "q" ["x", "z"]) (.tensor "r" ["z", "y"])⟩)
      [("p", [.dense, .dense], [0, 1]), ("q", [.dense, .dense], [0, 1]), ("r", [.dense, .dense], [0, 1])] =
    .graph (.iter "x" (some ⟨⟨"0_p", "p", ["x", "y"], [.dense, .dense]⟩, 0⟩) (.iter "z" none
      (.iter "y" (some ⟨⟨"0_p", "p", ["x", "y"], [.dense, .dense]⟩, 1⟩)
        (.terminal (.mul (.tensor ⟨"1_q", "q", ["x", "z"], [.dense, .dense]⟩)
          (.tensor ⟨"2_r", "r", ["z", "y"], [.dense, .dense]⟩)))))) ∧
    bestAlgorithm (desugar ⟨"p", ["x", "y"], .mul (.tensor "q" ["x", "z"]) (.tensor "r" ["z", "y"])⟩)
      (p4mmFormats "p" "q" "r") =
    .graph (graph (mmLv "x" "y" "z") (p4mmOut "p" "x" "y") (mulE (p4mmB "q" "x" "z") (p4mmC "r" "z" "y"))) :=
  ⟨matmul_bestAlgorithm_src "p" "q" "r" "x" "y" "z" (by decide) (by decide) (by decide) (by decide)
    (by decide) (by decide), by rfl⟩

/-- the candidate list of the instance has more than one loop order (the head is one of several) -/
example : ∃ gs, toIterationGraphs
      (desugar ⟨"p", ["x", "y"], .mul (.tensor "q" ["x", "z"]) (.tensor "r" ["z", "y"])⟩)
      (p4mmFormats "p" "q" "r") = .ok gs ∧ 1 < gs.length := ⟨_, rfl, by decide⟩

/-- the naming conditions hold for the fresh names -/
example : P4MatmulNames "p" "q" "r" "x" "y" "z" := by
  refine ⟨?_, ?_, ?_, ?_, ?_, ?_, ?_, ?_, ?_, ?_, ?_, ?_, ?_⟩ <;> decide

/-- R2 is not vacuous: with `B = [[1,2,3],[4,5,6]]`, `C = [[7,8],[9,10],[11,12]]` (the instance of
`Props/C01DenseTerm.lean`), at entry `[0,0]` -/
example : sumRange 3 (fun kk => value (matmulRho exInputs "B" "C" "i" "k" 0 0 kk)
      (mulE (p4mmB "B" "i" "k") (p4mmC "C" "k" "j"))) =
    denote ⟨"a", ["i", "j"], .mul (.tensor "B" ["i", "k"]) (.tensor "C" ["k", "j"])⟩ exInputs exSizes [0, 0] :=
  matmul_value_denote "a" "B" "C" "i" "j" "k" (by decide) (by decide) (by decide) exInputs exSizes 0 0

/-- **R3 is not vacuous**: every hypothesis holds for the instance of `Props/C01DenseTerm.lean`
(`a(i,j) = B(i,k) * C(k,j)`, `2×3` times `3×2`, the state `exStateOf` the driver builds); the pipeline yields the
kernel, the run (fuel 13) returns `0` and leaves `denote` of the source assignment in the fresh block `5` -/
example : ∃ (g : IGraph) (f : Func Rat) (o : Out Rat),
    bestAlgorithm (desugar ⟨"a", ["i", "j"], .mul (.tensor "B" ["i", "k"]) (.tensor "C" ["k", "j"])⟩)
      (p4mmFormats "a" "B" "C") = .graph g ∧
    generateIr (F := Rat) id none
      (desugar ⟨"a", ["i", "j"], .mul (.tensor "B" ["i", "k"]) (.tensor "C" ["k", "j"])⟩)
      (p4mmFormats "a" "B" "C") g .evaluate = .ok f ∧
    exec 13 f.body (exStateOf (fun z => (z : Rat))) = .ok o ∧ o.ret = some (.int 0) ∧
    ∃ blk, o.st.heap[5]? = some blk ∧ blk.live = true ∧ blk.cells.length = 4 ∧
      ∀ ii, ii < 2 → ∀ jj, jj < 2 → blk.cells[ii * 2 + jj]? = some (some (.flt
        (denote ⟨"a", ["i", "j"], .mul (.tensor "B" ["i", "k"]) (.tensor "C" ["k", "j"])⟩
          exInputs exSizes [ii, jj]))) := by
  obtain ⟨g, f, hg, hf, o, eo, hret, _, blk, hb, hlive, hlen, hcells⟩ :=
    evaluate_correct_matmul none "a" "B" "C" "i" "j" "k"
      (by refine ⟨?_, ?_, ?_, ?_, ?_, ?_, ?_, ?_, ?_, ?_, ?_, ?_, ?_⟩ <;> decide)
      exDimOf exBlkOf (exCellsOf (fun z => (z : Rat))) exTix (exStateOf (fun z => (z : Rat)))
      (by decide) (by decide) (by decide) (by decide) (by decide) (by decide)
      (exInitOf (fun z => (z : Rat))) exInputs exSizes rfl
      (by
        intro ii hii kk hkk
        have hii : ii < 2 := hii
        have hkk : kk < 3 := hkk
        match ii, hii, kk, hkk with
        | 0, _, 0, _ => rfl
        | 0, _, 1, _ => rfl
        | 0, _, 2, _ => rfl
        | 1, _, 0, _ => rfl
        | 1, _, 1, _ => rfl
        | 1, _, 2, _ => rfl)
      (by
        intro kk hkk jj hjj
        have hjj : jj < 2 := hjj
        have hkk : kk < 3 := hkk
        match kk, hkk, jj, hjj with
        | 0, _, 0, _ => rfl
        | 0, _, 1, _ => rfl
        | 1, _, 0, _ => rfl
        | 1, _, 1, _ => rfl
        | 2, _, 0, _ => rfl
        | 2, _, 1, _ => rfl)
      13 (by decide)
  exact ⟨g, f, o, hg, hf, eo, hret, blk, hb, hlive, hlen, hcells⟩

end TV.DenseTerm

/-- info: 'TV.DenseTerm.matmul_toIterationGraphs_head' depends on axioms: [propext, Classical.choice, Quot.sound] -/
#guard_msgs in
#print axioms TV.DenseTerm.matmul_toIterationGraphs_head
/-- info: 'TV.DenseTerm.matmul_bestAlgorithm_src' depends on axioms: [propext, Classical.choice, Quot.sound] -/
#guard_msgs in
#print axioms TV.DenseTerm.matmul_bestAlgorithm_src
/-- info: 'TV.DenseTerm.matmul_value_denote' depends on axioms: [propext, Classical.choice, Quot.sound] -/
#guard_msgs in
#print axioms TV.DenseTerm.matmul_value_denote
/-- info: 'TV.DenseTerm.evaluate_correct_matmul' depends on axioms: [propext, Classical.choice, Quot.sound] -/
#guard_msgs in
#print axioms TV.DenseTerm.evaluate_correct_matmul
