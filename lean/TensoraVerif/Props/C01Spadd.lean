import TensoraVerif.Lemmas.SpaddExact
import TensoraVerif.Props.C01Spmul
import TensoraVerif.Lemmas.Dense1Exact
import TensoraVerif.Model.FloatLaws

/-!
# C01 / C02 / C03 / C05, end to end, for the FULL co-iteration lattice:
# element-wise SUM of two sparse vectors (union merge)

Assignments `a(i) = b(i) + c(i)` where `a`, `b`, `c` are order-1 tensors stored compressed (`s`); class
`Spmul.isClass` (the same as for the product), terminal expression `Spadd.addE bT cT`, iteration graph
`Spadd.graph i outT bT cT = .iter i (some ⟨outT, 0⟩) (.terminal (b + c))`. Unlike the product, every point of
the lattice is emitted. What `lower` REALLY emits (`spadd_lower_eq`, by unfolding `lower` on the class):

```
int p_b = b_pos[0]; int p_b_end = b_pos[1]; int p_c = c_pos[0]; int p_c_end = c_pos[1];
while ((true && p_b < p_b_end) && p_c < p_c_end) {          // 1: while BOTH cursors are in range
  int i_b = b_crd[p_b]; int i_c = c_crd[p_c]; int i = min(i_b, i_c);
  if ((true && i_b == i) && i_c == i)  { <append b_vals[p_b] + c_vals[p_c]> }   // both present
  else if (true && i_b == i)           { <append b_vals[p_b]> }                 // only b  (`b + 0` ↦ `b`)
  else if (true && i_c == i)           { <append c_vals[p_c]> }                 // only c  (`0 + c` ↦ `c`)
  p_b = p_b + (int)(i_b == i); p_c = p_c + (int)(i_c == i);
}
while (true && p_b < p_b_end) { int i_b = b_crd[p_b]; int i = i_b;              // 2: the rest of b
  if (true && i_b == i) { <append b_vals[p_b]> }  p_b = p_b + (int)(i_b == i); }
while (true && p_c < p_c_end) { int i_c = c_crd[p_c]; int i = i_c;              // 3: the rest of c
  if (true && i_c == i) { <append c_vals[p_c]> }  p_c = p_c + (int)(i_c == i); }
<pos assembly>
```
where `<append e>` is `<vals allocation> bool written = false; { written = true; a_vals[p_a] = e; }
if (written) { <crd assembly> p_a = p_a + 1; }`.

* X1 `spadd_lower_eq`, `spadd_generateIr_eq`, `spadd_lattice`, `spadd_bestAlgorithm` — what the pass emits,
  written out; the four-point lattice with the exhausted expressions; the graph is the one the front half chooses.
* body steps: `spadd_branch_step` (the body of any branch), `spadd_body_step` (the three exclusive branches of
  loop 1), `spadd_tail_step_b`, `spadd_tail_step_c` (the branch of a tail loop).
* X2 `Spadd.union` (`Lemmas/SpaddPure.lean`), `spadd_union_spec`.
* X3 `spadd_first_loop`, `spadd_tail_loop`, `spadd_loops_correct` — the three loops: `|union b c| ≤ m_b + m_c`
  iterations in total, the appended history is EXACTLY `union b c`.
* X4 `spadd_kernel_correct` — the whole `evaluate` function; `spadd_result_wf` (`Storage.wfCheck`),
  `spadd_no_phantom_complete` (stored coordinate ⇔ stored in AT LEAST ONE input).
* X5 `spadd_kernel_exact`, `spadd_denote` — over `Rat` the dense reading of the output is `Alg.denote` of the
  source assignment at every coordinate.
* non-vacuity: `b = {0:1, 2:2, 5:3}`, `c = {2:10, 3:20}`, initial capacity 1 → `crd = [0, 2, 3, 5]`,
  `vals = [1, 12, 20, 3, ·]`, 4 iterations (3 in loop 1, 1 in the tail loop of `b`, 0 in the tail loop of `c`).

All three loops are proved with `Spmul.merge_loop_cursor_ghost` (C05's merge loop with a ghost predicate
indexed by the cursor records). Vocabulary shared with the product kernel: `Spmul.isClass`, `Spmul.KNames`,
`Spmul.LoopPre`, `Spmul.Inv` (loop invariant: history of appended (coordinate, value) entries), `Spmul.env`,
`Spmul.Init`, `Spmul.KernelOK`, `Spmul.assoc`, `Spmul.vecAt`; `Sparse1.capVal cap` is the value of
`default_array_size`. New: `Lemmas/SpaddModel.lean` (emitted loops), `SpaddGenerate.lean` (kernel),
`SpaddPure.lean` (`union`, `lookup`).
-/
namespace TV.Spadd
open TV.IR TV.Gen TV.Graph TV.Growth TV.Merge
open TV.Sparse1 (isSp inLeaf outLeaf branchBody midW sparseFormats capVal storedVec)
open TV.Spmul (isClass isClass_iff KNames LoopPre Inv env assoc vecAt Init KernelOK)

variable {F : Type} [FloatOps F]

/-! ### X1: what the pass emits -/

/-- **The lowered iteration block.** For every graph of the class, `lower` (any fuel `≥ 2`) succeeds and returns
`loopLines`: the cursor/end declarations of `b` and of `c`, THREE loops — C05's skeleton
`mergeLoopL [b, c] i [midStmt …]` over the two leaves, whose `mid` is the chain of three exclusive branches
(`(true && i_b == i) && i_c == i`: `b + c`; `true && i_b == i`: `b`; `true && i_c == i`: `c`), then
`mergeLoopL [b] i [tailStmt … b]`, then `mergeLoopL [c] i [tailStmt … c]` — and the `pos assembly`. -/
theorem spadd_lower_eq (ofRat : Rat → F) (k : Nat) (i : String) (outT bT cT : TensorId)
    (hcl : isClass i outT bT cT = true) :
    lower ofRat (k + 2) (graph i outT bT cT) (.append outT 0) .evaluate =
      .ok ⟨some ("*** Iteration over " ++ i ++ " ***"), loopLines ofRat i outT bT cT⟩ :=
  lower_eq ofRat k i outT bT cT hcl

/-- **The generated kernel.** For an assignment `out(i) = rhs` whose accesses all use the index `i` alone, a
format table of compressed vectors and the graph of the class, `generateIr` succeeds and returns exactly
`Spadd.kernel` (extract `i_dim`, unpack `pos`/`crd`/`vals` of every tensor, output initialisation with initial
capacity `cap`, the iteration block `loopLines`, the cleanup reallocs and the hand-over, `return 0`). -/
theorem spadd_generateIr_eq (ofRat : Rat → F) (cap : Option Int) (a : Alg.DAssign) (formats : Formats)
    (i : String) (outT bT cT : TensorId)
    (hout : tensorId 0 a.tname formats a.tidx = some outT)
    (hcl : isClass i outT bT cT = true) (hf : sparseFormats formats = true)
    (hidx : a.tidx = [i]) (hrhs : Dense1.rhsIdx i a.rhs = true) :
    generateIr ofRat cap a formats (graph i outT bT cT) .evaluate =
      .ok (kernel ofRat cap formats i outT bT cT) :=
  generateIr_eq ofRat cap a formats i outT bT cT hout (Dense1.tensorId_name hout) hcl hf
    (Dense1.indexDimensions_eq a i hidx hrhs)

/-- **The co-iteration lattice of the class**, as `lower` sees it: FOUR sub-graphs, in this order — the graph
itself (`b + c`), `b` alone, `c` alone, and the zero graph (terminal = the literal `Integer 0`). Exhausting `c`
in `b + c` gives `b` (`b + 0` is simplified away), exhausting `b` gives `c`; exhausting the remaining operand
gives the zero graph; the sub-lattice below one operand is that operand and the zero graph. The zero graph has no
compressed dimension, so — the iteration being sparse — it is skipped both as a loop and as a branch. -/
theorem spadd_lattice (i : String) (outT bT cT : TensorId) (hcl : isClass i outT bT cT = true) :
    generateSubgraphs (graph i outT bT cT) =
      [graph i outT bT cT, graphB i outT bT, graphB i outT cT, zeroGraph i outT] ∧
    generateSubgraphs (graphB i outT bT) = [graphB i outT bT, zeroGraph i outT] ∧
    generateSubgraphs (graphB i outT cT) = [graphB i outT cT, zeroGraph i outT] ∧
    (graph i outT bT cT).exhaust cT.id = graphB i outT bT ∧
    (graph i outT bT cT).exhaust bT.id = graphB i outT cT ∧
    (graphB i outT bT).exhaust bT.id = zeroGraph i outT ∧
    (graphB i outT cT).exhaust cT.id = zeroGraph i outT ∧
    compressedDims (graph i outT bT cT) = [bT.id, cT.id] ∧ compressedDims (graphB i outT bT) = [bT.id] ∧
    compressedDims (graphB i outT cT) = [cT.id] ∧ compressedDims (zeroGraph i outT) = [] := by
  obtain ⟨_, hb, hc, hne⟩ := (isClass_iff i outT bT cT).1 hcl
  exact ⟨generateSubgraphs_eq i outT bT cT hb hc hne, generateSubgraphs_one i outT bT hb,
    generateSubgraphs_one i outT cT hc, exhaust_c i outT bT cT hne, exhaust_b i outT bT cT hne,
    exhaust_one i outT bT, exhaust_one i outT cT, compressedDims_graph i outT bT cT hb hc hne,
    compressedDims_graphB i outT bT hb, compressedDims_graphB i outT cT hc, compressedDims_zero i outT⟩

/-! ### the loop body steps -/

/-- **The body of a branch of the lattice appends one entry.** Let `e ≠ Integer 0` be a terminal expression
whose tensor occurrences are among `b` and `c`, and let the state `σ` satisfy the loop invariant `Inv` after the
entries `hist` (`|hist| < 2^30`) have been appended; for each operand that OCCURS in `e` its cursor holds a
position in range (`q < mb` / `r < mc`); the index `i` holds the int32 `x`; every sub-result of `e` at these
positions is finite. Then `vals allocation check; written = false; { written = true; a_vals[p_a] = e; }
if (written) { crd assembly; p_a++ }` runs without error for every fuel and re-establishes the invariant for
`hist ++ [(x, value of e)]` (after growing the arrays, "however small they started"); it writes only the
variables `midW` and, of the old heap, only the two output arrays. -/
theorem spadd_branch_step {ofRat : Rat → F} {i : String} {outT bT cT : TensorId} {mb mc bvb cvb : Nat}
    {cellsB cellsC : Nat → F} {cb0 vb0 : Nat} {σ0 : State F}
    (N : KNames i outT bT cT) (ho : isSp i outT = true) (hb : isSp i bT = true) (hc : isSp i cT = true)
    (pre : LoopPre bT cT mb mc bvb cvb cellsB cellsC cb0 vb0 σ0)
    (e : IdExpr) (hne0 : e ≠ .int 0)
    (fuel : Nat) (σ : State F) (hist : List (Int × F)) (cb : Nat) (cc : Int) (vb : Nat) (vc : Int)
    (q r : Nat) (x : Int)
    (hl : ∀ t ∈ ToIr.leaves e, (t = bT ∧ q < mb ∧ IntVar σ (layerPointer bT.id 0) q) ∨
      (t = cT ∧ r < mc ∧ IntVar σ (layerPointer cT.id 0) r))
    (hlen : hist.length < 1073741824)
    (hinv : Inv i outT bT cT cb0 vb0 σ0 cb cc vb vc hist σ)
    (hi : IntVar σ i x) (hr0 : -2147483648 ≤ x) (hr1 : x < 2147483648)
    (hfin : ToIr.AllFinite ofRat (env bT (cellsB q) (cellsC r)) e) :
    ∃ σ' cb' cc' vb' vc', RunsL fuel (branchBody ofRat outT e) σ σ' ∧
      Inv i outT bT cT cb0 vb0 σ0 cb' cc' vb' vc'
        (hist ++ [(x, ToIr.valueF ofRat (env bT (cellsB q) (cellsC r)) e)]) σ' ∧
      (∀ y, y ∉ midW outT → lookupVar σ'.vars y = lookupVar σ.vars y) ∧
      (∀ k blk, k ≠ cb → k ≠ vb → σ.heap[k]? = some blk → σ'.heap[k]? = some blk) :=
  branch_step N ho hb hc pre e hne0 fuel σ hist cb cc vb vc q r x hl hlen hinv hi hr0 hr1 hfin

/-- **One iteration of the first loop, between the `min` and the increments: three exclusive branches.** Let the
state `σ` satisfy the loop invariant `Inv` after the entries `hist`, the input cursors hold positions `q < mb`,
`r < mc`, and `i_b`, `i_c`, `i` hold the int32s `xb`, `xc`, `x`. Then the `if / else if / else if` chain runs
without error for every fuel, and the history becomes `stepHist hist xb xc x b[q] c[r]`:
* `xb = x` and `xc = x`: `hist ++ [(x, b[q] + c[r])]` (both cells and the sum finite);
* only `xb = x`: `hist ++ [(x, b[q])]` (`b[q]` finite; `c` is not read);
* only `xc = x`: `hist ++ [(x, c[r])]` (`c[r]` finite; `b` is not read);
* neither: the final state IS the initial state.
`|hist| < 2^30` is needed when an entry is appended. It writes only the variables `midW` and, of the old heap,
only the two output arrays. -/
theorem spadd_body_step {ofRat : Rat → F} {i : String} {outT bT cT : TensorId} {mb mc bvb cvb : Nat}
    {cellsB cellsC : Nat → F} {cb0 vb0 : Nat} {σ0 : State F}
    (N : KNames i outT bT cT) (ho : isSp i outT = true) (hb : isSp i bT = true) (hc : isSp i cT = true)
    (pre : LoopPre bT cT mb mc bvb cvb cellsB cellsC cb0 vb0 σ0)
    (fuel : Nat) (σ : State F) (hist : List (Int × F)) (cb : Nat) (cc : Int) (vb : Nat) (vc : Int)
    (q r : Nat) (xb xc x : Int) (hq : q < mb) (hr : r < mc)
    (hinv : Inv i outT bT cT cb0 vb0 σ0 cb cc vb vc hist σ)
    (hpB : IntVar σ (layerPointer bT.id 0) q) (hpC : IntVar σ (layerPointer cT.id 0) r)
    (hvB : IntVar σ (valueFromCrd bT.id 0) xb) (hvC : IntVar σ (valueFromCrd cT.id 0) xc)
    (hi : IntVar σ i x)
    (hb0 : -2147483648 ≤ xb) (hb1 : xb < 2147483648) (hc0 : -2147483648 ≤ xc) (hc1 : xc < 2147483648)
    (hr0 : -2147483648 ≤ x) (hr1 : x < 2147483648)
    (hlen : xb = x ∨ xc = x → hist.length < 1073741824)
    (hboth : xb = x → xc = x → ToIr.AllFinite ofRat (env bT (cellsB q) (cellsC r)) (addE bT cT))
    (honlyB : xb = x → xc ≠ x → FloatOps.finite (cellsB q) = true)
    (honlyC : xb ≠ x → xc = x → FloatOps.finite (cellsC r) = true) :
    ∃ σ' cb' cc' vb' vc', RunsL fuel [midStmt ofRat i outT bT cT] σ σ' ∧
      Inv i outT bT cT cb0 vb0 σ0 cb' cc' vb' vc'
        (if xb = x ∧ xc = x then hist ++ [(x, FloatOps.add (cellsB q) (cellsC r))]
         else if xb = x then hist ++ [(x, cellsB q)]
         else if xc = x then hist ++ [(x, cellsC r)]
         else hist) σ' ∧
      (xb ≠ x → xc ≠ x → σ' = σ) ∧
      (∀ y, y ∉ midW outT → lookupVar σ'.vars y = lookupVar σ.vars y) ∧
      (∀ k blk, k ≠ cb → k ≠ vb → σ.heap[k]? = some blk → σ'.heap[k]? = some blk) :=
  mid_step N ho hb hc pre fuel σ hist cb cc vb vc q r xb xc x hq hr hinv hpB hpC hvB hvC hi hb0 hb1 hc0 hc1
    hr0 hr1 hlen hboth honlyB honlyC

/-- **One iteration of the tail loop of `b`, between the `min` and the increment**: the cursor of `b` holds a
position `q < mb`, `i_b` and `i` hold `xb`, `x`; NOTHING is asked of `c`. If `xb = x` the entry `(x, b[q])` is
appended (`b[q]` finite, `|hist| < 2^30`), otherwise nothing happens. -/
theorem spadd_tail_step_b {ofRat : Rat → F} {i : String} {outT bT cT : TensorId} {mb mc bvb cvb : Nat}
    {cellsB cellsC : Nat → F} {cb0 vb0 : Nat} {σ0 : State F}
    (N : KNames i outT bT cT) (ho : isSp i outT = true) (hb : isSp i bT = true) (hc : isSp i cT = true)
    (pre : LoopPre bT cT mb mc bvb cvb cellsB cellsC cb0 vb0 σ0)
    (fuel : Nat) (σ : State F) (hist : List (Int × F)) (cb : Nat) (cc : Int) (vb : Nat) (vc : Int)
    (q : Nat) (xb x : Int) (hq : q < mb)
    (hinv : Inv i outT bT cT cb0 vb0 σ0 cb cc vb vc hist σ)
    (hpB : IntVar σ (layerPointer bT.id 0) q)
    (hvB : IntVar σ (valueFromCrd bT.id 0) xb) (hi : IntVar σ i x)
    (hb0 : -2147483648 ≤ xb) (hb1 : xb < 2147483648) (hr0 : -2147483648 ≤ x) (hr1 : x < 2147483648)
    (hlen : xb = x → hist.length < 1073741824)
    (hfin : xb = x → FloatOps.finite (cellsB q) = true) :
    ∃ σ' cb' cc' vb' vc', RunsL fuel [tailStmt ofRat i outT bT] σ σ' ∧
      Inv i outT bT cT cb0 vb0 σ0 cb' cc' vb' vc' (if xb = x then hist ++ [(x, cellsB q)] else hist) σ' ∧
      (∀ y, y ∉ midW outT → lookupVar σ'.vars y = lookupVar σ.vars y) ∧
      (∀ k blk, k ≠ cb → k ≠ vb → σ.heap[k]? = some blk → σ'.heap[k]? = some blk) :=
  tail_step_b N ho hb hc pre fuel σ hist cb cc vb vc q xb x hq hinv hpB hvB hi hb0 hb1 hr0 hr1 hlen hfin

/-- **One iteration of the tail loop of `c`**, symmetric. -/
theorem spadd_tail_step_c {ofRat : Rat → F} {i : String} {outT bT cT : TensorId} {mb mc bvb cvb : Nat}
    {cellsB cellsC : Nat → F} {cb0 vb0 : Nat} {σ0 : State F}
    (N : KNames i outT bT cT) (ho : isSp i outT = true) (hb : isSp i bT = true) (hc : isSp i cT = true)
    (pre : LoopPre bT cT mb mc bvb cvb cellsB cellsC cb0 vb0 σ0)
    (fuel : Nat) (σ : State F) (hist : List (Int × F)) (cb : Nat) (cc : Int) (vb : Nat) (vc : Int)
    (r : Nat) (xc x : Int) (hr : r < mc)
    (hinv : Inv i outT bT cT cb0 vb0 σ0 cb cc vb vc hist σ)
    (hpC : IntVar σ (layerPointer cT.id 0) r)
    (hvC : IntVar σ (valueFromCrd cT.id 0) xc) (hi : IntVar σ i x)
    (hc0 : -2147483648 ≤ xc) (hc1 : xc < 2147483648) (hr0 : -2147483648 ≤ x) (hr1 : x < 2147483648)
    (hlen : xc = x → hist.length < 1073741824)
    (hfin : xc = x → FloatOps.finite (cellsC r) = true) :
    ∃ σ' cb' cc' vb' vc', RunsL fuel [tailStmt ofRat i outT cT] σ σ' ∧
      Inv i outT bT cT cb0 vb0 σ0 cb' cc' vb' vc' (if xc = x then hist ++ [(x, cellsC r)] else hist) σ' ∧
      (∀ y, y ∉ midW outT → lookupVar σ'.vars y = lookupVar σ.vars y) ∧
      (∀ k blk, k ≠ cb → k ≠ vb → σ.heap[k]? = some blk → σ'.heap[k]? = some blk) :=
  tail_step_c N ho hb hc pre fuel σ hist cb cc vb vc r xc x hr hinv hpC hvC hi hc0 hc1 hr0 hr1 hlen hfin

/-! ### X2: the reference function -/

/-- **the reference function is the union.** For strictly increasing coordinate arrays, the list `union b c`
has strictly increasing coordinates; its length is between `max mb mc` and `mb + mc`; a coordinate is stored in
it IFF at least one operand stores it (this part needs no sortedness); and `(x, w)` is one of its entries IFF
* `b` stores `x` at some position `q`, `c` stores `x` at some position `r`, and `w = b[q] + c[r]`, or
* `b` stores `x` at `q`, `c` does not store `x`, and `w = b[q]`, or
* `c` stores `x` at `r`, `b` does not store `x`, and `w = c[r]`. -/
theorem spadd_union_spec {mb mc : Nat} {crdB crdC : Nat → Int} (cellsB cellsC : Nat → F)
    (hsB : ∀ j k, j < k → k < mb → crdB j < crdB k) (hsC : ∀ j k, j < k → k < mc → crdC j < crdC k) :
    ((union (assoc mb crdB cellsB) (assoc mc crdC cellsC)).map (·.1)).Pairwise (· < ·) ∧
    max mb mc ≤ (union (assoc mb crdB cellsB) (assoc mc crdC cellsC)).length ∧
    (union (assoc mb crdB cellsB) (assoc mc crdC cellsC)).length ≤ mb + mc ∧
    (∀ x, x ∈ (union (assoc mb crdB cellsB) (assoc mc crdC cellsC)).map (·.1) ↔
      (∃ q, q < mb ∧ crdB q = x) ∨ (∃ r, r < mc ∧ crdC r = x)) ∧
    ∀ x w, (x, w) ∈ union (assoc mb crdB cellsB) (assoc mc crdC cellsC) ↔
      (∃ q r, q < mb ∧ r < mc ∧ crdB q = x ∧ crdC r = x ∧ w = FloatOps.add (cellsB q) (cellsC r)) ∨
      (∃ q, q < mb ∧ crdB q = x ∧ w = cellsB q ∧ ∀ r, r < mc → crdC r ≠ x) ∨
      (∃ r, r < mc ∧ crdC r = x ∧ w = cellsC r ∧ ∀ q, q < mb → crdB q ≠ x) := by
  have hl := union_length (assoc mb crdB cellsB) (assoc mc crdC cellsC)
  simp only [Spmul.assoc_length] at hl
  exact ⟨Spmul.coords_pairwise (union_sorted _ _ (Spmul.assoc_sorted cellsB hsB) (Spmul.assoc_sorted cellsC hsC)),
    by omega, hl.2.2, coord_mem_union_iff cellsB cellsC, entry_mem_union_iff cellsB cellsC hsB hsC⟩

/-- the stored value of the result at every coordinate, as an `Option`: the sum where both operands store
something, what one of them stores where only one does, nothing where neither does -/
theorem spadd_union_lookup {mb mc : Nat} {crdB crdC : Nat → Int} (cellsB cellsC : Nat → F)
    (hsB : ∀ j k, j < k → k < mb → crdB j < crdB k) (hsC : ∀ j k, j < k → k < mc → crdC j < crdC k) (x : Int) :
    lookup (union (assoc mb crdB cellsB) (assoc mc crdC cellsC)) x =
      match lookup (assoc mb crdB cellsB) x, lookup (assoc mc crdC cellsC) x with
      | some u, some v => some (FloatOps.add u v)
      | some u, none => some u
      | none, some v => some v
      | none, none => none := by
  rw [lookup_union _ _ (Spmul.assoc_sorted cellsB hsB) (Spmul.assoc_sorted cellsC hsC)]
  cases lookup (assoc mb crdB cellsB) x <;> cases lookup (assoc mc crdC cellsC) x <;> rfl

/-! ### X3: the three loops -/

/-- **X3a (the first loop).** Let the state `σ` satisfy the merge invariant of the two input leaves (cursors
`0`, ends `mb`, `mc`, `mb + mc ≤ 2^30`, `crd` blocks `bcb`, `ccb` holding the int32 coordinates `crdB`, `crdC`)
and the loop invariant `Inv` for the EMPTY history with ANY capacities `cc, vc ≥ 1` of the output arrays. If every
stored value is finite and so is `b[q] + c[r]` wherever `crdB q = crdC r`, the first loop runs WITHOUT ERROR with
any fuel `≥ mb + mc + 1` and stops with cursors `pb ≤ mb`, `pc ≤ mc`, ONE OF THEM AT ITS END; the merge invariant
holds for these cursors and the loop invariant for a history `hist` with

  `hist ++ union (b from pb) (c from pc) = union b c`

(the invariant of the loop, at exit); and `iters + |union (b from pb) (c from pc)| = |union b c|`: every
iteration appended exactly one entry. -/
theorem spadd_first_loop {ofRat : Rat → F} {i : String} {outT bT cT : TensorId} {mb mc bvb cvb : Nat}
    {cellsB cellsC : Nat → F} {crdB crdC : Nat → Int} {cb0 vb0 : Nat} {σ0 : State F}
    (N : KNames i outT bT cT) (ho : isSp i outT = true) (hb : isSp i bT = true) (hc : isSp i cT = true)
    (pre : LoopPre bT cT mb mc bvb cvb cellsB cellsC cb0 vb0 σ0) (hsum : mb + mc ≤ 1073741824)
    (hfB : ∀ q, q < mb → FloatOps.finite (cellsB q) = true)
    (hfC : ∀ r, r < mc → FloatOps.finite (cellsC r) = true)
    (hfS : ∀ q r, q < mb → r < mc → crdB q = crdC r →
      FloatOps.finite (FloatOps.add (cellsB q) (cellsC r)) = true)
    (bcb ccb : Nat) (hblkB : bcb ≠ cb0 ∧ bcb ≠ vb0 ∧ bcb < σ0.heap.length)
    (hblkC : ccb ≠ cb0 ∧ ccb ≠ vb0 ∧ ccb < σ0.heap.length)
    (fuel : Nat) (σ : State F) (hfuel : mb + mc + 1 ≤ fuel)
    (hM : MergeInv σ [⟨inLeaf bT, bcb, crdB, 0, mb⟩, ⟨inLeaf cT, ccb, crdC, 0, mc⟩] i)
    (hP : ∃ cb cc vb vc, Inv i outT bT cT cb0 vb0 σ0 cb cc vb vc [] σ) :
    ∃ o pb pc hist, exec fuel (mergeLoopL [inLeaf bT, inLeaf cT] i [midStmt ofRat i outT bT cT]) σ = .ok o ∧
      o.ret = none ∧ pb ≤ mb ∧ pc ≤ mc ∧ (pb = mb ∨ pc = mc) ∧
      MergeInv o.st [⟨inLeaf bT, bcb, crdB, pb, mb⟩, ⟨inLeaf cT, ccb, crdC, pc, mc⟩] i ∧
      (∃ cb cc vb vc, Inv i outT bT cT cb0 vb0 σ0 cb cc vb vc hist o.st) ∧
      hist ++ union ((assoc mb crdB cellsB).drop pb) ((assoc mc crdC cellsC).drop pc) =
        union (assoc mb crdB cellsB) (assoc mc crdC cellsC) ∧
      o.iters + (union ((assoc mb crdB cellsB).drop pb) ((assoc mc crdC cellsC).drop pc)).length =
        (union (assoc mb crdB cellsB) (assoc mc crdC cellsC)).length :=
  loop1_runs N ho hb hc pre hsum hfB hfC hfS bcb ccb hblkB hblkC fuel σ hfuel hM hP

/-- **X3b (a tail loop appends the rest of its operand).** `t` is `b` or `c` (`m` stored entries `crdT`, `cellsT`,
all finite; `TailStep`: its body step, `Spadd.tailStep_b` / `Spadd.tailStep_c`). From a state satisfying the merge
invariant for the leaf of `t` with cursor `p0 ≤ m` and the loop invariant for a history `hist0`
(`|hist0| + (m - p0) ≤ 2^30`), the one-leaf loop runs without error with any fuel `≥ (m - p0) + 1`, performs
EXACTLY `m - p0` iterations (none when the operand is exhausted), leaves the cursor at `m`, and the loop invariant
holds for `hist0 ++ [(crdT p0, cellsT p0), …, (crdT (m-1), cellsT (m-1))]`; no variable other than the output's
(`midW`), `i`, `p_t`, `i_t` is changed. -/
theorem spadd_tail_loop {ofRat : Rat → F} {i : String} {outT bT cT : TensorId}
    {cb0 vb0 : Nat} {σ0 : State F} {t : TensorId} {m : Nat} {crdT : Nat → Int} {cellsT : Nat → F}
    (N : KNames i outT bT cT) (ht : t = bT ∨ t = cT)
    (hstep : TailStep ofRat i outT bT cT t m cellsT cb0 vb0 σ0)
    (hfin : ∀ q, q < m → FloatOps.finite (cellsT q) = true)
    (tcb : Nat) (hblk : tcb ≠ cb0 ∧ tcb ≠ vb0 ∧ tcb < σ0.heap.length)
    (p0 : Nat) (hp0 : p0 ≤ m) (hist0 : List (Int × F)) (hlen : hist0.length + (m - p0) ≤ 1073741824)
    (fuel : Nat) (σ : State F) (hfuel : (m - p0) + 1 ≤ fuel)
    (hM : MergeInv σ [⟨inLeaf t, tcb, crdT, p0, m⟩] i)
    (hI : ∃ cb cc vb vc, Inv i outT bT cT cb0 vb0 σ0 cb cc vb vc hist0 σ) :
    ∃ o, exec fuel (mergeLoopL [inLeaf t] i [tailStmt ofRat i outT t]) σ = .ok o ∧ o.ret = none ∧
      o.iters = m - p0 ∧ MergeInv o.st [⟨inLeaf t, tcb, crdT, m, m⟩] i ∧
      (∃ cb cc vb vc, Inv i outT bT cT cb0 vb0 σ0 cb cc vb vc (hist0 ++ (assoc m crdT cellsT).drop p0) o.st) ∧
      ∀ y, y ∉ midW outT → y ≠ i → y ≠ layerPointer t.id 0 → y ≠ valueFromCrd t.id 0 →
        lookupVar o.st.vars y = lookupVar σ.vars y :=
  tail_loop_runs N ht hstep hfin tcb hblk p0 hp0 hist0 hlen fuel σ hfuel hM hI

/-- **X3 (the three loops compute the union).** Same hypotheses as `spadd_first_loop`. The three loops `lower`
emits — the merge loop, the tail loop of `b`, the tail loop of `c` — run WITHOUT ERROR with any fuel
`≥ mb + mc + 1`, terminate after EXACTLY `|union b c| ≤ mb + mc` iterations in total (each iteration of each loop
appends one entry), and end with the loop invariant for the history

  `union (assoc mb crdB cellsB) (assoc mc crdC cellsC)`

— output cursor = its length, `a_crd[j]` / `a_vals[j]` = its `j`-th coordinate / value. By `spadd_union_spec`
that list is, for sorted inputs, the coordinates of `crd_b ∪ crd_c` in increasing order with the values
`b + c` / `b` / `c`. (Sortedness is not needed for the run itself.) At the exit of the first loop one operand is
exhausted; the tail loop of the other appends its rest; the remaining tail loop does nothing. -/
theorem spadd_loops_correct {ofRat : Rat → F} {i : String} {outT bT cT : TensorId} {mb mc bvb cvb : Nat}
    {cellsB cellsC : Nat → F} {crdB crdC : Nat → Int} {cb0 vb0 : Nat} {σ0 : State F}
    (N : KNames i outT bT cT) (ho : isSp i outT = true) (hb : isSp i bT = true) (hc : isSp i cT = true)
    (pre : LoopPre bT cT mb mc bvb cvb cellsB cellsC cb0 vb0 σ0) (hsum : mb + mc ≤ 1073741824)
    (hfB : ∀ q, q < mb → FloatOps.finite (cellsB q) = true)
    (hfC : ∀ r, r < mc → FloatOps.finite (cellsC r) = true)
    (hfS : ∀ q r, q < mb → r < mc → crdB q = crdC r →
      FloatOps.finite (FloatOps.add (cellsB q) (cellsC r)) = true)
    (bcb ccb : Nat) (hblkB : bcb ≠ cb0 ∧ bcb ≠ vb0 ∧ bcb < σ0.heap.length)
    (hblkC : ccb ≠ cb0 ∧ ccb ≠ vb0 ∧ ccb < σ0.heap.length)
    (fuel : Nat) (σ : State F) (hfuel : mb + mc + 1 ≤ fuel)
    (hM : MergeInv σ [⟨inLeaf bT, bcb, crdB, 0, mb⟩, ⟨inLeaf cT, ccb, crdC, 0, mc⟩] i)
    (hP : ∃ cb cc vb vc, Inv i outT bT cT cb0 vb0 σ0 cb cc vb vc [] σ) :
    ∃ o, execL fuel
        [mergeLoopL [inLeaf bT, inLeaf cT] i [midStmt ofRat i outT bT cT],
         mergeLoopL [inLeaf bT] i [tailStmt ofRat i outT bT],
         mergeLoopL [inLeaf cT] i [tailStmt ofRat i outT cT]] σ = .ok o ∧
      o.ret = none ∧ o.iters = (union (assoc mb crdB cellsB) (assoc mc crdC cellsC)).length ∧
      o.iters ≤ mb + mc ∧
      ∃ cb cc vb vc, Inv i outT bT cT cb0 vb0 σ0 cb cc vb vc
        (union (assoc mb crdB cellsB) (assoc mc crdC cellsC)) o.st := by
  obtain ⟨σ3, its, ⟨o, eo, ro, so, io⟩, h1, h2, h3⟩ := loops_run (ofRat := ofRat) N ho hb hc pre hsum hfB hfC hfS
    bcb ccb hblkB hblkC fuel σ hfuel hM hP
  subst so io
  exact ⟨o, eo, ro, h1, h2, h3⟩

/-! ### X4: the whole kernel -/

/-- **X4 (the generated `evaluate` kernel of `a(i) = b(i) + c(i)` is correct).** Let `out(i) = rhs` be an
assignment whose accesses all use the index `i` alone, `formats` a table of three compressed vectors (output
first, then `b`, then `c`), `outT` the output tensor as `generateIr` computes it, `bT`, `cT` the two input
occurrences, with the static side conditions `KernelOK` (index and tensor names without `'_'` and pairwise
different, different tensor ids). Let `cap` be ANY initial capacity parameter with `1 ≤ capVal cap < 2^31`, and
`σ` an initial machine state as the driver builds it (`Spmul.Init`): the variables are exactly the three tensor
parameters; the output record `ta` (contents `atr`) is output-owned, with a slot pair and `vals` holding pointers
or `NULL`; each input record's `pos` block is `[0, m]`, its `crd` block holds `crd 0 … crd (m-1)`, its `vals`
block `cells 0 … cells (m-1)`. Side conditions on the inputs: `mb + mc ≤ 2^30`, int32 coordinates, every stored
value finite, and `b[q] + c[r]` finite wherever the two operands store the same coordinate. (Strictly increasing
coordinates are NOT needed for the run; they make `union` the set-theoretic union: `spadd_union_spec`.)

Then the function `f` that `generateIr` produces runs on the machine with any fuel `≥ mb + mc + 1` WITHOUT ERROR,
**returns `0`** after exactly `|union b c| ≤ mb + mc` loop iterations, and in the final state, with
`H := union (assoc mb crdB cellsB) (assoc mc crdC cellsC)` and `r := |H|`:
* the output record (still output-owned, same order and dimensions block) has slot 0 = (`pos`, `crd`) and `vals`
  = the base addresses of three different FRESH blocks, live and output-owned;
* the `pos` block is exactly `[0, r]`; the `crd` block is exactly the `r` coordinates of `H` (exact length `r`);
  the `vals` block has exactly `r + 1` cells, the first `r` holding the values of `H` (`b + c`, `b` or `c`);
* every other tensor record and EVERY block of the initial heap (all inputs) is unchanged. -/
theorem spadd_kernel_correct (ofRat : Rat → F) (cap : Option Int) (a : Alg.DAssign) (formats : Formats)
    (i : String) (outT bT cT : TensorId)
    (hout : tensorId 0 a.tname formats a.tidx = some outT)
    (hcl : isClass i outT bT cT = true) (hf : sparseFormats formats = true)
    (hidx : a.tidx = [i]) (hrhs : Dense1.rhsIdx i a.rhs = true) (ok : KernelOK formats i outT bT cT)
    (hk0 : 1 ≤ capVal cap) (hk1 : capVal cap < 2147483648)
    (ta : Nat) (atr : TensorRec F) (n : Int)
    (tb : Nat) (btr : TensorRec F) (mb bpb bcb bvb : Nat) (crdB : Nat → Int) (cellsB : Nat → F)
    (tc : Nat) (ctr : TensorRec F) (mc cpb ccb cvb : Nat) (crdC : Nat → Int) (cellsC : Nat → F)
    (σ : State F)
    (init : Init outT bT cT ta atr n tb btr mb bpb bcb bvb crdB cellsB tc ctr mc cpb ccb cvb crdC cellsC σ)
    (hsum : mb + mc ≤ 1073741824)
    (hrngB : ∀ j, j < mb → -2147483648 ≤ crdB j ∧ crdB j < 2147483648)
    (hrngC : ∀ j, j < mc → -2147483648 ≤ crdC j ∧ crdC j < 2147483648)
    (hfB : ∀ q, q < mb → FloatOps.finite (cellsB q) = true)
    (hfC : ∀ r, r < mc → FloatOps.finite (cellsC r) = true)
    (hfS : ∀ q r, q < mb → r < mc → crdB q = crdC r →
      FloatOps.finite (FloatOps.add (cellsB q) (cellsC r)) = true)
    (f : Func F) (hgen : generateIr ofRat cap a formats (graph i outT bT cT) .evaluate = .ok f)
    (fuel : Nat) (hfuel : mb + mc + 1 ≤ fuel) :
    ∃ o, exec fuel f.body σ = .ok o ∧ o.ret = some (.int 0) ∧ o.iters ≤ mb + mc ∧
      o.iters = (union (assoc mb crdB cellsB) (assoc mc crdC cellsC)).length ∧
      (∃ tr' pF cF vF vblk, o.st.tensors[ta]? = some tr' ∧ tr'.owner = .output ∧ tr'.order = atr.order ∧
        tr'.dimsBlk = atr.dimsBlk ∧ tr'.slots = atr.slots.set 0 (some (.ptr pF 0, .ptr cF 0)) ∧
        tr'.vals = .ptr vF 0 ∧
        σ.heap.length ≤ pF ∧ σ.heap.length ≤ cF ∧ σ.heap.length ≤ vF ∧ pF ≠ cF ∧ pF ≠ vF ∧ cF ≠ vF ∧
        o.st.heap[pF]? = some ⟨.int, [some (.int 0), some (.int
          (union (assoc mb crdB cellsB) (assoc mc crdC cellsC)).length)], .output, true⟩ ∧
        o.st.heap[cF]? = some ⟨.int, (union (assoc mb crdB cellsB) (assoc mc crdC cellsC)).map
          (fun p => some (.int p.1)), .output, true⟩ ∧
        o.st.heap[vF]? = some vblk ∧ vblk.live = true ∧ vblk.owner = .output ∧ vblk.ty = .float ∧
        vblk.cells.length = (union (assoc mb crdB cellsB) (assoc mc crdC cellsC)).length + 1 ∧
        ∀ j (h : j < (union (assoc mb crdB cellsB) (assoc mc crdC cellsC)).length),
          vblk.cells[j]? = some (some (.flt (union (assoc mb crdB cellsB) (assoc mc crdC cellsC))[j].2))) ∧
      (∀ k, k ≠ ta → o.st.tensors[k]? = σ.tensors[k]?) ∧
      o.st.tensors.length = σ.tensors.length ∧
      (∀ k, k < σ.heap.length → o.st.heap[k]? = σ.heap[k]?) := by
  rw [spadd_generateIr_eq ofRat cap a formats i outT bT cT hout hcl hf hidx hrhs] at hgen
  cases hgen
  obtain ⟨o, eo, hret, hit1, hit2, hp⟩ := kernel_runs ofRat cap formats i outT bT cT hcl ok hk0 hk1 init hsum
    hrngB hrngC hfB hfC hfS fuel hfuel
  exact ⟨o, eo, hret, hit1, hit2, hp.outRec, hp.otherRecs, hp.tlen, hp.heap⟩

/-- **X4, corollary: the result is well-formed** (C02). If the coordinates of both inputs are strictly
increasing and lie within the dimension `d`, the structure the output record describes — `pos = [0, r]`, `crd` =
the coordinates of `union b c`, one value per coordinate — passes `Storage.wfCheck` (positions consistent,
coordinates strictly increasing and in range), whatever the values. -/
theorem spadd_result_wf {mb mc : Nat} {crdB crdC : Nat → Int} (cellsB cellsC : Nat → F) (d : Nat)
    (hsB : ∀ j k, j < k → k < mb → crdB j < crdB k) (hsC : ∀ j k, j < k → k < mc → crdC j < crdC k)
    (hrB : ∀ j, j < mb → 0 ≤ crdB j ∧ crdB j < d) (hrC : ∀ j, j < mc → 0 ≤ crdC j ∧ crdC j < d)
    (vs : List Int) (hv : vs.length = (union (assoc mb crdB cellsB) (assoc mc crdC cellsC)).length) :
    Storage.wfCheck (storedVec d ((union (assoc mb crdB cellsB) (assoc mc crdC cellsC)).map (·.1)) vs) =
      true ∧
    (storedVec d ((union (assoc mb crdB cellsB) (assoc mc crdC cellsC)).map (·.1)) vs).levels =
      [⟨.compressed, [0, ((union (assoc mb crdB cellsB) (assoc mc crdC cellsC)).length : Int)],
        (union (assoc mb crdB cellsB) (assoc mc crdC cellsC)).map (·.1)⟩] :=
  ⟨wfCheck_union cellsB cellsC d hsB hsC hrB hrC vs hv, by simp [storedVec]⟩

/-- **X4, corollary: no phantom coordinate, and none missing** (C03). A coordinate is stored in the output IFF
at least one input stores it. (No sortedness hypothesis: true of the two-finger function on any inputs.) -/
theorem spadd_no_phantom_complete {mb mc : Nat} {crdB crdC : Nat → Int} (cellsB cellsC : Nat → F) (x : Int) :
    x ∈ (union (assoc mb crdB cellsB) (assoc mc crdC cellsC)).map (·.1) ↔
      (∃ q, q < mb ∧ crdB q = x) ∨ (∃ r, r < mc ∧ crdC r = x) :=
  coord_mem_union_iff cellsB cellsC x

/-! ### X5: the exact carrier and the source assignment -/

/-- **X5a (the meaning of the stored result).** Over the exact carrier `Rat`, for strictly increasing inputs,
the dense reading of the output `H = union b c` (`vecAt H x`: the stored value at coordinate `x`, `0` where
nothing is stored) equals C01's specification `Alg.denote` of the SOURCE assignment `a(i) = b(i) + c(i)` at every
coordinate `x`, for every valuation `inputs` that reads `b` and `c` as the dense readings of the two stored
inputs: value at `x` = `b[x] + c[x]`. -/
theorem spadd_denote {mb mc : Nat} {crdB crdC : Nat → Int} (cellsB cellsC : Nat → Rat)
    (hsB : ∀ j k, j < k → k < mb → crdB j < crdB k) (hsC : ∀ j k, j < k → k < mc → crdC j < crdC k)
    (an bn cn i : String) (inputs : Alg.Inputs) (sizes : Alg.Sizes)
    (hinB : ∀ x : Nat, inputs bn [x] = vecAt (assoc mb crdB cellsB) x)
    (hinC : ∀ x : Nat, inputs cn [x] = vecAt (assoc mc crdC cellsC) x) (x : Nat) :
    vecAt (union (assoc mb crdB cellsB) (assoc mc crdC cellsC)) x =
      Alg.denote ⟨an, [i], .add (.tensor bn [i]) (.tensor cn [i])⟩ inputs sizes [x] := by
  rw [denote_add, hinB, hinC]
  exact vecAt_union_rat _ _ (Spmul.assoc_sorted cellsB hsB) (Spmul.assoc_sorted cellsC hsC) x

/-- **X5 (exact instance, from the source assignment).** Over the exact carrier `Rat` (every value finite, exact
arithmetic, literals through `id`), for the kernel generated from the DESUGARED source assignment
`an(i) = bn(i) + cn(i)`: no finiteness hypothesis is left; the kernel returns `0`, the output's `crd` block holds
exactly the coordinates of `H = union b c` and cell `j` of its `vals` block the `j`-th value of `H`; and for
strictly increasing inputs the dense reading of `H` is `Alg.denote` of the source assignment at every coordinate
(`b[x] + c[x]`, absent = `0`). -/
theorem spadd_kernel_exact (cap : Option Int) (an bn cn : String) (formats : Formats)
    (i : String) (outT bT cT : TensorId)
    (hout : tensorId 0 an formats [i] = some outT)
    (hcl : isClass i outT bT cT = true) (hf : sparseFormats formats = true)
    (ok : KernelOK formats i outT bT cT)
    (hk0 : 1 ≤ capVal cap) (hk1 : capVal cap < 2147483648)
    (ta : Nat) (atr : TensorRec Rat) (n : Int)
    (tb : Nat) (btr : TensorRec Rat) (mb bpb bcb bvb : Nat) (crdB : Nat → Int) (cellsB : Nat → Rat)
    (tc : Nat) (ctr : TensorRec Rat) (mc cpb ccb cvb : Nat) (crdC : Nat → Int) (cellsC : Nat → Rat)
    (σ : State Rat)
    (init : Init outT bT cT ta atr n tb btr mb bpb bcb bvb crdB cellsB tc ctr mc cpb ccb cvb crdC cellsC σ)
    (hsum : mb + mc ≤ 1073741824)
    (hrngB : ∀ j, j < mb → -2147483648 ≤ crdB j ∧ crdB j < 2147483648)
    (hrngC : ∀ j, j < mc → -2147483648 ≤ crdC j ∧ crdC j < 2147483648)
    (hsB : ∀ j k, j < k → k < mb → crdB j < crdB k) (hsC : ∀ j k, j < k → k < mc → crdC j < crdC k)
    (f : Func Rat)
    (hgen : generateIr id cap (Alg.desugar ⟨an, [i], .add (.tensor bn [i]) (.tensor cn [i])⟩) formats
      (graph i outT bT cT) .evaluate = .ok f)
    (inputs : Alg.Inputs) (sizes : Alg.Sizes)
    (hinB : ∀ x : Nat, inputs bn [x] = vecAt (assoc mb crdB cellsB) x)
    (hinC : ∀ x : Nat, inputs cn [x] = vecAt (assoc mc crdC cellsC) x)
    (fuel : Nat) (hfuel : mb + mc + 1 ≤ fuel) :
    ∃ o H, H = union (assoc mb crdB cellsB) (assoc mc crdC cellsC) ∧
      exec fuel f.body σ = .ok o ∧ o.ret = some (.int 0) ∧ o.iters = H.length ∧ o.iters ≤ mb + mc ∧
      (∃ tr' pF cF vF vblk, o.st.tensors[ta]? = some tr' ∧
        tr'.slots = atr.slots.set 0 (some (.ptr pF 0, .ptr cF 0)) ∧ tr'.vals = .ptr vF 0 ∧
        o.st.heap[pF]? = some ⟨.int, [some (.int 0), some (.int H.length)], .output, true⟩ ∧
        o.st.heap[cF]? = some ⟨.int, H.map (fun p => some (.int p.1)), .output, true⟩ ∧
        o.st.heap[vF]? = some vblk ∧ vblk.live = true ∧ vblk.cells.length = H.length + 1 ∧
        ∀ j (h : j < H.length), vblk.cells[j]? = some (some (.flt H[j].2))) ∧
      ∀ x : Nat, vecAt H x =
        Alg.denote ⟨an, [i], .add (.tensor bn [i]) (.tensor cn [i])⟩ inputs sizes [x] := by
  rw [desugar_add] at hgen
  obtain ⟨o, eo, hret, hit, hit2, ⟨tr', pF, cF, vF, vblk, h1, _, _, _, h5, h6, _, _, _, _, _, _, h13, h14, h15, h16,
    _, _, h19, h20⟩, _⟩ :=
    spadd_kernel_correct id cap ⟨an, [i], .add (.tensor 1 bn [i]) (.tensor 2 cn [i])⟩ formats i outT bT cT hout
      hcl hf rfl (by simp [Dense1.rhsIdx]) ok hk0 hk1 ta atr n tb btr mb bpb bcb bvb crdB cellsB tc ctr mc cpb
      ccb cvb crdC cellsC σ init hsum hrngB hrngC (fun _ _ => rfl) (fun _ _ => rfl) (fun _ _ _ _ _ => rfl)
      f hgen fuel hfuel
  exact ⟨o, _, rfl, eo, hret, hit2, hit, ⟨tr', pF, cF, vF, vblk, h1, h5, h6, h13, h14, h15, h16, h19, h20⟩,
    spadd_denote cellsB cellsC hsB hsC an bn cn i inputs sizes hinB hinC⟩

/-! ### non-vacuity: `b = {0:1, 2:2, 5:3}`, `c = {2:10, 3:20}`, dimension 6, initial capacity 1 -/

open TV.Spmul (exFormats exOut exB exC exCrdB exCellsB exKernelOK exSortedB exRangeB exCells3 exOfRat)

def exSrc : Alg.Assign := ⟨"a", ["i"], .add (.tensor "b" ["i"]) (.tensor "c" ["i"])⟩
def exAssign : Alg.DAssign := ⟨"a", ["i"], .add (.tensor 1 "b" ["i"]) (.tensor 2 "c" ["i"])⟩
def exCrdC : Nat → Int := fun j => [2, 3].getD j 0
def exCellsC {F : Type} (c : Int → F) : Nat → F := fun j => [c 10, c 20].getD j (c 0)

/-- generic in the carrier: the state the driver builds for the output `a` (dimension 6, empty),
`b = {0: c 1, 2: c 2, 5: c 3}` and `c = {2: c 10, 3: c 20}` -/
def exStateOf {F : Type} (c : Int → F) : State F :=
  { vars := [⟨"a", .ptr .tensor, some (.tensor 0)⟩, ⟨"b", .ptr .tensor, some (.tensor 1)⟩,
             ⟨"c", .ptr .tensor, some (.tensor 2)⟩],
    heap := [⟨.int, [some (.int 6)], .output, true⟩,
             ⟨.int, [some (.int 6)], .input, true⟩,
             ⟨.int, [some (.int 0), some (.int 3)], .input, true⟩,
             ⟨.int, [some (.int 0), some (.int 2), some (.int 5)], .input, true⟩,
             ⟨.float, [some (.flt (c 1)), some (.flt (c 2)), some (.flt (c 3))], .input, true⟩,
             ⟨.int, [some (.int 6)], .input, true⟩,
             ⟨.int, [some (.int 0), some (.int 2)], .input, true⟩,
             ⟨.int, [some (.int 2), some (.int 3)], .input, true⟩,
             ⟨.float, [some (.flt (c 10)), some (.flt (c 20))], .input, true⟩],
    tensors := [⟨1, 0, [some (.null, .null)], .null, .output⟩,
                ⟨1, 1, [some (.ptr 2 0, .ptr 3 0)], .ptr 4 0, .input⟩,
                ⟨1, 5, [some (.ptr 6 0, .ptr 7 0)], .ptr 8 0, .input⟩] }

/-- **X1, closed instance**: the source assignment desugars to `exAssign`, and the graph of the class is the
one the front half (`bestAlgorithm`) chooses for it -/
theorem spadd_bestAlgorithm :
    Alg.desugar exSrc = exAssign ∧
    bestAlgorithm exAssign exFormats = .graph (graph "i" exOut exB exC) := by
  refine ⟨by decide, ?_⟩
  have h : toIterationGraphs exAssign exFormats = .ok [graph "i" exOut exB exC] := by rfl
  simp only [bestAlgorithm, h]

/-- the instance is in the class -/
example : isClass "i" exOut exB exC = true := by decide

theorem exInitOf {F : Type} [FloatOps F] (c : Int → F) :
    Init exOut exB exC 0 ⟨1, 0, [some (.null, .null)], .null, .output⟩ 6
      1 ⟨1, 1, [some (.ptr 2 0, .ptr 3 0)], .ptr 4 0, .input⟩ 3 2 3 4 exCrdB (exCellsB c)
      2 ⟨1, 5, [some (.ptr 6 0, .ptr 7 0)], .ptr 8 0, .input⟩ 2 6 7 8 exCrdC (exCellsC c) (exStateOf c) := by
  refine
    { avar := ⟨_, rfl, rfl, rfl⟩, fresh := ?_, arec := rfl, aown := rfl,
      aord := Nat.zero_lt_one, aslot := ⟨_, _, rfl, rfl, rfl⟩, avals := rfl,
      adim := ⟨_, rfl, rfl, rfl, rfl⟩, n32 := by decide,
      b := { var := ⟨_, rfl, rfl, rfl⟩, hrec := rfl, ord := Nat.zero_lt_one, slot := rfl, vals := rfl,
             pos := ⟨_, rfl, rfl, rfl, rfl, rfl⟩, crd := ⟨_, rfl, rfl, rfl, Nat.le_refl _, ?_⟩,
             val := ⟨_, rfl, rfl, rfl, ?_⟩ },
      c := { var := ⟨_, rfl, rfl, rfl⟩, hrec := rfl, ord := Nat.zero_lt_one, slot := rfl, vals := rfl,
             pos := ⟨_, rfl, rfl, rfl, rfl, rfl⟩, crd := ⟨_, rfl, rfl, rfl, Nat.le_refl _, ?_⟩,
             val := ⟨_, rfl, rfl, rfl, ?_⟩ } }
  · intro x h1 h2 h3
    have e1 : ("a" == x) = false := beq_eq_false_iff_ne.2 (Ne.symm h1)
    have e2 : ("b" == x) = false := beq_eq_false_iff_ne.2 (Ne.symm h2)
    have e3 : ("c" == x) = false := beq_eq_false_iff_ne.2 (Ne.symm h3)
    simp [lookupVar, exStateOf, List.find?, e1, e2, e3]
  · intro j hj
    match j, hj with
    | 0, _ => rfl
    | 1, _ => rfl
    | 2, _ => rfl
  · intro j hj; exact exCells3 _ _ _ _ j hj
  · intro j hj
    match j, hj with
    | 0, _ => rfl
    | 1, _ => rfl
  · intro j hj
    match j, hj with
    | 0, _ => rfl
    | 1, _ => rfl

theorem exSortedC : ∀ j k, j < k → k < 2 → exCrdC j < exCrdC k := by
  intro j k h1 h2
  have h : j = 0 ∧ k = 1 := by omega
  obtain ⟨rfl, rfl⟩ := h
  decide

theorem exRangeC : ∀ j, j < 2 → -2147483648 ≤ exCrdC j ∧ exCrdC j < 2147483648 := by
  intro j hj
  match j, hj with
  | 0, _ => decide
  | 1, _ => decide

/-- the reference on the instance: `{0:1, 2:2, 5:3} ∪ {2:10, 3:20} = {0:1, 2:12, 3:20, 5:3}` -/
theorem exUnion :
    union (assoc 3 exCrdB (exCellsB (F := Int) id)) (assoc 2 exCrdC (exCellsC (F := Int) id)) =
      [(0, 1), (2, 12), (3, 20), (5, 3)] := by decide

/-- the first loop takes `i = 0, 2, 3` (three iterations: only `b`, both, only `c`) and exhausts `c` -/
theorem exTrace :
    mergeTrace [⟨inLeaf exB, 3, exCrdB, 0, 3⟩, ⟨inLeaf exC, 7, exCrdC, 0, 2⟩] = [0, 2, 3] ∧
    (mergeFinal [⟨inLeaf exB, 3, exCrdB, 0, 3⟩, ⟨inLeaf exC, 7, exCrdC, 0, 2⟩]).map Cur.p = [2, 2] := by
  decide

/-- **X4 is not vacuous** (over `Int`, initial capacity 1 — both `crd` and `vals` are reallocated, twice): every
hypothesis holds on the instance, `generateIr` produces the kernel, and the run returns `0` after 4 iterations
(3 in the merge loop, 1 in the tail loop of `b`, 0 in the tail loop of `c`) and leaves `pos = [0, 4]`,
`crd = [0, 2, 3, 5]`, `vals = [1, 12, 20, 3, ·]` in fresh blocks the output record points to; the inputs are
untouched. -/
theorem spadd_example : ∃ f o,
    generateIr exOfRat (some 1) exAssign exFormats (graph "i" exOut exB exC) .evaluate = .ok f ∧
    exec 6 f.body (exStateOf (F := Int) id) = .ok o ∧ o.ret = some (.int 0) ∧ o.iters = 4 ∧
    (∃ tr' pF cF vF vblk, o.st.tensors[0]? = some tr' ∧
      tr'.slots = [some (.ptr pF 0, .ptr cF 0)] ∧ tr'.vals = .ptr vF 0 ∧
      o.st.heap[pF]? = some ⟨.int, [some (.int 0), some (.int 4)], .output, true⟩ ∧
      o.st.heap[cF]? = some ⟨.int, [some (.int 0), some (.int 2), some (.int 3), some (.int 5)], .output, true⟩ ∧
      o.st.heap[vF]? = some vblk ∧ vblk.live = true ∧ vblk.cells.length = 5 ∧
      vblk.cells[0]? = some (some (.flt 1)) ∧ vblk.cells[1]? = some (some (.flt 12)) ∧
      vblk.cells[2]? = some (some (.flt 20)) ∧ vblk.cells[3]? = some (some (.flt 3))) ∧
    (∀ k, k < 9 → o.st.heap[k]? = (exStateOf (F := Int) id).heap[k]?) := by
  have hgen := spadd_generateIr_eq exOfRat (some 1) exAssign exFormats "i" exOut exB exC (by decide)
    (by decide) (by decide) rfl (by decide)
  obtain ⟨o, eo, hret, _, hit, ⟨tr', pF, cF, vF, vblk, h1, _, _, _, h5, h6, _, _, _, _, _, _, h13, h14, h15, h16, _,
    _, h19, h20⟩, _, _, hheap⟩ :=
    spadd_kernel_correct exOfRat (some 1) exAssign exFormats "i" exOut exB exC (by decide) (by decide)
      (by decide) rfl (by decide) exKernelOK (by decide) (by decide) 0 _ 6 1 _ 3 2 3 4 exCrdB
      (exCellsB (F := Int) id) 2 _ 2 6 7 8 exCrdC (exCellsC (F := Int) id) _ (exInitOf (F := Int) id)
      (by decide) exRangeB exRangeC (fun _ _ => rfl) (fun _ _ => rfl) (fun _ _ _ _ _ => rfl) _ hgen 6
      (by decide)
  rw [exUnion] at hit h13 h14 h19 h20
  exact ⟨_, o, hgen, eo, hret, hit, ⟨tr', pF, cF, vF, vblk, h1, h5, h6, h13, h14, h15, h16, h19,
    h20 0 (by decide), h20 1 (by decide), h20 2 (by decide), h20 3 (by decide)⟩, hheap⟩

/-- the result of the instance is a well-formed compressed vector of dimension 6 and it decodes to
`{0: 1, 2: 12, 3: 20, 5: 3}` -/
example : Storage.wfCheck (storedVec 6 [0, 2, 3, 5] [1, 12, 20, 3]) = true ∧
    Storage.decode (storedVec 6 [0, 2, 3, 5] [1, 12, 20, 3]) = some [([0], 1), ([2], 12), ([3], 20), ([5], 3)] := by
  decide

/-- `spadd_result_wf` / `spadd_union_spec` are not vacuous: the instance is sorted and in range -/
example : Storage.wfCheck (storedVec 6 ((union (assoc 3 exCrdB (exCellsB (F := Int) id))
    (assoc 2 exCrdC (exCellsC (F := Int) id))).map (·.1)) [1, 12, 20, 3]) = true :=
  (spadd_result_wf (exCellsB (F := Int) id) (exCellsC (F := Int) id) 6 exSortedB exSortedC (by
    intro j hj
    match j, hj with
    | 0, _ => decide
    | 1, _ => decide
    | 2, _ => decide) (by
    intro j hj
    match j, hj with
    | 0, _ => decide
    | 1, _ => decide) [1, 12, 20, 3] (by rw [exUnion]; rfl)).1

/-- `spadd_union_spec` / `spadd_no_phantom_complete` on the instance: the stored coordinates are `0, 2, 3, 5` —
those of `b` (`0, 2, 5`) or of `c` (`2, 3`) — and the three kinds of entries all occur: `(0, 1)` and `(5, 3)` from
`b` alone, `(2, 12) = (2, 2 + 10)` from both, `(3, 20)` from `c` alone -/
example : (union (assoc 3 exCrdB (exCellsB (F := Int) id)) (assoc 2 exCrdC (exCellsC (F := Int) id))).map (·.1) =
      [0, 2, 3, 5] ∧
    ((2 : Int), (12 : Int)) ∈ union (assoc 3 exCrdB (exCellsB (F := Int) id)) (assoc 2 exCrdC (exCellsC (F := Int) id)) ∧
    ∃ q r, q < 3 ∧ r < 2 ∧ exCrdB q = 2 ∧ exCrdC r = 2 ∧
      (12 : Int) = FloatOps.add (exCellsB (F := Int) id q) (exCellsC (F := Int) id r) := by
  refine ⟨by rw [exUnion]; rfl, by rw [exUnion]; decide, ?_⟩
  have h := (spadd_union_spec (exCellsB (F := Int) id) (exCellsC (F := Int) id) exSortedB exSortedC).2.2.2.2 2 12
  rcases h.1 (by rw [exUnion]; decide) with h | ⟨q, hq, e, _, hn⟩ | ⟨r, hr, e, _, hn⟩
  · exact h
  · exact absurd (show exCrdC 0 = 2 by decide) (hn 0 (by decide))
  · exact absurd (show exCrdB 1 = 2 by decide) (hn 1 (by decide))

/-- **X5 is not vacuous**: the same instance over the exact carrier `Rat`, default initial capacity, kernel
generated from the desugared SOURCE assignment; the stored result is `{0: 1, 2: 12, 3: 20, 5: 3}` and its dense
reading is `Alg.denote` of `a(i) = b(i) + c(i)` for the inputs read off the stored operands -/
theorem spadd_example_exact : ∃ (f : Func Rat) (o : Out Rat) (H : List (Int × Rat)),
    generateIr (F := Rat) id none (Alg.desugar exSrc) exFormats (graph "i" exOut exB exC) .evaluate = .ok f ∧
    exec 6 f.body (exStateOf (fun z => (z : Rat))) = .ok o ∧ o.ret = some (.int 0) ∧ o.iters = 4 ∧
    H = [(0, 1), (2, 12), (3, 20), (5, 3)] ∧
    (∃ (cF : Nat), o.st.heap[cF]? = some ⟨.int, H.map (fun p => some (.int p.1)), .output, true⟩) ∧
    ∀ x : Nat, vecAt H x = Alg.denote exSrc
      (fun nm co => if nm = "b" then vecAt (assoc 3 exCrdB (exCellsB (fun z => (z : Rat)))) (co.headD 0)
        else vecAt (assoc 2 exCrdC (exCellsC (fun z => (z : Rat)))) (co.headD 0)) (fun _ => 6) [x] := by
  have hgen : generateIr (F := Rat) id none (Alg.desugar exSrc) exFormats (graph "i" exOut exB exC) .evaluate =
      .ok (kernel id none exFormats "i" exOut exB exC) := by
    rw [spadd_bestAlgorithm.1]
    exact spadd_generateIr_eq (F := Rat) id none exAssign exFormats "i" exOut exB exC (by decide)
      (by decide) (by decide) rfl (by decide)
  obtain ⟨o, H, hH, eo, hret, hit, _, ⟨tr', pF, cF, vF, vblk, _, _, _, _, h14, _⟩, hden⟩ :=
    spadd_kernel_exact none "a" "b" "c" exFormats "i" exOut exB exC (by decide) (by decide) (by decide)
      exKernelOK (by decide) (by decide) 0 _ 6 1 _ 3 2 3 4 exCrdB (exCellsB (fun z => (z : Rat))) 2 _ 2 6 7 8
      exCrdC (exCellsC (fun z => (z : Rat))) _ (exInitOf (fun z => (z : Rat))) (by decide) exRangeB
      exRangeC exSortedB exSortedC _ hgen
      (fun nm co => if nm = "b" then vecAt (assoc 3 exCrdB (exCellsB (fun z => (z : Rat)))) (co.headD 0)
        else vecAt (assoc 2 exCrdC (exCellsC (fun z => (z : Rat)))) (co.headD 0)) (fun _ => 6)
      (fun x => by simp) (fun x => by simp) 6 (by decide)
  have hHv : H = [(0, 1), (2, 12), (3, 20), (5, 3)] := by
    rw [hH]
    simp [assoc, List.range, List.range.loop, exCrdB, exCrdC, exCellsB, exCellsC, union, unionAux,
      FloatOps.add]
    grind
  rw [hHv] at hit
  exact ⟨_, o, H, hgen, eo, hret, hit, hHv, ⟨cF, h14⟩, hden⟩

end TV.Spadd
