import TensoraVerif.Lemmas.Sparse1Exact
import TensoraVerif.Lemmas.Dense1Exact
import TensoraVerif.Model.FloatLaws

/-!
# C01 / C02 / C03 / C05, end to end, for a SPARSE kernel: sparse vector copy / scale

The first end-to-end theorem for a kernel with a compressed output: assignments `a(i) = e` where `a` is an
order-1 tensor stored compressed (`s`) and `e` mentions exactly one tensor occurrence `b(i)`, stored
compressed, in such a way that the loop over `i` is sparse (`a(i) = b(i)`, `a(i) = 2 * b(i)`,
`a(i) = b(i) * 2.5`, …; class `Sparse1.isExpr`). The iteration graph is
`Sparse1.graph i outT e = .iter i (some ⟨outT, 0⟩) (.terminal e)`.

The chain: `Gen.generateIr` / `Gen.lower` produce the `evaluate` function (written out: `Sparse1.kernel`,
`Sparse1.loopLines`); `IR.exec` (the monitored machine: checked loads and stores, checked 32-bit integers,
finite floats, fuel) runs it from an initial state as the driver builds it (`Sparse1.Init`).
The proof is composed from the building blocks: the merge-loop skeleton (`merge_loop_safe_ghost`,
`writeSparseInit_safe`: C05Merge), the growth fragments (`writePosAllocation_nodense_safe`,
`crdAssembly_runs`, `writePosAssembly_safe`: C05Growth), the terminal block (`terminal_append_sound`:
C01Terminal) and the primitives of the cleanup (C02Cleanup).

* `sparse1_lower_eq`, `sparse1_generateIr_eq` — what the pass emits on the class, written out.
* (a) `sparse1_body_step` — the loop body step: one stored coordinate.
* (b) `sparse1_loop_correct` — the whole loop: exactly `m` iterations, invariant for the full history.
* **S1** `sparse1_kernel_correct` — the whole `evaluate` function: returns `0`, `m` iterations, output record
  = (`pos = [0, m]`, `crd` = `b`'s coordinates, `vals` = the `m` values + one scratch cell), every block
  live, output-owned, of the exact length; inputs unchanged. `sparse1_result_wf`: the result is well-formed
  (`Storage.wfCheck`) and stores exactly `b`'s coordinates (no phantom coordinate: C03).
* **S2** `sparse1_kernel_exact` — over `Rat` the values are `Graph.value`.
* non-vacuity: `b = {1: 2.0, 3: 5.0}`, dimension 5, initial capacity 1 (both arrays grow), `a(i) = 2 * b(i)`:
  `crd = [1, 3]`, `vals = [4, 10, ·]`.
* `sparse1_cleanPre_valsLen_fails` — why `appendCleanup_safe` (C02Cleanup) could not be used as it is.

Vocabulary: `Lemmas/Sparse1Model.lean` (class, emitted loop), `Sparse1Generate.lean` (emitted kernel),
`Sparse1Names.lean` (`KNames`), `Sparse1Body.lean` (`LoopPre`, `Inv`), `Sparse1Prologue.lean` (`Init`),
`Sparse1Kernel.lean` (`KernelOK`); `capVal cap` is the value of `default_array_size` (`k` for `some k`,
`2^20` for `none`).
-/
namespace TV.Sparse1
open TV.IR TV.Gen TV.Graph TV.Growth TV.Merge

variable {F : Type} [FloatOps F]

/-! ### what the pass emits -/

/-- **The lowered iteration block.** For every graph of the class, `lower` (any fuel `≥ 2`) succeeds and
returns `int p_b = b_pos[0]; int p_b_end = b_pos[0 + 1]; while (true && p_b < p_b_end) { int i_b = b_crd[p_b];
int i = i_b; if (true && i_b == i) { <vals allocation> bool written = false; { written = true;
a_vals[p_a] = <e>; } if (written) { <crd assembly> p_a = p_a + 1; } } p_b = p_b + (int)(i_b == i); }
<pos assembly>` (`loopLines`; the loop is literally C05's skeleton `mergeLoopL [b] i [midStmt …]`). -/
theorem sparse1_lower_eq (ofRat : Rat → F) (k : Nat) (i : String) (outT bT : TensorId) (e : IdExpr)
    (ho : isSp i outT = true) (he : isExpr i bT e = true) :
    lower ofRat (k + 2) (graph i outT e) (.append outT 0) .evaluate =
      .ok ⟨some ("*** Iteration over " ++ i ++ " ***"), loopLines ofRat i outT bT e⟩ :=
  lower_eq ofRat k i outT bT e ho he

/-- **The generated kernel.** For an assignment `out(i) = rhs` whose accesses all use the index `i` alone, a
format table of compressed vectors and the graph of the class, `generateIr` succeeds and returns exactly
`Sparse1.kernel` (extract `i_dim`, unpack `pos`/`crd`/`vals` of every tensor, output initialisation with
initial capacity `cap`, the iteration block, the cleanup reallocs and the hand-over, `return 0`). -/
theorem sparse1_generateIr_eq (ofRat : Rat → F) (cap : Option Int) (a : Alg.DAssign) (formats : Formats)
    (i : String) (outT bT : TensorId) (e : IdExpr)
    (hout : tensorId 0 a.tname formats a.tidx = some outT)
    (ho : isSp i outT = true) (he : isExpr i bT e = true) (hf : sparseFormats formats = true)
    (hidx : a.tidx = [i]) (hrhs : Dense1.rhsIdx i a.rhs = true) :
    generateIr ofRat cap a formats (graph i outT e) .evaluate =
      .ok (kernel ofRat cap formats i outT bT e) :=
  generateIr_eq ofRat cap a formats i outT bT e hout (Dense1.tensorId_name hout) ho he hf
    (Dense1.indexDimensions_eq a i hidx hrhs)

/-! ### (a) the loop body step -/

/-- **(a) One stored coordinate.** Let the state `σ` satisfy the loop invariant `Inv` after the history `tr`,
`|tr| < m` (output cursor `|tr|`; `crd`/`vals` arrays of the output: array invariant with capacities `cc`,
`vc ≥ |tr|`, cells `j < |tr|` = `tr[j]` / `⟦e⟧(b at tr[j])`; everything else as at loop entry), the input
cursor hold a position `q < m`, and `i_b`, `i` hold the int32 coordinate `crdB q`. Then the statement `lower`
puts between the `min` and the cursor increments — `if (i_b == i) { vals allocation check; written = false;
terminal block; if (written) { crd assembly; p_a++ } }` — runs without error for every fuel and
re-establishes the invariant for `tr ++ [crdB q]` (cursor, `crd`, `vals` advanced by one — after growing,
"however small they started"); it writes only the variables `midW` and, of the old heap, only the two output
arrays. -/
theorem sparse1_body_step {ofRat : Rat → F} {i : String} {outT bT : TensorId} {e : IdExpr} {m bvb : Nat}
    {cellsB : Nat → F} {crdB : Nat → Int} {bAt : Int → F} {cb0 vb0 : Nat} {σ0 : State F}
    (N : KNames i outT bT) (ho : isSp i outT = true) (he : isExpr i bT e = true)
    (pre : LoopPre ofRat bT e m bvb cellsB crdB bAt cb0 vb0 σ0)
    (fuel : Nat) (σ : State F) (tr : List Int) (cb : Nat) (cc : Int) (vb : Nat) (vc : Int) (q : Nat)
    (hq : q < m) (htr : tr.length < m)
    (hinv : Inv ofRat i outT bT e bAt cb0 vb0 σ0 cb cc vb vc tr σ)
    (hpB : IntVar σ (layerPointer bT.id 0) q)
    (hvB : IntVar σ (valueFromCrd bT.id 0) (crdB q)) (hi : IntVar σ i (crdB q))
    (hr0 : -2147483648 ≤ crdB q) (hr1 : crdB q < 2147483648) :
    ∃ σ' cb' cc' vb' vc', RunsL fuel [midStmt ofRat i outT bT e] σ σ' ∧
      Inv ofRat i outT bT e bAt cb0 vb0 σ0 cb' cc' vb' vc' (tr ++ [crdB q]) σ' ∧
      (∀ y, y ∉ midW outT → lookupVar σ'.vars y = lookupVar σ.vars y) ∧
      (∀ k blk, k ≠ cb → k ≠ vb → σ.heap[k]? = some blk → σ'.heap[k]? = some blk) :=
  mid_step N ho he pre fuel σ tr cb cc vb vc q hq htr hinv hpB hvB hi hr0 hr1

/-! ### (b) the whole loop -/

/-- **(b) The loop**, by C05's `merge_loop_safe_ghost` with the ghost predicate "the loop invariant holds
for the history". From a state satisfying the merge invariant of the input leaf (cursor `0`, end `m`, `crd`
block `bcb` holding `crdB`) and the loop invariant for the empty history, the emitted loop runs without error
with any fuel `≥ m + 1`, performs EXACTLY `m` iterations (one per stored entry of `b`: C16), and ends with
the input cursor at `m` and the loop invariant for the history `crdB 0, …, crdB (m-1)` — i.e. output cursor
`m`, `a_crd[j] = crdB j`, `a_vals[j] = ⟦e⟧(b at crdB j)` for `j < m`. -/
theorem sparse1_loop_correct {ofRat : Rat → F} {i : String} {outT bT : TensorId} {e : IdExpr} {m bvb : Nat}
    {cellsB : Nat → F} {crdB : Nat → Int} {bAt : Int → F} {cb0 vb0 : Nat} {σ0 : State F}
    (N : KNames i outT bT) (ho : isSp i outT = true) (he : isExpr i bT e = true)
    (pre : LoopPre ofRat bT e m bvb cellsB crdB bAt cb0 vb0 σ0)
    (bcb : Nat) (hblk : bcb ≠ cb0 ∧ bcb ≠ vb0 ∧ bcb < σ0.heap.length)
    (fuel : Nat) (σ : State F) (hfuel : m + 1 ≤ fuel)
    (hM : MergeInv σ [⟨inLeaf bT, bcb, crdB, 0, m⟩] i)
    (hP : ∃ cb cc vb vc, Inv ofRat i outT bT e bAt cb0 vb0 σ0 cb cc vb vc [] σ) :
    ∃ o, exec fuel (mergeLoopL [inLeaf bT] i [midStmt ofRat i outT bT e]) σ = .ok o ∧ o.ret = none ∧
      o.iters = m ∧ MergeInv o.st [⟨inLeaf bT, bcb, crdB, m, m⟩] i ∧
      ∃ cb cc vb vc, Inv ofRat i outT bT e bAt cb0 vb0 σ0 cb cc vb vc ((List.range m).map crdB) o.st :=
  loop_runs N ho he pre bcb hblk fuel σ hfuel hM hP

/-! ### S1 -/

/-- **S1 (the generated `evaluate` kernel of a sparse vector copy/scale is correct).** Let `out(i) = rhs` be
an assignment whose accesses all use the index `i` alone, `formats` a table of two compressed vectors (output
first), `outT` the output tensor as `generateIr` computes it, `e` a right-hand side of the class with its one
tensor occurrence `bT`, with the static side conditions `KernelOK` (index and tensor names without `'_'` and
pairwise different, different tensor ids). Let `cap` be ANY initial capacity parameter with
`1 ≤ capVal cap < 2^31`, and `σ` an initial machine state as the driver builds it (`Init`): the variables
are exactly the two tensor parameters; the output record `ta` (contents `atr`) is output-owned, with a slot
pair and `vals` holding pointers or `NULL`; the input record's `pos` block is `[0, m]`, its `crd` block holds
`crdB 0 … crdB (m-1)`, its `vals` block `cellsB 0 … cellsB (m-1)`. Side conditions on the input:
`m ≤ 2^30` (so that the cursor, `m + 1` and every doubled capacity are int32), the coordinates are strictly
increasing int32s, and at every stored entry every sub-result of `e` is finite.

Then the function `f` that `generateIr` produces runs on the machine with any fuel `≥ m + 1` WITHOUT ERROR,
**returns `0`** after EXACTLY `m` loop iterations (no inner loop contributes), and in the final state
* the output record (still output-owned, same order and dimensions block) has slot 0 = (`pos`, `crd`) and
  `vals` = the base addresses of three different FRESH blocks, live and output-owned;
* the `pos` block is exactly `[0, m]`; the `crd` block is exactly `[crdB 0, …, crdB (m-1)]` (`m` cells — the
  size `appendCleanup_exact_sizes` gives: C02); the `vals` block has exactly `m + 1` cells (`padUpTo`), the
  first `m` holding `valueF ofRat (b ↦ cellsB j) e` (for `e = b`: a copy);
* every other tensor record and EVERY block of the initial heap (all inputs) is unchanged. -/
theorem sparse1_kernel_correct (ofRat : Rat → F) (cap : Option Int) (a : Alg.DAssign) (formats : Formats)
    (i : String) (outT bT : TensorId) (e : IdExpr)
    (hout : tensorId 0 a.tname formats a.tidx = some outT)
    (ho : isSp i outT = true) (he : isExpr i bT e = true) (hf : sparseFormats formats = true)
    (hidx : a.tidx = [i]) (hrhs : Dense1.rhsIdx i a.rhs = true) (ok : KernelOK formats i outT bT)
    (hk0 : 1 ≤ capVal cap) (hk1 : capVal cap < 2147483648)
    (ta tb : Nat) (atr btr : TensorRec F) (n : Int) (m bpb bcb bvb : Nat) (crdB : Nat → Int)
    (cellsB : Nat → F) (σ : State F)
    (init : Init outT bT ta tb atr btr n m bpb bcb bvb crdB cellsB σ)
    (hm : m ≤ 1073741824)
    (hsorted : ∀ j k, j < k → k < m → crdB j < crdB k)
    (hrng : ∀ j, j < m → -2147483648 ≤ crdB j ∧ crdB j < 2147483648)
    (hfin : ∀ q, q < m → ToIr.AllFinite ofRat (fun _ => cellsB q) e)
    (f : Func F) (hgen : generateIr ofRat cap a formats (graph i outT e) .evaluate = .ok f)
    (fuel : Nat) (hfuel : m + 1 ≤ fuel) :
    ∃ o, exec fuel f.body σ = .ok o ∧ o.ret = some (.int 0) ∧ o.iters = m ∧
      (∃ tr' pF cF vF vblk, o.st.tensors[ta]? = some tr' ∧ tr'.owner = .output ∧ tr'.order = atr.order ∧
        tr'.dimsBlk = atr.dimsBlk ∧ tr'.slots = atr.slots.set 0 (some (.ptr pF 0, .ptr cF 0)) ∧
        tr'.vals = .ptr vF 0 ∧
        σ.heap.length ≤ pF ∧ σ.heap.length ≤ cF ∧ σ.heap.length ≤ vF ∧ pF ≠ cF ∧ pF ≠ vF ∧ cF ≠ vF ∧
        o.st.heap[pF]? = some ⟨.int, [some (.int 0), some (.int m)], .output, true⟩ ∧
        o.st.heap[cF]? = some ⟨.int, (List.range m).map (fun j => some (.int (crdB j))), .output, true⟩ ∧
        o.st.heap[vF]? = some vblk ∧ vblk.live = true ∧ vblk.owner = .output ∧ vblk.ty = .float ∧
        vblk.cells.length = m + 1 ∧
        ∀ j, j < m → vblk.cells[j]? = some (some (.flt (ToIr.valueF ofRat (fun _ => cellsB j) e)))) ∧
      (∀ k, k ≠ ta → o.st.tensors[k]? = σ.tensors[k]?) ∧
      o.st.tensors.length = σ.tensors.length ∧
      (∀ k, k < σ.heap.length → o.st.heap[k]? = σ.heap[k]?) := by
  rw [sparse1_generateIr_eq ofRat cap a formats i outT bT e hout ho he hf hidx hrhs] at hgen
  cases hgen
  obtain ⟨o, eo, hret, hit, hp⟩ := kernel_runs ofRat cap formats i outT bT e ho he ok hk0 hk1 init hm hsorted
    hrng hfin fuel hfuel
  exact ⟨o, eo, hret, hit, hp.outRec, hp.otherRecs, hp.tlen, hp.heap⟩

/-- **S1, corollary: the result is well-formed and stores no phantom coordinate** (C02, C03). If moreover
the stored coordinates of `b` lie within the dimension `d`, the structure the output record describes — `pos =
[0, m]`, `crd = [crdB 0, …, crdB (m-1)]`, one value per coordinate — passes `Storage.wfCheck` (positions
consistent, coordinates strictly increasing and in range), whatever the `m` values are; and its coordinates
are exactly those of `b`. -/
theorem sparse1_result_wf (d m : Nat) (crdB : Nat → Int) (vs : List Int)
    (hsorted : ∀ j k, j < k → k < m → crdB j < crdB k)
    (hrng : ∀ j, j < m → 0 ≤ crdB j ∧ crdB j < d) (hv : vs.length = m) :
    Storage.wfCheck (storedVec d ((List.range m).map crdB) vs) = true ∧
    (storedVec d ((List.range m).map crdB) vs).levels =
      [⟨.compressed, [0, (m : Int)], (List.range m).map crdB⟩] := by
  refine ⟨wfCheck_storedVec d _ vs (pairwise_map_range m crdB hsorted) ?_ (by simpa using hv), by
    simp [storedVec]⟩
  intro c hc
  obtain ⟨j, hj, rfl⟩ := List.mem_map.1 hc
  exact hrng j (List.mem_range.1 hj)

/-! ### S2 -/

/-- **S2 (exact instance).** Over the exact carrier `Rat` (every value finite, exact arithmetic, literals
through `id`) no finiteness hypothesis is left and the stored values are the mathematical meaning
`Graph.value` of `e` at the entries of `b`: the kernel returns `0` after `m` iterations, the output's `crd`
block is exactly `b`'s coordinates and cell `j < m` of its `vals` block is `value (b ↦ cellsB j) e`. -/
theorem sparse1_kernel_exact (cap : Option Int) (a : Alg.DAssign) (formats : Formats)
    (i : String) (outT bT : TensorId) (e : IdExpr)
    (hout : tensorId 0 a.tname formats a.tidx = some outT)
    (ho : isSp i outT = true) (he : isExpr i bT e = true) (hf : sparseFormats formats = true)
    (hidx : a.tidx = [i]) (hrhs : Dense1.rhsIdx i a.rhs = true) (ok : KernelOK formats i outT bT)
    (hk0 : 1 ≤ capVal cap) (hk1 : capVal cap < 2147483648)
    (ta tb : Nat) (atr btr : TensorRec Rat) (n : Int) (m bpb bcb bvb : Nat) (crdB : Nat → Int)
    (cellsB : Nat → Rat) (σ : State Rat)
    (init : Init outT bT ta tb atr btr n m bpb bcb bvb crdB cellsB σ)
    (hm : m ≤ 1073741824)
    (hsorted : ∀ j k, j < k → k < m → crdB j < crdB k)
    (hrng : ∀ j, j < m → -2147483648 ≤ crdB j ∧ crdB j < 2147483648)
    (f : Func Rat) (hgen : generateIr id cap a formats (graph i outT e) .evaluate = .ok f)
    (fuel : Nat) (hfuel : m + 1 ≤ fuel) :
    ∃ o, exec fuel f.body σ = .ok o ∧ o.ret = some (.int 0) ∧ o.iters = m ∧
      ∃ tr' pF cF vF vblk, o.st.tensors[ta]? = some tr' ∧
        tr'.slots = atr.slots.set 0 (some (.ptr pF 0, .ptr cF 0)) ∧ tr'.vals = .ptr vF 0 ∧
        o.st.heap[pF]? = some ⟨.int, [some (.int 0), some (.int m)], .output, true⟩ ∧
        o.st.heap[cF]? = some ⟨.int, (List.range m).map (fun j => some (.int (crdB j))), .output, true⟩ ∧
        o.st.heap[vF]? = some vblk ∧ vblk.live = true ∧ vblk.cells.length = m + 1 ∧
        ∀ j, j < m → vblk.cells[j]? = some (some (.flt (value (fun _ => cellsB j) e))) := by
  obtain ⟨o, eo, hret, hit, ⟨tr', pF, cF, vF, vblk, h1, _, _, _, h5, h6, _, _, _, _, _, _, h13, h14, h15, h16, _,
    _, h19, h20⟩, _⟩ :=
    sparse1_kernel_correct id cap a formats i outT bT e hout ho he hf hidx hrhs ok hk0 hk1 ta tb atr btr n m
      bpb bcb bvb crdB cellsB σ init hm hsorted hrng (fun q _ => ToIr.allFinite_rat _ _ _) f hgen fuel hfuel
  refine ⟨o, eo, hret, hit, tr', pF, cF, vF, vblk, h1, h5, h6, h13, h14, h15, h16, h19, ?_⟩
  intro j hj
  rw [h20 j hj, ToIr.valueF_rat]

/-! ### why C02's `appendCleanup_safe` is not used as it is -/

/-- **Deviation.** `appendCleanup_safe` / `appendCleanup_exact_sizes` (C02Cleanup) ask, in their precondition
`CleanPre.valsLen`, that the `vals` array already has at least `padUpTo = p + 1` cells before the final
realloc (they model a SHRINKING realloc). The kernels of this class do not establish that: the allocation
check `if (p >= vals_capacity)` runs BEFORE each store, so after the loop only `p ≤ vals_capacity` holds. In
the non-vacuity instance below (`cap = 1`, two entries) the capacity is `2` when the cleanup starts and the
realloc to `padUpTo [s] … = 3` cells GROWS the array (the new cell is uninitialised scratch). The cleanup of
this class is therefore proved directly on the machine (`Sparse1.cleanup_runs`), with the same exact sizes. -/
theorem sparse1_cleanPre_valsLen_fails (d : Nat → Int) :
    ¬ (Cleanup.padUpTo [Mode.compressed] d (fun _ => 2) 1 ≤ ((2 : Nat) : Int)) := by
  simp [Cleanup.padUpTo]

/-! ### non-vacuity: `a(i) = 2 * b(i)`, `b = {1: 2.0, 3: 5.0}`, dimension 5, initial capacity 1 -/

def exFormats : Formats := [("a", [.compressed], [0]), ("b", [.compressed], [0])]
def exOut : TensorId := ⟨"0_a", "a", ["i"], [.compressed]⟩
def exB : TensorId := ⟨"1_b", "b", ["i"], [.compressed]⟩
def exE : IdExpr := .mul (.int 2) (.tensor exB)
def exAssign : Alg.DAssign := ⟨"a", ["i"], .mul (.int 2) (.tensor 1 "b" ["i"])⟩
def exCrd : Nat → Int := fun j => [1, 3].getD j 0

/-- generic in the carrier: the state the driver builds for the output `a` (dimension 5, empty) and
`b = {1: c 2, 3: c 5}` -/
def exStateOf {F : Type} (c : Int → F) : State F :=
  { vars := [⟨"a", .ptr .tensor, some (.tensor 0)⟩, ⟨"b", .ptr .tensor, some (.tensor 1)⟩],
    heap := [⟨.int, [some (.int 5)], .output, true⟩,
             ⟨.int, [some (.int 5)], .input, true⟩,
             ⟨.int, [some (.int 0), some (.int 2)], .input, true⟩,
             ⟨.int, [some (.int 1), some (.int 3)], .input, true⟩,
             ⟨.float, [some (.flt (c 2)), some (.flt (c 5))], .input, true⟩],
    tensors := [⟨1, 0, [some (.null, .null)], .null, .output⟩,
                ⟨1, 1, [some (.ptr 2 0, .ptr 3 0)], .ptr 4 0, .input⟩] }
def exCells {F : Type} (c : Int → F) : Nat → F := fun j => [c 2, c 5].getD j (c 0)

theorem exKernelOK : KernelOK exFormats "i" exOut exB :=
  ⟨⟨by decide, by decide, by decide, by decide, by decide, by decide, by decide⟩, rfl⟩

theorem exInitOf {F : Type} [FloatOps F] (c : Int → F) :
    Init exOut exB 0 1 ⟨1, 0, [some (.null, .null)], .null, .output⟩
      ⟨1, 1, [some (.ptr 2 0, .ptr 3 0)], .ptr 4 0, .input⟩ 5 2 2 3 4 exCrd (exCells c) (exStateOf c) := by
  refine
    { avar := ⟨_, rfl, rfl, rfl⟩, bvar := ⟨_, rfl, rfl, rfl⟩, fresh := ?_, arec := rfl, aown := rfl,
      aord := Nat.zero_lt_one, aslot := ⟨_, _, rfl, rfl, rfl⟩, avals := rfl,
      adim := ⟨_, rfl, rfl, rfl, rfl⟩, n32 := by decide, brec := rfl, bord := Nat.zero_lt_one, bslot := rfl,
      bvals := rfl, bpos := ⟨_, rfl, rfl, rfl, rfl, rfl⟩, bcrd := ⟨_, rfl, rfl, rfl, Nat.le_refl _, ?_⟩,
      bval := ⟨_, rfl, rfl, rfl, ?_⟩ }
  · intro x h1 h2
    have e1 : ("a" == x) = false := beq_eq_false_iff_ne.2 (Ne.symm h1)
    have e2 : ("b" == x) = false := beq_eq_false_iff_ne.2 (Ne.symm h2)
    simp [lookupVar, exStateOf, List.find?, e1, e2]
  · intro j hj
    match j, hj with
    | 0, _ => rfl
    | 1, _ => rfl
  · intro j hj
    match j, hj with
    | 0, _ => rfl
    | 1, _ => rfl

theorem exSorted : ∀ j k, j < k → k < 2 → exCrd j < exCrd k := by
  intro j k h1 h2
  have hk : k = 1 := by omega
  have hj : j = 0 := by omega
  subst hk hj
  decide

theorem exRange : ∀ j, j < 2 → -2147483648 ≤ exCrd j ∧ exCrd j < 2147483648 := by
  intro j hj
  match j, hj with
  | 0, _ => decide
  | 1, _ => decide

/-- the graph of the class is the one the front half chooses for the assignment -/
example : bestAlgorithm exAssign exFormats = .graph (graph "i" exOut exE) := by
  have h : toIterationGraphs exAssign exFormats = .ok [graph "i" exOut exE] := by rfl
  simp only [bestAlgorithm, h]

/-- the instance is in the class -/
example : isSp "i" exOut = true ∧ isExpr "i" exB exE = true := by decide

/-- literals of the instance over `Int`: the numerator -/
def exOfRat : Rat → Int := fun q => q.num

/-- **S1 is not vacuous** (over `Int`, initial capacity 1 — both `crd` and `vals` are reallocated): every
hypothesis holds on the instance, `generateIr` produces the kernel, and the run returns `0` after 2
iterations and leaves `pos = [0, 2]`, `crd = [1, 3]`, `vals = [4, 10, ·]` in fresh blocks the output record
points to. -/
example : ∃ f o, generateIr exOfRat (some 1) exAssign exFormats (graph "i" exOut exE) .evaluate = .ok f ∧
    exec 3 f.body (exStateOf (F := Int) id) = .ok o ∧ o.ret = some (.int 0) ∧ o.iters = 2 ∧
    ∃ tr' pF cF vF vblk, o.st.tensors[0]? = some tr' ∧
      tr'.slots = [some (.ptr pF 0, .ptr cF 0)] ∧ tr'.vals = .ptr vF 0 ∧
      o.st.heap[pF]? = some ⟨.int, [some (.int 0), some (.int 2)], .output, true⟩ ∧
      o.st.heap[cF]? = some ⟨.int, [some (.int 1), some (.int 3)], .output, true⟩ ∧
      o.st.heap[vF]? = some vblk ∧ vblk.live = true ∧ vblk.cells.length = 3 ∧
      vblk.cells[0]? = some (some (.flt 4)) ∧ vblk.cells[1]? = some (some (.flt 10)) := by
  have hgen := sparse1_generateIr_eq exOfRat (some 1) exAssign exFormats "i" exOut exB exE (by decide)
    (by decide) (by decide) (by decide) rfl (by decide)
  obtain ⟨o, eo, hret, hit, ⟨tr', pF, cF, vF, vblk, h1, _, _, _, h5, h6, _, _, _, _, _, _, h13, h14, h15, h16, _,
    _, h19, h20⟩, _⟩ :=
    sparse1_kernel_correct exOfRat (some 1) exAssign exFormats "i" exOut exB exE (by decide) (by decide)
      (by decide) (by decide) rfl (by decide) exKernelOK (by decide) (by decide) 0 1 _ _ 5 2 2 3 4 exCrd
      (exCells (F := Int) id) _ (exInitOf (F := Int) id) (by decide) exSorted exRange
      (fun q _ => ToIr.Ex.allFinite_int _ _ _) _ hgen 3 (by decide)
  exact ⟨_, o, hgen, eo, hret, hit, tr', pF, cF, vF, vblk, h1, h5, h6, h13, h14, h15, h16, h19,
    h20 0 (by decide), h20 1 (by decide)⟩

/-- the result of the instance is a well-formed compressed vector of dimension 5 with exactly `b`'s
coordinates -/
example : Storage.wfCheck (storedVec 5 [1, 3] [4, 10]) = true := by decide

/-- **S2 is not vacuous**: the same instance over the exact carrier `Rat`, default initial capacity; the
stored values are `Graph.value` of `2 * b(i)` at the entries of `b` -/
example : ∃ (f : Func Rat) (o : Out Rat),
    generateIr (F := Rat) id none exAssign exFormats (graph "i" exOut exE) .evaluate = .ok f ∧
    exec 3 f.body (exStateOf (fun z => (z : Rat))) = .ok o ∧ o.ret = some (.int 0) ∧ o.iters = 2 ∧
    ∃ (cF vF : Nat) (vblk : Block Rat),
      o.st.heap[cF]? = some ⟨.int, [some (.int 1), some (.int 3)], .output, true⟩ ∧
      o.st.heap[vF]? = some vblk ∧ vblk.live = true ∧
      ∀ j, j < 2 → vblk.cells[j]? = some (some (.flt (value
        (fun _ => exCells (fun z => (z : Rat)) j) exE))) := by
  have hgen := sparse1_generateIr_eq (F := Rat) id none exAssign exFormats "i" exOut exB exE (by decide)
    (by decide) (by decide) (by decide) rfl (by decide)
  obtain ⟨o, eo, hret, hit, tr', pF, cF, vF, vblk, _, _, _, _, h14, h15, h16, _, h20⟩ :=
    sparse1_kernel_exact none exAssign exFormats "i" exOut exB exE (by decide) (by decide)
      (by decide) (by decide) rfl (by decide) exKernelOK (by decide) (by decide) 0 1 _ _ 5 2 2 3 4 exCrd
      (exCells (fun z => (z : Rat))) _ (exInitOf (fun z => (z : Rat))) (by decide) exSorted exRange
      _ hgen 3 (by decide)
  exact ⟨_, o, hgen, eo, hret, hit, cF, vF, vblk, h14, h15, h16, h20⟩

/-- the hypotheses of (b) `sparse1_loop_correct` / (a) `sparse1_body_step` are satisfiable: they are
established, inside the proof of S1, by the prologue of every kernel of the class (`prologue_runs`,
`iterBlock_runs`); here the static ones on the instance -/
example : KNames "i" exOut exB := exKernelOK.names

end TV.Sparse1
