import TensoraVerif.Lemmas.Sparse2Kernel
import TensoraVerif.Lemmas.Sparse2Meaning
import TensoraVerif.Lemmas.Sparse2NamesNodup
import TensoraVerif.Lemmas.Dense1Exact
import TensoraVerif.Model.FloatLaws

/-!
# C01 / C02 / C03 / C05, end to end, for a kernel that ASSEMBLES A TWO-LEVEL compressed structure:
# sparse matrix copy / scale

Assignments `a(i,j) = e` where `a` is an order-2 tensor stored doubly compressed (`ss`, identity ordering) and
`e` mentions exactly one tensor occurrence `b(i,j)`, stored doubly compressed, in such a way that both loops are
sparse (`a(i,j) = b(i,j)`, `a(i,j) = 2 * b(i,j)`, `a(i,j) = b(i,j) * 2.5`, …; class `Sparse2.isExpr`). The
iteration graph is `Sparse2.graph i j outT e = .iter i (some ⟨outT,0⟩) (.iter j (some ⟨outT,1⟩) (.terminal e))`.

Everything the one-level class (`C01Sparse1`) does not exercise: NESTED merge loops (outer over the stored rows,
inner over the stored entries of the row), inner cursors initialised from `b_1_pos[p_b_0]`, `b_1_pos[p_b_0 + 1]`
inside the outer loop, TWO written flags (the terminal raises both), `writePosAllocation` for the `pos` array of
the NEXT sparse layer (bonus 1) at the outer level and for `vals` at the inner level, `writePosAssembly ⟨a,1⟩`
after the inner loop (`a_1_pos[p_a_0 + 1] = p_a_1`), the outer `crd` append guarded by the outer flag — AN
EMPTY STORED ROW OF `b` IS NOT MATERIALISED IN `a` —, and the cleanup of two compressed levels.

The chain: `Gen.generateIr` / `Gen.lower` produce the `evaluate` function (written out: `Sparse2.kernel`,
`Sparse2.loopLines`); `IR.exec` (the monitored machine: checked loads and stores, checked 32-bit integers, finite
floats, fuel) runs it from an initial state as the driver builds it (`Sparse2.Init`). Building blocks:
`writeSparseInit_safe` and the merge-loop skeleton (C05Merge; the loops themselves by `cursor_loop_exact`, the
position-indexed variant with an EXACT iteration count, `Lemmas/Sparse2Cursor.lean`), the growth fragments
`writePosAllocation_nodense_safe`, `crdAssembly_runs`, `writePosAssembly_safe` (C05Growth), the terminal block
`terminal_append_sound` (C01Terminal), the primitives of the cleanup (C02Cleanup).

* **Z1** `sparse2_lower_eq`, `sparse2_generateIr_eq` — what the pass emits on the class, written out; closed
  `bestAlgorithm` instance.
* **Z2** `sparse2_inner_loop_correct` — the inner loop over one stored row.
* **Z3** `sparse2_loops_correct` — the outer loop: `R + nnz` iterations, empty rows dropped.
* **Z4** `sparse2_kernel_correct` — the whole `evaluate` function; `sparse2_result_wf`, `sparse2_no_phantom`.
* **Z5** `sparse2_kernel_exact`, `sparse2_exact_meaning`, `sparse2_denote_copy`, `sparse2_denote_scale`.
* non-vacuity: `b = {0: {1: 2}, 2: {} (stored but empty), 3: {0: 5, 2: 7}}`, dimensions `4 × 3`, initial
  capacity 1, `a(i,j) = 2 * b(i,j)`: `crd0 = [0, 3]`, `pos1 = [0, 1, 3]`, `crd1 = [1, 0, 2]`, `vals = [4, 10, 14]`.

Vocabulary: `Lemmas/Sparse2Model.lean` (class, emitted loop nest), `Sparse2Generate.lean` (emitted kernel),
`Sparse2Names.lean` (`allNames`: the names that must be pairwise distinct), `Sparse2State.lean` (`BData`: the
stored structure of `b`, `BData.Wf`, the pure model `kept`/`outCrd0`/`outPos1` of the result; `Ctx`: what is
fixed during a call; `Ctx.OK`: the static hypotheses; `St`: the kernel invariant), `Sparse2Prologue.lean`
(`Init`); `capVal cap` is the value of `default_array_size` (`k` for `some k`, `2^20` for `none`).
-/
namespace TV.Sparse2
open TV.IR TV.Gen TV.Graph TV.Growth TV.Merge
open TV.Sparse1 (capVal)

variable {F : Type} [FloatOps F]

/-! ### Z1: what the pass emits -/

/-- **Z1a (the lowered loop nest).** For every graph of the class, `lower` (any fuel `≥ 3`) succeeds and
returns `int p_b_0 = b_0_pos[0]; int p_b_0_end = b_0_pos[0 + 1]; while (true && p_b_0 < p_b_0_end) { int i_b_0 =
b_0_crd[p_b_0]; int i = i_b_0; if (true && i_b_0 == i) { <pos allocation of a_1_pos> bool written_a_0 = false;
{ int p_b_1 = b_1_pos[p_b_0]; int p_b_1_end = b_1_pos[p_b_0 + 1]; while (true && p_b_1 < p_b_1_end) { int i_b_1
= b_1_crd[p_b_1]; int j = i_b_1; if (true && i_b_1 == j) { <vals allocation> bool written_a_1 = false;
{ written_a_0 = true; written_a_1 = true; a_vals[p_a_1] = <e>; } if (written_a_1) { <crd assembly of level 1>
p_a_1 = p_a_1 + 1; } } p_b_1 = p_b_1 + (int)(i_b_1 == j); } a_1_pos[p_a_0 + 1] = p_a_1; } if (written_a_0)
{ <crd assembly of level 0> p_a_0 = p_a_0 + 1; } } p_b_0 = p_b_0 + (int)(i_b_0 == i); } a_0_pos[0 + 1] = p_a_0;`
(`loopLines`; both loops are literally C05's skeleton `mergeLoopL`). -/
theorem sparse2_lower_eq (ofRat : Rat → F) (k : Nat) (i j : String) (outT bT : TensorId) (e : IdExpr)
    (hij : i ≠ j) (ho : isSS i j outT = true) (he : isExpr i j bT e = true) :
    lower ofRat (k + 3) (graph i j outT e) (.append outT 0) .evaluate =
      .ok ⟨some ("*** Iteration over " ++ i ++ " ***"), loopLines ofRat i j outT bT e⟩ :=
  lower_eq ofRat k i j outT bT e hij ho he

/-- **Z1b (the generated kernel).** For an assignment `out(i,j) = rhs` whose accesses all use indices among
`i`, `j`, a format table of doubly compressed matrices and the graph of the class, `generateIr` succeeds and
returns exactly `Sparse2.kernel` (extract `i_dim`, `j_dim`, unpack `pos`/`crd` of both levels and `vals` of every
tensor, output initialisation with initial capacity `cap`, the loop nest, the cleanup reallocs and the
hand-over, `return 0`). -/
theorem sparse2_generateIr_eq (ofRat : Rat → F) (cap : Option Int) (a : Alg.DAssign) (formats : Formats)
    (i j : String) (outT bT : TensorId) (e : IdExpr)
    (hout : tensorId 0 a.tname formats a.tidx = some outT)
    (hij : i ≠ j) (ho : isSS i j outT = true) (he : isExpr i j bT e = true) (hf : ssFormats formats = true)
    (hidx : a.tidx = [i, j]) (hrhs : DenseN.rhsIdx [i, j] a.rhs = true) :
    generateIr ofRat cap a formats (graph i j outT e) .evaluate =
      .ok (kernel ofRat cap formats i j outT bT e) :=
  generateIr_eq ofRat cap a formats i j outT bT e hout (Dense1.tensorId_name hout) hij ho he hf
    (indexDimensions_eq a i j hij hidx hrhs)

/-! ### Z2: the inner loop -/

/-- **Z2 (the inner loop over one stored row).** Let `K` be a call context satisfying the static hypotheses
`K.OK`, `r < R` a stored row of `b` (its entries sit at the positions `[pos1 r, pos1 (r+1))`), and `σ` a state
satisfying the kernel invariant `St K S σ` (read-only part unchanged; the five output arrays are `Arr`
components — C05's array invariant plus known contents — in pairwise different blocks above the initial heap)
in which `a_1_crd` and `a_vals` hold the first `pos1 r` entries (ANY capacities `≥` that), `p_a_1 = pos1 r`, the
merge invariant of the second level of `b` holds for that segment, the outer flag `written_a_0` holds `false`
and the inner flag is undeclared or a `bool`. Then the emitted inner loop runs without error with any fuel
`≥ (row length) + 1`, performs EXACTLY `pos1 (r+1) − pos1 r` iterations, and afterwards: the input cursor is at
the end of the row; the invariant holds again (for a description `S'` that differs from `S` only in the two
arrays, which may have been reallocated); `a_1_crd` / `a_vals` hold the first `pos1 (r+1)` entries — the
appended ones are exactly `crd1 q` and `⟦e⟧(vals q)` for the positions `q` of the row —; `p_a_1 = pos1 (r+1)`
(advanced by the row length); THE OUTER FLAG IS `true` IFF THE ROW IS NON-EMPTY; only the variables `inW K`
were written. -/
theorem sparse2_inner_loop_correct {K : Ctx F} (ok : K.OK) (r : Nat) (hr : r < K.d.R) (fuel : Nat)
    (σ : State F) (S : OutSt F) (hfuel : (K.d.pos1 (r + 1) - K.d.pos1 r) + 1 ≤ fuel)
    (hst : St K S σ) (hc1 : S.cells .c1 = K.crd1Cells (K.d.pos1 r)) (hcv : S.cells .v = K.valsCells (K.d.pos1 r))
    (hpA : IntVar σ (K.n .pA1) (K.d.pos1 r)) (hM : MergeInv σ [K.cur1 r] K.j)
    (hw0 : FlagVal σ (K.n .w0) false) (hw1 : FlagOK σ (K.n .w1)) :
    ∃ o S', exec fuel (mergeLoopL [in1 K.bT] K.j [mid1 K.ofRat K.j K.outT K.bT K.e]) σ = .ok o ∧ o.ret = none ∧
      o.iters = K.d.pos1 (r + 1) - K.d.pos1 r ∧
      MergeInv o.st [curAt (K.cur1 r) (K.d.pos1 (r + 1))] K.j ∧
      St K S' o.st ∧ S'.cells .c1 = K.crd1Cells (K.d.pos1 (r + 1)) ∧
      S'.cells .v = K.valsCells (K.d.pos1 (r + 1)) ∧ Same [.c1, .v] S S' ∧
      IntVar o.st (K.n .pA1) (K.d.pos1 (r + 1)) ∧
      FlagVal o.st (K.n .w0) (decide (K.d.pos1 r < K.d.pos1 (r + 1))) ∧ FlagOK o.st (K.n .w1) ∧
      VFrame (inW K) σ o.st :=
  inner_loop ok r hr fuel σ S hfuel hst hc1 hcv hpA hM hw0 hw1

/-! ### Z3: the outer loop -/

/-- **Z3 (the outer loop over the stored rows).** From a state satisfying the kernel invariant with the
output arrays in their initial shape (`Shape K S 0`: `a_0_pos = [0, ·]`, `a_1_pos = [0, …]`, nothing else
stored), both output cursors `0`, the merge invariant of the first level of `b` (cursor `0`, end `R`) and the
inner scratch variables undeclared or of their types: the emitted loop nest runs without error with any fuel
`≥ R + nnz + 2` and performs EXACTLY `R + nnz` loop iterations — `R` of the outer loop and one per stored entry
in the inner loops. Afterwards (`Shape K S' R`): `a_0_crd` holds the coordinates of the NON-EMPTY stored rows
only (`outCrd0 = (kept R).map crd0`: the row coordinate is appended iff the inner loop raised the outer flag,
i.e. iff `pos1 r < pos1 (r+1)` — an empty stored row of `b` is not materialised: C03); `a_1_pos` holds `0`
followed by the end position of every kept row (`a_1_pos[p_a_0 + 1] = p_a_1` is stored after EVERY row, and
counts only when the row is kept); `a_1_crd`/`a_vals` hold all `nnz` entries; `p_a_0` = the number of non-empty
rows, `p_a_1 = nnz`. -/
theorem sparse2_loops_correct {K : Ctx F} (ok : K.OK) (fuel : Nat) (σ : State F) (S : OutSt F)
    (hfuel : K.d.R + K.d.nnz + 2 ≤ fuel)
    (hst : St K S σ) (hsh : Shape K S 0) (hpA0 : IntVar σ (K.n .pA0) 0) (hpA1 : IntVar σ (K.n .pA1) 0)
    (hM : MergeInv σ [K.cur0] K.i) (hscr : Scr K σ) :
    ∃ o S', exec fuel (mergeLoopL [in0 K.bT] K.i [mid0 K.ofRat K.i K.j K.outT K.bT K.e]) σ = .ok o ∧
      o.ret = none ∧ o.iters = K.d.R + K.d.nnz ∧ MergeInv o.st [curAt K.cur0 K.d.R] K.i ∧
      St K S' o.st ∧ Shape K S' K.d.R ∧ IntVar o.st (K.n .pA0) (K.d.kept K.d.R).length ∧
      IntVar o.st (K.n .pA1) K.d.nnz ∧ Scr K o.st ∧ VFrame (outW K) σ o.st :=
  outer_loop ok fuel σ S hfuel hst hsh hpA0 hpA1 hM hscr

/-! ### Z4: the whole kernel -/

/-- **Z4 (the generated `evaluate` kernel of a sparse matrix copy/scale is correct).** Let `out(i,j) = rhs`
be an assignment whose accesses use the indices `i`, `j`, `formats` a table of two doubly compressed matrices
(output first), `outT` the output tensor as `generateIr` computes it, `e` a right-hand side of the class with
its one tensor occurrence `bT`. Let `cap` be ANY initial capacity parameter with `1 ≤ capVal cap < 2^31`. Let
`d` describe a well-formed two-level structure of `b` (`BData.Wf`: `pos1` goes from `0` to `nnz` without
decreasing over the `R` stored rows, int32 coordinates, `R < 2^30`, `nnz ≤ 2^30`), and `σ` an initial machine
state as the driver builds it (`Init`, `Ctx.OK`): the variables are exactly the two tensor parameters; the
output record `ta` (contents `atr`) is output-owned with slot pairs at levels 0 and 1 and `vals` holding
pointers or `NULL`; the slots of the input record point to blocks holding `pos0 = [0, R]`, `crd0`, `pos1`
(`R + 1` cells), `crd1`, and the values; the names of the kernel are pairwise distinct; every sub-result of `e`
is finite at every stored entry.

Then the function `f` that `generateIr` produces runs on the machine with any fuel `≥ R + nnz + 2` WITHOUT
ERROR, **returns `0`** after EXACTLY `R + nnz` loop iterations, and in the final state
* the output record (still output-owned, same order and dimensions block) has slot 0 = (`pos0`, `crd0`),
  slot 1 = (`pos1`, `crd1`) and `vals` = the base addresses of five different FRESH blocks, live and
  output-owned;
* `pos0` is exactly `[0, R']` with `R'` the number of NON-EMPTY stored rows of `b`; `crd0` is exactly their
  coordinates; `pos1` is exactly the `R' + 1` prefix sums of their lengths (`0`, then the end position of every
  kept row); `crd1` is exactly the `nnz` column coordinates (the sizes `appendCleanup_exact_sizes` gives: C02);
  the `vals` block has exactly `nnz + 1` cells (`padUpTo`), the first `nnz` holding
  `valueF ofRat (b ↦ vals q) e` (for `e = b`: a copy);
* every other tensor record and EVERY block of the initial heap (all inputs) is unchanged. -/
theorem sparse2_kernel_correct (ofRat : Rat → F) (cap : Option Int) (a : Alg.DAssign) (formats : Formats)
    (i j : String) (outT bT : TensorId) (e : IdExpr)
    (hout : tensorId 0 a.tname formats a.tidx = some outT) (hf : ssFormats formats = true)
    (hidx : a.tidx = [i, j]) (hrhs : DenseN.rhsIdx [i, j] a.rhs = true)
    (hfmt : formats.map (·.1) = [outT.name, bT.name])
    (hk0 : 1 ≤ capVal cap) (hk1 : capVal cap < 2147483648)
    (d : BData F) (ta tb : Nat) (atr btr : TensorRec F) (n m : Int) (bp0 bc0 bp1 bc1 bv : Nat) (σ : State F)
    (ok : (Ctx.mk ofRat i j outT bT e d σ.heap σ.tensors ta bp0 bc0 bp1 bc1 bv).OK)
    (init : Init (Ctx.mk ofRat i j outT bT e d σ.heap σ.tensors ta bp0 bc0 bp1 bc1 bv) atr btr tb n m σ)
    (f : Func F) (hgen : generateIr ofRat cap a formats (graph i j outT e) .evaluate = .ok f)
    (fuel : Nat) (hfuel : d.R + d.nnz + 2 ≤ fuel) :
    ∃ o, exec fuel f.body σ = .ok o ∧ o.ret = some (.int 0) ∧ o.iters = d.R + d.nnz ∧
      (∃ tr' p0 c0 p1 c1 v vblk, o.st.tensors[ta]? = some tr' ∧ tr'.owner = .output ∧
        tr'.order = atr.order ∧ tr'.dimsBlk = atr.dimsBlk ∧
        tr'.slots = (atr.slots.set 0 (some (.ptr p0 0, .ptr c0 0))).set 1 (some (.ptr p1 0, .ptr c1 0)) ∧
        tr'.vals = .ptr v 0 ∧
        [p0, c0, p1, c1, v].Nodup ∧ (∀ x ∈ [p0, c0, p1, c1, v], σ.heap.length ≤ x) ∧
        o.st.heap[p0]? = some ⟨.int, [some (.int 0), some (.int ((d.kept d.R).length : Int))], .output, true⟩ ∧
        o.st.heap[c0]? = some ⟨.int, (d.outCrd0 d.R).map (fun z => some (.int z)), .output, true⟩ ∧
        o.st.heap[p1]? = some ⟨.int, (d.outPos1 d.R).map (fun z => some (.int z)), .output, true⟩ ∧
        o.st.heap[c1]? = some ⟨.int, (List.range d.nnz).map (fun q => some (.int (d.crd1 q))), .output, true⟩ ∧
        o.st.heap[v]? = some vblk ∧ vblk.live = true ∧ vblk.owner = .output ∧ vblk.ty = .float ∧
        vblk.cells.length = d.nnz + 1 ∧
        ∀ q, q < d.nnz → vblk.cells[q]? = some (some (.flt (ToIr.valueF ofRat (fun _ => d.vals q) e)))) ∧
      (∀ k, k ≠ ta → o.st.tensors[k]? = σ.tensors[k]?) ∧
      o.st.tensors.length = σ.tensors.length ∧
      (∀ k, k < σ.heap.length → o.st.heap[k]? = σ.heap[k]?) := by
  rw [sparse2_generateIr_eq ofRat cap a formats i j outT bT e hout ok.hij ok.ho ok.he hf hidx hrhs] at hgen
  cases hgen
  obtain ⟨o, eo, hret, hit, hp⟩ := kernel_runs ok cap formats hfmt hk0 hk1 init fuel hfuel
  exact ⟨o, eo, hret, hit, hp.outRec, hp.otherRecs, hp.tlen, hp.heap⟩

/-- **Z4, corollary: the result is well-formed** (C02). If moreover `b` is a well-formed `d0 × d1` matrix —
strictly increasing row coordinates within `[0, d0)`, strictly increasing column coordinates within `[0, d1)`
inside every stored row — then the structure the output record describes (`pos0 = [0, R']`, `crd0 = outCrd0`,
`pos1 = outPos1`, `crd1` = the `nnz` column coordinates, one value per entry) passes `Storage.wfCheck`
(positions consistent at both levels, every segment strictly increasing and in range), whatever the values. -/
theorem sparse2_result_wf (d : BData F) (h : d.Wf) (d0 d1 : Nat) (vs : List Int)
    (hs0 : ∀ a b, a < b → b < d.R → d.crd0 a < d.crd0 b)
    (hr0 : ∀ r, r < d.R → 0 ≤ d.crd0 r ∧ d.crd0 r < d0)
    (hs1 : ∀ r, r < d.R → ∀ a b, d.pos1 r ≤ a → a < b → b < d.pos1 (r + 1) → d.crd1 a < d.crd1 b)
    (hr1 : ∀ q, q < d.nnz → 0 ≤ d.crd1 q ∧ d.crd1 q < d1) (hv : vs.length = d.nnz) :
    Storage.wfCheck (storedMat d0 d1 (d.outCrd0 d.R) (d.outPos1 d.R) ((List.range d.nnz).map d.crd1) vs)
      = true ∧
    (storedMat d0 d1 (d.outCrd0 d.R) (d.outPos1 d.R) ((List.range d.nnz).map d.crd1) vs).levels =
      [⟨.compressed, [0, ((d.kept d.R).length : Int)], d.outCrd0 d.R⟩,
       ⟨.compressed, d.outPos1 d.R, (List.range d.nnz).map d.crd1⟩] :=
  ⟨wfCheck_out h d0 d1 vs hs0 hr0 hs1 hr1 hv, by simp [storedMat, BData.outCrd0]⟩

/-- **Z4, corollary: no phantom coordinate pair, none missing, no empty row** (C03). The output stores the
coordinate pair `(x, y)` — some output row `k < R'` has coordinate `x` and some position `q` of its segment
`[outPos1[k], outPos1[k+1])` has column coordinate `y` — IFF `b` stores it; and every stored row of the output
has at least one entry: a stored but EMPTY row of `b` (`pos1 r = pos1 (r+1)`) is not materialised. (No
sortedness hypothesis.) -/
theorem sparse2_no_phantom (d : BData F) (h : d.Wf) :
    (∀ x y : Int,
      (∃ k q : Nat, k < (d.kept d.R).length ∧ (d.outPos1 d.R).getD k 0 ≤ (q : Int) ∧
          (q : Int) < (d.outPos1 d.R).getD (k + 1) 0 ∧ (d.outCrd0 d.R).getD k 0 = x ∧ d.crd1 q = y) ↔
      (∃ r q : Nat, r < d.R ∧ d.pos1 r ≤ q ∧ q < d.pos1 (r + 1) ∧ d.crd0 r = x ∧ d.crd1 q = y)) ∧
    (∀ k, k < (d.kept d.R).length → (d.outPos1 d.R).getD k 0 < (d.outPos1 d.R).getD (k + 1) 0) :=
  ⟨no_phantom h, no_empty_rows h⟩

/-! ### Z5: the exact carrier -/

/-- **Z5a (exact instance).** Over the exact carrier `Rat` (every value finite, exact arithmetic, literals
through `id`) the finiteness hypothesis of `Ctx.OK` holds for every input, and the stored values are the
mathematical meaning `Graph.value` of `e` at the entries of `b`: the kernel returns `0` after `R + nnz`
iterations, the four index arrays are as in Z4 and cell `q < nnz` of the `vals` block is
`value (b ↦ vals q) e`. -/
theorem sparse2_kernel_exact (cap : Option Int) (a : Alg.DAssign) (formats : Formats)
    (i j : String) (outT bT : TensorId) (e : IdExpr)
    (hout : tensorId 0 a.tname formats a.tidx = some outT) (hf : ssFormats formats = true)
    (hidx : a.tidx = [i, j]) (hrhs : DenseN.rhsIdx [i, j] a.rhs = true)
    (hfmt : formats.map (·.1) = [outT.name, bT.name])
    (hk0 : 1 ≤ capVal cap) (hk1 : capVal cap < 2147483648)
    (d : BData Rat) (ta tb : Nat) (atr btr : TensorRec Rat) (n m : Int) (bp0 bc0 bp1 bc1 bv : Nat)
    (σ : State Rat)
    (ok : (Ctx.mk id i j outT bT e d σ.heap σ.tensors ta bp0 bc0 bp1 bc1 bv).OK)
    (init : Init (Ctx.mk id i j outT bT e d σ.heap σ.tensors ta bp0 bc0 bp1 bc1 bv) atr btr tb n m σ)
    (f : Func Rat) (hgen : generateIr id cap a formats (graph i j outT e) .evaluate = .ok f)
    (fuel : Nat) (hfuel : d.R + d.nnz + 2 ≤ fuel) :
    ∃ o, exec fuel f.body σ = .ok o ∧ o.ret = some (.int 0) ∧ o.iters = d.R + d.nnz ∧
      ∃ tr' p0 c0 p1 c1 v vblk, o.st.tensors[ta]? = some tr' ∧
        tr'.slots = (atr.slots.set 0 (some (.ptr p0 0, .ptr c0 0))).set 1 (some (.ptr p1 0, .ptr c1 0)) ∧
        tr'.vals = .ptr v 0 ∧
        o.st.heap[p0]? = some ⟨.int, [some (.int 0), some (.int ((d.kept d.R).length : Int))], .output, true⟩ ∧
        o.st.heap[c0]? = some ⟨.int, (d.outCrd0 d.R).map (fun z => some (.int z)), .output, true⟩ ∧
        o.st.heap[p1]? = some ⟨.int, (d.outPos1 d.R).map (fun z => some (.int z)), .output, true⟩ ∧
        o.st.heap[c1]? = some ⟨.int, (List.range d.nnz).map (fun q => some (.int (d.crd1 q))), .output, true⟩ ∧
        o.st.heap[v]? = some vblk ∧ vblk.live = true ∧ vblk.cells.length = d.nnz + 1 ∧
        ∀ q, q < d.nnz → vblk.cells[q]? = some (some (.flt (value (fun _ => d.vals q) e))) := by
  obtain ⟨o, eo, hret, hit, ⟨tr', p0, c0, p1, c1, v, vblk, h1, _, _, _, h5, h6, _, _, h9, h10, h11, h12, h13, h14,
    _, _, h17, h18⟩, _⟩ :=
    sparse2_kernel_correct id cap a formats i j outT bT e hout hf hidx hrhs hfmt hk0 hk1 d ta tb atr btr n m
      bp0 bc0 bp1 bc1 bv σ ok init f hgen fuel hfuel
  refine ⟨o, eo, hret, hit, tr', p0, c0, p1, c1, v, vblk, h1, h5, h6, h9, h10, h11, h12, h13, h14, h17, ?_⟩
  intro q hq
  rw [h18 q hq, ToIr.valueF_rat]

/-- **Z5b (the meaning of the stored result, at every coordinate pair).** For every expression of the class
and every well-formed input with strictly increasing row coordinates, the dense reading of the output the
kernel builds (`BData.outAt`: the value stored at `(x, y)` in the structure `outCrd0`/`outPos1`/`crd1` with the
values `value (b ↦ vals q) e`; `0` where nothing is stored) equals the meaning of `e` at the dense reading of
`b`, AT EVERY COORDINATE PAIR `(x, y)` — where `b` stores nothing, neither does the output, and `e` vanishes
there (`context_sparse_sound`, C16). -/
theorem sparse2_exact_meaning {i j : String} {bT : TensorId} {e : IdExpr} (hij : i ≠ j)
    (he : isExpr i j bT e = true) (d : BData Rat) (h : d.Wf)
    (hs0 : ∀ a b, a < b → b < d.R → d.crd0 a < d.crd0 b) (x y : Int) :
    d.outAt e x y = value (fun _ => d.at x y) e :=
  matAt_out h e (value_zero_of_isExpr hij he) hs0 x y

/-- **Z5c (copy: the output is `Alg.denote` of the source assignment).** For `a(i,j) = b(i,j)`: at every
coordinate pair the dense reading of the output equals C01's specification `Alg.denote` of the SOURCE
assignment, for every valuation that reads `b` as the dense reading of the stored input. -/
theorem sparse2_denote_copy (an bn i j : String) (hij : i ≠ j) (bT : TensorId) (d : BData Rat) (h : d.Wf)
    (hs0 : ∀ a b, a < b → b < d.R → d.crd0 a < d.crd0 b)
    (inputs : Alg.Inputs) (sizes : Alg.Sizes) (hin : ∀ x y : Nat, inputs bn [x, y] = d.at x y) (x y : Nat) :
    d.outAt (.tensor bT) x y = Alg.denote ⟨an, [i, j], .tensor bn [i, j]⟩ inputs sizes [x, y] := by
  rw [denote_copy an bn i j hij, hin, matAt_out h (.tensor bT) rfl hs0]
  rfl

/-- **Z5d (scale: the output is `Alg.denote` of the source assignment).** For `a(i,j) = c * b(i,j)` with an
integer literal `c`: value at `(x, y)` = `c * b[x, y]`, absent = `0`. -/
theorem sparse2_denote_scale (an bn i j : String) (hij : i ≠ j) (c : Int) (bT : TensorId) (d : BData Rat)
    (h : d.Wf) (hs0 : ∀ a b, a < b → b < d.R → d.crd0 a < d.crd0 b)
    (inputs : Alg.Inputs) (sizes : Alg.Sizes) (hin : ∀ x y : Nat, inputs bn [x, y] = d.at x y) (x y : Nat) :
    d.outAt (.mul (.int c) (.tensor bT)) x y =
      Alg.denote ⟨an, [i, j], .mul (.int c) (.tensor bn [i, j])⟩ inputs sizes [x, y] := by
  rw [denote_scale an bn i j hij, hin, matAt_out h (.mul (.int c) (.tensor bT)) (by simp [value]) hs0]
  rfl

/-! ### the name-distinctness condition is satisfiable in general -/

/-- **names.** `(allNames …).Nodup` — the only name hypothesis of `Ctx.OK` — holds for the names the pipeline
builds: index and tensor names without `'_'`, pairwise different; tensor ids `0_<a>`, `<k>_<b>`. -/
theorem sparse2_names_generated (i j an bn ks : String)
    (hi : '_' ∉ i.toList) (hj : '_' ∉ j.toList) (ha : '_' ∉ an.toList) (hb : '_' ∉ bn.toList)
    (hk : '_' ∉ ks.toList)
    (hij : i ≠ j) (hia : i ≠ an) (hib : i ≠ bn) (hja : j ≠ an) (hjb : j ≠ bn) (hab : an ≠ bn) :
    (allNames i j (pOut an i j) (pB ks bn i j)).Nodup :=
  allNames_nodup i j an bn ks hi hj ha hb hk hij hia hib hja hjb hab

/-! ### non-vacuity: `a(i,j) = 2 * b(i,j)`, `b = {0: {1: 2}, 2: {} (stored but empty), 3: {0: 5, 2: 7}}`,
dimensions `4 × 3`, initial capacity 1 -/

def exFormats : Formats := [("a", [.compressed, .compressed], [0, 1]), ("b", [.compressed, .compressed], [0, 1])]
def exOut : TensorId := ⟨"0_a", "a", ["i", "j"], [.compressed, .compressed]⟩
def exB : TensorId := ⟨"1_b", "b", ["i", "j"], [.compressed, .compressed]⟩
def exE : IdExpr := .mul (.int 2) (.tensor exB)
def exAssign : Alg.DAssign := ⟨"a", ["i", "j"], .mul (.int 2) (.tensor 1 "b" ["i", "j"])⟩
def exCrd0 : Nat → Int := fun r => [0, 2, 3].getD r 0
def exPos1 : Nat → Nat := fun r => [0, 1, 1, 3].getD r 0
def exCrd1 : Nat → Int := fun q => [1, 0, 2].getD q 0

/-- the stored structure of `b`: three stored rows (coordinates 0, 2, 3; the second one EMPTY), three entries -/
def exD {F : Type} (c : Int → F) : BData F :=
  ⟨3, 3, exCrd0, exPos1, exCrd1, fun q => [c 2, c 5, c 7].getD q (c 0)⟩

/-- generic in the carrier: the state the driver builds for the output `a` (`4 × 3`, empty) and `b` -/
def exStateOf {F : Type} (c : Int → F) : State F :=
  { vars := [⟨"a", .ptr .tensor, some (.tensor 0)⟩, ⟨"b", .ptr .tensor, some (.tensor 1)⟩],
    heap := [⟨.int, [some (.int 4), some (.int 3)], .output, true⟩,
             ⟨.int, [some (.int 4), some (.int 3)], .input, true⟩,
             ⟨.int, [some (.int 0), some (.int 3)], .input, true⟩,
             ⟨.int, [some (.int 0), some (.int 2), some (.int 3)], .input, true⟩,
             ⟨.int, [some (.int 0), some (.int 1), some (.int 1), some (.int 3)], .input, true⟩,
             ⟨.int, [some (.int 1), some (.int 0), some (.int 2)], .input, true⟩,
             ⟨.float, [some (.flt (c 2)), some (.flt (c 5)), some (.flt (c 7))], .input, true⟩],
    tensors := [⟨2, 0, [some (.null, .null), some (.null, .null)], .null, .output⟩,
                ⟨2, 1, [some (.ptr 2 0, .ptr 3 0), some (.ptr 4 0, .ptr 5 0)], .ptr 6 0, .input⟩] }

/-- the context of the instance -/
def exK {F : Type} (ofRat : Rat → F) (c : Int → F) : Ctx F :=
  ⟨ofRat, "i", "j", exOut, exB, exE, exD c, (exStateOf c).heap, (exStateOf c).tensors, 0, 2, 3, 4, 5, 6⟩

theorem exWf {F : Type} (c : Int → F) : (exD c).Wf := by
  refine ⟨rfl, rfl, ?_, ?_, ?_, by show (3 : Nat) < 1073741824; decide, by show (3 : Nat) ≤ 1073741824; decide⟩
  · intro r hr
    have hr' : r < 3 := hr
    show exPos1 r ≤ exPos1 (r + 1)
    match r, hr' with
    | 0, _ => decide
    | 1, _ => decide
    | 2, _ => decide
  · intro r hr
    have hr' : r < 3 := hr
    show -2147483648 ≤ exCrd0 r ∧ exCrd0 r < 2147483648
    match r, hr' with
    | 0, _ => decide
    | 1, _ => decide
    | 2, _ => decide
  · intro q hq
    have hq' : q < 3 := hq
    show -2147483648 ≤ exCrd1 q ∧ exCrd1 q < 2147483648
    match q, hq' with
    | 0, _ => decide
    | 1, _ => decide
    | 2, _ => decide

theorem exOK {F : Type} [FloatOps F] (ofRat : Rat → F) (c : Int → F)
    (hfin : ∀ q, q < 3 → ToIr.AllFinite ofRat (fun _ => (exD c).vals q) exE) : (exK ofRat c).OK := by
  refine
    { names := by show (allNames "i" "j" exOut exB).Nodup; decide,
      ho := by show isSS "i" "j" exOut = true; decide,
      he := by show isExpr "i" "j" exB exE = true; decide, wf := exWf c, fin := hfin,
      p0 := ⟨_, rfl, rfl, rfl, rfl, rfl⟩, c0 := ⟨_, rfl, rfl, rfl, Nat.le_refl _, ?_⟩,
      p1 := ⟨_, rfl, rfl, rfl, ?_⟩, c1 := ⟨_, rfl, rfl, rfl, Nat.le_refl _, ?_⟩, v := ⟨_, rfl, rfl, rfl, ?_⟩ }
  · intro r hr
    have hr' : r < 3 := hr
    match r, hr' with
    | 0, _ => rfl
    | 1, _ => rfl
    | 2, _ => rfl
  · intro r hr
    have hr' : r ≤ 3 := hr
    match r, hr' with
    | 0, _ => rfl
    | 1, _ => rfl
    | 2, _ => rfl
    | 3, _ => rfl
  · intro q hq
    have hq' : q < 3 := hq
    match q, hq' with
    | 0, _ => rfl
    | 1, _ => rfl
    | 2, _ => rfl
  · intro q hq
    have hq' : q < 3 := hq
    match q, hq' with
    | 0, _ => rfl
    | 1, _ => rfl
    | 2, _ => rfl

theorem exInitOf {F : Type} [FloatOps F] (ofRat : Rat → F) (c : Int → F) :
    Init (exK ofRat c) ⟨2, 0, [some (.null, .null), some (.null, .null)], .null, .output⟩
      ⟨2, 1, [some (.ptr 2 0, .ptr 3 0), some (.ptr 4 0, .ptr 5 0)], .ptr 6 0, .input⟩ 1 4 3 (exStateOf c) := by
  refine
    { heap := rfl, tensors := rfl, avar := ⟨_, rfl, rfl, rfl⟩, bvar := ⟨_, rfl, rfl, rfl⟩, fresh := ?_,
      arec := rfl, aown := rfl, aord := Nat.le_refl _, aslot0 := ⟨_, _, rfl, rfl, rfl⟩,
      aslot1 := ⟨_, _, rfl, rfl, rfl⟩, avals := rfl, adim := ⟨_, rfl, rfl, rfl, rfl, rfl⟩, n32 := by decide,
      m32 := by decide, brec := rfl, bord := Nat.le_refl _, bslot0 := rfl, bslot1 := rfl, bvals := rfl }
  intro x h1 h2
  have e1 : ("a" == x) = false := beq_eq_false_iff_ne.2 (Ne.symm h1)
  have e2 : ("b" == x) = false := beq_eq_false_iff_ne.2 (Ne.symm h2)
  simp [lookupVar, exStateOf, List.find?, e1, e2]

/-- **Z1, closed instance**: the graph of the class is the one the front half (`bestAlgorithm`) chooses for the
assignment -/
example : bestAlgorithm exAssign exFormats = .graph (graph "i" "j" exOut exE) := by
  have h : toIterationGraphs exAssign exFormats = .ok [graph "i" "j" exOut exE] := by rfl
  simp only [bestAlgorithm, h]

/-- the instance is in the class -/
example : isSS "i" "j" exOut = true ∧ isExpr "i" "j" exB exE = true := by decide

/-- literals of the instance over `Int`: the numerator -/
def exOfRat : Rat → Int := fun q => q.num

/-- **Z4 is not vacuous** (over `Int`, initial capacity 1 — every growing array is reallocated): every
hypothesis holds on the instance, `generateIr` produces the kernel, and the run returns `0` after
`3 + 3 = 6` iterations and leaves `pos0 = [0, 2]`, `crd0 = [0, 3]` (the empty stored row `2` is dropped),
`pos1 = [0, 1, 3]`, `crd1 = [1, 0, 2]`, `vals = [4, 10, 14, ·]` in fresh blocks the output record points to. -/
example : ∃ f o, generateIr exOfRat (some 1) exAssign exFormats (graph "i" "j" exOut exE) .evaluate = .ok f ∧
    exec 8 f.body (exStateOf (F := Int) id) = .ok o ∧ o.ret = some (.int 0) ∧ o.iters = 6 ∧
    ∃ tr' p0 c0 p1 c1 v vblk, o.st.tensors[0]? = some tr' ∧
      tr'.slots = [some (.ptr p0 0, .ptr c0 0), some (.ptr p1 0, .ptr c1 0)] ∧ tr'.vals = .ptr v 0 ∧
      o.st.heap[p0]? = some ⟨.int, [some (.int 0), some (.int 2)], .output, true⟩ ∧
      o.st.heap[c0]? = some ⟨.int, [some (.int 0), some (.int 3)], .output, true⟩ ∧
      o.st.heap[p1]? = some ⟨.int, [some (.int 0), some (.int 1), some (.int 3)], .output, true⟩ ∧
      o.st.heap[c1]? = some ⟨.int, [some (.int 1), some (.int 0), some (.int 2)], .output, true⟩ ∧
      o.st.heap[v]? = some vblk ∧ vblk.live = true ∧ vblk.cells.length = 4 ∧
      vblk.cells[0]? = some (some (.flt 4)) ∧ vblk.cells[1]? = some (some (.flt 10)) ∧
      vblk.cells[2]? = some (some (.flt 14)) := by
  have hgen := sparse2_generateIr_eq exOfRat (some 1) exAssign exFormats "i" "j" exOut exB exE (by decide)
    (by decide) (by decide) (by decide) (by decide) rfl (by decide)
  obtain ⟨o, eo, hret, hit, ⟨tr', p0, c0, p1, c1, v, vblk, h1, _, _, _, h5, h6, _, _, h9, h10, h11, h12, h13, h14,
    _, _, h17, h18⟩, _⟩ :=
    sparse2_kernel_correct exOfRat (some 1) exAssign exFormats "i" "j" exOut exB exE (by decide) (by decide) rfl
      (by decide) rfl (by decide) (by decide) (exD (F := Int) id) 0 1 _ _ 4 3 2 3 4 5 6 (exStateOf (F := Int) id)
      (exOK exOfRat id (fun q _ => ToIr.Ex.allFinite_int _ _ _)) (exInitOf exOfRat id) _ hgen 8 (by decide)
  exact ⟨_, o, hgen, eo, hret, hit, tr', p0, c0, p1, c1, v, vblk, h1, h5, h6, h9, h10, h11, h12, h13, h14, h17,
    h18 0 (by decide), h18 1 (by decide), h18 2 (by decide)⟩

/-- the result of the instance is a well-formed `4 × 3` doubly compressed matrix; the empty stored row of `b`
is not a row of the result -/
example : Storage.wfCheck (storedMat 4 3 [0, 3] [0, 1, 3] [1, 0, 2] [4, 10, 14]) = true := by decide

example : (exD (F := Int) id).outCrd0 3 = [0, 3] ∧ (exD (F := Int) id).outPos1 3 = [0, 1, 3] := by decide

/-- **Z5 is not vacuous**: the same instance over the exact carrier `Rat`, default initial capacity; the stored
values are `Graph.value` of `2 * b(i,j)` at the entries of `b` -/
example : ∃ (f : Func Rat) (o : Out Rat),
    generateIr (F := Rat) id none exAssign exFormats (graph "i" "j" exOut exE) .evaluate = .ok f ∧
    exec 8 f.body (exStateOf (fun z => (z : Rat))) = .ok o ∧ o.ret = some (.int 0) ∧ o.iters = 6 ∧
    ∃ (v : Nat) (vblk : Block Rat), o.st.heap[v]? = some vblk ∧ vblk.live = true ∧
      ∀ q, q < 3 → vblk.cells[q]? = some (some (.flt (value
        (fun _ => (exD (fun z => (z : Rat))).vals q) exE))) := by
  have hgen := sparse2_generateIr_eq (F := Rat) id none exAssign exFormats "i" "j" exOut exB exE (by decide)
    (by decide) (by decide) (by decide) (by decide) rfl (by decide)
  obtain ⟨o, eo, hret, hit, tr', p0, c0, p1, c1, v, vblk, _, _, _, _, _, _, _, h13, h14, _, h18⟩ :=
    sparse2_kernel_exact none exAssign exFormats "i" "j" exOut exB exE (by decide) (by decide) rfl
      (by decide) rfl (by decide) (by decide) (exD (fun z => (z : Rat))) 0 1 _ _ 4 3 2 3 4 5 6
      (exStateOf (fun z => (z : Rat))) (exOK id _ (fun q _ => ToIr.allFinite_rat _ _ _)) (exInitOf id _) _ hgen 8
      (by decide)
  exact ⟨_, o, hgen, eo, hret, hit, v, vblk, h13, h14, h18⟩

/-- the static hypotheses `Ctx.OK` hold on the instance -/
example : (exK exOfRat (F := Int) id).OK := exOK exOfRat id (fun _ _ => ToIr.Ex.allFinite_int _ _ _)

/-- **the hypotheses of Z3 are satisfiable**: on the instance, the state reached after the prologue and the
first two lines of the iteration block (`prologue_runs`, `outer_entry`) satisfies every hypothesis of
`sparse2_loops_correct` (this is how Z4's proof uses Z3, for every input) -/
example : ∃ (σ : State Int) (S : OutSt Int), St (exK exOfRat id) S σ ∧ Shape (exK exOfRat id) S 0 ∧
    IntVar σ ((exK exOfRat id).n .pA0) 0 ∧ IntVar σ ((exK exOfRat id).n .pA1) 0 ∧
    MergeInv σ [(exK exOfRat id).cur0] (exK exOfRat id).i ∧ Scr (exK exOfRat id) σ := by
  have ok := exOK exOfRat (F := Int) id (fun _ _ => ToIr.Ex.allFinite_int _ _ _)
  obtain ⟨σC, _, entry⟩ := prologue_runs ok (some 1) (by decide) (by decide) (exInitOf exOfRat id) 0
  obtain ⟨σD, _, h⟩ := outer_entry ok 0 σC _ entry
  exact ⟨σD, _, h⟩

/-- **the hypotheses of Z2 are satisfiable**: on the instance, for the first stored row (`r = 0`, one entry),
the state reached at the entry of the inner loop (`inner_entry0`) satisfies every hypothesis of
`sparse2_inner_loop_correct` -/
example : ∃ (σ : State Int) (S : OutSt Int), St (exK exOfRat id) S σ ∧
    S.cells .c1 = (exK exOfRat id).crd1Cells ((exK exOfRat id).d.pos1 0) ∧
    S.cells .v = (exK exOfRat id).valsCells ((exK exOfRat id).d.pos1 0) ∧
    IntVar σ ((exK exOfRat id).n .pA1) ((exK exOfRat id).d.pos1 0) ∧
    MergeInv σ [(exK exOfRat id).cur1 0] (exK exOfRat id).j ∧
    FlagVal σ ((exK exOfRat id).n .w0) false ∧ FlagOK σ ((exK exOfRat id).n .w1) := by
  have ok := exOK exOfRat (F := Int) id (fun _ _ => ToIr.Ex.allFinite_int _ _ _)
  obtain ⟨σC, _, entry⟩ := prologue_runs ok (some 1) (by decide) (by decide) (exInitOf exOfRat id) 0
  obtain ⟨σ', h⟩ := inner_entry0 ok (by show 0 < 3; decide) 0 σC _ entry
  exact ⟨σ', _, h⟩

/-- the hypotheses of `sparse2_result_wf`, `sparse2_no_phantom`, `sparse2_exact_meaning` on the instance: the
dense reading of the result at `(3, 2)` is `2 * 7`, at the empty row `(2, 0)` it is `0` -/
example : (exD (fun z => (z : Rat))).outAt exE 3 2 = 14 ∧ (exD (fun z => (z : Rat))).outAt exE 2 0 = 0 := by
  constructor <;> decide +kernel

end TV.Sparse2
