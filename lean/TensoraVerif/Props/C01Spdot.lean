import TensoraVerif.Lemmas.SpdotExact
import TensoraVerif.Props.C01Spmul
import TensoraVerif.Model.FloatLaws

/-!
# C01, end to end, for a SPARSE CONTRACTION: the dot product of two sparse vectors `a() = b(i) * c(i)`

`a` a scalar (format ``), `b`, `c` order-1 tensors stored compressed (`s`); class `Spdot.isClass`, terminal
expression `Spmul.mulE bT cT`, iteration graph `Spdot.graph i bT cT = .iter i none (.terminal (b * c))` — a
CONTRACTION node (no output layer) that is sparse. This combines the intersection merge loop of `C01Spmul` with
the scalar bucket output of `C01DenseTerm` (`dot_kernel_correct`). What `lower` REALLY emits (`spdot_lower_eq`,
by unfolding `lower` on the class), inside the kernel `spdot_generateIr_eq`:

```
int i_dim = b->dimensions[0];                                   // from b: the output has no dimension
double* a_vals = a->vals; <pos, crd, vals of b and of c>
int a_vals_capacity = 1; a_vals = malloc(a_vals_capacity);       // the initial capacity parameter is NOT used
// Bucket initialization
double* bucket_0_a = a_vals + 0 * 1; int i_bucket_0_a = 0;
while (i_bucket_0_a < 1) { bucket_0_a[i_bucket_0_a] = 0; i_bucket_0_a = i_bucket_0_a + 1; }
int p_b = b_pos[0]; int p_b_end = b_pos[1]; int p_c = c_pos[0]; int p_c_end = c_pos[1];
while ((true && p_b < p_b_end) && p_c < p_c_end) {
  int i_b = b_crd[p_b]; int i_c = c_crd[p_c]; int i = min(i_b, i_c);
  if ((true && i_b == i) && i_c == i) { bucket_0_a[0] = bucket_0_a[0] + b_vals[p_b] * c_vals[p_c]; }
  p_b = p_b + (int)(i_b == i); p_c = p_c + (int)(i_c == i);
}
a->vals = a_vals; return 0;
```

No `written` flag, no `crd`/`pos` output, no tail loop, no cleanup realloc.

* D1 `spdot_lower_eq`, `spdot_generateIr_eq`, `spdot_lattice`, `spdot_bestAlgorithm`.
* (a) `spdot_body_step` — the statement between `min` and the increments: adds `b[p_b] * c[p_c]` to the
  accumulator iff both operands sit on the minimum; otherwise the state is not changed at all.
* D2 `spdot_loop_correct` — the loop: at most `m_b + m_c` iterations, the accumulator ends as
  `dotSum (Spmul.intersect b c)` = `foldl (+) (ofInt 0)` over the products of the matching pairs in merge order.
* D3 `spdot_kernel_correct` — the whole `evaluate` function from `Init`: returns `0`; EXACTLY one block is
  appended to the heap, the one-cell output block holding that sum, and `a->vals` points to it; inputs untouched.
* D4 `spdot_denote`, `spdot_kernel_exact` — over `Rat`, under strictly increasing coordinates, the cell is
  `Alg.denote` of the source assignment at `[]` = `Σ_{x < d} b[x] * c[x]`.
* non-vacuity: `b = {0:1, 2:2, 5:3}`, `c = {2:10, 3:20, 5:30}` → `110`, 1 + 4 loop iterations.

Vocabulary: `Lemmas/SpdotModel.lean` (class, emitted loop), `SpdotGenerate.lean` (kernel, `FmtOK`),
`SpdotNames.lean` (`KNames`), `SpdotBody.lean` (`dotSum`, `accBlock`, `LoopPre`, `Inv`), `SpdotLoop.lean`
(`SumsFinite`), `SpdotPrologue.lean` (`Init`), `SpdotKernel.lean` (`KernelOK`, `KernelPost`); the reference
`Spmul.intersect`, `assoc`, `vecAt` are those of the element-wise product.
-/
namespace TV.Spdot
open TV.IR TV.Gen TV.Graph TV.Growth TV.Merge
open TV.Sparse1 (isSp inLeaf)
open TV.Spmul (mulE env intersect assoc vecAt)

variable {F : Type} [FloatOps F]

/-! ### D1: what the pass emits -/

/-- **The lowered iteration block.** For every graph of the class, `lower` (any fuel `≥ 2`) succeeds and
returns `loopLines`: the "Bucket initialization" block (`bucket = a_vals + 0 * 1`, one-cell zero-initialisation
loop), the cursor/end declarations of `b` and of `c`, and ONE loop — literally C05's skeleton
`mergeLoopL [b, c] i [midStmt …]` whose `mid` is the single branch
`if ((true && i_b == i) && i_c == i) { bucket[0] = bucket[0] + b_vals[p_b] * c_vals[p_c] }`. No flag, no `crd`
or `pos` statement, no tail loop. -/
theorem spdot_lower_eq (ofRat : Rat → F) (k : Nat) (i : String) (outT bT cT : TensorId)
    (hcl : isClass i outT bT cT = true) :
    lower ofRat (k + 2) (graph i bT cT) (.append outT 0) .evaluate =
      .ok ⟨some ("*** Iteration over " ++ i ++ " ***"), loopLines ofRat i outT bT cT⟩ :=
  lower_eq ofRat k i outT bT cT hcl

/-- **The generated kernel.** For the desugared assignment `out() = Σ_i b(i) * c(i)`, the format table
`[out: scalar, b: compressed, c: compressed]` and the graph of the class, `generateIr` succeeds (whatever the
initial-capacity parameter `cap`, which is not used) and returns exactly `Spdot.kernel`. -/
theorem spdot_generateIr_eq (ofRat : Rat → F) (cap : Option Int) (a : Alg.DAssign) (formats : Formats)
    (i : String) (outT bT cT : TensorId) (k1 k2 : Nat)
    (hout : tensorId 0 a.tname formats a.tidx = some outT)
    (hcl : isClass i outT bT cT = true) (hf : FmtOK formats outT bT cT)
    (hidx : a.tidx = [])
    (hrhs : a.rhs = .contract i (.mul (.tensor k1 bT.name [i]) (.tensor k2 cT.name [i]))) :
    generateIr ofRat cap a formats (graph i bT cT) .evaluate =
      .ok (kernel ofRat formats i outT bT cT) := by
  refine generateIr_eq ofRat cap a formats i outT bT cT hout (Dense1.tensorId_name hout) hcl hf ?_
  obtain ⟨an, tidx, rhs⟩ := a
  simp only at hidx hrhs
  subst hidx hrhs
  exact DenseTerm.indexDimensions_dot an bT.name cT.name i k1 k2

/-- **The co-iteration lattice of the class**: the graph itself and the "zero graph" (terminal = the literal
`Integer 0`); exhausting EITHER operand gives the zero graph, which has no compressed dimension and is skipped both
as a loop (no tail loop) and as an `else if` branch. -/
theorem spdot_lattice (i : String) (outT bT cT : TensorId) (hcl : isClass i outT bT cT = true) :
    generateSubgraphs (graph i bT cT) = [graph i bT cT, zeroGraph i] ∧
    (graph i bT cT).exhaust bT.id = zeroGraph i ∧
    (graph i bT cT).exhaust cT.id = zeroGraph i ∧
    compressedDims (graph i bT cT) = [bT.id, cT.id] ∧ compressedDims (zeroGraph i) = [] := by
  obtain ⟨_, _, hb, hc, hne⟩ := (isClass_iff i outT bT cT).1 hcl
  exact ⟨generateSubgraphs_eq i bT cT hb hc hne, exhaust_b i bT cT, exhaust_c i bT cT hne,
    compressedDims_graph i bT cT hb hc hne, compressedDims_zero i⟩

/-! ### (a) the loop body step -/

/-- **(a) One iteration, between the `min` and the increments.** Let the state `σ` satisfy the loop invariant
`Inv` with accumulator `acc` (heap = that of the loop entry with the output block `= [acc]`; tensor records and all
variables other than the skeleton's own as at loop entry), the input cursors hold positions `q < mb`, `r < mc`,
and `i_b`, `i_c`, `i` hold the int32s `xb`, `xc`, `x`. Then `if ((true && i_b == i) && i_c == i) { bucket[0] =
bucket[0] + b_vals[p_b] * c_vals[p_c] }` runs without error for every fuel, and
* if `xb = x` and `xc = x` (then finiteness of `b[q]`, `c[r]`, `b[q] * c[r]`, `acc` and the new sum are assumed)
  the invariant holds with accumulator `acc + b[q] * c[r]`;
* otherwise the final state IS the initial state;
no variable is written, and of the heap only the output block. -/
theorem spdot_body_step {ofRat : Rat → F} {i : String} {outT bT cT : TensorId} {mb mc bvb cvb : Nat}
    {cellsB cellsC : Nat → F} {vb0 : Nat} {σ0 : State F}
    (N : KNames i outT bT cT) (hb : isSp i bT = true) (hc : isSp i cT = true)
    (pre : LoopPre outT bT cT mb mc bvb cvb cellsB cellsC vb0 σ0)
    (fuel : Nat) (σ : State F) (acc : F) (q r : Nat) (xb xc x : Int) (hq : q < mb) (hr : r < mc)
    (hinv : Inv i bT cT vb0 σ0 acc σ)
    (hpB : IntVar σ (layerPointer bT.id 0) q) (hpC : IntVar σ (layerPointer cT.id 0) r)
    (hvB : IntVar σ (valueFromCrd bT.id 0) xb) (hvC : IntVar σ (valueFromCrd cT.id 0) xc)
    (hi : IntVar σ i x)
    (hb0 : -2147483648 ≤ xb) (hb1 : xb < 2147483648) (hc0 : -2147483648 ≤ xc) (hc1 : xc < 2147483648)
    (hr0 : -2147483648 ≤ x) (hr1 : x < 2147483648)
    (hboth : xb = x → xc = x → ToIr.AllFinite ofRat (env bT (cellsB q) (cellsC r)) (mulE bT cT) ∧
      FloatOps.finite acc = true ∧
      FloatOps.finite (FloatOps.add acc (FloatOps.mul (cellsB q) (cellsC r))) = true) :
    ∃ σ', RunsL fuel [midStmt ofRat i outT bT cT] σ σ' ∧
      Inv i bT cT vb0 σ0
        (if xb = x ∧ xc = x then FloatOps.add acc (FloatOps.mul (cellsB q) (cellsC r)) else acc) σ' ∧
      (¬ (xb = x ∧ xc = x) → σ' = σ) ∧ σ'.vars = σ.vars ∧
      (∀ k, k ≠ vb0 → σ'.heap[k]? = σ.heap[k]?) :=
  mid_step N hb hc pre fuel σ acc q r xb xc x hq hr hinv hpB hpC hvB hvC hi hb0 hb1 hc0 hc1 hr0 hr1 hboth

/-! ### D2: the whole loop -/

/-- **D2 (the merge loop computes the sparse dot product).** Let the state `σ` satisfy the merge invariant of the
two input leaves (cursors `0`, ends `mb`, `mc ≤ 2^30`, `crd` blocks `bcb`, `ccb` holding the int32 coordinates
`crdB`, `crdC`) and the loop invariant `Inv` for the accumulator `ofInt 0` (what the bucket initialisation
stores), let the product be finite wherever the two operands store the same coordinate, and every prefix sum
of the matched products (in merge order) be finite. Then the emitted loop runs WITHOUT ERROR with any fuel
`≥ mb + mc + 1`, terminates after AT MOST `mb + mc` iterations (exactly `|mergeTrace|`), and ends with the loop
invariant for the accumulator

  `dotSum (intersect (assoc mb crdB cellsB) (assoc mc crdC cellsC))`
  `= foldl (fun f p => f + p.2) (ofInt 0) (intersect …)`

— the heap is the one of the loop entry with the output block `= [that sum]`. Strictly increasing coordinates are
NOT needed for the run (`intersect` is the two-finger function; by `spmul_intersect_spec` it is, for sorted
inputs, the list of products `b[q] * c[r]` at the common coordinates in increasing order). -/
theorem spdot_loop_correct {ofRat : Rat → F} {i : String} {outT bT cT : TensorId} {mb mc bvb cvb : Nat}
    {cellsB cellsC : Nat → F} {crdB crdC : Nat → Int} {vb0 : Nat} {σ0 : State F}
    (N : KNames i outT bT cT) (hb : isSp i bT = true) (hc : isSp i cT = true)
    (pre : LoopPre outT bT cT mb mc bvb cvb cellsB cellsC vb0 σ0)
    (hfin : ∀ q r, q < mb → r < mc → crdB q = crdC r →
      ToIr.AllFinite ofRat (env bT (cellsB q) (cellsC r)) (mulE bT cT))
    (hsum : ∀ n, n ≤ (intersect (assoc mb crdB cellsB) (assoc mc crdC cellsC)).length →
      FloatOps.finite (dotSum ((intersect (assoc mb crdB cellsB) (assoc mc crdC cellsC)).take n)) = true)
    (bcb ccb : Nat) (hblkB : bcb ≠ vb0) (hblkC : ccb ≠ vb0)
    (fuel : Nat) (σ : State F) (hfuel : mb + mc + 1 ≤ fuel)
    (hM : MergeInv σ [⟨inLeaf bT, bcb, crdB, 0, mb⟩, ⟨inLeaf cT, ccb, crdC, 0, mc⟩] i)
    (hP : Inv i bT cT vb0 σ0 (FloatOps.ofInt 0) σ) :
    ∃ o, exec fuel (mergeLoopL [inLeaf bT, inLeaf cT] i [midStmt ofRat i outT bT cT]) σ = .ok o ∧
      o.ret = none ∧ o.iters ≤ mb + mc ∧
      o.iters = (mergeTrace [⟨inLeaf bT, bcb, crdB, 0, mb⟩, ⟨inLeaf cT, ccb, crdC, 0, mc⟩]).length ∧
      Inv i bT cT vb0 σ0 (dotSum (intersect (assoc mb crdB cellsB) (assoc mc crdC cellsC))) o.st ∧
      o.st.heap = σ0.heap.set vb0
        ⟨.float, [some (.flt (dotSum (intersect (assoc mb crdB cellsB) (assoc mc crdC cellsC))))], .output,
          true⟩ := by
  obtain ⟨o, h1, h2, h3, h4, h5⟩ :=
    loop_runs N hb hc pre hfin hsum bcb ccb hblkB hblkC fuel σ hfuel hM hP
  exact ⟨o, h1, h2, h3, h4, h5, h5.heap⟩

/-- the accumulator is the left fold of `+` over the values of the matched entries, from `ofInt 0` -/
theorem spdot_dotSum_eq (l : List (Int × F)) :
    dotSum l = (l.map (·.2)).foldl FloatOps.add (FloatOps.ofInt 0) := by
  simp [dotSum, List.foldl_map]

/-! ### D3: the whole kernel -/

/-- **D3 (the generated `evaluate` kernel of `a() = b(i) * c(i)` is correct).** Let `a` be the desugared
assignment `out() = Σ_i b(i) * c(i)`, `formats` the table `[out: scalar, b: compressed, c: compressed]`, `outT` the
output tensor as `generateIr` computes it, `bT`, `cT` the two input occurrences, with the static side conditions
`KernelOK` (index and tensor names without `'_'` and pairwise different, different tensor ids, the two bucket
names of no other kind of generated name). Let `σ` be an initial machine state as the driver builds it (`Init`):
the variables are exactly the three tensor parameters; the output record `ta` (contents `atr`) is output-owned
with `vals` a pointer or `NULL`; each input record's `pos` block is `[0, m]`, its `crd` block holds
`crd 0 … crd (m-1)`, its `vals` block `cells 0 … cells (m-1)`; `b`'s `dimensions[0]` is an int32. Side conditions
on the inputs: `mb, mc ≤ 2^30`, int32 coordinates, wherever the two operands store the same coordinate both
values and their product are finite, and every prefix sum of the matched products is finite. (Strictly
increasing coordinates are NOT needed for the run.)

Then the function `f` that `generateIr` produces runs on the machine with any fuel `≥ mb + mc + 2` WITHOUT ERROR,
**returns `0`** after exactly `1 + |mergeTrace| ≤ 1 + mb + mc` loop iterations (one for the bucket
initialisation), and in the final state, with `S := dotSum (intersect (assoc mb crdB cellsB) (assoc mc crdC
cellsC))`:
* the heap is EXACTLY the initial heap followed by ONE new block: the live, output-owned float block `[S]`
  (one cell) — in particular every block of the initial heap (all inputs) is unchanged;
* the tensor records are EXACTLY the initial ones with `vals` of the output record set to the base address of
  that block — in particular every other record is unchanged. -/
theorem spdot_kernel_correct (ofRat : Rat → F) (cap : Option Int) (a : Alg.DAssign) (formats : Formats)
    (i : String) (outT bT cT : TensorId) (k1 k2 : Nat)
    (hout : tensorId 0 a.tname formats a.tidx = some outT)
    (hcl : isClass i outT bT cT = true) (hidx : a.tidx = [])
    (hrhs : a.rhs = .contract i (.mul (.tensor k1 bT.name [i]) (.tensor k2 cT.name [i])))
    (ok : KernelOK formats i outT bT cT)
    (ta : Nat) (atr : TensorRec F) (n : Int)
    (tb : Nat) (btr : TensorRec F) (mb bpb bcb bvb : Nat) (crdB : Nat → Int) (cellsB : Nat → F)
    (tc : Nat) (ctr : TensorRec F) (mc cpb ccb cvb : Nat) (crdC : Nat → Int) (cellsC : Nat → F)
    (σ : State F)
    (init : Init outT bT cT ta atr n tb btr mb bpb bcb bvb crdB cellsB tc ctr mc cpb ccb cvb crdC cellsC σ)
    (hmb : mb ≤ 1073741824) (hmc : mc ≤ 1073741824)
    (hrngB : ∀ j, j < mb → -2147483648 ≤ crdB j ∧ crdB j < 2147483648)
    (hrngC : ∀ j, j < mc → -2147483648 ≤ crdC j ∧ crdC j < 2147483648)
    (hfin : ∀ q r, q < mb → r < mc → crdB q = crdC r →
      ToIr.AllFinite ofRat (env bT (cellsB q) (cellsC r)) (mulE bT cT))
    (hsum : ∀ n, n ≤ (intersect (assoc mb crdB cellsB) (assoc mc crdC cellsC)).length →
      FloatOps.finite (dotSum ((intersect (assoc mb crdB cellsB) (assoc mc crdC cellsC)).take n)) = true)
    (f : Func F) (hgen : generateIr ofRat cap a formats (graph i bT cT) .evaluate = .ok f)
    (fuel : Nat) (hfuel : mb + mc + 2 ≤ fuel) :
    ∃ o, exec fuel f.body σ = .ok o ∧ o.ret = some (.int 0) ∧ o.iters ≤ mb + mc + 1 ∧
      o.iters = (mergeTrace [⟨inLeaf bT, bcb, crdB, 0, mb⟩, ⟨inLeaf cT, ccb, crdC, 0, mc⟩]).length + 1 ∧
      o.st.heap = σ.heap ++
        [⟨.float, [some (.flt (dotSum (intersect (assoc mb crdB cellsB) (assoc mc crdC cellsC))))], .output,
          true⟩] ∧
      o.st.tensors = σ.tensors.set ta { atr with vals := .ptr σ.heap.length 0 } ∧
      (∀ k, k < σ.heap.length → o.st.heap[k]? = σ.heap[k]?) ∧
      (∀ k, k ≠ ta → o.st.tensors[k]? = σ.tensors[k]?) := by
  rw [spdot_generateIr_eq ofRat cap a formats i outT bT cT k1 k2 hout hcl ok.fmt hidx hrhs] at hgen
  cases hgen
  obtain ⟨o, eo, hret, hit1, hit2, hp⟩ := kernel_runs ofRat formats i outT bT cT hcl ok.names init hmb hmc
    hrngB hrngC hfin hsum fuel hfuel
  refine ⟨o, eo, hret, hit1, hit2, hp.heap, hp.tensors, ?_, ?_⟩
  · intro k hk
    rw [hp.heap, List.getElem?_append_left hk]
  · intro k hk
    rw [hp.tensors, List.getElem?_set_ne (Ne.symm hk)]

/-! ### D4: the exact carrier and the source assignment -/

/-- **D4a (the meaning of the stored scalar).** Over the exact carrier `Rat`, for strictly increasing
coordinates, those of `b` within the dimension `sizes i`: the accumulated sum `dotSum (intersect b c)` equals
C01's specification `Alg.denote` of the SOURCE assignment `a() = b(i) * c(i)` at the empty coordinate, i.e.
`Σ_{x < sizes i} b[x] * c[x]` (`denote_dot`), for every valuation `inputs` that reads `b` and `c` as the dense
readings of the two stored inputs (value at `x`, `0` where nothing is stored). -/
theorem spdot_denote {mb mc : Nat} {crdB crdC : Nat → Int} (cellsB cellsC : Nat → Rat)
    (hsB : ∀ j k, j < k → k < mb → crdB j < crdB k) (hsC : ∀ j k, j < k → k < mc → crdC j < crdC k)
    (an bn cn i : String) (inputs : Alg.Inputs) (sizes : Alg.Sizes)
    (hrB : ∀ j, j < mb → 0 ≤ crdB j ∧ crdB j < sizes i)
    (hinB : ∀ x : Nat, inputs bn [x] = vecAt (assoc mb crdB cellsB) x)
    (hinC : ∀ x : Nat, inputs cn [x] = vecAt (assoc mc crdC cellsC) x) :
    dotSum (intersect (assoc mb crdB cellsB) (assoc mc crdC cellsC)) =
      Alg.denote ⟨an, [], .mul (.tensor bn [i]) (.tensor cn [i])⟩ inputs sizes [] ∧
    Alg.denote ⟨an, [], .mul (.tensor bn [i]) (.tensor cn [i])⟩ inputs sizes [] =
      Alg.sumRange (sizes i) (fun x => inputs bn [x] * inputs cn [x]) :=
  ⟨dotSum_denote cellsB cellsC hsB hsC an bn cn i inputs sizes hrB hinB hinC,
    DenseTerm.denote_dot inputs sizes an bn cn i⟩

/-- **D4 (exact instance, from the source assignment).** Over the exact carrier `Rat` (every value finite, exact
arithmetic, literals through `id`), for the kernel generated from the DESUGARED source assignment
`an() = bn(i) * cn(i)`: no finiteness hypothesis is left; the kernel returns `0`, appends exactly one block — the
one-cell output block — to the heap and hands it to the output record, and under strictly increasing coordinates
(those of `b` within the dimension) that cell is `Alg.denote` of the source assignment at `[]`. -/
theorem spdot_kernel_exact (cap : Option Int) (an bn cn : String) (formats : Formats)
    (i : String) (outT bT cT : TensorId)
    (hout : tensorId 0 an formats [] = some outT)
    (hcl : isClass i outT bT cT = true) (hbn : bT.name = bn) (hcn : cT.name = cn)
    (ok : KernelOK formats i outT bT cT)
    (ta : Nat) (atr : TensorRec Rat) (n : Int)
    (tb : Nat) (btr : TensorRec Rat) (mb bpb bcb bvb : Nat) (crdB : Nat → Int) (cellsB : Nat → Rat)
    (tc : Nat) (ctr : TensorRec Rat) (mc cpb ccb cvb : Nat) (crdC : Nat → Int) (cellsC : Nat → Rat)
    (σ : State Rat)
    (init : Init outT bT cT ta atr n tb btr mb bpb bcb bvb crdB cellsB tc ctr mc cpb ccb cvb crdC cellsC σ)
    (hmb : mb ≤ 1073741824) (hmc : mc ≤ 1073741824)
    (hrngB : ∀ j, j < mb → -2147483648 ≤ crdB j ∧ crdB j < 2147483648)
    (hrngC : ∀ j, j < mc → -2147483648 ≤ crdC j ∧ crdC j < 2147483648)
    (hsB : ∀ j k, j < k → k < mb → crdB j < crdB k) (hsC : ∀ j k, j < k → k < mc → crdC j < crdC k)
    (f : Func Rat)
    (hgen : generateIr id cap (Alg.desugar ⟨an, [], .mul (.tensor bn [i]) (.tensor cn [i])⟩) formats
      (graph i bT cT) .evaluate = .ok f)
    (inputs : Alg.Inputs) (sizes : Alg.Sizes)
    (hrB : ∀ j, j < mb → 0 ≤ crdB j ∧ crdB j < sizes i)
    (hinB : ∀ x : Nat, inputs bn [x] = vecAt (assoc mb crdB cellsB) x)
    (hinC : ∀ x : Nat, inputs cn [x] = vecAt (assoc mc crdC cellsC) x)
    (fuel : Nat) (hfuel : mb + mc + 2 ≤ fuel) :
    ∃ o, exec fuel f.body σ = .ok o ∧ o.ret = some (.int 0) ∧ o.iters ≤ mb + mc + 1 ∧
      o.st.heap = σ.heap ++
        [⟨.float, [some (.flt (Alg.denote ⟨an, [], .mul (.tensor bn [i]) (.tensor cn [i])⟩ inputs sizes []))],
          .output, true⟩] ∧
      o.st.tensors = σ.tensors.set ta { atr with vals := .ptr σ.heap.length 0 } := by
  rw [DenseTerm.desugar_dot] at hgen
  subst hbn hcn
  obtain ⟨o, eo, hret, hit, _, hheap, hten, _, _⟩ :=
    spdot_kernel_correct id cap (DenseTerm.dotAssign an bT.name cT.name i 1 2) formats i outT bT cT 1 2 hout hcl
      rfl rfl ok ta atr n tb btr mb bpb bcb bvb crdB cellsB tc ctr mc cpb ccb cvb crdC cellsC σ init hmb hmc
      hrngB hrngC (fun q r _ _ _ => Spmul.allFinite_rat _ _ _ _ _) (fun _ _ => rfl) f hgen fuel hfuel
  rw [(spdot_denote cellsB cellsC hsB hsC an bT.name cT.name i inputs sizes hrB hinB hinC).1] at hheap
  exact ⟨o, eo, hret, hit, hheap, hten⟩

/-! ### non-vacuity: `b = {0:1, 2:2, 5:3}`, `c = {2:10, 3:20, 5:30}`, dimension 6 → `110` -/

open TV.Spmul (exB exC exCrdB exCrdC exCellsB exCellsC exCells3 exSortedB exSortedC exRangeB exRangeC exOfRat
  exTrace exIntersect)

def exFormats : Formats := [("a", [], []), ("b", [.compressed], [0]), ("c", [.compressed], [0])]
def exOut : TensorId := ⟨"0_a", "a", [], []⟩
def exSrc : Alg.Assign := ⟨"a", [], .mul (.tensor "b" ["i"]) (.tensor "c" ["i"])⟩
def exAssign : Alg.DAssign := ⟨"a", [], .contract "i" (.mul (.tensor 1 "b" ["i"]) (.tensor 2 "c" ["i"]))⟩

/-- generic in the carrier: the state the driver builds for the scalar output `a` (order 0, no `vals` yet),
`b = {0: c 1, 2: c 2, 5: c 3}` and `c = {2: c 10, 3: c 20, 5: c 30}` (dimension 6) -/
def exStateOf {F : Type} (c : Int → F) : State F :=
  { vars := [⟨"a", .ptr .tensor, some (.tensor 0)⟩, ⟨"b", .ptr .tensor, some (.tensor 1)⟩,
             ⟨"c", .ptr .tensor, some (.tensor 2)⟩],
    heap := [⟨.int, [], .output, true⟩,
             ⟨.int, [some (.int 6)], .input, true⟩,
             ⟨.int, [some (.int 0), some (.int 3)], .input, true⟩,
             ⟨.int, [some (.int 0), some (.int 2), some (.int 5)], .input, true⟩,
             ⟨.float, [some (.flt (c 1)), some (.flt (c 2)), some (.flt (c 3))], .input, true⟩,
             ⟨.int, [some (.int 6)], .input, true⟩,
             ⟨.int, [some (.int 0), some (.int 3)], .input, true⟩,
             ⟨.int, [some (.int 2), some (.int 3), some (.int 5)], .input, true⟩,
             ⟨.float, [some (.flt (c 10)), some (.flt (c 20)), some (.flt (c 30))], .input, true⟩],
    tensors := [⟨0, 0, [], .null, .output⟩,
                ⟨1, 1, [some (.ptr 2 0, .ptr 3 0)], .ptr 4 0, .input⟩,
                ⟨1, 5, [some (.ptr 6 0, .ptr 7 0)], .ptr 8 0, .input⟩] }

/-- **D1, closed instance**: the source assignment desugars to `exAssign`, and the graph of the class is the
one the front half (`bestAlgorithm`) chooses for it -/
theorem spdot_bestAlgorithm :
    Alg.desugar exSrc = exAssign ∧
    bestAlgorithm exAssign exFormats = .graph (graph "i" exB exC) := by
  refine ⟨by decide, ?_⟩
  have h : toIterationGraphs exAssign exFormats = .ok [graph "i" exB exC] := by rfl
  simp only [bestAlgorithm, h]

/-- the instance is in the class -/
example : isClass "i" exOut exB exC = true := by decide

theorem exKernelOK : KernelOK exFormats "i" exOut exB exC :=
  ⟨⟨⟨by decide, by decide, by decide, by decide, by decide, by decide, by decide, by decide, by decide,
    by decide, by decide, by decide, by decide⟩, by decide, by decide⟩, ⟨[], [0], [0], rfl⟩⟩

theorem exInitOf {F : Type} [FloatOps F] (c : Int → F) :
    Init exOut exB exC 0 ⟨0, 0, [], .null, .output⟩ 6
      1 ⟨1, 1, [some (.ptr 2 0, .ptr 3 0)], .ptr 4 0, .input⟩ 3 2 3 4 exCrdB (exCellsB c)
      2 ⟨1, 5, [some (.ptr 6 0, .ptr 7 0)], .ptr 8 0, .input⟩ 3 6 7 8 exCrdC (exCellsC c) (exStateOf c) := by
  refine
    { avar := ⟨_, rfl, rfl, rfl⟩, fresh := ?_, arec := rfl, aown := rfl, avals := rfl,
      bdim := ⟨_, rfl, rfl, rfl, rfl⟩, n32 := by decide,
      b := { var := ⟨_, rfl, rfl, rfl⟩, hrec := rfl, ord := Nat.zero_lt_one, slot := rfl, vals := rfl,
             pos := ⟨_, rfl, rfl, rfl, rfl, rfl⟩, crd := ⟨_, rfl, rfl, rfl, Nat.le_refl _, ?_⟩,
             val := ⟨_, rfl, rfl, rfl, ?_⟩ },
      c := { var := ⟨_, rfl, rfl, rfl⟩, hrec := rfl, ord := Nat.zero_lt_one, slot := rfl, vals := rfl,
             pos := ⟨_, rfl, rfl, rfl, rfl, rfl⟩, crd := ⟨_, rfl, rfl, rfl, Nat.le_refl _, ?_⟩,
             val := ⟨_, rfl, rfl, rfl, ?_⟩ } }
  · intro x h1 h2 h3
    have e1 : ("a" == x) = false := beq_eq_false_iff_ne.2 (Ne.symm h1)
    have e2 : ("b" == x) = false := beq_eq_false_iff_ne.2 (Ne.symm h2)
    have e3 : ("c" == x) = false := beq_eq_false_iff_ne.2 (Ne.symm h3)
    simp [lookupVar, exStateOf, List.find?, e1, e2, e3]
  · intro j hj
    match j, hj with
    | 0, _ => rfl
    | 1, _ => rfl
    | 2, _ => rfl
  · intro j hj; exact exCells3 _ _ _ _ j hj
  · intro j hj
    match j, hj with
    | 0, _ => rfl
    | 1, _ => rfl
    | 2, _ => rfl
  · intro j hj; exact exCells3 _ _ _ _ j hj

/-- the accumulated sum on the instance: `2 * 10 + 3 * 30 = 110` -/
theorem exDotSum :
    dotSum (intersect (assoc 3 exCrdB (exCellsB (F := Int) id)) (assoc 3 exCrdC (exCellsC (F := Int) id))) =
      110 := by
  rw [exIntersect]; rfl

/-- **D3 is not vacuous** (over `Int`): every hypothesis holds on the instance, `generateIr` produces the kernel,
and the run returns `0` after 1 + 4 loop iterations and leaves EXACTLY one new block `[110]`, which the output
record points to; the inputs are untouched. -/
theorem spdot_example : ∃ f o,
    generateIr exOfRat none exAssign exFormats (graph "i" exB exC) .evaluate = .ok f ∧
    exec 8 f.body (exStateOf (F := Int) id) = .ok o ∧ o.ret = some (.int 0) ∧ o.iters = 5 ∧
    o.st.heap = (exStateOf (F := Int) id).heap ++ [⟨.float, [some (.flt 110)], .output, true⟩] ∧
    o.st.tensors[0]? = some ⟨0, 0, [], .ptr 9 0, .output⟩ ∧
    (∀ k, k < 9 → o.st.heap[k]? = (exStateOf (F := Int) id).heap[k]?) := by
  have hgen := spdot_generateIr_eq exOfRat none exAssign exFormats "i" exOut exB exC 1 2 (by decide)
    (by decide) exKernelOK.fmt rfl rfl
  obtain ⟨o, eo, hret, _, hit, hheap, hten, hold, _⟩ :=
    spdot_kernel_correct exOfRat none exAssign exFormats "i" exOut exB exC 1 2 (by decide) (by decide)
      rfl rfl exKernelOK 0 _ 6 1 _ 3 2 3 4 exCrdB
      (exCellsB (F := Int) id) 2 _ 3 6 7 8 exCrdC (exCellsC (F := Int) id) _ (exInitOf (F := Int) id)
      (by decide) (by decide) exRangeB exRangeC (fun q r _ _ _ => ToIr.Ex.allFinite_int _ _ _)
      (fun _ _ => rfl) _ hgen 8 (by decide)
  rw [exTrace] at hit
  rw [exDotSum] at hheap
  refine ⟨_, o, hgen, eo, hret, hit, hheap, ?_, hold⟩
  rw [hten]; rfl

/-- **D4 is not vacuous**: the same instance over the exact carrier `Rat`, kernel generated from the desugared
SOURCE assignment; the new cell is `Alg.denote` of `a() = b(i) * c(i)` for the inputs read off the stored
operands, which is `110` -/
theorem spdot_example_exact : ∃ (f : Func Rat) (o : Out Rat),
    generateIr (F := Rat) id none (Alg.desugar exSrc) exFormats (graph "i" exB exC) .evaluate = .ok f ∧
    exec 8 f.body (exStateOf (fun z => (z : Rat))) = .ok o ∧ o.ret = some (.int 0) ∧
    o.st.heap = (exStateOf (fun z => (z : Rat))).heap ++ [⟨.float, [some (.flt (Alg.denote exSrc
      (fun nm co => if nm = "b" then vecAt (assoc 3 exCrdB (exCellsB (fun z => (z : Rat)))) (co.headD 0)
        else vecAt (assoc 3 exCrdC (exCellsC (fun z => (z : Rat)))) (co.headD 0)) (fun _ => 6) []))],
      .output, true⟩] := by
  have hgen : generateIr (F := Rat) id none (Alg.desugar exSrc) exFormats (graph "i" exB exC) .evaluate =
      .ok (kernel id exFormats "i" exOut exB exC) := by
    rw [spdot_bestAlgorithm.1]
    exact spdot_generateIr_eq (F := Rat) id none exAssign exFormats "i" exOut exB exC 1 2 (by decide)
      (by decide) exKernelOK.fmt rfl rfl
  obtain ⟨o, eo, hret, _, hheap, _⟩ :=
    spdot_kernel_exact none "a" "b" "c" exFormats "i" exOut exB exC (by decide) (by decide) rfl rfl
      exKernelOK 0 _ 6 1 _ 3 2 3 4 exCrdB (exCellsB (fun z => (z : Rat))) 2 _ 3 6 7 8
      exCrdC (exCellsC (fun z => (z : Rat))) _ (exInitOf (fun z => (z : Rat))) (by decide) (by decide) exRangeB
      exRangeC exSortedB exSortedC _ hgen
      (fun nm co => if nm = "b" then vecAt (assoc 3 exCrdB (exCellsB (fun z => (z : Rat)))) (co.headD 0)
        else vecAt (assoc 3 exCrdC (exCellsC (fun z => (z : Rat)))) (co.headD 0)) (fun _ => 6)
      (by
        intro j hj
        match j, hj with
        | 0, _ => decide
        | 1, _ => decide
        | 2, _ => decide)
      (fun x => by simp) (fun x => by simp) 8 (by decide)
  exact ⟨_, o, hgen, eo, hret, hheap⟩

/-- the value of the specification on the instance -/
theorem spdot_example_value :
    Alg.denote exSrc
      (fun nm co => if nm = "b" then vecAt (assoc 3 exCrdB (exCellsB (fun z => (z : Rat)))) (co.headD 0)
        else vecAt (assoc 3 exCrdC (exCellsC (fun z => (z : Rat)))) (co.headD 0)) (fun _ => 6) [] = 110 := by
  rw [exSrc, ← (spdot_denote (exCellsB (fun z => (z : Rat))) (exCellsC (fun z => (z : Rat))) exSortedB exSortedC
    "a" "b" "c" "i" _ (fun _ => 6) (by
      intro j hj
      match j, hj with
      | 0, _ => decide
      | 1, _ => decide
      | 2, _ => decide) (fun x => by simp) (fun x => by simp)).1]
  simp [assoc, List.range, List.range.loop, exCrdB, exCrdC, exCellsB, exCellsC, intersect, Spmul.interAux,
    FloatOps.mul, dotSum, FloatOps.add, FloatOps.ofInt]
  grind

end TV.Spdot
