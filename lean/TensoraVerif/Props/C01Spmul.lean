import TensoraVerif.Lemmas.SpmulExact
import TensoraVerif.Lemmas.Dense1Exact
import TensoraVerif.Model.FloatLaws

/-!
# C01 / C02 / C03 / C05, end to end, for a kernel with a TWO-operand sparse merge:
# element-wise product of two sparse vectors (intersection)

Assignments `a(i) = b(i) * c(i)` where `a`, `b`, `c` are order-1 tensors stored compressed (`s`); class
`Spmul.isClass`, terminal expression `Spmul.mulE bT cT`, iteration graph
`Spmul.graph i outT bT cT = .iter i (some ⟨outT, 0⟩) (.terminal (b * c))`. This is the first class in which the
co-iteration lattice matters. What `lower` REALLY emits (`spmul_lower_eq`, by unfolding `lower` on the class):

```
int p_b = b_pos[0]; int p_b_end = b_pos[1]; int p_c = c_pos[0]; int p_c_end = c_pos[1];
while ((true && p_b < p_b_end) && p_c < p_c_end) {          // runs while BOTH cursors are in range
  int i_b = b_crd[p_b]; int i_c = c_crd[p_c]; int i = min(i_b, i_c);
  if ((true && i_b == i) && i_c == i) {                      // the ONLY branch: both present
    <vals allocation> bool written = false; { written = true; a_vals[p_a] = b_vals[p_b] * c_vals[p_c]; }
    if (written) { <crd assembly> p_a = p_a + 1; } }
  p_b = p_b + (int)(i_b == i); p_c = p_c + (int)(i_c == i);
}
<pos assembly>
```

The lattice of sub-graphs has two points, the graph and the graph whose terminal was exhausted to the literal
`Integer 0` (`b * 0`, `0 * c`); the second has no compressed dimension and is skipped both as a branch (no
`else if`) and as a loop (NO TAIL LOOPS): `Spmul.generateSubgraphs_eq`, `Spmul.compressedDims_zero`.

* W1 `spmul_lower_eq`, `spmul_generateIr_eq`, `spmul_lattice`, `spmul_bestAlgorithm` — what the pass emits,
  written out; the two-point lattice; the graph is the one the front half chooses.
* (a) `spmul_body_step` — the statement between `min` and the increments: appends iff both operands sit on the
  minimum; otherwise the state is not changed at all.
* W2 `spmul_loop_correct` — the loop: at most `m_b + m_c` iterations, the appended history is EXACTLY the
  reference `Spmul.intersect b c`; `spmul_intersect_spec`: what that list is (sorted; an entry is in it iff it
  is the product of two entries at the same coordinate).
* W3 `spmul_kernel_correct` — the whole `evaluate` function; `spmul_result_wf` (`Storage.wfCheck`),
  `spmul_no_phantom` (stored coordinate ⇔ stored in BOTH inputs: C03 and completeness).
* W4 `spmul_kernel_exact`, `spmul_denote` — over `Rat` the dense reading of the output is `Alg.denote` of the
  source assignment at every coordinate.
* non-vacuity: `b = {0:1, 2:2, 5:3}`, `c = {2:10, 3:20, 5:30}`, initial capacity 1 → `crd = [2, 5]`,
  `vals = [20, 90, ·]`, 4 iterations.

The loop is proved with `Spmul.merge_loop_cursor_ghost`, C05's merge loop (same skeleton, same invariant, same
pure model `mergeFinal`) with a ghost predicate indexed by the cursor records (see the deviation note there).
Vocabulary: `Lemmas/SpmulModel.lean` (class, emitted loop), `SpmulGenerate.lean` (kernel), `SpmulNames.lean`
(`KNames`), `SpmulPure.lean` (`intersect`, `assoc`, `vecAt`, `Sorted`), `SpmulBody.lean` (`LoopPre`, `Inv`,
`env`), `SpmulPrologue.lean` (`InputVec`, `Init`), `SpmulKernel.lean` (`KernelOK`); `Sparse1.capVal cap` is the
value of `default_array_size`.
-/
namespace TV.Spmul
open TV.IR TV.Gen TV.Graph TV.Growth TV.Merge
open TV.Sparse1 (isSp inLeaf outLeaf branchBody midW sparseFormats capVal storedVec)

variable {F : Type} [FloatOps F]

/-! ### W1: what the pass emits -/

/-- **The lowered iteration block.** For every graph of the class, `lower` (any fuel `≥ 2`) succeeds and
returns `loopLines`: the cursor/end declarations of `b` and of `c`, ONE loop — literally C05's skeleton
`mergeLoopL [b, c] i [midStmt …]` over the two leaves, whose `mid` is the single branch
`if ((true && i_b == i) && i_c == i) { … }` without `else` — and the `pos assembly`. No tail loop. -/
theorem spmul_lower_eq (ofRat : Rat → F) (k : Nat) (i : String) (outT bT cT : TensorId)
    (hcl : isClass i outT bT cT = true) :
    lower ofRat (k + 2) (graph i outT bT cT) (.append outT 0) .evaluate =
      .ok ⟨some ("*** Iteration over " ++ i ++ " ***"), loopLines ofRat i outT bT cT⟩ :=
  lower_eq ofRat k i outT bT cT hcl

/-- **The generated kernel.** For an assignment `out(i) = rhs` whose accesses all use the index `i` alone, a
format table of compressed vectors and the graph of the class, `generateIr` succeeds and returns exactly
`Spmul.kernel` (extract `i_dim`, unpack `pos`/`crd`/`vals` of every tensor, output initialisation with initial
capacity `cap`, the iteration block, the cleanup reallocs and the hand-over, `return 0`). -/
theorem spmul_generateIr_eq (ofRat : Rat → F) (cap : Option Int) (a : Alg.DAssign) (formats : Formats)
    (i : String) (outT bT cT : TensorId)
    (hout : tensorId 0 a.tname formats a.tidx = some outT)
    (hcl : isClass i outT bT cT = true) (hf : sparseFormats formats = true)
    (hidx : a.tidx = [i]) (hrhs : Dense1.rhsIdx i a.rhs = true) :
    generateIr ofRat cap a formats (graph i outT bT cT) .evaluate =
      .ok (kernel ofRat cap formats i outT bT cT) :=
  generateIr_eq ofRat cap a formats i outT bT cT hout (Dense1.tensorId_name hout) hcl hf
    (Dense1.indexDimensions_eq a i hidx hrhs)

/-- **The co-iteration lattice of the class**, as `lower` sees it: the sub-graphs are the graph itself and the
"zero graph" (terminal = the literal `Integer 0`); exhausting EITHER operand gives the zero graph (`b * 0` and
`0 * c` are simplified away); the zero graph has no compressed dimension, so — the iteration being sparse — it is
skipped both as a loop of its own (no tail loop after the merge loop) and as an `else if` branch inside it. -/
theorem spmul_lattice (i : String) (outT bT cT : TensorId) (hcl : isClass i outT bT cT = true) :
    generateSubgraphs (graph i outT bT cT) = [graph i outT bT cT, zeroGraph i outT] ∧
    (graph i outT bT cT).exhaust bT.id = zeroGraph i outT ∧
    (graph i outT bT cT).exhaust cT.id = zeroGraph i outT ∧
    compressedDims (graph i outT bT cT) = [bT.id, cT.id] ∧ compressedDims (zeroGraph i outT) = [] := by
  obtain ⟨_, hb, hc, hne⟩ := (isClass_iff i outT bT cT).1 hcl
  exact ⟨generateSubgraphs_eq i outT bT cT hb hc hne, exhaust_b i outT bT cT, exhaust_c i outT bT cT hne,
    compressedDims_graph i outT bT cT hb hc hne, compressedDims_zero i outT⟩

/-! ### (a) the loop body step -/

/-- **(a) One iteration, between the `min` and the increments.** Let the state `σ` satisfy the loop invariant
`Inv` after the entries `hist` have been appended (output cursor `|hist|`; `crd`/`vals` arrays of the output:
array invariant with capacities `cc`, `vc ≥ |hist|`, cells `j < |hist|` = `hist[j]`; everything else as at loop
entry), the input cursors hold positions `q < mb`, `r < mc`, and `i_b`, `i_c`, `i` hold the int32s `xb`, `xc`,
`x`. Then `if ((true && i_b == i) && i_c == i) { vals allocation check; written = false; terminal block;
if (written) { crd assembly; p_a++ } }` runs without error for every fuel, and
* if `xb = x` and `xc = x` (then `|hist| < 2^30` and finiteness of `b[q]`, `c[r]`, `b[q] * c[r]` are assumed) it
  appends `(x, b[q] * c[r])`: the invariant holds for `hist ++ [(x, b[q] * c[r])]` (after growing the arrays,
  "however small they started");
* otherwise the final state IS the initial state (`stepHist … = hist`): when only one operand is present nothing
  is written — no phantom coordinate (C03);
it writes only the variables `midW` and, of the old heap, only the two output arrays. -/
theorem spmul_body_step {ofRat : Rat → F} {i : String} {outT bT cT : TensorId} {mb mc bvb cvb : Nat}
    {cellsB cellsC : Nat → F} {cb0 vb0 : Nat} {σ0 : State F}
    (N : KNames i outT bT cT) (ho : isSp i outT = true) (hb : isSp i bT = true) (hc : isSp i cT = true)
    (pre : LoopPre bT cT mb mc bvb cvb cellsB cellsC cb0 vb0 σ0)
    (fuel : Nat) (σ : State F) (hist : List (Int × F)) (cb : Nat) (cc : Int) (vb : Nat) (vc : Int)
    (q r : Nat) (xb xc x : Int) (hq : q < mb) (hr : r < mc)
    (hinv : Inv i outT bT cT cb0 vb0 σ0 cb cc vb vc hist σ)
    (hpB : IntVar σ (layerPointer bT.id 0) q) (hpC : IntVar σ (layerPointer cT.id 0) r)
    (hvB : IntVar σ (valueFromCrd bT.id 0) xb) (hvC : IntVar σ (valueFromCrd cT.id 0) xc)
    (hi : IntVar σ i x)
    (hb0 : -2147483648 ≤ xb) (hb1 : xb < 2147483648) (hc0 : -2147483648 ≤ xc) (hc1 : xc < 2147483648)
    (hr0 : -2147483648 ≤ x) (hr1 : x < 2147483648)
    (hboth : xb = x → xc = x → hist.length < 1073741824 ∧
      ToIr.AllFinite ofRat (env bT (cellsB q) (cellsC r)) (mulE bT cT)) :
    ∃ σ' cb' cc' vb' vc', RunsL fuel [midStmt ofRat i outT bT cT] σ σ' ∧
      Inv i outT bT cT cb0 vb0 σ0 cb' cc' vb' vc'
        (if xb = x ∧ xc = x then hist ++ [(x, FloatOps.mul (cellsB q) (cellsC r))] else hist) σ' ∧
      (¬ (xb = x ∧ xc = x) → σ' = σ) ∧
      (∀ y, y ∉ midW outT → lookupVar σ'.vars y = lookupVar σ.vars y) ∧
      (∀ k blk, k ≠ cb → k ≠ vb → σ.heap[k]? = some blk → σ'.heap[k]? = some blk) :=
  mid_step N ho hb hc pre fuel σ hist cb cc vb vc q r xb xc x hq hr hinv hpB hpC hvB hvC hi hb0 hb1 hc0 hc1
    hr0 hr1 hboth

/-! ### W2: the whole loop -/

/-- **W2 (the merge loop computes the intersection).** Let the state `σ` satisfy the merge invariant of the
two input leaves (cursors `0`, ends `mb`, `mc ≤ 2^30`, `crd` blocks `bcb`, `ccb` holding the int32 coordinates
`crdB`, `crdC`) and the loop invariant `Inv` for the EMPTY history with ANY capacities `cc, vc ≥ 1` of the
output arrays (`ArrInv` inside `Inv`: "any initial capacity ≥ 1"), and let the product be finite wherever the
two operands store the same coordinate. Then the emitted loop runs WITHOUT ERROR with any fuel `≥ mb + mc + 1`,
terminates after AT MOST `mb + mc` iterations (exactly one per value taken by `min`: `|mergeTrace|`), and ends
with the loop invariant for the history

  `intersect (assoc mb crdB cellsB) (assoc mc crdC cellsC)`

— output cursor = its length, `a_crd[j]` / `a_vals[j]` = its `j`-th coordinate / value. By
`spmul_intersect_spec` that list is, for sorted inputs, the coordinates of `crd_b ∩ crd_c` in increasing order
with the values `b[k] * c[k']` at the matching entries. (Sortedness is not needed for the run itself.) -/
theorem spmul_loop_correct {ofRat : Rat → F} {i : String} {outT bT cT : TensorId} {mb mc bvb cvb : Nat}
    {cellsB cellsC : Nat → F} {crdB crdC : Nat → Int} {cb0 vb0 : Nat} {σ0 : State F}
    (N : KNames i outT bT cT) (ho : isSp i outT = true) (hb : isSp i bT = true) (hc : isSp i cT = true)
    (pre : LoopPre bT cT mb mc bvb cvb cellsB cellsC cb0 vb0 σ0)
    (hfin : ∀ q r, q < mb → r < mc → crdB q = crdC r →
      ToIr.AllFinite ofRat (env bT (cellsB q) (cellsC r)) (mulE bT cT))
    (bcb ccb : Nat) (hblkB : bcb ≠ cb0 ∧ bcb ≠ vb0 ∧ bcb < σ0.heap.length)
    (hblkC : ccb ≠ cb0 ∧ ccb ≠ vb0 ∧ ccb < σ0.heap.length)
    (fuel : Nat) (σ : State F) (hfuel : mb + mc + 1 ≤ fuel)
    (hM : MergeInv σ [⟨inLeaf bT, bcb, crdB, 0, mb⟩, ⟨inLeaf cT, ccb, crdC, 0, mc⟩] i)
    (hP : ∃ cb cc vb vc, Inv i outT bT cT cb0 vb0 σ0 cb cc vb vc [] σ) :
    ∃ o, exec fuel (mergeLoopL [inLeaf bT, inLeaf cT] i [midStmt ofRat i outT bT cT]) σ = .ok o ∧
      o.ret = none ∧ o.iters ≤ mb + mc ∧
      o.iters = (mergeTrace [⟨inLeaf bT, bcb, crdB, 0, mb⟩, ⟨inLeaf cT, ccb, crdC, 0, mc⟩]).length ∧
      ∃ cb cc vb vc, Inv i outT bT cT cb0 vb0 σ0 cb cc vb vc
        (intersect (assoc mb crdB cellsB) (assoc mc crdC cellsC)) o.st :=
  loop_runs N ho hb hc pre hfin bcb ccb hblkB hblkC fuel σ hfuel hM hP

/-- **the reference function is the intersection.** For strictly increasing coordinate arrays, the list
`intersect b c` has strictly increasing coordinates, is no longer than either operand, and `(x, w)` is one of
its entries IFF `b` stores `x` at some position `q`, `c` stores `x` at some position `r`, and
`w = b[q] * c[r]`. -/
theorem spmul_intersect_spec {mb mc : Nat} {crdB crdC : Nat → Int} (cellsB cellsC : Nat → F)
    (hsB : ∀ j k, j < k → k < mb → crdB j < crdB k) (hsC : ∀ j k, j < k → k < mc → crdC j < crdC k) :
    ((intersect (assoc mb crdB cellsB) (assoc mc crdC cellsC)).map (·.1)).Pairwise (· < ·) ∧
    (intersect (assoc mb crdB cellsB) (assoc mc crdC cellsC)).length ≤ min mb mc ∧
    ∀ x w, (x, w) ∈ intersect (assoc mb crdB cellsB) (assoc mc crdC cellsC) ↔
      ∃ q r, q < mb ∧ r < mc ∧ crdB q = x ∧ crdC r = x ∧ w = FloatOps.mul (cellsB q) (cellsC r) := by
  refine ⟨coords_pairwise (intersect_sorted _ _ (assoc_sorted cellsB hsB) (assoc_sorted cellsC hsC)), ?_,
    entry_mem_intersect_iff cellsB cellsC hsB hsC⟩
  have := intersect_length_le (assoc mb crdB cellsB) (assoc mc crdC cellsC)
  simp only [assoc_length] at this
  omega

/-! ### W3: the whole kernel -/

/-- **W3 (the generated `evaluate` kernel of `a(i) = b(i) * c(i)` is correct).** Let `out(i) = rhs` be an
assignment whose accesses all use the index `i` alone, `formats` a table of three compressed vectors (output
first, then `b`, then `c`), `outT` the output tensor as `generateIr` computes it, `bT`, `cT` the two input
occurrences, with the static side conditions `KernelOK` (index and tensor names without `'_'` and pairwise
different, different tensor ids). Let `cap` be ANY initial capacity parameter with `1 ≤ capVal cap < 2^31`, and
`σ` an initial machine state as the driver builds it (`Init`): the variables are exactly the three tensor
parameters; the output record `ta` (contents `atr`) is output-owned, with a slot pair and `vals` holding
pointers or `NULL`; each input record's `pos` block is `[0, m]`, its `crd` block holds `crd 0 … crd (m-1)`, its
`vals` block `cells 0 … cells (m-1)`. Side conditions on the inputs: `mb, mc ≤ 2^30`, int32 coordinates, and
wherever the two operands store the same coordinate both values and their product are finite. (Strictly
increasing coordinates are NOT needed for the run; they make `intersect` the set-theoretic intersection:
`spmul_intersect_spec`, `spmul_no_phantom`.)

Then the function `f` that `generateIr` produces runs on the machine with any fuel `≥ mb + mc + 1` WITHOUT
ERROR, **returns `0`** after at most `mb + mc` loop iterations (exactly `|mergeTrace|`), and in the final state,
with `H := intersect (assoc mb crdB cellsB) (assoc mc crdC cellsC)` and `r := |H|`:
* the output record (still output-owned, same order and dimensions block) has slot 0 = (`pos`, `crd`) and `vals`
  = the base addresses of three different FRESH blocks, live and output-owned;
* the `pos` block is exactly `[0, r]`; the `crd` block is exactly the `r` coordinates of `H` (exact length `r`);
  the `vals` block has exactly `r + 1` cells, the first `r` holding the values of `H` (the products);
* every other tensor record and EVERY block of the initial heap (all inputs) is unchanged. -/
theorem spmul_kernel_correct (ofRat : Rat → F) (cap : Option Int) (a : Alg.DAssign) (formats : Formats)
    (i : String) (outT bT cT : TensorId)
    (hout : tensorId 0 a.tname formats a.tidx = some outT)
    (hcl : isClass i outT bT cT = true) (hf : sparseFormats formats = true)
    (hidx : a.tidx = [i]) (hrhs : Dense1.rhsIdx i a.rhs = true) (ok : KernelOK formats i outT bT cT)
    (hk0 : 1 ≤ capVal cap) (hk1 : capVal cap < 2147483648)
    (ta : Nat) (atr : TensorRec F) (n : Int)
    (tb : Nat) (btr : TensorRec F) (mb bpb bcb bvb : Nat) (crdB : Nat → Int) (cellsB : Nat → F)
    (tc : Nat) (ctr : TensorRec F) (mc cpb ccb cvb : Nat) (crdC : Nat → Int) (cellsC : Nat → F)
    (σ : State F)
    (init : Init outT bT cT ta atr n tb btr mb bpb bcb bvb crdB cellsB tc ctr mc cpb ccb cvb crdC cellsC σ)
    (hmb : mb ≤ 1073741824) (hmc : mc ≤ 1073741824)
    (hrngB : ∀ j, j < mb → -2147483648 ≤ crdB j ∧ crdB j < 2147483648)
    (hrngC : ∀ j, j < mc → -2147483648 ≤ crdC j ∧ crdC j < 2147483648)
    (hfin : ∀ q r, q < mb → r < mc → crdB q = crdC r →
      ToIr.AllFinite ofRat (env bT (cellsB q) (cellsC r)) (mulE bT cT))
    (f : Func F) (hgen : generateIr ofRat cap a formats (graph i outT bT cT) .evaluate = .ok f)
    (fuel : Nat) (hfuel : mb + mc + 1 ≤ fuel) :
    ∃ o, exec fuel f.body σ = .ok o ∧ o.ret = some (.int 0) ∧ o.iters ≤ mb + mc ∧
      o.iters = (mergeTrace [⟨inLeaf bT, bcb, crdB, 0, mb⟩, ⟨inLeaf cT, ccb, crdC, 0, mc⟩]).length ∧
      (∃ tr' pF cF vF vblk, o.st.tensors[ta]? = some tr' ∧ tr'.owner = .output ∧ tr'.order = atr.order ∧
        tr'.dimsBlk = atr.dimsBlk ∧ tr'.slots = atr.slots.set 0 (some (.ptr pF 0, .ptr cF 0)) ∧
        tr'.vals = .ptr vF 0 ∧
        σ.heap.length ≤ pF ∧ σ.heap.length ≤ cF ∧ σ.heap.length ≤ vF ∧ pF ≠ cF ∧ pF ≠ vF ∧ cF ≠ vF ∧
        o.st.heap[pF]? = some ⟨.int, [some (.int 0), some (.int
          (intersect (assoc mb crdB cellsB) (assoc mc crdC cellsC)).length)], .output, true⟩ ∧
        o.st.heap[cF]? = some ⟨.int, (intersect (assoc mb crdB cellsB) (assoc mc crdC cellsC)).map
          (fun p => some (.int p.1)), .output, true⟩ ∧
        o.st.heap[vF]? = some vblk ∧ vblk.live = true ∧ vblk.owner = .output ∧ vblk.ty = .float ∧
        vblk.cells.length = (intersect (assoc mb crdB cellsB) (assoc mc crdC cellsC)).length + 1 ∧
        ∀ j (h : j < (intersect (assoc mb crdB cellsB) (assoc mc crdC cellsC)).length),
          vblk.cells[j]? = some (some (.flt (intersect (assoc mb crdB cellsB) (assoc mc crdC cellsC))[j].2))) ∧
      (∀ k, k ≠ ta → o.st.tensors[k]? = σ.tensors[k]?) ∧
      o.st.tensors.length = σ.tensors.length ∧
      (∀ k, k < σ.heap.length → o.st.heap[k]? = σ.heap[k]?) := by
  rw [spmul_generateIr_eq ofRat cap a formats i outT bT cT hout hcl hf hidx hrhs] at hgen
  cases hgen
  obtain ⟨o, eo, hret, hit1, hit2, hp⟩ := kernel_runs ofRat cap formats i outT bT cT hcl ok hk0 hk1 init hmb hmc
    hrngB hrngC hfin fuel hfuel
  exact ⟨o, eo, hret, hit1, hit2, hp.outRec, hp.otherRecs, hp.tlen, hp.heap⟩

/-- **W3, corollary: the result is well-formed** (C02). If the coordinates of both inputs are strictly
increasing and those of `b` lie within the dimension `d`, the structure the output record describes —
`pos = [0, r]`, `crd` = the coordinates of `intersect b c`, one value per coordinate — passes
`Storage.wfCheck` (positions consistent, coordinates strictly increasing and in range), whatever the values. -/
theorem spmul_result_wf {mb mc : Nat} {crdB crdC : Nat → Int} (cellsB cellsC : Nat → F) (d : Nat)
    (hsB : ∀ j k, j < k → k < mb → crdB j < crdB k) (hsC : ∀ j k, j < k → k < mc → crdC j < crdC k)
    (hrB : ∀ j, j < mb → 0 ≤ crdB j ∧ crdB j < d) (vs : List Int)
    (hv : vs.length = (intersect (assoc mb crdB cellsB) (assoc mc crdC cellsC)).length) :
    Storage.wfCheck (storedVec d ((intersect (assoc mb crdB cellsB) (assoc mc crdC cellsC)).map (·.1)) vs) =
      true ∧
    (storedVec d ((intersect (assoc mb crdB cellsB) (assoc mc crdC cellsC)).map (·.1)) vs).levels =
      [⟨.compressed, [0, ((intersect (assoc mb crdB cellsB) (assoc mc crdC cellsC)).length : Int)],
        (intersect (assoc mb crdB cellsB) (assoc mc crdC cellsC)).map (·.1)⟩] :=
  ⟨wfCheck_intersect cellsB cellsC d hsB hsC hrB vs hv, by simp [storedVec]⟩

/-- **W3, corollary: no phantom coordinate, and none missing** (C03). For strictly increasing inputs, a
coordinate is stored in the output IFF it is stored in BOTH inputs. -/
theorem spmul_no_phantom {mb mc : Nat} {crdB crdC : Nat → Int} (cellsB cellsC : Nat → F)
    (hsB : ∀ j k, j < k → k < mb → crdB j < crdB k) (hsC : ∀ j k, j < k → k < mc → crdC j < crdC k) (x : Int) :
    x ∈ (intersect (assoc mb crdB cellsB) (assoc mc crdC cellsC)).map (·.1) ↔
      (∃ q, q < mb ∧ crdB q = x) ∧ (∃ r, r < mc ∧ crdC r = x) :=
  coord_mem_intersect_iff cellsB cellsC hsB hsC x

/-! ### W4: the exact carrier and the source assignment -/

/-- **W4a (the meaning of the stored result).** Over the exact carrier `Rat`, for strictly increasing inputs,
the dense reading of the output `H = intersect b c` (`vecAt H x`: the stored value at coordinate `x`, `0` where
nothing is stored) equals C01's specification `Alg.denote` of the SOURCE assignment `a(i) = b(i) * c(i)` at
every coordinate `x`, for every valuation `inputs` that reads `b` and `c` as the dense readings of the two
stored inputs: value at `x` = `b[x] * c[x]`, absent = `0`. -/
theorem spmul_denote {mb mc : Nat} {crdB crdC : Nat → Int} (cellsB cellsC : Nat → Rat)
    (hsB : ∀ j k, j < k → k < mb → crdB j < crdB k) (hsC : ∀ j k, j < k → k < mc → crdC j < crdC k)
    (an bn cn i : String) (inputs : Alg.Inputs) (sizes : Alg.Sizes)
    (hinB : ∀ x : Nat, inputs bn [x] = vecAt (assoc mb crdB cellsB) x)
    (hinC : ∀ x : Nat, inputs cn [x] = vecAt (assoc mc crdC cellsC) x) (x : Nat) :
    vecAt (intersect (assoc mb crdB cellsB) (assoc mc crdC cellsC)) x =
      Alg.denote ⟨an, [i], .mul (.tensor bn [i]) (.tensor cn [i])⟩ inputs sizes [x] := by
  rw [denote_mul, hinB, hinC]
  exact vecAt_intersect_rat _ _ (assoc_sorted cellsB hsB) (assoc_sorted cellsC hsC) x

/-- **W4 (exact instance, from the source assignment).** Over the exact carrier `Rat` (every value finite, exact
arithmetic, literals through `id`), for the kernel generated from the DESUGARED source assignment
`an(i) = bn(i) * cn(i)`: no finiteness hypothesis is left; the kernel returns `0`, the output's `crd` block holds
exactly the coordinates of `H = intersect b c` and cell `j` of its `vals` block the `j`-th value of `H`; and for
strictly increasing inputs the dense reading of `H` is `Alg.denote` of the source assignment at every
coordinate (`b[x] * c[x]`, `0` where absent). -/
theorem spmul_kernel_exact (cap : Option Int) (an bn cn : String) (formats : Formats)
    (i : String) (outT bT cT : TensorId)
    (hout : tensorId 0 an formats [i] = some outT)
    (hcl : isClass i outT bT cT = true) (hf : sparseFormats formats = true)
    (ok : KernelOK formats i outT bT cT)
    (hk0 : 1 ≤ capVal cap) (hk1 : capVal cap < 2147483648)
    (ta : Nat) (atr : TensorRec Rat) (n : Int)
    (tb : Nat) (btr : TensorRec Rat) (mb bpb bcb bvb : Nat) (crdB : Nat → Int) (cellsB : Nat → Rat)
    (tc : Nat) (ctr : TensorRec Rat) (mc cpb ccb cvb : Nat) (crdC : Nat → Int) (cellsC : Nat → Rat)
    (σ : State Rat)
    (init : Init outT bT cT ta atr n tb btr mb bpb bcb bvb crdB cellsB tc ctr mc cpb ccb cvb crdC cellsC σ)
    (hmb : mb ≤ 1073741824) (hmc : mc ≤ 1073741824)
    (hrngB : ∀ j, j < mb → -2147483648 ≤ crdB j ∧ crdB j < 2147483648)
    (hrngC : ∀ j, j < mc → -2147483648 ≤ crdC j ∧ crdC j < 2147483648)
    (hsB : ∀ j k, j < k → k < mb → crdB j < crdB k) (hsC : ∀ j k, j < k → k < mc → crdC j < crdC k)
    (f : Func Rat)
    (hgen : generateIr id cap (Alg.desugar ⟨an, [i], .mul (.tensor bn [i]) (.tensor cn [i])⟩) formats
      (graph i outT bT cT) .evaluate = .ok f)
    (inputs : Alg.Inputs) (sizes : Alg.Sizes)
    (hinB : ∀ x : Nat, inputs bn [x] = vecAt (assoc mb crdB cellsB) x)
    (hinC : ∀ x : Nat, inputs cn [x] = vecAt (assoc mc crdC cellsC) x)
    (fuel : Nat) (hfuel : mb + mc + 1 ≤ fuel) :
    ∃ o H, H = intersect (assoc mb crdB cellsB) (assoc mc crdC cellsC) ∧
      exec fuel f.body σ = .ok o ∧ o.ret = some (.int 0) ∧ o.iters ≤ mb + mc ∧
      (∃ tr' pF cF vF vblk, o.st.tensors[ta]? = some tr' ∧
        tr'.slots = atr.slots.set 0 (some (.ptr pF 0, .ptr cF 0)) ∧ tr'.vals = .ptr vF 0 ∧
        o.st.heap[pF]? = some ⟨.int, [some (.int 0), some (.int H.length)], .output, true⟩ ∧
        o.st.heap[cF]? = some ⟨.int, H.map (fun p => some (.int p.1)), .output, true⟩ ∧
        o.st.heap[vF]? = some vblk ∧ vblk.live = true ∧ vblk.cells.length = H.length + 1 ∧
        ∀ j (h : j < H.length), vblk.cells[j]? = some (some (.flt H[j].2))) ∧
      ∀ x : Nat, vecAt H x =
        Alg.denote ⟨an, [i], .mul (.tensor bn [i]) (.tensor cn [i])⟩ inputs sizes [x] := by
  rw [desugar_mul] at hgen
  obtain ⟨o, eo, hret, hit, _, ⟨tr', pF, cF, vF, vblk, h1, _, _, _, h5, h6, _, _, _, _, _, _, h13, h14, h15, h16, _,
    _, h19, h20⟩, _⟩ :=
    spmul_kernel_correct id cap ⟨an, [i], .mul (.tensor 1 bn [i]) (.tensor 2 cn [i])⟩ formats i outT bT cT hout
      hcl hf rfl (by simp [Dense1.rhsIdx]) ok hk0 hk1 ta atr n tb btr mb bpb bcb bvb crdB cellsB tc ctr mc cpb
      ccb cvb crdC cellsC σ init hmb hmc hrngB hrngC (fun q r _ _ _ => allFinite_rat _ _ _ _ _) f hgen fuel hfuel
  exact ⟨o, _, rfl, eo, hret, hit, ⟨tr', pF, cF, vF, vblk, h1, h5, h6, h13, h14, h15, h16, h19, h20⟩,
    spmul_denote cellsB cellsC hsB hsC an bn cn i inputs sizes hinB hinC⟩

/-! ### non-vacuity: `b = {0:1, 2:2, 5:3}`, `c = {2:10, 3:20, 5:30}`, dimension 6, initial capacity 1 -/

def exFormats : Formats :=
  [("a", [.compressed], [0]), ("b", [.compressed], [0]), ("c", [.compressed], [0])]
def exOut : TensorId := ⟨"0_a", "a", ["i"], [.compressed]⟩
def exB : TensorId := ⟨"1_b", "b", ["i"], [.compressed]⟩
def exC : TensorId := ⟨"2_c", "c", ["i"], [.compressed]⟩
def exSrc : Alg.Assign := ⟨"a", ["i"], .mul (.tensor "b" ["i"]) (.tensor "c" ["i"])⟩
def exAssign : Alg.DAssign := ⟨"a", ["i"], .mul (.tensor 1 "b" ["i"]) (.tensor 2 "c" ["i"])⟩
def exCrdB : Nat → Int := fun j => [0, 2, 5].getD j 0
def exCrdC : Nat → Int := fun j => [2, 3, 5].getD j 0
def exCellsB {F : Type} (c : Int → F) : Nat → F := fun j => [c 1, c 2, c 3].getD j (c 0)
def exCellsC {F : Type} (c : Int → F) : Nat → F := fun j => [c 10, c 20, c 30].getD j (c 0)

/-- generic in the carrier: the state the driver builds for the output `a` (dimension 6, empty),
`b = {0: c 1, 2: c 2, 5: c 3}` and `c = {2: c 10, 3: c 20, 5: c 30}` -/
def exStateOf {F : Type} (c : Int → F) : State F :=
  { vars := [⟨"a", .ptr .tensor, some (.tensor 0)⟩, ⟨"b", .ptr .tensor, some (.tensor 1)⟩,
             ⟨"c", .ptr .tensor, some (.tensor 2)⟩],
    heap := [⟨.int, [some (.int 6)], .output, true⟩,
             ⟨.int, [some (.int 6)], .input, true⟩,
             ⟨.int, [some (.int 0), some (.int 3)], .input, true⟩,
             ⟨.int, [some (.int 0), some (.int 2), some (.int 5)], .input, true⟩,
             ⟨.float, [some (.flt (c 1)), some (.flt (c 2)), some (.flt (c 3))], .input, true⟩,
             ⟨.int, [some (.int 6)], .input, true⟩,
             ⟨.int, [some (.int 0), some (.int 3)], .input, true⟩,
             ⟨.int, [some (.int 2), some (.int 3), some (.int 5)], .input, true⟩,
             ⟨.float, [some (.flt (c 10)), some (.flt (c 20)), some (.flt (c 30))], .input, true⟩],
    tensors := [⟨1, 0, [some (.null, .null)], .null, .output⟩,
                ⟨1, 1, [some (.ptr 2 0, .ptr 3 0)], .ptr 4 0, .input⟩,
                ⟨1, 5, [some (.ptr 6 0, .ptr 7 0)], .ptr 8 0, .input⟩] }

/-- **W1, closed instance**: the source assignment desugars to `exAssign`, and the graph of the class is the
one the front half (`bestAlgorithm`) chooses for it -/
theorem spmul_bestAlgorithm :
    Alg.desugar exSrc = exAssign ∧
    bestAlgorithm exAssign exFormats = .graph (graph "i" exOut exB exC) := by
  refine ⟨by decide, ?_⟩
  have h : toIterationGraphs exAssign exFormats = .ok [graph "i" exOut exB exC] := by rfl
  simp only [bestAlgorithm, h]

/-- the instance is in the class -/
example : isClass "i" exOut exB exC = true := by decide

theorem exKernelOK : KernelOK exFormats "i" exOut exB exC :=
  ⟨⟨by decide, by decide, by decide, by decide, by decide, by decide, by decide, by decide, by decide,
    by decide, by decide, by decide, by decide⟩, rfl⟩

theorem exCells3 {F : Type} (a0 a1 a2 d : F) (j : Nat) (hj : j < 3) :
    ([some (.flt a0), some (.flt a1), some (.flt a2)] : List (Option (Val F)))[j]? =
      some (some (.flt ([a0, a1, a2].getD j d))) := by
  match j, hj with
  | 0, _ => rfl
  | 1, _ => rfl
  | 2, _ => rfl

theorem exInitOf {F : Type} [FloatOps F] (c : Int → F) :
    Init exOut exB exC 0 ⟨1, 0, [some (.null, .null)], .null, .output⟩ 6
      1 ⟨1, 1, [some (.ptr 2 0, .ptr 3 0)], .ptr 4 0, .input⟩ 3 2 3 4 exCrdB (exCellsB c)
      2 ⟨1, 5, [some (.ptr 6 0, .ptr 7 0)], .ptr 8 0, .input⟩ 3 6 7 8 exCrdC (exCellsC c) (exStateOf c) := by
  refine
    { avar := ⟨_, rfl, rfl, rfl⟩, fresh := ?_, arec := rfl, aown := rfl,
      aord := Nat.zero_lt_one, aslot := ⟨_, _, rfl, rfl, rfl⟩, avals := rfl,
      adim := ⟨_, rfl, rfl, rfl, rfl⟩, n32 := by decide,
      b := { var := ⟨_, rfl, rfl, rfl⟩, hrec := rfl, ord := Nat.zero_lt_one, slot := rfl, vals := rfl,
             pos := ⟨_, rfl, rfl, rfl, rfl, rfl⟩, crd := ⟨_, rfl, rfl, rfl, Nat.le_refl _, ?_⟩,
             val := ⟨_, rfl, rfl, rfl, ?_⟩ },
      c := { var := ⟨_, rfl, rfl, rfl⟩, hrec := rfl, ord := Nat.zero_lt_one, slot := rfl, vals := rfl,
             pos := ⟨_, rfl, rfl, rfl, rfl, rfl⟩, crd := ⟨_, rfl, rfl, rfl, Nat.le_refl _, ?_⟩,
             val := ⟨_, rfl, rfl, rfl, ?_⟩ } }
  · intro x h1 h2 h3
    have e1 : ("a" == x) = false := beq_eq_false_iff_ne.2 (Ne.symm h1)
    have e2 : ("b" == x) = false := beq_eq_false_iff_ne.2 (Ne.symm h2)
    have e3 : ("c" == x) = false := beq_eq_false_iff_ne.2 (Ne.symm h3)
    simp [lookupVar, exStateOf, List.find?, e1, e2, e3]
  · intro j hj
    match j, hj with
    | 0, _ => rfl
    | 1, _ => rfl
    | 2, _ => rfl
  · intro j hj; exact exCells3 _ _ _ _ j hj
  · intro j hj
    match j, hj with
    | 0, _ => rfl
    | 1, _ => rfl
    | 2, _ => rfl
  · intro j hj; exact exCells3 _ _ _ _ j hj

theorem exSortedB : ∀ j k, j < k → k < 3 → exCrdB j < exCrdB k := by
  intro j k h1 h2
  have h : (j = 0 ∧ k = 1) ∨ (j = 0 ∧ k = 2) ∨ (j = 1 ∧ k = 2) := by omega
  rcases h with ⟨rfl, rfl⟩ | ⟨rfl, rfl⟩ | ⟨rfl, rfl⟩ <;> decide

theorem exSortedC : ∀ j k, j < k → k < 3 → exCrdC j < exCrdC k := by
  intro j k h1 h2
  have h : (j = 0 ∧ k = 1) ∨ (j = 0 ∧ k = 2) ∨ (j = 1 ∧ k = 2) := by omega
  rcases h with ⟨rfl, rfl⟩ | ⟨rfl, rfl⟩ | ⟨rfl, rfl⟩ <;> decide

theorem exRangeB : ∀ j, j < 3 → -2147483648 ≤ exCrdB j ∧ exCrdB j < 2147483648 := by
  intro j hj
  match j, hj with
  | 0, _ => decide
  | 1, _ => decide
  | 2, _ => decide

theorem exRangeC : ∀ j, j < 3 → -2147483648 ≤ exCrdC j ∧ exCrdC j < 2147483648 := by
  intro j hj
  match j, hj with
  | 0, _ => decide
  | 1, _ => decide
  | 2, _ => decide

/-- literals of the instance over `Int`: the numerator (the expression has no literal) -/
def exOfRat : Rat → Int := fun q => q.num

/-- the reference on the instance: `{0:1, 2:2, 5:3} ∩ {2:10, 3:20, 5:30} = {2:20, 5:90}` -/
theorem exIntersect :
    intersect (assoc 3 exCrdB (exCellsB (F := Int) id)) (assoc 3 exCrdC (exCellsC (F := Int) id)) =
      [(2, 20), (5, 90)] := by decide

/-- the loop index takes the values `0, 2, 3, 5`: four iterations for three + three stored entries -/
theorem exTrace :
    mergeTrace [⟨inLeaf exB, 3, exCrdB, 0, 3⟩, ⟨inLeaf exC, 7, exCrdC, 0, 3⟩] = [0, 2, 3, 5] := by
  decide

/-- **W3 is not vacuous** (over `Int`, initial capacity 1 — both `crd` and `vals` are reallocated): every
hypothesis holds on the instance, `generateIr` produces the kernel, and the run returns `0` after 4 iterations
and leaves `pos = [0, 2]`, `crd = [2, 5]`, `vals = [20, 90, ·]` in fresh blocks the output record points to;
the inputs are untouched. -/
theorem spmul_example : ∃ f o,
    generateIr exOfRat (some 1) exAssign exFormats (graph "i" exOut exB exC) .evaluate = .ok f ∧
    exec 7 f.body (exStateOf (F := Int) id) = .ok o ∧ o.ret = some (.int 0) ∧ o.iters = 4 ∧
    (∃ tr' pF cF vF vblk, o.st.tensors[0]? = some tr' ∧
      tr'.slots = [some (.ptr pF 0, .ptr cF 0)] ∧ tr'.vals = .ptr vF 0 ∧
      o.st.heap[pF]? = some ⟨.int, [some (.int 0), some (.int 2)], .output, true⟩ ∧
      o.st.heap[cF]? = some ⟨.int, [some (.int 2), some (.int 5)], .output, true⟩ ∧
      o.st.heap[vF]? = some vblk ∧ vblk.live = true ∧ vblk.cells.length = 3 ∧
      vblk.cells[0]? = some (some (.flt 20)) ∧ vblk.cells[1]? = some (some (.flt 90))) ∧
    (∀ k, k < 9 → o.st.heap[k]? = (exStateOf (F := Int) id).heap[k]?) := by
  have hgen := spmul_generateIr_eq exOfRat (some 1) exAssign exFormats "i" exOut exB exC (by decide)
    (by decide) (by decide) rfl (by decide)
  obtain ⟨o, eo, hret, _, hit, ⟨tr', pF, cF, vF, vblk, h1, _, _, _, h5, h6, _, _, _, _, _, _, h13, h14, h15, h16, _,
    _, h19, h20⟩, _, _, hheap⟩ :=
    spmul_kernel_correct exOfRat (some 1) exAssign exFormats "i" exOut exB exC (by decide) (by decide)
      (by decide) rfl (by decide) exKernelOK (by decide) (by decide) 0 _ 6 1 _ 3 2 3 4 exCrdB
      (exCellsB (F := Int) id) 2 _ 3 6 7 8 exCrdC (exCellsC (F := Int) id) _ (exInitOf (F := Int) id)
      (by decide) (by decide) exRangeB exRangeC (fun q r _ _ _ => ToIr.Ex.allFinite_int _ _ _) _ hgen 7
      (by decide)
  rw [exTrace] at hit
  rw [exIntersect] at h13 h14 h19 h20
  exact ⟨_, o, hgen, eo, hret, hit, ⟨tr', pF, cF, vF, vblk, h1, h5, h6, h13, h14, h15, h16, h19,
    h20 0 (by decide), h20 1 (by decide)⟩, hheap⟩

/-- the result of the instance is a well-formed compressed vector of dimension 6 whose stored coordinates are
exactly those stored in both inputs, and it decodes to `{2: 20, 5: 90}` -/
example : Storage.wfCheck (storedVec 6 [2, 5] [20, 90]) = true ∧
    Storage.decode (storedVec 6 [2, 5] [20, 90]) = some [([2], 20), ([5], 90)] := by decide

/-- `spmul_result_wf` / `spmul_no_phantom` / `spmul_intersect_spec` are not vacuous: the instance is sorted
and in range -/
example : Storage.wfCheck (storedVec 6 ((intersect (assoc 3 exCrdB (exCellsB (F := Int) id))
    (assoc 3 exCrdC (exCellsC (F := Int) id))).map (·.1)) [20, 90]) = true :=
  (spmul_result_wf (exCellsB (F := Int) id) (exCellsC (F := Int) id) 6 exSortedB exSortedC (by
    intro j hj
    match j, hj with
    | 0, _ => decide
    | 1, _ => decide
    | 2, _ => decide) [20, 90] (by rw [exIntersect]; rfl)).1

/-- **W4 is not vacuous**: the same instance over the exact carrier `Rat`, default initial capacity, kernel
generated from the desugared SOURCE assignment; the stored result is `{2: 20, 5: 90}` and its dense reading is
`Alg.denote` of `a(i) = b(i) * c(i)` for the inputs read off the stored operands -/
theorem spmul_example_exact : ∃ (f : Func Rat) (o : Out Rat) (H : List (Int × Rat)),
    generateIr (F := Rat) id none (Alg.desugar exSrc) exFormats (graph "i" exOut exB exC) .evaluate = .ok f ∧
    exec 7 f.body (exStateOf (fun z => (z : Rat))) = .ok o ∧ o.ret = some (.int 0) ∧
    H = [(2, 20), (5, 90)] ∧
    (∃ (cF : Nat), o.st.heap[cF]? = some ⟨.int, H.map (fun p => some (.int p.1)), .output, true⟩) ∧
    ∀ x : Nat, vecAt H x = Alg.denote exSrc
      (fun nm co => if nm = "b" then vecAt (assoc 3 exCrdB (exCellsB (fun z => (z : Rat)))) (co.headD 0)
        else vecAt (assoc 3 exCrdC (exCellsC (fun z => (z : Rat)))) (co.headD 0)) (fun _ => 6) [x] := by
  have hgen : generateIr (F := Rat) id none (Alg.desugar exSrc) exFormats (graph "i" exOut exB exC) .evaluate =
      .ok (kernel id none exFormats "i" exOut exB exC) := by
    rw [spmul_bestAlgorithm.1]
    exact spmul_generateIr_eq (F := Rat) id none exAssign exFormats "i" exOut exB exC (by decide)
      (by decide) (by decide) rfl (by decide)
  obtain ⟨o, H, hH, eo, hret, _, ⟨tr', pF, cF, vF, vblk, _, _, _, _, h14, _⟩, hden⟩ :=
    spmul_kernel_exact none "a" "b" "c" exFormats "i" exOut exB exC (by decide) (by decide) (by decide)
      exKernelOK (by decide) (by decide) 0 _ 6 1 _ 3 2 3 4 exCrdB (exCellsB (fun z => (z : Rat))) 2 _ 3 6 7 8
      exCrdC (exCellsC (fun z => (z : Rat))) _ (exInitOf (fun z => (z : Rat))) (by decide) (by decide) exRangeB
      exRangeC exSortedB exSortedC _ hgen
      (fun nm co => if nm = "b" then vecAt (assoc 3 exCrdB (exCellsB (fun z => (z : Rat)))) (co.headD 0)
        else vecAt (assoc 3 exCrdC (exCellsC (fun z => (z : Rat)))) (co.headD 0)) (fun _ => 6)
      (fun x => by simp) (fun x => by simp) 7 (by decide)
  have hHv : H = [(2, 20), (5, 90)] := by
    rw [hH]
    simp [assoc, List.range, List.range.loop, exCrdB, exCrdC, exCellsB, exCellsC, intersect, interAux,
      FloatOps.mul]
    constructor <;> grind
  exact ⟨_, o, H, hgen, eo, hret, hHv, ⟨cF, h14⟩, hden⟩

end TV.Spmul
