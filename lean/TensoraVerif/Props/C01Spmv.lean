import TensoraVerif.Lemmas.SpmvExact
import TensoraVerif.Lemmas.SpmvNames
import TensoraVerif.Model.FloatLaws
import TensoraVerif.Props.C07Typed

/-!
# C01 (with C02/C05/C16), end to end, for the CSR sparse matrix–vector product

The flagship kernel of a sparse tensor compiler: `a(i) = B(i,j) * c(j)` with formats `a: d`, `B: ds`
(dense rows, compressed columns = CSR), `c: d`. "The kernel computes the mathematical meaning of the
assignment" is proved on the machine (`Model/Machine.lean`) for the code `generateIr` emits, for EVERY
well-formed CSR matrix and EVERY dense vector.

The class: `outT` an order-1 dense tensor indexed by `[i]` (`Dense2.isI`), `tB` an order-2 tensor
indexed by `[i, j]` with modes `[dense, compressed]` (`isCsr`), `tC` an order-1 dense tensor indexed by
`[j]` (`Dense2.isJ`); the iteration graph is
`Spmv.graph i j outT tB tC = .iter i (some ⟨outT, 0⟩) (.iter j none (.terminal (B * c)))`, where the
context of the inner node has the sparse leaf `⟨B, 1⟩` and the dense leaf `⟨c, 0⟩`.

* **V1** the graph is the one `bestAlgorithm` chooses (closed instance, `rfl`); `spmv_lower_eq`,
  `spmv_generateIr_eq`: the exact emitted statements (outer dense loop over `i`: `p_<B>_0 = i`, bucket
  initialisation; `writeSparseInit ⟨B,1⟩` reading `B_1_pos[p_<B>_0]`, `B_1_pos[p_<B>_0 + 1]`; inner merge
  loop over the row's stored entries with `j = B_1_crd[p]`, dense cursor `p_<c>_0 = 0 * j_dim + j`,
  `bucket[0] += B_vals[p] * c_vals[p_<c>_0]`). There is no `int j = 0` and no test against `j_dim`.
* **V2** `spmv_loops_correct` — Hoare theorem for the loop nest, for every well-formed CSR matrix
  (`Csr`: `pos[0] = 0`, non-decreasing, `pos[n] = nnz`, every stored column in `[0, m)`; SORTEDNESS OF
  THE COLUMNS WITHIN A ROW IS NOT NEEDED, duplicates are allowed) and every dense vector: runs with any
  fuel `≥ n + L + 2` (`L` a bound on the row lengths; `L = nnz` always works: `spmv_row_le_nnz`) in
  EXACTLY `2 * n + nnz` loop iterations (`n` outer, `n` bucket-initialisation, `nnz` inner — the work
  is proportional to `nnz`, not to `n * m`: C16) and leaves
  `rowDotF … ii = ((ofInt 0 + B_vals[p₀] * c_vals[crd[p₀]]) + …)` — the sum over the stored entries
  of row `ii` IN LOOP ORDER — in cell `ii` of the output block; inputs unchanged.
* **V3** `spmv_kernel_correct` — the whole `evaluate` function from an initial state as the driver
  builds it (`Init`: three tensor records, the record of `B` has slot 1 = `(pos, crd)`): returns `0`, the
  fresh output `vals` block holds exactly those sums.
* **V4** `spmv_kernel_denote` — over `Rat` the cells equal `Alg.denote` of the SOURCE assignment at
  `[ii]` for inputs `B[ii,jj] = csrAt …` = the decoded matrix (the sum of the stored entries of row
  `ii` with column `jj`; no sortedness needed); `spmv_decoded_sorted`: with strictly increasing columns
  within the row the decoded entry is the unique stored entry, or `0`.
* non-vacuity: `B = [[1,0,2],[0,0,0],[0,3,0]]` in CSR (`pos [0,2,2,3]`, `crd [0,2,1]`, `vals [1,2,3]`),
  `c = [4,5,6]` → `a = [16, 0, 15]` (V1 written out, V2 on a mid-kernel state, V3 over `Int`, V4 over
  `Rat` against `Alg.denote`), `2 * 3 + 3 = 9` loop iterations, fuel `7`.

Vocabulary (Lemmas/SpmvModel.lean, SpmvSpec.lean, SpmvKernel.lean, SpmvExact.lean): `Csr n m nnz pos
crd` well-formed CSR arrays; `termF`, `accF`, `rowDotF` the sums in loop order; `stepFinite … p0 k` what
the machine checks at stored entry `p0 + k` (both loaded values, their product, the accumulator read
back and the new running sum are finite), `RowFinite … ii` that for every entry of row `ii`; `allNames` /
`kernelNames` the variable names of the nest / the kernel (they must be pairwise distinct: a decidable
hypothesis, `by decide` on every concrete instance); `scratch` the variables the nest writes; `Env` the
part of the state the nest reads; `csrAt` the decoded matrix.
-/
namespace TV.Spmv
open TV.IR TV.Gen TV.Graph TV.Growth TV.Merge
open TV.Dense1 (TensorVar ratFloatOps)
open TV.Dense2 (isI isJ bN bL reqTy OutIs)

variable {F : Type} [FloatOps F]

/-! ### V1: what the pass emits -/

omit [FloatOps F] in
/-- **V1 (the lowered loop nest).** For the graph of the class (`i ≠ j`), `lower` (any fuel `≥ 3`)
succeeds and returns `loopLines ofRat i j outT tB tC`:
```
int i = 0;
while (i < i_dim) {
  int p_<a>_0 = 0 * i_dim + i;  int p_<B>_0 = 0 * i_dim + i;
  if (true) { /* Iteration over j */
    { /* Bucket initialization */
      double* bucket_<a> = <a>_vals + p_<a>_0 * 1;  int i_bucket_<a> = 0;
      while (i_bucket_<a> < 1) { bucket_<a>[i_bucket_<a>] = 0; i_bucket_<a> = i_bucket_<a> + 1; } }
    int p_<B>_1 = <B>_1_pos[p_<B>_0];  int p_<B>_1_end = <B>_1_pos[p_<B>_0 + 1];
    while (true && p_<B>_1 < p_<B>_1_end) {
      int i_<B>_1 = <B>_1_crd[p_<B>_1];  int j = i_<B>_1;
      int p_<c>_0 = 0 * j_dim + j;
      if (true && i_<B>_1 == j) { bucket_<a>[0] = bucket_<a>[0] + <B>_vals[p_<B>_1] * <c>_vals[p_<c>_0]; }
      p_<B>_1 = p_<B>_1 + (int)(i_<B>_1 == j); } }
  i = i + 1; }
```
The inner loop is C05's merge skeleton `mergeLoopL [⟨B,1⟩] j …` over the single sparse leaf. -/
theorem spmv_lower_eq (ofRat : Rat → F) (k : Nat) (i j : String) (hij : i ≠ j) (outT tB tC : TensorId)
    (ho : isI i outT = true) (hB : isCsr i j tB = true) (hC : isJ j tC = true) :
    lower ofRat (k + 3) (graph i j outT tB tC) (.append outT 0) .evaluate =
      .ok ⟨some ("*** Iteration over " ++ i ++ " ***"), loopLines ofRat i j outT tB tC⟩ :=
  lower_eq ofRat k i j hij outT tB tC ho hB hC

omit [FloatOps F] in
/-- the inner loop of `loopLines` is C05's merge loop over the single leaf `⟨B, 1⟩`, and the context of
the inner node is: sparse, sparse leaf `⟨B,1⟩`, dense leaf `⟨c,0⟩` -/
theorem spmv_inner_context (ofRat : Rat → F) (i j : String) (hij : i ≠ j) (outT tB tC : TensorId)
    (hB : isCsr i j tB = true) (hC : isJ j tC = true) :
    nodeContext (.iter j none (.terminal (spE tB tC))) = ⟨true, [⟨tB, 1⟩], [⟨tC, 0⟩]⟩ ∧
    innerLoop ofRat j outT tB tC = mergeLoopL [⟨tB, 1⟩] j (midLines ofRat j outT tB tC) := by
  refine ⟨?_, rfl⟩
  rw [← extractContext_j hij hB hC]
  simp [nodeContext, IGraph.context]

omit [FloatOps F] in
/-- **V1 (the generated kernel).** For an assignment whose dimension variables are `i_dim` (dimension 0
of the output) and `j_dim` (dimension 1 of `B`), the format table `a: d, B: ds, c: d` and the graph of the
class, `generateIr` succeeds and returns exactly `Spmv.kernel`:
`{ int i_dim = a->dimensions[0]; int j_dim = B->dimensions[1]; double* a_vals = a->vals;
int* B_1_pos = B->indices[1][0]; int* B_1_crd = B->indices[1][1]; double* B_vals = B->vals;
double* c_vals = c->vals; int a_vals_capacity = 1 * a->dimensions[0]; a_vals = malloc(…);
<loop nest>; a->vals = a_vals; return 0; }`. -/
theorem spmv_generateIr_eq (ofRat : Rat → F) (cap : Option Int) (a : Alg.DAssign)
    (i j : String) (hij : i ≠ j) (outT tB tC : TensorId)
    (hout : tensorId 0 a.tname (spFormats outT.name tB.name tC.name) a.tidx = some outT)
    (ho : isI i outT = true) (hB : isCsr i j tB = true) (hC : isJ j tC = true)
    (hd : indexDimensions a = [(i, a.tname, 0), (j, tB.name, 1)]) :
    generateIr ofRat cap a (spFormats outT.name tB.name tC.name) (graph i j outT tB tC) .evaluate =
      .ok (kernel ofRat i j outT tB tC) :=
  generateIr_eq ofRat cap a i j hij outT tB tC hout (Dense1.tensorId_name hout) ho hB hC hd

/-! ### V2 -/

/-- every row is at most `nnz` long: `L = nnz` is always a valid bound in V2/V3 -/
theorem spmv_row_le_nnz {n m nnz : Nat} {pos crd : Nat → Nat} (hcsr : Csr n m nnz pos crd)
    (ii : Nat) (hii : ii < n) : pos (ii + 1) - pos ii ≤ nnz := by
  have := hcsr.pos_le_nnz (a := ii + 1) (by omega)
  omega

/-- **V2 (the loop nest computes the row sums in loop order, in `2 n + nnz` iterations).** Let the
tensors be of the class and the variable names of the nest pairwise distinct (`allNames`); let
`pos`, `crd` be well-formed CSR arrays of an `n × m` matrix with `nnz` stored entries (`Csr`; no
sortedness), `n, m, nnz < 2^31`, every row at most `L` long; and `σ` a machine state in which (`Env`)
* `i_dim`, `j_dim` are `int`s holding `n`, `m`; `<a>_vals` points to block `ob`;
* `<B>_1_pos` points to a live `int` block whose cells `0 … n` hold `pos`; `<B>_1_crd` to a live `int`
  block whose first `nnz` cells hold `crd`; `<B>_vals` to a live float block whose first `nnz` cells hold
  `vB`; `<c>_vals` to a live float block whose first `m` cells hold `vC`; none of them is `ob`;
* the scratch variables are undeclared or declared with the type the nest declares them with;
block `ob` is a live, output-owned float block of at least `n` cells; and at every stored entry what
the machine checks is finite (`RowFinite`).

Then whatever `lower` returns for the graph runs on the machine, with any fuel `≥ n + L + 2`, without
error and without returning, in EXACTLY `2 * n + nnz` loop iterations, and in the final state
* cell `ii` of block `ob` holds `rowDotF vB vC pos crd ii` =
  `((ofInt 0 + vB[p₀] * vC[crd p₀]) + vB[p₀+1] * vC[crd (p₀+1)]) + …` over `p ∈ [pos ii, pos (ii+1))`,
  for every `ii < n`; the cells `≥ n` are unchanged; the block is still live, output-owned, float, of the
  same length;
* every other block (all inputs), every tensor record, and every variable other than the scratch
  variables is unchanged; the heap has not grown; `i` holds `n`. -/
theorem spmv_loops_correct (ofRat : Rat → F) (i j : String) (outT tB tC : TensorId)
    (ho : isI i outT = true) (hB : isCsr i j tB = true) (hC : isJ j tC = true)
    (hN : (allNames i j outT tB tC).Nodup)
    (n m nnz ob pb cb vb xb : Nat) (pos crd : Nat → Nat) (vB vC : Nat → F) (σ : State F)
    (hcsr : Csr n m nnz pos crd)
    (hn : n < 2147483648) (hm : m < 2147483648) (hnnz : nnz < 2147483648)
    (L : Nat) (hL : ∀ ii, ii < n → pos (ii + 1) - pos ii ≤ L)
    (henv : Env i j outT tB tC n m nnz ob pb cb vb xb pos crd vB vC σ)
    (houtBlk : ∃ blk, σ.heap[ob]? = some blk ∧ blk.live = true ∧ blk.owner = .output ∧
      blk.ty = .float ∧ n ≤ blk.cells.length)
    (hfin : ∀ ii, ii < n → RowFinite vB vC pos crd ii)
    (k : Nat) (body : SB F)
    (hlow : lower ofRat (k + 3) (graph i j outT tB tC) (.append outT 0) .evaluate = .ok body)
    (fuel : Nat) (hfuel : n + L + 2 ≤ fuel) :
    ∃ o, exec fuel body.finalize σ = .ok o ∧ o.ret = none ∧ o.iters = 2 * n + nnz ∧
      (∃ blk blk', σ.heap[ob]? = some blk ∧ o.st.heap[ob]? = some blk' ∧
        blk'.live = true ∧ blk'.owner = .output ∧ blk'.ty = .float ∧
        blk'.cells.length = blk.cells.length ∧
        (∀ ii, ii < n → blk'.cells[ii]? = some (some (.flt (rowDotF vB vC pos crd ii)))) ∧
        (∀ k, n ≤ k → blk'.cells[k]? = blk.cells[k]?)) ∧
      (∀ b, b ≠ ob → o.st.heap[b]? = σ.heap[b]?) ∧
      o.st.heap.length = σ.heap.length ∧
      o.st.tensors = σ.tensors ∧
      (∀ y, y ∉ scratch i j outT tB tC → lookupVar o.st.vars y = lookupVar σ.vars y) ∧
      IntVar o.st i n := by
  have hij : i ≠ j := by spnm hN
  rw [lower_eq ofRat k i j hij outT tB tC ho hB hC] at hlow
  cases hlow
  obtain ⟨blk, hb, hlive, hown, hty, hlen⟩ := houtBlk
  have hout0 : OutIs σ ob blk.cells := by
    unfold OutIs; rw [hb]
    cases blk with
    | mk ty cells owner live =>
      simp only at hlive hown hty ⊢
      subst hlive hown hty; rfl
  obtain ⟨σ', ⟨o, eo, hret, hst, hit⟩, hp⟩ := loopLines_runs ofRat hN hB hC hcsr (by omega) (by omega)
    (by omega) L hL hfin σ fuel blk.cells henv hout0 hlen hfuel
  subst hst
  refine ⟨o, ?_, hret, hit, ?_, hp.frame.heap, hp.frame.heapLen, hp.frame.tensors, hp.frame.vars, hp.idx⟩
  · show exec fuel (.block _ _) σ = _
    rw [exec.eq_5]; exact eo
  · obtain ⟨cells', h1, h2, h3, h4⟩ := hp.out
    exact ⟨blk, _, hb, h1, rfl, rfl, rfl, h2, fun ii hii => h3 ii (by omega) hii,
      fun k hk => h4 k (Or.inr hk)⟩

/-- the running sums, unfolded: `accF` starts from `ofInt 0` and adds `vB[p0 + k] * vC[crd (p0 + k)]`
at step `k`; `rowDotF ii` is `accF` from `pos ii` after `pos (ii+1) − pos ii` steps -/
theorem spmv_rowDotF_unfold (vB vC : Nat → F) (pos crd : Nat → Nat) (ii p0 k : Nat) :
    accF vB vC crd p0 0 = FloatOps.ofInt 0 ∧
    accF vB vC crd p0 (k + 1) =
      FloatOps.add (accF vB vC crd p0 k) (FloatOps.mul (vB (p0 + k)) (vC (crd (p0 + k)))) ∧
    rowDotF vB vC pos crd ii = accF vB vC crd (pos ii) (pos (ii + 1) - pos ii) :=
  ⟨rfl, rfl, rfl⟩

/-! ### V3 -/

/-- **V3 (the generated `evaluate` kernel computes the CSR matrix–vector product).** For the desugared
assignment `a(i) = Σ_j B(i,j) * c(j)` (tensor occurrence numbers `k1`, `k2` arbitrary), the format table
`a: d, B: ds, c: d`, `outT` the output tensor as `generateIr` computes it, `tB` a CSR tensor, `tC` a dense
vector, the variable names of the kernel pairwise distinct (`kernelNames`): let `σ` be an initial
machine state as the driver builds it (`Init`): the variables are exactly the three tensor parameters;
the output record is output-owned and its `dimensions` block holds `n` at 0; the record of `B` has
`dimensions[1] = m`, slot 1 = `(pos, crd)` (base addresses of two live `int` blocks holding well-formed
CSR arrays: cells `0 … n` of the first, the first `nnz` cells of the second) and `vals` pointing to a live
float block whose first `nnz` cells hold `vB`; the record of `c` has `vals` pointing to a live float block
whose first `m` cells hold `vC`; `n, m, nnz < 2^31`; every row at most `L` long; every machine check
finite.

Then the function `f` that `generateIr` produces runs on the machine with any fuel `≥ n + L + 2` without
error, **returns `0`** after exactly `2 * n + nnz` loop iterations, and in the final state the output
record's `vals` points to block `σ.heap.length` — a fresh, live, output-owned float block whose cells
are **exactly** `rowDotF vB vC pos crd ii` for `ii = 0 … n-1`; every block of the initial heap (all
inputs) and every other record is unchanged. -/
theorem spmv_kernel_correct (ofRat : Rat → F) (cap : Option Int) (k1 k2 : Nat) (i j : String)
    (outT tB tC : TensorId)
    (hout : tensorId 0 outT.name (spFormats outT.name tB.name tC.name) [i] = some outT)
    (hB : isCsr i j tB = true) (hC : isJ j tC = true)
    (hK : (kernelNames i j outT tB tC).Nodup)
    (n m nnz ta tb tc pb cb vb xb : Nat) (pos crd : Nat → Nat) (vB vC : Nat → F) (σ : State F)
    (hcsr : Csr n m nnz pos crd)
    (hn : n < 2147483648) (hm : m < 2147483648) (hnnz : nnz < 2147483648)
    (L : Nat) (hL : ∀ ii, ii < n → pos (ii + 1) - pos ii ≤ L)
    (hfin : ∀ ii, ii < n → RowFinite vB vC pos crd ii)
    (hinit : Init outT tB tC n m nnz ta tb tc pb cb vb xb pos crd vB vC σ)
    (f : Func F)
    (hgen : generateIr ofRat cap
      ⟨outT.name, [i], .contract j (.mul (.tensor k1 tB.name [i, j]) (.tensor k2 tC.name [j]))⟩
      (spFormats outT.name tB.name tC.name) (graph i j outT tB tC) .evaluate = .ok f)
    (fuel : Nat) (hfuel : n + L + 2 ≤ fuel) :
    ∃ o, exec fuel f.body σ = .ok o ∧ o.ret = some (.int 0) ∧ o.iters = 2 * n + nnz ∧
      (∃ tr, σ.tensors[ta]? = some tr ∧
        o.st.tensors[ta]? = some { tr with vals := .ptr σ.heap.length 0 }) ∧
      (∃ blk, o.st.heap[σ.heap.length]? = some blk ∧ blk.live = true ∧ blk.owner = .output ∧
        blk.ty = .float ∧
        blk.cells = (List.range n).map fun ii => some (.flt (rowDotF vB vC pos crd ii))) ∧
      (∀ b, b < σ.heap.length → o.st.heap[b]? = σ.heap[b]?) ∧
      o.st.heap.length = σ.heap.length + 1 ∧
      (∀ k', k' ≠ ta → o.st.tensors[k']? = σ.tensors[k']?) := by
  have hij : i ≠ j := by spnm hK
  have ho : isI i outT = true := by
    have h := tensorId_out outT.name tB.name tC.name i
    rw [hout] at h
    have e := Option.some.inj h
    have h1 : outT.indexes = [i] := congrArg TensorId.indexes e
    have h2 : outT.modes = [.dense] := congrArg TensorId.modes e
    simp [isI, h1, h2]
  rw [spmv_generateIr_eq ofRat cap _ i j hij outT tB tC hout ho hB hC
    (Dense2.indexDimensions_matvec outT.name tB.name tC.name i j hij k1 k2)] at hgen
  cases hgen
  obtain ⟨o, eo, hret, hit, hp⟩ := kernel_runs ofRat i j outT tB tC hK hB hC hcsr (by omega) (by omega)
    (by omega) L hL hfin hinit fuel hfuel
  exact ⟨o, eo, hret, hit, hp.outRec, hp.blk, hp.heap, hp.heapLen, hp.otherRecs⟩

/-- **names.** The name hypothesis `kernelNames … .Nodup` of V2/V3 holds for the names the pipeline
builds: index names `i`, `j` and tensor names `a`, `B`, `c` without `'_'` (every name the parser accepts
is alphanumeric), pairwise different, and the tensors `pOut a i = ⟨"0_a", a, [i], [d]⟩`,
`pB B i j = ⟨"1_B", B, [i,j], [d,s]⟩`, `pC c j = ⟨"2_c", c, [j], [d]⟩` (`tensorId 0` for the output,
occurrence numbers 1, 2 from `Alg.desugar`). -/
theorem spmv_names_generated (i j an Bn cn : String)
    (hi : '_' ∉ i.toList) (hj : '_' ∉ j.toList) (ha : '_' ∉ an.toList) (hb : '_' ∉ Bn.toList)
    (hc : '_' ∉ cn.toList)
    (hij : i ≠ j) (hia : i ≠ an) (hib : i ≠ Bn) (hic : i ≠ cn) (hja : j ≠ an) (hjb : j ≠ Bn)
    (hjc : j ≠ cn) (hab : an ≠ Bn) (hac : an ≠ cn) (hbc : Bn ≠ cn) :
    (kernelNames i j (pOut an i) (pB Bn i j) (pC cn j)).Nodup :=
  kernelNames_nodup i j an Bn cn hi hj ha hb hc hij hia hib hic hja hjb hjc hab hac hbc

/-- **V3 for every admissible choice of names**: for the SOURCE assignment `a(i) = B(i,j) * c(j)` with
any index names `i`, `j` and tensor names `a`, `B`, `c` without `'_'`, pairwise different — no name
hypothesis is left —, the kernel generated from `Alg.desugar` of it for the format table
`a: d, B: ds, c: d` and the graph of the class returns `0` after exactly `2 * n + nnz` loop iterations
and leaves the row sums in the fresh output block. -/
theorem spmv_kernel_correct_names (ofRat : Rat → F) (cap : Option Int) (i j an Bn cn : String)
    (hi : '_' ∉ i.toList) (hj : '_' ∉ j.toList) (ha : '_' ∉ an.toList) (hb : '_' ∉ Bn.toList)
    (hc : '_' ∉ cn.toList)
    (hij : i ≠ j) (hia : i ≠ an) (hib : i ≠ Bn) (hic : i ≠ cn) (hja : j ≠ an) (hjb : j ≠ Bn)
    (hjc : j ≠ cn) (hab : an ≠ Bn) (hac : an ≠ cn) (hbc : Bn ≠ cn)
    (n m nnz ta tb tc pb cb vb xb : Nat) (pos crd : Nat → Nat) (vB vC : Nat → F) (σ : State F)
    (hcsr : Csr n m nnz pos crd)
    (hn : n < 2147483648) (hm : m < 2147483648) (hnnz : nnz < 2147483648)
    (L : Nat) (hL : ∀ ii, ii < n → pos (ii + 1) - pos ii ≤ L)
    (hfin : ∀ ii, ii < n → RowFinite vB vC pos crd ii)
    (hinit : Init (pOut an i) (pB Bn i j) (pC cn j) n m nnz ta tb tc pb cb vb xb pos crd vB vC σ)
    (f : Func F)
    (hgen : generateIr ofRat cap
      (Alg.desugar ⟨an, [i], .mul (.tensor Bn [i, j]) (.tensor cn [j])⟩)
      (spFormats an Bn cn) (graph i j (pOut an i) (pB Bn i j) (pC cn j)) .evaluate = .ok f)
    (fuel : Nat) (hfuel : n + L + 2 ≤ fuel) :
    ∃ o, exec fuel f.body σ = .ok o ∧ o.ret = some (.int 0) ∧ o.iters = 2 * n + nnz ∧
      (∃ tr, σ.tensors[ta]? = some tr ∧
        o.st.tensors[ta]? = some { tr with vals := .ptr σ.heap.length 0 }) ∧
      (∃ blk, o.st.heap[σ.heap.length]? = some blk ∧ blk.live = true ∧ blk.owner = .output ∧
        blk.ty = .float ∧
        blk.cells = (List.range n).map fun ii => some (.flt (rowDotF vB vC pos crd ii))) ∧
      (∀ b, b < σ.heap.length → o.st.heap[b]? = σ.heap[b]?) ∧
      o.st.heap.length = σ.heap.length + 1 ∧
      (∀ k', k' ≠ ta → o.st.tensors[k']? = σ.tensors[k']?) := by
  rw [Dense2.desugar_matvec an Bn cn i j hij] at hgen
  exact spmv_kernel_correct ofRat cap 1 2 i j (pOut an i) (pB Bn i j) (pC cn j)
    (tensorId_out an Bn cn i) (by simp [isCsr, pB]) (by simp [isJ, pC])
    (spmv_names_generated i j an Bn cn hi hj ha hb hc hij hia hib hic hja hjb hjc hab hac hbc)
    n m nnz ta tb tc pb cb vb xb pos crd vB vC σ hcsr hn hm hnnz L hL hfin hinit f hgen fuel hfuel

/-- **V3 after the peephole optimiser** (the pipeline runs `peepF` on the function that `generateIr`
returns; the cursor initialisations `0 * i_dim + i`, `0 * j_dim + j`, `p * 1` and the tests `true && …`
are rewritten). Under the hypotheses of V3, the float laws `FloatLaws F` (C07) and the two computable
checks of C07's TYPED stable fragment — `f.noRetype` (the body lies in the fragment relative to the
function's own typing) and `σ.agrees f.tyEnv` on the entry state; both `by decide` on the instance
below — the OPTIMISED kernel returns `0` in a final state with the same guarantees (`KernelPost`), with
no `intOverflow` alternative. -/
theorem spmv_kernel_correct_optimised [FloatLaws F] (ofRat : Rat → F) (cap : Option Int) (k1 k2 : Nat)
    (i j : String) (outT tB tC : TensorId)
    (hout : tensorId 0 outT.name (spFormats outT.name tB.name tC.name) [i] = some outT)
    (hB : isCsr i j tB = true) (hC : isJ j tC = true)
    (hK : (kernelNames i j outT tB tC).Nodup)
    (n m nnz ta tb tc pb cb vb xb : Nat) (pos crd : Nat → Nat) (vB vC : Nat → F) (σ : State F)
    (hcsr : Csr n m nnz pos crd)
    (hn : n < 2147483648) (hm : m < 2147483648) (hnnz : nnz < 2147483648)
    (L : Nat) (hL : ∀ ii, ii < n → pos (ii + 1) - pos ii ≤ L)
    (hfin : ∀ ii, ii < n → RowFinite vB vC pos crd ii)
    (hinit : Init outT tB tC n m nnz ta tb tc pb cb vb xb pos crd vB vC σ)
    (f : Func F)
    (hgen : generateIr ofRat cap
      ⟨outT.name, [i], .contract j (.mul (.tensor k1 tB.name [i, j]) (.tensor k2 tC.name [j]))⟩
      (spFormats outT.name tB.name tC.name) (graph i j outT tB tC) .evaluate = .ok f)
    (hnr : f.noRetype = true) (hag : σ.agrees f.tyEnv = true)
    (fuel : Nat) (hfuel : n + L + 2 ≤ fuel) :
    ∃ o', exec fuel (peepF f).body σ = .ok o' ∧ o'.ret = some (.int 0) ∧
      KernelPost n ta pos crd vB vC σ o'.st := by
  obtain ⟨o, eo, hret, _, h1, h2, h3, h4, h5⟩ :=
    spmv_kernel_correct ofRat cap k1 k2 i j outT tB tC hout hB hC hK n m nnz ta tb tc pb cb vb xb pos crd
      vB vC σ hcsr hn hm hnnz L hL hfin hinit f hgen fuel hfuel
  obtain ⟨o', e', hst, hr'⟩ := peephole_func_sound_typed f fuel σ o hnr hag eo
  exact ⟨o', e', hr'.trans hret, by rw [hst]; exact ⟨h1, h5, h2, h3, h4⟩⟩

/-! ### V4 -/

/-- **the decoded matrix under strict sortedness within the row**: `csrAt` (the sum of the stored
entries of row `ii` with the given column) is the stored value at a stored column, and `0` at every
column that is not stored -/
theorem spmv_decoded_sorted (vB : Nat → Rat) (pos crd : Nat → Nat) (ii : Nat)
    (hle : pos ii ≤ pos (ii + 1))
    (hs : ∀ p q, pos ii ≤ p → p < q → q < pos (ii + 1) → crd p < crd q) :
    (∀ p, pos ii ≤ p → p < pos (ii + 1) → csrAt vB pos crd ii (crd p) = vB p) ∧
    (∀ jj, (∀ p, pos ii ≤ p → p < pos (ii + 1) → crd p ≠ jj) → csrAt vB pos crd ii jj = 0) :=
  csrAt_sorted vB pos crd ii hle hs

/-- **V4, exact instance: the sum over the stored entries is the sum over all columns.** Over `Rat`,
for well-formed CSR arrays (no sortedness): `rowDotF … ii = Σ_{jj < m} B[ii,jj] * c[jj]` with `B` the
decoded matrix `csrAt`. -/
theorem spmv_rowDotF_exact {n m nnz : Nat} {pos crd : Nat → Nat} (hcsr : Csr n m nnz pos crd)
    (vB vC : Nat → Rat) (ii : Nat) (hii : ii < n) :
    rowDotF (F := Rat) vB vC pos crd ii =
      Alg.sumRange m (fun jj => csrAt vB pos crd ii jj * vC jj) :=
  rowDotF_rat hcsr vB vC ii hii

/-- **V4, against the specification `Alg.denote`.** For the SOURCE assignment `a(i) = B(i,j) * c(j)`
(`Alg.Assign`, before desugaring; the kernel is generated from `Alg.desugar` of it), inputs
`inputs B [ii, jj] = csrAt vB pos crd ii jj` (the matrix the CSR arrays represent),
`inputs c [jj] = vC jj` and `sizes j = m`: over `Rat` (every value finite, exact arithmetic — no
finiteness hypothesis is left) the kernel returns `0` and cell `ii` of the output is exactly
`Alg.denote (a(i) = B(i,j) * c(j)) inputs sizes [ii]` — the sentence of C01. -/
theorem spmv_kernel_denote (cap : Option Int) (i j : String) (outT tB tC : TensorId)
    (hout : tensorId 0 outT.name (spFormats outT.name tB.name tC.name) [i] = some outT)
    (hB : isCsr i j tB = true) (hC : isJ j tC = true)
    (hK : (kernelNames i j outT tB tC).Nodup)
    (n m nnz ta tb tc pb cb vb xb : Nat) (pos crd : Nat → Nat) (vB vC : Nat → Rat) (σ : State Rat)
    (hcsr : Csr n m nnz pos crd)
    (hn : n < 2147483648) (hm : m < 2147483648) (hnnz : nnz < 2147483648)
    (L : Nat) (hL : ∀ ii, ii < n → pos (ii + 1) - pos ii ≤ L)
    (hinit : Init outT tB tC n m nnz ta tb tc pb cb vb xb pos crd vB vC σ)
    (inputs : Alg.Inputs) (sizes : Alg.Sizes) (hsz : sizes j = m)
    (hinB : ∀ ii, ii < n → ∀ jj, jj < m → inputs tB.name [ii, jj] = csrAt vB pos crd ii jj)
    (hinC : ∀ jj, jj < m → inputs tC.name [jj] = vC jj)
    (f : Func Rat)
    (hgen : generateIr id cap
      (Alg.desugar ⟨outT.name, [i], .mul (.tensor tB.name [i, j]) (.tensor tC.name [j])⟩)
      (spFormats outT.name tB.name tC.name) (graph i j outT tB tC) .evaluate = .ok f)
    (fuel : Nat) (hfuel : n + L + 2 ≤ fuel) :
    ∃ o, exec fuel f.body σ = .ok o ∧ o.ret = some (.int 0) ∧ o.iters = 2 * n + nnz ∧
      (∃ tr, σ.tensors[ta]? = some tr ∧
        o.st.tensors[ta]? = some { tr with vals := .ptr σ.heap.length 0 }) ∧
      ∃ blk, o.st.heap[σ.heap.length]? = some blk ∧ blk.live = true ∧
        blk.cells = (List.range n).map fun ii =>
          some (.flt (Alg.denote ⟨outT.name, [i], .mul (.tensor tB.name [i, j]) (.tensor tC.name [j])⟩
            inputs sizes [ii])) := by
  have hij : i ≠ j := by spnm hK
  rw [Dense2.desugar_matvec outT.name tB.name tC.name i j hij] at hgen
  obtain ⟨o, eo, hret, hit, hrec, ⟨blk, hb, hlive, _, _, hcells⟩, _⟩ :=
    spmv_kernel_correct id cap 1 2 i j outT tB tC hout hB hC hK n m nnz ta tb tc pb cb vb xb pos crd vB vC σ
      hcsr hn hm hnnz L hL (fun ii _ k _ => stepFinite_rat _ _ _ _ _) hinit f hgen fuel hfuel
  refine ⟨o, eo, hret, hit, hrec, blk, hb, hlive, ?_⟩
  rw [hcells]
  apply List.map_congr_left
  intro ii hii
  have hii : ii < n := List.mem_range.1 hii
  rw [rowDotF_rat hcsr vB vC ii hii,
    Dense2.denote_matvec inputs sizes outT.name tB.name tC.name i j hij ii, hsz]
  congr 2
  exact Dense2.sumRange_congr m _ _ (fun jj hjj => by rw [hinB ii hii jj hjj, hinC jj hjj])

/-! ### non-vacuity: `B = [[1,0,2],[0,0,0],[0,3,0]]` in CSR, `c = [4,5,6]`, `a = [16, 0, 15]` -/

def exOut : TensorId := ⟨"0_a", "a", ["i"], [.dense]⟩
def exB : TensorId := ⟨"1_B", "B", ["i", "j"], [.dense, .compressed]⟩
def exC : TensorId := ⟨"2_c", "c", ["j"], [.dense]⟩
def exFormats : Formats := spFormats "a" "B" "c"
/-- the source assignment `a(i) = B(i,j) * c(j)` -/
def exSource : Alg.Assign := ⟨"a", ["i"], .mul (.tensor "B" ["i", "j"]) (.tensor "c" ["j"])⟩
def exAssign : Alg.DAssign := Alg.desugar exSource

/-- `pos = [0, 2, 2, 3]` -/
def exPos : Nat → Nat := fun k => [0, 2, 2, 3].getD k 3
/-- `crd = [0, 2, 1]` -/
def exCrd : Nat → Nat := fun p => [0, 2, 1].getD p 0
/-- `B_vals = [1, 2, 3]` -/
def exVB {F : Type} (c : Int → F) : Nat → F := fun p => [c 1, c 2, c 3].getD p (c 0)
/-- `c_vals = [4, 5, 6]` -/
def exVC {F : Type} (c : Int → F) : Nat → F := fun k => [c 4, c 5, c 6].getD k (c 0)

/-- **V1: the graph of the class is the one the front half chooses** for `a(i) = B(i,j) * c(j)` with
`a: d`, `B: ds`, `c: d` (no `.sum` node) -/
theorem spmv_graph_chosen : bestAlgorithm exAssign exFormats = .graph (graph "i" "j" exOut exB exC) := by
  rfl

/-- the CSR arrays of the instance are well formed (`n = m = nnz = 3`) -/
theorem exCsr : Csr 3 3 3 exPos exCrd := by
  refine ⟨rfl, ?_, rfl, ?_⟩
  · intro k hk
    match k, hk with
    | 0, _ => decide
    | 1, _ => decide
    | 2, _ => decide
  · intro p hp
    match p, hp with
    | 0, _ => decide
    | 1, _ => decide
    | 2, _ => decide

theorem exRows : ∀ ii, ii < 3 → exPos (ii + 1) - exPos ii ≤ 2 := by
  intro ii hii
  match ii, hii with
  | 0, _ => decide
  | 1, _ => decide
  | 2, _ => decide

theorem exKernelNames : (kernelNames "i" "j" exOut exB exC).Nodup := by decide

/-- the tensors of the instance are the ones of `spmv_names_generated`, whose hypotheses hold -/
example : exOut = pOut "a" "i" ∧ exB = pB "B" "i" "j" ∧ exC = pC "c" "j" ∧
    (kernelNames "i" "j" (pOut "a" "i") (pB "B" "i" "j") (pC "c" "j")).Nodup :=
  ⟨rfl, rfl, rfl, spmv_names_generated "i" "j" "a" "B" "c" (by decide) (by decide) (by decide) (by decide)
    (by decide) (by decide) (by decide) (by decide) (by decide) (by decide) (by decide) (by decide)
    (by decide) (by decide) (by decide)⟩

/-- literals of the instance over `Int`: the numerator -/
def exOfRat : Rat → Int := fun q => q.num

/-- **V1 on the instance, fully written out**: the statements `lower` emits for the CSR
matrix–vector product -/
example : lower exOfRat 20 (graph "i" "j" exOut exB exC) (.append exOut 0) .evaluate =
    .ok ⟨some "*** Iteration over i ***",
      [.declAssign "i" .int (.intLit 0),
       .loop (.bin .lt (.var "i") (.var "i_dim")) (.block
         [.declAssign "p_0_a_0" .int (.bin .add (.bin .mul (.intLit 0) (.var "i_dim")) (.var "i")),
          .declAssign "p_1_B_0" .int (.bin .add (.bin .mul (.intLit 0) (.var "i_dim")) (.var "i")),
          .branch (.boolLit true) (.block [.block
            [.block
              [.declAssign "bucket_0_a" (.ptr .float)
                 (.bin .add (.var "a_vals") (.bin .mul (.var "p_0_a_0") (.intLit 1))),
               .declAssign "i_bucket_0_a" .int (.intLit 0),
               .loop (.bin .lt (.var "i_bucket_0_a") (.intLit 1)) (.block
                 [.assign (.idx (.var "bucket_0_a") (.var "i_bucket_0_a")) (.intLit 0),
                  .assign (.var "i_bucket_0_a") (.bin .add (.var "i_bucket_0_a") (.intLit 1))] none)]
              (some "Bucket initialization"),
             .declAssign "p_1_B_1" .int (.idx (.var "B_1_pos") (.var "p_1_B_0")),
             .declAssign "p_1_B_1_end" .int
               (.idx (.var "B_1_pos") (.bin .add (.var "p_1_B_0") (.intLit 1))),
             .loop (.bin .and (.boolLit true) (.bin .lt (.var "p_1_B_1") (.var "p_1_B_1_end"))) (.block
               [.declAssign "i_1_B_1" .int (.idx (.var "B_1_crd") (.var "p_1_B_1")),
                .declAssign "j" .int (.var "i_1_B_1"),
                .declAssign "p_2_c_0" .int (.bin .add (.bin .mul (.intLit 0) (.var "j_dim")) (.var "j")),
                .branch (.bin .and (.boolLit true) (.bin .eq (.var "i_1_B_1") (.var "j"))) (.block [.block
                  [.assign (.idx (.var "bucket_0_a") (.intLit 0))
                     (.bin .add (.idx (.var "bucket_0_a") (.intLit 0))
                       (.bin .mul (.idx (.var "B_vals") (.var "p_1_B_1"))
                         (.idx (.var "c_vals") (.var "p_2_c_0"))))]
                  (some "*** Computation of expression ***")] none) (.block [] none),
                .assign (.var "p_1_B_1")
                  (.bin .add (.var "p_1_B_1") (.b2i (.bin .eq (.var "i_1_B_1") (.var "j"))))] none)]
            (some "*** Iteration over j ***")] none) (.block [] none),
          .assign (.var "i") (.bin .add (.var "i") (.intLit 1))] none)]⟩ := by
  rw [spmv_lower_eq exOfRat 17 "i" "j" (by decide) exOut exB exC (by decide) (by decide) (by decide)]
  rfl

/-- generic in the carrier: the state the driver builds for `a` (output, dimension 3),
`B = [[1,0,2],[0,0,0],[0,3,0]]` in CSR (dimensions 3 × 3; block 2 = `pos`, block 3 = `crd`, block 4 =
`vals`; slot 1 of the record = `(pos, crd)`), `c = [4,5,6]` -/
def exStateOf {F : Type} (c : Int → F) : State F :=
  { vars := [⟨"a", .ptr .tensor, some (.tensor 0)⟩, ⟨"B", .ptr .tensor, some (.tensor 1)⟩,
             ⟨"c", .ptr .tensor, some (.tensor 2)⟩],
    heap := [⟨.int, [some (.int 3)], .output, true⟩,
             ⟨.int, [some (.int 3), some (.int 3)], .input, true⟩,
             ⟨.int, [some (.int 0), some (.int 2), some (.int 2), some (.int 3)], .input, true⟩,
             ⟨.int, [some (.int 0), some (.int 2), some (.int 1)], .input, true⟩,
             ⟨.float, [some (.flt (c 1)), some (.flt (c 2)), some (.flt (c 3))], .input, true⟩,
             ⟨.int, [some (.int 3)], .input, true⟩,
             ⟨.float, [some (.flt (c 4)), some (.flt (c 5)), some (.flt (c 6))], .input, true⟩],
    tensors := [⟨1, 0, [none], .null, .output⟩,
                ⟨2, 1, [none, some (.ptr 2 0, .ptr 3 0)], .ptr 4 0, .input⟩,
                ⟨1, 5, [none], .ptr 6 0, .input⟩] }

theorem exInitOf {F : Type} [FloatOps F] (c : Int → F) :
    Init exOut exB exC 3 3 3 0 1 2 2 3 4 6 exPos exCrd (exVB c) (exVC c) (exStateOf c) := by
  refine ⟨⟨_, rfl, rfl, rfl⟩, ⟨_, rfl, rfl, rfl⟩, ⟨_, rfl, rfl, rfl⟩, ?_,
    ⟨_, _, rfl, rfl, rfl, rfl, rfl, rfl, rfl⟩, ⟨_, _, rfl, by show 1 < 2; omega, rfl, rfl, rfl, rfl, rfl, rfl⟩,
    ⟨_, rfl, rfl⟩, ⟨_, rfl, rfl, rfl, ?_⟩, ⟨_, rfl, rfl, rfl, by show 3 ≤ 3; omega, ?_⟩,
    ⟨_, rfl, rfl, rfl, ?_⟩, ⟨_, rfl, rfl, rfl, ?_⟩⟩
  · intro x h1 h2 h3
    have e1 : ("a" == x) = false := beq_eq_false_iff_ne.2 (Ne.symm h1)
    have e2 : ("B" == x) = false := beq_eq_false_iff_ne.2 (Ne.symm h2)
    have e3 : ("c" == x) = false := beq_eq_false_iff_ne.2 (Ne.symm h3)
    simp [lookupVar, exStateOf, List.find?, e1, e2, e3]
  · intro k hk
    match k, hk with
    | 0, _ => rfl
    | 1, _ => rfl
    | 2, _ => rfl
    | 3, _ => rfl
  · intro p hp
    match p, hp with
    | 0, _ => rfl
    | 1, _ => rfl
    | 2, _ => rfl
  · intro p hp
    match p, hp with
    | 0, _ => rfl
    | 1, _ => rfl
    | 2, _ => rfl
  · intro k hk
    match k, hk with
    | 0, _ => rfl
    | 1, _ => rfl
    | 2, _ => rfl

/-- the desugared assignment of the instance -/
theorem exAssign_eq : exAssign =
    ⟨"a", ["i"], .contract "j" (.mul (.tensor 1 "B" ["i", "j"]) (.tensor 2 "c" ["j"]))⟩ :=
  Dense2.desugar_matvec "a" "B" "c" "i" "j" (by decide)

/-- **V3 is not vacuous** (over `Int`): every hypothesis holds on the instance, `generateIr` produces
the kernel, and the run returns `0` after `2 * 3 + 3 = 9` loop iterations (NOT `3 * 3`-proportional)
and leaves `[1*4 + 2*6, 0, 3*5] = [16, 0, 15]` in the fresh block `7` the output record points to -/
example : ∃ f o, generateIr exOfRat none exAssign exFormats (graph "i" "j" exOut exB exC) .evaluate = .ok f ∧
    exec 7 f.body (exStateOf (F := Int) id) = .ok o ∧ o.ret = some (.int 0) ∧ o.iters = 9 ∧
    (∃ tr, o.st.tensors[0]? = some tr ∧ tr.vals = .ptr 7 0) ∧
    ∃ blk, o.st.heap[7]? = some blk ∧ blk.live = true ∧
      blk.cells = [some (.flt 16), some (.flt 0), some (.flt 15)] := by
  have hgen : generateIr exOfRat none exAssign exFormats (graph "i" "j" exOut exB exC) .evaluate =
      .ok (kernel exOfRat "i" "j" exOut exB exC) := by
    rw [exAssign_eq]
    exact spmv_generateIr_eq exOfRat none _ "i" "j" (by decide) exOut exB exC (by decide)
      (by decide) (by decide) (by decide)
      (Dense2.indexDimensions_matvec "a" "B" "c" "i" "j" (by decide) 1 2)
  have hgen' := hgen
  rw [exAssign_eq] at hgen'
  obtain ⟨o, eo, hret, hit, ⟨tr, htr, htr'⟩, ⟨blk, hb, hlive, _, _, hcells⟩, _⟩ :=
    spmv_kernel_correct exOfRat none 1 2 "i" "j" exOut exB exC (by decide) (by decide) (by decide)
      exKernelNames 3 3 3 0 1 2 2 3 4 6 exPos exCrd (exVB (F := Int) id) (exVC (F := Int) id) _ exCsr
      (by omega) (by omega) (by omega) 2 exRows
      (fun ii _ k _ => stepFinite_of_total (fun _ => rfl) _ _ _ _ _)
      (exInitOf (F := Int) id) _ hgen' 7 (by omega)
  refine ⟨_, o, hgen, eo, hret, hit, ⟨_, htr', rfl⟩, blk, hb, hlive, ?_⟩
  rw [hcells]
  rfl

/-- **V3 after the optimiser is not vacuous**: the kernel of the instance passes both checks of the typed
fragment (and NOT the check of C07's untyped fragment: the optimiser rewrites `0 * i_dim + i`), and the
optimised kernel returns `0` with `[16, 0, 15]` -/
example : (kernel exOfRat "i" "j" exOut exB exC).noRetype = true ∧
    (exStateOf (F := Int) id).agrees (kernel exOfRat "i" "j" exOut exB exC).tyEnv = true ∧
    NoFloatIdentityS (kernel exOfRat "i" "j" exOut exB exC).body = false ∧
    ∃ o', exec 7 (peepF (kernel exOfRat "i" "j" exOut exB exC)).body (exStateOf (F := Int) id) = .ok o' ∧
      o'.ret = some (.int 0) ∧
      ∃ blk, o'.st.heap[7]? = some blk ∧
        blk.cells = [some (.flt 16), some (.flt 0), some (.flt 15)] := by
  have hgen : generateIr exOfRat none
      ⟨"a", ["i"], .contract "j" (.mul (.tensor 1 "B" ["i", "j"]) (.tensor 2 "c" ["j"]))⟩ exFormats
      (graph "i" "j" exOut exB exC) .evaluate = .ok (kernel exOfRat "i" "j" exOut exB exC) :=
    spmv_generateIr_eq exOfRat none _ "i" "j" (by decide) exOut exB exC (by decide)
      (by decide) (by decide) (by decide)
      (Dense2.indexDimensions_matvec "a" "B" "c" "i" "j" (by decide) 1 2)
  refine ⟨by decide, by decide, by decide, ?_⟩
  obtain ⟨o', e', hr, hp⟩ :=
    spmv_kernel_correct_optimised exOfRat none 1 2 "i" "j" exOut exB exC (by decide) (by decide) (by decide)
      exKernelNames 3 3 3 0 1 2 2 3 4 6 exPos exCrd (exVB (F := Int) id) (exVC (F := Int) id) _ exCsr
      (by omega) (by omega) (by omega) 2 exRows
      (fun ii _ k _ => stepFinite_of_total (fun _ => rfl) _ _ _ _ _)
      (exInitOf (F := Int) id) _ hgen (by decide) (by decide) 7 (by omega)
  obtain ⟨blk, hb, _, _, _, hcells⟩ := hp.blk
  exact ⟨o', e', hr, blk, hb, by rw [hcells]; rfl⟩

/-- a state in the middle of the kernel: after the prologue, before the loop nest; the output block
`0` has a fourth cell that the nest must not touch -/
def exLoopState : State Int :=
  { vars := [⟨"i_dim", .int, some (.int 3)⟩, ⟨"j_dim", .int, some (.int 3)⟩,
             ⟨"a_vals", .ptr .float, some (.ptr 0 0)⟩,
             ⟨"B_1_pos", .ptr .int, some (.ptr 2 0)⟩, ⟨"B_1_crd", .ptr .int, some (.ptr 3 0)⟩,
             ⟨"B_vals", .ptr .float, some (.ptr 4 0)⟩, ⟨"c_vals", .ptr .float, some (.ptr 6 0)⟩],
    heap := [⟨.float, [none, none, none, some (.flt 77)], .output, true⟩,
             ⟨.int, [some (.int 3), some (.int 3)], .input, true⟩,
             ⟨.int, [some (.int 0), some (.int 2), some (.int 2), some (.int 3)], .input, true⟩,
             ⟨.int, [some (.int 0), some (.int 2), some (.int 1)], .input, true⟩,
             ⟨.float, [some (.flt 1), some (.flt 2), some (.flt 3)], .input, true⟩,
             ⟨.int, [some (.int 3)], .input, true⟩,
             ⟨.float, [some (.flt 4), some (.flt 5), some (.flt 6)], .input, true⟩],
    tensors := [] }

theorem exLoopEnv : Env "i" "j" exOut exB exC 3 3 3 0 2 3 4 6 exPos exCrd (exVB (F := Int) id)
    (exVC (F := Int) id) exLoopState := by
  refine ⟨⟨_, rfl, rfl, rfl⟩, ⟨_, rfl, rfl, rfl⟩, ⟨_, _, rfl, rfl, rfl⟩, ⟨_, _, rfl, rfl, rfl⟩,
    ⟨_, _, rfl, rfl, rfl⟩, ⟨_, _, rfl, rfl, rfl⟩, ⟨_, _, rfl, rfl, rfl⟩,
    ⟨_, rfl, rfl, rfl, ?_⟩, ⟨_, rfl, rfl, rfl, by decide, ?_⟩, ⟨_, rfl, rfl, rfl, ?_⟩,
    ⟨_, rfl, rfl, rfl, ?_⟩, by decide, ?_⟩
  · intro k hk
    match k, hk with
    | 0, _ => rfl
    | 1, _ => rfl
    | 2, _ => rfl
    | 3, _ => rfl
  · intro p hp
    match p, hp with
    | 0, _ => rfl
    | 1, _ => rfl
    | 2, _ => rfl
  · intro p hp
    match p, hp with
    | 0, _ => rfl
    | 1, _ => rfl
    | 2, _ => rfl
  · intro k hk
    match k, hk with
    | 0, _ => rfl
    | 1, _ => rfl
    | 2, _ => rfl
  · intro x hx r hr
    have hscr : scratch "i" "j" exOut exB exC =
        ["i", "p_0_a_0", "p_1_B_0", "bucket_0_a", "i_bucket_0_a", "p_1_B_1", "p_1_B_1_end", "i_1_B_1",
         "j", "p_2_c_0"] := by decide
    rw [hscr] at hx
    simp only [List.mem_cons, List.not_mem_nil, or_false] at hx
    rcases hx with rfl | rfl | rfl | rfl | rfl | rfl | rfl | rfl | rfl | rfl <;> cases hr

/-- **V2 is not vacuous**: its hypotheses hold in `exLoopState` (`n = m = nnz = 3`, output block `0`
of 4 cells), and the loop nest leaves `[16, 0, 15]` in the first three cells, the fourth unchanged,
after `2 * 3 + 3 = 9` loop iterations -/
example : ∃ body o,
    lower exOfRat 20 (graph "i" "j" exOut exB exC) (.append exOut 0) .evaluate = .ok body ∧
    exec 7 body.finalize exLoopState = .ok o ∧ o.ret = none ∧ o.iters = 9 ∧
    ∃ blk, o.st.heap[0]? = some blk ∧
      blk.cells = [some (.flt 16), some (.flt 0), some (.flt 15), some (.flt 77)] := by
  have hlow := spmv_lower_eq exOfRat 17 "i" "j" (by decide) exOut exB exC (by decide) (by decide) (by decide)
  obtain ⟨o, eo, hret, hit, ⟨blk, blk', hb, hb', _, _, _, hlen, hc1, hc2⟩, _⟩ :=
    spmv_loops_correct exOfRat "i" "j" exOut exB exC (by decide) (by decide) (by decide)
      (allNames_nodup exKernelNames) 3 3 3 0 2 3 4 6 exPos exCrd _ _ exLoopState exCsr (by omega) (by omega)
      (by omega) 2 exRows exLoopEnv ⟨_, rfl, rfl, rfl, rfl, by decide⟩
      (fun ii _ k _ => stepFinite_of_total (fun _ => rfl) _ _ _ _ _) 17 _ hlow 7 (by omega)
  refine ⟨_, o, hlow, eo, hret, hit, blk', hb', ?_⟩
  cases hb
  apply List.ext_getElem?
  intro k
  match k with
  | 0 => rw [hc1 0 (by omega)]; rfl
  | 1 => rw [hc1 1 (by omega)]; rfl
  | 2 => rw [hc1 2 (by omega)]; rfl
  | k + 3 => rw [hc2 (k + 3) (by omega)]; rfl

/-- the inputs of the instance as the specification sees them: the DENSE matrix
`[[1,0,2],[0,0,0],[0,3,0]]` and the vector `[4,5,6]` -/
def exInputs : Alg.Inputs := fun s coord =>
  if s = "B" then [(1 : Rat), 0, 2, 0, 0, 0, 0, 3, 0].getD (coord.getD 0 0 * 3 + coord.getD 1 0) 0
  else [(4 : Rat), 5, 6].getD (coord.getD 0 0) 0
def exSizes : Alg.Sizes := fun _ => 3

set_option linter.unusedSimpArgs false in
/-- the CSR arrays of the instance decode to the dense matrix `[[1,0,2],[0,0,0],[0,3,0]]` -/
theorem exDecoded : ∀ ii, ii < 3 → ∀ jj, jj < 3 →
    exInputs "B" [ii, jj] = csrAt (exVB (fun z => (z : Rat))) exPos exCrd ii jj := by
  intro ii hii jj hjj
  match ii, hii, jj, hjj with
  | 0, _, 0, _ => simp [exInputs, csrAt, entrySum, exPos, exCrd, exVB] <;> grind
  | 0, _, 1, _ => simp [exInputs, csrAt, entrySum, exPos, exCrd, exVB] <;> grind
  | 0, _, 2, _ => simp [exInputs, csrAt, entrySum, exPos, exCrd, exVB] <;> grind
  | 1, _, 0, _ => simp [exInputs, csrAt, entrySum, exPos, exCrd, exVB] <;> grind
  | 1, _, 1, _ => simp [exInputs, csrAt, entrySum, exPos, exCrd, exVB] <;> grind
  | 1, _, 2, _ => simp [exInputs, csrAt, entrySum, exPos, exCrd, exVB] <;> grind
  | 2, _, 0, _ => simp [exInputs, csrAt, entrySum, exPos, exCrd, exVB] <;> grind
  | 2, _, 1, _ => simp [exInputs, csrAt, entrySum, exPos, exCrd, exVB] <;> grind
  | 2, _, 2, _ => simp [exInputs, csrAt, entrySum, exPos, exCrd, exVB] <;> grind

/-- **V4 is not vacuous**: the same instance over the exact carrier `Rat`; the kernel generated from
`Alg.desugar` of the source assignment leaves exactly `Alg.denote (a(i) = B(i,j) * c(j))` — for the
DENSE matrix the CSR arrays represent — at every coordinate, and the specification evaluates to
`[16, 0, 15]` -/
example : ∃ f o, generateIr (F := Rat) id none exAssign exFormats (graph "i" "j" exOut exB exC) .evaluate = .ok f ∧
    exec 7 f.body (exStateOf (fun z => (z : Rat))) = .ok o ∧ o.ret = some (.int 0) ∧ o.iters = 9 ∧
    (∃ blk, o.st.heap[7]? = some blk ∧ blk.live = true ∧
      blk.cells = (List.range 3).map fun ii => some (.flt (Alg.denote exSource exInputs exSizes [ii]))) ∧
    Alg.denote exSource exInputs exSizes [0] = 16 ∧ Alg.denote exSource exInputs exSizes [1] = 0 ∧
    Alg.denote exSource exInputs exSizes [2] = 15 := by
  have hgen : generateIr (F := Rat) id none exAssign exFormats (graph "i" "j" exOut exB exC) .evaluate =
      .ok (kernel id "i" "j" exOut exB exC) := by
    rw [exAssign_eq]
    exact spmv_generateIr_eq id none _ "i" "j" (by decide) exOut exB exC (by decide)
      (by decide) (by decide) (by decide)
      (Dense2.indexDimensions_matvec "a" "B" "c" "i" "j" (by decide) 1 2)
  obtain ⟨o, eo, hret, hit, _, blk, hb, hlive, hcells⟩ :=
    spmv_kernel_denote none "i" "j" exOut exB exC (by decide) (by decide) (by decide) exKernelNames
      3 3 3 0 1 2 2 3 4 6 exPos exCrd _ _ _ exCsr (by omega) (by omega) (by omega) 2 exRows
      (exInitOf (fun z => (z : Rat))) exInputs exSizes rfl exDecoded
      (by
        intro jj hjj
        match jj, hjj with
        | 0, _ => rfl
        | 1, _ => rfl
        | 2, _ => rfl)
      _ hgen 7 (by omega)
  refine ⟨_, o, hgen, eo, hret, hit, ⟨blk, hb, hlive, hcells⟩, ?_, ?_, ?_⟩
  · rw [show exSource = ⟨"a", ["i"], .mul (.tensor "B" ["i", "j"]) (.tensor "c" ["j"])⟩ from rfl,
      Dense2.denote_matvec exInputs exSizes "a" "B" "c" "i" "j" (by decide) 0]
    simp [Alg.sumRange, exSizes, exInputs, List.range, List.range.loop]
    grind
  · rw [show exSource = ⟨"a", ["i"], .mul (.tensor "B" ["i", "j"]) (.tensor "c" ["j"])⟩ from rfl,
      Dense2.denote_matvec exInputs exSizes "a" "B" "c" "i" "j" (by decide) 1]
    simp [Alg.sumRange, exSizes, exInputs, List.range, List.range.loop]
    grind
  · rw [show exSource = ⟨"a", ["i"], .mul (.tensor "B" ["i", "j"]) (.tensor "c" ["j"])⟩ from rfl,
      Dense2.denote_matvec exInputs exSizes "a" "B" "c" "i" "j" (by decide) 2]
    simp [Alg.sumRange, exSizes, exInputs, List.range, List.range.loop]
    grind

/-- sortedness is NOT needed: a row whose columns are stored in DECREASING order with a DUPLICATE
(`pos = [0, 3]`, `crd = [2, 0, 2]`, `vals = [1, 2, 3]`, `c = [4, 5, 6]`) is a well-formed input of V2/V3,
and the kernel's answer `1*6 + 2*4 + 3*6 = 32` is `Σ_jj B[0,jj] * c[jj]` for the decoded matrix
(`B[0,2] = 1 + 3`) -/
example : Csr 1 3 3 (fun k => [0, 3].getD k 3) (fun p => [2, 0, 2].getD p 0) ∧
    rowDotF (F := Rat) (fun p => [(1 : Rat), 2, 3].getD p 0) (fun k => [(4 : Rat), 5, 6].getD k 0)
      (fun k => [0, 3].getD k 3) (fun p => [2, 0, 2].getD p 0) 0 = 32 ∧
    csrAt (fun p => [(1 : Rat), 2, 3].getD p 0) (fun k => [0, 3].getD k 3) (fun p => [2, 0, 2].getD p 0) 0 2
      = 4 := by
  refine ⟨⟨rfl, ?_, rfl, ?_⟩, ?_, ?_⟩
  · intro k hk
    match k, hk with
    | 0, _ => decide
  · intro p hp
    match p, hp with
    | 0, _ => decide
    | 1, _ => decide
    | 2, _ => decide
  · simp [rowDotF, accF, termF, FloatOps.add, FloatOps.mul, FloatOps.ofInt]
    grind
  · simp [csrAt, entrySum]
    grind

end TV.Spmv
