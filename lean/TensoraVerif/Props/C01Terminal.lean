import TensoraVerif.Lemmas.ToIrBasic
import TensoraVerif.Lemmas.ToIrRat
import TensoraVerif.Lemmas.ToIrStore
import TensoraVerif.Lemmas.ToIrRavel
import TensoraVerif.Lemmas.ToIrTerminal
import TensoraVerif.Lemmas.ToIrExamples
import TensoraVerif.Props.C03

/-!
C01, the innermost piece of "the kernel computes the mathematical meaning": the leaf case of the
lowering pass, `lower … (.terminal e)`, emits `out.writeAssignment (toIrWith ofRat e)`. These
theorems say, ON THE MACHINE (`Model/Machine.lean`) and for ALL states satisfying the stated
per-leaf hypotheses, that the emitted expression evaluates to the meaning of `e` and that the
emitted statement stores it in the addressed output cell, changing nothing else.

* E0 `valueF ofRat ρ e` (`Lemmas/ToIrBasic.lean`): the meaning of `e` in the float carrier, with
  exactly the association of the tree; `AllFinite ofRat ρ e`: every sub-result is finite.
* E1 `toIr_sound` (state hypothesis `LeafOK`, per tensor OCCURRENCE), `toIr_sound_base` (the same
  with the literal hypotheses "base pointer, cursor value `p`, cell `p`").
* E2 `valueF_rat_eq_value`, `toIr_sound_rat`: on the exact machine `F := Rat` the emitted
  expression evaluates to `Graph.value ρ e`; `toIr_exhaust_sound_rat` connects with
  `exhaustAll_sound` (C03): the expression of the branch in which the absent tensors have been
  exhausted still computes the meaning of the ORIGINAL expression.
* E3 `writeAssignment_append_sound`, `writeAssignment_append_error`,
  `writeAssignment_bucket_sound` (any number of bucket layers; the index is evaluated in general by
  `ravelIndexes_sound`: no 32-bit overflow, value = row-major linearisation, in range).
* E4 `terminal_append_sound`, `terminal_bucket_sound`, `terminal_assemble_sound`: the whole
  terminal block; the `written_*` flags are set to `true` iff `e` is not the literal `Integer 0`
  (`activeFlags_eq`), and setting them does not disturb the store (names are distinct by the naming
  scheme — proved, not assumed, except for user-chosen index names in the bucket case).
-/
namespace TV.ToIr
open TV.IR TV.Gen TV.Graph TV.Growth

set_option linter.unusedSectionVars false
variable {F : Type} [FloatOps F]

/-! ### E1 -/

/-- **E1.** For every identifiable expression `e`, literal conversion `ofRat`, valuation
`ρ : String → F` of tensor occurrences (by id) and state `σ` such that every tensor occurrence `t`
of `e` satisfies `LeafOK σ ρ t` — the variable `<t.name>_vals` has a pointer type and holds an
address `b + off`, the cursor expression `prevLayerPointer t.id t.indexes.length` of THIS
occurrence evaluates to an integer `p`, and cell `off + p` of the live float block `b` holds
`ρ t.id` — and such that every sub-result of the meaning is finite: the expression emitted by
`toIrWith` evaluates without error to the carrier meaning `valueF ofRat ρ e`. -/
theorem toIr_sound (ofRat : Rat → F) (ρ : String → F) (σ : State F) (e : IdExpr)
    (hleaf : ∀ t ∈ leaves e, LeafOK σ ρ t) (hfin : AllFinite ofRat ρ e) :
    evalE σ (toIrWith ofRat e) = .ok (.flt (valueF ofRat ρ e)) :=
  toIr_sound_aux ofRat ρ σ e hleaf hfin

/-- **E1, literal wording.** The same with the hypotheses of the brief: for every occurrence `t`,
`<t.name>_vals` is a pointer variable holding the base address `.ptr b 0`, the cursor of the last
level (the literal `0` for an order-0 tensor, the `int` variable `p_<id>_<order-1>` otherwise) has
the 32-bit value `p`, and cell `p` of the live float block `b` holds `ρ t.id`. Two occurrences of
the same tensor name (`b(i) * b(j)`) share the block and differ in the cursor. -/
theorem toIr_sound_base (ofRat : Rat → F) (ρ : String → F) (σ : State F) (e : IdExpr)
    (hleaf : ∀ t ∈ leaves e, ∃ b p, PtrVar σ (valsName t.name) b ∧
      CursorIs σ t.id t.indexes.length p ∧ -2147483648 ≤ p ∧ p < 2147483648 ∧
      FloatCell σ b p (ρ t.id))
    (hfin : AllFinite ofRat ρ e) :
    evalE σ (toIrWith ofRat e) = .ok (.flt (valueF ofRat ρ e)) :=
  toIr_sound ofRat ρ σ e
    (fun t ht => let ⟨_, _, h1, h2, h3, h4, h5⟩ := hleaf t ht; LeafOK.intro h1 h2 h3 h4 h5) hfin

/-- the result is finite (so it can be stored and re-read) -/
theorem valueF_finite (ofRat : Rat → F) (ρ : String → F) (e : IdExpr) (hfin : AllFinite ofRat ρ e) :
    FloatOps.finite (valueF ofRat ρ e) = true := allFinite_finite hfin

/-! ### E2 -/

/-- **E2.** On the exact carrier `Rat` (`instFloatOpsRat`: rational operations, everything finite)
with the identity as literal conversion, the carrier meaning is the exact meaning `Graph.value`
of the specification theorems (`exhaust_sound`, `context_sparse_sound`). -/
theorem valueF_rat_eq_value (ρ : String → Rat) (e : IdExpr) : valueF id ρ e = value ρ e :=
  valueF_rat ρ e

/-- **E2, corollary.** On the `Rat` machine the emitted expression evaluates to the exact meaning;
no finiteness hypothesis is left. -/
theorem toIr_sound_rat (ρ : String → Rat) (σ : State Rat) (e : IdExpr)
    (hleaf : ∀ t ∈ leaves e, LeafOK σ ρ t) :
    evalE σ (toIrWith id e) = .ok (.flt (value ρ e)) :=
  toIr_sound_rat_aux ρ σ e hleaf

/-- **E2 + C03.** In the branch of the co-iteration lattice where the tensors `refs` are absent
(zero at the current coordinates), the kernel emits the expression of `exhaustAll e refs`; it
evaluates to the exact meaning of the ORIGINAL expression `e`. -/
theorem toIr_exhaust_sound_rat (ρ : String → Rat) (σ : State Rat) (e : IdExpr) (refs : List String)
    (h0 : ∀ r ∈ refs, ρ r = 0)
    (hleaf : ∀ t ∈ leaves (exhaustAll e refs), LeafOK σ ρ t) :
    evalE σ (toIrWith id (exhaustAll e refs)) = .ok (.flt (value ρ e)) := by
  rw [← exhaustAll_sound ρ e refs h0]
  exact toIr_sound_rat ρ σ _ hleaf

/-! ### E3 -/

/-- **E3, append output.** `out_vals[p_out] = <rhs>`. Under E1's hypotheses, if moreover
`<out.name>_vals` is a pointer variable holding `bo + off`, the cursor expression of the output
evaluates to `p`, and cell `off + p` of block `bo` may be stored to (`OutCell`: live, output-owned,
element type float, index in range), then `writeAssignment` succeeds (`n = t.indexes.length`) with
a one-statement builder without comment, whose lines — run as a list, which is how the terminal
block inlines them — execute without error and without returning, for every fuel; the final state
is exactly `σ` with that one cell overwritten by `valueF ofRat ρ e` (`writeCell`), and `CellPost`
spells out "nothing else changed": variables, tensor records, heap size, every other block, and in
block `bo` the type, owner, liveness, length and every other cell. -/
theorem writeAssignment_append_sound (ofRat : Rat → F) (ρ : String → F) (σ : State F) (e : IdExpr)
    (t : TensorId) (n : Nat) (hn : n = t.indexes.length) (fuel : Nat) (bo : Nat) (off p : Int)
    (hleaf : ∀ t ∈ leaves e, LeafOK σ ρ t) (hfin : AllFinite ofRat ρ e)
    (hout : PtrAt σ (valsName t.name) bo off)
    (hcur : evalE σ (prevLayerPointer t.id t.indexes.length : Expr F) = .ok (.int p))
    (hcell : OutCell σ bo (off + p)) :
    ∃ sb o, (Output.append t n).writeAssignment (toIrWith ofRat e) = .ok sb ∧ sb.comment = none ∧
      execL fuel sb.lines σ = .ok o ∧ o.ret = none ∧
      o.st = writeCell σ bo (off + p) (.flt (valueF ofRat ρ e)) ∧
      CellPost σ o.st bo (off + p) (.flt (valueF ofRat ρ e)) ∧
      FloatCell o.st bo (off + p) (valueF ofRat ρ e) := by
  subst hn
  obtain ⟨o, h1, h2, h3⟩ := (runs_single (writeAssignment_append_runs ofRat ρ σ e t fuel bo off p
    hleaf hfin hout hcur hcell)).1
  have hp := writeCell_post hcell (.flt (valueF ofRat ρ e))
  exact ⟨_, o, writeAssignment_append_eq t _, rfl, h1, h2, h3, h3 ▸ hp,
    h3 ▸ hp.floatCell_same hcell⟩

/-- `AppendOutput.write_assignment` raises when the output is not at its last level -/
theorem writeAssignment_append_error (t : TensorId) (n : Nat) (hn : n ≠ t.indexes.length)
    (rhs : Expr F) : (Output.append t n).writeAssignment rhs = .error .runtime := by
  simp [Output.writeAssignment, hn]

/-- **The bucket index in general.** For ANY list of bucket layers: if every dimension variable
`<index>_dim` holds `dv l`, every index variable holds `iv l` with `0 ≤ iv l < dv l`, and the
bucket has fewer than `2^31` cells, then `ravelIndexes` evaluates without error (no intermediate
product or sum overflows) to the row-major linearisation `ravelH = ((i₁ · d₂ + i₂) · d₃ + …) + iₙ`,
which lies in `[0, d₁ · … · dₙ)`. -/
theorem ravelIndexes_sound {σ : State F} (t : TensorId) (layers : List Nat) (dv iv : Nat → Int)
    (h : ∀ l ∈ layers, IntVar σ (dimName (t.indexes.getD l "")) (dv l) ∧
      IntVar σ (t.indexes.getD l "") (iv l) ∧ 0 ≤ iv l ∧ iv l < dv l)
    (hB : lprod (layers.map dv) < 2147483648) :
    evalE σ (ravelIndexes (bucketDims t layers)
        (layers.map fun l => (.var (t.indexes.getD l "") : Expr F))) =
      .ok (.int (ravelH (layers.map dv) (layers.map iv))) ∧
    0 ≤ ravelH (layers.map dv) (layers.map iv) ∧
    ravelH (layers.map dv) (layers.map iv) < lprod (layers.map dv) :=
  evalE_bucketIndex t layers dv iv h hB

/-- **E3, bucket output (any number of layers).** `bucket[ravel] += <rhs>`. Under E1's
hypotheses, if `bucket_<id>_<layers>` is a pointer variable holding `bo + off`, the index
expression `ravelIndexes …` evaluates to `k` (see `ravelIndexes_sound`), cell `off + k` of block
`bo` may be stored to and currently holds the finite float `w`, and `w + valueF ofRat ρ e` is
finite, then `writeAssignment` succeeds and its statement runs; the final state is exactly `σ`
with that cell overwritten by `FloatOps.add w (valueF ofRat ρ e)`, nothing else changed. -/
theorem writeAssignment_bucket_sound (ofRat : Rat → F) (ρ : String → F) (σ : State F) (e : IdExpr)
    (t : TensorId) (layers : List Nat) (fuel : Nat) (bo : Nat) (off k : Int) (w : F)
    (hleaf : ∀ t ∈ leaves e, LeafOK σ ρ t) (hfin : AllFinite ofRat ρ e)
    (hout : PtrAt σ (bucketName t layers) bo off)
    (hidx : evalE σ (ravelIndexes (bucketDims t layers)
      (layers.map fun l => (.var (t.indexes.getD l "") : Expr F))) = .ok (.int k))
    (hcell : OutCell σ bo (off + k)) (hw : FloatCell σ bo (off + k) w)
    (hwf : FloatOps.finite w = true)
    (hs : FloatOps.finite (FloatOps.add w (valueF ofRat ρ e)) = true) :
    ∃ sb o, (Output.bucket t layers).writeAssignment (toIrWith ofRat e) = .ok sb ∧
      sb.comment = none ∧ execL fuel sb.lines σ = .ok o ∧ o.ret = none ∧
      o.st = writeCell σ bo (off + k) (.flt (FloatOps.add w (valueF ofRat ρ e))) ∧
      CellPost σ o.st bo (off + k) (.flt (FloatOps.add w (valueF ofRat ρ e))) ∧
      FloatCell o.st bo (off + k) (FloatOps.add w (valueF ofRat ρ e)) := by
  obtain ⟨o, h1, h2, h3⟩ := (runs_single (writeAssignment_bucket_runs ofRat ρ σ e t layers fuel bo
    off k w hleaf hfin hout hidx hcell hw hwf hs)).1
  have hp := writeCell_post hcell (.flt (FloatOps.add w (valueF ofRat ρ e)))
  exact ⟨_, o, writeAssignment_bucket_eq t layers _, rfl, h1, h2, h3, h3 ▸ hp,
    h3 ▸ hp.floatCell_same hcell⟩

/-! ### E4 -/

/-- **E4, the flags.** The terminal block sets the flags `activeFlags e out`: ALL `written_*`
flags of the output when `e` is not the literal `Integer 0`, NONE when it is. The test is
syntactic (Python `!=` on the expression object): a float literal `0.0` or an unsimplified
`0 * 1` still raises the flags. -/
theorem activeFlags_eq (e : IdExpr) (out : Output) :
    (e ≠ .int 0 → activeFlags e out = out.writtenFlags) ∧ (e = .int 0 → activeFlags e out = []) :=
  ⟨activeFlags_ne out, fun h => h ▸ activeFlags_zero out⟩

/-- **E4, append output: the whole terminal block.** For a computing kernel (`compute` or
`evaluate`) and an append output at its last level, under the hypotheses of
`writeAssignment_append_sound` and if every flag to be set is a declared `bool` variable: `lower`
succeeds on `.terminal e`, and the emitted block runs without error for every fuel. The final
state is `σ` with the output cell overwritten by `valueF ofRat ρ e` and then the flags
`activeFlags e out` set to `true` — so: the heap is that of `writeCell`, tensor records are
unchanged, every flag of the output holds `true` if `e ≠ Integer 0`, the variables are untouched
if `e = Integer 0`, and in all cases every variable that is not one of the flags is unchanged.
No name-distinctness hypothesis: `written_*` differs from every `*_vals` and every `p_*_*`. -/
theorem terminal_append_sound (ofRat : Rat → F) (ρ : String → F) (σ : State F) (e : IdExpr)
    (t : TensorId) (k : Kind) (hk : k.isCompute = true) (n fuel : Nat) (bo : Nat) (off p : Int)
    (hleaf : ∀ t ∈ leaves e, LeafOK σ ρ t) (hfin : AllFinite ofRat ρ e)
    (hout : PtrAt σ (valsName t.name) bo off)
    (hcur : evalE σ (prevLayerPointer t.id t.indexes.length : Expr F) = .ok (.int p))
    (hcell : OutCell σ bo (off + p))
    (hfl : ∀ f ∈ activeFlags e (.append t t.indexes.length), FlagVar σ f) :
    ∃ b o, lower ofRat (n + 1) (.terminal e) (.append t t.indexes.length) k = .ok b ∧
      exec fuel b.finalize σ = .ok o ∧ o.ret = none ∧
      o.st = setFlags (writeCell σ bo (off + p) (.flt (valueF ofRat ρ e)))
        (activeFlags e (.append t t.indexes.length)) ∧
      o.st.heap = (writeCell σ bo (off + p) (.flt (valueF ofRat ρ e))).heap ∧
      o.st.tensors = σ.tensors ∧
      FloatCell o.st bo (off + p) (valueF ofRat ρ e) ∧
      (e ≠ .int 0 → ∀ f ∈ (Output.append t t.indexes.length).writtenFlags, FlagTrue o.st f) ∧
      (e = .int 0 → o.st.vars = σ.vars) ∧
      (∀ y, y ∉ (Output.append t t.indexes.length).writtenFlags →
        lookupVar o.st.vars y = lookupVar σ.vars y) := by
  obtain ⟨b, hb, o, h1, h2, h3⟩ := terminal_append_runs ofRat ρ σ e t k hk n fuel bo off p
    hleaf hfin hout hcur hcell hfl
  have hp := writeCell_post hcell (.flt (valueF ofRat ρ e))
  refine ⟨b, o, hb, h1, h2, h3.symm ▸ rfl, ?_, ?_, ?_, ?_, ?_, ?_⟩
  · rw [h3]; rfl
  · rw [h3]; exact writeCell_tensors ..
  · rw [h3]; exact (hp.floatCell_same hcell).setFlags _
  · intro he f hf
    rw [h3, activeFlags_ne _ he]
    apply setFlags_true _ f hf
    intro g hg
    obtain ⟨r, e1, e2⟩ := hfl g (by rw [activeFlags_ne _ he]; exact hg)
    exact ⟨r, by rw [writeCell_vars]; exact e1, e2⟩
  · intro he
    rw [h3, he, activeFlags_zero, setFlags_nil, writeCell_vars]
  · intro y hy
    rw [h3, setFlags_lookup_other _ _ _ ?_, writeCell_vars]
    intro hmem
    unfold activeFlags at hmem
    split at hmem
    · exact hy hmem
    · cases hmem

/-- **E4, bucket output: the whole terminal block**, for any number of bucket layers. As
`terminal_append_sound`, with the index hypotheses of `ravelIndexes_sound`; the stored value is
`w + valueF ofRat ρ e` at cell `off + ravelH …`. The only name hypothesis concerns the user-chosen
index names, which must not be `written_*` flags of the output (`hnames`; true of every
underscore-free index name, see `writtenName_underscore`). -/
theorem terminal_bucket_sound (ofRat : Rat → F) (ρ : String → F) (σ : State F) (e : IdExpr)
    (t : TensorId) (layers : List Nat) (k : Kind) (hk : k.isCompute = true) (n fuel : Nat)
    (bo : Nat) (off : Int) (dv iv : Nat → Int) (w : F)
    (hleaf : ∀ t ∈ leaves e, LeafOK σ ρ t) (hfin : AllFinite ofRat ρ e)
    (hout : PtrAt σ (bucketName t layers) bo off)
    (hidx : ∀ l ∈ layers, IntVar σ (dimName (t.indexes.getD l "")) (dv l) ∧
      IntVar σ (t.indexes.getD l "") (iv l) ∧ 0 ≤ iv l ∧ iv l < dv l)
    (hB : lprod (layers.map dv) < 2147483648)
    (hcell : OutCell σ bo (off + ravelH (layers.map dv) (layers.map iv)))
    (hw : FloatCell σ bo (off + ravelH (layers.map dv) (layers.map iv)) w)
    (hwf : FloatOps.finite w = true)
    (hs : FloatOps.finite (FloatOps.add w (valueF ofRat ρ e)) = true)
    (hfl : ∀ f ∈ activeFlags e (.bucket t layers), FlagVar σ f)
    (hnames : ∀ f ∈ activeFlags e (.bucket t layers), ∀ l ∈ layers, f ≠ t.indexes.getD l "") :
    ∃ b o, lower ofRat (n + 1) (.terminal e) (.bucket t layers) k = .ok b ∧
      exec fuel b.finalize σ = .ok o ∧ o.ret = none ∧
      o.st = setFlags (writeCell σ bo (off + ravelH (layers.map dv) (layers.map iv))
          (.flt (FloatOps.add w (valueF ofRat ρ e)))) (activeFlags e (.bucket t layers)) ∧
      FloatCell o.st bo (off + ravelH (layers.map dv) (layers.map iv))
        (FloatOps.add w (valueF ofRat ρ e)) ∧
      (e ≠ .int 0 → ∀ f ∈ (Output.bucket t layers).writtenFlags, FlagTrue o.st f) ∧
      (e = .int 0 → o.st.vars = σ.vars) := by
  obtain ⟨b, hb, o, h1, h2, h3⟩ := terminal_bucket_runs ofRat ρ σ e t layers k hk n fuel bo off
    dv iv w hleaf hfin hout hidx hB hcell hw hwf hs hfl hnames
  have hp := writeCell_post hcell (.flt (FloatOps.add w (valueF ofRat ρ e)))
  refine ⟨b, o, hb, h1, h2, h3.symm ▸ rfl, ?_, ?_, ?_⟩
  · rw [h3]; exact (hp.floatCell_same hcell).setFlags _
  · intro he f hf
    rw [h3, activeFlags_ne _ he]
    apply setFlags_true _ f hf
    intro g hg
    obtain ⟨r, e1, e2⟩ := hfl g (by rw [activeFlags_ne _ he]; exact hg)
    exact ⟨r, by rw [writeCell_vars]; exact e1, e2⟩
  · intro he
    rw [h3, he, activeFlags_zero, setFlags_nil, writeCell_vars]

/-- **E4, assembling kernel.** When the kernel does not compute (`assemble`), the terminal block
consists of the flag assignments only, and it runs from every state in which the flags are
declared `bool` variables, ending in `setFlags σ (activeFlags e out)`. -/
theorem terminal_assemble_sound (ofRat : Rat → F) (k : Kind) (hk : k.isCompute = false)
    (n fuel : Nat) (e : IdExpr) (out : Output) (σ : State F)
    (hfl : ∀ f ∈ activeFlags e out, FlagVar σ f) :
    ∃ b o, lower ofRat (n + 1) (.terminal e) out k = .ok b ∧
      b.lines = (activeFlags e out).map flagStmt ∧
      exec fuel b.finalize σ = .ok o ∧ o.ret = none ∧ o.st = setFlags σ (activeFlags e out) := by
  obtain ⟨o, h1, h2, h3⟩ := Runs.block (c := some "*** Computation of expression ***")
    (flags_run (fuel := fuel) hfl)
  exact ⟨_, o, lower_terminal_eq_assemble ofRat k hk n e out, rfl, h1, h2, h3⟩

/-! ### non-vacuity: `a(i) = b(i) * c(i) + 2`, and the repeated tensor `b(i) * b(j)` -/

open TV.ToIr.Ex

/-- E1 over `Int`: `b_vals[p_b0_0] * c_vals[p_c0_0] + 2 = 4 * 5 + 2 = 22` -/
example : evalE σI (toIrWith ofRatInt eEx) = .ok (.flt 22) :=
  valueI ▸ toIr_sound ofRatInt ρI σI eEx leavesI (allFinite_int ..)

/-- E1, repeated tensor: both occurrences read `b_vals`, at the cursors `p_b0_0 = 1` and
`p_b1_0 = 0`: `4 * 3 = 12` -/
example : evalE σI (toIrWith ofRatInt eRep) = .ok (.flt 12) :=
  valueRepI ▸ toIr_sound ofRatInt ρI σI eRep leavesRepI (allFinite_int ..)

/-- E2 over `Rat`: the exact meaning `value ρ e = 22` -/
example : evalE σQ (toIrWith id eEx) = .ok (.flt 22) :=
  valueQ ▸ toIr_sound_rat ρQ σQ eEx leavesQ

/-- E3/E4, append: the terminal block of `a(i) = b(i) * c(i) + 2` stores 22 in `a_vals[1]` and
raises `written_a_0` -/
example : ∃ b o, lower ofRatInt 1 (.terminal eEx) (.append ta 1) .compute = .ok b ∧
    exec 0 b.finalize σI = .ok o ∧ o.ret = none ∧ FloatCell o.st 2 1 22 ∧
    FlagTrue o.st "written_a_0" := by
  obtain ⟨b, o, h1, h2, h3, _, _, _, h7, h8, _, _⟩ :=
    terminal_append_sound ofRatInt ρI σI eEx ta .compute rfl 0 0 2 0 1 leavesI (allFinite_int ..)
      outI_ptr outI_cur outI_cell outI_flags
  rw [valueI] at h7
  exact ⟨b, o, h1, h2, h3, h7, h8 (by decide) _ (by decide)⟩

/-- E3/E4, bucket over two dense layers: `bucket[i * j_dim + j] += 22` with `i = 1`, `j = 2`,
`j_dim = 3`: cell 5 goes from 10 to 32 -/
example : ∃ b o, lower ofRatInt 1 (.terminal eEx) (.bucket tad [0, 1]) .compute = .ok b ∧
    exec 0 b.finalize σI = .ok o ∧ o.ret = none ∧ FloatCell o.st 3 5 32 := by
  have hflags : activeFlags eEx (.bucket tad [0, 1]) = [] := by decide
  obtain ⟨b, o, h1, h2, h3, _, h5, _, _⟩ :=
    terminal_bucket_sound ofRatInt ρI σI eEx tad [0, 1] .compute rfl 0 0 3 0 dvEx ivEx 10
      leavesI (allFinite_int ..) bucketI_ptr bucketI_idx (by decide)
      (by rw [bucketI_ravel]; exact bucketI_cell) (by rw [bucketI_ravel]; exact bucketI_old)
      rfl rfl (by rw [hflags]; intro f hf; cases hf) (by rw [hflags]; intro f hf; cases hf)
  rw [bucketI_ravel, valueI] at h5
  exact ⟨b, o, h1, h2, h3, h5⟩

/-- the flag test is syntactic: the float literal `0.0` raises the flags, the integer literal `0`
does not -/
example : activeFlags (.flt 0) (.append ta 1) = ["written_a_0"] ∧
    activeFlags (.int 0) (.append ta 1) = [] := by decide

end TV.ToIr
