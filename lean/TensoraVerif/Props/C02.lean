import TensoraVerif.Lemmas.StorageWf

/-!
C02 — consequences of well-formedness of a stored tensor (`wfCheck`, `Model/Storage.lean`), for an
arbitrary `Stored` value (not only one produced by `encode`; for those see `decode_encode` in C09).
-/
namespace TV.Storage

/-- the content of `wfCheck` -/
theorem wfCheck_iff (t : Stored) : wfCheck t = true ↔
    validOrdering t.ordering t.levels.length = true ∧ t.dims.length = t.levels.length ∧
      wfLevels t.levels t.levelDims 1 = some t.vals.length := by
  unfold wfCheck
  simp only [Bool.and_eq_true, beq_iff_eq, and_assoc]
  refine and_congr_right fun _ => and_congr_right fun _ => ?_
  split
  · rename_i n hn
    rw [hn, beq_iff_eq, Option.some.injEq]
    exact eq_comm
  · rename_i hn
    simp [hn]

/-- C02 consequence clause, part 1: a well-formed stored tensor passes the validation that unpickling and every
constructor perform (`taco_structure_to_cffi`), so it can be pickled/unpickled and rebuilt -/
theorem wf_validate (t : Stored) (h : wfCheck t = true) : validate t = true := by
  obtain ⟨h1, h2, h3⟩ := (wfCheck_iff t).mp h
  unfold validate
  rw [h1, h2, wfLevels_validate _ _ _ _ h3]
  simp

/-- reading a well-formed tensor back performs no out-of-range array access -/
theorem wf_decode_total (t : Stored) (h : wfCheck t = true) : ∃ items, decode t = some items := by
  obtain ⟨_, _, h3⟩ := (wfCheck_iff t).mp h
  unfold decode
  rw [dec_total t.vals _ _ 1 _ [] 0 h3 (Nat.le_refl _) (by omega)]
  exact ⟨_, rfl⟩

/-- part 2: reading a well-formed tensor back performs no out-of-range array access and yields pairwise distinct
coordinates (so `to_dok`, `==`, `to_format` and any kernel reading it see a function from coordinates to values) -/
theorem wf_decode (t : Stored) (h : wfCheck t = true) :
    ∃ items, decode t = some items ∧ (items.map (·.1)).Nodup := by
  obtain ⟨h1, _, h3⟩ := (wfCheck_iff t).mp h
  have hvo := validOrd_of h1
  refine ⟨(decT t.vals t.levels t.levelDims [] 0).map fun e => (fromLevelOrder t.ordering e.1, e.2), ?_, ?_⟩
  · unfold decode
    rw [dec_total t.vals _ _ 1 _ [] 0 h3 (Nat.le_refl _) (by omega)]
    rfl
  · rw [List.map_map, List.nodup_iff_pairwise_ne, List.pairwise_map]
    refine (decT_nodup t.vals _ _ 1 _ [] 0 h3 (by omega)).imp_of_mem ?_
    intro a b ha hb hab heq
    obtain ⟨sa, ea, la⟩ := decT_shape t.vals _ _ _ _ a ha
    obtain ⟨sb, eb, lb⟩ := decT_shape t.vals _ _ _ _ b hb
    simp only [List.reverse_nil, List.nil_append] at ea eb
    exact hab (fromLevelOrder_inj hvo (by rw [ea, la]) (by rw [eb, lb]) heq)

/-- non-vacuity: a hand-written CSC matrix that is not in the image of `encode` (explicit zero stored) is
well-formed, validates, and reads back -/
example :
    let t : Stored := ⟨[2, 3], [1, 0], [⟨.dense, [], []⟩, ⟨.compressed, [0, 0, 1, 3], [0, 0, 1]⟩], [6, 0, 7]⟩
    wfCheck t = true ∧ validate t = true ∧
      decode t = some [([0, 1], 6), ([0, 2], 0), ([1, 2], 7)] := by decide

/-- `validate` alone does not give distinct coordinates (segments need not be sorted): the hypothesis of
`wf_decode` cannot be weakened to `validate` -/
example :
    let t : Stored := ⟨[2], [0], [⟨.compressed, [0, 2], [1, 1]⟩], [6, 7]⟩
    validate t = true ∧ wfCheck t = false ∧ decode t = some [([1], 6), ([1], 7)] := by decide

end TV.Storage
