import TensoraVerif.Lemmas.CleanupSafe
import TensoraVerif.Lemmas.CleanupDecl
import TensoraVerif.Lemmas.CleanupExamples

/-!
C02 ("for each compressed level the position array has exactly one more entry than the parent level
has positions … the value array supplies a value for every stored position", mechanism: "final
realloc of pos/crd/vals to their exact sizes") and C05 ("every array it hands back is live and at
least as long as the structure it describes"), for `AppendOutput.write_cleanup` = `TV.Gen.appendCleanup`.

Sizes as numbers (`Lemmas/CleanupSizes.lean`), for a mode list `ms`, dimensions `d l` and final
cursors `n l` (both indexed by the level `l`):
`parentPositions ms d n l` = `positions (l-1)` (`1` for `l = 0`), `positions ms d n l`,
`padUpTo ms d n k` = the value of the fold component `padded` after `k` levels, `scratch`.

* K1 `cleanup_realloc_sizes` (EVERY realloc in the cleanup has its intended size),
  `cleanup_pos_realloc_emitted`, `cleanup_crd_realloc_emitted`, `cleanup_vals_realloc_emitted`,
  `cleanup_leading_pos_not_reallocated` + `declarations_leading_pos_exact` (the `pos` array that is
  not reallocated was allocated with exactly its size), `padded_eq` / `padded_ge_positions` /
  `padded_pos` (what `padded` is) and the closed counterexample `vals_size_ne_positions`.
* K2 `appendCleanup_safe`, `appendCleanup_exact_sizes`, `appendCleanup_frame` — for ALL mode lists.
* K3 `appendCleanup_compute_empty`, `appendCleanup_compute_noop`.
-/
namespace TV.Cleanup
open TV.IR TV.Gen TV.Graph TV.Growth

set_option linter.unusedSectionVars false
variable {F : Type} [FloatOps F]

/-! ## K1: symbolic sizes -/

/-- **K1.** Every `realloc` of `appendCleanup` has its intended size. In an assembling kernel, in
any state `σ` in which the dimension variables `<i>_dim` of the dense levels hold `d l` and the
cursor variables `p_<id>_<l>` of the compressed levels hold `n l` (`SizeEnv`), all sizes within
int32 (`SizesOK`): every statement `x = realloc(o, ty, e)` among the lines of `appendCleanup t k` is
* `pos_l = realloc(pos_l, int, e)` for a compressed level `l` with a compressed level above it, and
  `e` evaluates to `positions (l-1) + 1`; or
* `crd_l = realloc(crd_l, int, e)` for a compressed level `l`, and `e` evaluates to `n l`; or
* `vals = realloc(vals, float, e)` (only if some level is compressed), and `e` evaluates to
  `padUpTo … = positions (last) + scratch` (see `padded_eq`). -/
theorem cleanup_realloc_sizes (t : TensorId) (k : Kind) (hk : k.isAssemble = true) (d n : Nat → Int)
    (σ : State F) (henv : SizeEnv t d n σ) (hok : SizesOK t.modes d n) (x : String) (o : Expr F)
    (ty : Ty) (e : Expr F)
    (hmem : Stmt.assign (.var x) (.realloc o ty e) ∈ (appendCleanup t k : SB F).lines) :
    (∃ l, l < t.modes.length ∧ t.modes.getD l .dense = .compressed ∧ allDenseUpTo t.modes l = false ∧
      x = posName t.name l ∧ o = .var x ∧ ty = .int ∧
      evalE σ e = .ok (.int (parentPositions t.modes d n l + 1))) ∨
    (∃ l, l < t.modes.length ∧ t.modes.getD l .dense = .compressed ∧
      x = crdName t.name l ∧ o = .var x ∧ ty = .int ∧ evalE σ e = .ok (.int (n l))) ∨
    (allDenseUpTo t.modes t.modes.length = false ∧ x = valsName t.name ∧ o = .var x ∧ ty = .float ∧
      evalE σ e = .ok (.int (padUpTo t.modes d n t.modes.length))) := by
  rcases cleanup_realloc_form t k hk x o ty e hmem with
    ⟨l, hl, hm, had, hx, ho, hty, rfl⟩ | ⟨l, hl, hm, hx, ho, hty, rfl⟩ | ⟨had, hx, ho, hty, rfl⟩
  · exact Or.inl ⟨l, hl, hm, had, hx, ho, hty, declPosSize_eval t d n σ henv hok l (Nat.le_of_lt hl)⟩
  · have h1 := hok.pos (l + 1) hl
    rw [posUpTo_comp hm] at h1
    have h0 := hok.cur l hl hm
    exact Or.inr (Or.inl ⟨l, hl, hm, hx, ho, hty,
      evalE_var_int (henv.curs l hl hm) (by omega) (by omega)⟩)
  · exact Or.inr (Or.inr ⟨had, hx, ho, hty, (cleanAcc_eval t d n σ henv hok _ (Nat.le_refl _)).2.2⟩)

/-- **K1.** The `pos` realloc IS emitted for every compressed level with a compressed level above it. -/
theorem cleanup_pos_realloc_emitted (t : TensorId) (k : Kind) (hk : k.isAssemble = true) (l : Nat)
    (hl : l < t.modes.length) (hm : t.modes.getD l .dense = .compressed)
    (had : allDenseUpTo t.modes l = false) :
    Stmt.assign (.var (posName t.name l))
      (.realloc (.var (posName t.name l)) .int (plus (cleanAcc (F := F) t l).2.1 (.intLit 1))) ∈
      (appendCleanup t k : SB F).lines := by
  rw [mem_appendCleanup t k hk]
  refine Or.inl ⟨l, hl, ?_⟩
  rw [mem_levelStmts]
  exact ⟨hm, Or.inl ⟨by rw [cleanAcc_flag]; exact had, rfl⟩⟩

/-- **K1.** The `crd` realloc is emitted for every compressed level. -/
theorem cleanup_crd_realloc_emitted (t : TensorId) (k : Kind) (hk : k.isAssemble = true) (l : Nat)
    (hl : l < t.modes.length) (hm : t.modes.getD l .dense = .compressed) :
    Stmt.assign (.var (crdName t.name l))
      (.realloc (.var (crdName t.name l)) .int (.var (layerPointer t.id l))) ∈
      (appendCleanup t k : SB F).lines := by
  rw [mem_appendCleanup t k hk]
  refine Or.inl ⟨l, hl, ?_⟩
  rw [mem_levelStmts]
  exact ⟨hm, Or.inr (Or.inl rfl)⟩

/-- **K1.** The `vals` realloc is emitted as soon as some level is compressed. -/
theorem cleanup_vals_realloc_emitted (t : TensorId) (k : Kind) (hk : k.isAssemble = true)
    (had : allDenseUpTo t.modes t.modes.length = false) :
    Stmt.assign (.var (valsName t.name))
      (.realloc (.var (valsName t.name)) .float (cleanAcc (F := F) t t.modes.length).2.2) ∈
      (appendCleanup t k : SB F).lines := by
  rw [mem_appendCleanup t k hk]
  refine Or.inr ?_
  rw [mem_valsStmts]
  exact Or.inl ⟨by rw [cleanAcc_flag]; exact had, rfl⟩

/-- **K1.** The `pos` array of a compressed level above which every level is dense is NOT
reallocated by the cleanup … -/
theorem cleanup_leading_pos_not_reallocated (t : TensorId) (k : Kind) (hk : k.isAssemble = true)
    (l : Nat) (had : allDenseUpTo t.modes l = true) (o : Expr F) (ty : Ty) (e : Expr F) :
    Stmt.assign (.var (posName t.name l)) (.realloc o ty e) ∉ (appendCleanup t k : SB F).lines := by
  intro hmem
  rcases cleanup_realloc_form t k hk _ o ty e hmem with
    ⟨l', _, _, had', hx, _⟩ | ⟨l', _, _, hx, _⟩ | ⟨_, hx, _⟩
  · rw [posName_inj hx, had'] at had; cases had
  · exact posName_ne_crdName _ _ _ hx
  · exact posName_ne_valsName _ _ hx

/-- … because `appendDeclarations` already allocated it with exactly its size: it contains,
consecutively, `int32_t pos_l_capacity = e; pos_l = malloc(pos_l_capacity)` where `e` evaluates (in
any state as in K1) to `positions (l-1) + 1 = d 0 * … * d (l-1) + 1`. -/
theorem declarations_leading_pos_exact (cap : Option Int) (t : TensorId) (k : Kind)
    (hk : k.isAssemble = true) (l : Nat) (hl : l < t.modes.length)
    (hm : t.modes.getD l .dense = .compressed) (had : allDenseUpTo t.modes l = true)
    (d n : Nat → Int) (σ : State F) (henv : SizeEnv t d n σ) (hok : SizesOK t.modes d n) :
    ∃ e : Expr F,
      [declAssignE (posCapName t.name l) .int e,
        .assign (.var (posName t.name l)) (.alloc .int (.var (posCapName t.name l)))] <:+:
        (appendDeclarations cap t k : SB F).lines ∧
      evalE σ e = .ok (.int (parentPositions t.modes d n l + 1)) ∧
      parentPositions t.modes d n l = prodFrom 1 ((List.range l).map d) :=
  ⟨_, appendDeclarations_pos_alloc cap t k hk l hl hm had,
    declPosSize_eval t d n σ henv hok l (Nat.le_of_lt hl), posUpTo_allDense t.modes d n l had⟩

/-- **K1, what `padded` is.** The size of the final `vals` realloc is NOT the number of stored
positions but `positions (last) + scratch`, where `scratch` is the product of the dimensions of the
dense levels after the last compressed level (`1` if the last level is compressed): the fold sets
`padded = final + 1` at a compressed level and multiplies it by every later dense dimension, i.e.
`padded = (n_c + 1) * d_{c+1} * … * d_{last}`. The `vals` array so keeps one extra run of the
trailing dense levels — the scratch row the kernel zero-initialises at the cursor before it knows
whether the row will be kept. For an EMPTY result (`n_c = 0`) the size is therefore
`d_{c+1} * … * d_{last} ≥ 1` and not `0` (`realloc(vals, 0)` may return `NULL` or free the block):
see `padded_pos`. -/
theorem padded_eq (ms : List Mode) (d n : Nat → Int) (k : Nat) :
    padUpTo ms d n k = posUpTo ms d n k + (if allDenseUpTo ms k then 0 else scratch ms d k) :=
  padUpTo_eq ms d n k

/-- the `vals` array supplies a cell for every stored position -/
theorem padded_ge_positions (ms : List Mode) (d n : Nat → Int) (h : SizesOK ms d n) :
    posUpTo ms d n ms.length ≤ padUpTo ms d n ms.length :=
  posUpTo_le_padUpTo h (Nat.le_refl _)

/-- with positive dimensions the `vals` realloc never has size 0, however empty the result is -/
theorem padded_pos (ms : List Mode) (d n : Nat → Int) (h : SizesOK ms d n)
    (hd : ∀ l, l < ms.length → ms.getD l .dense = .dense → 1 ≤ d l)
    (hc : allDenseUpTo ms ms.length = false) : 1 ≤ padUpTo ms d n ms.length := by
  rw [padUpTo_eq, hc]
  have h1 := scratch_pos (d := d) hd hc
  have h2 := posUpTo_nonneg h (Nat.le_refl ms.length)
  simp only [Bool.false_eq_true, if_false]
  omega

/-- **closed counterexample to "the `vals` realloc has size `positions (last)`".** Format `[s]` with
2 stored entries: the `vals` array is reallocated to 3 cells. -/
theorem vals_size_ne_positions :
    padUpTo [.compressed] (fun _ => 0) (fun _ => 2) 1 = 3 ∧
    positions [.compressed] (fun _ => 0) (fun _ => 2) 0 = 2 := by decide

/-- the realistic bug seeded in format `[s,d,s]` — forgetting to multiply `prevSize` by the dense
dimension — is excluded: the parent of level 2 has `n 0 * d 1` positions -/
example (d n : Nat → Int) :
    parentPositions [.compressed, .dense, .compressed] d n 2 = n 0 * d 1 := rfl

/-- non-vacuity of K1: the hypotheses hold in the concrete state `Ex.σC` (format `[s,d,s]`,
dimensions `(3,2,3)`, cursors `(2,3)`), and there the `pos` realloc of level 2 has size
`2 * 2 + 1 = 5`. -/
example : ∃ e : Expr Int,
    Stmt.assign (.var (posName Ex.tC.name 2)) (.realloc (.var (posName Ex.tC.name 2)) .int e) ∈
      (appendCleanup Ex.tC .assemble : SB Int).lines ∧
    evalE Ex.σC e = .ok (.int 5) := by
  refine ⟨_, cleanup_pos_realloc_emitted Ex.tC .assemble rfl 2 (by decide) rfl (by decide), ?_⟩
  exact declPosSize_eval Ex.tC Ex.dC Ex.nC Ex.σC Ex.sizeEnvC Ex.sizesOKC 2 (by decide)

/-! ## K2: the cleanup on the machine -/

/-- **K2, `appendCleanup_safe`.** For every tensor `t` (ANY mode list), every assembling kernel
kind, every fuel, every state `σ` and ghost description `A` of the arrays such that (`CleanPre`):
* the dimension variables of the dense levels hold `d l`, the cursor variables of the compressed
  levels hold `n l`; `SizesOK`: `0 ≤ d l < 2^31`, `0 ≤ n l`, every `positions + 1` and every
  `padded` is `< 2^31`; the tensor has at most `2^31` levels;
* the variable `t.name` holds tensor number `ti`, whose record `tr` is output-owned, has
  `order = number of levels` and a slot pair at every compressed level;
* for every compressed level `l`, the variables `<t>_<l>_pos` / `<t>_<l>_crd` hold the base
  addresses of the live output `int` blocks `A.pb l` / `A.cb l` with cells `A.pc l` / `A.cc l`,
  `positions (l-1) + 1 ≤ |A.pc l|` — with equality if every level above `l` is dense — and
  `n l ≤ |A.cc l|`; `<t>_vals` holds the base address of the live output `float` block `A.vb` with
  cells `A.vc`, `padUpTo ≤ |A.vc|` — with equality if every level is dense; all these blocks are
  pairwise distinct:

`(appendCleanup t k).finalize` runs without error and without returning, and the final state
satisfies `CleanPost` (see its doc comment, and `appendCleanup_exact_sizes` / `appendCleanup_frame`
for the unfolded consequences). -/
theorem appendCleanup_safe (t : TensorId) (k : Kind) (hk : k.isAssemble = true) (d n : Nat → Int)
    (A : Arrays F) (ti : Nat) (tr : TensorRec F) (σ : State F) (fuel : Nat)
    (hpre : CleanPre t d n A ti tr σ) (hok : SizesOK t.modes d n)
    (h32 : (t.modes.length : Int) ≤ 2147483648) :
    ∃ o, exec fuel (appendCleanup (F := F) t k).finalize σ = .ok o ∧ o.ret = none ∧
      CleanPost t d n A ti tr σ o.st :=
  appendCleanup_runs fuel k hk hpre hok h32

/-- **K2, exact sizes.** Under the hypotheses of `appendCleanup_safe`, in the final state the output
record (still output-owned, same order and dimensions block) holds, at every compressed level `l`,
the base addresses of two LIVE OUTPUT `int` blocks of EXACTLY `positions (l-1) + 1` and `n l` cells
that are prefixes of the old `pos` / `crd` arrays, and `vals` holds the base address of a live
output `float` block of exactly `padUpTo` cells — at least one per stored position — that is a
prefix of the old `vals` array. -/
theorem appendCleanup_exact_sizes (t : TensorId) (k : Kind) (hk : k.isAssemble = true) (d n : Nat → Int)
    (A : Arrays F) (ti : Nat) (tr : TensorRec F) (σ : State F) (fuel : Nat)
    (hpre : CleanPre t d n A ti tr σ) (hok : SizesOK t.modes d n)
    (h32 : (t.modes.length : Int) ≤ 2147483648) :
    ∃ o tr', exec fuel (appendCleanup (F := F) t k).finalize σ = .ok o ∧ o.ret = none ∧
      o.st.tensors[ti]? = some tr' ∧ tr'.owner = .output ∧ tr'.order = tr.order ∧
      tr'.dimsBlk = tr.dimsBlk ∧
      (∀ l, l < t.modes.length → t.modes.getD l .dense = .compressed →
        ∃ p c pblk cblk, tr'.slots[l]? = some (some (.ptr p 0, .ptr c 0)) ∧
          o.st.heap[p]? = some pblk ∧ pblk.live = true ∧ pblk.owner = .output ∧ pblk.ty = .int ∧
          (pblk.cells.length : Int) = parentPositions t.modes d n l + 1 ∧ pblk.cells <+: A.pc l ∧
          o.st.heap[c]? = some cblk ∧ cblk.live = true ∧ cblk.owner = .output ∧ cblk.ty = .int ∧
          (cblk.cells.length : Int) = n l ∧ cblk.cells <+: A.cc l) ∧
      (∃ v vblk, tr'.vals = .ptr v 0 ∧ o.st.heap[v]? = some vblk ∧ vblk.live = true ∧
        vblk.owner = .output ∧ vblk.ty = .float ∧
        (vblk.cells.length : Int) = padUpTo t.modes d n t.modes.length ∧ vblk.cells <+: A.vc ∧
        parentPositions t.modes d n t.modes.length ≤ vblk.cells.length) := by
  obtain ⟨o, e, r, hpost⟩ := appendCleanup_runs fuel k hk hpre hok h32
  obtain ⟨tr', h1, h2, h3, h4, _, _, h7, v, h8, h9⟩ := hpost.trec
  refine ⟨o, tr', e, r, h1, h4.trans hpre.owner, h2, h3, ?_, ?_⟩
  · intro l hl hm
    obtain ⟨p, c, e1, e2, e3⟩ := h7 l ⟨hl, hm⟩
    have hp0 := posUpTo_nonneg hok (Nat.le_of_lt hl)
    have hpl := hpre.posLen l ⟨hl, hm⟩
    have hn0 := hok.cur l hl hm
    have hcl := hpre.crdLen l ⟨hl, hm⟩
    refine ⟨p, c, _, _, e1, e2, rfl, rfl, rfl, ?_, List.take_prefix _ _, e3, rfl, rfl, rfl, ?_,
      List.take_prefix _ _⟩
    · show ((List.take _ _).length : Int) = posUpTo t.modes d n l + 1
      rw [List.length_take]; omega
    · show ((List.take _ _).length : Int) = n l
      rw [List.length_take]; omega
  · have hq0 := padUpTo_nonneg hok (Nat.le_refl t.modes.length)
    have hvl := hpre.valsLen
    have hle := posUpTo_le_padUpTo hok (Nat.le_refl t.modes.length)
    have hlen : ((List.take (padUpTo t.modes d n t.modes.length).toNat A.vc).length : Int) =
        padUpTo t.modes d n t.modes.length := by
      rw [List.length_take]; omega
    refine ⟨v, _, h8, h9, rfl, rfl, rfl, hlen, List.take_prefix _ _, ?_⟩
    show posUpTo t.modes d n t.modes.length ≤ ((List.take _ _).length : Int)
    rw [hlen]; exact hle

/-- **K2, nothing else changes.** Under the hypotheses of `appendCleanup_safe`: every input-owned
block, and more generally every block of the old heap other than the old `pos`/`crd` blocks of the
compressed levels and the old `vals` block, is unchanged (those are unchanged or dead copies of
themselves); every other tensor record is unchanged; every variable other than the array variables
`<t>_<l>_pos`, `<t>_<l>_crd`, `<t>_vals` is unchanged; the slots of the dense levels of the output
record are unchanged. -/
theorem appendCleanup_frame (t : TensorId) (k : Kind) (hk : k.isAssemble = true) (d n : Nat → Int)
    (A : Arrays F) (ti : Nat) (tr : TensorRec F) (σ : State F) (fuel : Nat)
    (hpre : CleanPre t d n A ti tr σ) (hok : SizesOK t.modes d n)
    (h32 : (t.modes.length : Int) ≤ 2147483648) :
    ∃ o tr', exec fuel (appendCleanup (F := F) t k).finalize σ = .ok o ∧ o.ret = none ∧
      (∀ (b : Nat) (blk : Block F), σ.heap[b]? = some blk → blk.owner = .input →
        o.st.heap[b]? = some blk) ∧
      (∀ (b : Nat) (blk : Block F), σ.heap[b]? = some blk →
        (∀ l, l < t.modes.length → t.modes.getD l .dense = .compressed → b ≠ A.pb l ∧ b ≠ A.cb l) →
        b ≠ A.vb → o.st.heap[b]? = some blk) ∧
      (∀ (b : Nat) (blk : Block F), σ.heap[b]? = some blk →
        o.st.heap[b]? = some blk ∨ o.st.heap[b]? = some { blk with live := false }) ∧
      o.st.tensors.length = σ.tensors.length ∧
      (∀ j, j ≠ ti → o.st.tensors[j]? = σ.tensors[j]?) ∧
      (∀ x, (∀ l, x ≠ posName t.name l ∧ x ≠ crdName t.name l) → x ≠ valsName t.name →
        lookupVar o.st.vars x = lookupVar σ.vars x) ∧
      o.st.tensors[ti]? = some tr' ∧ tr'.slots.length = tr.slots.length ∧
      (∀ l, ¬ (l < t.modes.length ∧ t.modes.getD l .dense = .compressed) →
        tr'.slots[l]? = tr.slots[l]?) := by
  obtain ⟨o, e, r, hpost⟩ := appendCleanup_runs fuel k hk hpre hok h32
  obtain ⟨tr', h1, _, _, _, h5, h6, _⟩ := hpost.trec
  refine ⟨o, tr', e, r, ?_, ?_, ?_, hpost.tlen, hpost.tother, ?_, h1, h5, h6⟩
  · intro b blk hb hin
    rcases hpost.heap b blk hb with h | ⟨_, ⟨j, hj, rfl | rfl⟩ | rfl⟩
    · exact h
    · rw [hpre.posBlk j hj] at hb; cases hb; cases hin
    · rw [hpre.crdBlk j hj] at hb; cases hb; cases hin
    · rw [hpre.valsBlk] at hb; cases hb; cases hin
  · intro b blk hb hne hnv
    rcases hpost.heap b blk hb with h | ⟨_, ⟨j, hj, h | h⟩ | h⟩
    · exact h
    · exact absurd h (hne j hj.1 hj.2).1
    · exact absurd h (hne j hj.1 hj.2).2
    · exact absurd h hnv
  · intro b blk hb
    rcases hpost.heap b blk hb with h | ⟨h, _⟩
    · exact Or.inl h
    · exact Or.inr h
  · intro x hx hv
    refine hpost.vars x ?_
    rintro (⟨i, h⟩ | ⟨i, h⟩ | h)
    · exact (hx i).1 h
    · exact (hx i).2 h
    · exact hv h

/-- **non-vacuity of K2** (format `[s,d,s]`, dimensions `(3,2,3)`, cursors `(2,3)`): the hypotheses
of `appendCleanup_safe` hold in the concrete state `Ex.σC`, and in the final state slot 2 of the
output tensor points to a live `pos` block of exactly `2 * 2 + 1 = 5` cells, and `vals` to a live
block of `3 + 1 = 4` cells. -/
example : ∃ o tr' p c pblk v vblk,
    exec 0 (appendCleanup (F := Int) Ex.tC .assemble).finalize Ex.σC = .ok o ∧
    o.st.tensors[0]? = some tr' ∧ tr'.slots[2]? = some (some (.ptr p 0, .ptr c 0)) ∧
    o.st.heap[p]? = some pblk ∧ pblk.live = true ∧ pblk.cells.length = 5 ∧
    tr'.vals = .ptr v 0 ∧ o.st.heap[v]? = some vblk ∧ vblk.live = true ∧ vblk.cells.length = 4 := by
  obtain ⟨o, e, _, hpost⟩ :=
    appendCleanup_safe Ex.tC .assemble rfl Ex.dC Ex.nC Ex.AC 0 Ex.trC Ex.σC 0 Ex.cleanPreC Ex.sizesOKC
      (by decide)
  obtain ⟨tr', h1, _, _, _, _, _, h7, v, h8, h9⟩ := hpost.trec
  obtain ⟨p, c, e1, e2, _⟩ := h7 2 Ex.comp2
  exact ⟨o, tr', p, c, _, v, _, e, h1, e1, e2, rfl, rfl, h8, h9, rfl, rfl⟩

/-! ## K3: compute kernels -/

/-- **K3.** In a compute kernel (`isAssemble = false`) the cleanup has no statements: compute
cannot resize anything. -/
theorem appendCleanup_compute_empty (t : TensorId) (k : Kind) (hk : k.isAssemble = false) :
    (appendCleanup t k : SB F).lines = [] :=
  appendCleanup_compute_lines t k hk

/-- … and running it changes nothing, from any state -/
theorem appendCleanup_compute_noop (t : TensorId) (k : Kind) (hk : k.isAssemble = false)
    (fuel : Nat) (σ : State F) :
    exec fuel (appendCleanup (F := F) t k).finalize σ = .ok ⟨σ, none, 0, 0⟩ := by
  unfold SB.finalize
  rw [appendCleanup_compute_lines t k hk, exec.eq_5, execL.eq_1]

example : (appendCleanup (F := Int) Ex.tC .compute).lines = [] :=
  appendCleanup_compute_empty _ _ rfl

end TV.Cleanup
