import TensoraVerif.Lemmas.GraphAlg

/-!
C03 — statements about `exhaust_tensor` (`Model/Graph.lean`): zeroing absent tensors is sound, and the
"value written" flag (terminal expression is not the literal `Integer 0` after exhausting the absent
tensors) is raised only where the expression has structural support.
-/
namespace TV.Graph

/-- zeroing a tensor that is zero at the current coordinates does not change the value (justifies taking the
branch of the co-iteration lattice in which absent tensors are exhausted) -/
theorem exhaust_sound (ρ : String → Rat) (e : IdExpr) (ref : String) (h0 : ρ ref = 0) :
    value ρ (exhaust e ref) = value ρ e := exhaust_value ρ e ref h0

theorem exhaustAll_sound (ρ : String → Rat) (e : IdExpr) (refs : List String) (h0 : ∀ r ∈ refs, ρ r = 0) :
    value ρ (exhaustAll e refs) = value ρ e := by
  induction refs generalizing e with
  | nil => rfl
  | cons r rs ih =>
    rw [exhaustAll_cons, ih _ (fun x hx => h0 x (List.mem_cons_of_mem _ hx)),
      exhaust_sound ρ e r (h0 r (List.mem_cons_self ..))]

/-- C03: the "value written" flag is raised at a terminal only if its exhausted expression is not the literal
`Integer 0`; whenever that is the case the expression has structural support at the coordinate -/
theorem exhaust_nonzero_support (e : IdExpr) (absent : List String)
    (hne : exhaustAll e absent ≠ .int 0) : presentStruct (fun id => !absent.contains id) e = true := by
  cases h : presentStruct (fun id => !absent.contains id) e with
  | true => rfl
  | false => exact absurd (exhaustAll_dead absent e (.inr h)) hne

/-- the converse direction used by C03: if no tensor of a product/sum is structurally present the expression
exhausts to the literal zero. `presentStructT` (`Lemmas/GraphAlg.lean`) counts the literal `.int 0` as absent,
every other literal as present, and a sum (product) as absent iff both sides are (either side is) absent AND
some absent tensor occurs in it — the proviso is needed because `exhaust_tensor` never simplifies a node in
which no exhausted tensor occurs (`mul (int 0) (int 1)` stays as it is). -/
theorem exhaust_all_absent_is_zero (e : IdExpr) (absent : List String)
    (hno : presentStructT (fun id => !absent.contains id) e = false) : exhaustAll e absent = .int 0 :=
  exhaustAll_absentT absent e (.inr hno)

/-- `presentStructT` is exact, i.e. the weakest notion of absence for which the previous theorem holds -/
theorem exhaustAll_eq_zero_iff (e : IdExpr) (absent : List String) :
    exhaustAll e absent = .int 0 ↔ presentStructT (fun id => !absent.contains id) e = false :=
  ⟨exhaustAll_absentT_conv absent e, exhaust_all_absent_is_zero e absent⟩

/-- and it refines `presentStruct`: structural presence in the sense of `presentStructT` implies structural
presence in the sense of C03 -/
theorem presentStruct_of_presentStructT (P : String → Bool) (e : IdExpr)
    (h : presentStructT P e = true) : presentStruct P e = true := by
  cases h' : presentStruct P e with
  | true => rfl
  | false => rw [presentStructT_false_of_presentStruct_false P e h'] at h; cases h

/-! the corners that make the naive reading of "absent" false -/
example : exhaustAll (.mul (.int 0) (.int 1)) ["a"] = .mul (.int 0) (.int 1) := by decide
example : exhaustAll (.add (.tensor ⟨"a", "A", [], []⟩) (.add (.int 0) (.int 0))) ["a"]
    = .add (.int 0) (.int 0) := by decide
example : exhaustAll (.add (.flt 0) (.tensor ⟨"a", "A", [], []⟩)) ["a"] = .flt 0 := by decide
/-- non-vacuity -/
example : exhaustAll (.mul (.tensor ⟨"a", "A", [], []⟩) (.add (.tensor ⟨"b", "B", [], []⟩) (.tensor ⟨"c", "C", [], []⟩)))
    ["b", "x", "c"] = .int 0 := by decide

end TV.Graph
