import TensoraVerif.Lemmas.FlagBasic
import TensoraVerif.Lemmas.FlagTail
import TensoraVerif.Lemmas.FlagLower
import TensoraVerif.Lemmas.FlagTerminal
import TensoraVerif.Lemmas.FlagPre
import TensoraVerif.Lemmas.FlagGraph
import TensoraVerif.Lemmas.FlagNested
import TensoraVerif.Lemmas.FlagExamples
import TensoraVerif.Lemmas.LowerableSound
import TensoraVerif.Props.C03

/-!
C03, "a compressed output level stores a coordinate only if the expression has structural support
there … empty rows, empty contractions and absent operands never materialise stored zeros":
the `written_*` flag mechanism of the lowering pass, syntactically (what `lower` emits) and ON THE
MACHINE (`Model/Machine.lean`), for ALL states satisfying the stated invariants and parametric in
the leaf (hence in all names).

For every lattice branch of an iteration node with a SPARSE output leaf `l`, `lower` emits

```
[writePosAllocation l]                          -- PRE, assembling kernels only
bool written_<out>_<layer> = false;
INNER                                           -- lower of the next graph level
if (written_<out>_<layer>) { [writeCrdAssembly l] /* assemble only */ ; p_<out>_<layer>++ }
```

= `flagBranch l k INNER` (`Lemmas/FlagBasic.lean`).

* F1 `lower_emits_flagBranch`, `lower_emits_flagBranch_mem`, `lower_oneLevel_flagBranch`
* F2 `flag_branch_sound`, `flag_branch_appends`
* F3 `flag_terminal_sound`, `flag_terminal_from_start`, `flag_terminal_compute_sound`,
  `flag_terminal_support` (with `exhaustAll`/`presentStruct`), `c03_one_level`
* F4 `flag_nested_sound`
-/
namespace TV.Flag
open TV.IR TV.Gen TV.Graph TV.Growth TV.ToIr TV.Merge

set_option linter.unusedSectionVars false
variable {F : Type} [FloatOps F]

/-! ### F1: the syntactic link -/

/-- **F1.** If `lower` succeeds on an iteration node over `i` whose output leaf `l` is compressed
(`isSparseOutput`), in a kernel that lowers anything at all (`hk`: computing, or the output has a
compressed level), then `out.next` succeeded with some `nextOut`, and the emitted lines are
`pre ++ loops ++ post` where `loops` are, in order, one `while` statement per sub-node of the merge
lattice that is not skipped. The body of the loop of sub-node `sub` contains the statement
`branchJoin leaves` — and when the loop is sparse (`iterSparse`) the loop is EXACTLY the skeleton
`mergeLoopL … (denseComputations … ++ [branchJoin leaves])` of `lower_emits_mergeLoop`
(`Props/C05Merge.lean`) — and `leaves` lists, in order, one pair per sub-sub-node `ss` of `sub` that is
not skipped: the guard `branchCond ss i` (`i_l == i` for all sparse leaves of `ss`) and the statement
`flagBranch l k INNER` where `INNER` is the result of `lower` on the graph below `ss` with the output
`nextOut`. All three kernel kinds (`flagBranch` contains `writePosAllocation`/`writeCrdAssembly`
exactly when `k.isAssemble`). -/
theorem lower_emits_flagBranch (ofRat : Rat → F) (k : Kind) (n : Nat) (i : String) (l : Leaf)
    (nx : IGraph) (out : Output) (b : SB F) (hk : (!k.isCompute && !out.hasSparseLayer) = false)
    (hso : isSparseOutput (.iter i (some l) nx) = true)
    (h : lower ofRat (n + 1) (.iter i (some l) nx) out k = .ok b) :
    ∃ nextOut decls, (out.next (some l.layer) k : Except GenErr (Output × SB F)) = .ok (nextOut, decls) ∧
    ∃ pre post loops, b.lines = pre ++ loops ++ post ∧
      PairsWith (fun sub s => ∃ leaves,
          (∃ c bpre bpost, s = .loop c (.block (bpre ++ branchJoin leaves :: bpost) none)) ∧
          (iterSparse (.iter i (some l) nx) = true →
            s = mergeLoopL (nodeContext sub).sparseLeaves i
              (denseComputations (maybeDenseOut (some l) out ++ (nodeContext sub).denseLeaves) i
                (IGraph.iter i (some l) nx).laterIndexes ++ [branchJoin leaves])) ∧
          FlagPairs (fun ss (cs : Expr F × Stmt F) => cs.1 = branchCond ss i ∧
              ∃ inner, lower ofRat n (subNext ss) nextOut k = .ok inner ∧ cs.2 = flagBranch l k inner)
            ((generateSubgraphs sub).filter fun ss => !skipped (.iter i (some l) nx) ss) leaves)
        ((generateSubgraphs (.iter i (some l) nx)).filter fun sub => !skipped (.iter i (some l) nx) sub)
        loops :=
  lower_iter_flagBranches ofRat k n i l nx out b hk hso h

/-- **F1, membership form.** Under the same hypotheses: every sub-node `sub` that is not skipped has
its `while` loop among the emitted lines; the loop body contains `branchJoin leaves`; and for every
sub-sub-node `ss` of `sub` that is not skipped, `lower` succeeded on the graph below it with some
`INNER`, and the pair `(branchCond ss i, flagBranch l k INNER)` is one of the branches. -/
theorem lower_emits_flagBranch_mem (ofRat : Rat → F) (k : Kind) (n : Nat) (i : String) (l : Leaf)
    (nx : IGraph) (out : Output) (b : SB F) (hk : (!k.isCompute && !out.hasSparseLayer) = false)
    (hso : isSparseOutput (.iter i (some l) nx) = true)
    (h : lower ofRat (n + 1) (.iter i (some l) nx) out k = .ok b) :
    ∃ nextOut decls, (out.next (some l.layer) k : Except GenErr (Output × SB F)) = .ok (nextOut, decls) ∧
      ∀ sub ∈ generateSubgraphs (.iter i (some l) nx), skipped (.iter i (some l) nx) sub = false →
        ∃ s ∈ b.lines, ∃ leaves c bpre bpost,
          s = .loop c (.block (bpre ++ branchJoin leaves :: bpost) none) ∧
          ∀ ss ∈ generateSubgraphs sub, skipped (.iter i (some l) nx) ss = false →
            ∃ inner, lower ofRat n (subNext ss) nextOut k = .ok inner ∧
              ((branchCond ss i, flagBranch l k inner) : Expr F × Stmt F) ∈ leaves :=
  lower_iter_flagBranch_mem ofRat k n i l nx out b hk hso h

/-- **F1 for one compressed output level.** For the graph `.iter i (some l) (.terminal e0)` of an
assignment whose output's LAST level `l` is compressed (a sparse vector `a(i) = e0`, or the last level
of any output), lowered from the append output positioned at that level: every lattice branch that is
not skipped is the node over the expression `exhaustAll e0 refs`, where NONE of the exhausted tensors
`refs` is among the operands co-iterated in that branch (`compressedDims ss`, the ids whose coordinates
the guard `branchCond ss i` compares with `i`), and the emitted branch is `flagBranch l k INNER` with
`INNER` the terminal block of that exhausted expression. -/
theorem lower_oneLevel_flagBranch (ofRat : Rat → F) (k : Kind) (n : Nat) (i : String) (l : Leaf)
    (e0 : IdExpr) (b : SB F)
    (hlast : l.layer + 1 = l.tensor.indexes.length) (hmode : l.mode = .compressed)
    (h : lower ofRat (n + 2) (.iter i (some l) (.terminal e0)) (.append l.tensor l.layer) k = .ok b) :
    ∀ sub ∈ generateSubgraphs (.iter i (some l) (.terminal e0)),
      skipped (.iter i (some l) (.terminal e0)) sub = false →
      ∃ s ∈ b.lines, ∃ leaves c bpre bpost,
        s = .loop c (.block (bpre ++ branchJoin leaves :: bpost) none) ∧
        ∀ ss ∈ generateSubgraphs sub, skipped (.iter i (some l) (.terminal e0)) ss = false →
          ∃ refs inner, ss = .iter i (some l) (.terminal (exhaustAll e0 refs)) ∧
            (∀ r ∈ refs, r ∉ compressedDims ss) ∧
            lower ofRat (n + 1) (.terminal (exhaustAll e0 refs))
              (.append l.tensor l.tensor.indexes.length) k = .ok inner ∧
            ((branchCond ss i, flagBranch l k inner) : Expr F × Stmt F) ∈ leaves :=
  lower_oneLevel_branches ofRat k n i l e0 b hlast hmode h

/-! ### F2: the branch on the machine -/

/-- **F2.** `PRE; bool written = false; INNER; if (written) { [crd assembly] p++ }` for ANY statement
list INNER. Let `σ0` be the state after `PRE` (`hpre`; `PRE = []` unless the kernel assembles), in
which the flag is undeclared or a `bool`, the cursor `p_<out>_<layer>` holds `0 ≤ p`, `p + 1 < 2^31`
and — assembling kernels only — `CrdReady`: the `crd` array of the level satisfies the array invariant
`ArrInv` (block `b`, capacity `c ≥ 1`), `p ≤ c`, the index variable holds the int32 `i`, `2 * c < 2^31`
if the array is full, and the four names are distinct. Let INNER run without error and without
returning from the state after the declaration to a state `σ2` (`hin`), respecting the frame
(`InnerFrame`: the variables `crd`, `crd_capacity`, cursor and index, and the `crd` block are as in
`σ0`), and let the flag hold the boolean `w` in `σ2`. Then the branch runs without error, for every
fuel INNER runs with; afterwards the cursor holds `p + (if w then 1 else 0)`, and
* `w = false`: the final state IS `σ2` — `crd` array, capacity and cursor are untouched;
* `w = true`, computing-only kernel: the final state is `σ2` with the cursor incremented;
* `w = true`, assembling kernel: `StorePost` relative to `σ2` — the array invariant holds again
  (block `b'`, capacity `c' ≥ c`, `p < c'`), cell `p` of the array holds `i`, every other old cell is
  preserved, every other variable and heap block is unchanged — and then the cursor is incremented.
"A coordinate is appended iff the flag was raised." -/
theorem flag_branch_sound (l : Leaf) (k : Kind) (inner : SB F) (fuel : Nat) (σ σ0 σ2 : State F)
    (b : Nat) (c p i : Int) (w : Bool)
    (hpre : RunsL fuel (flagPre l k) σ σ0)
    (hfl : lookupVar σ0.vars (flagName l) = none ∨ FlagVar σ0 (flagName l))
    (hp : IntVar σ0 l.ptr p) (hp0 : 0 ≤ p) (hp1 : p + 1 < 2147483648)
    (hcrd : k.isAssemble = true → CrdReady σ0 l b c p i)
    (hin : RunsL fuel (innerStmts inner) (declFalse σ0 (flagName l)) σ2)
    (hfr : InnerFrame l b σ0 σ2) (hw : BoolVar σ2 (flagName l) w) :
    ∃ o, exec fuel (flagBranch l k inner) σ = .ok o ∧ o.ret = none ∧
      IntVar o.st l.ptr (p + if w then 1 else 0) ∧
      (w = false → o.st = σ2) ∧
      (w = true → k.isAssemble = false →
        o.st = { σ2 with vars := setVar σ2.vars l.ptr (.int (p + 1)) }) ∧
      (w = true → k.isAssemble = true → ∃ σ' b' c',
        StorePost σ2 σ' (crdName l.tensor.name l.layer) (crdCapName l.tensor.name l.layer) .int
          b c p (.int i) b' c' ∧
        o.st = { σ' with vars := setVar σ'.vars l.ptr (.int (p + 1)) }) := by
  obtain ⟨σ3, ⟨o, e, r, s⟩, tp, hp3⟩ := flagBranch_runs l k inner fuel σ σ0 σ2 b c p i w hpre hfl hin hw
    (hp.congr hfr.ptr) hp0 hp1 (fun _ h => crdReady_frame (hcrd h) hfr)
  subst s
  exact ⟨o, e, r, hp3, tp.1, tp.2.1, tp.2.2⟩

/-- **F2 in terms of the stored coordinates** (assembling kernels). If after `PRE` the `crd` array of
the level holds the coordinates `ws` appended so far (`AppInv`, `Lemmas/GrowthAppend.lean`: array
invariant, cursor `= |ws| ≤` capacity, cells `0 … |ws|` are `ws`, the index variable is an `int`), the
index variable holds the int32 `i`, `|ws| + 1 < 2^31`, doubling does not overflow if the array is full,
and INNER runs, respects the frame and leaves the flag at `w`: then the branch runs, and afterwards the
array (block `b'`, capacity `c'`) holds `ws ++ [i]` if `w` and `ws` otherwise, with the cursor again
`=` the number of stored coordinates. If `w = false` the final state IS `σ2`. Tensor records, every
heap block other than the `crd` block and every variable other than `crd`, `crd_capacity` and the
cursor are as INNER left them. -/
theorem flag_branch_appends (l : Leaf) (k : Kind) (hk : k.isAssemble = true) (inner : SB F) (fuel : Nat)
    (σ σ0 σ2 : State F) (b : Nat) (c i : Int) (ws : List Int) (w : Bool)
    (hnames : FlagNames l)
    (hpre : RunsL fuel (flagPre l k) σ σ0)
    (hfl : lookupVar σ0.vars (flagName l) = none ∨ FlagVar σ0 (flagName l))
    (happ : AppInv σ0 l b c ws) (hi : IntVar σ0 l.index i)
    (hi0 : -2147483648 ≤ i) (hi1 : i < 2147483648)
    (hn : (ws.length : Int) + 1 < 2147483648) (hov : c ≤ ws.length → 2 * c < 2147483648)
    (hin : RunsL fuel (innerStmts inner) (declFalse σ0 (flagName l)) σ2)
    (hfr : InnerFrame l b σ0 σ2) (hw : BoolVar σ2 (flagName l) w) :
    ∃ o b' c', exec fuel (flagBranch l k inner) σ = .ok o ∧ o.ret = none ∧
      AppInv o.st l b' c' (if w then ws ++ [i] else ws) ∧
      (w = false → o.st = σ2) ∧ o.st.tensors = σ2.tensors ∧
      (∀ j blk, j ≠ b → σ2.heap[j]? = some blk → o.st.heap[j]? = some blk ∧ j ≠ b') ∧
      (∀ x, x ≠ crdName l.tensor.name l.layer → x ≠ crdCapName l.tensor.name l.layer → x ≠ l.ptr →
        lookupVar o.st.vars x = lookupVar σ2.vars x) := by
  obtain ⟨σ3, b', c', ⟨o, e, r, s⟩, h1, h2, h3, h4, h5⟩ := flagBranch_app l k hk inner fuel σ σ0 σ2 b c i
    ws w hnames hpre hfl happ hi hi0 hi1 hn hov hin hfr hw
  subst s
  exact ⟨o, b', c', e, r, h1, h2, h3, h4, h5⟩

/-! ### F3: INNER = the terminal block (one compressed output level) -/

/-- **F3, assembling kernels (`assemble`, `evaluate`).** `l` is the LAST level of the output and is
compressed; INNER is what `lower` emits for `.terminal e` at the append output past that level. Let
`σ0` be the state after `PRE`, in which: the flag of the level is undeclared or a `bool` and every
other written flag of the output (enclosing compressed levels) is a `bool`; `AppInv`: the `crd` array
holds the coordinates `ws` stored so far and the cursor is `|ws|`; the index variable holds the int32
`i`; no overflow (`|ws| + 1 < 2^31`, `2 * c < 2^31` if the array is full); and — computing kernels
only — `ValsReady`: E1's hypotheses `LeafOK` for every tensor occurrence of `e`, finiteness, and cell
`off + |ws|` of the output's `vals` block `bo` may be stored to. Names: the four names of the
coordinate store are distinct and no `written_*` name is the index variable (`FlagNamesAll`; true
when the index name contains no `'_'`). Then `lower` succeeds on the terminal, the branch runs without
error, and afterwards
* the `crd` array holds `ws ++ [i]` if `e ≠ Integer 0` and `ws` otherwise (`AppInv` again): THE
  COORDINATE IS APPENDED IFF THE EXPRESSION OF THE BRANCH IS NOT THE LITERAL ZERO;
* (computing kernels) `vals[|ws|]` holds the carrier meaning `valueF ofRat ρ e`;
* if `e ≠ Integer 0`, ALL written flags of the output hold `true` (the enclosing levels see it);
  the flag of the level holds `e ≠ Integer 0`;
* frame relative to `σ0`: every variable other than `crd`, `crd_capacity`, the cursor and the flags
  set; every heap block other than the `crd` and `vals` blocks; the attributes and length of the
  `vals` block; the tensor records. -/
theorem flag_terminal_sound (ofRat : Rat → F) (ρ : String → F) (e : IdExpr) (l : Leaf) (k : Kind)
    (hk : k.isAssemble = true) (n fuel : Nat) (σ σ0 : State F) (b : Nat) (c i : Int) (ws : List Int)
    (bo : Nat) (off : Int)
    (hlast : l.layer + 1 = l.tensor.indexes.length) (hmode : l.mode = .compressed)
    (hnames : FlagNamesAll l)
    (hpre : RunsL fuel (flagPre l k) σ σ0)
    (hfl0 : lookupVar σ0.vars (flagName l) = none ∨ FlagVar σ0 (flagName l))
    (hflags : ∀ g ∈ (Output.append l.tensor l.tensor.indexes.length).writtenFlags, g ≠ flagName l →
      FlagVar σ0 g)
    (happ : AppInv σ0 l b c ws) (hi : IntVar σ0 l.index i)
    (hi0 : -2147483648 ≤ i) (hi1 : i < 2147483648)
    (hn : (ws.length : Int) + 1 < 2147483648) (hov : c ≤ ws.length → 2 * c < 2147483648)
    (hc : k.isCompute = true → ValsReady ofRat ρ e l.tensor σ0 bo off ws.length) :
    ∃ inner o b' c',
      lower ofRat (n + 1) (.terminal e) (.append l.tensor l.tensor.indexes.length) k = .ok inner ∧
      exec fuel (flagBranch l k inner) σ = .ok o ∧ o.ret = none ∧
      AppInv o.st l b' c' (if e ≠ .int 0 then ws ++ [i] else ws) ∧
      (k.isCompute = true → FloatCell o.st bo (off + ws.length) (valueF ofRat ρ e)) ∧
      (e ≠ .int 0 → ∀ g ∈ (Output.append l.tensor l.tensor.indexes.length).writtenFlags, FlagTrue o.st g) ∧
      BoolVar o.st (flagName l) (decide (e ≠ .int 0)) ∧
      (∀ x, x ≠ crdName l.tensor.name l.layer → x ≠ crdCapName l.tensor.name l.layer → x ≠ l.ptr →
        x ≠ flagName l → x ∉ activeFlags e (.append l.tensor l.tensor.indexes.length) →
        lookupVar o.st.vars x = lookupVar σ0.vars x) ∧
      (∀ j blk, j ≠ b → j ≠ bo → σ0.heap[j]? = some blk → o.st.heap[j]? = some blk ∧ j ≠ b') ∧
      (∀ blk, bo ≠ b → σ0.heap[bo]? = some blk → bo ≠ b' ∧ ∃ blk', o.st.heap[bo]? = some blk' ∧
        blk'.ty = blk.ty ∧ blk'.owner = blk.owner ∧ blk'.live = blk.live ∧
        blk'.cells.length = blk.cells.length) ∧
      o.st.tensors = σ0.tensors := by
  obtain ⟨inner, σ3, b', c', h0, ⟨o, e1, r, s⟩, h1, h2, h3, h4, h5, h6, h7, h8⟩ :=
    flagTerminal_app ofRat ρ e l k hk n fuel σ σ0 b c i ws bo off hlast hmode hnames hpre hfl0 hflags
      happ hi hi0 hi1 hn hov hc
  subst s
  exact ⟨inner, o, b', c', h0, e1, r, h1, h2, h3, h4, h5, h6, h7, h8⟩

/-- **F3 from the state BEFORE the branch** (assembling kernels, last output level, `PRE` included):
a loop-invariant step. In `σ`: the `vals` array of the output satisfies the array invariant (block
`bv`, capacity `cv`), `AppInv` for the `crd` array with the stored coordinates `ws`, `|ws| ≤ cv`, no
overflow when either array is full, the flags as in `flag_terminal_sound`, and — computing kernels —
every tensor occurrence of `e` is `LeafAway`: `LeafOK` with a tensor name other than the output's and
a block other than `bv`. Then `lower` succeeds on the terminal and the whole branch runs; afterwards
BOTH invariants hold again (`vals`: block `bv'`, capacity `cv' > |ws|`), the coordinate list is
`ws ++ [i]` iff `e ≠ Integer 0`, and (computing kernels) `vals[|ws|] = valueF ofRat ρ e`; if
`e ≠ Integer 0` ALL written flags of the output hold `true`; every variable other than `crd`,
`crd_capacity`, cursor, `vals`, `vals_capacity` and the flags set, and every block of the initial heap
other than the `crd` and `vals` blocks, is unchanged (and is neither of the two new array blocks). -/
theorem flag_terminal_from_start (ofRat : Rat → F) (ρ : String → F) (e : IdExpr) (l : Leaf) (k : Kind)
    (hk : k.isAssemble = true) (n fuel : Nat) (σ : State F) (b : Nat) (c i : Int) (ws : List Int)
    (bv : Nat) (cv : Int)
    (hlast : l.layer + 1 = l.tensor.indexes.length) (hmode : l.mode = .compressed)
    (hnames : FlagNamesAll l)
    (hidxv : l.index ≠ valsName l.tensor.name ∧ l.index ≠ valsCapName l.tensor.name)
    (hfl0 : lookupVar σ.vars (flagName l) = none ∨ FlagVar σ (flagName l))
    (hflags : ∀ g ∈ (Output.append l.tensor l.tensor.indexes.length).writtenFlags, g ≠ flagName l →
      FlagVar σ g)
    (hvals : ArrInv σ (valsName l.tensor.name) (valsCapName l.tensor.name) .float bv cv)
    (happ : AppInv σ l b c ws) (hi : IntVar σ l.index i)
    (hi0 : -2147483648 ≤ i) (hi1 : i < 2147483648)
    (hn : (ws.length : Int) + 1 < 2147483648) (hov : c ≤ ws.length → 2 * c < 2147483648)
    (hcv : (ws.length : Int) ≤ cv) (hovv : cv ≤ ws.length → 2 * cv < 2147483648)
    (hc : k.isCompute = true → AllFinite ofRat ρ e ∧ ∀ s ∈ leaves e, LeafAway σ ρ l.tensor.name bv s) :
    ∃ inner o b' c' bv' cv',
      lower ofRat (n + 1) (.terminal e) (.append l.tensor l.tensor.indexes.length) k = .ok inner ∧
      exec fuel (flagBranch l k inner) σ = .ok o ∧ o.ret = none ∧
      AppInv o.st l b' c' (if e ≠ .int 0 then ws ++ [i] else ws) ∧
      ArrInv o.st (valsName l.tensor.name) (valsCapName l.tensor.name) .float bv' cv' ∧
      (ws.length : Int) < cv' ∧
      (k.isCompute = true → FloatCell o.st bv' ws.length (valueF ofRat ρ e)) ∧
      o.st.tensors = σ.tensors ∧
      (e ≠ .int 0 → ∀ g ∈ (Output.append l.tensor l.tensor.indexes.length).writtenFlags, FlagTrue o.st g) ∧
      (∀ x, x ≠ crdName l.tensor.name l.layer → x ≠ crdCapName l.tensor.name l.layer → x ≠ l.ptr →
        x ≠ flagName l → x ∉ activeFlags e (.append l.tensor l.tensor.indexes.length) →
        x ≠ valsName l.tensor.name → x ≠ valsCapName l.tensor.name →
        lookupVar o.st.vars x = lookupVar σ.vars x) ∧
      (∀ j blk, j ≠ b → j ≠ bv → σ.heap[j]? = some blk →
        o.st.heap[j]? = some blk ∧ j ≠ b' ∧ j ≠ bv') := by
  obtain ⟨inner, σ3, b', c', bv', cv', h0, ⟨o, e1, r, s⟩, h1, h2, h3, h4, h5⟩ :=
    flagTerminal_from_start ofRat ρ e l k hk n fuel σ b c i ws bv cv hlast hmode hnames hidxv hfl0 hflags
      hvals happ hi hi0 hi1 hn hov hcv hovv hc
  subst s
  exact ⟨inner, o, b', c', bv', cv', h0, e1, r, h1, h2, h3, h4, h5⟩

/-- **F3, computing-only kernel (`compute`).** The coordinates were stored by the assembling kernel;
here the branch is `bool written = false; TERMINAL; if (written) p++`. From every state in which the
flags are as above, the cursor holds `0 ≤ p`, `p + 1 < 2^31`, and `ValsReady` holds for cell
`off + p` of the `vals` block: `lower` succeeds, the branch runs, the cursor ends at
`p + (if e ≠ Integer 0 then 1 else 0)`, `vals[p]` holds the meaning of `e`, the heap is the initial
heap with that one cell overwritten (in particular every `crd`/`pos` array is untouched), tensor records
are unchanged, and every variable other than the cursor and the flags is unchanged. -/
theorem flag_terminal_compute_sound (ofRat : Rat → F) (ρ : String → F) (e : IdExpr) (l : Leaf) (k : Kind)
    (hka : k.isAssemble = false) (hkc : k.isCompute = true) (n fuel : Nat) (σ : State F)
    (p : Int) (bo : Nat) (off : Int)
    (hlast : l.layer + 1 = l.tensor.indexes.length) (hmode : l.mode = .compressed)
    (hfl0 : lookupVar σ.vars (flagName l) = none ∨ FlagVar σ (flagName l))
    (hflags : ∀ g ∈ (Output.append l.tensor l.tensor.indexes.length).writtenFlags, g ≠ flagName l →
      FlagVar σ g)
    (hp : IntVar σ l.ptr p) (hp0 : 0 ≤ p) (hp1 : p + 1 < 2147483648)
    (hc : ValsReady ofRat ρ e l.tensor σ bo off p) :
    ∃ inner o,
      lower ofRat (n + 1) (.terminal e) (.append l.tensor l.tensor.indexes.length) k = .ok inner ∧
      exec fuel (flagBranch l k inner) σ = .ok o ∧ o.ret = none ∧
      IntVar o.st l.ptr (p + if e ≠ .int 0 then 1 else 0) ∧
      FloatCell o.st bo (off + p) (valueF ofRat ρ e) ∧
      o.st.heap = (writeCell σ bo (off + p) (.flt (valueF ofRat ρ e))).heap ∧
      o.st.tensors = σ.tensors ∧
      (∀ x, x ≠ l.ptr → x ≠ flagName l → x ∉ activeFlags e (.append l.tensor l.tensor.indexes.length) →
        lookupVar o.st.vars x = lookupVar σ.vars x) := by
  obtain ⟨inner, σ3, h0, ⟨o, e1, r, s⟩, h1, h2, h3, h4, h5⟩ :=
    flagTerminal_compute ofRat ρ e l k hka hkc n fuel σ p bo off hlast hmode hfl0 hflags hp hp0 hp1 hc
  subst s
  exact ⟨inner, o, h0, e1, r, h1, h2, h3, h4, h5⟩

/-- **C03 for one compressed output level, on the machine.** In the lattice branch in which the
tensors `absent` have been exhausted, the expression of the branch is `exhaustAll e0 absent`
(`lower_oneLevel_flagBranch`). Under the hypotheses of `flag_terminal_sound` for that expression: the
coordinate `i` is appended to the `crd` array IFF the ORIGINAL expression `e0` has structural support
at the operands present in this branch in the exact sense `presentStructT` (`Lemmas/GraphAlg.lean`;
`exhaustAll_eq_zero_iff`); and whenever it is appended — i.e. whenever the cursor has advanced — `e0`
has structural support in the sense `presentStruct` of C03 (tensors by presence, products need both
factors, sums either summand): an absent operand of a product, an empty contraction, an empty row never
materialise a stored coordinate. -/
theorem flag_terminal_support (ofRat : Rat → F) (ρ : String → F) (e0 : IdExpr) (absent : List String)
    (l : Leaf) (k : Kind)
    (hk : k.isAssemble = true) (n fuel : Nat) (σ σ0 : State F) (b : Nat) (c i : Int) (ws : List Int)
    (bo : Nat) (off : Int)
    (hlast : l.layer + 1 = l.tensor.indexes.length) (hmode : l.mode = .compressed)
    (hnames : FlagNamesAll l)
    (hpre : RunsL fuel (flagPre l k) σ σ0)
    (hfl0 : lookupVar σ0.vars (flagName l) = none ∨ FlagVar σ0 (flagName l))
    (hflags : ∀ g ∈ (Output.append l.tensor l.tensor.indexes.length).writtenFlags, g ≠ flagName l →
      FlagVar σ0 g)
    (happ : AppInv σ0 l b c ws) (hi : IntVar σ0 l.index i)
    (hi0 : -2147483648 ≤ i) (hi1 : i < 2147483648)
    (hn : (ws.length : Int) + 1 < 2147483648) (hov : c ≤ ws.length → 2 * c < 2147483648)
    (hc : k.isCompute = true →
      ValsReady ofRat ρ (exhaustAll e0 absent) l.tensor σ0 bo off ws.length) :
    ∃ inner o b' c',
      lower ofRat (n + 1) (.terminal (exhaustAll e0 absent))
        (.append l.tensor l.tensor.indexes.length) k = .ok inner ∧
      exec fuel (flagBranch l k inner) σ = .ok o ∧ o.ret = none ∧
      AppInv o.st l b' c'
        (if presentStructT (fun id => !absent.contains id) e0 = true then ws ++ [i] else ws) ∧
      (IntVar o.st l.ptr (ws.length + 1) → presentStruct (fun id => !absent.contains id) e0 = true) := by
  obtain ⟨inner, o, b', c', h0, e1, r, h1, _⟩ := flag_terminal_sound ofRat ρ (exhaustAll e0 absent) l k hk
    n fuel σ σ0 b c i ws bo off hlast hmode hnames hpre hfl0 hflags happ hi hi0 hi1 hn hov hc
  have hiff := exhaustAll_eq_zero_iff e0 absent
  by_cases hz : exhaustAll e0 absent = .int 0
  · have hf : presentStructT (fun id => !absent.contains id) e0 = false := hiff.1 hz
    have h1' : AppInv o.st l b' c' ws := by simpa [hz] using h1
    refine ⟨inner, o, b', c', h0, e1, r, by rw [hf]; exact h1', ?_⟩
    intro hp
    have hq : IntVar o.st l.ptr ws.length := by simpa [hz] using h1.ptr
    have := hp.unique hq
    omega
  · have ht : presentStructT (fun id => !absent.contains id) e0 = true := by
      cases h : presentStructT (fun id => !absent.contains id) e0 with
      | true => rfl
      | false => exact absurd (hiff.2 h) hz
    have h1' : AppInv o.st l b' c' (ws ++ [i]) := by simpa [hz] using h1
    exact ⟨inner, o, b', c', h0, e1, r, by rw [ht]; exact h1',
      fun _ => exhaust_nonzero_support e0 absent hz⟩

/-- **C03, one compressed output level, from `lower` to the machine.** Let `lower` succeed on the graph
`.iter i (some l) (.terminal e0)` at the last, compressed level of the output. Then for every lattice
branch `ss` that is not skipped (of every sub-node that is not skipped) there are a list `refs` of
exhausted tensors, none of which is co-iterated in the branch, and the terminal block `INNER` of
`exhaustAll e0 refs`, such that `if (branchCond ss i) flagBranch l k INNER` is one of the emitted
branches AND, for every pair of states `σ`, `σ0` satisfying the hypotheses of `flag_terminal_sound`
for that expression, running that very statement appends the coordinate `i` iff `e0` has structural
support at the operands not exhausted (`presentStructT`), and only if it has structural support in the
sense of C03 (`presentStruct`). -/
theorem c03_one_level (ofRat : Rat → F) (ρ : String → F) (k : Kind) (hk : k.isAssemble = true)
    (n : Nat) (i : String) (l : Leaf) (e0 : IdExpr) (b : SB F)
    (hlast : l.layer + 1 = l.tensor.indexes.length) (hmode : l.mode = .compressed)
    (hnames : FlagNamesAll l)
    (h : lower ofRat (n + 2) (.iter i (some l) (.terminal e0)) (.append l.tensor l.layer) k = .ok b) :
    ∀ sub ∈ generateSubgraphs (.iter i (some l) (.terminal e0)),
      skipped (.iter i (some l) (.terminal e0)) sub = false →
      ∃ s ∈ b.lines, ∃ leaves c bpre bpost,
        s = .loop c (.block (bpre ++ branchJoin leaves :: bpost) none) ∧
        ∀ ss ∈ generateSubgraphs sub, skipped (.iter i (some l) (.terminal e0)) ss = false →
          ∃ refs inner, ss = .iter i (some l) (.terminal (exhaustAll e0 refs)) ∧
            (∀ r ∈ refs, r ∉ compressedDims ss) ∧
            ((branchCond ss i, flagBranch l k inner) : Expr F × Stmt F) ∈ leaves ∧
            ∀ (fuel : Nat) (σ σ0 : State F) (bc : Nat) (cc iv : Int) (ws : List Int) (bo : Nat) (off : Int),
              RunsL fuel (flagPre l k) σ σ0 →
              (lookupVar σ0.vars (flagName l) = none ∨ FlagVar σ0 (flagName l)) →
              (∀ g ∈ (Output.append l.tensor l.tensor.indexes.length).writtenFlags, g ≠ flagName l →
                FlagVar σ0 g) →
              AppInv σ0 l bc cc ws → IntVar σ0 l.index iv → -2147483648 ≤ iv → iv < 2147483648 →
              (ws.length : Int) + 1 < 2147483648 → (cc ≤ ws.length → 2 * cc < 2147483648) →
              (k.isCompute = true →
                ValsReady ofRat ρ (exhaustAll e0 refs) l.tensor σ0 bo off ws.length) →
              ∃ o b' c', exec fuel (flagBranch l k inner) σ = .ok o ∧ o.ret = none ∧
                AppInv o.st l b' c'
                  (if presentStructT (fun id => !refs.contains id) e0 = true then ws ++ [iv] else ws) ∧
                (IntVar o.st l.ptr (ws.length + 1) →
                  presentStruct (fun id => !refs.contains id) e0 = true) := by
  intro sub hsub hsk
  obtain ⟨s, hs, leaves, c, bpre, bpost, e, hall⟩ :=
    lower_oneLevel_flagBranch ofRat k n i l e0 b hlast hmode h sub hsub hsk
  refine ⟨s, hs, leaves, c, bpre, bpost, e, ?_⟩
  intro ss hss hsk2
  obtain ⟨refs, inner, h1, h2, h3, h4⟩ := hall ss hss hsk2
  refine ⟨refs, inner, h1, h2, h4, ?_⟩
  intro fuel σ σ0 bc cc iv ws bo off hpre hfl0 hflags happ hi hi0 hi1 hn hov hc
  obtain ⟨inner', o, b', c', g0, g1, g2, g3, g4⟩ := flag_terminal_support ofRat ρ e0 refs l k hk n fuel σ σ0
    bc cc iv ws bo off hlast hmode hnames hpre hfl0 hflags happ hi hi0 hi1 hn hov hc
  rw [h3] at g0
  cases g0
  exact ⟨o, b', c', g1, g2, g3, g4⟩


/-! ### F4: nested flags -/

/-- **F4.** Two compressed output levels `l1` (outer) and `l2 = l1 + 1` (the LAST level) of the same
tensor; the outer branch is `flagBranch l1 k INNER1` where `INNER1` is one inner branch
`flagBranch l2 k TERMINAL` around the terminal block of `e` (assembling kernels). Let `σ0` be the state
after the outer `PRE`, in which: both flags are undeclared or `bool`s, every other written flag of the
output is a `bool`; the `vals` array satisfies the array invariant; `AppInv` holds for BOTH `crd` arrays
(stored coordinates `ws1`, `ws2`, distinct blocks), the index variables hold the int32 values `i1`, `i2`;
no overflow; `|ws2| ≤` the `vals` capacity; (computing kernels) every tensor occurrence of `e` is
`LeafAway`. Index names contain no `'_'` (all other name distinctness is proved from the naming scheme:
`crossNames_of`). Then `lower` succeeds on the terminal, the nested statement runs without error, and
afterwards BOTH arrays satisfy `AppInv` again with
`ws1 ++ [i1]`, `ws2 ++ [i2]` if `e ≠ Integer 0` and `ws1`, `ws2` otherwise:
the terminal raises ALL enclosing flags (`Output.writtenFlags`), so THE OUTER COORDINATE IS APPENDED IFF
THE INNER TERMINAL WAS NON-ZERO — an outer row whose only inner branch computes the literal zero stores
neither an inner nor an outer coordinate. -/
theorem flag_nested_sound (ofRat : Rat → F) (ρ : String → F) (e : IdExpr) (l1 l2 : Leaf) (k : Kind)
    (hk : k.isAssemble = true) (n fuel : Nat) (σ σ0 : State F)
    (b1 : Nat) (c1 i1 : Int) (ws1 : List Int) (b2 : Nat) (c2 i2 : Int) (ws2 : List Int)
    (bv : Nat) (cv : Int)
    (ht : l1.tensor = l2.tensor) (hl : l2.layer = l1.layer + 1)
    (hlast : l2.layer + 1 = l2.tensor.indexes.length)
    (hm1 : l1.mode = .compressed) (hm2 : l2.mode = .compressed)
    (hx1 : '_' ∉ l1.index.toList) (hx2 : '_' ∉ l2.index.toList)
    (hpre : RunsL fuel (flagPre l1 k) σ σ0)
    (hf1 : lookupVar σ0.vars (flagName l1) = none ∨ FlagVar σ0 (flagName l1))
    (hf2 : lookupVar σ0.vars (flagName l2) = none ∨ FlagVar σ0 (flagName l2))
    (hflags : ∀ g ∈ (Output.append l2.tensor l2.tensor.indexes.length).writtenFlags,
      g ≠ flagName l1 → g ≠ flagName l2 → FlagVar σ0 g)
    (hvals : ArrInv σ0 (valsName l2.tensor.name) (valsCapName l2.tensor.name) .float bv cv)
    (happ1 : AppInv σ0 l1 b1 c1 ws1) (hi1 : IntVar σ0 l1.index i1)
    (hi10 : -2147483648 ≤ i1) (hi11 : i1 < 2147483648)
    (hn1 : (ws1.length : Int) + 1 < 2147483648) (hov1 : c1 ≤ ws1.length → 2 * c1 < 2147483648)
    (happ2 : AppInv σ0 l2 b2 c2 ws2) (hi2 : IntVar σ0 l2.index i2)
    (hi20 : -2147483648 ≤ i2) (hi21 : i2 < 2147483648)
    (hn2 : (ws2.length : Int) + 1 < 2147483648) (hov2 : c2 ≤ ws2.length → 2 * c2 < 2147483648)
    (hcv : (ws2.length : Int) ≤ cv) (hovv : cv ≤ ws2.length → 2 * cv < 2147483648)
    (hb12 : b1 ≠ b2)
    (hc : k.isCompute = true → AllFinite ofRat ρ e ∧ ∀ s ∈ leaves e, LeafAway σ0 ρ l2.tensor.name bv s) :
    ∃ inner o b1' c1' b2' c2',
      lower ofRat (n + 1) (.terminal e) (.append l2.tensor l2.tensor.indexes.length) k = .ok inner ∧
      exec fuel (flagBranch l1 k ⟨none, [flagBranch l2 k inner]⟩) σ = .ok o ∧ o.ret = none ∧
      AppInv o.st l1 b1' c1' (if e ≠ .int 0 then ws1 ++ [i1] else ws1) ∧
      AppInv o.st l2 b2' c2' (if e ≠ .int 0 then ws2 ++ [i2] else ws2) ∧
      o.st.tensors = σ0.tensors := by
  obtain ⟨inner, σ3, b1', c1', b2', c2', h0, ⟨o, e1, r, s⟩, h1, h2, h3⟩ :=
    flagNested_app ofRat ρ e l1 l2 k hk n fuel σ σ0 b1 c1 i1 ws1 b2 c2 i2 ws2 bv cv ht hl hlast hm1 hm2
      hx1 hx2 hpre hf1 hf2 hflags hvals happ1 hi1 hi10 hi11 hn1 hov1 happ2 hi2 hi20 hi21 hn2 hov2 hcv
      hovv hb12 hc
  subst s
  exact ⟨inner, o, b1', c1', b2', c2', h0, e1, r, h1, h2, h3⟩

/-! ### non-vacuity: `a(i) = b(i) * c(i)`, all vectors compressed, carrier `Int`, `evaluate` kernel.
State `Ex.σF`: one entry stored so far (`a_0_crd = [3]`, `a_vals = [9]`, both arrays FULL at capacity 1,
cursor 1), `b = 4`, `c = 5` at the current positions, `i = 7`, flag not yet declared. -/

open TV.ToIr.Ex

/-- **the branch in which `c` is exhausted**: `exhaust` simplifies `b * 0` to the literal `Integer 0`,
the terminal block raises no flag, NOTHING is appended: the `crd` array still holds `[3]` — although the
kernel did store the value `0` in the (grown) `vals` array at the cursor, the cursor does not move -/
example : ∃ inner o b' c' bv' cv',
    lower ofRatInt 1 (.terminal (exhaustAll Ex.eMul ["c0"])) (.append ta 1) .evaluate = .ok inner ∧
    exec 0 (flagBranch Ex.la .evaluate inner) Ex.σF = .ok o ∧ o.ret = none ∧
    AppInv o.st Ex.la b' c' [3] ∧ IntVar o.st "p_a0_0" 1 ∧
    ArrInv o.st "a_vals" "a_vals_capacity" .float bv' cv' := by
  obtain ⟨inner, o, b', c', bv', cv', h0, h1, h2, h3, h4, _⟩ :=
    flag_terminal_from_start ofRatInt ρI (exhaustAll Ex.eMul ["c0"]) Ex.la .evaluate rfl 0 0 Ex.σF 3 1 7 [3]
      2 1 Ex.la_last Ex.la_mode Ex.la_names Ex.la_idxv Ex.σF_flag Ex.σF_flags Ex.σF_vals Ex.σF_app
      Ex.σF_idx (by decide) (by decide) (by decide) (by decide) (by decide) (by decide)
      (fun _ => ⟨allFinite_int .., Ex.σF_away _ Ex.zero_leaves⟩)
  have h3' : AppInv o.st Ex.la b' c' [3] := by simpa [Ex.eMul_exhaust_c] using h3
  exact ⟨inner, o, b', c', bv', cv', h0, h1, h2, h3', h3'.ptr, h4⟩

/-- **the branch `b ∧ c`**: the expression `b * c` is not the literal zero, the flag is raised, the
coordinate 7 is appended (`crd` reallocated from capacity 1), the cursor moves to 2, and
`vals[1] = 4 * 5 = 20` (`vals` reallocated too) -/
example : ∃ inner o b' c' bv' cv',
    lower ofRatInt 1 (.terminal Ex.eMul) (.append ta 1) .evaluate = .ok inner ∧
    exec 0 (flagBranch Ex.la .evaluate inner) Ex.σF = .ok o ∧ o.ret = none ∧
    AppInv o.st Ex.la b' c' [3, 7] ∧ IntVar o.st "p_a0_0" 2 ∧
    ArrInv o.st "a_vals" "a_vals_capacity" .float bv' cv' ∧ FloatCell o.st bv' 1 20 := by
  obtain ⟨inner, o, b', c', bv', cv', h0, h1, h2, h3, h4, _, h6, _⟩ :=
    flag_terminal_from_start ofRatInt ρI Ex.eMul Ex.la .evaluate rfl 0 0 Ex.σF 3 1 7 [3]
      2 1 Ex.la_last Ex.la_mode Ex.la_names Ex.la_idxv Ex.σF_flag Ex.σF_flags Ex.σF_vals Ex.σF_app
      Ex.σF_idx (by decide) (by decide) (by decide) (by decide) (by decide) (by decide)
      (fun _ => ⟨allFinite_int .., Ex.σF_away _ Ex.eMul_leaves⟩)
  have h3' : AppInv o.st Ex.la b' c' [3, 7] := by
    have : Ex.eMul ≠ .int 0 := by decide
    simpa [this] using h3
  have h6' := h6 rfl
  rw [Ex.valueMul] at h6'
  exact ⟨inner, o, b', c', bv', cv', h0, h1, h2, h3', h3'.ptr, h4, h6'⟩

/-- C03 on the example: with `c` absent the original expression `b * c` has no structural support,
with nothing absent it has -/
example : presentStruct (fun id => !["c0"].contains id) Ex.eMul = false ∧
    presentStructT (fun id => !["c0"].contains id) Ex.eMul = false ∧
    presentStructT (fun id => !([] : List String).contains id) Ex.eMul = true := by decide

/-- F1 is not vacuous: `lower` succeeds on the graph of `a(i) = b(i) * c(i)` (all kinds), the node itself
is a lattice branch that is not skipped, and its emitted statement is `flagBranch` around the terminal
block of `b * c`; the branch "c exhausted" is skipped altogether (`Ex.gMul_c_skipped`): in a sparse
iteration an absent operand of a product is not even visited. -/
example (k : Kind) : ∃ b, lower ofRatInt 2 Ex.gMul (.append ta 0) k = .ok b ∧
    ∃ s ∈ b.lines, ∃ leaves c bpre bpost,
      s = .loop c (.block (bpre ++ branchJoin leaves :: bpost) none) ∧
      ∃ refs inner, Ex.gMul = .iter "i" (some Ex.la) (.terminal (exhaustAll Ex.eMul refs)) ∧
        lower ofRatInt 1 (.terminal (exhaustAll Ex.eMul refs)) (.append ta 1) k = .ok inner ∧
        ((branchCond Ex.gMul "i", flagBranch Ex.la k inner) : Expr Int × Stmt Int) ∈ leaves := by
  obtain ⟨b, hb⟩ := lower_ok_of_lowerableX ofRatInt k 2 Ex.gMul (.append ta 0) (by decide) rfl (by decide)
  refine ⟨b, hb, ?_⟩
  obtain ⟨s, hs, leaves, c, bpre, bpost, e, hall⟩ :=
    lower_oneLevel_flagBranch ofRatInt k 0 "i" Ex.la Ex.eMul b Ex.la_last Ex.la_mode hb Ex.gMul
      (generateSubgraphs_self ..) Ex.gMul_self_not_skipped
  obtain ⟨refs, inner, h1, _, h3, h4⟩ := hall Ex.gMul (generateSubgraphs_self ..) Ex.gMul_self_not_skipped
  exact ⟨s, hs, leaves, c, bpre, bpost, e, refs, inner, h1, h3, h4⟩

/-- F2 with an INNER that is not a terminal block: `written_a_0 = true;` in a computing-only kernel
(`PRE` is empty): the cursor advances; with the empty INNER it does not -/
example : (∃ o, exec 0 (flagBranch Ex.la .compute ⟨none, [flagStmt (flagName Ex.la)]⟩) Ex.σF = .ok o ∧
      o.ret = none ∧ IntVar o.st "p_a0_0" 2) ∧
    (∃ o, exec 0 (flagBranch Ex.la .compute (⟨none, []⟩ : SB Int)) Ex.σF = .ok o ∧
      o.ret = none ∧ IntVar o.st "p_a0_0" 1 ∧ o.st = declFalse Ex.σF (flagName Ex.la)) := by
  have hf := declFalse_flag Ex.σF (flagName Ex.la) Ex.σF_flag
  have hsb := declFalse_sameBut Ex.σF (flagName Ex.la)
  constructor
  · have hrun : RunsL 0 (innerStmts (⟨none, [flagStmt (flagName Ex.la)]⟩ : SB Int))
        (declFalse Ex.σF (flagName Ex.la)) _ :=
      RunsL.cons (flagStmt_runs hf.flagVar) (RunsL.nil ..)
    obtain ⟨o, e, r, hp, _⟩ := flag_branch_sound Ex.la .compute ⟨none, [flagStmt (flagName Ex.la)]⟩ 0
      Ex.σF Ex.σF _ 3 1 1 7 true (RunsL.nil ..) Ex.σF_flag Ex.σF_app.ptr (by decide) (by decide)
      (fun h => by cases h) hrun
      ⟨by rw [← hsb.vars _ (flagName_ne_crd Ex.la).symm]; exact lookupVar_setVar_other _ (flagName_ne_crd Ex.la).symm,
       by rw [← hsb.vars _ (flagName_ne_cap Ex.la).symm]; exact lookupVar_setVar_other _ (flagName_ne_cap Ex.la).symm,
       by rw [← hsb.vars _ (flagName_ne_ptr Ex.la).symm]; exact lookupVar_setVar_other _ (flagName_ne_ptr Ex.la).symm,
       by rw [← hsb.vars _ (show Ex.la.index ≠ flagName Ex.la by decide)]
          exact lookupVar_setVar_other _ (show Ex.la.index ≠ flagName Ex.la by decide),
       by show (declFalse Ex.σF (flagName Ex.la)).heap[3]? = _; rw [hsb.heap]⟩
      (by obtain ⟨r, e1, e2, _⟩ := hf; exact ⟨_, lookupVar_setVar_same _ e1, e2, rfl⟩)
    exact ⟨o, e, r, hp⟩
  · obtain ⟨o, e, r, hp, hs, _⟩ := flag_branch_sound Ex.la .compute (⟨none, []⟩ : SB Int) 0
      Ex.σF Ex.σF (declFalse Ex.σF (flagName Ex.la)) 3 1 1 7 false (RunsL.nil ..) Ex.σF_flag
      Ex.σF_app.ptr (by decide) (by decide) (fun h => by cases h) (RunsL.nil ..)
      ⟨hsb.vars _ (flagName_ne_crd Ex.la).symm, hsb.vars _ (flagName_ne_cap Ex.la).symm,
       hsb.vars _ (flagName_ne_ptr Ex.la).symm, hsb.vars _ (by decide), by rw [hsb.heap]⟩ hf
    exact ⟨o, e, r, hp, hs rfl⟩

/-- F4 on `a(i,j)` (format `ss`, `assemble` kernel, state `Ex.σN`: `a_0_crd = [3]`, `a_1_crd = [5]`,
`i = 4`, `j = 6`): a non-zero inner terminal appends at BOTH levels, the literal zero at NEITHER -/
example : (∃ inner o b1' c1' b2' c2',
      lower ofRatInt 1 (.terminal Ex.eMul) (.append Ex.ta2 2) .assemble = .ok inner ∧
      exec 0 (flagBranch Ex.l1 .assemble ⟨none, [flagBranch Ex.l2 .assemble inner]⟩) Ex.σN = .ok o ∧
      o.ret = none ∧ AppInv o.st Ex.l1 b1' c1' [3, 4] ∧ AppInv o.st Ex.l2 b2' c2' [5, 6]) ∧
    (∃ inner o b1' c1' b2' c2',
      lower ofRatInt 1 (.terminal (.int 0)) (.append Ex.ta2 2) .assemble = .ok inner ∧
      exec 0 (flagBranch Ex.l1 .assemble ⟨none, [flagBranch Ex.l2 .assemble inner]⟩) Ex.σN = .ok o ∧
      o.ret = none ∧ AppInv o.st Ex.l1 b1' c1' [3] ∧ AppInv o.st Ex.l2 b2' c2' [5]) := by
  have key := fun (e : IdExpr) => flag_nested_sound ofRatInt ρI e Ex.l1 Ex.l2 .assemble rfl 0 0 Ex.σN Ex.σN
    1 1 4 [3] 2 1 6 [5] 0 1 rfl rfl rfl rfl rfl (by decide) (by decide) Ex.σN_pre (.inl rfl) (.inl rfl)
    Ex.σN_flags Ex.σN_vals Ex.σN_app1 ⟨_, rfl, rfl, rfl⟩ (by decide) (by decide) (by decide) (by decide)
    Ex.σN_app2 ⟨_, rfl, rfl, rfl⟩ (by decide) (by decide) (by decide) (by decide) (by decide) (by decide)
    (by decide) (fun h => by cases h)
  constructor
  · obtain ⟨inner, o, b1', c1', b2', c2', h0, h1, h2, h3, h4, _⟩ := key Ex.eMul
    have hne : Ex.eMul ≠ .int 0 := by decide
    exact ⟨inner, o, b1', c1', b2', c2', h0, h1, h2, by simpa [hne] using h3, by simpa [hne] using h4⟩
  · obtain ⟨inner, o, b1', c1', b2', c2', h0, h1, h2, h3, h4, _⟩ := key (.int 0)
    exact ⟨inner, o, b1', c1', b2', c2', h0, h1, h2, by simpa using h3, by simpa using h4⟩

end TV.Flag
