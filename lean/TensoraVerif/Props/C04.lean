import TensoraVerif.Lemmas.FrameHeap
import TensoraVerif.Lemmas.FrameExamples

/-!
C04 — an allocation-free program (the syntactic certificate `Stmt.noAlloc` of `Model/IR.lean`,
checked on every compute kernel) cannot allocate, reallocate, free or resize anything: for all
states and all fuel, a successful run leaves the number of heap blocks and every block's length,
liveness, element type and owner unchanged.
-/
namespace TV.IR
variable {F : Type} [FloatOps F]

theorem noAlloc_sound (fuel : Nat) (s : Stmt F) (σ : State F) (o : Out F)
    (hc : s.noAlloc = true) (h : exec fuel s σ = .ok o) :
    o.st.heap.length = σ.heap.length ∧
    ∀ (b : Nat) (blk : Block F), σ.heap[b]? = some blk → ∃ blk', o.st.heap[b]? = some blk' ∧
      blk'.cells.length = blk.cells.length ∧ blk'.live = blk.live ∧ blk'.ty = blk.ty ∧
        blk'.owner = blk.owner :=
  exec_heapSame fuel s σ o hc h

/-! ### non-vacuity (over the exact carrier `F := Int`) -/

/-- a compute kernel (a loop writing an output array from an input array) carries the certificate
and runs to completion … -/
example : FrameEx.copyProg.noAlloc = true ∧ ∃ o, exec 3 FrameEx.copyProg FrameEx.st = .ok o ∧ o.iters = 2 :=
  ⟨by decide, FrameEx.copy_runs⟩

/-- … so `noAlloc_sound` applies: still two blocks afterwards. -/
example : ∃ o, exec 3 FrameEx.copyProg FrameEx.st = .ok o ∧ o.st.heap.length = 2 := by
  obtain ⟨o, h, _⟩ := FrameEx.copy_runs
  exact ⟨o, h, (noAlloc_sound 3 _ _ o (by decide) h).1⟩

/-- the certificate rejects a program that allocates, and that program does change the heap -/
example : FrameEx.growProg.noAlloc = false ∧
    ∃ o, exec 0 FrameEx.growProg FrameEx.st = .ok o ∧ o.st.heap.length = 4 :=
  ⟨by decide, FrameEx.grow_runs⟩

end TV.IR
