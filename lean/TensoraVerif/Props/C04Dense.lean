import TensoraVerif.Lemmas.AsmCmpDenseKernel
import TensoraVerif.Lemmas.AsmCmpCompose
import TensoraVerif.Props.C01DenseN
import TensoraVerif.Lemmas.AsmCmpDenseTermKernel
import TensoraVerif.Props.C01DenseTerm

/-!
# C04, end to end, for dense element-wise kernels of EVERY order (class `DenseN`)

"Running the assemble kernel and then the compute kernel on the same output yields exactly the structure and
values that the evaluate kernel yields; the compute kernel never changes or reallocates the structure it is
given, writes only inside the value array assemble sized, and can be re-run with inputs of identical structure
but different values" — proved ON THE MACHINE (`IR.exec`) for every kernel of the class of
`Props/C01DenseN.lean`: `out(i₁,…,iₙ) = e`, `n` arbitrary, `out` and every tensor of `e` dense at every level
and indexed by exactly `is = [i₁,…,iₙ]` (`DenseN.isLeaf`, `DenseN.isExpr`, graph `DenseN.graph is outT e`).
For an all-dense output the "structure" is only the value array of `Π d` cells.

* **D1** `denseN_generateIr_assemble_eq`, `denseN_generateIr_compute_eq` — what `generateIr` emits for the
  kinds `.assemble` / `.compute`, written out (`AsmCmpDense.kernelA`: NO loop at all — `lower` returns at the
  first node; `AsmCmpDense.kernelC`: the nest of `evaluate`, no `malloc`, no store into the record).
* **D2** `denseN_assemble_correct` — the assembling kernel from a kernel-call state (`DenseN.Init`), ANY fuel:
  returns `0` after ZERO loop iterations, the output record's `vals` points to a fresh, live, output-owned float
  block of exactly `Π d` UNINITIALISED cells, inputs and every other record untouched. No finiteness needed.
* **D3** `denseN_compute_correct` — the computing kernel from ANY kernel-call state whose output record's `vals`
  points to a live output-owned float block `ob` of at least `Π d` cells (`AsmCmpDense.InitC`): returns `0`,
  NO allocation, ALL records unchanged, every block other than `ob` unchanged, `ob[c] = valueF e` at cell `c`
  for `c < Π d`, the cells `≥ Π d` unchanged.
* **D4** `denseN_assemble_compute_eq_evaluate` — assemble, then compute in the next call (`AsmCmp.nextCall`)
  leaves EXACTLY the memory `evaluate` leaves from the same state: equal heaps, equal tensor records (so the
  same cells as `denseN_kernel_correct`); `denseN_compute_rerun` — after the caller overwrites the input
  VALUES a second compute call writes the new values into the same block, without allocation.
* **D5** `denseN_assemble_compute_exact` — over `Rat` the values are `Graph.value`.
* non-vacuity: the `n = 3` instance of `C01DenseN.lean` (`a(i,j,k) = b(i,j,k) * c(i,j,k) + 1`, dims `(2,1,2)`).

Second part (namespace `TV.DenseTerm`, at the end of the file): the same for ALL dense single-term contractions
(class `DenseTerm` of `Props/C01DenseTerm.lean`: matrix product, matrix–vector, dot product, …):
`denseTerm_generateIr_assemble_eq`, `denseTerm_generateIr_compute_eq`, `denseTerm_assemble_correct`,
`denseTerm_compute_correct`, `denseTerm_assemble_compute_eq_evaluate`, `denseTerm_compute_rerun`,
`denseTerm_assemble_compute_exact`; non-vacuity: the `2×3` times `3×2` matrix product.

Vocabulary: `Lemmas/AsmCmpDenseGenerate.lean` (`asmSB`, `kernelA`, `kernelC`), `Lemmas/AsmCmpDenseKernel.lean`
(`KernelPostA`, `InitC`, `KernelPostC`), `DenseN.Init`, `DenseN.KernelOK`, `DenseN.Fits`, `DenseN.prod`,
`DenseN.fuelNeed`, `DenseN.iterCount` as in `C01DenseN.lean`; `AsmCmp.nextCall σ σ'` = the parameter
environment of `σ` with heap and records of `σ'`.
-/
namespace TV.DenseN
open TV.IR TV.Gen TV.Graph TV.Growth TV.AsmCmpDense
open TV.Dense1 (leaves valueF allFinite)

variable {F : Type} [FloatOps F]

/-! ### D1: what the pass emits -/

/-- **The generated `assemble` kernel.** Under the hypotheses of `denseN_generateIr_eq` (the right-hand side
need not even be of the class), `generateIr … .assemble` succeeds and returns exactly `AsmCmpDense.kernelA`:
`{ int i₁_dim = out->dimensions[0]; …; double* t_vals = t->vals; …; int out_vals_capacity = 1 *
out->dimensions[0] * … * out->dimensions[n-1]; out_vals = malloc(…); { /* empty */ } out->vals = out_vals;
return 0; }` — NO loop, the right-hand side `e` does not occur. -/
theorem denseN_generateIr_assemble_eq (ofRat : Rat → F) (cap : Option Int) (a : Alg.DAssign)
    (formats : Formats) (is : List String) (outT : TensorId) (e : IdExpr)
    (hout : tensorId 0 a.tname formats a.tidx = some outT)
    (ho : isLeaf is outT = true) (hnd : is.Nodup)
    (hf : Dense2.denseFormats formats = true)
    (hidx : a.tidx = is) (hrhs : rhsIdx is a.rhs = true) :
    generateIr ofRat cap a formats (graph is outT e) .assemble = .ok (kernelA formats is outT) :=
  generateIr_eqA ofRat cap a formats is outT e hout (Dense1.tensorId_name hout) ho hf
    (indexDimensions_eq a is hidx hnd hrhs)

/-- **The generated `compute` kernel.** Under the hypotheses of `denseN_generateIr_eq`, `generateIr … .compute`
succeeds and returns exactly `AsmCmpDense.kernelC`: `{ int i₁_dim = …; …; double* t_vals = t->vals; … (the
output's `out_vals = out->vals` among them); { /* empty "Output initialization" */ } <the loop nest
`DenseN.nestSB` of evaluate>; { /* empty "Assembling output tensor" */ } return 0; }` — no `malloc`, no store
into the record; the initial capacity `cap` does not occur. -/
theorem denseN_generateIr_compute_eq (ofRat : Rat → F) (cap : Option Int) (a : Alg.DAssign)
    (formats : Formats) (is : List String) (outT : TensorId) (e : IdExpr)
    (hout : tensorId 0 a.tname formats a.tidx = some outT)
    (ho : isLeaf is outT = true) (he : isExpr is e = true) (hnd : is.Nodup)
    (hf : Dense2.denseFormats formats = true)
    (hidx : a.tidx = is) (hrhs : rhsIdx is a.rhs = true) :
    generateIr ofRat cap a formats (graph is outT e) .compute = .ok (kernelC ofRat formats is outT e) :=
  generateIr_eqC ofRat cap a formats is outT e hout (Dense1.tensorId_name hout) ho he hnd hf
    (indexDimensions_eq a is hidx hnd hrhs)

omit [FloatOps F] in
/-- **`lower … .assemble` emits no loop** on the class: an empty commented block, whatever the depth. -/
theorem denseN_lower_assemble_eq (ofRat : Rat → F) (k : Nat) (is : List String) (outT : TensorId) (e : IdExpr)
    (ho : isLeaf is outT = true) :
    lower ofRat (k + 1) (graph is outT e) (.append outT 0) .assemble = .ok (asmSB is) ∧
      (asmSB is : SB F).lines = [] :=
  ⟨lowerA_eq ofRat k is outT e ho, by cases is <;> rfl⟩

/-! ### D2: the assembling kernel -/

/-- **D2 (the generated `assemble` kernel is correct, every order).** Under the static hypotheses of
`denseN_kernel_correct` (N3) — `e` need not be of the class and no finiteness is needed —, let the dimension
values `ds = dims.map (·.2)` have all prefix products `< 2^31` (`Fits 1 ds`), each `d < 2^31`, and `σ` be a
kernel-call state as the driver builds it (`Init`). Then the function `generateIr … .assemble` produces runs
with ANY fuel WITHOUT ERROR, **returns `0`** after exactly **0 loop iterations**, and in the final state
* the output record is the initial one with `vals` = the base address of block `σ.heap.length`;
* that block is FRESH, live, output-owned, `float`, of EXACTLY `Π d` cells, all UNINITIALISED (`none`): the
  kernel allocates it and never stores into it;
* every block of the initial heap (all inputs) and every other tensor record is unchanged; exactly one block
  was allocated; no record was added. -/
theorem denseN_assemble_correct (ofRat : Rat → F) (cap : Option Int) (a : Alg.DAssign) (formats : Formats)
    (dims : List (String × Nat)) (outT : TensorId) (e : IdExpr)
    (hout : tensorId 0 a.tname formats a.tidx = some outT)
    (ho : isLeaf (dims.map (·.1)) outT = true)
    (hf : Dense2.denseFormats formats = true)
    (hidx : a.tidx = dims.map (·.1)) (hrhs : rhsIdx (dims.map (·.1)) a.rhs = true)
    (ok : KernelOK formats (dims.map (·.1)) outT e)
    (tix blkOf : String → Nat) (cellsOf : String → Nat → F) (σ : State F)
    (hfit : Fits 1 (dims.map (·.2))) (hd31 : ∀ p ∈ dims, p.2 < 2147483648)
    (hn31 : dims.length < 2147483648)
    (hinit : Init formats outT e (dims.map (·.2)) tix blkOf cellsOf σ)
    (f : Func F) (hgen : generateIr ofRat cap a formats (graph (dims.map (·.1)) outT e) .assemble = .ok f)
    (fuel : Nat) :
    ∃ o, exec fuel f.body σ = .ok o ∧ o.ret = some (.int 0) ∧ o.iters = 0 ∧
      (∃ tr, σ.tensors[tix outT.name]? = some tr ∧
        o.st.tensors[tix outT.name]? = some { tr with vals := .ptr σ.heap.length 0 }) ∧
      o.st.heap[σ.heap.length]? =
        some ⟨.float, List.replicate (prod (dims.map (·.2))) none, .output, true⟩ ∧
      (∀ b, b < σ.heap.length → o.st.heap[b]? = σ.heap[b]?) ∧
      o.st.heap.length = σ.heap.length + 1 ∧
      (∀ k', k' ≠ tix outT.name → o.st.tensors[k']? = σ.tensors[k']?) ∧
      o.st.tensors.length = σ.tensors.length := by
  rw [denseN_generateIr_assemble_eq ofRat cap a formats _ outT e hout ho ok.nodup hf hidx hrhs] at hgen
  cases hgen
  obtain ⟨o, eo, hret, hit, hp⟩ := kernelA_runs formats dims outT e ok hfit hd31 hn31 hinit fuel
  exact ⟨o, eo, hret, hit, hp.outRec, hp.blk, hp.heap, hp.heapLen, hp.otherRecs, hp.tlen⟩

/-! ### D3: the computing kernel -/

/-- **D3 (the generated `compute` kernel is correct, from ANY suitable state, every order).** Under the static
hypotheses of `denseN_kernel_correct`, let `σ` be a kernel-call state (`InitC`: the variables are exactly the
tensor parameters; the output record's `dimensions` block holds `ds` and its `vals` is the base address of block
`ob`, a live, output-owned `float` block of AT LEAST `Π d` cells — arbitrary contents; every tensor `t` of `e`
has `vals` pointing to a live float block `blkOf t ≠ ob` whose first `Π d` cells hold `cellsOf t`), with
`Fits 1 ds`, each `d < 2^31`, and every sub-result of `e` finite at every cell. This covers the state the
assembling kernel leaves (`denseN_assemble_compute_eq_evaluate`). Then the function `generateIr … .compute`
produces runs with any fuel `≥ Σ_l (d_l + 1)` WITHOUT ERROR, **returns `0`** after exactly `Σ_l Π_{k≤l} d_k`
loop iterations, and
* **no allocation**: the heap has the same length;
* **the structure is untouched**: ALL tensor records are unchanged (the output record keeps its `vals` — same
  block id), and every heap block other than `ob` is unchanged (every input, every `dimensions` block);
* **it writes only inside the value array**: block `ob` keeps type, owner, liveness and LENGTH; cell `c` holds
  `valueF ofRat (fun t => cellsOf t.name c) e` for every `c < Π d`; the cells `≥ Π d` are unchanged. -/
theorem denseN_compute_correct (ofRat : Rat → F) (cap : Option Int) (a : Alg.DAssign) (formats : Formats)
    (dims : List (String × Nat)) (outT : TensorId) (e : IdExpr)
    (hout : tensorId 0 a.tname formats a.tidx = some outT)
    (ho : isLeaf (dims.map (·.1)) outT = true) (he : isExpr (dims.map (·.1)) e = true)
    (hf : Dense2.denseFormats formats = true)
    (hidx : a.tidx = dims.map (·.1)) (hrhs : rhsIdx (dims.map (·.1)) a.rhs = true)
    (ok : KernelOK formats (dims.map (·.1)) outT e)
    (tix blkOf : String → Nat) (cellsOf : String → Nat → F) (ob : Nat) (σ : State F)
    (hfit : Fits 1 (dims.map (·.2))) (hd31 : ∀ p ∈ dims, p.2 < 2147483648)
    (hn31 : dims.length < 2147483648)
    (hfin : ∀ c, c < prod (dims.map (·.2)) → allFinite ofRat (fun t => cellsOf t.name c) e = true)
    (hinit : InitC formats outT e (dims.map (·.2)) tix blkOf cellsOf ob σ)
    (f : Func F) (hgen : generateIr ofRat cap a formats (graph (dims.map (·.1)) outT e) .compute = .ok f)
    (fuel : Nat) (hfuel : fuelNeed (dims.map (·.2)) ≤ fuel) :
    ∃ o, exec fuel f.body σ = .ok o ∧ o.ret = some (.int 0) ∧ o.iters = iterCount (dims.map (·.2)) ∧
      o.st.tensors = σ.tensors ∧
      o.st.heap.length = σ.heap.length ∧
      (∀ b, b ≠ ob → o.st.heap[b]? = σ.heap[b]?) ∧
      ∃ blk0 blk, σ.heap[ob]? = some blk0 ∧ o.st.heap[ob]? = some blk ∧ blk.ty = blk0.ty ∧
        blk.owner = blk0.owner ∧ blk.live = blk0.live ∧ blk.cells.length = blk0.cells.length ∧
        (∀ c, c < prod (dims.map (·.2)) →
          blk.cells[c]? = some (some (.flt (valueF ofRat (fun t => cellsOf t.name c) e)))) ∧
        (∀ c, prod (dims.map (·.2)) ≤ c → blk.cells[c]? = blk0.cells[c]?) := by
  rw [denseN_generateIr_compute_eq ofRat cap a formats _ outT e hout ho he ok.nodup hf hidx hrhs] at hgen
  cases hgen
  obtain ⟨o, eo, hret, hit, hp⟩ := kernelC_runs ofRat formats dims outT e ho he ok hfit hd31 hn31 hfin hinit
    fuel hfuel
  exact ⟨o, eo, hret, hit, hp.tensors, hp.heapLen, hp.other, hp.vals⟩

/-! ### D4: assemble ∘ compute = evaluate; re-running compute -/

/-- **D4 (assemble, then compute, yields what evaluate yields — the whole memory).** Under the hypotheses of
`denseN_kernel_correct` (N3) and with no input of `e` sharing its record with the output (`tix t ≠ tix out`):
from the same kernel-call state `σ`,
* the `assemble` function runs (any fuel; here the same `fuel`) and returns `0` after 0 loop iterations
  (state `oA.st`);
* the `compute` function, called next on the same memory (`AsmCmp.nextCall σ oA.st`: the parameter environment
  of the call, heap and records as `assemble` left them), runs and returns `0` (state `oC.st`) WITHOUT
  allocating (`oC.st.heap.length = oA.st.heap.length`) and WITHOUT touching any tensor record
  (`oC.st.tensors = oA.st.tensors`);
* the `evaluate` function runs from `σ` and returns `0` (state `oE.st`);
and the two final memories are IDENTICAL: `oC.st.heap = oE.st.heap` and `oC.st.tensors = oE.st.tensors`. In
particular the output record's `vals` points, in both, to block `σ.heap.length`, a live output-owned float
block whose cells are exactly `valueF ofRat (fun t => cellsOf t.name c) e`, `c = 0 … Π d - 1` — the cell
contents of `denseN_kernel_correct`. -/
theorem denseN_assemble_compute_eq_evaluate (ofRat : Rat → F) (cap : Option Int) (a : Alg.DAssign)
    (formats : Formats) (dims : List (String × Nat)) (outT : TensorId) (e : IdExpr)
    (hout : tensorId 0 a.tname formats a.tidx = some outT)
    (ho : isLeaf (dims.map (·.1)) outT = true) (he : isExpr (dims.map (·.1)) e = true)
    (hf : Dense2.denseFormats formats = true)
    (hidx : a.tidx = dims.map (·.1)) (hrhs : rhsIdx (dims.map (·.1)) a.rhs = true)
    (ok : KernelOK formats (dims.map (·.1)) outT e)
    (tix blkOf : String → Nat) (cellsOf : String → Nat → F) (σ : State F)
    (hrec : ∀ t ∈ leaves e, tix t.name ≠ tix outT.name)
    (hfit : Fits 1 (dims.map (·.2))) (hd31 : ∀ p ∈ dims, p.2 < 2147483648)
    (hn31 : dims.length < 2147483648)
    (hfin : ∀ c, c < prod (dims.map (·.2)) → allFinite ofRat (fun t => cellsOf t.name c) e = true)
    (hinit : Init formats outT e (dims.map (·.2)) tix blkOf cellsOf σ)
    (fA fC fE : Func F)
    (hgenA : generateIr ofRat cap a formats (graph (dims.map (·.1)) outT e) .assemble = .ok fA)
    (hgenC : generateIr ofRat cap a formats (graph (dims.map (·.1)) outT e) .compute = .ok fC)
    (hgenE : generateIr ofRat cap a formats (graph (dims.map (·.1)) outT e) .evaluate = .ok fE)
    (fuel : Nat) (hfuel : fuelNeed (dims.map (·.2)) ≤ fuel) :
    ∃ oA oC oE,
      exec fuel fA.body σ = .ok oA ∧ oA.ret = some (.int 0) ∧ oA.iters = 0 ∧
      exec fuel fC.body (AsmCmp.nextCall σ oA.st) = .ok oC ∧ oC.ret = some (.int 0) ∧
      oC.st.heap.length = oA.st.heap.length ∧ oC.st.tensors = oA.st.tensors ∧
      exec fuel fE.body σ = .ok oE ∧ oE.ret = some (.int 0) ∧ oC.iters = oE.iters ∧
      oC.st.heap = oE.st.heap ∧ oC.st.tensors = oE.st.tensors ∧
      (∃ tr, σ.tensors[tix outT.name]? = some tr ∧
        oC.st.tensors[tix outT.name]? = some { tr with vals := .ptr σ.heap.length 0 }) ∧
      oC.st.heap[σ.heap.length]? = some ⟨.float,
        (List.range (prod (dims.map (·.2)))).map (fun c =>
          some (.flt (valueF ofRat (fun t => cellsOf t.name c) e))), .output, true⟩ ∧
      (∀ b, b < σ.heap.length → oC.st.heap[b]? = σ.heap[b]?) ∧
      (∀ k', k' ≠ tix outT.name → oC.st.tensors[k']? = σ.tensors[k']?) := by
  -- assemble
  obtain ⟨oA, eA, rA, itA, hpA⟩ : ∃ o, exec fuel fA.body σ = .ok o ∧ o.ret = some (.int 0) ∧ o.iters = 0 ∧
      KernelPostA (dims.map (·.2)) (tix outT.name) σ o.st := by
    rw [denseN_generateIr_assemble_eq ofRat cap a formats _ outT e hout ho ok.nodup hf hidx hrhs] at hgenA
    cases hgenA
    exact kernelA_runs formats dims outT e ok hfit hd31 hn31 hinit fuel
  have initC := initC_after_assemble hinit hrec hpA
  -- compute
  obtain ⟨oC, eC, rC, itC, htC, hlC, hoC, blk0, blkC, hb0, hbC, c1, c2, c3, c4, c5, _⟩ :=
    denseN_compute_correct ofRat cap a formats dims outT e hout ho he hf hidx hrhs ok tix blkOf cellsOf
      σ.heap.length (AsmCmp.nextCall σ oA.st) hfit hd31 hn31 hfin initC fC hgenC fuel hfuel
  have hb0' : oA.st.heap[σ.heap.length]? = some blk0 := hb0
  rw [hpA.blk] at hb0'; cases hb0'
  have htC' : oC.st.tensors = oA.st.tensors := htC
  have hlC' : oC.st.heap.length = oA.st.heap.length := hlC
  have hoC' : ∀ b, b ≠ σ.heap.length → oC.st.heap[b]? = oA.st.heap[b]? := hoC
  -- evaluate
  obtain ⟨oE, eE, rE, itE, ⟨trE, htrE, htrE'⟩, ⟨blkE, hbE, e1, e2, e3, e4⟩, hheapE, hlenE, hotherE⟩ :=
    denseN_kernel_correct ofRat cap a formats dims outT e hout ho he hf hidx hrhs ok tix blkOf cellsOf σ hfit
      hd31 hn31 hfin hinit fE hgenE fuel hfuel
  obtain ⟨trA, htrA, htrA'⟩ := hpA.outRec
  rw [htrE] at htrA; cases htrA
  have hblkC : blkC = ⟨.float, (List.range (prod (dims.map (·.2)))).map (fun c =>
      some (.flt (valueF ofRat (fun t => cellsOf t.name c) e))), .output, true⟩ := by
    obtain ⟨ty, cells, owner, live⟩ := blkC
    simp only at c1 c2 c3 c4 c5
    subst c1 c2 c3
    congr 1
    apply List.ext_getElem?
    intro j
    simp only [List.length_replicate] at c4
    by_cases hj : j < prod (dims.map (·.2))
    · rw [c5 j hj]; simp [hj]
    · rw [List.getElem?_eq_none (by omega), List.getElem?_eq_none (by simp; omega)]
  have hblkE : blkE = ⟨.float, (List.range (prod (dims.map (·.2)))).map (fun c =>
      some (.flt (valueF ofRat (fun t => cellsOf t.name c) e))), .output, true⟩ := by
    obtain ⟨ty, cells, owner, live⟩ := blkE
    simp only at e1 e2 e3 e4
    subst e1 e2 e3 e4
    rfl
  have hheapEq : oC.st.heap = oE.st.heap := by
    apply List.ext_getElem?
    intro b
    by_cases hb : b < σ.heap.length
    · rw [hoC' b (by omega), hpA.heap b hb, hheapE b hb]
    · by_cases hb' : b = σ.heap.length
      · subst hb'
        rw [hbC, hbE, hblkC, hblkE]
      · rw [List.getElem?_eq_none (by rw [hlC', hpA.heapLen]; omega),
          List.getElem?_eq_none (by rw [hlenE]; omega)]
  have htensEq : oC.st.tensors = oE.st.tensors := by
    apply List.ext_getElem?
    intro k
    rw [htC']
    by_cases hk : k = tix outT.name
    · subst hk; rw [htrA', htrE']
    · rw [hpA.otherRecs k hk, hotherE k hk]
  refine ⟨oA, oC, oE, eA, rA, itA, eC, rC, hlC', htC', eE, rE, by rw [itC, itE], hheapEq, htensEq,
    ⟨trE, htrE, by rw [htC']; exact htrA'⟩, by rw [hbC, hblkC], ?_, ?_⟩
  · intro b hb
    rw [hoC' b (by omega), hpA.heap b hb]
  · intro k hk
    rw [htC', hpA.otherRecs k hk]

/-- **D4, re-running `compute` with new input values.** Let `σ` be a state from which `compute` may be called
(`InitC`, e.g. the state after `assemble`), with input values `cellsOf`; run `compute` (→ `o1.st`). Let `σ2` be
ANY state in which the next call may start after the caller has overwritten the inputs' VALUES: the parameter
environment of `σ`, the tensor records of `o1.st`, a heap of the same length that agrees with `o1.st`'s
everywhere except at the inputs' `vals` blocks `blkOf t`, each of which is now some live `float` block whose
first `Π d` cells hold `cellsOf' t` (every sub-result of `e` finite). Then `compute` runs again from `σ2`,
returns `0`, and in its final state `o2.st`
* all tensor records are still those of the FIRST initial state `σ` and the heap still has the length of
  `σ`'s heap: neither call allocated or touched the structure;
* every block other than `ob` and the inputs' `vals` blocks is as in `σ`;
* block `ob` — the same block — has its original type, owner, liveness and length and now holds the NEW values
  `valueF ofRat (fun t => cellsOf' t.name c) e` in its first `Π d` cells (cells `≥ Π d` as in `σ`). -/
theorem denseN_compute_rerun (ofRat : Rat → F) (cap : Option Int) (a : Alg.DAssign) (formats : Formats)
    (dims : List (String × Nat)) (outT : TensorId) (e : IdExpr)
    (hout : tensorId 0 a.tname formats a.tidx = some outT)
    (ho : isLeaf (dims.map (·.1)) outT = true) (he : isExpr (dims.map (·.1)) e = true)
    (hf : Dense2.denseFormats formats = true)
    (hidx : a.tidx = dims.map (·.1)) (hrhs : rhsIdx (dims.map (·.1)) a.rhs = true)
    (ok : KernelOK formats (dims.map (·.1)) outT e)
    (tix blkOf : String → Nat) (cellsOf cellsOf' : String → Nat → F) (ob : Nat) (σ : State F)
    (hfit : Fits 1 (dims.map (·.2))) (hd31 : ∀ p ∈ dims, p.2 < 2147483648)
    (hn31 : dims.length < 2147483648)
    (hfin : ∀ c, c < prod (dims.map (·.2)) → allFinite ofRat (fun t => cellsOf t.name c) e = true)
    (hfin' : ∀ c, c < prod (dims.map (·.2)) → allFinite ofRat (fun t => cellsOf' t.name c) e = true)
    (hinit : InitC formats outT e (dims.map (·.2)) tix blkOf cellsOf ob σ)
    (f : Func F) (hgen : generateIr ofRat cap a formats (graph (dims.map (·.1)) outT e) .compute = .ok f)
    (fuel : Nat) (hfuel : fuelNeed (dims.map (·.2)) ≤ fuel) :
    ∃ o1, exec fuel f.body σ = .ok o1 ∧ o1.ret = some (.int 0) ∧
      o1.st.tensors = σ.tensors ∧ o1.st.heap.length = σ.heap.length ∧
      ∀ σ2 : State F, σ2.vars = σ.vars → σ2.tensors = o1.st.tensors →
        σ2.heap.length = o1.st.heap.length →
        (∀ k, (∀ t ∈ leaves e, k ≠ blkOf t.name) → σ2.heap[k]? = o1.st.heap[k]?) →
        (∀ t ∈ leaves e, ∃ blk, σ2.heap[blkOf t.name]? = some blk ∧ blk.live = true ∧ blk.ty = .float ∧
          ∀ c, c < prod (dims.map (·.2)) → blk.cells[c]? = some (some (.flt (cellsOf' t.name c)))) →
        ∃ o2, exec fuel f.body σ2 = .ok o2 ∧ o2.ret = some (.int 0) ∧
          o2.iters = iterCount (dims.map (·.2)) ∧
          o2.st.tensors = σ.tensors ∧ o2.st.heap.length = σ.heap.length ∧
          (∀ k, k ≠ ob → (∀ t ∈ leaves e, k ≠ blkOf t.name) → o2.st.heap[k]? = σ.heap[k]?) ∧
          ∃ blk0 blk, σ.heap[ob]? = some blk0 ∧ o2.st.heap[ob]? = some blk ∧ blk.ty = blk0.ty ∧
            blk.owner = blk0.owner ∧ blk.live = blk0.live ∧ blk.cells.length = blk0.cells.length ∧
            (∀ c, c < prod (dims.map (·.2)) →
              blk.cells[c]? = some (some (.flt (valueF ofRat (fun t => cellsOf' t.name c) e)))) ∧
            (∀ c, prod (dims.map (·.2)) ≤ c → blk.cells[c]? = blk0.cells[c]?) := by
  obtain ⟨o1, e1, r1, _, ht1, hl1, ho1, blk0, blk1, hb0, hb1, a1, a2, a3, a4, _, a6⟩ :=
    denseN_compute_correct ofRat cap a formats dims outT e hout ho he hf hidx hrhs ok tix blkOf cellsOf ob σ
      hfit hd31 hn31 hfin hinit f hgen fuel hfuel
  refine ⟨o1, e1, r1, ht1, hl1, ?_⟩
  intro σ2 hv ht hl hh hval
  obtain ⟨ablk, hab, halive, haown, haty, halen⟩ := hinit.outBlk
  rw [hab] at hb0; cases hb0
  have hobne : ∀ t ∈ leaves e, ob ≠ blkOf t.name := fun t ht h => (hinit.ins t ht).1 h.symm
  have hvF2 : σ2.heap[ob]? = some blk1 := by rw [hh ob hobne]; exact hb1
  have init2 : InitC formats outT e (dims.map (·.2)) tix blkOf cellsOf' ob σ2 :=
    hinit.transport hv (by rw [ht, ht1])
      (fun k hk1 hk2 => by rw [hh k hk2, ho1 k hk1])
      ⟨blk1, hvF2, by rw [a3]; exact halive, by rw [a2]; exact haown, by rw [a1]; exact haty,
        by rw [a4]; exact halen⟩
      hval
  obtain ⟨o2, e2, r2, it2, ht2, hl2, ho2, blk0', blk2, hb0', hb2, b1, b2, b3, b4, b5, b6⟩ :=
    denseN_compute_correct ofRat cap a formats dims outT e hout ho he hf hidx hrhs ok tix blkOf cellsOf' ob σ2
      hfit hd31 hn31 hfin' init2 f hgen fuel hfuel
  rw [hvF2] at hb0'; cases hb0'
  refine ⟨o2, e2, r2, it2, by rw [ht2, ht, ht1], by rw [hl2, hl, hl1], ?_, blk0, blk2, hab, hb2,
    by rw [b1, a1], by rw [b2, a2], by rw [b3, a3], by rw [b4, a4], b5, ?_⟩
  · intro k hk1 hk2
    rw [ho2 k hk1, hh k hk2, ho1 k hk1]
  · intro j hj
    rw [b6 j hj, a6 j hj]

/-! ### D5: exact instance -/

/-- **D5 (exact instance of D4).** Over the exact carrier `Rat` (every value finite, literals through `id`) no
finiteness hypothesis is left: if `ρ c` gives, for every tensor occurrence of `e`, the content of cell `c` of
its array, then `assemble` and `compute` both return `0`, `compute` allocates nothing and changes no record,
and the output record's `vals` points to a live output-owned float block holding exactly
`Graph.value (ρ c) e`, `c = 0 … Π d - 1`. -/
theorem denseN_assemble_compute_exact (cap : Option Int) (a : Alg.DAssign)
    (formats : Formats) (dims : List (String × Nat)) (outT : TensorId) (e : IdExpr)
    (hout : tensorId 0 a.tname formats a.tidx = some outT)
    (ho : isLeaf (dims.map (·.1)) outT = true) (he : isExpr (dims.map (·.1)) e = true)
    (hf : Dense2.denseFormats formats = true)
    (hidx : a.tidx = dims.map (·.1)) (hrhs : rhsIdx (dims.map (·.1)) a.rhs = true)
    (ok : KernelOK formats (dims.map (·.1)) outT e)
    (tix blkOf : String → Nat) (cellsOf : String → Nat → Rat) (σ : State Rat)
    (hrec : ∀ t ∈ leaves e, tix t.name ≠ tix outT.name)
    (hfit : Fits 1 (dims.map (·.2))) (hd31 : ∀ p ∈ dims, p.2 < 2147483648)
    (hn31 : dims.length < 2147483648)
    (hinit : Init formats outT e (dims.map (·.2)) tix blkOf cellsOf σ)
    (ρ : Nat → String → Rat)
    (hρ : ∀ c, c < prod (dims.map (·.2)) → ∀ t ∈ leaves e, ρ c t.id = cellsOf t.name c)
    (fA fC : Func Rat)
    (hgenA : generateIr id cap a formats (graph (dims.map (·.1)) outT e) .assemble = .ok fA)
    (hgenC : generateIr id cap a formats (graph (dims.map (·.1)) outT e) .compute = .ok fC)
    (fuel : Nat) (hfuel : fuelNeed (dims.map (·.2)) ≤ fuel) :
    ∃ oA oC,
      exec fuel fA.body σ = .ok oA ∧ oA.ret = some (.int 0) ∧ oA.iters = 0 ∧
      exec fuel fC.body (AsmCmp.nextCall σ oA.st) = .ok oC ∧ oC.ret = some (.int 0) ∧
      oC.st.heap.length = oA.st.heap.length ∧ oC.st.tensors = oA.st.tensors ∧
      (∃ tr, σ.tensors[tix outT.name]? = some tr ∧
        oC.st.tensors[tix outT.name]? = some { tr with vals := .ptr σ.heap.length 0 }) ∧
      oC.st.heap[σ.heap.length]? = some ⟨.float,
        (List.range (prod (dims.map (·.2)))).map (fun c => some (.flt (value (ρ c) e))), .output, true⟩ := by
  obtain ⟨fE, hgenE⟩ : ∃ fE, generateIr (F := Rat) id cap a formats (graph (dims.map (·.1)) outT e) .evaluate =
      .ok fE := ⟨_, denseN_generateIr_eq id cap a formats _ outT e hout ho he ok.nodup hf hidx hrhs⟩
  obtain ⟨oA, oC, oE, eA, rA, itA, eC, rC, hl, ht, _, _, _, _, _, hrecC, hblk, _⟩ :=
    denseN_assemble_compute_eq_evaluate id cap a formats dims outT e hout ho he hf hidx hrhs ok tix blkOf
      cellsOf σ hrec hfit hd31 hn31 (fun c _ => Dense1.allFinite_rat _ _ _) hinit fA fC fE hgenA hgenC hgenE
      fuel hfuel
  refine ⟨oA, oC, eA, rA, itA, eC, rC, hl, ht, hrecC, ?_⟩
  rw [hblk]
  congr 2
  apply List.map_congr_left
  intro c hc
  have hc : c < prod (dims.map (·.2)) := List.mem_range.1 hc
  rw [← Dense1.valueF_rat (ρ c) e, Dense1.valueF_congr id _ _ e (fun t ht => (hρ c hc t ht).symm)]

/-! ### non-vacuity: `a(i,j,k) = b(i,j,k) * c(i,j,k) + 1`, dimensions `(2,1,2)`,
`b = [1,2,3,4]`, `c = [5,6,7,8]` — the instance of `C01DenseN.lean` -/

/-- in the instance the inputs `b`, `c` have records different from the output's -/
theorem exRecsNe : ∀ t ∈ leaves exE, exTix t.name ≠ exTix exOut.name := by
  intro t ht
  simp only [exE, leaves, List.cons_append, List.nil_append, List.append_nil, List.mem_cons,
    List.not_mem_nil, or_false] at ht
  rcases ht with rfl | rfl <;> decide

/-- **D1–D4 are not vacuous** (over `Int`): on the closed `n = 3` instance every hypothesis holds,
`generateIr` produces the three kernels, `assemble` returns `0` after 0 iterations and leaves a fresh block `5`
of 4 uninitialised cells, `compute` called next returns `0` without allocating and without touching a record,
and the memory is then EXACTLY the one `evaluate` leaves: block `5` = `[6, 13, 22, 33]`. -/
example : ∃ fA fC fE oA oC oE,
    generateIr exOfRat none exAssign exFormats (graph (exDims.map (·.1)) exOut exE) .assemble = .ok fA ∧
    generateIr exOfRat none exAssign exFormats (graph (exDims.map (·.1)) exOut exE) .compute = .ok fC ∧
    generateIr exOfRat none exAssign exFormats (graph (exDims.map (·.1)) exOut exE) .evaluate = .ok fE ∧
    exec 8 fA.body (exStateOf (F := Int) id) = .ok oA ∧ oA.ret = some (.int 0) ∧ oA.iters = 0 ∧
    oA.st.heap[5]? = some ⟨.float, [none, none, none, none], .output, true⟩ ∧
    exec 8 fC.body (AsmCmp.nextCall (exStateOf (F := Int) id) oA.st) = .ok oC ∧ oC.ret = some (.int 0) ∧
    oC.st.heap.length = oA.st.heap.length ∧ oC.st.tensors = oA.st.tensors ∧
    exec 8 fE.body (exStateOf (F := Int) id) = .ok oE ∧
    oC.st.heap = oE.st.heap ∧ oC.st.tensors = oE.st.tensors ∧
    (∃ tr, oC.st.tensors[0]? = some tr ∧ tr.vals = .ptr 5 0) ∧
    oC.st.heap[5]? = some ⟨.float, [some (.flt 6), some (.flt 13), some (.flt 22), some (.flt 33)],
      .output, true⟩ := by
  have hgenA := denseN_generateIr_assemble_eq exOfRat none exAssign exFormats (exDims.map (·.1)) exOut exE
    (by decide) (by decide) (by decide) (by decide) rfl (by decide)
  have hgenC := denseN_generateIr_compute_eq exOfRat none exAssign exFormats (exDims.map (·.1)) exOut exE
    (by decide) (by decide) (by decide) (by decide) (by decide) rfl (by decide)
  have hgenE := denseN_generateIr_eq exOfRat none exAssign exFormats (exDims.map (·.1)) exOut exE (by decide)
    (by decide) (by decide) (by decide) (by decide) rfl (by decide)
  obtain ⟨oA, eA, rA, itA, _, hblkA, _⟩ :=
    denseN_assemble_correct exOfRat none exAssign exFormats exDims exOut exE (by decide) (by decide)
      (by decide) rfl (by decide) exKernelOK exTix exBlkOf _ _ exFits (by decide) (by decide)
      (exInitOf (F := Int) id) _ hgenA 8
  obtain ⟨oA', oC, oE, eA', _, _, eC, rC, hl, ht, eE, _, _, hh, htt, ⟨tr, _, htr'⟩, hblk, _⟩ :=
    denseN_assemble_compute_eq_evaluate exOfRat none exAssign exFormats exDims exOut exE (by decide)
      (by decide) (by decide) (by decide) rfl (by decide) exKernelOK exTix exBlkOf _ _ exRecsNe exFits
      (by decide) (by decide) (fun c _ => Dense1.allFinite_of_total (fun _ => rfl) _ _ _)
      (exInitOf (F := Int) id) _ _ _ hgenA hgenC hgenE 8 (by decide)
  rw [eA] at eA'; cases eA'
  exact ⟨_, _, _, oA, oC, oE, hgenA, hgenC, hgenE, eA, rA, itA, hblkA, eC, rC, hl, ht, eE, hh, htt,
    ⟨_, htr', rfl⟩, hblk⟩

/-- new values of the inputs for the re-run: `b = [2,0,1,3]`, `c = [1,1,1,1]` -/
def exCellsOf' : String → Nat → Int :=
  fun s j => if s = "b" then [2, 0, 1, 3].getD j 0 else [1, 1, 1, 1].getD j 0

/-- **the re-run is not vacuous**: on the instance, after `assemble` and a first `compute` (values
`[6, 13, 22, 33]`), the caller overwrites the values of `b` (block 2) with `[2,0,1,3]` and of `c` (block 4) with
`[1,1,1,1]` and calls `compute` again: it returns `0`, records and heap length are still those `assemble` left,
and the SAME block `5` now holds `[2*1+1, 0*1+1, 1*1+1, 3*1+1] = [3, 1, 2, 4]`. -/
example : ∃ fA fC oA o1 o2,
    generateIr exOfRat none exAssign exFormats (graph (exDims.map (·.1)) exOut exE) .assemble = .ok fA ∧
    generateIr exOfRat none exAssign exFormats (graph (exDims.map (·.1)) exOut exE) .compute = .ok fC ∧
    exec 8 fA.body (exStateOf (F := Int) id) = .ok oA ∧
    exec 8 fC.body (AsmCmp.nextCall (exStateOf (F := Int) id) oA.st) = .ok o1 ∧
    exec 8 fC.body ⟨(exStateOf (F := Int) id).vars,
      (o1.st.heap.set 2 ⟨.float, [some (.flt 2), some (.flt 0), some (.flt 1), some (.flt 3)], .input, true⟩).set 4
        ⟨.float, [some (.flt 1), some (.flt 1), some (.flt 1), some (.flt 1)], .input, true⟩,
      o1.st.tensors⟩ = .ok o2 ∧
    o2.ret = some (.int 0) ∧ o2.st.tensors = oA.st.tensors ∧ o2.st.heap.length = oA.st.heap.length ∧
    ∃ tr' vblk, o2.st.tensors[0]? = some tr' ∧ tr'.vals = .ptr 5 0 ∧ o2.st.heap[5]? = some vblk ∧
      vblk.cells[0]? = some (some (.flt 3)) ∧ vblk.cells[1]? = some (some (.flt 1)) ∧
      vblk.cells[2]? = some (some (.flt 2)) ∧ vblk.cells[3]? = some (some (.flt 4)) := by
  have hgenA := denseN_generateIr_assemble_eq exOfRat none exAssign exFormats (exDims.map (·.1)) exOut exE
    (by decide) (by decide) (by decide) (by decide) rfl (by decide)
  have hgenC := denseN_generateIr_compute_eq exOfRat none exAssign exFormats (exDims.map (·.1)) exOut exE
    (by decide) (by decide) (by decide) (by decide) (by decide) rfl (by decide)
  obtain ⟨oA, eA, _, _, hrec, hblkA, hheap, hlen, hother, htl⟩ :=
    denseN_assemble_correct exOfRat none exAssign exFormats exDims exOut exE (by decide) (by decide)
      (by decide) rfl (by decide) exKernelOK exTix exBlkOf _ _ exFits (by decide) (by decide)
      (exInitOf (F := Int) id) _ hgenA 8
  have initC := initC_after_assemble (exInitOf (F := Int) id) exRecsNe ⟨hrec, hother, htl, hblkA, hheap, hlen⟩
  obtain ⟨tr, htr, htr'⟩ := hrec
  obtain ⟨o1, e1, _, ht1, hl1, hre⟩ :=
    denseN_compute_rerun exOfRat none exAssign exFormats exDims exOut exE (by decide) (by decide) (by decide)
      (by decide) rfl (by decide) exKernelOK exTix exBlkOf (exCellsOf (F := Int) id) exCellsOf' 5 _ exFits
      (by decide) (by decide) (fun c _ => Dense1.allFinite_of_total (fun _ => rfl) _ _ _)
      (fun c _ => Dense1.allFinite_of_total (fun _ => rfl) _ _ _) initC _ hgenC 8 (by decide)
  have hl1' : o1.st.heap.length = 6 := by
    rw [hl1]; show oA.st.heap.length = 6; rw [hlen]; rfl
  have hleaves : ∀ t ∈ leaves exE, t = exB ∨ t = exC := by
    intro t ht
    simpa [exE, leaves] using ht
  have h4 : prod (exDims.map (·.2)) = 4 := by decide
  obtain ⟨o2, e2, r2, _, ht2, hl2, _, blk0, blk2, _, hb2, _, _, _, _, b5, _⟩ :=
    hre ⟨(exStateOf (F := Int) id).vars,
      (o1.st.heap.set 2 ⟨.float, [some (.flt 2), some (.flt 0), some (.flt 1), some (.flt 3)], .input, true⟩).set 4
        ⟨.float, [some (.flt 1), some (.flt 1), some (.flt 1), some (.flt 1)], .input, true⟩,
      o1.st.tensors⟩ rfl rfl (by simp)
      (by
        intro k hk
        have hk2 : k ≠ 2 := hk exB (by simp [exE, leaves])
        have hk4 : k ≠ 4 := hk exC (by simp [exE, leaves])
        show ((o1.st.heap.set 2 _).set 4 _)[k]? = _
        rw [List.getElem?_set_ne (Ne.symm hk4), List.getElem?_set_ne (Ne.symm hk2)])
      (by
        intro t ht
        rcases hleaves t ht with rfl | rfl
        · refine ⟨⟨.float, [some (.flt 2), some (.flt 0), some (.flt 1), some (.flt 3)], .input, true⟩, ?_, rfl,
            rfl, ?_⟩
          · show ((o1.st.heap.set 2 _).set 4 _)[2]? = _
            rw [List.getElem?_set_ne (by decide), List.getElem?_set_self (by omega)]
          · intro j hj
            rw [h4] at hj
            match j, hj with
            | 0, _ => rfl
            | 1, _ => rfl
            | 2, _ => rfl
            | 3, _ => rfl
        · refine ⟨⟨.float, [some (.flt 1), some (.flt 1), some (.flt 1), some (.flt 1)], .input, true⟩, ?_, rfl,
            rfl, ?_⟩
          · show ((o1.st.heap.set 2 _).set 4 _)[4]? = _
            rw [List.getElem?_set_self (by simp; omega)]
          · intro j hj
            rw [h4] at hj
            match j, hj with
            | 0, _ => rfl
            | 1, _ => rfl
            | 2, _ => rfl
            | 3, _ => rfl)
  refine ⟨_, _, oA, o1, o2, hgenA, hgenC, eA, e1, e2, r2, ht2, hl2, _, blk2, by rw [ht2]; exact htr', rfl, hb2,
    ?_, ?_, ?_, ?_⟩
  · exact b5 0 (by decide)
  · exact b5 1 (by decide)
  · exact b5 2 (by decide)
  · exact b5 3 (by decide)

/-- **D5 is not vacuous**: the same instance over the exact carrier `Rat`; the values stored by `compute`
after `assemble` are `Graph.value` of `b(i,j,k) * c(i,j,k) + 1` at every cell -/
example : ∃ (fA fC : Func Rat) (oA oC : Out Rat),
    generateIr (F := Rat) id none exAssign exFormats (graph (exDims.map (·.1)) exOut exE) .assemble = .ok fA ∧
    generateIr (F := Rat) id none exAssign exFormats (graph (exDims.map (·.1)) exOut exE) .compute = .ok fC ∧
    exec 8 fA.body (exStateOf (fun z => (z : Rat))) = .ok oA ∧ oA.ret = some (.int 0) ∧
    exec 8 fC.body (AsmCmp.nextCall (exStateOf (fun z => (z : Rat))) oA.st) = .ok oC ∧
    oC.ret = some (.int 0) ∧
    oC.st.heap[5]? = some ⟨.float, (List.range 4).map (fun c => some (.flt (value
      (fun id => if id = "1_b" then [(1 : Rat), 2, 3, 4].getD c 0 else [(5 : Rat), 6, 7, 8].getD c 0) exE))),
      .output, true⟩ := by
  have hgenA := denseN_generateIr_assemble_eq (F := Rat) id none exAssign exFormats (exDims.map (·.1)) exOut exE
    (by decide) (by decide) (by decide) (by decide) rfl (by decide)
  have hgenC := denseN_generateIr_compute_eq (F := Rat) id none exAssign exFormats (exDims.map (·.1)) exOut exE
    (by decide) (by decide) (by decide) (by decide) (by decide) rfl (by decide)
  have h4 : prod (exDims.map (·.2)) = 4 := by decide
  obtain ⟨oA, oC, eA, rA, _, eC, rC, _, _, _, hblk⟩ :=
    denseN_assemble_compute_exact none exAssign exFormats exDims exOut exE (by decide) (by decide) (by decide)
      (by decide) rfl (by decide) exKernelOK exTix exBlkOf _ _ exRecsNe exFits (by decide) (by decide)
      (exInitOf (fun z => (z : Rat)))
      (fun c id => if id = "1_b" then [(1 : Rat), 2, 3, 4].getD c 0 else [(5 : Rat), 6, 7, 8].getD c 0)
      (by
        intro j hj t ht
        rw [h4] at hj
        simp only [exE, leaves, List.cons_append, List.nil_append, List.append_nil, List.mem_cons,
          List.not_mem_nil, or_false] at ht
        rcases ht with rfl | rfl <;>
        · match j, hj with
          | 0, _ => rfl
          | 1, _ => rfl
          | 2, _ => rfl
          | 3, _ => rfl)
      _ _ hgenA hgenC 8 (by decide)
  rw [h4] at hblk
  exact ⟨_, _, oA, oC, hgenA, hgenC, eA, rA, eC, rC, hblk⟩

end TV.DenseN


/-! # Second part: all dense single-term contractions (class `DenseTerm`) -/
namespace TV.DenseTerm
open TV.IR TV.Gen TV.Graph TV.Growth TV.AsmCmpDenseTerm
open TV.Dense1 (leaves valueF allFinite)
open TV.DenseN (prod lin Fits Below)

variable {F : Type} [FloatOps F]

/-! ### E1: what the pass emits -/

/-- **The generated `assemble` kernel (class `DenseTerm`).** For an output of the class (`isOut`: all modes
dense, indexed by the output indexes in nest order) and an all-dense format table, `generateIr … .assemble`
succeeds and returns exactly `AsmCmpDenseTerm.kernelA`: `{ int <x>_dim = …; … double* <t>_vals = t->vals; … int
<out>_vals_capacity = 1 * out->dimensions[0] * …; <out>_vals = malloc(…); { /* empty */ } out->vals =
<out>_vals; return 0; }` — NO loop (`lower` returns at the first node: the output has no sparse layer); the
right-hand side does not occur and need not be of the class. -/
theorem denseTerm_generateIr_assemble_eq (ofRat : Rat → F) (cap : Option Int) (a : Alg.DAssign)
    (formats : Formats) (lv : List Level) (outT : TensorId) (e : IdExpr)
    (hout : tensorId 0 a.tname formats a.tidx = some outT)
    (ho : isOut lv outT = true) (hf : Dense2.denseFormats formats = true) :
    generateIr ofRat cap a formats (graph lv outT e) .assemble =
      .ok (kernelA formats (indexDimensions a) lv outT) :=
  generateIr_eqA ofRat cap a formats _ lv outT e hout (Dense1.tensorId_name hout) ho hf rfl

/-- **The generated `compute` kernel (class `DenseTerm`).** Under the hypotheses of `denseTerm_generateIr_eq`,
`generateIr … .compute` succeeds and returns exactly `AsmCmpDenseTerm.kernelC`: the dimension variables, the
`vals` pointers (the output's among them), an EMPTY "Output initialization" block, the loop nest
`DenseTerm.termNest` of `evaluate` — INCLUDING the "Bucket initialization" block `double* bucket = <out>_vals +
…; int i_bucket = 0; while (i_bucket < …) { bucket[i_bucket] = 0; i_bucket++ }` at the first contraction level
(`bucketDeclarations` is emitted under `k.isCompute`) —, an EMPTY "Assembling output tensor" block, `return
0`: no `malloc`, no store into the record. -/
theorem denseTerm_generateIr_compute_eq (ofRat : Rat → F) (cap : Option Int) (a : Alg.DAssign)
    (formats : Formats) (lv : List Level) (outT : TensorId) (e : IdExpr)
    (hout : tensorId 0 a.tname formats a.tidx = some outT)
    (ho : isOut lv outT = true) (he : isExpr (idxs lv) e = true) (hnd : (idxs lv).Nodup)
    (hz : ∀ p ∈ lv, p.2 = false → zeroish e = false)
    (hf : Dense2.denseFormats formats = true) :
    generateIr ofRat cap a formats (graph lv outT e) .compute =
      .ok (kernelC ofRat formats (indexDimensions a) lv outT e) :=
  generateIr_eqC ofRat cap a formats _ lv outT e hout (Dense1.tensorId_name hout) ho he hnd hz hf rfl

/-! ### E2: the assembling kernel -/

/-- **E2 (the generated `assemble` kernel is correct, class `DenseTerm`).** Under the static hypotheses of
`denseTerm_kernel_correct` (T3; no `cellOK`, no `zeroish` hypothesis), from an initial state as the driver
builds it (`Init`), the function `generateIr … .assemble` produces runs with ANY fuel without error, **returns
`0`** after **0 loop iterations**, and `KernelPostA C.N (tix C.outT.name) σ o.st` holds: the output record is
the initial one with `vals` = the base address of the FRESH block `σ.heap.length` = `⟨float, C.N uninitialised
cells (`none`), output-owned, live⟩` (`C.N = Π` of the output dimensions); every block of the initial heap,
every other record and the number of records are unchanged; exactly one block was allocated. -/
theorem denseTerm_assemble_correct (ofRat : Rat → F) (cap : Option Int) (a : Alg.DAssign)
    (formats : Formats) (C : Ctx F)
    (hout : tensorId 0 a.tname formats a.tidx = some C.outT)
    (hf : Dense2.denseFormats formats = true)
    (ok : KernelOK formats (indexDimensions a) C) (tix : String → Nat) (σ : State F)
    (hinit : Init formats (indexDimensions a) C tix σ)
    (f : Func F) (hgen : generateIr ofRat cap a formats (graph C.full C.outT C.e) .assemble = .ok f)
    (fuel : Nat) :
    ∃ o, exec fuel f.body σ = .ok o ∧ o.ret = some (.int 0) ∧ o.iters = 0 ∧
      KernelPostA C.N (tix C.outT.name) σ o.st := by
  have S := ok.static
  rw [denseTerm_generateIr_assemble_eq ofRat cap a formats C.full C.outT C.e hout S.out hf] at hgen
  cases hgen
  exact kernelA_runs formats _ C ok hinit fuel

/-! ### E3: the computing kernel -/

/-- **E3 (the generated `compute` kernel is correct, from ANY suitable state, class `DenseTerm`).** Under the
static hypotheses of `denseTerm_kernel_correct`, let `σ` be a kernel-call state (`InitC`: as `Init`, except that
the output record's `vals` is the base address of block `C.ob`, a live, output-owned float block of AT LEAST
`C.N` cells with ARBITRARY contents — uninitialised after `assemble`, or the results of an earlier `compute` —,
different from the inputs' blocks), with `cellOK` at every output multi-index. Then the function `generateIr …
.compute` produces runs with any fuel `≥ fuelNeed`, **returns `0`** after exactly `iters` loop iterations —
the count of `evaluate` —, and `KernelPostC ofRat C σ o.st` holds:
* **no allocation** (`heapLen`), **all tensor records unchanged** (`tensors`), every block other than `C.ob`
  unchanged (`other`);
* block `C.ob` keeps type, owner, liveness and length; the cell `lin 0 dims J` of every output multi-index `J`
  holds `cellF … J` — the terms of all contraction multi-indexes added in loop order STARTING FROM `ofInt 0`:
  the emitted bucket-initialisation loop re-zeroes the slab, so the previous contents do not matter —; the
  cells `≥ C.N` are unchanged. -/
theorem denseTerm_compute_correct (ofRat : Rat → F) (cap : Option Int) (a : Alg.DAssign)
    (formats : Formats) (C : Ctx F)
    (hout : tensorId 0 a.tname formats a.tidx = some C.outT)
    (hz : ∀ p ∈ C.full, p.2 = false → zeroish C.e = false)
    (hf : Dense2.denseFormats formats = true)
    (ok : KernelOK formats (indexDimensions a) C) (tix : String → Nat) (σ : State F)
    (hok : ∀ J, Below J (outDims C.dimOf C.full) → cellOK ofRat C.dimOf C.cellsOf C.e C.full J)
    (hinit : InitC formats (indexDimensions a) C tix σ)
    (f : Func F) (hgen : generateIr ofRat cap a formats (graph C.full C.outT C.e) .compute = .ok f)
    (fuel : Nat) (hfuel : fuelNeed C.dimOf false C.full ≤ fuel) :
    ∃ o, exec fuel f.body σ = .ok o ∧ o.ret = some (.int 0) ∧ o.iters = iters C.dimOf false C.full ∧
      KernelPostC ofRat C σ o.st := by
  have S := ok.static
  rw [denseTerm_generateIr_compute_eq ofRat cap a formats C.full C.outT C.e hout S.out S.expr S.nodup hz hf]
    at hgen
  cases hgen
  exact kernelC_runs ofRat formats _ C ok hok hinit fuel hfuel

/-! ### E4: assemble ∘ compute = evaluate; re-running compute -/

/-- **E4 (assemble, then compute, yields what evaluate yields — the whole memory; class `DenseTerm`).** Under
the hypotheses of `denseTerm_kernel_correct` (T3) and with no input of `e` sharing its record with the output:
from the same kernel-call state `σ`, `assemble` returns `0` after 0 loop iterations (`oA`); `compute`, called
next on the same memory (`AsmCmp.nextCall σ oA.st`), returns `0` (`oC`) WITHOUT allocating and WITHOUT touching
any tensor record, in as many loop iterations as `evaluate`; `evaluate` returns `0` from `σ` (`oE`); and the
two final memories are IDENTICAL: `oC.st.heap = oE.st.heap`, `oC.st.tensors = oE.st.tensors`. In particular the
postcondition `KernelPost` of T3 holds of `σ → oC.st`: the output record's `vals` points to block
`σ.heap.length`, of exactly `C.N` cells, cell `lin 0 dims J` holding `cellF … J`. -/
theorem denseTerm_assemble_compute_eq_evaluate (ofRat : Rat → F) (cap : Option Int) (a : Alg.DAssign)
    (formats : Formats) (C : Ctx F)
    (hout : tensorId 0 a.tname formats a.tidx = some C.outT)
    (hz : ∀ p ∈ C.full, p.2 = false → zeroish C.e = false)
    (hf : Dense2.denseFormats formats = true)
    (ok : KernelOK formats (indexDimensions a) C) (tix : String → Nat) (σ : State F)
    (hrec : ∀ t ∈ leaves C.e, tix t.name ≠ tix C.outT.name)
    (hob : C.ob = σ.heap.length)
    (hok : ∀ J, Below J (outDims C.dimOf C.full) → cellOK ofRat C.dimOf C.cellsOf C.e C.full J)
    (hinit : Init formats (indexDimensions a) C tix σ)
    (fA fC fE : Func F)
    (hgenA : generateIr ofRat cap a formats (graph C.full C.outT C.e) .assemble = .ok fA)
    (hgenC : generateIr ofRat cap a formats (graph C.full C.outT C.e) .compute = .ok fC)
    (hgenE : generateIr ofRat cap a formats (graph C.full C.outT C.e) .evaluate = .ok fE)
    (fuel : Nat) (hfuel : fuelNeed C.dimOf false C.full ≤ fuel) :
    ∃ oA oC oE,
      exec fuel fA.body σ = .ok oA ∧ oA.ret = some (.int 0) ∧ oA.iters = 0 ∧
      exec fuel fC.body (AsmCmp.nextCall σ oA.st) = .ok oC ∧ oC.ret = some (.int 0) ∧
      oC.st.heap.length = oA.st.heap.length ∧ oC.st.tensors = oA.st.tensors ∧
      exec fuel fE.body σ = .ok oE ∧ oE.ret = some (.int 0) ∧ oC.iters = oE.iters ∧
      oC.st.heap = oE.st.heap ∧ oC.st.tensors = oE.st.tensors ∧
      KernelPost ofRat C (tix C.outT.name) σ oC.st := by
  have S := ok.static
  obtain ⟨oA, eA, rA, itA, hpA⟩ := denseTerm_assemble_correct ofRat cap a formats C hout hf ok tix σ hinit fA
    hgenA fuel
  have initC := initC_after_assemble hinit hob hrec hpA
  obtain ⟨oC, eC, rC, itC, htC, hlC, hoC, blk0, blkC, hb0, hbC, c1, c2, c3, c4, c5, _⟩ :=
    denseTerm_compute_correct ofRat cap a formats C hout hz hf ok tix (AsmCmp.nextCall σ oA.st) hok initC fC
      hgenC fuel hfuel
  have hb0' : oA.st.heap[C.ob]? = some blk0 := hb0
  rw [hob, hpA.blk] at hb0'; cases hb0'
  have htC' : oC.st.tensors = oA.st.tensors := htC
  have hlC' : oC.st.heap.length = oA.st.heap.length := hlC
  have hoC' : ∀ b, b ≠ σ.heap.length → oC.st.heap[b]? = oA.st.heap[b]? := fun b hb => hoC b (by rw [hob]; exact hb)
  rw [hob] at hbC
  obtain ⟨oE, eE, rE, itE, hpE⟩ := denseTerm_kernel_correct ofRat cap a formats C hout hz hf ok tix σ hob hok
    hinit fE hgenE fuel hfuel
  obtain ⟨⟨trE, htrE, htrE'⟩, hotherE, ⟨blkE, hbE, e1, e2, e3, e4, e5⟩, hheapE, hlenE⟩ := hpE
  obtain ⟨trA, htrA, htrA'⟩ := hpA.outRec
  rw [htrE] at htrA; cases htrA
  have hblk : blkC = blkE := by
    obtain ⟨ty, cells, owner, live⟩ := blkC
    obtain ⟨ty', cells', owner', live'⟩ := blkE
    simp only at c1 c2 c3 c4 c5 e1 e2 e3 e4 e5
    subst c1 c2 c3 e1 e2 e3
    congr 1
    apply List.ext_getElem?
    intro c
    simp only [List.length_replicate] at c4
    by_cases hc : c < C.N
    · obtain ⟨J, hJ, hJc⟩ := lin_surj (outDims C.dimOf C.full) 0 c (by simp)
        (by simpa [Ctx.N] using hc)
      rw [← hJc, c5 J hJ, e5 J hJ]
    · rw [List.getElem?_eq_none (by omega), List.getElem?_eq_none (by omega)]
  have hheapEq : oC.st.heap = oE.st.heap := by
    apply List.ext_getElem?
    intro b
    by_cases hb : b < σ.heap.length
    · rw [hoC' b (by omega), hpA.heap b hb, hheapE b hb]
    · by_cases hb' : b = σ.heap.length
      · subst hb'
        rw [hbC, hbE, hblk]
      · rw [List.getElem?_eq_none (by rw [hlC', hpA.heapLen]; omega),
          List.getElem?_eq_none (by rw [hlenE]; omega)]
  have htensEq : oC.st.tensors = oE.st.tensors := by
    apply List.ext_getElem?
    intro k
    rw [htC']
    by_cases hk : k = tix C.outT.name
    · subst hk; rw [htrA', htrE']
    · rw [hpA.otherRecs k hk, hotherE k hk]
  refine ⟨oA, oC, oE, eA, rA, itA, eC, rC, hlC', htC', eE, rE, by rw [itC, itE], hheapEq, htensEq, ?_⟩
  exact ⟨⟨trE, htrE, by rw [htensEq]; exact htrE'⟩, fun k hk => by rw [htensEq]; exact hotherE k hk,
    ⟨blkE, by rw [hheapEq]; exact hbE, e1, e2, e3, e4, e5⟩, fun b hb => by rw [hheapEq]; exact hheapE b hb,
    by rw [hheapEq]; exact hlenE⟩

/-- **E4, re-running `compute` with new input values (class `DenseTerm`).** Let `σ` be a state from which
`compute` may be called (`InitC`), with input values `C.cellsOf`; run `compute` (→ `o1.st`). Let `σ2` be ANY
state in which the next call may start after the caller has overwritten the inputs' VALUES: the parameter
environment of `σ`, the tensor records of `o1.st`, a heap of the same length that agrees with `o1.st`'s
everywhere except at the inputs' `vals` blocks, each of which is now a live `float` block holding `cellsOf' t`
(with `cellOK` for the new values). Then `compute` runs again from `σ2`, returns `0`, and in its final state
`o2.st` all tensor records are still those of `σ`, the heap still has the length of `σ`'s heap, every block
other than `C.ob` and the inputs' `vals` blocks is as in `σ`, and block `C.ob` — the same block, same type,
owner, liveness, length — holds the NEW results `cellF … cellsOf' … J` at every output multi-index (NOT the sum
of old and new: the bucket initialisation re-zeroes), cells `≥ C.N` as in `σ`. -/
theorem denseTerm_compute_rerun (ofRat : Rat → F) (cap : Option Int) (a : Alg.DAssign)
    (formats : Formats) (C : Ctx F) (cellsOf' : String → Nat → F)
    (hout : tensorId 0 a.tname formats a.tidx = some C.outT)
    (hz : ∀ p ∈ C.full, p.2 = false → zeroish C.e = false)
    (hf : Dense2.denseFormats formats = true)
    (ok : KernelOK formats (indexDimensions a) C)
    (ok' : KernelOK formats (indexDimensions a) { C with cellsOf := cellsOf' })
    (tix : String → Nat) (σ : State F)
    (hok : ∀ J, Below J (outDims C.dimOf C.full) → cellOK ofRat C.dimOf C.cellsOf C.e C.full J)
    (hok' : ∀ J, Below J (outDims C.dimOf C.full) → cellOK ofRat C.dimOf cellsOf' C.e C.full J)
    (hinit : InitC formats (indexDimensions a) C tix σ)
    (f : Func F) (hgen : generateIr ofRat cap a formats (graph C.full C.outT C.e) .compute = .ok f)
    (fuel : Nat) (hfuel : fuelNeed C.dimOf false C.full ≤ fuel) :
    ∃ o1, exec fuel f.body σ = .ok o1 ∧ o1.ret = some (.int 0) ∧
      o1.st.tensors = σ.tensors ∧ o1.st.heap.length = σ.heap.length ∧
      ∀ σ2 : State F, σ2.vars = σ.vars → σ2.tensors = o1.st.tensors →
        σ2.heap.length = o1.st.heap.length →
        (∀ k, (∀ t ∈ leaves C.e, k ≠ C.blkOf t.name) → σ2.heap[k]? = o1.st.heap[k]?) →
        (∀ t ∈ leaves C.e, ∃ blk, σ2.heap[C.blkOf t.name]? = some blk ∧ blk.live = true ∧
          blk.ty = .float ∧ ∀ c, c < prod (t.indexes.map C.dimOf) →
            blk.cells[c]? = some (some (.flt (cellsOf' t.name c)))) →
        ∃ o2, exec fuel f.body σ2 = .ok o2 ∧ o2.ret = some (.int 0) ∧
          o2.iters = iters C.dimOf false C.full ∧
          o2.st.tensors = σ.tensors ∧ o2.st.heap.length = σ.heap.length ∧
          (∀ k, k ≠ C.ob → (∀ t ∈ leaves C.e, k ≠ C.blkOf t.name) → o2.st.heap[k]? = σ.heap[k]?) ∧
          ∃ blk0 blk, σ.heap[C.ob]? = some blk0 ∧ o2.st.heap[C.ob]? = some blk ∧ blk.ty = blk0.ty ∧
            blk.owner = blk0.owner ∧ blk.live = blk0.live ∧ blk.cells.length = blk0.cells.length ∧
            (∀ J, Below J (outDims C.dimOf C.full) →
              blk.cells[lin 0 (outDims C.dimOf C.full) J]? =
                some (some (.flt (cellF ofRat C.dimOf cellsOf' C.e C.full J)))) ∧
            (∀ c, C.N ≤ c → blk.cells[c]? = blk0.cells[c]?) := by
  obtain ⟨o1, e1, r1, _, ht1, hl1, ho1, blk0, blk1, hb0, hb1, a1, a2, a3, a4, _, a6⟩ :=
    denseTerm_compute_correct ofRat cap a formats C hout hz hf ok tix σ hok hinit f hgen fuel hfuel
  refine ⟨o1, e1, r1, ht1, hl1, ?_⟩
  intro σ2 hv ht hl hh hval
  obtain ⟨ablk, hab, halive, haown, haty, halen⟩ := hinit.outBlk
  rw [hab] at hb0; cases hb0
  have hobne : ∀ t ∈ leaves C.e, C.ob ≠ C.blkOf t.name := fun t ht h => (hinit.ins t ht).1 h.symm
  have hvF2 : σ2.heap[C.ob]? = some blk1 := by rw [hh C.ob hobne]; exact hb1
  have init2 : InitC formats (indexDimensions a) { C with cellsOf := cellsOf' } tix σ2 :=
    hinit.transport hv (by rw [ht, ht1])
      (fun k hk1 hk2 => by rw [hh k hk2, ho1 k hk1])
      ⟨blk1, hvF2, by rw [a3]; exact halive, by rw [a2]; exact haown, by rw [a1]; exact haty,
        by rw [a4]; exact halen⟩
      hval
  obtain ⟨o2, e2, r2, it2, ht2, hl2, ho2, blk0', blk2, hb0', hb2, b1, b2, b3, b4, b5, b6⟩ :=
    denseTerm_compute_correct ofRat cap a formats { C with cellsOf := cellsOf' } hout hz hf ok' tix σ2 hok'
      init2 f hgen fuel hfuel
  have hb0'' : σ2.heap[C.ob]? = some blk0' := hb0'
  rw [hvF2] at hb0''; cases hb0''
  refine ⟨o2, e2, r2, it2, by rw [ht2, ht, ht1], by rw [hl2, hl, hl1], ?_, blk0, blk2, hab, hb2,
    by rw [b1, a1], by rw [b2, a2], by rw [b3, a3], by rw [b4, a4], b5, ?_⟩
  · intro k hk1 hk2
    rw [ho2 k hk1, hh k hk2, ho1 k hk1]
  · intro j hj
    rw [b6 j hj, a6 j hj]

/-! ### E5: exact instance -/

/-- **E5 (exact instance of E4).** Over `Rat` no finiteness hypothesis is left: `assemble` then `compute`
return `0`, `compute` allocates nothing and changes no record, and the cell of every output multi-index `J` of
block `σ.heap.length` (exactly `C.N` cells), to which the output record points, holds the nested sum over the
contraction indexes of the terminal expression, `sumSem` — as `denseTerm_kernel_exact` (T4) for `evaluate`. -/
theorem denseTerm_assemble_compute_exact (cap : Option Int) (a : Alg.DAssign) (formats : Formats)
    (C : Ctx Rat)
    (hout : tensorId 0 a.tname formats a.tidx = some C.outT)
    (hz : ∀ p ∈ C.full, p.2 = false → zeroish C.e = false)
    (hf : Dense2.denseFormats formats = true)
    (ok : KernelOK formats (indexDimensions a) C) (tix : String → Nat) (σ : State Rat)
    (hrec : ∀ t ∈ leaves C.e, tix t.name ≠ tix C.outT.name)
    (hob : C.ob = σ.heap.length) (hinit : Init formats (indexDimensions a) C tix σ)
    (fA fC : Func Rat)
    (hgenA : generateIr id cap a formats (graph C.full C.outT C.e) .assemble = .ok fA)
    (hgenC : generateIr id cap a formats (graph C.full C.outT C.e) .compute = .ok fC)
    (fuel : Nat) (hfuel : fuelNeed C.dimOf false C.full ≤ fuel) :
    ∃ oA oC,
      exec fuel fA.body σ = .ok oA ∧ oA.ret = some (.int 0) ∧ oA.iters = 0 ∧
      exec fuel fC.body (AsmCmp.nextCall σ oA.st) = .ok oC ∧ oC.ret = some (.int 0) ∧
      oC.st.heap.length = oA.st.heap.length ∧ oC.st.tensors = oA.st.tensors ∧
      (∃ tr, σ.tensors[tix C.outT.name]? = some tr ∧
        oC.st.tensors[tix C.outT.name]? = some { tr with vals := .ptr σ.heap.length 0 }) ∧
      ∃ blk, oC.st.heap[σ.heap.length]? = some blk ∧ blk.live = true ∧ blk.cells.length = C.N ∧
        ∀ J, Below J (outDims C.dimOf C.full) →
          blk.cells[lin 0 (outDims C.dimOf C.full) J]? = some (some (.flt
            (sumSem (termF (F := Rat) id C.dimOf C.cellsOf C.e) C.dimOf C.full (fun _ => 0) J))) := by
  have S := ok.static
  obtain ⟨fE, hgenE⟩ : ∃ fE, generateIr (F := Rat) id cap a formats (graph C.full C.outT C.e) .evaluate =
      .ok fE := ⟨_, denseTerm_generateIr_eq id cap a formats C.full C.outT C.e hout S.out S.expr S.nodup hz hf⟩
  obtain ⟨oA, oC, oE, eA, rA, itA, eC, rC, hl, ht, _, _, _, _, _, hrecC, _, ⟨blk, hb, hlive, _, _, hlen, hcells⟩,
    _, _⟩ :=
    denseTerm_assemble_compute_eq_evaluate (F := Rat) id cap a formats C hout hz hf ok tix σ hrec hob
      (fun J _ => cellOK_of_total (fun _ => rfl) _ _ _ _ _ J) hinit fA fC fE hgenA hgenC hgenE fuel hfuel
  refine ⟨oA, oC, eA, rA, itA, eC, rC, hl, ht, hrecC, blk, hb, hlive, hlen, ?_⟩
  intro J hJ
  rw [hcells J hJ, cellF_rat C.dimOf C.cellsOf C.e C.full J hJ]

/-! ### non-vacuity: the matrix product `a(i,j) = B(i,k) * C(k,j)`, `2×3` times `3×2`
(the instance of `C01DenseTerm.lean`) -/

/-- in the instance the inputs `B`, `C` have records different from the output's -/
theorem exRecsNeT : ∀ t ∈ leaves exE, exTix t.name ≠ exTix exOut.name := by decide

/-- **E1–E4 are not vacuous** (over `Int`): on the closed matrix-product instance every hypothesis holds,
`generateIr` produces the three kernels, `assemble` returns `0` after 0 iterations, `compute` called next
returns `0` without allocating and without touching a record, after the 24 loop iterations of `evaluate`, and
the memory is then EXACTLY the one `evaluate` leaves; block `5` holds `[[58, 64], [139, 154]]`. -/
example : ∃ fA fC fE oA oC oE,
    generateIr exOfRat none exAssign exFormats (graph exLv exOut exE) .assemble = .ok fA ∧
    generateIr exOfRat none exAssign exFormats (graph exLv exOut exE) .compute = .ok fC ∧
    generateIr exOfRat none exAssign exFormats (graph exLv exOut exE) .evaluate = .ok fE ∧
    exec 13 fA.body (exStateOf (F := Int) id) = .ok oA ∧ oA.ret = some (.int 0) ∧ oA.iters = 0 ∧
    exec 13 fC.body (AsmCmp.nextCall (exStateOf (F := Int) id) oA.st) = .ok oC ∧ oC.ret = some (.int 0) ∧
    oC.st.heap.length = oA.st.heap.length ∧ oC.st.tensors = oA.st.tensors ∧
    exec 13 fE.body (exStateOf (F := Int) id) = .ok oE ∧
    oC.st.heap = oE.st.heap ∧ oC.st.tensors = oE.st.tensors ∧
    ∃ blk, oC.st.heap[5]? = some blk ∧ blk.cells.length = 4 ∧
      blk.cells[0]? = some (some (.flt 58)) ∧ blk.cells[1]? = some (some (.flt 64)) ∧
      blk.cells[2]? = some (some (.flt 139)) ∧ blk.cells[3]? = some (some (.flt 154)) := by
  have hout : tensorId 0 exAssign.tname exFormats exAssign.tidx = some exOut := by rw [exAssign_eq]; rfl
  have hgenA := denseTerm_generateIr_assemble_eq exOfRat none exAssign exFormats exLv exOut exE hout
    (by decide) (by decide)
  have hgenC := denseTerm_generateIr_compute_eq exOfRat none exAssign exFormats exLv exOut exE hout
    (by decide) (by decide) (by decide) (by decide) (by decide)
  have hgenE := denseTerm_generateIr_eq exOfRat none exAssign exFormats exLv exOut exE hout
    (by decide) (by decide) (by decide) (by decide) (by decide)
  have hsrcs : indexDimensions exAssign = exSrcs := by rw [exAssign_eq]; rfl
  obtain ⟨oA, oC, oE, eA, rA, itA, eC, rC, hl, ht, eE, _, _, hh, htt, _, _, ⟨blk, hb, _, _, _, hlen, hcells⟩, _⟩ :=
    denseTerm_assemble_compute_eq_evaluate exOfRat none exAssign exFormats (exCtx (F := Int) id) hout
      (by decide) (by decide) (hsrcs ▸ exKernelOK _) exTix (exStateOf (F := Int) id) exRecsNeT rfl
      (fun J _ => cellOK_of_total (fun _ => rfl) _ _ _ _ _ J) (hsrcs ▸ exInitOf (F := Int) id) _ _ _
      hgenA hgenC hgenE 13 (by decide)
  refine ⟨_, _, _, oA, oC, oE, hgenA, hgenC, hgenE, eA, rA, itA, eC, rC, hl, ht, eE, hh, htt, blk, hb, hlen,
    ?_, ?_, ?_, ?_⟩
  · exact hcells [0, 0] ⟨by decide, by decide, trivial⟩
  · exact hcells [0, 1] ⟨by decide, by decide, trivial⟩
  · exact hcells [1, 0] ⟨by decide, by decide, trivial⟩
  · exact hcells [1, 1] ⟨by decide, by decide, trivial⟩

/-- `KernelOK` of the instance for arbitrary input values -/
theorem exKernelOKOf {F : Type} (cells : String → Nat → F) :
    KernelOK exFormats exSrcs ⟨exLv, exDimOf, exOut, exE, 5, exBlkOf, cells⟩ := by
  refine ⟨exStaticOf 5 cells, ⟨"a", rfl⟩, ?_, ?_, ?_, ?_, ?_, ?_, ?_, ?_⟩
  · show ∀ f ∈ exFormats, '_' ∉ f.1.toList; decide
  · show ∀ x ∈ idxs exLv, x ∉ exFormats.map (·.1); decide
  · show exOut.name ∈ exFormats.map (·.1); decide
  · show ∀ t ∈ leaves exE, t.name ∈ exFormats.map (·.1) ∧ t.name ≠ exOut.name; decide
  · show (exSrcs.map (·.1)).Nodup; decide
  · show ∀ p ∈ exSrcs, p.1 ∈ idxs exLv ∧ p.2.1 ∈ exFormats.map (·.1) ∧ p.2.2 < 2147483648; decide
  · show ∀ x ∈ idxs exLv, x ∈ exSrcs.map (·.1); decide
  · show exOut.indexes.length < 2147483648; decide

/-- new values of the inputs for the re-run: `B = [[1,0,0],[0,1,0]]`, `C` as before -/
def exCellsOfT' : String → Nat → Int :=
  fun s k => if s = "B" then [1, 0, 0, 0, 1, 0].getD k 0 else [7, 8, 9, 10, 11, 12].getD k 0

/-- **the re-run is not vacuous**: on the instance, after `assemble` and a first `compute` (block `5` =
`[[58, 64], [139, 154]]`), the caller overwrites `B` (block 2) with `[[1,0,0],[0,1,0]]` (and rewrites `C`, block
4, with the same values) and calls `compute` again: it returns `0`, records and heap length are those
`assemble` left, and the SAME block `5` now holds the first two rows of `C`, `[[7, 8], [9, 10]]` — NOT
`[[65, 72], [148, 164]]`: the accumulators were re-zeroed. -/
example : ∃ fA fC oA o1 o2,
    generateIr exOfRat none exAssign exFormats (graph exLv exOut exE) .assemble = .ok fA ∧
    generateIr exOfRat none exAssign exFormats (graph exLv exOut exE) .compute = .ok fC ∧
    exec 13 fA.body (exStateOf (F := Int) id) = .ok oA ∧
    exec 13 fC.body (AsmCmp.nextCall (exStateOf (F := Int) id) oA.st) = .ok o1 ∧
    exec 13 fC.body ⟨(exStateOf (F := Int) id).vars,
      (o1.st.heap.set 2 ⟨.float, [some (.flt 1), some (.flt 0), some (.flt 0), some (.flt 0), some (.flt 1),
          some (.flt 0)], .input, true⟩).set 4
        ⟨.float, [some (.flt 7), some (.flt 8), some (.flt 9), some (.flt 10), some (.flt 11),
          some (.flt 12)], .input, true⟩,
      o1.st.tensors⟩ = .ok o2 ∧
    o2.ret = some (.int 0) ∧ o2.st.tensors = oA.st.tensors ∧ o2.st.heap.length = oA.st.heap.length ∧
    ∃ vblk, o2.st.heap[5]? = some vblk ∧
      vblk.cells[0]? = some (some (.flt 7)) ∧ vblk.cells[1]? = some (some (.flt 8)) ∧
      vblk.cells[2]? = some (some (.flt 9)) ∧ vblk.cells[3]? = some (some (.flt 10)) := by
  have hout : tensorId 0 exAssign.tname exFormats exAssign.tidx = some exOut := by rw [exAssign_eq]; rfl
  have hgenA := denseTerm_generateIr_assemble_eq exOfRat none exAssign exFormats exLv exOut exE hout
    (by decide) (by decide)
  have hgenC := denseTerm_generateIr_compute_eq exOfRat none exAssign exFormats exLv exOut exE hout
    (by decide) (by decide) (by decide) (by decide) (by decide)
  have hsrcs : indexDimensions exAssign = exSrcs := by rw [exAssign_eq]; rfl
  obtain ⟨oA, eA, _, _, hpA⟩ :=
    denseTerm_assemble_correct exOfRat none exAssign exFormats (exCtx (F := Int) id) hout (by decide)
      (hsrcs ▸ exKernelOK _) exTix (exStateOf (F := Int) id) (hsrcs ▸ exInitOf (F := Int) id) _ hgenA 13
  have initC := initC_after_assemble (hsrcs ▸ exInitOf (F := Int) id) rfl exRecsNeT hpA
  obtain ⟨o1, e1, _, ht1, hl1, hre⟩ :=
    denseTerm_compute_rerun exOfRat none exAssign exFormats (exCtx (F := Int) id) exCellsOfT' hout (by decide)
      (by decide) (hsrcs ▸ exKernelOK _) (hsrcs ▸ exKernelOKOf exCellsOfT') exTix _
      (fun J _ => cellOK_of_total (fun _ => rfl) _ _ _ _ _ J)
      (fun J _ => cellOK_of_total (fun _ => rfl) _ _ _ _ _ J) initC _ hgenC 13 (by decide)
  have hl1' : o1.st.heap.length = 6 := by
    rw [hl1]; show oA.st.heap.length = 6; rw [hpA.heapLen]; rfl
  have hleaves : ∀ t ∈ leaves exE, t = exB ∨ t = exC := by
    intro t ht
    have : t ∈ [exB, exC] := ht
    simpa using this
  obtain ⟨o2, e2, r2, _, ht2, hl2, _, blk0, blk2, _, hb2, _, _, _, _, b5, _⟩ :=
    hre ⟨(exStateOf (F := Int) id).vars,
      (o1.st.heap.set 2 ⟨.float, [some (.flt 1), some (.flt 0), some (.flt 0), some (.flt 0), some (.flt 1),
          some (.flt 0)], .input, true⟩).set 4
        ⟨.float, [some (.flt 7), some (.flt 8), some (.flt 9), some (.flt 10), some (.flt 11),
          some (.flt 12)], .input, true⟩,
      o1.st.tensors⟩ rfl rfl (by simp)
      (by
        intro k hk
        have hk2 : k ≠ 2 := hk exB (by decide)
        have hk4 : k ≠ 4 := hk exC (by decide)
        show ((o1.st.heap.set 2 _).set 4 _)[k]? = _
        rw [List.getElem?_set_ne (Ne.symm hk4), List.getElem?_set_ne (Ne.symm hk2)])
      (by
        intro t ht
        rcases hleaves t ht with rfl | rfl
        · refine ⟨⟨.float, [some (.flt 1), some (.flt 0), some (.flt 0), some (.flt 0), some (.flt 1),
            some (.flt 0)], .input, true⟩, ?_, rfl, rfl, ?_⟩
          · show ((o1.st.heap.set 2 _).set 4 _)[2]? = _
            rw [List.getElem?_set_ne (by decide), List.getElem?_set_self (by omega)]
          · intro j hj
            have hj : j < 6 := hj
            match j, hj with
            | 0, _ => rfl
            | 1, _ => rfl
            | 2, _ => rfl
            | 3, _ => rfl
            | 4, _ => rfl
            | 5, _ => rfl
        · refine ⟨⟨.float, [some (.flt 7), some (.flt 8), some (.flt 9), some (.flt 10), some (.flt 11),
            some (.flt 12)], .input, true⟩, ?_, rfl, rfl, ?_⟩
          · show ((o1.st.heap.set 2 _).set 4 _)[4]? = _
            rw [List.getElem?_set_self (by simp; omega)]
          · intro j hj
            have hj : j < 6 := hj
            match j, hj with
            | 0, _ => rfl
            | 1, _ => rfl
            | 2, _ => rfl
            | 3, _ => rfl
            | 4, _ => rfl
            | 5, _ => rfl)
  refine ⟨_, _, oA, o1, o2, hgenA, hgenC, eA, e1, e2, r2, ht2, hl2, blk2, hb2, ?_, ?_, ?_, ?_⟩
  · exact b5 [0, 0] ⟨by decide, by decide, trivial⟩
  · exact b5 [0, 1] ⟨by decide, by decide, trivial⟩
  · exact b5 [1, 0] ⟨by decide, by decide, trivial⟩
  · exact b5 [1, 1] ⟨by decide, by decide, trivial⟩

/-- **E5 is not vacuous**: the same instance over `Rat` -/
example : ∃ (fA fC : Func Rat) (oA oC : Out Rat),
    generateIr (F := Rat) id none exAssign exFormats (graph exLv exOut exE) .assemble = .ok fA ∧
    generateIr (F := Rat) id none exAssign exFormats (graph exLv exOut exE) .compute = .ok fC ∧
    exec 13 fA.body (exStateOf (fun z => (z : Rat))) = .ok oA ∧ oA.ret = some (.int 0) ∧
    exec 13 fC.body (AsmCmp.nextCall (exStateOf (fun z => (z : Rat))) oA.st) = .ok oC ∧
    oC.ret = some (.int 0) ∧
    ∃ blk, oC.st.heap[5]? = some blk ∧ blk.cells.length = 4 ∧
      ∀ J, Below J [2, 2] → blk.cells[lin 0 [2, 2] J]? = some (some (.flt
        (sumSem (termF (F := Rat) id exDimOf (exCellsOf (fun z => (z : Rat))) exE) exDimOf exLv
          (fun _ => 0) J))) := by
  have hout : tensorId 0 exAssign.tname exFormats exAssign.tidx = some exOut := by rw [exAssign_eq]; rfl
  have hgenA := denseTerm_generateIr_assemble_eq (F := Rat) id none exAssign exFormats exLv exOut exE hout
    (by decide) (by decide)
  have hgenC := denseTerm_generateIr_compute_eq (F := Rat) id none exAssign exFormats exLv exOut exE hout
    (by decide) (by decide) (by decide) (by decide) (by decide)
  have hsrcs : indexDimensions exAssign = exSrcs := by rw [exAssign_eq]; rfl
  obtain ⟨oA, oC, eA, rA, _, eC, rC, _, _, _, blk, hb, _, hlen, hcells⟩ :=
    denseTerm_assemble_compute_exact none exAssign exFormats (exCtx (fun z => (z : Rat))) hout (by decide)
      (by decide) (hsrcs ▸ exKernelOK _) exTix (exStateOf (fun z => (z : Rat))) exRecsNeT rfl
      (hsrcs ▸ exInitOf (fun z => (z : Rat))) _ _ hgenA hgenC 13 (by decide)
  exact ⟨_, _, oA, oC, hgenA, hgenC, eA, rA, eC, rC, blk, hb, hlen, hcells⟩

end TV.DenseTerm
