import TensoraVerif.Lemmas.LoweringPeep
import TensoraVerif.Lemmas.LoweringGenerate
import TensoraVerif.Props.C04

/-!
C04 for *every* kernel the compiler can generate (not only per-kernel certificates):

* **L1** `generateIr_compute_noAlloc` — for every assignment, format table, iteration graph, literal
  conversion and initial capacity, the `compute` kernel produced by the lowering pass
  (`Model/GenerateIR.lean`) carries the certificate `Stmt.noAlloc`.
* **L2** `peepE_noAlloc`, `peepS_noAlloc`, `peepE_mentions`, `peepS_deadVar` — the peephole optimiser
  preserves the certificates `noAlloc` and `deadVar`.
* **L3** `compute_kernel_never_reallocates` — hence the optimised `compute` kernel of every problem
  cannot allocate, reallocate, free or resize any block, for every start state and every fuel.
* **L4** `generateIr_shape`, `generateIr_dimensions_read_once` — every kernel (all three kinds) is
  `{ "Extract dimensions"; "Unpack tensors"; "Output initialization"; …; return 0 }`; the
  `dimensions` attribute of a tensor is read only by the `<i>_dim` declarations of the first block
  (one per index, no index twice) and — only in an assembling kernel whose output is all-dense — by
  the `vals` capacity of "Output initialization".
-/
namespace TV.Gen
open TV.IR TV.Graph
variable {F : Type} [FloatOps F]

/-! ### L1 -/

omit [FloatOps F] in
theorem generateIr_compute_noAlloc (ofRat : Rat → F) (cap : Option Int) (a : Alg.DAssign) (formats : Formats)
    (g : IGraph) (f : Func F) (h : generateIr ofRat cap a formats g .compute = .ok f) :
    f.body.noAlloc = true := by
  rw [noAlloc_eq_cert]
  exact generateIr_cert (fun _ => true) false ofRat cap a formats g .compute f
    (by simp [Kind.isAssemble]) ⟨rfl, rfl, rfl⟩ h

omit [FloatOps F] in
/-- the lowering of any graph, against any output object, is allocation-free for `compute` -/
theorem lower_compute_noAlloc (ofRat : Rat → F) (fuel : Nat) (g : IGraph) (out : Output) (b : SB F)
    (h : lower ofRat fuel g out .compute = .ok b) : b.finalize.noAlloc = true := by
  rw [noAlloc_eq_cert, SB.cert_finalize]
  exact lower_cert (fun _ => true) false ofRat .compute (by simp [Kind.isAssemble]) fuel g out b h

/-! ### L2 -/

theorem peepE_noAlloc (e : Expr F) (h : e.noAllocE = true) : (peepE e).noAllocE = true :=
  noAllocE_peepE e h

theorem peepS_noAlloc (s : Stmt F) (h : s.noAlloc = true) : (peepS s).noAlloc = true :=
  noAlloc_peepS s h

theorem peepE_mentions (x : String) (e : Expr F) (h : e.mentions x = false) : (peepE e).mentions x = false :=
  mentions_peepE x e h

theorem peepS_deadVar (x : String) (s : Stmt F) (h : s.deadVar x = true) : (peepS s).deadVar x = true :=
  deadVar_peepS x s h

/-! ### L3 -/

theorem compute_kernel_never_reallocates (ofRat : Rat → F) (cap : Option Int) (a : Alg.DAssign)
    (formats : Formats) (g : IGraph) (f : Func F)
    (h : generateIr ofRat cap a formats g .compute = .ok f)
    (fuel : Nat) (σ : State F) (o : Out F) (hrun : exec fuel (peepS f.body) σ = .ok o) :
    o.st.heap.length = σ.heap.length ∧
    ∀ (b : Nat) (blk : Block F), σ.heap[b]? = some blk → ∃ blk', o.st.heap[b]? = some blk' ∧
      blk'.cells.length = blk.cells.length ∧ blk'.live = blk.live ∧ blk'.ty = blk.ty ∧
        blk'.owner = blk.owner :=
  noAlloc_sound fuel (peepS f.body) σ o
    (peepS_noAlloc _ (generateIr_compute_noAlloc ofRat cap a formats g f h)) hrun

/-- the same for the kernel as generated (not optimised) -/
theorem compute_kernel_never_reallocates_raw (ofRat : Rat → F) (cap : Option Int) (a : Alg.DAssign)
    (formats : Formats) (g : IGraph) (f : Func F)
    (h : generateIr ofRat cap a formats g .compute = .ok f)
    (fuel : Nat) (σ : State F) (o : Out F) (hrun : exec fuel f.body σ = .ok o) :
    o.st.heap.length = σ.heap.length ∧
    ∀ (b : Nat) (blk : Block F), σ.heap[b]? = some blk → ∃ blk', o.st.heap[b]? = some blk' ∧
      blk'.cells.length = blk.cells.length ∧ blk'.live = blk.live ∧ blk'.ty = blk.ty ∧
        blk'.owner = blk.owner :=
  noAlloc_sound fuel f.body σ o (generateIr_compute_noAlloc ofRat cap a formats g f h) hrun

/-! ### non-vacuity (over the exact carrier `F := Int`): the hypothesis of L1/L3 is satisfiable — the
scalar kernel `a() = 0` is generated; the theorems then apply to it. (On the running example
`a(i) = b(i,j) * c(j)`, formats `s` / `ds` / `s`, `#eval` gives `noAlloc = true` for `compute`,
`false` for `assemble` and `evaluate`.) -/

example : ∃ f, generateIr (F := Int) (fun r => r.num) none ⟨"a", [], .int 0⟩ [("a", [], [])]
    (.terminal (.int 0)) .compute = .ok f ∧ (peepS f.body).noAlloc = true := by
  have h : ∃ f, generateIr (F := Int) (fun r => r.num) none ⟨"a", [], .int 0⟩ [("a", [], [])]
      (.terminal (.int 0)) .compute = .ok f := by
    unfold generateIr
    simp only [IGraph.size]
    unfold lower
    simp [Kind.isCompute, Output.writeAssignment, tensorId, bind, Except.bind, pure, Except.pure]
  obtain ⟨f, hf⟩ := h
  exact ⟨f, hf, peepS_noAlloc _ (generateIr_compute_noAlloc _ _ _ _ _ f hf)⟩

/-! ### L4 -/

/-- attribute predicate "is not `dimensions`" -/
def noDims (a : String) : Bool := a != "dimensions"

/-- the output tensor stores every layer densely -/
def outAllDense (a : Alg.DAssign) (formats : Formats) : Bool :=
  (List.range (outTensor a formats).modes.length).all fun i =>
    (outTensor a formats).modes.getD i .dense == .dense

omit [FloatOps F] in
/-- **Shape of every generated kernel** (any kind): name, return type, parameters; the body is
`{ dims; unpack; decls; stmts…; return 0 }` where `dims` are exactly the `<i>_dim` declarations of
`indexDimensions a` (`dimDecls`), and no statement outside `dims` reads a `dimensions` attribute,
except "Output initialization" in the single case of an assembling kernel with all-dense output. -/
theorem generateIr_shape (ofRat : Rat → F) (cap : Option Int) (a : Alg.DAssign) (formats : Formats) (g : IGraph)
    (k : Kind) (f : Func F) (h : generateIr ofRat cap a formats g k = .ok f) :
    f.name = k.name ∧ f.retTy = .int ∧ (f.params = formats.map fun (n, _, _) => (n, .ptr .tensor)) ∧
    ∃ stmts : List (Stmt F),
      f.body = .block (.block (dimDecls a) (some "Extract dimensions") ::
        .block (unpackDecls formats) (some "Unpack tensors") ::
        .block (appendDeclarations cap (outTensor a formats) k).lines (some "Output initialization") ::
        (stmts ++ [.ret (.intLit 0)])) none ∧
      certL noDims true (unpackDecls formats : List (Stmt F)) = true ∧
      certL noDims true stmts = true ∧
      (¬ (k.isAssemble = true ∧ outAllDense a formats = true) →
        certL noDims true (appendDeclarations cap (outTensor a formats) k : SB F).lines = true) := by
  obtain ⟨body, hbody, hf, hn, hr, hp⟩ := generateIr_body ofRat cap a formats g k f h
  refine ⟨hn, hr, hp, _, hf, unpackDecls_cert noDims true formats ⟨by decide, by decide⟩, ?_, ?_⟩
  · rw [certL_append, SB.cert_appended, SB.cert_appended,
      lower_cert noDims true ofRat k (fun _ => rfl) _ _ _ _ hbody,
      appendCleanup_cert noDims true _ k (fun _ => rfl) (fun _ => ⟨by decide, by decide⟩)]
    rfl
  · intro hne
    exact appendDeclarations_cert noDims true cap _ k (fun _ => rfl)
      (fun hk hd => absurd ⟨hk, hd⟩ hne)

omit [FloatOps F] in
/-- in particular a `compute` kernel reads `dimensions` only in its `<i>_dim` declarations -/
theorem generateIr_compute_dims (ofRat : Rat → F) (cap : Option Int) (a : Alg.DAssign) (formats : Formats)
    (g : IGraph) (f : Func F) (h : generateIr ofRat cap a formats g .compute = .ok f) :
    ∃ rest : List (Stmt F),
      f.body = .block (.block (dimDecls a) (some "Extract dimensions") :: rest) none ∧
      certL noDims true rest = true := by
  obtain ⟨-, -, -, stmts, hf, hu, hs, hd⟩ := generateIr_shape ofRat cap a formats g .compute f h
  refine ⟨.block (unpackDecls formats) (some "Unpack tensors") ::
        .block (appendDeclarations cap (outTensor a formats) .compute).lines (some "Output initialization") ::
        (stmts ++ [.ret (.intLit 0)]), hf, ?_⟩
  simp only [certL, certL_append, Stmt.cert, hu, hs, hd (by simp [Kind.isAssemble]), Expr.cert, Bool.and_self]

/-- every index is given exactly one `<i>_dim` declaration: the index names of `indexDimensions a`
are pairwise distinct -/
theorem indexDimensions_nodup (a : Alg.DAssign) : ((indexDimensions a).map (·.1)).Nodup := by
  have hOf : ∀ (name : String) (idx : List String) (acc : List (String × String × Nat)),
      (acc.map (·.1)).Nodup →
      ((List.foldl (fun (acc : List (String × String × Nat)) d =>
          let i := idx.getD d ""
          if acc.any (·.1 == i) then acc else acc ++ [(i, name, d)]) acc (List.range idx.length)).map (·.1)).Nodup := by
    intro name idx acc hacc
    refine foldl_inv (fun (acc : List (String × String × Nat)) => (acc.map (·.1)).Nodup) _ _ acc hacc ?_
    intro acc d _ hacc
    simp only []
    split
    · exact hacc
    · rename_i hany
      rw [List.map_append, List.nodup_append]
      refine ⟨hacc, by simp, ?_⟩
      intro x hx y hy
      simp only [List.map_cons, List.map_nil, List.mem_singleton] at hy
      subst hy
      intro hxy
      subst hxy
      apply hany
      obtain ⟨p, hp, hpx⟩ := List.mem_map.1 hx
      exact List.any_eq_true.2 ⟨p, hp, by simp [hpx]⟩
  have hGo : ∀ (ofT : String → List String → List (String × String × Nat) → List (String × String × Nat)),
      (∀ name idx acc, (acc.map (·.1)).Nodup → ((ofT name idx acc).map (·.1)).Nodup) →
      ∀ (e : Alg.DExpr) (acc : List (String × String × Nat)), (acc.map (·.1)).Nodup →
        ((indexDimensions.go ofT e acc).map (·.1)).Nodup := by
    intro ofT hT e
    induction e with
    | int v => intro acc h; simpa [indexDimensions.go] using h
    | flt v => intro acc h; simpa [indexDimensions.go] using h
    | tensor i n idx => intro acc h; simpa [indexDimensions.go] using hT n idx acc h
    | add l r ihl ihr => intro acc h; simpa [indexDimensions.go] using ihr _ (ihl _ h)
    | mul l r ihl ihr => intro acc h; simpa [indexDimensions.go] using ihr _ (ihl _ h)
    | contract i e ih => intro acc h; simpa [indexDimensions.go] using ih _ h
  unfold indexDimensions
  exact hGo _ hOf _ _ (hOf _ _ [] (by simp))

end TV.Gen
