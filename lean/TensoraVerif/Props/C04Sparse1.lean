import TensoraVerif.Lemmas.AsmCmpCompose
import TensoraVerif.Props.C01Sparse1

/-!
# C04, end to end, for the sparse vector copy / scale kernels (class `Sparse1`)

"Running the assemble kernel and then the compute kernel on the same output yields exactly the structure and
values that the evaluate kernel yields; the compute kernel never changes or reallocates the structure it is
given, writes only inside the value array assemble sized, and can be re-run with inputs of identical structure
but different values" — proved ON THE MACHINE (`IR.exec`) for every kernel of the class of
`Props/C01Sparse1.lean`: `a(i) = e`, `a` a compressed vector, `e` mentioning exactly one compressed vector
`b(i)` with a sparse loop (`Sparse1.isSp`, `Sparse1.isExpr`, graph `Sparse1.graph i outT e`).

* **A1** `sparse1_generateIr_assemble_eq`, `sparse1_generateIr_compute_eq` — what `generateIr` emits for the
  kinds `.assemble` / `.compute`, written out (`AsmCmp.kernelA`, `AsmCmp.kernelC`).
* **A2** `sparse1_assemble_correct` — the assembling kernel from a kernel-call state (`Sparse1.Init`), any
  initial capacity `≥ 1`: returns `0`, `pos = [0, m]`, `crd` = `b`'s coordinates (exact sizes), a `vals` block of
  exactly `m + 1` cells (the size `evaluate` allocates; contents unspecified — the kernel never stores into
  it), inputs untouched. Neither sortedness of `b` nor finiteness of values is needed.
* **A3** `sparse1_compute_correct` — the computing kernel from ANY kernel-call state whose output record owns a
  live `vals` block of at least `m` cells (`AsmCmp.InitC`): returns `0`, NO allocation (heap length unchanged),
  ALL tensor records unchanged, every block other than `vals` unchanged, `vals[j] = ⟦e⟧` at `b`'s `j`-th entry
  for `j < m`, cells `≥ m` unchanged. `sparse1_compute_preserves_structure`: in particular a structure
  `pos = [0, m]`, `crd` = `b`'s coordinates is still there, in the same blocks.
* **A4** `sparse1_assemble_compute_eq_evaluate` — assemble, then compute in the next call
  (`AsmCmp.nextCall`), gives the same `pos` block, the same `crd` block and a `vals` block of the same shape
  with the same first `m` cells as `evaluate` (`sparse1_kernel_correct`) from the same initial state;
  `sparse1_compute_rerun` — after changing the input VALUES (same coordinates) a second compute call yields
  the new values in the same blocks, without allocation.
* **A5** `sparse1_assemble_compute_exact` — over `Rat` the values are `Graph.value`.
* non-vacuity: the closed instance of `C01Sparse1.lean` (`b = {1: 2, 3: 5}`, `a(i) = 2 * b(i)`, capacity 1).

Vocabulary: `Lemmas/AsmCmpModel.lean` (emitted kernels), `AsmCmpAsmBody.lean` (`InvA`), `AsmCmpAsmKernel.lean`
(`KernelPostA`), `AsmCmpCmpBody.lean` (`InvC`), `AsmCmpCmpKernel.lean` (`InitC`, `KernelPostC`),
`AsmCmpCompose.lean` (`nextCall`).
-/
namespace TV.Sparse1
open TV.IR TV.Gen TV.Graph TV.Growth TV.Merge TV.AsmCmp

variable {F : Type} [FloatOps F]

/-! ### A1: what the pass emits -/

/-- **The generated `assemble` kernel.** Under the hypotheses of `sparse1_generateIr_eq`, `generateIr … .assemble`
succeeds and returns exactly `AsmCmp.kernelA`: the `evaluate` kernel in which the terminal block is only
`written = true;` (no store into `vals`; the right-hand side `e` does not occur in the kernel at all). -/
theorem sparse1_generateIr_assemble_eq (ofRat : Rat → F) (cap : Option Int) (a : Alg.DAssign)
    (formats : Formats) (i : String) (outT bT : TensorId) (e : IdExpr)
    (hout : tensorId 0 a.tname formats a.tidx = some outT)
    (ho : isSp i outT = true) (he : isExpr i bT e = true) (hf : sparseFormats formats = true)
    (hidx : a.tidx = [i]) (hrhs : Dense1.rhsIdx i a.rhs = true) :
    generateIr ofRat cap a formats (graph i outT e) .assemble =
      .ok (kernelA cap formats i outT bT) :=
  generateIr_eqA ofRat cap a formats i outT bT e hout (Dense1.tensorId_name hout) ho he hf
    (Dense1.indexDimensions_eq a i hidx hrhs)

/-- **The generated `compute` kernel.** Under the same hypotheses `generateIr … .compute` succeeds and returns
exactly `AsmCmp.kernelC`: extract `i_dim`, unpack `pos`/`crd`/`vals` of every tensor, `int p_a = 0;`, `int p_b =
b_pos[0]; int p_b_end = b_pos[1]; while (p_b < p_b_end) { int i_b = b_crd[p_b]; int i = i_b; if (i_b == i) {
bool written = false; { written = true; a_vals[p_a] = <e>; } if (written) { p_a = p_a + 1; } } p_b += (i_b ==
i); }`, an EMPTY "Assembling output tensor" block, `return 0` — no `malloc`/`realloc`, no store into `pos`,
`crd` or the record; the initial capacity `cap` does not occur. -/
theorem sparse1_generateIr_compute_eq (ofRat : Rat → F) (cap : Option Int) (a : Alg.DAssign)
    (formats : Formats) (i : String) (outT bT : TensorId) (e : IdExpr)
    (hout : tensorId 0 a.tname formats a.tidx = some outT)
    (ho : isSp i outT = true) (he : isExpr i bT e = true) (hf : sparseFormats formats = true)
    (hidx : a.tidx = [i]) (hrhs : Dense1.rhsIdx i a.rhs = true) :
    generateIr ofRat cap a formats (graph i outT e) .compute =
      .ok (kernelC ofRat formats i outT bT e) :=
  generateIr_eqC ofRat cap a formats i outT bT e hout (Dense1.tensorId_name hout) ho he hf
    (Dense1.indexDimensions_eq a i hidx hrhs)

/-! ### A2: the assembling kernel -/

/-- **A2 (the generated `assemble` kernel is correct).** Under the static hypotheses of
`sparse1_kernel_correct`, for ANY initial capacity `1 ≤ capVal cap < 2^31` and any kernel-call state `σ`
(`Init`) whose input `b` has `m ≤ 2^30` stored int32 coordinates `crdB` (sortedness is NOT needed, nor any
hypothesis on the values): the function `generateIr … .assemble` produces runs with any fuel `≥ m + 1`
WITHOUT ERROR, **returns `0`** after exactly `m` loop iterations, and in the final state
* the output record (still output-owned, same order and dimensions block) has slot 0 = (`pos`, `crd`) and
  `vals` = the base addresses of three different FRESH blocks, live and output-owned;
* the `pos` block is exactly `[0, m]`; the `crd` block is exactly `[crdB 0, …, crdB (m-1)]`;
* the `vals` block is a `float` block of exactly `m + 1` cells — the size the `evaluate` kernel leaves
  (`sparse1_kernel_correct`); its CONTENTS ARE UNSPECIFIED: the kernel allocates it (`malloc` of `cap` cells in
  "Output initialization"), doubles it in step with the cursor ("vals allocation") and `realloc`s it to
  `p_a + 1` cells in the cleanup, but never stores into it;
* every other tensor record and EVERY block of the initial heap (all inputs) is unchanged. -/
theorem sparse1_assemble_correct (ofRat : Rat → F) (cap : Option Int) (a : Alg.DAssign) (formats : Formats)
    (i : String) (outT bT : TensorId) (e : IdExpr)
    (hout : tensorId 0 a.tname formats a.tidx = some outT)
    (ho : isSp i outT = true) (he : isExpr i bT e = true) (hf : sparseFormats formats = true)
    (hidx : a.tidx = [i]) (hrhs : Dense1.rhsIdx i a.rhs = true) (ok : KernelOK formats i outT bT)
    (hk0 : 1 ≤ capVal cap) (hk1 : capVal cap < 2147483648)
    (ta tb : Nat) (atr btr : TensorRec F) (n : Int) (m bpb bcb bvb : Nat) (crdB : Nat → Int)
    (cellsB : Nat → F) (σ : State F)
    (init : Init outT bT ta tb atr btr n m bpb bcb bvb crdB cellsB σ)
    (hm : m ≤ 1073741824)
    (hrng : ∀ j, j < m → -2147483648 ≤ crdB j ∧ crdB j < 2147483648)
    (f : Func F) (hgen : generateIr ofRat cap a formats (graph i outT e) .assemble = .ok f)
    (fuel : Nat) (hfuel : m + 1 ≤ fuel) :
    ∃ o, exec fuel f.body σ = .ok o ∧ o.ret = some (.int 0) ∧ o.iters = m ∧
      (∃ tr' pF cF vF vblk, o.st.tensors[ta]? = some tr' ∧ tr'.owner = .output ∧ tr'.order = atr.order ∧
        tr'.dimsBlk = atr.dimsBlk ∧ tr'.slots = atr.slots.set 0 (some (.ptr pF 0, .ptr cF 0)) ∧
        tr'.vals = .ptr vF 0 ∧
        σ.heap.length ≤ pF ∧ σ.heap.length ≤ cF ∧ σ.heap.length ≤ vF ∧ pF ≠ cF ∧ pF ≠ vF ∧ cF ≠ vF ∧
        o.st.heap[pF]? = some ⟨.int, [some (.int 0), some (.int m)], .output, true⟩ ∧
        o.st.heap[cF]? = some ⟨.int, (List.range m).map (fun j => some (.int (crdB j))), .output, true⟩ ∧
        o.st.heap[vF]? = some vblk ∧ vblk.live = true ∧ vblk.owner = .output ∧ vblk.ty = .float ∧
        vblk.cells.length = m + 1) ∧
      (∀ k, k ≠ ta → o.st.tensors[k]? = σ.tensors[k]?) ∧
      o.st.tensors.length = σ.tensors.length ∧
      (∀ k, k < σ.heap.length → o.st.heap[k]? = σ.heap[k]?) := by
  rw [sparse1_generateIr_assemble_eq ofRat cap a formats i outT bT e hout ho he hf hidx hrhs] at hgen
  cases hgen
  obtain ⟨o, eo, hret, hit, hp⟩ := kernel_runsA cap formats i outT bT ho ok hk0 hk1 init hm hrng fuel hfuel
  exact ⟨o, eo, hret, hit, hp.outRec, hp.otherRecs, hp.tlen, hp.heap⟩

/-! ### A3: the computing kernel -/

/-- **A3 (the generated `compute` kernel is correct, from ANY suitable state).** Under the static hypotheses
of `sparse1_kernel_correct`, let `σ` be a kernel-call state (`InitC`: the variables are exactly the two tensor
parameters; the output record `ta` = `atr` is output-owned, its slot 0 holds two pointers or `NULL`s — they
are never dereferenced —, and `atr.vals` is the base address of a live, output-owned `float` block `vF` of AT
LEAST `m` cells, different from the three blocks of `b`; `b` has `m` entries `crdB`/`cellsB`), with `m <
2^31`, `b`'s coordinates strictly increasing int32s and every sub-result of `e` finite at every entry. This
covers the state the assembling kernel leaves (`sparse1_assemble_compute_eq_evaluate`), and any state with a
structure `pos = [0, m]`, `crd` = `b`'s coordinates (`sparse1_compute_preserves_structure`). Then the function
`generateIr … .compute` produces runs with any fuel `≥ m + 1` WITHOUT ERROR, **returns `0`** after exactly `m`
loop iterations, and
* **no allocation**: the heap has the same length;
* **the structure is untouched**: ALL tensor records are unchanged (the output record keeps its slots and
  `vals` — same block ids), and every heap block other than `vF` is unchanged (the output's `pos`/`crd`
  blocks, every input, everything else);
* **it writes only inside the value array**: block `vF` keeps type, owner, liveness and LENGTH; its cells
  `j < m` hold `valueF ofRat (b ↦ cellsB j) e`; its cells `j ≥ m` are unchanged. -/
theorem sparse1_compute_correct (ofRat : Rat → F) (cap : Option Int) (a : Alg.DAssign) (formats : Formats)
    (i : String) (outT bT : TensorId) (e : IdExpr)
    (hout : tensorId 0 a.tname formats a.tidx = some outT)
    (ho : isSp i outT = true) (he : isExpr i bT e = true) (hf : sparseFormats formats = true)
    (hidx : a.tidx = [i]) (hrhs : Dense1.rhsIdx i a.rhs = true) (ok : KernelOK formats i outT bT)
    (ta tb : Nat) (atr btr : TensorRec F) (n : Int) (m bpb bcb bvb : Nat) (crdB : Nat → Int)
    (cellsB : Nat → F) (vF : Nat) (σ : State F)
    (init : InitC outT bT ta tb atr btr n m bpb bcb bvb crdB cellsB vF σ)
    (hm : m < 2147483648)
    (hsorted : ∀ j k, j < k → k < m → crdB j < crdB k)
    (hrng : ∀ j, j < m → -2147483648 ≤ crdB j ∧ crdB j < 2147483648)
    (hfin : ∀ q, q < m → ToIr.AllFinite ofRat (fun _ => cellsB q) e)
    (f : Func F) (hgen : generateIr ofRat cap a formats (graph i outT e) .compute = .ok f)
    (fuel : Nat) (hfuel : m + 1 ≤ fuel) :
    ∃ o, exec fuel f.body σ = .ok o ∧ o.ret = some (.int 0) ∧ o.iters = m ∧
      o.st.tensors = σ.tensors ∧
      o.st.heap.length = σ.heap.length ∧
      (∀ k, k ≠ vF → o.st.heap[k]? = σ.heap[k]?) ∧
      ∃ blk0 blk, σ.heap[vF]? = some blk0 ∧ o.st.heap[vF]? = some blk ∧ blk.ty = blk0.ty ∧
        blk.owner = blk0.owner ∧ blk.live = blk0.live ∧ blk.cells.length = blk0.cells.length ∧
        (∀ j, j < m → blk.cells[j]? = some (some (.flt (ToIr.valueF ofRat (fun _ => cellsB j) e)))) ∧
        (∀ j, m ≤ j → blk.cells[j]? = blk0.cells[j]?) := by
  rw [sparse1_generateIr_compute_eq ofRat cap a formats i outT bT e hout ho he hf hidx hrhs] at hgen
  cases hgen
  obtain ⟨o, eo, hret, hit, hp⟩ := kernel_runsC ofRat formats i outT bT e ho he ok init hm hsorted hrng hfin
    fuel hfuel
  exact ⟨o, eo, hret, hit, hp.tensors, hp.len, hp.other, hp.vals⟩

/-- **A3, in the words of the property: the structure given to `compute` is still there, in the same blocks.**
If moreover the output record's slot 0 is (`pF`, `cF`) with `pos` block `[0, m]` and `crd` block = `b`'s
coordinates (both different from `vF`), then after the computing kernel the output record is THE SAME record
(`atr`: same slots, same `vals` pointer), block `pF` is still `[0, m]`, block `cF` is still `b`'s coordinates,
the heap has not grown, and block `vF` has the same length with `⟦e⟧` in its first `m` cells. -/
theorem sparse1_compute_preserves_structure (ofRat : Rat → F) (cap : Option Int) (a : Alg.DAssign)
    (formats : Formats) (i : String) (outT bT : TensorId) (e : IdExpr)
    (hout : tensorId 0 a.tname formats a.tidx = some outT)
    (ho : isSp i outT = true) (he : isExpr i bT e = true) (hf : sparseFormats formats = true)
    (hidx : a.tidx = [i]) (hrhs : Dense1.rhsIdx i a.rhs = true) (ok : KernelOK formats i outT bT)
    (ta tb : Nat) (atr btr : TensorRec F) (n : Int) (m bpb bcb bvb : Nat) (crdB : Nat → Int)
    (cellsB : Nat → F) (pF cF vF : Nat) (σ : State F)
    (init : InitC outT bT ta tb atr btr n m bpb bcb bvb crdB cellsB vF σ)
    (hslot : atr.slots[0]? = some (some (.ptr pF 0, .ptr cF 0)))
    (hpos : σ.heap[pF]? = some ⟨.int, [some (.int 0), some (.int m)], .output, true⟩)
    (hcrd : σ.heap[cF]? = some ⟨.int, (List.range m).map (fun j => some (.int (crdB j))), .output, true⟩)
    (hpv : pF ≠ vF) (hcv : cF ≠ vF)
    (hm : m < 2147483648)
    (hsorted : ∀ j k, j < k → k < m → crdB j < crdB k)
    (hrng : ∀ j, j < m → -2147483648 ≤ crdB j ∧ crdB j < 2147483648)
    (hfin : ∀ q, q < m → ToIr.AllFinite ofRat (fun _ => cellsB q) e)
    (f : Func F) (hgen : generateIr ofRat cap a formats (graph i outT e) .compute = .ok f)
    (fuel : Nat) (hfuel : m + 1 ≤ fuel) :
    ∃ o, exec fuel f.body σ = .ok o ∧ o.ret = some (.int 0) ∧
      o.st.tensors[ta]? = some atr ∧ atr.slots[0]? = some (some (.ptr pF 0, .ptr cF 0)) ∧
      atr.vals = .ptr vF 0 ∧
      o.st.heap.length = σ.heap.length ∧
      o.st.heap[pF]? = some ⟨.int, [some (.int 0), some (.int m)], .output, true⟩ ∧
      o.st.heap[cF]? = some ⟨.int, (List.range m).map (fun j => some (.int (crdB j))), .output, true⟩ ∧
      ∃ blk0 blk, σ.heap[vF]? = some blk0 ∧ o.st.heap[vF]? = some blk ∧ blk.live = true ∧
        blk.owner = .output ∧ blk.ty = .float ∧ blk.cells.length = blk0.cells.length ∧
        ∀ j, j < m → blk.cells[j]? = some (some (.flt (ToIr.valueF ofRat (fun _ => cellsB j) e))) := by
  obtain ⟨o, eo, hret, _, ht, hl, hother, blk0, blk, hb0, hb, h1, h2, h3, h4, h5, _⟩ :=
    sparse1_compute_correct ofRat cap a formats i outT bT e hout ho he hf hidx hrhs ok ta tb atr btr n m bpb
      bcb bvb crdB cellsB vF σ init hm hsorted hrng hfin f hgen fuel hfuel
  obtain ⟨ablk, hab, halive, haown, haty, _⟩ := init.vblk
  rw [hab] at hb0; cases hb0
  exact ⟨o, eo, hret, by rw [ht]; exact init.base.arec, hslot, init.avalsPtr, hl,
    by rw [hother pF hpv]; exact hpos, by rw [hother cF hcv]; exact hcrd,
    blk0, blk, hab, hb, by rw [h3]; exact halive, by rw [h2]; exact haown, by rw [h1]; exact haty, h4, h5⟩

/-! ### A4: assemble ∘ compute = evaluate; re-running compute -/

/-- **A4 (assemble, then compute, yields what evaluate yields).** Under the hypotheses of
`sparse1_kernel_correct` (S1) and with different records for output and input (`ta ≠ tb`): from the same
kernel-call state `σ`,
* the `assemble` function runs and returns `0` (state `oA.st`);
* the `compute` function, called next on the same memory (`nextCall σ oA.st`: the parameter environment of
  the call, heap and records as `assemble` left them), runs and returns `0` (state `oC.st`) WITHOUT allocating
  (`oC.st.heap.length = oA.st.heap.length`) and WITHOUT touching any tensor record
  (`oC.st.tensors = oA.st.tensors`);
* the `evaluate` function runs from `σ` and returns `0` (state `oE.st`);
and the output record after assemble+compute (slots `pC`, `cC`, `vals` `vC`) and after evaluate (`pE`, `cE`,
`vE`) describe the same tensor: the `pos` blocks are EQUAL (`[0, m]`), the `crd` blocks are EQUAL (`b`'s
coordinates), and the `vals` blocks are live output `float` blocks of the same length `m + 1` whose first `m`
cells are equal, namely `valueF ofRat (b ↦ cellsB j) e`. (The last cell is scratch in both; block ids are not
compared.) -/
theorem sparse1_assemble_compute_eq_evaluate (ofRat : Rat → F) (cap : Option Int) (a : Alg.DAssign)
    (formats : Formats) (i : String) (outT bT : TensorId) (e : IdExpr)
    (hout : tensorId 0 a.tname formats a.tidx = some outT)
    (ho : isSp i outT = true) (he : isExpr i bT e = true) (hf : sparseFormats formats = true)
    (hidx : a.tidx = [i]) (hrhs : Dense1.rhsIdx i a.rhs = true) (ok : KernelOK formats i outT bT)
    (hk0 : 1 ≤ capVal cap) (hk1 : capVal cap < 2147483648)
    (ta tb : Nat) (hab : ta ≠ tb) (atr btr : TensorRec F) (n : Int) (m bpb bcb bvb : Nat) (crdB : Nat → Int)
    (cellsB : Nat → F) (σ : State F)
    (init : Init outT bT ta tb atr btr n m bpb bcb bvb crdB cellsB σ)
    (hm : m ≤ 1073741824)
    (hsorted : ∀ j k, j < k → k < m → crdB j < crdB k)
    (hrng : ∀ j, j < m → -2147483648 ≤ crdB j ∧ crdB j < 2147483648)
    (hfin : ∀ q, q < m → ToIr.AllFinite ofRat (fun _ => cellsB q) e)
    (fA fC fE : Func F)
    (hgenA : generateIr ofRat cap a formats (graph i outT e) .assemble = .ok fA)
    (hgenC : generateIr ofRat cap a formats (graph i outT e) .compute = .ok fC)
    (hgenE : generateIr ofRat cap a formats (graph i outT e) .evaluate = .ok fE)
    (fuel : Nat) (hfuel : m + 1 ≤ fuel) :
    ∃ oA oC oE,
      exec fuel fA.body σ = .ok oA ∧ oA.ret = some (.int 0) ∧
      exec fuel fC.body (nextCall σ oA.st) = .ok oC ∧ oC.ret = some (.int 0) ∧
      oC.st.heap.length = oA.st.heap.length ∧ oC.st.tensors = oA.st.tensors ∧
      exec fuel fE.body σ = .ok oE ∧ oE.ret = some (.int 0) ∧
      ∃ trC trE pC cC vC pE cE vE blkC blkE,
        oC.st.tensors[ta]? = some trC ∧ oE.st.tensors[ta]? = some trE ∧
        trC.slots = atr.slots.set 0 (some (.ptr pC 0, .ptr cC 0)) ∧ trC.vals = .ptr vC 0 ∧
        trE.slots = atr.slots.set 0 (some (.ptr pE 0, .ptr cE 0)) ∧ trE.vals = .ptr vE 0 ∧
        trC.owner = trE.owner ∧ trC.order = trE.order ∧ trC.dimsBlk = trE.dimsBlk ∧
        oC.st.heap[pC]? = some ⟨.int, [some (.int 0), some (.int m)], .output, true⟩ ∧
        oC.st.heap[pC]? = oE.st.heap[pE]? ∧
        oC.st.heap[cC]? = some ⟨.int, (List.range m).map (fun j => some (.int (crdB j))), .output, true⟩ ∧
        oC.st.heap[cC]? = oE.st.heap[cE]? ∧
        oC.st.heap[vC]? = some blkC ∧ oE.st.heap[vE]? = some blkE ∧
        blkC.ty = blkE.ty ∧ blkC.owner = blkE.owner ∧ blkC.live = blkE.live ∧
        blkC.cells.length = m + 1 ∧ blkE.cells.length = m + 1 ∧
        (∀ j, j < m → blkC.cells[j]? = blkE.cells[j]?) ∧
        (∀ j, j < m → blkC.cells[j]? = some (some (.flt (ToIr.valueF ofRat (fun _ => cellsB j) e)))) ∧
        (∀ k, k ≠ ta → oC.st.tensors[k]? = σ.tensors[k]?) ∧
        (∀ k, k < σ.heap.length → oC.st.heap[k]? = σ.heap[k]?) := by
  -- assemble
  obtain ⟨oA, eA, rA, _, hpA⟩ : ∃ o, exec fuel fA.body σ = .ok o ∧ o.ret = some (.int 0) ∧ o.iters = m ∧
      KernelPostA ta atr m crdB σ o.st := by
    rw [sparse1_generateIr_assemble_eq ofRat cap a formats i outT bT e hout ho he hf hidx hrhs] at hgenA
    cases hgenA
    exact kernel_runsA cap formats i outT bT ho ok hk0 hk1 init hm hrng fuel hfuel
  obtain ⟨trA, pF, cF, vF, vblkA, h1, h2, h3, h4, h5, h6, h7, h8, h9, h10, h11, h12, h13, h14, h15, h16, h17,
    h18, h19, initC⟩ := initC_after_assemble init hab hpA
  -- compute
  obtain ⟨oC, eC, rC, _, htC, hlC, hoC, blk0, blkC, hb0, hbC, c1, c2, c3, c4, c5, _⟩ :=
    sparse1_compute_correct ofRat cap a formats i outT bT e hout ho he hf hidx hrhs ok ta tb trA btr n m bpb
      bcb bvb crdB cellsB vF (nextCall σ oA.st) initC (by omega) hsorted hrng hfin fC hgenC fuel hfuel
  have hb0' : oA.st.heap[vF]? = some blk0 := hb0
  rw [h15] at hb0'; cases hb0'
  -- evaluate
  obtain ⟨oE, eE, rE, _, ⟨trE, pE, cE, vE, vblkE, g1, g2, g3, g4, g5, g6, _, _, _, _, _, _, g13, g14, g15, g16,
    g17, g18, g19, g20⟩, _⟩ :=
    sparse1_kernel_correct ofRat cap a formats i outT bT e hout ho he hf hidx hrhs ok hk0 hk1 ta tb atr btr n m
      bpb bcb bvb crdB cellsB σ init hm hsorted hrng hfin fE hgenE fuel hfuel
  have hposC : oC.st.heap[pF]? = some ⟨.int, [some (.int 0), some (.int m)], .output, true⟩ := by
    rw [hoC pF h11]; exact h13
  have hcrdC : oC.st.heap[cF]? =
      some ⟨.int, (List.range m).map (fun j => some (.int (crdB j))), .output, true⟩ := by
    rw [hoC cF h12]; exact h14
  refine ⟨oA, oC, oE, eA, rA, eC, rC, hlC, htC, eE, rE, trA, trE, pF, cF, vF, pE, cE, vE, blkC, vblkE,
    by rw [htC]; exact h1, g1, h5, h6, g5, g6, by rw [h2, g2], by rw [h3, g3], by rw [h4, g4],
    hposC, by rw [hposC, g13], hcrdC, by rw [hcrdC, g14], hbC, g15, by rw [c1, h18, g18],
    by rw [c2, h17, g17], by rw [c3, h16, g16], by rw [c4, h19], g19, ?_, c5, ?_, ?_⟩
  · intro j hj
    rw [c5 j hj, g20 j hj]
  · intro k hk
    rw [htC]
    exact hpA.otherRecs k hk
  · intro k hk
    rw [hoC k (by omega)]
    exact hpA.heap k hk

/-- **A4, re-running `compute` with new input values.** Let `σ` be a state from which `compute` may be called
(`InitC`, e.g. the state after `assemble`), with input values `cellsB`; run `compute` (→ `o1.st`). Let `σ2` be
ANY state in which the next call may start after the caller has overwritten the input's VALUES: the parameter
environment of `σ`, the tensor records of `o1.st`, a heap of the same length that agrees with `o1.st`'s
everywhere except at `b`'s `vals` block `bvb`, which is now some live `float` block whose first `m` cells hold
`cellsB'` (same coordinates `crdB`; every sub-result of `e` finite). Then `compute` runs again from `σ2`,
returns `0`, and in its final state `o2.st`
* all tensor records are still those of the FIRST initial state `σ` and the heap still has the length of
  `σ`'s heap: neither call allocated or touched the structure;
* every block other than the output's `vals` block `vF` and `b`'s `vals` block is as in `σ` (in particular the
  output's `pos`/`crd` blocks);
* block `vF` — the same block — has its original type, owner, liveness and length and now holds the NEW values
  `valueF ofRat (b ↦ cellsB' j) e` in its first `m` cells. -/
theorem sparse1_compute_rerun (ofRat : Rat → F) (cap : Option Int) (a : Alg.DAssign) (formats : Formats)
    (i : String) (outT bT : TensorId) (e : IdExpr)
    (hout : tensorId 0 a.tname formats a.tidx = some outT)
    (ho : isSp i outT = true) (he : isExpr i bT e = true) (hf : sparseFormats formats = true)
    (hidx : a.tidx = [i]) (hrhs : Dense1.rhsIdx i a.rhs = true) (ok : KernelOK formats i outT bT)
    (ta tb : Nat) (atr btr : TensorRec F) (n : Int) (m bpb bcb bvb : Nat) (crdB : Nat → Int)
    (cellsB cellsB' : Nat → F) (vF : Nat) (σ : State F)
    (init : InitC outT bT ta tb atr btr n m bpb bcb bvb crdB cellsB vF σ)
    (hm : m < 2147483648)
    (hsorted : ∀ j k, j < k → k < m → crdB j < crdB k)
    (hrng : ∀ j, j < m → -2147483648 ≤ crdB j ∧ crdB j < 2147483648)
    (hfin : ∀ q, q < m → ToIr.AllFinite ofRat (fun _ => cellsB q) e)
    (hfin' : ∀ q, q < m → ToIr.AllFinite ofRat (fun _ => cellsB' q) e)
    (f : Func F) (hgen : generateIr ofRat cap a formats (graph i outT e) .compute = .ok f)
    (fuel : Nat) (hfuel : m + 1 ≤ fuel) :
    ∃ o1, exec fuel f.body σ = .ok o1 ∧ o1.ret = some (.int 0) ∧
      o1.st.tensors = σ.tensors ∧ o1.st.heap.length = σ.heap.length ∧
      ∀ σ2 : State F, σ2.vars = σ.vars → σ2.tensors = o1.st.tensors →
        σ2.heap.length = o1.st.heap.length → (∀ k, k ≠ bvb → σ2.heap[k]? = o1.st.heap[k]?) →
        (∃ blk, σ2.heap[bvb]? = some blk ∧ blk.live = true ∧ blk.ty = .float ∧
          ∀ j, j < m → blk.cells[j]? = some (some (.flt (cellsB' j)))) →
        ∃ o2, exec fuel f.body σ2 = .ok o2 ∧ o2.ret = some (.int 0) ∧ o2.iters = m ∧
          o2.st.tensors = σ.tensors ∧ o2.st.heap.length = σ.heap.length ∧
          (∀ k, k ≠ vF → k ≠ bvb → o2.st.heap[k]? = σ.heap[k]?) ∧
          ∃ blk0 blk, σ.heap[vF]? = some blk0 ∧ o2.st.heap[vF]? = some blk ∧ blk.ty = blk0.ty ∧
            blk.owner = blk0.owner ∧ blk.live = blk0.live ∧ blk.cells.length = blk0.cells.length ∧
            (∀ j, j < m → blk.cells[j]? = some (some (.flt (ToIr.valueF ofRat (fun _ => cellsB' j) e)))) ∧
            (∀ j, m ≤ j → blk.cells[j]? = blk0.cells[j]?) := by
  obtain ⟨o1, e1, r1, _, ht1, hl1, ho1, blk0, blk1, hb0, hb1, a1, a2, a3, a4, _, a6⟩ :=
    sparse1_compute_correct ofRat cap a formats i outT bT e hout ho he hf hidx hrhs ok ta tb atr btr n m bpb
      bcb bvb crdB cellsB vF σ init hm hsorted hrng hfin f hgen fuel hfuel
  refine ⟨o1, e1, r1, ht1, hl1, ?_⟩
  intro σ2 hv ht hl hh hval
  obtain ⟨d1, d2, d3, d4⟩ := init.int_blocks_ne
  obtain ⟨ablk, hab, halive, haown, haty, halen⟩ := init.vblk
  rw [hab] at hb0; cases hb0
  have hvF2 : σ2.heap[vF]? = some blk1 := by rw [hh vF init.vne.2.2]; exact hb1
  have init2 : InitC outT bT ta tb atr btr n m bpb bcb bvb crdB cellsB' vF σ2 :=
    init.transport hv (by rw [ht, ht1])
      (by rw [hh _ d2, ho1 _ d1])
      (by rw [hh _ d3, ho1 _ (Ne.symm init.vne.1)])
      (by rw [hh _ d4, ho1 _ (Ne.symm init.vne.2.1)])
      hval
      ⟨blk1, hvF2, by rw [a3]; exact halive, by rw [a2]; exact haown, by rw [a1]; exact haty,
        by rw [a4]; exact halen⟩
  obtain ⟨o2, e2, r2, it2, ht2, hl2, ho2, blk0', blk2, hb0', hb2, b1, b2, b3, b4, b5, b6⟩ :=
    sparse1_compute_correct ofRat cap a formats i outT bT e hout ho he hf hidx hrhs ok ta tb atr btr n m bpb
      bcb bvb crdB cellsB' vF σ2 init2 hm hsorted hrng hfin' f hgen fuel hfuel
  rw [hvF2] at hb0'; cases hb0'
  refine ⟨o2, e2, r2, it2, by rw [ht2, ht, ht1], by rw [hl2, hl, hl1], ?_, blk0, blk2, hab, hb2,
    by rw [b1, a1], by rw [b2, a2], by rw [b3, a3], by rw [b4, a4], b5, ?_⟩
  · intro k hk1 hk2
    rw [ho2 k hk1, hh k hk2, ho1 k hk1]
  · intro j hj
    rw [b6 j hj, a6 j hj]

/-! ### A5: exact instance -/

/-- **A5 (exact instance of A4).** Over the exact carrier `Rat` (every value finite, literals through `id`)
no finiteness hypothesis is left and the values `compute` stores after `assemble` are the mathematical meaning
`Graph.value` of `e` at the entries of `b`: both calls return `0`, `compute` allocates nothing and changes no
record, and the output record points to `pos = [0, m]`, `crd` = `b`'s coordinates and a `vals` block of `m +
1` cells with `vals[j] = value (b ↦ cellsB j) e` for `j < m`. -/
theorem sparse1_assemble_compute_exact (cap : Option Int) (a : Alg.DAssign)
    (formats : Formats) (i : String) (outT bT : TensorId) (e : IdExpr)
    (hout : tensorId 0 a.tname formats a.tidx = some outT)
    (ho : isSp i outT = true) (he : isExpr i bT e = true) (hf : sparseFormats formats = true)
    (hidx : a.tidx = [i]) (hrhs : Dense1.rhsIdx i a.rhs = true) (ok : KernelOK formats i outT bT)
    (hk0 : 1 ≤ capVal cap) (hk1 : capVal cap < 2147483648)
    (ta tb : Nat) (hab : ta ≠ tb) (atr btr : TensorRec Rat) (n : Int) (m bpb bcb bvb : Nat)
    (crdB : Nat → Int) (cellsB : Nat → Rat) (σ : State Rat)
    (init : Init outT bT ta tb atr btr n m bpb bcb bvb crdB cellsB σ)
    (hm : m ≤ 1073741824)
    (hsorted : ∀ j k, j < k → k < m → crdB j < crdB k)
    (hrng : ∀ j, j < m → -2147483648 ≤ crdB j ∧ crdB j < 2147483648)
    (fA fC : Func Rat)
    (hgenA : generateIr id cap a formats (graph i outT e) .assemble = .ok fA)
    (hgenC : generateIr id cap a formats (graph i outT e) .compute = .ok fC)
    (fuel : Nat) (hfuel : m + 1 ≤ fuel) :
    ∃ oA oC,
      exec fuel fA.body σ = .ok oA ∧ oA.ret = some (.int 0) ∧
      exec fuel fC.body (nextCall σ oA.st) = .ok oC ∧ oC.ret = some (.int 0) ∧
      oC.st.heap.length = oA.st.heap.length ∧ oC.st.tensors = oA.st.tensors ∧
      ∃ tr' pF cF vF vblk, oC.st.tensors[ta]? = some tr' ∧
        tr'.slots = atr.slots.set 0 (some (.ptr pF 0, .ptr cF 0)) ∧ tr'.vals = .ptr vF 0 ∧
        oC.st.heap[pF]? = some ⟨.int, [some (.int 0), some (.int m)], .output, true⟩ ∧
        oC.st.heap[cF]? = some ⟨.int, (List.range m).map (fun j => some (.int (crdB j))), .output, true⟩ ∧
        oC.st.heap[vF]? = some vblk ∧ vblk.cells.length = m + 1 ∧
        ∀ j, j < m → vblk.cells[j]? = some (some (.flt (value (fun _ => cellsB j) e))) := by
  obtain ⟨fE, hgenE⟩ : ∃ fE, generateIr (F := Rat) id cap a formats (graph i outT e) .evaluate = .ok fE :=
    ⟨_, sparse1_generateIr_eq id cap a formats i outT bT e hout ho he hf hidx hrhs⟩
  obtain ⟨oA, oC, oE, eA, rA, eC, rC, hl, ht, _, _, trC, trE, pC, cC, vC, pE, cE, vE, blkC, blkE, h1, _, h3, h4,
    _, _, _, _, _, h10, _, h12, _, h14, _, _, _, _, h19, _, _, h22, _⟩ :=
    sparse1_assemble_compute_eq_evaluate id cap a formats i outT bT e hout ho he hf hidx hrhs ok hk0 hk1 ta tb
      hab atr btr n m bpb bcb bvb crdB cellsB σ init hm hsorted hrng (fun q _ => ToIr.allFinite_rat _ _ _)
      fA fC fE hgenA hgenC hgenE fuel hfuel
  refine ⟨oA, oC, eA, rA, eC, rC, hl, ht, trC, pC, cC, vC, blkC, h1, h3, h4, h10, h12, h14, h19, ?_⟩
  intro j hj
  rw [h22 j hj, ToIr.valueF_rat]

/-! ### non-vacuity: `a(i) = 2 * b(i)`, `b = {1: 2.0, 3: 5.0}`, dimension 5, initial capacity 1 -/

/-- the two records of the instance are different -/
theorem exRecsNe : (0 : Nat) ≠ 1 := by decide

/-- **A1–A4 are not vacuous** (over `Int`, initial capacity 1 — `assemble` reallocates both `crd` and `vals`):
on the closed instance of `C01Sparse1.lean` every hypothesis holds, `generateIr` produces the three kernels,
`assemble` returns `0`, `compute` called next returns `0` without allocating, and the output record then
points to `pos = [0, 2]`, `crd = [1, 3]`, `vals = [4, 10, ·]` (3 cells) — what `evaluate` leaves (the example
of `C01Sparse1.lean`). -/
example : ∃ fA fC oA oC,
    generateIr exOfRat (some 1) exAssign exFormats (graph "i" exOut exE) .assemble = .ok fA ∧
    generateIr exOfRat (some 1) exAssign exFormats (graph "i" exOut exE) .compute = .ok fC ∧
    exec 3 fA.body (exStateOf (F := Int) id) = .ok oA ∧ oA.ret = some (.int 0) ∧
    exec 3 fC.body (nextCall (exStateOf (F := Int) id) oA.st) = .ok oC ∧ oC.ret = some (.int 0) ∧
    oC.st.heap.length = oA.st.heap.length ∧ oC.st.tensors = oA.st.tensors ∧
    ∃ tr' pF cF vF vblk, oC.st.tensors[0]? = some tr' ∧
      tr'.slots = [some (.ptr pF 0, .ptr cF 0)] ∧ tr'.vals = .ptr vF 0 ∧
      oC.st.heap[pF]? = some ⟨.int, [some (.int 0), some (.int 2)], .output, true⟩ ∧
      oC.st.heap[cF]? = some ⟨.int, [some (.int 1), some (.int 3)], .output, true⟩ ∧
      oC.st.heap[vF]? = some vblk ∧ vblk.cells.length = 3 ∧
      vblk.cells[0]? = some (some (.flt 4)) ∧ vblk.cells[1]? = some (some (.flt 10)) := by
  have hgenA := sparse1_generateIr_assemble_eq exOfRat (some 1) exAssign exFormats "i" exOut exB exE
    (by decide) (by decide) (by decide) (by decide) rfl (by decide)
  have hgenC := sparse1_generateIr_compute_eq exOfRat (some 1) exAssign exFormats "i" exOut exB exE
    (by decide) (by decide) (by decide) (by decide) rfl (by decide)
  have hgenE := sparse1_generateIr_eq exOfRat (some 1) exAssign exFormats "i" exOut exB exE (by decide)
    (by decide) (by decide) (by decide) rfl (by decide)
  obtain ⟨oA, oC, oE, eA, rA, eC, rC, hl, ht, _, _, trC, trE, pC, cC, vC, pE, cE, vE, blkC, blkE, h1, _, h3, h4,
    _, _, _, _, _, h10, _, h12, _, h14, _, _, _, _, h19, _, _, h22, _⟩ :=
    sparse1_assemble_compute_eq_evaluate exOfRat (some 1) exAssign exFormats "i" exOut exB exE (by decide)
      (by decide) (by decide) (by decide) rfl (by decide) exKernelOK (by decide) (by decide) 0 1 exRecsNe _ _ 5
      2 2 3 4 exCrd (exCells (F := Int) id) _ (exInitOf (F := Int) id) (by decide) exSorted exRange
      (fun q _ => ToIr.Ex.allFinite_int _ _ _) _ _ _ hgenA hgenC hgenE 3 (by decide)
  exact ⟨_, _, oA, oC, hgenA, hgenC, eA, rA, eC, rC, hl, ht, trC, pC, cC, vC, blkC, h1, h3, h4, h10, h12, h14,
    h19, h22 0 (by decide), h22 1 (by decide)⟩

/-- **A2 alone on the instance**: after `assemble` (capacity 1) the output record points to `pos = [0, 2]`,
`crd = [1, 3]` and a `vals` block of exactly 3 cells -/
example : ∃ f o, generateIr exOfRat (some 1) exAssign exFormats (graph "i" exOut exE) .assemble = .ok f ∧
    exec 3 f.body (exStateOf (F := Int) id) = .ok o ∧ o.ret = some (.int 0) ∧ o.iters = 2 ∧
    ∃ tr' pF cF vF vblk, o.st.tensors[0]? = some tr' ∧
      tr'.slots = [some (.ptr pF 0, .ptr cF 0)] ∧ tr'.vals = .ptr vF 0 ∧
      o.st.heap[pF]? = some ⟨.int, [some (.int 0), some (.int 2)], .output, true⟩ ∧
      o.st.heap[cF]? = some ⟨.int, [some (.int 1), some (.int 3)], .output, true⟩ ∧
      o.st.heap[vF]? = some vblk ∧ vblk.live = true ∧ vblk.ty = .float ∧ vblk.cells.length = 3 := by
  have hgen := sparse1_generateIr_assemble_eq exOfRat (some 1) exAssign exFormats "i" exOut exB exE
    (by decide) (by decide) (by decide) (by decide) rfl (by decide)
  obtain ⟨o, eo, hret, hit, ⟨tr', pF, cF, vF, vblk, h1, _, _, _, h5, h6, _, _, _, _, _, _, h13, h14, h15, h16, _,
    h18, h19⟩, _⟩ :=
    sparse1_assemble_correct exOfRat (some 1) exAssign exFormats "i" exOut exB exE (by decide) (by decide)
      (by decide) (by decide) rfl (by decide) exKernelOK (by decide) (by decide) 0 1 _ _ 5 2 2 3 4 exCrd
      (exCells (F := Int) id) _ (exInitOf (F := Int) id) (by decide) exRange _ hgen 3 (by decide)
  exact ⟨_, o, hgen, eo, hret, hit, tr', pF, cF, vF, vblk, h1, h5, h6, h13, h14, h15, h16, h18, h19⟩

/-- new values of `b` for the re-run: `b = {1: 7, 3: 9}` -/
def exCells' : Nat → Int := fun j => [7, 9].getD j 0

/-- **the re-run is not vacuous**: on the instance, after `assemble` and a first `compute` (values `[4, 10]`),
the caller overwrites `b`'s values with `{1: 7, 3: 9}` (block 4) and calls `compute` again: it returns `0`,
records and heap length are still those `assemble` left, and the SAME `vals` block now holds `[14, 18, ·]`. -/
example : ∃ fA fC oA o1 o2,
    generateIr exOfRat (some 1) exAssign exFormats (graph "i" exOut exE) .assemble = .ok fA ∧
    generateIr exOfRat (some 1) exAssign exFormats (graph "i" exOut exE) .compute = .ok fC ∧
    exec 3 fA.body (exStateOf (F := Int) id) = .ok oA ∧
    exec 3 fC.body (nextCall (exStateOf (F := Int) id) oA.st) = .ok o1 ∧
    exec 3 fC.body ⟨(exStateOf (F := Int) id).vars,
      o1.st.heap.set 4 ⟨.float, [some (.flt 7), some (.flt 9)], .input, true⟩, o1.st.tensors⟩ = .ok o2 ∧
    o2.ret = some (.int 0) ∧ o2.st.tensors = oA.st.tensors ∧ o2.st.heap.length = oA.st.heap.length ∧
    ∃ tr' vF vblk, o2.st.tensors[0]? = some tr' ∧ tr'.vals = .ptr vF 0 ∧ o2.st.heap[vF]? = some vblk ∧
      vblk.cells[0]? = some (some (.flt 14)) ∧ vblk.cells[1]? = some (some (.flt 18)) := by
  have hgenA := sparse1_generateIr_assemble_eq exOfRat (some 1) exAssign exFormats "i" exOut exB exE
    (by decide) (by decide) (by decide) (by decide) rfl (by decide)
  have hgenC := sparse1_generateIr_compute_eq exOfRat (some 1) exAssign exFormats "i" exOut exB exE
    (by decide) (by decide) (by decide) (by decide) rfl (by decide)
  obtain ⟨oA, eA, _, _, hrec, hother, htl, hheap⟩ :=
    sparse1_assemble_correct exOfRat (some 1) exAssign exFormats "i" exOut exB exE (by decide) (by decide)
      (by decide) (by decide) rfl (by decide) exKernelOK (by decide) (by decide) 0 1 _ _ 5 2 2 3 4 exCrd
      (exCells (F := Int) id) _ (exInitOf (F := Int) id) (by decide) exRange _ hgenA 3 (by decide)
  obtain ⟨tr', pF, cF, vF, vblk, h1, _, _, _, _, h6, _, _, _, _, _, _, _, _, _, _, _, _, _, initC⟩ :=
    initC_after_assemble (exInitOf (F := Int) id) exRecsNe ⟨hrec, hother, htl, hheap⟩
  obtain ⟨o1, e1, _, _, hl1, hre⟩ :=
    sparse1_compute_rerun exOfRat (some 1) exAssign exFormats "i" exOut exB exE (by decide) (by decide)
      (by decide) (by decide) rfl (by decide) exKernelOK 0 1 tr' _ 5 2 2 3 4 exCrd (exCells (F := Int) id)
      exCells' vF _ initC (by decide) exSorted exRange (fun q _ => ToIr.Ex.allFinite_int _ _ _)
      (fun q _ => ToIr.Ex.allFinite_int _ _ _) _ hgenC 3 (by decide)
  have h4 : 4 < o1.st.heap.length := by
    rw [hl1]
    show 4 < oA.st.heap.length
    exact lt_length_of_getElem? (x := ⟨.float, [some (.flt 2), some (.flt 5)], .input, true⟩)
      (by rw [hheap 4 (by decide)]; rfl)
  obtain ⟨o2, e2, r2, _, ht2, hl2, _, blk0, blk2, _, hb2, _, _, _, _, b5, _⟩ :=
    hre ⟨(exStateOf (F := Int) id).vars,
      o1.st.heap.set 4 ⟨.float, [some (.flt 7), some (.flt 9)], .input, true⟩, o1.st.tensors⟩ rfl rfl
      (by simp) (fun k hk => List.getElem?_set_ne (Ne.symm hk))
      ⟨_, List.getElem?_set_self h4, rfl, rfl, by
        intro j hj
        match j, hj with
        | 0, _ => rfl
        | 1, _ => rfl⟩
  exact ⟨_, _, oA, o1, o2, hgenA, hgenC, eA, e1, e2, r2, ht2, hl2, tr', vF, blk2, by rw [ht2]; exact h1, h6, hb2,
    b5 0 (by decide), b5 1 (by decide)⟩

/-- **A5 is not vacuous**: the same instance over `Rat`, default initial capacity; the values stored by
`compute` after `assemble` are `Graph.value` of `2 * b(i)` at the entries of `b` -/
example : ∃ (fA fC : Func Rat) (oA oC : Out Rat),
    generateIr (F := Rat) id none exAssign exFormats (graph "i" exOut exE) .assemble = .ok fA ∧
    generateIr (F := Rat) id none exAssign exFormats (graph "i" exOut exE) .compute = .ok fC ∧
    exec 3 fA.body (exStateOf (fun z => (z : Rat))) = .ok oA ∧ oA.ret = some (.int 0) ∧
    exec 3 fC.body (nextCall (exStateOf (fun z => (z : Rat))) oA.st) = .ok oC ∧ oC.ret = some (.int 0) ∧
    ∃ (cF vF : Nat) (vblk : Block Rat),
      oC.st.heap[cF]? = some ⟨.int, [some (.int 1), some (.int 3)], .output, true⟩ ∧
      oC.st.heap[vF]? = some vblk ∧
      ∀ j, j < 2 → vblk.cells[j]? = some (some (.flt (value
        (fun _ => exCells (fun z => (z : Rat)) j) exE))) := by
  have hgenA := sparse1_generateIr_assemble_eq (F := Rat) id none exAssign exFormats "i" exOut exB exE
    (by decide) (by decide) (by decide) (by decide) rfl (by decide)
  have hgenC := sparse1_generateIr_compute_eq (F := Rat) id none exAssign exFormats "i" exOut exB exE
    (by decide) (by decide) (by decide) (by decide) rfl (by decide)
  obtain ⟨oA, oC, eA, rA, eC, rC, _, _, tr', pF, cF, vF, vblk, _, _, _, _, h5, h6, _, h8⟩ :=
    sparse1_assemble_compute_exact none exAssign exFormats "i" exOut exB exE (by decide) (by decide)
      (by decide) (by decide) rfl (by decide) exKernelOK (by decide) (by decide) 0 1 exRecsNe _ _ 5 2 2 3 4
      exCrd (exCells (fun z => (z : Rat))) _ (exInitOf (fun z => (z : Rat))) (by decide) exSorted exRange
      _ _ hgenA hgenC 3 (by decide)
  exact ⟨_, _, oA, oC, hgenA, hgenC, eA, rA, eC, rC, cF, vF, vblk, h5, h6, h8⟩

end TV.Sparse1
